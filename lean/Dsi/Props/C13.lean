/-
  C13 — the four in-memory word streams (`MemR` zero-extended / strict, `MemW` slice / vector)
  behave as an array with a cursor (`ArrCur`).
-/
import Dsi.Impl.MemWord
import Dsi.Impl.MemWordSpec
namespace Dsi

/-- abstraction of a reader: the words as numbers and the cursor -/
def absR {W : Nat} (m : MemR W) : ArrCur :=
  { kind := if m.strict then .readerStrict else .readerZeroExt,
    arr := m.data.map BitVec.toNat, cur := m.pos }

/-- abstraction of a writer -/
def absW {W : Nat} (m : MemW W) : ArrCur :=
  { kind := if m.growable then .writerVec else .writerSlice,
    arr := m.data.map BitVec.toNat, cur := m.pos }

namespace SmallL
@[simp] theorem res_map_ok {α β} (f : α → β) (a : α) : Res.map f (.ok a) = .ok (f a) := rfl
@[simp] theorem res_map_err {α β} (f : α → β) (e : Err) : Res.map f (.err e : Res α) = .err e := rfl
@[simp] theorem res_map_panic {α β} (f : α → β) : Res.map f (.panic : Res α) = .panic := rfl
@[simp] theorem res_map_dpanic {α β} (f : α → β) : Res.map f (.dpanic : Res α) = .dpanic := rfl

theorem map_toNat_getElem? {W : Nat} (l : List (BitVec W)) (i : Nat) :
    (l.map BitVec.toNat)[i]? = (l[i]?).map BitVec.toNat := by simp
end SmallL
open SmallL

/-! ### readers -/

/-- `read_word` of both readers is the specification's `read` -/
theorem memr_read_refines {W : Nat} (m : MemR W) :
    (m.readWord).map (fun (w, m') => (w.toNat, absR m')) = (absR m).read := by
  obtain ⟨data, pos, strict⟩ := m
  unfold MemR.readWord ArrCur.read ArrCur.under absR
  simp only [map_toNat_getElem?]
  cases h : data[pos]? with
  | some w => simp
  | none => cases strict <;> simp

/-- `set_word_pos` of both readers is the specification's `seek` -/
theorem memr_seek_refines {W : Nat} (m : MemR W) (p : Nat) :
    (m.setWordPos p).map absR = (absR m).seek p := by
  obtain ⟨data, pos, strict⟩ := m
  unfold MemR.setWordPos ArrCur.seek absR
  cases strict
  · simp
  · by_cases hp : p ≤ data.length
    · have : ¬ p > data.length := by omega
      simp [hp, this]
    · have : p > data.length := by omega
      simp [hp, this]

theorem memr_pos_refines {W : Nat} (m : MemR W) : m.wordPos = (absR m).cur := rfl
theorem memr_len_refines {W : Nat} (m : MemR W) : m.len = (absR m).arr.length := by simp [MemR.len, absR]

/-- inside the array both readers return the word under the cursor and advance by one -/
theorem memr_read_inside {W : Nat} (m : MemR W) (h : m.pos < m.data.length) :
    m.readWord = .ok (m.data[m.pos], { m with pos := m.pos + 1 }) := by
  unfold MemR.readWord
  rw [List.getElem?_eq_getElem h]

/-- a read beyond the end on the strict reader fails (`UnexpectedEof`); the stream (in particular
    the position) is the unchanged input, and so says the specification -/
theorem memr_strict_read_eof {W : Nat} (m : MemR W) (hs : m.strict = true) (h : m.data.length ≤ m.pos) :
    m.readWord = .err .eof ∧ (absR m).read = .err .eof ∧ (absR m).cur = m.pos := by
  have h1 : m.readWord = .err .eof := by
    unfold MemR.readWord
    rw [List.getElem?_eq_none h]; simp [hs]
  refine ⟨h1, ?_, rfl⟩
  rw [← memr_read_refines, h1]; rfl

/-- the strict reader fails exactly beyond the end -/
theorem memr_strict_read_err_iff {W : Nat} (m : MemR W) (hs : m.strict = true) :
    (∃ e, m.readWord = .err e) ↔ m.data.length ≤ m.pos := by
  constructor
  · rintro ⟨e, he⟩
    by_cases h : m.pos < m.data.length
    · rw [memr_read_inside m h] at he; cases he
    · omega
  · intro h; exact ⟨.eof, (memr_strict_read_eof m hs h).1⟩

/-- the zero-extended reader returns 0 beyond the end and advances -/
theorem memr_zeroext_read_beyond {W : Nat} (m : MemR W) (hs : m.strict = false) (h : m.data.length ≤ m.pos) :
    m.readWord = .ok (0, { m with pos := m.pos + 1 }) := by
  unfold MemR.readWord
  rw [List.getElem?_eq_none h]; simp [hs]

/-- the zero-extended reader never fails -/
theorem memr_zeroext_read_ok {W : Nat} (m : MemR W) (hs : m.strict = false) :
    ∃ w, m.readWord = .ok (w, { m with pos := m.pos + 1 }) := by
  by_cases h : m.pos < m.data.length
  · exact ⟨_, memr_read_inside m h⟩
  · exact ⟨0, memr_zeroext_read_beyond m hs (by omega)⟩

/-- a rejected `set_word_pos` (strict reader, position beyond the end) leaves the position unchanged -/
theorem memr_seek_rejected {W : Nat} (m : MemR W) (p : Nat) :
    (m.setWordPos p = .err .eof ↔ (m.strict = true ∧ p > m.data.length)) ∧
    (m.setWordPos p ≠ .err .eof → m.setWordPos p = .ok { m with pos := p }) := by
  unfold MemR.setWordPos
  by_cases hc : (m.strict && decide (p > m.data.length)) = true
  · rw [if_pos hc]
    simp only [Bool.and_eq_true, decide_eq_true_eq] at hc
    exact ⟨⟨fun _ => hc, fun _ => rfl⟩, fun h => absurd rfl h⟩
  · rw [if_neg hc]
    simp only [Bool.and_eq_true, decide_eq_true_eq] at hc
    exact ⟨⟨fun h => (by cases h), fun h => absurd h hc⟩, fun _ => rfl⟩

/-! ### writers -/

theorem memw_read_refines {W : Nat} (m : MemW W) :
    (m.readWord).map (fun (w, m') => (w.toNat, absW m')) = (absW m).read := by
  obtain ⟨data, pos, growable⟩ := m
  unfold MemW.readWord ArrCur.read ArrCur.under absW
  simp only [map_toNat_getElem?]
  cases h : data[pos]? with
  | some w => simp
  | none => cases growable <;> simp

theorem memw_write_refines {W : Nat} (m : MemW W) (w : BitVec W) :
    (m.writeWord w).map absW = (absW m).write w.toNat := by
  obtain ⟨data, pos, growable⟩ := m
  unfold MemW.writeWord ArrCur.write absW
  by_cases hp : pos < data.length
  · simp [hp, List.map_set]
  · cases growable <;> simp [hp]

theorem memw_seek_refines {W : Nat} (m : MemW W) (p : Nat) :
    (m.setWordPos p).map absW = (absW m).seek p := by
  obtain ⟨data, pos, growable⟩ := m
  unfold MemW.setWordPos ArrCur.seek absW
  by_cases hp : p ≤ data.length
  · have : ¬ p > data.length := by omega
    cases growable <;> simp [hp, this]
  · have : p > data.length := by omega
    cases growable <;> simp [hp, this]

theorem memw_pos_refines {W : Nat} (m : MemW W) : m.wordPos = (absW m).cur := rfl
theorem memw_len_refines {W : Nat} (m : MemW W) : m.len = (absW m).arr.length := by simp [MemW.len, absW]

/-- a read beyond the end of a writer's storage fails and leaves the position where it was -/
theorem memw_read_eof {W : Nat} (m : MemW W) (h : m.data.length ≤ m.pos) :
    m.readWord = .err .eof ∧ (absW m).read = .err .eof ∧ (absW m).cur = m.pos := by
  have h1 : m.readWord = .err .eof := by
    unfold MemW.readWord
    rw [List.getElem?_eq_none h]
  refine ⟨h1, ?_, rfl⟩
  rw [← memw_read_refines, h1]; rfl

theorem memw_read_inside {W : Nat} (m : MemW W) (h : m.pos < m.data.length) :
    m.readWord = .ok (m.data[m.pos], { m with pos := m.pos + 1 }) := by
  unfold MemW.readWord
  rw [List.getElem?_eq_getElem h]

/-- the effect of a successful write on either writer: the word is stored at the cursor, the cursor
    advances, the length becomes `max len (pos + 1)` (growth happens only on the vector), the old
    cells are kept and the new cells between the old end and the cursor are zero -/
theorem memw_write_ok {W : Nat} (m m' : MemW W) (w : BitVec W) (h : m.writeWord w = .ok m') :
    m'.data.length = max m.data.length (m.pos + 1) ∧
    m'.pos = m.pos + 1 ∧ m'.growable = m.growable ∧
    m'.data[m.pos]? = some w ∧
    (∀ i, i < m.data.length → i ≠ m.pos → m'.data[i]? = m.data[i]?) ∧
    (∀ i, m.data.length ≤ i → i < m.pos → m'.data[i]? = some 0) := by
  obtain ⟨data, pos, growable⟩ := m
  unfold MemW.writeWord at h
  simp only at h ⊢
  by_cases hp : pos < data.length
  · rw [if_pos hp] at h
    cases h
    refine ⟨?_, rfl, rfl, ?_, ?_, ?_⟩
    · simp only [List.length_set]; omega
    · simp [hp]
    · intro i hi hne
      rw [List.getElem?_set_ne (by omega)]
    · intro i h1 h2; omega
  · rw [if_neg hp] at h
    cases growable with
    | false => simp at h
    | true =>
      simp only [if_true] at h
      cases h
      refine ⟨?_, rfl, rfl, ?_, ?_, ?_⟩
      · simp only [List.length_append, List.length_replicate, List.length_cons, List.length_nil]; omega
      · rw [List.getElem?_append_right (by simp; omega)]
        simp only [List.length_append, List.length_replicate]
        have : pos - (data.length + (pos - data.length)) = 0 := by omega
        rw [this]; rfl
      · intro i hi hne
        rw [List.append_assoc, List.getElem?_append_left hi]
      · intro i h1 h2
        rw [List.append_assoc, List.getElem?_append_right h1, List.getElem?_append_left (by simp; omega)]
        rw [List.getElem?_replicate]
        simp; omega

/-- writes on the vector always succeed; beyond the end the vector grows (zero fill) -/
theorem memw_vec_write_ok {W : Nat} (m : MemW W) (w : BitVec W) (hg : m.growable = true) :
    ∃ m', m.writeWord w = .ok m' := by
  unfold MemW.writeWord
  by_cases hp : m.pos < m.data.length
  · rw [if_pos hp]; exact ⟨_, rfl⟩
  · rw [if_neg hp, if_pos hg]; exact ⟨_, rfl⟩

/-- the slice refuses (with an error, leaving the stream as it was) exactly the writes beyond its end -/
theorem memw_slice_write_err_iff {W : Nat} (m : MemW W) (w : BitVec W) (hg : m.growable = false) :
    (m.writeWord w = .err .eof ↔ m.data.length ≤ m.pos) ∧
    (m.pos < m.data.length → m.writeWord w = .ok { m with data := m.data.set m.pos w, pos := m.pos + 1 }) := by
  unfold MemW.writeWord
  by_cases hp : m.pos < m.data.length
  · rw [if_pos hp]
    exact ⟨⟨fun h => (by cases h), fun h => (by omega)⟩, fun _ => rfl⟩
  · rw [if_neg hp, hg]
    simp only [Bool.false_eq_true, if_false, true_iff]
    exact ⟨by omega, fun h => absurd h hp⟩

/-- a rejected `set_word_pos` leaves the position unchanged; it is rejected iff beyond the end -/
theorem memw_seek_rejected {W : Nat} (m : MemW W) (p : Nat) :
    (m.setWordPos p = .err .eof ↔ p > m.data.length) ∧
    (m.setWordPos p ≠ .err .eof → m.setWordPos p = .ok { m with pos := p }) := by
  unfold MemW.setWordPos
  by_cases hc : p > m.data.length
  · rw [if_pos hc]
    exact ⟨⟨fun _ => hc, fun _ => rfl⟩, fun h => absurd rfl h⟩
  · rw [if_neg hc]
    exact ⟨⟨fun h => (by cases h), fun h => absurd h hc⟩, fun _ => rfl⟩

/-! ### sequences of operations

  `MemOp` are the operations of the streams; `stepR`/`stepW` apply one to a concrete stream and
  `ArrCur.step` to the specification.  As in the Rust (and in the driver), a failed operation
  returns the error and leaves the stream as it was, ready for the next operation. -/

inductive MemOp (W : Nat) where
  | read
  | write (w : BitVec W)
  | seek (p : Nat)
  | pos
  | len

/-- what an operation answers: a word or number, or nothing, or an error -/
abbrev MemAns := Res (Option Nat)

def ArrCur.step {W : Nat} (a : ArrCur) : MemOp W → MemAns × ArrCur
  | .read => match a.read with
    | .ok (v, a') => (.ok (some v), a')
    | .err e => (.err e, a) | .panic => (.panic, a) | .dpanic => (.dpanic, a)
  | .write w => match a.write w.toNat with
    | .ok a' => (.ok none, a')
    | .err e => (.err e, a) | .panic => (.panic, a) | .dpanic => (.dpanic, a)
  | .seek p => match a.seek p with
    | .ok a' => (.ok none, a')
    | .err e => (.err e, a) | .panic => (.panic, a) | .dpanic => (.dpanic, a)
  | .pos => (.ok (some a.cur), a)
  | .len => (.ok (some a.arr.length), a)

def MemW.step {W : Nat} (m : MemW W) : MemOp W → MemAns × MemW W
  | .read => match m.readWord with
    | .ok (v, m') => (.ok (some v.toNat), m')
    | .err e => (.err e, m) | .panic => (.panic, m) | .dpanic => (.dpanic, m)
  | .write w => match m.writeWord w with
    | .ok m' => (.ok none, m')
    | .err e => (.err e, m) | .panic => (.panic, m) | .dpanic => (.dpanic, m)
  | .seek p => match m.setWordPos p with
    | .ok m' => (.ok none, m')
    | .err e => (.err e, m) | .panic => (.panic, m) | .dpanic => (.dpanic, m)
  | .pos => (.ok (some m.wordPos), m)
  | .len => (.ok (some m.len), m)

/-- the readers have no `write` (nor `len`) operation: sequences for them contain none -/
def MemOp.forReader {W : Nat} : MemOp W → Bool
  | .read | .seek _ | .pos => true
  | _ => false

def MemR.step {W : Nat} (m : MemR W) : MemOp W → MemAns × MemR W
  | .read => match m.readWord with
    | .ok (v, m') => (.ok (some v.toNat), m')
    | .err e => (.err e, m) | .panic => (.panic, m) | .dpanic => (.dpanic, m)
  | .seek p => match m.setWordPos p with
    | .ok m' => (.ok none, m')
    | .err e => (.err e, m) | .panic => (.panic, m) | .dpanic => (.dpanic, m)
  | .pos => (.ok (some m.wordPos), m)
  | .len => (.ok (some m.len), m)
  | .write _ => (.panic, m)       -- not an operation of a reader

/-- run a list of operations, collecting the answers -/
def runMem {σ ο : Type} (step : σ → ο → MemAns × σ) : σ → List ο → List MemAns × σ
  | s, [] => ([], s)
  | s, op :: ops =>
    let (a, s') := step s op
    let (as, s'') := runMem step s' ops
    (a :: as, s'')

theorem memw_step_refines {W : Nat} (m : MemW W) (op : MemOp W) :
    (m.step op).1 = ((absW m).step op).1 ∧ absW (m.step op).2 = ((absW m).step op).2 := by
  cases op with
  | read =>
    have h := memw_read_refines m
    unfold MemW.step ArrCur.step
    cases hr : m.readWord with
    | ok x => obtain ⟨v, m'⟩ := x; rw [hr] at h; simp only [res_map_ok] at h; simp [← h]
    | err e => rw [hr] at h; simp only [res_map_err] at h; simp [← h]
    | panic => rw [hr] at h; simp only [res_map_panic] at h; simp [← h]
    | dpanic => rw [hr] at h; simp only [res_map_dpanic] at h; simp [← h]
  | write w =>
    have h := memw_write_refines m w
    unfold MemW.step ArrCur.step
    cases hr : m.writeWord w with
    | ok x => rw [hr] at h; simp only [res_map_ok] at h; simp [← h, hr]
    | err e => rw [hr] at h; simp only [res_map_err] at h; simp [← h, hr]
    | panic => rw [hr] at h; simp only [res_map_panic] at h; simp [← h, hr]
    | dpanic => rw [hr] at h; simp only [res_map_dpanic] at h; simp [← h, hr]
  | seek p =>
    have h := memw_seek_refines m p
    unfold MemW.step ArrCur.step
    cases hr : m.setWordPos p with
    | ok x => rw [hr] at h; simp only [res_map_ok] at h; simp [← h, hr]
    | err e => rw [hr] at h; simp only [res_map_err] at h; simp [← h, hr]
    | panic => rw [hr] at h; simp only [res_map_panic] at h; simp [← h, hr]
    | dpanic => rw [hr] at h; simp only [res_map_dpanic] at h; simp [← h, hr]
  | pos => exact ⟨rfl, rfl⟩
  | len => simp [MemW.step, ArrCur.step, memw_len_refines]

theorem memr_step_refines {W : Nat} (m : MemR W) (op : MemOp W) (hop : op.forReader = true) :
    (m.step op).1 = ((absR m).step op).1 ∧ absR (m.step op).2 = ((absR m).step op).2 := by
  cases op with
  | read =>
    have h := memr_read_refines m
    unfold MemR.step ArrCur.step
    cases hr : m.readWord with
    | ok x => obtain ⟨v, m'⟩ := x; rw [hr] at h; simp only [res_map_ok] at h; simp [← h]
    | err e => rw [hr] at h; simp only [res_map_err] at h; simp [← h]
    | panic => rw [hr] at h; simp only [res_map_panic] at h; simp [← h]
    | dpanic => rw [hr] at h; simp only [res_map_dpanic] at h; simp [← h]
  | seek p =>
    have h := memr_seek_refines m p
    unfold MemR.step ArrCur.step
    cases hr : m.setWordPos p with
    | ok x => rw [hr] at h; simp only [res_map_ok] at h; simp [← h, hr]
    | err e => rw [hr] at h; simp only [res_map_err] at h; simp [← h, hr]
    | panic => rw [hr] at h; simp only [res_map_panic] at h; simp [← h, hr]
    | dpanic => rw [hr] at h; simp only [res_map_dpanic] at h; simp [← h, hr]
  | pos => exact ⟨rfl, rfl⟩
  | write w => cases hop
  | len => cases hop

/-- any sequence of operations on a writer (slice or vector) gives the answers of the
    specification, and ends in a stream whose abstraction is the specification's final state -/
theorem memw_ops_refine {W : Nat} (m : MemW W) (ops : List (MemOp W)) :
    (runMem MemW.step m ops).1 = (runMem ArrCur.step (absW m) ops).1 ∧
    absW (runMem MemW.step m ops).2 = (runMem ArrCur.step (absW m) ops).2 := by
  induction ops generalizing m with
  | nil => exact ⟨rfl, rfl⟩
  | cons op ops ih =>
    obtain ⟨h1, h2⟩ := memw_step_refines m op
    obtain ⟨i1, i2⟩ := ih (m.step op).2
    simp only [runMem]
    rw [← h2, ← h1, ← i1, ← i2]
    exact ⟨rfl, rfl⟩

/-- the same for the two readers -/
theorem memr_ops_refine {W : Nat} (m : MemR W) (ops : List (MemOp W)) (hops : ∀ op ∈ ops, op.forReader = true) :
    (runMem MemR.step m ops).1 = (runMem ArrCur.step (absR m) ops).1 ∧
    absR (runMem MemR.step m ops).2 = (runMem ArrCur.step (absR m) ops).2 := by
  induction ops generalizing m with
  | nil => exact ⟨rfl, rfl⟩
  | cons op ops ih =>
    obtain ⟨h1, h2⟩ := memr_step_refines m op (hops op (by simp))
    obtain ⟨i1, i2⟩ := ih (m.step op).2 (fun o ho => hops o (by simp [ho]))
    simp only [runMem]
    rw [← h2, ← h1, ← i1, ← i2]
    exact ⟨rfl, rfl⟩

/-- the initial states the driver builds (`handleMW`) are related by the abstraction -/
theorem abs_init {W : Nat} (init : List Nat) (strict growable : Bool) :
    absR ({ data := init.map (BitVec.ofNat W), strict := strict } : MemR W) =
      { kind := if strict then .readerStrict else .readerZeroExt, arr := init.map (· % 2 ^ W) } ∧
    absW ({ data := init.map (BitVec.ofNat W), growable := growable } : MemW W) =
      { kind := if growable then .writerVec else .writerSlice, arr := init.map (· % 2 ^ W) } := by
  simp [absR, absW, Function.comp_def]

/-! ### concrete instances -/

/-- vector writer: writing at the end grows by one; writing beyond the end is not reachable
    (`set_word_pos` refuses positions beyond the end) but would zero-fill -/
example : (MemW.writeWord { data := [1#8, 2#8], pos := 2, growable := true } 7#8) =
    .ok { data := [1#8, 2#8, 7#8], pos := 3, growable := true } := rfl

example : (MemW.writeWord { data := [1#8], pos := 3, growable := true } 7#8) =
    .ok { data := [1#8, 0#8, 0#8, 7#8], pos := 4, growable := true } := rfl

example :
    (runMem MemW.step ({ data := [1#8, 2#8], pos := 1, growable := false } : MemW 8)
      [.read, .write 9#8, .seek 5, .pos, .seek 0, .read, .len]).1 =
      [.ok (some 2), .err .eof, .err .eof, .ok (some 2), .ok none, .ok (some 1), .ok (some 2)] := rfl

example :
    (runMem MemR.step ({ data := [5#8], pos := 0, strict := false } : MemR 8) [.read, .read, .pos]).1 =
      [.ok (some 5), .ok (some 0), .ok (some 2)] ∧
    (runMem ArrCur.step (absR ({ data := [5#8], pos := 0, strict := false } : MemR 8))
      [MemOp.read (W := 8), .read, .pos]).1 = [.ok (some 5), .ok (some 0), .ok (some 2)] := ⟨rfl, rfl⟩

example :
    let m : MemR 8 := { data := [5#8], pos := 1, strict := true }
    m.readWord = .err .eof ∧ (absR m).cur = 1 :=
  ⟨(memr_strict_read_eof _ rfl (by decide)).1, rfl⟩

example (ops : List (MemOp 64)) :
    (runMem MemW.step ({ data := [1#64, 2#64], growable := true } : MemW 64) ops).1 =
    (runMem ArrCur.step { kind := .writerVec, arr := [1, 2] } ops).1 :=
  (memw_ops_refine _ ops).1

end Dsi
