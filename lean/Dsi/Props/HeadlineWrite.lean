/-
  Headline, C04: what the generated code writers deliver on the generated `BufBitWriter`: the
  canonical byte layout of the published codeword (after arbitrary preceding bits), and they return
  what the generated length function computes.  Depends on the translated writer bodies and code
  writers only (no reader body).  See Props/Headline.lean.
-/
import Dsi.Lemmas.HeadlineCodesW
import Dsi.Props.HeadlineImage
import Dsi.Props.HeadlineLen
import Dsi.Props.CodesB
namespace Dsi
namespace Headline
open EqvL CodeBodiesGen Gen

/-- **C01 / C04 for every code of the `Codes` enum, generated writer on generated `BufBitWriter`.** -/
theorem gen_code_write_image {α : Type} (e : Endian) {Ww : Nat} (hWw : 0 < Ww) (h8w : 8 ∣ Ww)
    (hWw64 : Ww < 2 ^ 64) (checks : Bool) (pre : WProg α) {a : α} {bits₀ : List Bool}
    (hpre : pre.run RefW.impl { e := e, W := Ww, checks := checks, cap := none, bits := [] }
      = .ok (a, { e := e, W := Ww, checks := checks, cap := none, bits := bits₀ }))
    (c : CodeId) (v : Nat) (hd : c.Dom v) :
    ∃ (cw : List Bool) (sw : BufW Ww) (k : Nat) (sw' : BufW Ww), c.codeword e v = some cw ∧
      (pre.bind fun _ => genOwnWrite e checks c v).run (genWImpl e) (BufW.new Ww checks none)
        = .ok (cw.length, sw) ∧
      (genWImpl e).flush sw = .ok (k, sw') ∧
      sw'.outBytes e
        = layout e (bits₀ ++ cw ++ List.replicate ((Ww - (bits₀ ++ cw).length % Ww) % Ww) false) := by
  obtain ⟨cw, hcw, hwr⟩ := ownWrite_writes e checks c v hd
  obtain ⟨sw, k, sw', h1, h2, h3⟩ :=
    gen_write_image e hWw h8w hWw64 checks pre hpre (genOwnWrite_eq e checks c v hd) hwr
  exact ⟨cw, sw, k, sw', hcw, h1, h2, h3⟩

/-- … and it is what the generated writer returns on the generated `BufBitWriter` -/
theorem gen_code_write_len {α : Type} (e : Endian) {Ww : Nat} (hWw : 0 < Ww) (h8w : 8 ∣ Ww)
    (hWw64 : Ww < 2 ^ 64) (checks : Bool) (pre : WProg α) {a : α} {bits₀ : List Bool}
    (hpre : pre.run RefW.impl { e := e, W := Ww, checks := checks, cap := none, bits := [] }
      = .ok (a, { e := e, W := Ww, checks := checks, cap := none, bits := bits₀ }))
    (c : CodeId) (v : Nat) (hd : c.Dom v) :
    ∃ (sw : BufW Ww),
      (pre.bind fun _ => genOwnWrite e checks c v).run (genWImpl e) (BufW.new Ww checks none)
        = .ok (genOwnLen c v, sw) := by
  obtain ⟨cw, sw, k, sw', hcw, h1, _, _⟩ := gen_code_write_image e hWw h8w hWw64 checks pre hpre c v hd
  rw [← gen_len_eq' e c v hd hcw] at h1
  exact ⟨sw, h1⟩

theorem writeGammaP_writes (e : Endian) (checks tw : Bool) (n : Nat) (hn : n < 2 ^ 64 - 1) :
    Writes (writeGammaP e checks tw n) e checks (Spec.gamma e n) :=
  writes_of_run_eq (gamma_writes e checks n hn) (fun w he hc => writeGammaP_eq e checks tw n w he hc)

theorem writeDeltaP_writes (e : Endian) (checks td tg : Bool) (n : Nat) (hn : n < 2 ^ 64 - 1) :
    Writes (writeDeltaP e checks td tg n) e checks (Spec.delta e n) :=
  writes_of_run_eq (delta_writes e checks n hn)
    (fun w he hc => writeDeltaP_eq e checks td tg n w he hc)

section tableOptions
variable {α : Type} (e : Endian) {Ww : Nat} (hWw : 0 < Ww) (h8w : 8 ∣ Ww) (hWw64 : Ww < 2 ^ 64)
  (checks : Bool) (pre : WProg α) {a : α} {bits₀ : List Bool}
  (hpre : pre.run RefW.impl { e := e, W := Ww, checks := checks, cap := none, bits := [] }
    = .ok (a, { e := e, W := Ww, checks := checks, cap := none, bits := bits₀ }))
include hWw h8w hWw64 hpre

/-- γ, `write_gamma_param::<tw>` — byte image -/
theorem gen_gamma_write_image (tw : Bool) (n : Nat) (hn : n < 2 ^ 64 - 1) :
    ∃ (sw : BufW Ww) (k : Nat) (sw' : BufW Ww),
      (pre.bind fun _ => TableFnsGen.writeGammaParam e checks tw n).run (genWImpl e)
        (BufW.new Ww checks none) = .ok ((Spec.gamma e n).length, sw) ∧
      (genWImpl e).flush sw = .ok (k, sw') ∧
      sw'.outBytes e = layout e (bits₀ ++ Spec.gamma e n ++
        List.replicate ((Ww - (bits₀ ++ Spec.gamma e n).length % Ww) % Ww) false) :=
  gen_write_image e hWw h8w hWw64 checks pre hpre (TableFnsGen.write_gamma_param_eq e checks tw hn)
    (writeGammaP_writes e checks tw n hn)

/-- δ, `write_delta_param::<td, tg>` — byte image -/
theorem gen_delta_write_image (td tg : Bool) (n : Nat) (hn : n < 2 ^ 64 - 1) :
    ∃ (sw : BufW Ww) (k : Nat) (sw' : BufW Ww),
      (pre.bind fun _ => TableFnsGen.writeDeltaParam e checks td tg n).run (genWImpl e)
        (BufW.new Ww checks none) = .ok ((Spec.delta e n).length, sw) ∧
      (genWImpl e).flush sw = .ok (k, sw') ∧
      sw'.outBytes e = layout e (bits₀ ++ Spec.delta e n ++
        List.replicate ((Ww - (bits₀ ++ Spec.delta e n).length % Ww) % Ww) false) :=
  gen_write_image e hWw h8w hWw64 checks pre hpre (TableFnsGen.write_delta_param_eq e checks td tg hn)
    (writeDeltaP_writes e checks td tg n hn)

/-- ζ₃, `write_zeta3_param::<t>` — byte image (`Spec.zetaWrapped e 3 n` is the published
    `Spec.zeta e 3 n` for `n + 1 < 2^63`: `zeta3_published`) -/
theorem gen_zeta3_write_image (t : Bool) (n : Nat) (hn : n < 2 ^ 64 - 1) :
    ∃ (sw : BufW Ww) (k : Nat) (sw' : BufW Ww),
      (pre.bind fun _ => TableFnsGen.writeZeta3Param e t n).run (genWImpl e)
        (BufW.new Ww checks none) = .ok ((Spec.zetaWrapped e 3 n).length, sw) ∧
      (genWImpl e).flush sw = .ok (k, sw') ∧
      sw'.outBytes e = layout e (bits₀ ++ Spec.zetaWrapped e 3 n ++
        List.replicate ((Ww - (bits₀ ++ Spec.zetaWrapped e 3 n).length % Ww) % Ww) false) :=
  gen_write_image e hWw h8w hWw64 checks pre hpre (TableFnsGen.write_zeta3_param_eq e t hn)
    (writeZeta3P_writes e checks t n hn)

/-- minimal binary — byte image -/
theorem gen_minbin_write_image (x u : Nat) (hu : 1 ≤ u) (h64 : u < 2 ^ 64) (hx : x < u) :
    ∃ (sw : BufW Ww) (k : Nat) (sw' : BufW Ww),
      (pre.bind fun _ => Gen.write_minimal_binary x u).run (genWImpl e)
        (BufW.new Ww checks none) = .ok ((Spec.minimalBinary e x u).length, sw) ∧
      (genWImpl e).flush sw = .ok (k, sw') ∧
      sw'.outBytes e = layout e (bits₀ ++ Spec.minimalBinary e x u ++
        List.replicate ((Ww - (bits₀ ++ Spec.minimalBinary e x u).length % Ww) % Ww) false) :=
  gen_write_image e hWw h8w hWw64 checks pre hpre
    (write_minimal_binary_eq' (by omega) h64 hx) (minbin_writes e checks x u hu h64 hx)

end tableOptions

end Headline
end Dsi
