/-
  The generated VByte readers / writers over bit streams (lean/Dsi/Gen/VByteBodies.lean, produced
  by tools/translate_codes2.py from src/codes/vbyte.rs on every run) against the hand-written
  programs `readVByteBe/Le`, `writeVByteBe/Le` of Dsi/Codes.lean.

  * readers: `Guarded` — the hand-written loops are the generated ones plus the overflow panic
    points (`value + 1`, `shift ≥ 64`, `result + ..`), for every bound `fuel` on the bytes followed;
  * writers: equal for every u64 argument (the fixed 10-byte buffer filled from the end holds
    exactly `vbyteBeBytes v`; the byte count times 8 is what `writeBytesP` adds up).
-/
import Dsi.Codes
import Dsi.Gen.VByteBodies
import Dsi.Props.CodeBodiesGen
namespace Dsi
namespace VByteGen
open Gen CodeBodiesGen

/-! ### arithmetic -/

theorem and127 (b : Nat) : b &&& 127 = b % 128 := Nat.and_two_pow_sub_one_eq_mod b 7
theorem shr7 (b : Nat) : b >>> 7 = b / 128 := by rw [Nat.shiftRight_eq_div_pow]
theorem low7_u8 (b : Nat) : (b &&& 127) % 256 = b % 128 := by rw [and127]; omega

/-- `(value << 7) | (byte & 0x7F)` on a u64 -/
theorem shl7_or (x b : Nat) : ((x <<< 7) % 2 ^ 64) ||| (b % 128) = shl64 x 7 + b % 128 := by
  have h : (x <<< 7) % 2 ^ 64 = (x % 2 ^ 57) <<< 7 := by
    simp only [Nat.shiftLeft_eq]; omega
  have hb : b % 128 < 2 ^ 7 := by omega
  rw [h, ← Nat.shiftLeft_add_eq_or_of_lt hb, shl64, Nat.shiftLeft_eq]
  omega

/-- `0x80 | low7` on a u8 -/
theorem or128 {y : Nat} (hy : y < 128) : 128 ||| y = 128 + y := by
  have := Nat.two_pow_add_eq_or_of_lt (i := 7) (b := y) hy 1
  simpa using this.symm
theorem or128' {y : Nat} (hy : y < 128) : y ||| 128 = y + 128 := by
  rw [Nat.or_comm, or128 hy, Nat.add_comm]

/-! ### readers -/

theorem read_vbyte_be_loop_guarded (fuel : Nat) : ∀ byte value,
    Guarded (vbyteBeReadLoop fuel value byte)
      (Gen.read_vbyte_be_while1 fuel byte value fun _ value => .ret value) := by
  induction fuel with
  | zero => intro _ _; exact Guarded.dpanic _
  | succ fuel ih =>
    intro byte value
    unfold vbyteBeReadLoop Gen.read_vbyte_be_while1
    rw [shr7]
    by_cases hb : byte / 128 = 0
    · simp only [hb, if_true, ne_eq, not_true_eq_false, if_false]; exact Guarded.refl _
    · simp only [hb, if_false, ne_eq, not_false_eq_true, if_true]
      split
      · exact Guarded.dpanic _
      · refine Guarded.readBits _ fun b _ => ?_
        rw [and127, shl7_or]
        exact ih b _

theorem read_vbyte_be_guarded (fuel : Nat) : Guarded (readVByteBe fuel) (Gen.read_vbyte_be fuel) := by
  unfold readVByteBe Gen.read_vbyte_be
  refine Guarded.readBits _ fun b _ => ?_
  rw [and127]
  exact read_vbyte_be_loop_guarded fuel b _

theorem read_vbyte_le_loop_guarded (fuel : Nat) : ∀ result shift,
    Guarded (vbyteLeReadLoop fuel result shift)
      (Gen.read_vbyte_le_loop1 fuel result shift fun result _ => .ret result) := by
  induction fuel with
  | zero => intro _ _; exact Guarded.dpanic _
  | succ fuel ih =>
    intro result shift
    unfold vbyteLeReadLoop Gen.read_vbyte_le_loop1
    split
    · exact Guarded.dpanic _
    · refine Guarded.readBits _ fun b _ => ?_
      simp only [and127, shr7]
      have hs : ((b % 128) <<< shift) % 2 ^ 64 = shl64 (b % 128) shift := by
        rw [shl64, Nat.shiftLeft_eq]
      rw [hs]
      split
      · exact Guarded.dpanic _
      · split
        · exact Guarded.refl _
        · split
          · exact Guarded.dpanic _
          · rename_i h
            have h7 : shift + 7 < 64 := by omega
            rw [one_shl_mod h7]
            exact ih _ _

theorem read_vbyte_le_guarded (fuel : Nat) : Guarded (readVByteLe fuel) (Gen.read_vbyte_le fuel) := by
  unfold readVByteLe Gen.read_vbyte_le
  exact read_vbyte_le_loop_guarded fuel 0 0

/-! ### writers -/

theorem wbind_assoc {α β γ : Type} (p : WProg α) (f : α → WProg β) (g : β → WProg γ) :
    (p.bind f).bind g = p.bind fun a => (f a).bind g := by
  induction p with
  | ret a => rfl
  | panic => rfl
  | dpanic => rfl
  | writeBits v n k ih => simp only [WProg.bind]; congr 1; funext r; exact ih r
  | writeUnary x k ih => simp only [WProg.bind]; congr 1; funext r; exact ih r
  | flush k ih => simp only [WProg.bind]; congr 1; funext r; exact ih r

theorem wbind_ret {α : Type} (p : WProg α) : p.bind .ret = p := by
  induction p with
  | ret a => rfl
  | panic => rfl
  | dpanic => rfl
  | writeBits v n k ih => simp only [WProg.bind]; congr 1; funext r; exact ih r
  | writeUnary x k ih => simp only [WProg.bind]; congr 1; funext r; exact ih r
  | flush k ih => simp only [WProg.bind]; congr 1; funext r; exact ih r

/-- `for &byte in l { write_bits(byte, 8)?; }  Ok(c)` against `writeBytesP l` -/
theorem for_eq (l : List Nat) : ∀ c, Gen.write_vbyte_be_for1 l (.ret (l.length * 8 + c))
    = (writeBytesP l).bind fun r => .ret (r + c) := by
  induction l with
  | nil => intro c; simp [Gen.write_vbyte_be_for1, writeBytesP, WProg.bind]
  | cons b l ih =>
    intro c
    unfold Gen.write_vbyte_be_for1 writeBytesP
    simp only [WProg.bind, wbind_assoc]
    congr 1
    funext _
    have := ih (8 + c)
    rw [← Nat.add_assoc] at this
    simp only [List.length_cons, Nat.add_mul, Nat.one_mul]
    rw [this]
    congr 1; funext r
    simp only [Nat.add_assoc]

theorem set_replicate (p x : Nat) (acc : List Nat) :
    (List.replicate (p + 1) 0 ++ acc).set p x = List.replicate p 0 ++ x :: acc := by
  induction p with
  | zero => rfl
  | succ p ih =>
    rw [List.replicate_succ, List.cons_append, List.set_cons_succ, ih]
    rfl

theorem beLoop_len_ge : ∀ f u (a : List Nat), a.length ≤ (vbyteBeBytesLoop f u a).length := by
  intro f
  induction f with
  | zero => intro u a; simp [vbyteBeBytesLoop]
  | succ f ihf =>
    intro u a
    unfold vbyteBeBytesLoop
    split
    · exact Nat.le_refl _
    · exact Nat.le_trans (by simp) (ihf _ _)

/-- the `while value != 0` loop of `write_vbyte_be` on a buffer `0^pos ++ acc` -/
theorem be_while_eq (k : Nat → List Nat → Nat → WProg Nat) (m : Nat) :
    ∀ fuel value pos acc, value < 128 ^ m → m ≤ pos → m < fuel →
      Gen.write_vbyte_be_while1 fuel value (List.replicate pos 0 ++ acc) pos k
        = k 0 (List.replicate (pos - ((vbyteBeBytesLoop fuel value acc).length - acc.length)) 0
                ++ vbyteBeBytesLoop fuel value acc)
            (pos - ((vbyteBeBytesLoop fuel value acc).length - acc.length)) := by
  induction m with
  | zero =>
    intro fuel value pos acc hv _ hf
    obtain ⟨f, rfl⟩ : ∃ f, fuel = f + 1 := ⟨fuel - 1, by omega⟩
    have h0 : value = 0 := by simpa using hv
    subst h0
    simp [Gen.write_vbyte_be_while1, vbyteBeBytesLoop]
  | succ m ih =>
    intro fuel value pos acc hv hp hf
    obtain ⟨f, rfl⟩ : ∃ f, fuel = f + 1 := ⟨fuel - 1, by omega⟩
    by_cases h0 : value = 0
    · subst h0
      simp [Gen.write_vbyte_be_while1, vbyteBeBytesLoop]
    · obtain ⟨p, rfl⟩ : ∃ p, pos = p + 1 := ⟨pos - 1, by omega⟩
      unfold Gen.write_vbyte_be_while1 vbyteBeBytesLoop
      simp only [h0, ne_eq, not_false_eq_true, if_true, if_false, Nat.add_sub_cancel]
      rw [low7_u8, or128 (by omega), shr7, set_replicate]
      have hv' : (value - 1) / 128 < 128 ^ m := by
        rw [Nat.pow_succ] at hv; omega
      rw [ih f _ p _ hv' (by omega) (by omega)]
      have := beLoop_len_ge f ((value - 1) / 128) ((128 + (value - 1) % 128) :: acc)
      simp only [List.length_cons] at this ⊢
      have e2 : p - ((vbyteBeBytesLoop f ((value - 1) / 128) ((128 + (value - 1) % 128) :: acc)).length - (acc.length + 1))
          = p + 1 - ((vbyteBeBytesLoop f ((value - 1) / 128) ((128 + (value - 1) % 128) :: acc)).length - acc.length) := by
        omega
      rw [e2]

theorem pow128_9 : (128 : Nat) ^ 9 = 2 ^ 63 := by decide

theorem write_vbyte_be_eq {v : Nat} (hv : v < 2 ^ 64) : Gen.write_vbyte_be v = writeVByteBe v := by
  unfold Gen.write_vbyte_be writeVByteBe vbyteBeBytes
  simp only [List.length_replicate, low7_u8, shr7]
  have hset : (List.replicate 10 0).set (10 - 1) (v % 128) = List.replicate 9 0 ++ [v % 128] := by
    have := set_replicate 9 (v % 128) []
    simp
  rw [hset]
  have hv' : v / 128 < 128 ^ 9 := by rw [pow128_9]; omega
  have := be_while_eq (fun _ buf pos => Gen.write_vbyte_be_for1 (buf.drop pos) (.ret ((buf.length - pos) * 8)))
    9 10 (v / 128) 9 [v % 128] hv' (Nat.le_refl _) (by decide)
  rw [show (10 : Nat) - 1 = 9 from rfl, this]
  generalize vbyteBeBytesLoop 10 (v / 128) [v % 128] = L
  generalize 9 - (L.length - [v % 128].length) = q
  have hd : (List.replicate q 0 ++ L).drop q = L := by
    simp
  have hl : (List.replicate q 0 ++ L).length - q = L.length := by simp
  rw [hd, hl]
  have := for_eq L 0
  simp only [Nat.add_zero] at this
  rw [this]
  exact wbind_ret _

/-- the `loop` of `write_vbyte_le`, `l` bytes already counted -/
theorem le_loop_eq (fuel : Nat) : ∀ v l, v < 128 ^ (fuel + 1) →
    Gen.write_vbyte_le_loop1 (fuel + 1) v (l + 1) (fun _ len => .ret (len * 8))
      = (writeBytesP (vbyteLeBytesLoop (fuel + 1) v)).bind fun r => .ret (r + l * 8) := by
  induction fuel with
  | zero =>
    intro v l hv
    have h0 : v / 128 = 0 := by omega
    unfold Gen.write_vbyte_le_loop1 vbyteLeBytesLoop
    simp only [low7_u8, shr7, h0, ne_eq, not_true_eq_false, if_false, writeBytesP, WProg.bind]
    congr 1; funext _; congr 1; omega
  | succ fuel ih =>
    intro v l hv
    unfold Gen.write_vbyte_le_loop1 vbyteLeBytesLoop
    simp only [low7_u8, shr7]
    by_cases h0 : v / 128 = 0
    · simp only [h0, ne_eq, not_true_eq_false, if_false, writeBytesP, WProg.bind]
      congr 1; funext _; congr 1; omega
    · simp only [h0, ne_eq, not_false_eq_true, if_true, writeBytesP, WProg.bind, wbind_assoc]
      rw [or128' (by omega)]
      congr 1; funext _
      have hv' : v / 128 - 1 < 128 ^ (fuel + 1) := by
        rw [Nat.pow_succ] at hv; omega
      rw [ih _ (l + 1) hv']
      congr 1; funext r
      congr 1; omega

theorem pow128_10 : (128 : Nat) ^ 10 = 2 ^ 70 := by decide

theorem write_vbyte_le_eq {v : Nat} (hv : v < 2 ^ 64) : Gen.write_vbyte_le v = writeVByteLe v := by
  unfold Gen.write_vbyte_le writeVByteLe vbyteLeBytes
  have hv' : v < 128 ^ (9 + 1) := by rw [pow128_10]; omega
  have := le_loop_eq 9 v 0 hv'
  simp only [Nat.zero_add, Nat.zero_mul, Nat.add_zero] at this
  rw [this]
  exact wbind_ret _

end VByteGen
end Dsi
