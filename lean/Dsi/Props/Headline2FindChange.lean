/-
  Headline theorem for C20 (the change-point search is exact), stated over the body of
  `FindChangePoints::next` regenerated from src/utils/find_change.rs on this run
  (lean/Dsi/Gen/FindChangeBody.lean) only.

  * `Gen.FindChange.next f current prev_value`: the generated `Iterator::next` on the two fields of
    the struct as the Rust holds them (`prev_value = usize::MAX` is the "not started" sentinel);
  * `genCollect` / `genChangePoints`: the first `n` items the iterator yields from
    `FindChangePoints::new` (`current = 0`, `prev_value = usize::MAX`) and whether it ended;
  * `FC.Mono`, `LeastChange`, `InReach`, `ChangeChain`, `lastPoint`: the specification (non-decreasing;
    `x` is the least point after `cur` where `f` changes; some probe `cur + 2^j < 2^64 - 1` of the
    search lies at or beyond `x` — always the case for `x ≤ 2^63`; consecutive least change points).

  Hypothesis beyond those of `find_change_iteration` (the hand-written model keeps `prev_value` as
  an `Option`, the Rust as a `usize` with the sentinel `usize::MAX`): `hne`, no value of `f` is
  `usize::MAX = 2^64 - 1`.  It is needed: see `gen_sentinel_restart`.
-/
import Dsi.Props.FindChangeGen
import Dsi.Props.C20
namespace Dsi
namespace Headline2
open FC

/-- the items the generated iterator yields in at most `fuel` calls of `next`, from the fields
    `(current, prev_value)`; the flag tells whether it returned `None` within them -/
def genCollect (f : Nat → Nat) : Nat → Nat × Nat → List (Nat × Nat) → Res (List (Nat × Nat) × Bool)
  | 0, _, acc => .ok (acc.reverse, false)
  | fuel + 1, st, acc =>
    match Gen.FindChange.next f st.1 st.2 with
    | .ok (some item, cur', prev') => genCollect f fuel (cur', prev') (item :: acc)
    | .ok (none, _, _) => .ok (acc.reverse, true)
    | .err e => .err e
    | .panic => .panic
    | .dpanic => .dpanic

/-- `FindChangePoints::new(f)` iterated `fuel` times -/
def genChangePoints (f : Nat → Nat) (fuel : Nat) : Res (List (Nat × Nat) × Bool) :=
  genCollect f fuel (0, 2 ^ 64 - 1) []

theorem wf_started {f : Nat → Nat} (hne : ∀ x, f x ≠ 2 ^ 64 - 1) {s : FC} (hs : Started f s) :
    FindChangeGen.Wf s := by
  intro v hv
  rw [hs.1] at hv
  cases hv
  exact hne _

theorem genCollect_eq {f : Nat → Nat} (hm : Mono f) (hne : ∀ x, f x ≠ 2 ^ 64 - 1) :
    ∀ (fuel : Nat) (s : FC) (acc : List (Nat × Nat)), Started f s →
      genCollect f fuel (s.current, s.prevValue) acc = FC.collect f fuel s acc := by
  intro fuel
  induction fuel with
  | zero => intro s acc _; rfl
  | succ fuel ih =>
    intro s acc hs
    have hg := FindChangeGen.next_eq f s (wf_started hne hs)
    rcases next_started hm hs with ⟨x, _, _, hn, hst⟩ | ⟨_, hn⟩
    · rw [hn] at hg
      simp only [genCollect, FC.collect, hg, hn, Res.map, FindChangeGen.absOut]
      exact ih { current := x, prev := some (f x) } _ hst
    · rw [hn] at hg
      simp only [genCollect, FC.collect, hg, hn, Res.map, FindChangeGen.absOut]

theorem genChangePoints_eq {f : Nat → Nat} (hm : Mono f) (hne : ∀ x, f x ≠ 2 ^ 64 - 1) (n : Nat) :
    genChangePoints f n = FC.changePoints f n := by
  cases n with
  | zero => rfl
  | succ n =>
    have h0 := FindChangeGen.next_eq f FC.new (by intro v hv; cases hv)
    rw [next_first] at h0
    have h0' : Gen.FindChange.next f 0 (2 ^ 64 - 1) = .ok (some (0, f 0), 0, f 0) := h0
    simp only [genChangePoints, FC.changePoints, genCollect, FC.collect, h0', next_first]
    exact genCollect_eq hm hne n { current := 0, prev := some (f 0) } _ (started_first f)

/-- **C20, generated `next`.**  On a non-decreasing function the first `n + 1` calls of the
    generated `FindChangePoints::next` yield `(0, f 0)` followed by the consecutive least change
    points, each paired with the new value (so: in increasing order, only change points, none up to
    `2^63` missed), the iterator ends only when no further change point is within reach, and no call
    hangs (fuel), overflows a `u64` or trips a `debug_assert!`. -/
theorem gen_find_change_iteration {f : Nat → Nat} (hm : Mono f) (hne : ∀ x, f x ≠ 2 ^ 64 - 1) (n : Nat) :
    ∃ items ended, genChangePoints f (n + 1) = .ok ((0, f 0) :: items, ended) ∧
      ChangeChain f 0 items ∧ (ended = false → items.length = n) ∧
      (ended = true → ¬ ∃ x, LeastChange f (lastPoint 0 items) x ∧ InReach (lastPoint 0 items) x) := by
  rw [genChangePoints_eq hm hne]
  exact find_change_iteration hm n

/-- one call, after the first: the generated `next` from the fields `(cur, f cur)` yields exactly
    the least change point `x` after `cur` (paired with `f x`, and moves there) whenever it is
    within reach — in particular whenever `x ≤ 2^63` — and `None`, fields unchanged, exactly when
    there is none within reach (e.g. `f` constant from `cur` on). -/
theorem gen_find_change_next {f : Nat → Nat} (hm : Mono f) (hne : ∀ x, f x ≠ 2 ^ 64 - 1) {cur : Nat}
    (hc : cur < 2 ^ 64 - 1) :
    (∀ x, LeastChange f cur x → (InReach cur x ∨ x ≤ 2 ^ 63) →
      Gen.FindChange.next f cur (f cur) = .ok (some (x, f x), x, f x) ∧ cur < x) ∧
    ((¬ ∃ x, LeastChange f cur x ∧ InReach cur x) ↔
      Gen.FindChange.next f cur (f cur) = .ok (none, cur, f cur)) ∧
    (∀ x v c' p', Gen.FindChange.next f cur (f cur) = .ok (some (x, v), c', p') →
      LeastChange f cur x ∧ v = f x ∧ c' = x ∧ p' = f x) := by
  have hs : Started f { current := cur, prev := some (f cur) } := ⟨rfl, hc⟩
  have hg := FindChangeGen.next_eq f { current := cur, prev := some (f cur) } (wf_started hne hs)
  have hg' : Gen.FindChange.next f cur (f cur)
      = (FC.next f { current := cur, prev := some (f cur) }).map FindChangeGen.absOut := hg
  refine ⟨?_, ?_, ?_⟩
  · intro x hx hr
    obtain ⟨h1, h2, _⟩ := find_change_sound hm hs hx hr
    rw [hg', h1]
    exact ⟨rfl, h2⟩
  · have hk := (find_change_terminates hm hs).2.1
    rw [hg']
    constructor
    · intro h; rw [hk.1 h]; rfl
    · intro h
      apply hk.2
      rcases next_started hm hs with ⟨x, _, _, hn, _⟩ | ⟨_, hn⟩
      · rw [hn] at h; simp [Res.map, FindChangeGen.absOut] at h
      · exact hn
  · intro x v c' p' h
    rw [hg'] at h
    rcases next_started hm hs with ⟨x', hx', _, hn, _⟩ | ⟨_, hn⟩
    · rw [hn] at h
      simp only [Res.map, FindChangeGen.absOut, Res.ok.injEq, Prod.mk.injEq, Option.some.injEq,
        FC.prevValue, Option.getD_some] at h
      obtain ⟨⟨rfl, rfl⟩, rfl, rfl⟩ := h
      exact ⟨hx', rfl, rfl, rfl⟩
    · rw [hn] at h; simp [Res.map, FindChangeGen.absOut] at h

/-- **`hne` is needed**: for the constant function `usize::MAX` the generated `next` (like the
    Rust) takes the stored `prev_value = f 0 = usize::MAX` for the "not started" sentinel and yields
    `(0, usize::MAX)` again on every call, while the hand-written model (`prev : Option`) ends. -/
theorem gen_sentinel_restart :
    genChangePoints (fun _ => 2 ^ 64 - 1) 3
      = .ok ([(0, 2 ^ 64 - 1), (0, 2 ^ 64 - 1), (0, 2 ^ 64 - 1)], false) ∧
    FC.changePoints (fun _ => 2 ^ 64 - 1) 3 = .ok ([(0, 2 ^ 64 - 1)], true) :=
  ⟨rfl, find_change_const_aux⟩
where
  find_change_const_aux : FC.changePoints (fun _ => 2 ^ 64 - 1) 3 = .ok ([(0, 2 ^ 64 - 1)], true) := by
    have hm : Mono (fun _ : Nat => 2 ^ 64 - 1) := fun _ _ _ _ => Nat.le_refl _
    have h1 := (find_change_first (fun _ : Nat => 2 ^ 64 - 1)).1
    have h2 := (find_change_terminates hm (started_first (fun _ : Nat => 2 ^ 64 - 1))).2.2 (fun _ _ => rfl)
    simp only [FC.changePoints, FC.collect, h1, h2, List.reverse_cons, List.reverse_nil, List.nil_append]

/-! ### non-vacuity -/

/-- a step function with steps at 5 and 1000: the generated iterator computes -/
example : genChangePoints (fun x => if x < 5 then 3 else if x < 1000 then 4 else 9) 5
    = .ok ([(0, 3), (5, 4), (1000, 9)], true) := by rfl

example : ∃ items ended,
    genChangePoints (fun x => if x < 5 then 3 else if x < 1000 then 4 else 9) 5
      = .ok ((0, 3) :: items, ended) ∧
    ChangeChain (fun x => if x < 5 then 3 else if x < 1000 then 4 else 9) 0 items :=
  have ⟨items, ended, h1, h2, _⟩ := gen_find_change_iteration
    (f := fun x => if x < 5 then 3 else if x < 1000 then 4 else 9)
    (by
      intro a b hab _
      show (if a < 5 then 3 else if a < 1000 then 4 else 9) ≤ (if b < 5 then 3 else if b < 1000 then 4 else 9)
      repeat' split
      all_goals omega)
    (by
      intro x
      show (if x < 5 then 3 else if x < 1000 then 4 else 9) ≠ 2 ^ 64 - 1
      repeat' split
      all_goals decide) 4
  ⟨items, ended, h1, h2⟩

/-- a constant function: one item, then the end (no hang) -/
example (c : Nat) (hc : c ≠ 2 ^ 64 - 1) : genChangePoints (fun _ => c) 5 = .ok ([(0, c)], true) := by
  rw [genChangePoints_eq (fun _ _ _ _ => Nat.le_refl _) (fun _ => hc)]
  exact find_change_const c

end Headline2
end Dsi
