/-
  The contract of `BitRead::read_bits` ("the value returned for `n` bits is below `2^n`",
  `ReadBitsBounded` of CodeBodiesGen.lean) for the concrete readers, so that `Guarded.sound` applies
  to them without a hypothesis on the implementation:

  * `BitR.impl e` (the unbuffered `BitReader`): unconditional, both endiannesses;
  * `BufR.impl .be` (`BufBitReader<BE, _>`): unconditional, every word width `W` (also `W = 0` and
    `W > 64`: the bound does not depend on the refinement to the reference);
  * `BufR.impl .le`: on the states whose buffer holds nothing above `bits_in_buffer`
    (`BufR.Clean .le`, the second conjunct of `BufR.Rel .le`); the slow path ORs the buffer into the
    result, so the bound fails on a dirty buffer (`readBitsLE_dirty`).  The invariant is preserved by
    *every* operation of the implementation, for every argument (no `PeekBounded` side condition);
  * `CountR.impl ri` (the counting wrapper) inherits the contract (and the invariant) from `ri`.

  `ReadBitsBoundedOn Inv I` is the contract restricted to the states of an invariant, `Preserves`
  says every operation keeps the invariant, `Guarded.soundOn` is `Guarded.sound` for them.
  `BufR.BInv e` is the invariant used for both endiannesses (`True` for BE, `Clean .le` for LE); it
  follows from `BufR.Clean e`, hence from `BufR.Rel e s r`, and holds for `BufR.new`.

  Corollaries (`*_bufR`, `*_bitR`, and the generic `guarded_bufR`, `guarded_bitR`, `guarded_countR`):
  every `Guarded hand gen` equality of CodeBodiesGen / OmegaGen / VByteGen read as "on the concrete
  reader the hand-written code reader panics, debug-panics, or runs exactly like the program
  generated from the Rust body".
-/
import Dsi.Props.CodeBodiesGen
import Dsi.Props.OmegaGen
import Dsi.Props.VByteGen
import Dsi.Props.Reader
import Dsi.Props.BitReader
import Dsi.Glue.Wrappers
namespace Dsi
namespace Bounded
open CodeBodiesGen

/-! ### the contract on an invariant, and `Guarded.sound` for it -/

/-- `ReadBitsBounded` restricted to the states satisfying `Inv`. -/
def ReadBitsBoundedOn {σ : Type} (Inv : σ → Prop) (I : RImpl σ) : Prop :=
  ∀ s n v s', Inv s → I.readBits s n = .ok (v, s') → v < 2 ^ n

/-- every operation of `I` keeps `Inv` (for every argument; a failed peek leaves the state as is). -/
structure Preserves {σ : Type} (Inv : σ → Prop) (I : RImpl σ) : Prop where
  readBits : ∀ s n v s', Inv s → I.readBits s n = .ok (v, s') → Inv s'
  readUnary : ∀ s v s', Inv s → I.readUnary s = .ok (v, s') → Inv s'
  peekBits : ∀ s n v s', Inv s → I.peekBits s n = .ok (v, s') → Inv s'
  skipAfterPeek : ∀ s n, Inv s → Inv (I.skipAfterPeek s n)
  skipBits : ∀ s n s', Inv s → I.skipBits s n = .ok s' → Inv s'

theorem boundedOn_of_bounded {σ : Type} {I : RImpl σ} (h : ReadBitsBounded I) (Inv : σ → Prop) :
    ReadBitsBoundedOn Inv I := fun s n v s' _ hr => h s n v s' hr

theorem bounded_of_boundedOn_true {σ : Type} {I : RImpl σ} (h : ReadBitsBoundedOn (fun _ => True) I) :
    ReadBitsBounded I := fun s n v s' hr => h s n v s' trivial hr

theorem preserves_true {σ : Type} (I : RImpl σ) : Preserves (fun _ => True) I :=
  ⟨fun _ _ _ _ _ _ => trivial, fun _ _ _ _ _ => trivial, fun _ _ _ _ _ _ => trivial,
   fun _ _ _ => trivial, fun _ _ _ _ _ => trivial⟩

/-- `hand` panics, debug-panics, or runs exactly like `gen` on `I` from `s`. -/
def AgreeOffPanic {σ α : Type} (I : RImpl σ) (hand gen : RProg α) (s : σ) : Prop :=
  hand.run I s = .panic ∨ hand.run I s = .dpanic ∨ hand.run I s = gen.run I s

/-- `Guarded.sound` for an implementation that honours the `read_bits` contract on an invariant
    it preserves (same proof, the invariant threaded through). -/
theorem Guarded.soundOn {σ α : Type} (I : RImpl σ) (Inv : σ → Prop) (hI : ReadBitsBoundedOn Inv I)
    (hP : Preserves Inv I) {hand gen : RProg α} (h : Guarded hand gen) :
    ∀ s, Inv s → hand.run I s = .panic ∨ hand.run I s = .dpanic ∨ hand.run I s = gen.run I s := by
  induction h with
  | refl p => intro s _; exact Or.inr (Or.inr rfl)
  | panic g => intro s _; exact Or.inl rfl
  | dpanic g => intro s _; exact Or.inr (Or.inl rfl)
  | readBits n _ ih =>
    intro s hs
    simp only [RProg.run]
    cases hr : I.readBits s n with
    | ok p => obtain ⟨v, s'⟩ := p; exact ih v (hI s n v s' hs hr) s' (hP.readBits s n v s' hs hr)
    | err e => exact Or.inr (Or.inr rfl)
    | panic => exact Or.inl rfl
    | dpanic => exact Or.inr (Or.inl rfl)
  | readUnary _ ih =>
    intro s hs
    simp only [RProg.run]
    cases hr : I.readUnary s with
    | ok p => obtain ⟨v, s'⟩ := p; exact ih v s' (hP.readUnary s v s' hs hr)
    | err e => exact Or.inr (Or.inr rfl)
    | panic => exact Or.inl rfl
    | dpanic => exact Or.inr (Or.inl rfl)
  | peek n _ ih =>
    intro s hs
    simp only [RProg.run]
    cases hr : I.peekBits s n with
    | ok p => obtain ⟨v, s'⟩ := p; exact ih (.ok v) s' (hP.peekBits s n v s' hs hr)
    | err e => exact ih (.error e) s hs
    | panic => exact Or.inl rfl
    | dpanic => exact Or.inr (Or.inl rfl)
  | skipAfterPeek n _ ih => intro s hs; simp only [RProg.run]; exact ih _ (hP.skipAfterPeek s n hs)
  | skip n _ ih =>
    intro s hs
    simp only [RProg.run]
    cases hr : I.skipBits s n with
    | ok s' => exact ih s' (hP.skipBits s n s' hs hr)
    | err e => exact Or.inr (Or.inr rfl)
    | panic => exact Or.inl rfl
    | dpanic => exact Or.inr (Or.inl rfl)

/-- the invariant also holds after the generated program (any program) has run -/
theorem run_preserves {σ α : Type} (I : RImpl σ) (Inv : σ → Prop) (hP : Preserves Inv I)
    (p : RProg α) : ∀ s a s', Inv s → p.run I s = .ok (a, s') → Inv s' := by
  induction p with
  | ret a => intro s b s' hs h; simp only [RProg.run] at h; cases h; exact hs
  | fail x => intro s b s' _ h; simp only [RProg.run] at h; cases h
  | panic => intro s b s' _ h; simp only [RProg.run] at h; cases h
  | dpanic => intro s b s' _ h; simp only [RProg.run] at h; cases h
  | readBits n k ih =>
    intro s b s' hs h
    simp only [RProg.run] at h
    cases hr : I.readBits s n with
    | ok p => obtain ⟨v, s1⟩ := p; rw [hr] at h; exact ih v s1 b s' (hP.readBits s n v s1 hs hr) h
    | err e => rw [hr] at h; cases h
    | panic => rw [hr] at h; cases h
    | dpanic => rw [hr] at h; cases h
  | readUnary k ih =>
    intro s b s' hs h
    simp only [RProg.run] at h
    cases hr : I.readUnary s with
    | ok p => obtain ⟨v, s1⟩ := p; rw [hr] at h; exact ih v s1 b s' (hP.readUnary s v s1 hs hr) h
    | err e => rw [hr] at h; cases h
    | panic => rw [hr] at h; cases h
    | dpanic => rw [hr] at h; cases h
  | peek n k ih =>
    intro s b s' hs h
    simp only [RProg.run] at h
    cases hr : I.peekBits s n with
    | ok p => obtain ⟨v, s1⟩ := p; rw [hr] at h; exact ih (.ok v) s1 b s' (hP.peekBits s n v s1 hs hr) h
    | err e => rw [hr] at h; exact ih (.error e) s b s' hs h
    | panic => rw [hr] at h; cases h
    | dpanic => rw [hr] at h; cases h
  | skipAfterPeek n k ih =>
    intro s b s' hs h
    simp only [RProg.run] at h
    exact ih _ b s' (hP.skipAfterPeek s n hs) h
  | skip n k ih =>
    intro s b s' hs h
    simp only [RProg.run] at h
    cases hr : I.skipBits s n with
    | ok s1 => rw [hr] at h; exact ih s1 b s' (hP.skipBits s n s1 hs hr) h
    | err e => rw [hr] at h; cases h
    | panic => rw [hr] at h; cases h
    | dpanic => rw [hr] at h; cases h

/-! ### arithmetic: sizes of shifted words -/

theorem lt_pow_of_le {x a b : Nat} (hx : x < 2 ^ a) (h : a ≤ b) : x < 2 ^ b :=
  Nat.lt_of_lt_of_le hx (Nat.pow_le_pow_right (by decide) h)

theorem nat_shr_lt {x a : Nat} (k : Nat) (hx : x < 2 ^ a) : x >>> k < 2 ^ (a - k) := by
  rw [Nat.shiftRight_eq_div_pow]
  by_cases h : k ≤ a
  · apply Nat.div_lt_of_lt_mul
    rw [← Nat.pow_add]
    have : k + (a - k) = a := by omega
    rw [this]
    exact hx
  · have : x < 2 ^ k := lt_pow_of_le hx (by omega)
    rw [Nat.div_eq_of_lt this]
    exact Nat.two_pow_pos _

theorem nat_shl_mod_lt {x a : Nat} (k w : Nat) (hx : x < 2 ^ a) : (x <<< k) % 2 ^ w < 2 ^ (a + k) := by
  apply Nat.lt_of_le_of_lt (Nat.mod_le _ _)
  rw [Nat.shiftLeft_eq, Nat.pow_add]
  exact Nat.mul_lt_mul_of_lt_of_le hx (Nat.le_refl _) (Nat.two_pow_pos _)

theorem shr_lt {w : Nat} (x : BitVec w) (k : Nat) {a : Nat} (hx : x.toNat < 2 ^ a) :
    (x >>> k).toNat < 2 ^ (a - k) := by
  rw [BitVec.toNat_ushiftRight]; exact nat_shr_lt k hx

theorem shl_lt {w : Nat} (x : BitVec w) (k : Nat) {a : Nat} (hx : x.toNat < 2 ^ a) :
    (x <<< k).toNat < 2 ^ (a + k) := by
  rw [BitVec.toNat_shiftLeft]; exact nat_shl_mod_lt k w hx

theorem or_lt {w : Nat} (x y : BitVec w) {a : Nat} (hx : x.toNat < 2 ^ a) (hy : y.toNat < 2 ^ a) :
    (x ||| y).toNat < 2 ^ a := by
  rw [BitVec.toNat_or]; exact Nat.or_lt_two_pow hx hy

theorem setWidth_lt {w : Nat} (x : BitVec w) (m : Nat) {a : Nat} (hx : x.toNat < 2 ^ a) :
    (x.setWidth m).toNat < 2 ^ a := by
  rw [BitVec.toNat_setWidth]; exact Nat.lt_of_le_of_lt (Nat.mod_le _ _) hx


/-! ### the buffered reader, little-endian: `buffer < 2^bib` is kept by every operation and
    bounds `read_bits` -/
section LE
open BufR
variable {W : Nat}

theorem word_lt (w : BitVec W) (m : Nat) : (w.setWidth m).toNat < 2 ^ W := setWidth_lt w m w.isLt

theorem readWordsLE_inv (fuel : Nat) : ∀ (back : MemR W) (res : BitVec 64) (b n : Nat),
    res.toNat < 2 ^ b → b ≤ n → ∀ res' b' back', readWordsLE fuel back res b n = .ok (res', b', back') →
    res'.toNat < 2 ^ b' ∧ b' ≤ n := by
  induction fuel with
  | zero => intro back res b n hres hb res' b' back' h; simp only [readWordsLE] at h; cases h; exact ⟨hres, hb⟩
  | succ fuel ih =>
    intro back res b n hres hb res' b' back' h
    simp only [readWordsLE] at h
    split at h
    · rename_i hgt
      split at h
      · rename_i w back1 _
        refine ih back1 _ (b + W) n ?_ (by omega) res' b' back' h
        refine or_lt _ _ (lt_pow_of_le hres (by omega)) ?_
        exact lt_pow_of_le (shl_lt _ b (word_lt w 64)) (by omega)
      all_goals cases h
    · cases h; exact ⟨hres, hb⟩

theorem readBitsLE_inv {s s' : BufR W} {n v : Nat} (hc : s.buffer.toNat < 2 ^ s.bib)
    (h : readBitsLE s n = .ok (v, s')) : v < 2 ^ n ∧ s'.buffer.toNat < 2 ^ s'.bib := by
  unfold readBitsLE at h
  split at h
  · cases h
  · rename_i hn64
    split at h
    · cases h
      refine ⟨?_, ?_⟩
      · apply setWidth_lt
        by_cases hn : n < 2 * W
        · apply Nat.lt_pow_two_of_testBit
          intro i hi
          have := getLsbD_mask hn i
          rw [← BitVec.getLsbD, BitVec.getLsbD_and, this]
          simp; omega
        · rw [BitVec.toNat_and]
          exact Nat.lt_of_le_of_lt Nat.and_le_left (lt_pow_of_le s.buffer.isLt (by omega))
      · exact shr_lt _ n hc
    · rename_i hnb
      dsimp only at h
      split at h
      · rename_i res b back hw
        obtain ⟨hres, hb⟩ := readWordsLE_inv 64 s.back (s.buffer.setWidth 64) s.bib n
          (setWidth_lt _ 64 hc) (by omega) res b back hw
        split at h
        · rename_i w back1 _
          cases h
          refine ⟨?_, ?_⟩
          · refine or_lt _ _ (lt_pow_of_le hres hb) ?_
            have h1 : ((w.setWidth 64 <<< (64 - (n - b))) >>> (64 - (n - b))).toNat < 2 ^ (64 - (64 - (n - b))) :=
              shr_lt _ _ (BitVec.isLt _)
            exact lt_pow_of_le (shl_lt _ b h1) (by omega)
          · exact shr_lt _ (n - b) (word_lt w (2 * W))
        all_goals cases h
      all_goals cases h

theorem refillLE_inv {s s' : BufR W} (hc : s.buffer.toNat < 2 ^ s.bib)
    (h : refillLE s = .ok s') : s'.buffer.toNat < 2 ^ s'.bib := by
  unfold refillLE at h
  split at h
  · cases h
  · split at h
    · rename_i w back _
      cases h
      show _ < 2 ^ (s.bib + W)
      exact or_lt _ _ (lt_pow_of_le hc (Nat.le_add_right _ _))
        (lt_pow_of_le (shl_lt _ s.bib (word_lt w (2 * W))) (by omega))
    all_goals cases h

theorem peekBitsLE_inv {s s' : BufR W} {n v : Nat} (hc : s.buffer.toNat < 2 ^ s.bib)
    (h : peekBitsLE s n = .ok (v, s')) : s'.buffer.toNat < 2 ^ s'.bib := by
  unfold peekBitsLE at h
  split at h
  · cases h
  · dsimp only at h
    split at h
    · rename_i s1 hr
      split at h
      · cases h
      · cases h
        split at hr
        · exact refillLE_inv hc hr
        · cases hr; exact hc
    all_goals cases h

theorem skipAfterPeekLE_inv (s : BufR W) (n : Nat) (hc : s.buffer.toNat < 2 ^ s.bib) :
    (skipAfterPeekLE s n).buffer.toNat < 2 ^ (skipAfterPeekLE s n).bib :=
  shr_lt _ n hc

theorem unaryWordsLE_inv (fuel : Nat) : ∀ (back : MemR W) (res v : Nat) (s' : BufR W),
    unaryWordsLE fuel back res = .ok (v, s') → s'.buffer.toNat < 2 ^ s'.bib := by
  induction fuel with
  | zero => intro back res v s' h; simp only [unaryWordsLE] at h; cases h
  | succ fuel ih =>
    intro back res v s' h
    simp only [unaryWordsLE] at h
    split at h
    · rename_i w back1 _
      split at h
      · cases h
        exact shr_lt _ 1 (shr_lt _ (ctz w) (word_lt w (2 * W)))
      · exact ih _ _ _ _ h
    all_goals cases h

theorem readUnaryLE_inv {s s' : BufR W} {v : Nat} (hc : s.buffer.toNat < 2 ^ s.bib)
    (h : readUnaryLE s = .ok (v, s')) : s'.buffer.toNat < 2 ^ s'.bib := by
  unfold readUnaryLE at h
  dsimp only at h
  split at h
  · cases h
    show _ < 2 ^ (s.bib - (ctz s.buffer + 1))
    exact lt_pow_of_le (shr_lt _ 1 (shr_lt _ (ctz s.buffer) hc)) (by omega)
  · exact unaryWordsLE_inv _ _ _ _ _ h

theorem skipBitsLE_inv {s s' : BufR W} {n : Nat} (hc : s.buffer.toNat < 2 ^ s.bib)
    (h : skipBitsLE s n = .ok s') : s'.buffer.toNat < 2 ^ s'.bib := by
  unfold skipBitsLE at h
  split at h
  · cases h; exact shr_lt _ n hc
  · dsimp only at h
    split at h
    · rename_i n1 back _
      split at h
      · rename_i w back1 _
        cases h
        exact shr_lt _ n1 (word_lt w (2 * W))
      all_goals cases h
    all_goals cases h

end LE

/-! ### the buffered reader, big-endian: `read_bits` is bounded on every state -/
section BE
open BufR
variable {W : Nat}

/-- the word loop: with `T` the number of bits still to deliver plus those already in `res` -/
theorem readWordsBE_inv (T : Nat) (fuel : Nat) : ∀ (back : MemR W) (res : BitVec 64) (n : Nat),
    res.toNat < 2 ^ (T - n) → 1 ≤ n → n ≤ T → ∀ res' n' back',
    readWordsBE fuel back res n = .ok (res', n', back') →
    res'.toNat < 2 ^ (T - n') ∧ 1 ≤ n' ∧ n' ≤ T := by
  induction fuel with
  | zero => intro back res n hres h1 hT res' n' back' h; simp only [readWordsBE] at h; cases h; exact ⟨hres, h1, hT⟩
  | succ fuel ih =>
    intro back res n hres h1 hT res' n' back' h
    simp only [readWordsBE] at h
    split at h
    · rename_i hgt
      split at h
      · rename_i w back1 _
        refine ih back1 _ (n - W) ?_ (by omega) (by omega) res' n' back' h
        refine or_lt _ _ (lt_pow_of_le (shl_lt _ W hres) (by omega)) ?_
        exact lt_pow_of_le (word_lt w 64) (by omega)
      all_goals cases h
    · cases h; exact ⟨hres, h1, hT⟩

theorem readBitsBE_bounded {s s' : BufR W} {n v : Nat}
    (h : readBitsBE s n = .ok (v, s')) : v < 2 ^ n := by
  unfold readBitsBE at h
  split at h
  · cases h
  · rename_i hn64
    split at h
    · cases h
      apply setWidth_lt
      exact lt_pow_of_le (shr_lt _ 1 (shr_lt _ (2 * W - n - 1) s.buffer.isLt)) (by omega)
    · rename_i hnb
      dsimp only at h
      split at h
      · rename_i res n1 back hw
        have h0 : (BitVec.setWidth 64 ((s.buffer >>> (2 * W - 1 - s.bib)) >>> 1)).toNat
            < 2 ^ (n - (n - s.bib)) := by
          apply setWidth_lt
          exact lt_pow_of_le (shr_lt _ 1 (shr_lt _ (2 * W - 1 - s.bib) s.buffer.isLt)) (by omega)
        obtain ⟨hres, h1, hT⟩ := readWordsBE_inv n 64 s.back _ (n - s.bib) h0 (by omega) (by omega)
          res n1 back hw
        split at h
        · rename_i w back1 _
          cases h
          refine or_lt _ _ ?_ ?_
          · exact lt_pow_of_le (shl_lt _ 1 (shl_lt _ (n1 - 1) hres)) (by omega)
          · exact lt_pow_of_le (shr_lt _ (W - n1) (word_lt w 64)) (by omega)
        all_goals cases h
      all_goals cases h

end BE

/-! ### the unbuffered reader: `read_bits` is bounded on every state -/
section Bit

theorem extract_bounded {e : Endian} {s : BitR} {n : Nat} {v : BitVec 64} {d : MemR 64} (h1 : 1 ≤ n)
    (hn : n ≤ 64) (h : BitR.extract e s n = .ok (v, d)) : v.toNat < 2 ^ n := by
  unfold BitR.extract at h
  have hoff : s.bitIndex % 64 < 64 := Nat.mod_lt _ (by decide)
  split at h
  · dsimp only at h
    split at h
    · split at h
      · rename_i w d1 _
        cases e with
        | be =>
          cases h
          exact lt_pow_of_le (shr_lt _ (64 - n) (BitVec.isLt _)) (by omega)
        | le =>
          cases h
          exact lt_pow_of_le (shr_lt _ (64 - n) (BitVec.isLt _)) (by omega)
      all_goals cases h
    · rename_i hgt
      split at h
      · rename_i w1 d1 _
        split at h
        · rename_i w2 d2 _
          cases e with
          | be =>
            cases h
            refine or_lt _ _ ?_ ?_
            · exact lt_pow_of_le (shr_lt _ (64 - n) (BitVec.isLt _)) (by omega)
            · exact lt_pow_of_le (shr_lt _ (128 - s.bitIndex % 64 - n) w2.isLt) (by omega)
          | le =>
            cases h
            refine or_lt _ _ ?_ ?_
            · exact lt_pow_of_le (shr_lt _ (64 - n) (BitVec.isLt _)) (by omega)
            · exact lt_pow_of_le (shr_lt _ (s.bitIndex % 64) w1.isLt) (by omega)
        all_goals cases h
      all_goals cases h
  all_goals cases h

theorem bitR_readBits_bounded {e : Endian} {s s' : BitR} {n v : Nat}
    (h : BitR.readBits e s n = .ok (v, s')) : v < 2 ^ n := by
  unfold BitR.readBits at h
  split at h
  · cases h; exact Nat.two_pow_pos _
  · split at h
    · cases e <;> cases h
    · split at h
      · rename_i x d hx
        cases h
        exact extract_bounded (by omega) (by omega) hx
      all_goals cases h

end Bit

/-! ### the contract for the concrete readers -/
section Main
variable {W : Nat}

/-- the invariant the buffered reader needs for the contract: none for BE; for LE the buffer holds
    nothing above `bits_in_buffer` (this is `BufR.Clean .le`) -/
def BInv (e : Endian) (s : BufR W) : Prop :=
  match e with
  | .be => True
  | .le => s.buffer.toNat < 2 ^ s.bib

theorem binv_of_clean {e : Endian} {s : BufR W} (h : s.Clean e) : BInv e s := by
  cases e with
  | be => trivial
  | le => exact h

/-- the invariant of the refinement theorems (Props/Reader.lean) implies it -/
theorem binv_of_rel {e : Endian} {s : BufR W} {r : RefR} (h : BufR.Rel e s r) : BInv e s :=
  binv_of_clean h.2.1

/-- a fresh reader satisfies it -/
theorem binv_new (e : Endian) (back : MemR W) : BInv e (BufR.new back) := by
  cases e with
  | be => trivial
  | le => simp [BInv, BufR.new]

/-- `BufBitReader<BE, _>::read_bits` honours the contract on every state, for every word width -/
theorem bufR_be_bounded : ReadBitsBounded (BufR.impl (W := W) .be) :=
  fun _ _ _ _ h => readBitsBE_bounded h

/-- `BufBitReader<LE, _>::read_bits` honours the contract on clean states, for every word width -/
theorem bufR_le_boundedOn : ReadBitsBoundedOn (BufR.Clean .le) (BufR.impl (W := W) .le) :=
  fun _ _ _ _ hc h => (readBitsLE_inv hc h).1

theorem bufR_boundedOn (e : Endian) : ReadBitsBoundedOn (BInv e) (BufR.impl (W := W) e) := by
  cases e with
  | be => exact boundedOn_of_bounded bufR_be_bounded _
  | le => exact fun _ _ _ _ hc h => (readBitsLE_inv hc h).1

/-- every operation of the buffered reader keeps the invariant, whatever its argument -/
theorem bufR_preserves (e : Endian) : Preserves (BInv e) (BufR.impl (W := W) e) := by
  cases e with
  | be => exact preserves_true _
  | le =>
    exact ⟨fun _ _ _ _ hc h => (readBitsLE_inv hc h).2, fun _ _ _ hc h => readUnaryLE_inv hc h,
      fun _ _ _ _ hc h => peekBitsLE_inv hc h, fun s n hc => skipAfterPeekLE_inv s n hc,
      fun _ _ _ hc h => skipBitsLE_inv hc h⟩

/-- so does repositioning -/
theorem setBitPos_binv (e : Endian) {s s' : BufR W} {p : Nat} (h : BufR.setBitPos e s p = .ok s') :
    BInv e s' := by
  cases e with
  | be => trivial
  | le =>
    simp only [BufR.setBitPos, BufR.setBitPosLE] at h
    split at h
    · split at h
      · split at h
        · rename_i w back1 _
          cases h
          exact shr_lt _ _ (word_lt w (2 * W))
        all_goals cases h
      · cases h; simp [BInv]
    all_goals cases h

/-- a `W = 8` LE reader whose buffer is dirty (`bits_in_buffer = 0`, buffer all ones) -/
def dirtyLE : BufR 8 := { buffer := 0xFFFF#16, bib := 0, back := ⟨[0#8], 0, false⟩ }

/-- the invariant is needed for LE: on `dirtyLE`, `read_bits(1)` returns `0xFFFF` -/
theorem readBitsLE_dirty : ¬ ReadBitsBounded (BufR.impl (W := 8) .le) := by
  intro h
  obtain ⟨s', hs⟩ : ∃ s', (BufR.impl .le).readBits dirtyLE 1 = .ok (0xFFFF, s') := ⟨_, rfl⟩
  exact absurd (h _ _ _ _ hs) (by decide)

/-- the unbuffered `BitReader::read_bits` honours the contract on every state -/
theorem bitR_bounded (e : Endian) : ReadBitsBounded (BitR.impl e) :=
  fun _ _ _ _ h => bitR_readBits_bounded h

/-! #### the counting wrapper -/

theorem countR_boundedOn {ρ : Type} {ri : RImpl ρ} {Inv : ρ → Prop} (h : ReadBitsBoundedOn Inv ri) :
    ReadBitsBoundedOn (fun s => Inv s.inner) (CountR.impl ri) := by
  intro s n v s' hs hr
  simp only [CountR.impl] at hr
  cases hi : ri.readBits s.inner n with
  | ok p => obtain ⟨v1, i1⟩ := p; rw [hi] at hr; cases hr; exact h _ _ _ _ hs hi
  | err x => rw [hi] at hr; cases hr
  | panic => rw [hi] at hr; cases hr
  | dpanic => rw [hi] at hr; cases hr

theorem countR_bounded {ρ : Type} {ri : RImpl ρ} (h : ReadBitsBounded ri) :
    ReadBitsBounded (CountR.impl ri) :=
  fun s n v s' hr => countR_boundedOn (boundedOn_of_bounded h (fun _ => True)) s n v s' trivial hr

theorem countR_preserves {ρ : Type} {ri : RImpl ρ} {Inv : ρ → Prop} (h : Preserves Inv ri) :
    Preserves (fun s => Inv s.inner) (CountR.impl ri) := by
  refine ⟨?_, ?_, ?_, ?_, ?_⟩
  · intro s n v s' hs hr
    simp only [CountR.impl] at hr
    cases hi : ri.readBits s.inner n with
    | ok p => obtain ⟨v1, i1⟩ := p; rw [hi] at hr; cases hr; exact h.readBits _ _ _ _ hs hi
    | err x => rw [hi] at hr; cases hr
    | panic => rw [hi] at hr; cases hr
    | dpanic => rw [hi] at hr; cases hr
  · intro s v s' hs hr
    simp only [CountR.impl] at hr
    cases hi : ri.readUnary s.inner with
    | ok p => obtain ⟨v1, i1⟩ := p; rw [hi] at hr; cases hr; exact h.readUnary _ _ _ hs hi
    | err x => rw [hi] at hr; cases hr
    | panic => rw [hi] at hr; cases hr
    | dpanic => rw [hi] at hr; cases hr
  · intro s n v s' hs hr
    simp only [CountR.impl] at hr
    cases hi : ri.peekBits s.inner n with
    | ok p => obtain ⟨v1, i1⟩ := p; rw [hi] at hr; cases hr; exact h.peekBits _ _ _ _ hs hi
    | err x => rw [hi] at hr; cases hr
    | panic => rw [hi] at hr; cases hr
    | dpanic => rw [hi] at hr; cases hr
  · intro s n hs
    exact h.skipAfterPeek _ _ hs
  · intro s n s' hs hr
    simp only [CountR.impl] at hr
    cases hi : ri.skipBits s.inner n with
    | ok i1 => rw [hi] at hr; cases hr; exact h.skipBits _ _ _ hs hi
    | err x => rw [hi] at hr; cases hr
    | panic => rw [hi] at hr; cases hr
    | dpanic => rw [hi] at hr; cases hr

end Main

/-! ### `Guarded` on the concrete readers -/
section Corollaries
open Gen
variable {W : Nat}

/-- on `BufBitReader<E, _>` (every word width, every state satisfying `BInv e`, e.g. every state
    related to a reference reader, every state at all for BE) a hand-written reader program panics,
    debug-panics, or runs exactly like the generated program it guards -/
theorem guarded_bufR {α : Type} {hand gen : RProg α} (h : Guarded hand gen) (e : Endian) (s : BufR W)
    (hs : BInv e s) : AgreeOffPanic (BufR.impl e) hand gen s :=
  Guarded.soundOn (BufR.impl e) (BInv e) (bufR_boundedOn e) (bufR_preserves e) h s hs

theorem guarded_bufR_rel {α : Type} {hand gen : RProg α} (h : Guarded hand gen) {e : Endian}
    {s : BufR W} {r : RefR} (hrel : BufR.Rel e s r) : AgreeOffPanic (BufR.impl e) hand gen s :=
  guarded_bufR h e s (binv_of_rel hrel)

theorem guarded_bufR_be {α : Type} {hand gen : RProg α} (h : Guarded hand gen) (s : BufR W) :
    AgreeOffPanic (BufR.impl .be) hand gen s :=
  Guarded.sound (BufR.impl .be) bufR_be_bounded h s

/-- the same on the unbuffered `BitReader<E, _>`, every state -/
theorem guarded_bitR {α : Type} {hand gen : RProg α} (h : Guarded hand gen) (e : Endian) (s : BitR) :
    AgreeOffPanic (BitR.impl e) hand gen s :=
  Guarded.sound (BitR.impl e) (bitR_bounded e) h s

/-- the same through the counting wrapper, over any reader that honours the contract on an
    invariant it preserves -/
theorem guarded_countR {ρ α : Type} {ri : RImpl ρ} {Inv : ρ → Prop} (hB : ReadBitsBoundedOn Inv ri)
    (hP : Preserves Inv ri) {hand gen : RProg α} (h : Guarded hand gen) (s : CountR ρ)
    (hs : Inv s.inner) : AgreeOffPanic (CountR.impl ri) hand gen s :=
  Guarded.soundOn (CountR.impl ri) _ (countR_boundedOn hB) (countR_preserves hP) h s hs

theorem guarded_countR_bufR {α : Type} {hand gen : RProg α} (h : Guarded hand gen) (e : Endian)
    (s : CountR (BufR W)) (hs : BInv e s.inner) :
    AgreeOffPanic (CountR.impl (BufR.impl e)) hand gen s :=
  guarded_countR (bufR_boundedOn e) (bufR_preserves e) h s hs

theorem guarded_countR_bitR {α : Type} {hand gen : RProg α} (h : Guarded hand gen) (e : Endian)
    (s : CountR BitR) : AgreeOffPanic (CountR.impl (BitR.impl e)) hand gen s :=
  Guarded.sound _ (countR_bounded (bitR_bounded e)) h s

/-- the invariant survives the run (of the hand-written or the generated program alike) -/
theorem run_bufR_binv {α : Type} (p : RProg α) (e : Endian) {s s' : BufR W} {a : α} (hs : BInv e s)
    (h : p.run (BufR.impl e) s = .ok (a, s')) : BInv e s' :=
  run_preserves (BufR.impl e) (BInv e) (bufR_preserves e) p s a s' hs h

/-! #### the code readers of CodeBodiesGen / OmegaGen / VByteGen, one by one -/

theorem read_rice_bufR (k : Nat) (e : Endian) (s : BufR W) (hs : BInv e s) :
    AgreeOffPanic (BufR.impl e) (readRice k) (Gen.read_rice k) s :=
  guarded_bufR (read_rice_guarded k) e s hs

theorem read_rice_bitR (k : Nat) (e : Endian) (s : BitR) :
    AgreeOffPanic (BitR.impl e) (readRice k) (Gen.read_rice k) s :=
  guarded_bitR (read_rice_guarded k) e s

theorem read_pi_bufR (k : Nat) (e : Endian) (s : BufR W) (hs : BInv e s) :
    AgreeOffPanic (BufR.impl e) (readPi k) (Gen.read_pi k) s :=
  guarded_bufR (read_pi_guarded k) e s hs

theorem read_pi_bitR (k : Nat) (e : Endian) (s : BitR) :
    AgreeOffPanic (BitR.impl e) (readPi k) (Gen.read_pi k) s :=
  guarded_bitR (read_pi_guarded k) e s

theorem read_minimal_binary_bufR (max : Nat) (e : Endian) (s : BufR W) (hs : BInv e s) :
    AgreeOffPanic (BufR.impl e) (readMinimalBinary max) (Gen.read_minimal_binary max) s :=
  guarded_bufR (read_minimal_binary_guarded max) e s hs

theorem read_minimal_binary_bitR (max : Nat) (e : Endian) (s : BitR) :
    AgreeOffPanic (BitR.impl e) (readMinimalBinary max) (Gen.read_minimal_binary max) s :=
  guarded_bitR (read_minimal_binary_guarded max) e s

theorem read_golomb_bufR (b : Nat) (e : Endian) (s : BufR W) (hs : BInv e s) :
    AgreeOffPanic (BufR.impl e) (readGolomb b) (Gen.read_golomb b) s :=
  guarded_bufR (read_golomb_guarded b) e s hs

theorem read_golomb_bitR (b : Nat) (e : Endian) (s : BitR) :
    AgreeOffPanic (BitR.impl e) (readGolomb b) (Gen.read_golomb b) s :=
  guarded_bitR (read_golomb_guarded b) e s

theorem read_exp_golomb_bufR (gtab : Option RTab) (k : Nat) (e : Endian) (s : BufR W) (hs : BInv e s) :
    AgreeOffPanic (BufR.impl e) (readExpGolomb gtab k) (Gen.read_exp_golomb (readGamma gtab) k) s :=
  guarded_bufR (read_exp_golomb_guarded gtab k) e s hs

theorem read_exp_golomb_bitR (gtab : Option RTab) (k : Nat) (e : Endian) (s : BitR) :
    AgreeOffPanic (BitR.impl e) (readExpGolomb gtab k) (Gen.read_exp_golomb (readGamma gtab) k) s :=
  guarded_bitR (read_exp_golomb_guarded gtab k) e s

theorem default_read_gamma_bufR (e : Endian) (s : BufR W) (hs : BInv e s) :
    AgreeOffPanic (BufR.impl e) readGammaDefault Gen.default_read_gamma s :=
  guarded_bufR default_read_gamma_guarded e s hs

theorem default_read_gamma_bitR (e : Endian) (s : BitR) :
    AgreeOffPanic (BitR.impl e) readGammaDefault Gen.default_read_gamma s :=
  guarded_bitR default_read_gamma_guarded e s

theorem default_read_delta_bufR (e' : Endian) (tg : Bool) (e : Endian) (s : BufR W) (hs : BInv e s) :
    AgreeOffPanic (BufR.impl e) (readDeltaDefault (opt tg (gammaRTab e'))) (Gen.default_read_delta (fun t => readGammaP e' t) tg) s :=
  guarded_bufR (default_read_delta_guarded e' tg) e s hs

theorem default_read_delta_bitR (e' : Endian) (tg : Bool) (e : Endian) (s : BitR) :
    AgreeOffPanic (BitR.impl e) (readDeltaDefault (opt tg (gammaRTab e'))) (Gen.default_read_delta (fun t => readGammaP e' t) tg) s :=
  guarded_bitR (default_read_delta_guarded e' tg) e s

theorem default_read_zeta_bufR (k : Nat) (e : Endian) (s : BufR W) (hs : BInv e s) :
    AgreeOffPanic (BufR.impl e) (readZetaDefault k) (Gen.default_read_zeta k) s :=
  guarded_bufR (default_read_zeta_guarded k) e s hs

theorem default_read_zeta_bitR (k : Nat) (e : Endian) (s : BitR) :
    AgreeOffPanic (BitR.impl e) (readZetaDefault k) (Gen.default_read_zeta k) s :=
  guarded_bitR (default_read_zeta_guarded k) e s

theorem read_omega_bufR (e' : Endian) (e : Endian) (s : BufR W) (hs : BInv e s) :
    AgreeOffPanic (BufR.impl e) (readOmega e') (Gen.read_omega e') s :=
  guarded_bufR (OmegaGen.read_omega_guarded e') e s hs

theorem read_omega_bitR (e' : Endian) (e : Endian) (s : BitR) :
    AgreeOffPanic (BitR.impl e) (readOmega e') (Gen.read_omega e') s :=
  guarded_bitR (OmegaGen.read_omega_guarded e') e s

theorem read_vbyte_be_bufR (fuel : Nat) (e : Endian) (s : BufR W) (hs : BInv e s) :
    AgreeOffPanic (BufR.impl e) (readVByteBe fuel) (Gen.read_vbyte_be fuel) s :=
  guarded_bufR (VByteGen.read_vbyte_be_guarded fuel) e s hs

theorem read_vbyte_be_bitR (fuel : Nat) (e : Endian) (s : BitR) :
    AgreeOffPanic (BitR.impl e) (readVByteBe fuel) (Gen.read_vbyte_be fuel) s :=
  guarded_bitR (VByteGen.read_vbyte_be_guarded fuel) e s

theorem read_vbyte_le_bufR (fuel : Nat) (e : Endian) (s : BufR W) (hs : BInv e s) :
    AgreeOffPanic (BufR.impl e) (readVByteLe fuel) (Gen.read_vbyte_le fuel) s :=
  guarded_bufR (VByteGen.read_vbyte_le_guarded fuel) e s hs

theorem read_vbyte_le_bitR (fuel : Nat) (e : Endian) (s : BitR) :
    AgreeOffPanic (BitR.impl e) (readVByteLe fuel) (Gen.read_vbyte_le fuel) s :=
  guarded_bitR (VByteGen.read_vbyte_le_guarded fuel) e s

end Corollaries

end Bounded
end Dsi
