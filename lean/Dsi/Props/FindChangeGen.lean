/-
  The generated `FindChangePoints::next` (lean/Dsi/Gen/FindChangeBody.lean, produced by
  tools/translate_findchange.py from src/utils/find_change.rs on every run) against the hand-written
  `FC.next` of lean/Dsi/Glue/FindChange.lean.

  The hand-written model keeps `prev_value` as an `Option` (`none` = the sentinel `usize::MAX`) and
  has the u64 overflow checks as `dpanic` points; the generated function works on the two fields
  as the Rust holds them.  For every state whose `prev_value`
  is not a genuine `usize::MAX` (`Wf`) the two agree: same item, same new fields, same `dpanic`
  points (the generated function carries the overflow check of every u64 `+` and the
  `debug_assert!`s), same behaviour when the loop fuel (65 rounds each) runs out.
-/
import Dsi.Glue.FindChange
import Dsi.Gen.FindChangeBody
namespace Dsi
namespace FindChangeGen
open Gen.FindChange

/-- the result of `FC.next` as the Rust holds it: the item and the two fields -/
def absOut : Option (Nat × Nat) × FC → Option (Nat × Nat) × Nat × Nat
  | (o, s) => (o, s.current, s.prevValue)

/-- a stored `prev_value` is never the sentinel -/
def Wf (s : FC) : Prop := ∀ v, s.prev = some v → v ≠ FC.U64MAX

theorem u64max : FC.U64MAX = 2 ^ 64 - 1 := rfl

/-- what `next` does with the outcome of the exponential search -/
def afterExp (cur prev : Nat) (k : Nat → Res (Option (Nat × Nat) × Nat × Nat)) :
    Res (Option Nat) → Res (Option (Nat × Nat) × Nat × Nat)
  | .ok none => .ok (none, cur, prev)
  | .ok (some st) => k st
  | .err e => .err e
  | .panic => .panic
  | .dpanic => .dpanic

theorem exp_eq (f : Nat → Nat) (cur prev : Nat) (k : Nat → Res (Option (Nat × Nat) × Nat × Nat)) :
    ∀ fuel step,
      next_loop1 fuel f cur prev step k = afterExp cur prev k (FC.expPhase f cur prev fuel step) := by
  intro fuel
  induction fuel with
  | zero => intro step; rfl
  | succ fuel ih =>
    intro step
    unfold FC.expPhase next_loop1
    rw [u64max]
    by_cases h1 : 2 ^ 64 - 1 - cur ≤ step
    · simp only [h1, if_true]; rfl
    · simp only [h1, if_false]
      by_cases h2 : cur + step ≥ 2 ^ 64
      · simp only [h2, if_true]; rfl
      · simp only [h2, if_false]
        by_cases h3 : f (cur + step) < prev
        · have h3' : ¬ f (cur + step) ≥ prev := by omega
          simp only [h3, if_true, h3', not_false_eq_true]; rfl
        · have h3' : f (cur + step) ≥ prev := by omega
          simp only [h3, if_false, h3', not_true_eq_false]
          by_cases h4 : f (cur + step) = prev
          · simp only [ne_eq, h4, not_true_eq_false, if_false]
            by_cases h5 : step * 2 ≥ 2 ^ 64
            · have h5' : ¬ step * 2 < 2 ^ 64 := by omega
              simp only [h5, if_true, h5', if_false]; rfl
            · have h5' : step * 2 < 2 ^ 64 := by omega
              simp only [h5, if_false, h5', if_true]
              exact ih (step * 2)
          · simp only [ne_eq, h4, not_false_eq_true, if_true]; rfl

/-- what `next` does with the outcome of the binary search -/
def afterBin (k : Nat → Res (Option (Nat × Nat) × Nat × Nat)) :
    Res Nat → Res (Option (Nat × Nat) × Nat × Nat)
  | .ok l => k l
  | .err e => .err e
  | .panic => .panic
  | .dpanic => .dpanic

/-- the binary search; its midpoint `left + (right - left) / 2` cannot overflow -/
theorem bin_eq (f : Nat → Nat) (cur prev : Nat) (k : Nat → Res (Option (Nat × Nat) × Nat × Nat)) :
    ∀ fuel left right, right < 2 ^ 64 →
      next_while1 fuel f cur prev left right (fun l _ => k l)
        = afterBin k (FC.binPhase f prev fuel left right) := by
  intro fuel
  induction fuel with
  | zero => intro l r _; rfl
  | succ fuel ih =>
    intro left right hr
    unfold FC.binPhase next_while1
    by_cases h1 : left < right
    · have hm : ¬ left + (right - left) / 2 ≥ 2 ^ 64 := by omega
      simp only [h1, if_true, hm, if_false]
      by_cases h2 : f (left + (right - left) / 2) < prev
      · have h2' : ¬ f (left + (right - left) / 2) ≥ prev := by omega
        simp only [h2, if_true, h2', not_false_eq_true]; rfl
      · have h2' : f (left + (right - left) / 2) ≥ prev := by omega
        simp only [h2, if_false, h2', not_true_eq_false]
        by_cases h3 : f (left + (right - left) / 2) = prev
        · simp only [h3, if_true]
          by_cases h4 : left + (right - left) / 2 + 1 ≥ 2 ^ 64
          · simp only [h4, if_true]; rfl
          · simp only [h4, if_false]
            exact ih _ _ hr
        · simp only [h3, if_false]
          exact ih _ _ (by omega)
    · simp only [h1, if_false]; rfl

theorem next_eq (f : Nat → Nat) (s : FC) (hs : Wf s) :
    Gen.FindChange.next f s.current s.prevValue = (FC.next f s).map absOut := by
  unfold FC.next Gen.FindChange.next
  have hprev : s.prevValue = 2 ^ 64 - 1 ↔ s.prev = none := by
    unfold FC.prevValue
    cases hp : s.prev with
    | none => simp [u64max]
    | some v =>
      have := hs v hp
      rw [u64max] at this
      simp [this]
  by_cases h0 : s.current = 0 ∧ s.prev = none
  · have h0' : s.current = 0 ∧ s.prevValue = 2 ^ 64 - 1 := ⟨h0.1, hprev.2 h0.2⟩
    simp only [h0, h0', and_self, if_true]
    rfl
  · have h0' : ¬ (s.current = 0 ∧ s.prevValue = 2 ^ 64 - 1) := by
      intro h; exact h0 ⟨h.1, hprev.1 h.2⟩
    simp only [h0, h0', if_false]
    generalize hP : s.prevValue = prev
    generalize hC : s.current = cur
    rw [exp_eq]
    generalize FC.expPhase f cur prev 65 1 = r
    cases r with
    | err e => rfl
    | panic => rfl
    | dpanic => rfl
    | ok o =>
      cases o with
      | none => simp only [afterExp, Res.map, absOut, hP, hC]
      | some step =>
        simp only [afterExp]
        by_cases h2 : cur + step ≥ 2 ^ 64
        · simp only [h2, if_true]
          by_cases h2' : cur + step / 2 ≥ 2 ^ 64
          · simp only [h2', if_true]; rfl
          · simp only [h2', if_false]; rfl
        · have h2' : ¬ cur + step / 2 ≥ 2 ^ 64 := by omega
          simp only [h2, h2', if_false]
          rw [bin_eq f cur prev (fun left =>
            if ¬ (f left ≥ prev) then .dpanic else .ok (some (left, f left), left, f left))
            65 (cur + step / 2) (cur + step) (by omega)]
          generalize FC.binPhase f prev 65 (cur + step / 2) (cur + step) = r
          cases r with
          | err e => rfl
          | panic => rfl
          | dpanic => rfl
          | ok l =>
            simp only [afterBin]
            by_cases h3 : f l < prev
            · have h3' : ¬ f l ≥ prev := by omega
              simp only [h3, if_true, h3', not_false_eq_true]; rfl
            · have h3' : f l ≥ prev := by omega
              simp only [h3, if_false, h3', not_true_eq_false, Res.map, absOut, FC.prevValue,
                Option.getD_some]

end FindChangeGen
end Dsi
