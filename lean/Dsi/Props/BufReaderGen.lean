/-
  The method bodies of `BufBitReader` as TRANSLATED from src/impls/buf_bit_reader.rs on every run
  (lean/Dsi/Gen/BufReaderBodies.lean, emitted by tools/translate_bufr.py) are EQUAL to the
  hand-written model (lean/Dsi/Impl/BufReader.lean) every other reader theorem is about.

  The translated functions return the Rust types (`u64` → `BitVec 64`, the peek word
  `BB<WR>` → `BitVec (2 * W)`); the hand model returns `Nat`.  The equalities are therefore
  stated through `Res.map (fun p => (p.1.toNat, p.2))` (written `natOut`).

  Hypotheses, and why they are there:
  * `0 < W` (refill, peek_bits, read_bits): `refill` asserts `BB::BITS - bits_in_buffer >= W`,
    which the hand model writes `bib ≤ W`; the two differ for `W = 0 < bib` (truncated
    subtraction).  In `read_bits` the Rust asserts `0 < n_bits ≤ W` after the word loop, the hand
    model does not; the assertions always hold when the 64 units of fuel suffice, i.e. `0 < W`.
  * `s.bib < 2 * W` (read_bits, read_unary, skip_bits): these Rust bodies start with
    `debug_assert!(self.bits_in_buffer < BB::<WR>::BITS)`, which the translation keeps (outcome
    `dpanic`) and the hand model leaves out because it is the struct invariant ("It is always
    smaller than `BB::<WR>::BITS`"); it is the first conjunct of `BufR.Rel`.
  * `s.bib + (s.back.data.length + 2 - s.back.pos) * W < 2 ^ 64` (read_unary): the Rust counts in
    `u64` (`result += WR::Word::BITS as u64`), the hand model in `Nat`; the two agree as long as
    the count cannot wrap, i.e. the remaining stream is shorter than `2^64` bits.
  * `W < 2 ^ 64` (set_bit_pos): `WR::Word::BITS as u64`.
  * `s.back.pos * W < 2 ^ 64` and `s.bib ≤ s.back.pos * W` (bit_pos): `u64` multiplication and
    subtraction against `Nat` (truncated) ones; the second is part of `BufR.Rel`.
  No hypothesis is needed for `skip_bits_after_peek`.
-/
import Dsi.Gen.BufReaderBodies
import Dsi.Props.Reader
namespace Dsi
namespace GenBufR
variable {W : Nat}

/-- the translated functions return `u64` / the peek word; the hand model returns `Nat` -/
def natOut {w : Nat} {σ : Type} (x : Res (BitVec w × σ)) : Res (Nat × σ) :=
  x.map fun p => (p.1.toNat, p.2)

/-! ### `refill`, `peek_bits`, `skip_bits_after_peek` -/

theorem refill_le_eq (s : BufR W) (hW : 0 < W) : Gen.BufR.refill_le s = BufR.refillLE s := by
  unfold Gen.BufR.refill_le BufR.refillLE
  by_cases h : s.bib > W
  · rw [if_pos (by omega), if_pos h]
  · rw [if_neg (by omega), if_neg h]
    cases s.back.readWord with
    | ok p => obtain ⟨w, bk⟩ := p; rfl
    | _ => rfl

theorem refill_be_eq (s : BufR W) (hW : 0 < W) : Gen.BufR.refill_be s = BufR.refillBE s := by
  unfold Gen.BufR.refill_be BufR.refillBE
  by_cases h : s.bib > W
  · rw [if_pos (by omega), if_pos h]
  · rw [if_neg (by omega), if_neg h]
    cases s.back.readWord with
    | ok p => obtain ⟨w, bk⟩ := p; rfl
    | _ => rfl

theorem peek_bits_le_eq (s : BufR W) (n : Nat) (hW : 0 < W) :
    natOut (Gen.BufR.peek_bits_le s n) = BufR.peekBitsLE s n := by
  unfold natOut Gen.BufR.peek_bits_le BufR.peekBitsLE
  rw [refill_le_eq s hW]
  by_cases h0 : n = 0 ∨ n > 2 * W
  · rw [if_pos h0]
    by_cases h1 : n > 0
    · rw [if_neg (fun h => h h1), if_pos (by omega)]; rfl
    · rw [if_pos h1]; rfl
  · rw [if_neg h0, if_neg (by omega), if_neg (by omega)]
    by_cases h2 : n > s.bib
    · simp only [if_pos h2]
      cases BufR.refillLE s with
      | ok s' =>
        simp only [Res.bind, Nat.not_le]
        by_cases h3 : n > s'.bib
        · simp only [if_pos h3]; rfl
        · simp only [if_neg h3]; rfl
      | _ => rfl
    · simp only [if_neg h2, Res.bind, Nat.not_le]; rfl

theorem peek_bits_be_eq (s : BufR W) (n : Nat) (hW : 0 < W) :
    natOut (Gen.BufR.peek_bits_be s n) = BufR.peekBitsBE s n := by
  unfold natOut Gen.BufR.peek_bits_be BufR.peekBitsBE
  rw [refill_be_eq s hW]
  by_cases h0 : n = 0 ∨ n > 2 * W
  · rw [if_pos h0]
    by_cases h1 : n > 0
    · rw [if_neg (fun h => h h1), if_pos (by omega)]; rfl
    · rw [if_pos h1]; rfl
  · rw [if_neg h0, if_neg (by omega), if_neg (by omega)]
    by_cases h2 : n > s.bib
    · simp only [if_pos h2]
      cases BufR.refillBE s with
      | ok s' =>
        simp only [Res.bind, Nat.not_le]
        by_cases h3 : n > s'.bib
        · simp only [if_pos h3]; rfl
        · simp only [if_neg h3]; rfl
      | _ => rfl
    · simp only [if_neg h2, Res.bind, Nat.not_le]; rfl

theorem skip_bits_after_peek_le_eq (s : BufR W) (n : Nat) :
    Gen.BufR.skip_bits_after_peek_le s n = .ok (BufR.skipAfterPeekLE s n) := rfl

theorem skip_bits_after_peek_be_eq (s : BufR W) (n : Nat) :
    Gen.BufR.skip_bits_after_peek_be s n = .ok (BufR.skipAfterPeekBE s n) := rfl

/-! ### `read_bits` -/

theorem whileN_readWordsLE (n : Nat) (buf : BitVec (2 * W)) (bib : Nat)
    (c : BitVec 64 × Nat × BufR W → Bool) (f : BitVec 64 × Nat × BufR W → Res (BitVec 64 × Nat × BufR W))
    (hc : ∀ st, c st = decide (n > W + st.2.1))
    (hf : ∀ st, f st = Res.bind st.2.2.back.readWord fun rw =>
      .ok (st.1 ||| (rw.1.setWidth 64 <<< st.2.1), st.2.1 + W, { st.2.2 with back := rw.2 })) :
    ∀ k r b (bk : MemR W), whileN k (r, b, ⟨buf, bib, bk⟩) c f =
      (BufR.readWordsLE k bk r b n).map fun p => (p.1, p.2.1, ⟨buf, bib, p.2.2⟩)
  | 0, r, b, bk => rfl
  | k + 1, r, b, bk => by
    simp only [whileN, BufR.readWordsLE, hc, hf]
    by_cases h : n > W + b
    · simp only [h, decide_true, if_true]
      show Res.bind (Res.bind bk.readWord _) _ = _
      cases bk.readWord with
      | ok p =>
        obtain ⟨w, bk'⟩ := p
        exact whileN_readWordsLE n buf bib c f hc hf k _ _ bk'
      | _ => rfl
    · simp only [h, decide_false, if_false, Bool.false_eq_true]; rfl

/-- the fuel suffices: the word loop is left with `0 < n - b' ≤ W` -/
theorem readWordsLE_bound (n : Nat) : ∀ k (bk : MemR W) r b r' b' bk',
    BufR.readWordsLE k bk r b n = .ok (r', b', bk') → b < n → n ≤ b + k * W + W →
    b' < n ∧ n ≤ W + b'
  | 0, bk, r, b, r', b', bk', h, h1, h2 => by
    simp only [BufR.readWordsLE, Res.ok.injEq, Prod.mk.injEq] at h
    omega
  | k + 1, bk, r, b, r', b', bk', h, h1, h2 => by
    simp only [BufR.readWordsLE] at h
    by_cases hc : n > W + b
    · simp only [hc, if_true] at h
      cases hr : bk.readWord with
      | ok p =>
        obtain ⟨w, bk1⟩ := p
        simp only [hr] at h
        refine readWordsLE_bound n k bk1 _ (b + W) r' b' bk' h (by omega) ?_
        rw [Nat.succ_mul] at h2; omega
      | _ => simp [hr] at h
    · simp only [hc, if_false, Res.ok.injEq, Prod.mk.injEq] at h
      omega

theorem read_bits_le_eq (s : BufR W) (n : Nat) (hW : 0 < W) (hb : s.bib < 2 * W) :
    natOut (Gen.BufR.read_bits_le s n) = BufR.readBitsLE s n := by
  obtain ⟨buf, bib, bk⟩ := s
  simp only at hb
  unfold natOut Gen.BufR.read_bits_le BufR.readBitsLE
  by_cases hn : n > 64
  · rw [if_pos (by omega), if_pos hn]; rfl
  · rw [if_neg (by omega), if_neg hn, if_neg (by simp only; omega)]
    by_cases hf : n ≤ bib
    · rw [if_pos hf, if_pos hf]; rfl
    · rw [if_neg hf, if_neg hf]
      simp only
      rw [whileN_readWordsLE n buf bib _ _ ?_ ?_]
      rotate_left
      · intro st; rfl
      · intro st; rfl
      cases hl : BufR.readWordsLE 64 bk (BitVec.setWidth 64 buf) bib n with
      | ok p =>
        obtain ⟨r', b', bk'⟩ := p
        have hbd := readWordsLE_bound n 64 bk _ bib r' b' bk' hl (by omega) (by have := hW; omega)
        simp only [Res.map, Res.bind]
        rw [if_neg (by omega), if_neg (by omega)]
        cases bk'.readWord with
        | ok q =>
          obtain ⟨w, bk2⟩ := q
          simp only [BitVec.setWidth_eq]
        | _ => rfl
      | _ => rfl

theorem whileN_readWordsBE (buf : BitVec (2 * W)) (bib : Nat)
    (c : Nat × BitVec 64 × BufR W → Bool) (f : Nat × BitVec 64 × BufR W → Res (Nat × BitVec 64 × BufR W))
    (hc : ∀ st, c st = decide (st.1 > W))
    (hf : ∀ st, f st = Res.bind st.2.2.back.readWord fun rw =>
      .ok (st.1 - W, (st.2.1 <<< W) ||| rw.1.setWidth 64, { st.2.2 with back := rw.2 })) :
    ∀ k n r (bk : MemR W), whileN k (n, r, ⟨buf, bib, bk⟩) c f =
      (BufR.readWordsBE k bk r n).map fun p => (p.2.1, p.1, ⟨buf, bib, p.2.2⟩)
  | 0, n, r, bk => rfl
  | k + 1, n, r, bk => by
    simp only [whileN, BufR.readWordsBE, hc, hf]
    by_cases h : n > W
    · simp only [h, decide_true, if_true]
      show Res.bind (Res.bind bk.readWord _) _ = _
      cases bk.readWord with
      | ok p =>
        obtain ⟨w, bk'⟩ := p
        exact whileN_readWordsBE buf bib c f hc hf k _ _ bk'
      | _ => rfl
    · simp only [h, decide_false, if_false, Bool.false_eq_true]; rfl

/-- the fuel suffices: the word loop is left with `0 < n' ≤ W` -/
theorem readWordsBE_bound : ∀ k (bk : MemR W) r n r' n' bk',
    BufR.readWordsBE k bk r n = .ok (r', n', bk') → 0 < n → n ≤ k * W + W → 0 < n' ∧ n' ≤ W
  | 0, bk, r, n, r', n', bk', h, h1, h2 => by
    simp only [BufR.readWordsBE, Res.ok.injEq, Prod.mk.injEq] at h
    omega
  | k + 1, bk, r, n, r', n', bk', h, h1, h2 => by
    simp only [BufR.readWordsBE] at h
    by_cases hc : n > W
    · simp only [hc, if_true] at h
      cases hr : bk.readWord with
      | ok p =>
        obtain ⟨w, bk1⟩ := p
        simp only [hr] at h
        refine readWordsBE_bound k bk1 _ (n - W) r' n' bk' h (by omega) ?_
        rw [Nat.succ_mul] at h2; omega
      | _ => simp [hr] at h
    · simp only [hc, if_false, Res.ok.injEq, Prod.mk.injEq] at h
      omega

theorem read_bits_be_eq (s : BufR W) (n : Nat) (hW : 0 < W) (hb : s.bib < 2 * W) :
    natOut (Gen.BufR.read_bits_be s n) = BufR.readBitsBE s n := by
  obtain ⟨buf, bib, bk⟩ := s
  simp only at hb
  unfold natOut Gen.BufR.read_bits_be BufR.readBitsBE
  by_cases hn : n > 64
  · rw [if_pos (by omega), if_pos hn]; rfl
  · rw [if_neg (by omega), if_neg hn, if_neg (by simp only; omega)]
    by_cases hf : n ≤ bib
    · rw [if_pos hf, if_pos hf]; rfl
    · rw [if_neg hf, if_neg hf]
      simp only
      rw [whileN_readWordsBE buf bib _ _ ?_ ?_]
      rotate_left
      · intro st; rfl
      · intro st; rfl
      cases hl : BufR.readWordsBE 64 bk (BitVec.setWidth 64 (buf >>> (2 * W - 1 - bib) >>> 1)) (n - bib) with
      | ok p =>
        obtain ⟨r', n', bk'⟩ := p
        have hbd := readWordsBE_bound 64 bk _ (n - bib) r' n' bk' hl (by omega) (by have := hW; omega)
        simp only [Res.map, Res.bind]
        rw [if_neg (by omega), if_neg (by omega)]
        cases bk'.readWord with
        | ok q =>
          obtain ⟨w, bk2⟩ := q
          simp only [BitVec.setWidth_eq]
        | _ => rfl
      | _ => rfl

/-! ### `read_unary` -/

theorem toNat_ofNat_add (a b : Nat) (h : a + b < 2 ^ 64) :
    (BitVec.ofNat 64 a + BitVec.ofNat 64 b).toNat = a + b := by
  rw [← BitVec.ofNat_add, BitVec.toNat_ofNat, Nat.mod_eq_of_lt h]

theorem ofNat_toNat_of_lt (x : Nat) (h : x < 2 ^ 64) : (BitVec.ofNat 64 x).toNat = x := by
  rw [BitVec.toNat_ofNat, Nat.mod_eq_of_lt h]

theorem loopN_unaryWordsLE (buf : BitVec (2 * W)) (bib : Nat)
    (f : BitVec 64 × BufR W → Res (Step (BitVec 64 × BufR W) (BitVec 64 × BufR W)))
    (hf : ∀ st, f st = Res.bind st.2.back.readWord fun rw =>
      if rw.1 ≠ (0 : BitVec W) then
        .ok (Step.ret (st.1 + BitVec.ofNat 64 (BufR.ctz rw.1),
          ⟨(rw.1.setWidth (2 * W) >>> BufR.ctz rw.1) >>> 1, W - BufR.ctz rw.1 - 1, rw.2⟩))
      else .ok (Step.next (st.1 + BitVec.ofNat 64 W, { st.2 with back := rw.2 }))) :
    ∀ k (r : Nat) (bk : MemR W), r + k * W < 2 ^ 64 →
      natOut (loopN k (BitVec.ofNat 64 r, (⟨buf, bib, bk⟩ : BufR W)) f) = BufR.unaryWordsLE k bk r
  | 0, r, bk, _ => rfl
  | k + 1, r, bk, h => by
    rw [Nat.succ_mul] at h
    simp only [natOut, loopN, BufR.unaryWordsLE, hf]
    show Res.map _ (Res.bind (Res.bind bk.readWord _) _) = _
    cases bk.readWord with
    | ok p =>
      obtain ⟨w, bk'⟩ := p
      simp only [Res.bind]
      by_cases hw : w ≠ 0
      · simp only [hw, if_true, Res.map, ne_eq, not_false_eq_true]
        have := ctz_le w
        rw [toNat_ofNat_add r _ (by omega)]
      · simp only [hw, if_false]
        rw [← BitVec.ofNat_add]
        exact loopN_unaryWordsLE buf bib f hf k (r + W) bk' (by omega)
    | _ => rfl

theorem read_unary_le_eq (s : BufR W) (hb : s.bib < 2 * W)
    (hfit : s.bib + (s.back.data.length + 2 - s.back.pos) * W < 2 ^ 64) :
    natOut (Gen.BufR.read_unary_le s) = BufR.readUnaryLE s := by
  obtain ⟨buf, bib, bk⟩ := s
  simp only at hb hfit
  unfold Gen.BufR.read_unary_le BufR.readUnaryLE
  rw [if_neg (by simp only; omega)]
  by_cases hz : BufR.ctz buf < bib
  · simp only [hz, if_true, natOut, Res.map]
    rw [ofNat_toNat_of_lt _ (by omega)]
  · simp only [hz, if_false]
    exact loopN_unaryWordsLE buf bib _ (fun _ => rfl) _ bib bk hfit

theorem loopN_unaryWordsBE (buf : BitVec (2 * W)) (bib : Nat)
    (f : BitVec 64 × BufR W → Res (Step (BitVec 64 × BufR W) (BitVec 64 × BufR W)))
    (hf : ∀ st, f st = Res.bind st.2.back.readWord fun rw =>
      if rw.1 ≠ (0 : BitVec W) then
        .ok (Step.ret (st.1 + BitVec.ofNat 64 (BufR.clz rw.1),
          ⟨(rw.1.setWidth (2 * W) <<< (W + BufR.clz rw.1)) <<< 1, W - BufR.clz rw.1 - 1, rw.2⟩))
      else .ok (Step.next (st.1 + BitVec.ofNat 64 W, { st.2 with back := rw.2 }))) :
    ∀ k (r : Nat) (bk : MemR W), r + k * W < 2 ^ 64 →
      natOut (loopN k (BitVec.ofNat 64 r, (⟨buf, bib, bk⟩ : BufR W)) f) = BufR.unaryWordsBE k bk r
  | 0, r, bk, _ => rfl
  | k + 1, r, bk, h => by
    rw [Nat.succ_mul] at h
    simp only [natOut, loopN, BufR.unaryWordsBE, hf]
    show Res.map _ (Res.bind (Res.bind bk.readWord _) _) = _
    cases bk.readWord with
    | ok p =>
      obtain ⟨w, bk'⟩ := p
      simp only [Res.bind]
      by_cases hw : w ≠ 0
      · simp only [hw, if_true, Res.map, ne_eq, not_false_eq_true]
        have := clz_le w
        rw [toNat_ofNat_add r _ (by omega)]
      · simp only [hw, if_false]
        rw [← BitVec.ofNat_add]
        exact loopN_unaryWordsBE buf bib f hf k (r + W) bk' (by omega)
    | _ => rfl

theorem read_unary_be_eq (s : BufR W) (hb : s.bib < 2 * W)
    (hfit : s.bib + (s.back.data.length + 2 - s.back.pos) * W < 2 ^ 64) :
    natOut (Gen.BufR.read_unary_be s) = BufR.readUnaryBE s := by
  obtain ⟨buf, bib, bk⟩ := s
  simp only at hb hfit
  unfold Gen.BufR.read_unary_be BufR.readUnaryBE
  rw [if_neg (by simp only; omega)]
  by_cases hz : BufR.clz buf < bib
  · simp only [hz, if_true, natOut, Res.map]
    rw [ofNat_toNat_of_lt _ (by omega)]
  · simp only [hz, if_false]
    exact loopN_unaryWordsBE buf bib _ (fun _ => rfl) _ bib bk hfit

/-! ### `skip_bits` -/

theorem whileN_skipWords (buf : BitVec (2 * W)) (bib : Nat)
    (c : Nat × BufR W → Bool) (f : Nat × BufR W → Res (Nat × BufR W))
    (hc : ∀ st, c st = decide (st.1 > W))
    (hf : ∀ st, f st = Res.bind st.2.back.readWord fun rw =>
      .ok (st.1 - W, { st.2 with back := rw.2 })) :
    ∀ k n (bk : MemR W), whileN k (n, (⟨buf, bib, bk⟩ : BufR W)) c f =
      (BufR.skipWords k bk n).map fun p => (p.1, ⟨buf, bib, p.2⟩)
  | 0, n, bk => rfl
  | k + 1, n, bk => by
    simp only [whileN, BufR.skipWords, hc, hf]
    by_cases h : n > W
    · simp only [h, decide_true, if_true]
      show Res.bind (Res.bind bk.readWord _) _ = _
      cases bk.readWord with
      | ok p =>
        obtain ⟨w, bk'⟩ := p
        exact whileN_skipWords buf bib c f hc hf k _ bk'
      | _ => rfl
    · simp only [h, decide_false, if_false, Bool.false_eq_true]; rfl

theorem skip_bits_le_eq (s : BufR W) (n : Nat) (hb : s.bib < 2 * W) :
    Gen.BufR.skip_bits_le s n = BufR.skipBitsLE s n := by
  obtain ⟨buf, bib, bk⟩ := s
  simp only at hb
  unfold Gen.BufR.skip_bits_le BufR.skipBitsLE
  rw [if_neg (by simp only; omega)]
  by_cases hf : n ≤ bib
  · rw [if_pos hf, if_pos hf]
  · rw [if_neg hf, if_neg hf]
    simp only
    rw [whileN_skipWords buf bib _ _ ?_ ?_]
    rotate_left
    · intro st; rfl
    · intro st; rfl
    cases BufR.skipWords (n - bib) bk (n - bib) with
    | ok p =>
      obtain ⟨n', bk'⟩ := p
      simp only [Res.map, Res.bind]
      cases bk'.readWord with
      | ok q => obtain ⟨w, bk2⟩ := q; rfl
      | _ => rfl
    | _ => rfl

theorem skip_bits_be_eq (s : BufR W) (n : Nat) (hb : s.bib < 2 * W) :
    Gen.BufR.skip_bits_be s n = BufR.skipBitsBE s n := by
  obtain ⟨buf, bib, bk⟩ := s
  simp only at hb
  unfold Gen.BufR.skip_bits_be BufR.skipBitsBE
  rw [if_neg (by simp only; omega)]
  by_cases hf : n ≤ bib
  · rw [if_pos hf, if_pos hf]
  · rw [if_neg hf, if_neg hf]
    simp only
    rw [whileN_skipWords buf bib _ _ ?_ ?_]
    rotate_left
    · intro st; rfl
    · intro st; rfl
    cases BufR.skipWords (n - bib) bk (n - bib) with
    | ok p =>
      obtain ⟨n', bk'⟩ := p
      simp only [Res.map, Res.bind]
      cases bk'.readWord with
      | ok q => obtain ⟨w, bk2⟩ := q; rfl
      | _ => rfl
    | _ => rfl

/-! ### `BitSeek`: `set_bit_pos`, `bit_pos` -/

theorem set_bit_pos_le_eq (s : BufR W) (p : BitVec 64) (hW : W < 2 ^ 64) :
    Gen.BufR.set_bit_pos_le s p = BufR.setBitPosLE s p.toNat := by
  obtain ⟨buf, bib, bk⟩ := s
  unfold Gen.BufR.set_bit_pos_le BufR.setBitPosLE
  simp only [BitVec.toNat_udiv, BitVec.toNat_umod, ofNat_toNat_of_lt W hW]
  cases bk.setWordPos (p.toNat / W) with
  | ok bk1 =>
    simp only [Res.bind]
    by_cases ho : p.toNat % W ≠ 0
    · simp only [ho, if_true, ne_eq, not_false_eq_true]
      cases bk1.readWord with
      | ok q => obtain ⟨w, bk2⟩ := q; rfl
      | _ => rfl
    · simp only [ho, if_false]
  | _ => rfl

theorem set_bit_pos_be_eq (s : BufR W) (p : BitVec 64) (hW : W < 2 ^ 64) :
    Gen.BufR.set_bit_pos_be s p = BufR.setBitPosBE s p.toNat := by
  obtain ⟨buf, bib, bk⟩ := s
  unfold Gen.BufR.set_bit_pos_be BufR.setBitPosBE
  simp only [BitVec.toNat_udiv, BitVec.toNat_umod, ofNat_toNat_of_lt W hW]
  cases bk.setWordPos (p.toNat / W) with
  | ok bk1 =>
    simp only [Res.bind]
    by_cases ho : p.toNat % W ≠ 0
    · simp only [ho, if_true, ne_eq, not_false_eq_true]
      cases bk1.readWord with
      | ok q => obtain ⟨w, bk2⟩ := q; rfl
      | _ => rfl
    · simp only [ho, if_false]
  | _ => rfl

theorem bit_pos_le_eq (s : BufR W) (h1 : s.back.pos * W < 2 ^ 64) (h2 : s.bib ≤ s.back.pos * W) :
    natOut (Gen.BufR.bit_pos_le s) = .ok (s.bitPos, s) := by
  obtain ⟨buf, bib, bk⟩ := s
  simp only at h1 h2
  unfold natOut Gen.BufR.bit_pos_le BufR.bitPos MemR.wordPos
  simp only [Res.map, Res.ok.injEq, Prod.mk.injEq, and_true]
  have hb : bib < 2 ^ 64 := by omega
  rw [← BitVec.ofNat_mul, BitVec.toNat_sub, ofNat_toNat_of_lt _ h1, ofNat_toNat_of_lt _ hb]
  omega

theorem bit_pos_be_eq (s : BufR W) (h1 : s.back.pos * W < 2 ^ 64) (h2 : s.bib ≤ s.back.pos * W) :
    natOut (Gen.BufR.bit_pos_be s) = .ok (s.bitPos, s) := by
  obtain ⟨buf, bib, bk⟩ := s
  simp only at h1 h2
  unfold natOut Gen.BufR.bit_pos_be BufR.bitPos MemR.wordPos
  simp only [Res.map, Res.ok.injEq, Prod.mk.injEq, and_true]
  have hb : bib < 2 ^ 64 := by omega
  rw [← BitVec.ofNat_mul, BitVec.toNat_sub, ofNat_toNat_of_lt _ h1, ofNat_toNat_of_lt _ hb]
  omega

/-! ### the fuel of `whileN`

`whileN` leaves the loop when the fuel runs out.  Whenever a run leaves the loop because the
condition became false (or by an error), more fuel changes nothing: -/

theorem whileN_fuel_irrelevant {σ : Type} (c : σ → Bool) (f : σ → Res σ) :
    ∀ k st, (∀ st', whileN k st c f = .ok st' → c st' = false) →
      ∀ m, whileN (k + m) st c f = whileN k st c f
  | 0, st, h, m => by
    have hc := h st rfl
    cases m with
    | zero => rfl
    | succ m => simp only [whileN, hc, Bool.false_eq_true, if_false]
  | k + 1, st, h, m => by
    rw [show k + 1 + m = (k + m) + 1 by omega]
    simp only [whileN] at h ⊢
    cases hc : c st with
    | false => simp only [Bool.false_eq_true, if_false]
    | true =>
      simp only [hc, if_true] at h ⊢
      cases hf : f st with
      | ok st1 =>
        simp only [hf, Res.bind] at h ⊢
        exact whileN_fuel_irrelevant c f k st1 h m
      | _ => rfl

/-- the 64 units of fuel of the `read_bits` word loops suffice (LE): with `0 < W`, `n ≤ 64` the
    translated loop gives the same result with any larger fuel -/
theorem read_bits_le_fuel (n : Nat) (buf : BitVec (2 * W)) (bib : Nat) (hW : 0 < W) (hn : n ≤ 64)
    (hb : bib < n) (c : BitVec 64 × Nat × BufR W → Bool)
    (f : BitVec 64 × Nat × BufR W → Res (BitVec 64 × Nat × BufR W))
    (hc : ∀ st, c st = decide (n > W + st.2.1))
    (hf : ∀ st, f st = Res.bind st.2.2.back.readWord fun rw =>
      .ok (st.1 ||| (rw.1.setWidth 64 <<< st.2.1), st.2.1 + W, { st.2.2 with back := rw.2 }))
    (r : BitVec 64) (bk : MemR W) (m : Nat) :
    whileN (64 + m) (r, bib, ⟨buf, bib, bk⟩) c f = whileN 64 (r, bib, ⟨buf, bib, bk⟩) c f := by
  apply whileN_fuel_irrelevant
  intro st' h
  rw [whileN_readWordsLE n buf bib c f hc hf] at h
  cases hl : BufR.readWordsLE 64 bk r bib n with
  | ok p =>
    obtain ⟨r', b', bk'⟩ := p
    have hbd := readWordsLE_bound n 64 bk r bib r' b' bk' hl hb (by omega)
    simp only [hl, Res.map, Res.ok.injEq] at h
    subst h
    simp only [hc, decide_eq_false_iff_not]
    omega
  | _ => simp [hl, Res.map] at h

/-- the same for the BE word loop -/
theorem read_bits_be_fuel (buf : BitVec (2 * W)) (bib : Nat) (hW : 0 < W) (n : Nat) (hn : n ≤ 64)
    (h0 : 0 < n) (c : Nat × BitVec 64 × BufR W → Bool)
    (f : Nat × BitVec 64 × BufR W → Res (Nat × BitVec 64 × BufR W))
    (hc : ∀ st, c st = decide (st.1 > W))
    (hf : ∀ st, f st = Res.bind st.2.2.back.readWord fun rw =>
      .ok (st.1 - W, (st.2.1 <<< W) ||| rw.1.setWidth 64, { st.2.2 with back := rw.2 }))
    (r : BitVec 64) (bk : MemR W) (m : Nat) :
    whileN (64 + m) (n, r, ⟨buf, bib, bk⟩) c f = whileN 64 (n, r, ⟨buf, bib, bk⟩) c f := by
  apply whileN_fuel_irrelevant
  intro st' h
  rw [whileN_readWordsBE buf bib c f hc hf] at h
  cases hl : BufR.readWordsBE 64 bk r n with
  | ok p =>
    obtain ⟨r', n', bk'⟩ := p
    have hbd := readWordsBE_bound 64 bk r n r' n' bk' hl h0 (by omega)
    simp only [hl, Res.map, Res.ok.injEq] at h
    subst h
    simp only [hc, decide_eq_false_iff_not]
    omega
  | _ => simp [hl, Res.map] at h

/-- the word loop of `skip_bits` is left with `n' ≤ W` when the fuel covers `n` -/
theorem skipWords_bound : ∀ k (bk : MemR W) n n' bk',
    BufR.skipWords k bk n = .ok (n', bk') → n ≤ k * W + W → n' ≤ W
  | 0, bk, n, n', bk', h, h2 => by
    simp only [BufR.skipWords, Res.ok.injEq, Prod.mk.injEq] at h
    omega
  | k + 1, bk, n, n', bk', h, h2 => by
    simp only [BufR.skipWords] at h
    by_cases hc : n > W
    · simp only [hc, if_true] at h
      cases hr : bk.readWord with
      | ok p =>
        obtain ⟨w, bk1⟩ := p
        simp only [hr] at h
        refine skipWords_bound k bk1 (n - W) n' bk' h ?_
        rw [Nat.succ_mul] at h2; omega
      | _ => simp [hr] at h
    · simp only [hc, if_false, Res.ok.injEq, Prod.mk.injEq] at h
      omega

/-- the `n` units of fuel of the `skip_bits` word loop suffice (`0 < W`) -/
theorem skip_bits_fuel (buf : BitVec (2 * W)) (bib : Nat) (hW : 0 < W)
    (c : Nat × BufR W → Bool) (f : Nat × BufR W → Res (Nat × BufR W))
    (hc : ∀ st, c st = decide (st.1 > W))
    (hf : ∀ st, f st = Res.bind st.2.back.readWord fun rw =>
      .ok (st.1 - W, { st.2 with back := rw.2 }))
    (n : Nat) (bk : MemR W) (m : Nat) :
    whileN (n + m) (n, (⟨buf, bib, bk⟩ : BufR W)) c f = whileN n (n, ⟨buf, bib, bk⟩) c f := by
  apply whileN_fuel_irrelevant
  intro st' h
  rw [whileN_skipWords buf bib c f hc hf] at h
  cases hl : BufR.skipWords n bk n with
  | ok p =>
    obtain ⟨n', bk'⟩ := p
    have hbd := skipWords_bound n bk n n' bk' hl (by
      have : n ≤ n * W := Nat.le_mul_of_pos_right n hW
      omega)
    simp only [hl, Res.map, Res.ok.injEq] at h
    subst h
    simp only [hc, decide_eq_false_iff_not]
    omega
  | _ => simp [hl, Res.map] at h

/-! ### the refinement theorems, about the TRANSLATED bodies

`Dsi.readBits_sim`, `Dsi.peekBits_sim`, … (lean/Dsi/Props/Reader.lean) are about the hand model;
through the equalities above they hold of the text translated from the Rust source on this run. -/

/-- the translated bodies packaged as an implementation of the `BitRead` interface -/
def genImpl (e : Endian) : RImpl (BufR W) :=
  match e with
  | .be => { readBits := fun s n => natOut (Gen.BufR.read_bits_be s n),
             peekBits := fun s n => natOut (Gen.BufR.peek_bits_be s n),
             skipAfterPeek := fun s n =>
               match Gen.BufR.skip_bits_after_peek_be s n with
               | .ok s' => s'
               | _ => s,
             skipBits := Gen.BufR.skip_bits_be,
             readUnary := fun s => natOut (Gen.BufR.read_unary_be s) }
  | .le => { readBits := fun s n => natOut (Gen.BufR.read_bits_le s n),
             peekBits := fun s n => natOut (Gen.BufR.peek_bits_le s n),
             skipAfterPeek := fun s n =>
               match Gen.BufR.skip_bits_after_peek_le s n with
               | .ok s' => s'
               | _ => s,
             skipBits := Gen.BufR.skip_bits_le,
             readUnary := fun s => natOut (Gen.BufR.read_unary_le s) }

/-- `set_bit_pos` of the translated `BitSeek` impls -/
def genSetBitPos (e : Endian) (s : BufR W) (p : BitVec 64) : Res (BufR W) :=
  match e with
  | .be => Gen.BufR.set_bit_pos_be s p
  | .le => Gen.BufR.set_bit_pos_le s p

/-- `bit_pos` of the translated `BitSeek` impls -/
def genBitPos (e : Endian) (s : BufR W) : Res (Nat × BufR W) :=
  match e with
  | .be => natOut (Gen.BufR.bit_pos_be s)
  | .le => natOut (Gen.BufR.bit_pos_le s)

theorem genImpl_readBits (e : Endian) (s : BufR W) (hW : 0 < W) (hb : s.bib < 2 * W) (n : Nat) :
    (genImpl e).readBits s n = (BufR.impl e).readBits s n := by
  cases e
  · exact read_bits_be_eq s n hW hb
  · exact read_bits_le_eq s n hW hb

theorem genImpl_peekBits (e : Endian) (s : BufR W) (hW : 0 < W) (n : Nat) :
    (genImpl e).peekBits s n = (BufR.impl e).peekBits s n := by
  cases e
  · exact peek_bits_be_eq s n hW
  · exact peek_bits_le_eq s n hW

theorem genImpl_skipAfterPeek (e : Endian) (s : BufR W) (n : Nat) :
    (genImpl e).skipAfterPeek s n = (BufR.impl e).skipAfterPeek s n := by
  cases e <;> rfl

theorem genImpl_skipBits (e : Endian) (s : BufR W) (hb : s.bib < 2 * W) (n : Nat) :
    (genImpl e).skipBits s n = (BufR.impl e).skipBits s n := by
  cases e
  · exact skip_bits_be_eq s n hb
  · exact skip_bits_le_eq s n hb

theorem genImpl_readUnary (e : Endian) (s : BufR W) (hb : s.bib < 2 * W)
    (hfit : s.bib + (s.back.data.length + 2 - s.back.pos) * W < 2 ^ 64) :
    (genImpl e).readUnary s = (BufR.impl e).readUnary s := by
  cases e
  · exact read_unary_be_eq s hb hfit
  · exact read_unary_le_eq s hb hfit

theorem gen_readBits_sim {e : Endian} (hW64 : e = .be → W ≤ 64) {s : BufR W} {r : RefR}
    (h : BufR.Rel e s r) (n : Nat) :
    ResRel (fun (a, s') (b, r') => a = b ∧ BufR.Rel e s' r')
      ((genImpl e).readBits s n) (RefR.readBits r n) := by
  rw [genImpl_readBits e s (Rel.pos_W h) h.1]
  exact readBits_sim hW64 h n

theorem gen_peekBits_sim {e : Endian} {s : BufR W} {r : RefR} (h : BufR.Rel e s r) {n : Nat}
    (hn : n ≤ W) :
    ResRel (fun (a, s') (b, r') => a = b ∧ BufR.Rel e s' r')
      ((genImpl e).peekBits s n) (RefR.peekBits r n) := by
  rw [genImpl_peekBits e s (Rel.pos_W h)]
  exact peekBits_sim h hn

theorem gen_skipBits_sim {e : Endian} {s : BufR W} {r : RefR} (h : BufR.Rel e s r) (n : Nat) :
    ResRel (fun s' r' => BufR.Rel e s' r') ((genImpl e).skipBits s n) (RefR.skipBits r n) := by
  rw [genImpl_skipBits e s h.1]
  exact skipBits_sim h n

/-- `hfit`: the unread part of the stream is shorter than `2^64` bits (the Rust counts in `u64`) -/
theorem gen_readUnary_sim {e : Endian} {s : BufR W} {r : RefR} (h : BufR.Rel e s r)
    (hfit : s.bib + (s.back.data.length + 2 - s.back.pos) * W < 2 ^ 64) :
    ResRel (fun (a, s') (b, r') => a = b ∧ BufR.Rel e s' r')
      ((genImpl e).readUnary s) (RefR.readUnary r) := by
  rw [genImpl_readUnary e s h.1 hfit]
  exact readUnary_sim h

theorem gen_setBitPos_sim {e : Endian} {s : BufR W} {r : RefR} (h : BufR.Rel e s r)
    (hW : W < 2 ^ 64) {p : BitVec 64} (hp : p.toNat ≤ r.stream.length) :
    ResRel (fun s' r' => BufR.Rel e s' r') (genSetBitPos e s p) (.ok (r.seek p.toNat)) := by
  have := setBitPos_sim h hp
  cases e
  · rw [show genSetBitPos .be s p = BufR.setBitPos .be s p.toNat from set_bit_pos_be_eq s p hW]
    exact this
  · rw [show genSetBitPos .le s p = BufR.setBitPos .le s p.toNat from set_bit_pos_le_eq s p hW]
    exact this

/-- `hfit`: the backend position in bits fits a `u64` -/
theorem gen_bitPos_eq {e : Endian} {s : BufR W} {r : RefR} (h : BufR.Rel e s r)
    (hfit : s.back.pos * W < 2 ^ 64) : genBitPos e s = .ok (r.pos, s) := by
  have h2 : s.bib ≤ s.back.pos * W := by have := h.2.2.2.2.2.2.1; omega
  rw [← bitPos_eq h]
  cases e
  · exact bit_pos_be_eq s hfit h2
  · exact bit_pos_le_eq s hfit h2

end GenBufR
end Dsi
