/-
  The generated method bodies of `CodesStats` / `CodesStatsWrapper` (lean/Dsi/Gen/StatsBodies.lean,
  produced by tools/translate_statsbodies.py from src/utils/stats.rs on every run, statement by
  statement) compute the hand-written model of lean/Dsi/Glue/Stats.lean (`Stats.updateMany`,
  `Stats.update`, `Stats.add`, `Stats.sum`, `Stats.bestCode`, `Stats.empty`) and of
  lean/Dsi/Glue/StatsWrapper.lean (`StatsWrapper.read` / `write`), which the theorems of
  lean/Dsi/Props/C15.lean are about.

  The generated bodies carry the u64 / usize overflow checks of the Rust arithmetic (`dpanic`); the
  model works on `Nat`.  The hypotheses are therefore explicit, as in C15:
    * `Stats.fits` of the *result* (no counter exceeds `2^64 - 1`);
    * `n < 2^64 - 1` for `update_many` (the body computes `n + 1` on a u64; for `update`, whose count is
      1, this follows from `fits`);
    * `Small s`: the arrays are shorter than `2^64 - 2` (they are `[u64; N]` with `N : usize`; the body
      computes `index + 1`, `index + 2` on a usize);
    * `SameShape s r` for `add`: corresponding arrays have the same length (they have the same type
      `[u64; N]` in Rust; `zip` would stop at the shorter one, the model's `zipWith` truncates).
-/
import Dsi.Glue.StatsWrapper
import Dsi.Gen.StatsBodies
import Dsi.Props.C15
import Dsi.Props.LenGen
namespace Dsi
namespace StatsGen
open Gen Gen.StatsBodies

/-! ### hypotheses -/

/-- every array is shorter than `2^64 - 2` (array lengths are `usize`) -/
def Small (s : Stats) : Prop :=
  s.zeta.length + 2 < 2 ^ 64 ∧ s.golomb.length + 2 < 2 ^ 64 ∧ s.expGolomb.length + 2 < 2 ^ 64 ∧
  s.rice.length + 2 < 2 ^ 64 ∧ s.pi.length + 2 < 2 ^ 64

/-- corresponding arrays have the same length (the same const generics) -/
def SameShape (s r : Stats) : Prop :=
  s.zeta.length = r.zeta.length ∧ s.golomb.length = r.golomb.length ∧
  s.expGolomb.length = r.expGolomb.length ∧ s.rice.length = r.rice.length ∧ s.pi.length = r.pi.length

theorem fits_iff (s : Stats) : s.fits = true ↔
    s.total < 2 ^ 64 ∧ s.unary < 2 ^ 64 ∧ s.gamma < 2 ^ 64 ∧ s.delta < 2 ^ 64 ∧ s.omega < 2 ^ 64 ∧
    s.vbyte < 2 ^ 64 ∧ (∀ x ∈ s.zeta, x < 2 ^ 64) ∧ (∀ x ∈ s.golomb, x < 2 ^ 64) ∧
    (∀ x ∈ s.expGolomb, x < 2 ^ 64) ∧ (∀ x ∈ s.rice, x < 2 ^ 64) ∧ (∀ x ∈ s.pi, x < 2 ^ 64) := by
  simp only [Stats.fits, Stats.tracked, Bool.and_eq_true, decide_eq_true_eq, List.all_append, List.all_cons,
    List.all_eq_true, List.cons_append, List.nil_append, and_assoc]

/-! ### the loops -/

/-- `xs[j] + g (i + j)` for every `j` -/
def addFrom (g : Nat → Nat) : Nat → List Nat → List Nat
  | _, [] => []
  | i, x :: xs => (x + g i) :: addFrom g (i + 1) xs

theorem addFrom_eq (g : Nat → Nat) : ∀ (xs : List Nat) (i : Nat),
    addFrom g i xs = xs.mapIdx (fun j x => x + g (i + j))
  | [], _ => rfl
  | x :: xs, i => by
    simp only [addFrom, List.mapIdx_cons, Nat.add_zero, addFrom_eq g xs (i + 1)]
    congr 2
    funext j y
    rw [Nat.add_assoc, Nat.add_comm 1]

/-- an `iter_mut().enumerate()` loop whose body adds `g index` to the element, with the overflow
    check, and touches nothing else -/
theorem forEnumMutFrom_add (g : Nat → Nat) (body : Nat → Nat → Unit → Res (Nat × Unit)) (N : Nat)
    (hb : ∀ j x, j < N → x + g j < 2 ^ 64 → body j x () = .ok (x + g j, ())) :
    ∀ (xs : List Nat) (i : Nat), i + xs.length ≤ N → (∀ y ∈ addFrom g i xs, y < 2 ^ 64) →
    forEnumMutFrom i xs () body = .ok (addFrom g i xs, ())
  | [], _, _, _ => rfl
  | x :: xs, i, hN, hf => by
    have h0 := hb i x (by simp only [List.length_cons] at hN; omega) (hf _ (by simp [addFrom]))
    have ih := forEnumMutFrom_add g body N hb xs (i + 1) (by simp only [List.length_cons] at hN; omega)
      (fun y hy => hf y (by simp only [addFrom, List.mem_cons]; exact Or.inr hy))
    simp only [forEnumMutFrom, h0, Res.bind, ih, addFrom]

theorem forEnumMut_add (g : Nat → Nat) (body : Nat → Nat → Unit → Res (Nat × Unit)) (xs : List Nat)
    (hb : ∀ j x, j < xs.length → x + g j < 2 ^ 64 → body j x () = .ok (x + g j, ()))
    (hf : ∀ y ∈ xs.mapIdx (fun j x => x + g j), y < 2 ^ 64) :
    forEnumMut xs () body = .ok (xs.mapIdx (fun j x => x + g j), ()) := by
  have e := addFrom_eq g xs 0
  simp only [Nat.zero_add] at e
  rw [← e] at hf ⊢
  exact forEnumMutFrom_add g body xs.length hb xs 0 (by omega) hf

/-- an `iter_mut().zip(iter())` loop whose body adds the second element to the first, with the
    overflow check, and touches nothing else -/
theorem forZipMut_add (body : Nat → Nat → Unit → Res (Nat × Unit))
    (hb : ∀ x y, x + y < 2 ^ 64 → body x y () = .ok (x + y, ())) :
    ∀ (xs ys : List Nat), xs.length = ys.length → (∀ z ∈ List.zipWith (· + ·) xs ys, z < 2 ^ 64) →
    forZipMut xs ys () body = .ok (List.zipWith (· + ·) xs ys, ())
  | [], [], _, _ => rfl
  | [], _ :: _, h, _ => by simp at h
  | _ :: _, [], h, _ => by simp at h
  | x :: xs, y :: ys, hl, hf => by
    have h0 := hb x y (hf _ (by simp))
    have ih := forZipMut_add body hb xs ys (by simpa using hl)
      (fun z hz => hf z (by simp only [List.zipWith_cons_cons, List.mem_cons]; exact Or.inr hz))
    simp only [forZipMut, h0, Res.bind, ih, List.zipWith_cons_cons]

/-! ### `update_many`, `update` -/

theorem guard_lt {α : Type} {a : Nat} (r : Res α) (h : a < 2 ^ 64) :
    (if a ≥ 2 ^ 64 then Res.dpanic else r) = r := if_neg (by omega)

theorem bind_ok {α β : Type} (a : α) (f : α → Res β) : Res.bind (.ok a) f = f a := rfl

/-- **`CodesStats::update_many`** computes `Stats.updateMany` whenever no counter overflows -/
theorem update_many_eq (s : Stats) (n c : Nat) (hn : n < 2 ^ 64 - 1) (hl : Small s)
    (hf : (s.updateMany n c).fits = true) :
    CodesStats.update_many s n c = .ok (n, s.updateMany n c) := by
  rw [updateMany_eq] at hf ⊢
  obtain ⟨h0, h1, h2, h3, h4, h5, hz, hg, he, hr, hp⟩ := (fits_iff _).1 hf
  obtain ⟨lz, lg, le, lr, lp⟩ := hl
  simp only at h0 h1 h2 h3 h4 h5 hz hg he hr hp
  have e1 := LenGen.len_gamma_eq n
  have e2 := LenGen.len_delta_eq n
  have e3 := LenGen.len_omega_eq hn
  have e4 := LenGen.bit_len_vbyte_eq (v := n) (by omega)
  have e5 := fun k => LenGen.len_zeta_eq (n := n) k hn
  simp only [CodesStats.update_many, e1, e2, e3, e4, e5, LenGen.len_golomb_eq, LenGen.len_exp_golomb_eq,
    LenGen.len_rice_eq, LenGen.len_pi_eq]
  simp (disch := omega) only [guard_lt]
  rw [forEnumMut_add (g := fun k => lenZetaD n (k + 1) * c) (xs := s.zeta) (hf := hz),
    forEnumMut_add (g := fun k => lenGolomb n (k + 1) * c) (xs := s.golomb) (hf := hg),
    forEnumMut_add (g := fun k => lenExpGolombD n k * c) (xs := s.expGolomb) (hf := he),
    forEnumMut_add (g := fun k => lenRice n k * c) (xs := s.rice) (hf := hr),
    forEnumMut_add (g := fun k => lenPi n (k + 2) * c) (xs := s.pi) (hf := hp)]
  · simp only [bind_ok]
  all_goals
    intro j x hj hx
    simp (disch := omega) only [guard_lt]

/-- **`CodesStats::update`** computes `Stats.update` whenever no counter overflows -/
theorem update_eq (s : Stats) (n : Nat) (hl : Small s) (hf : (s.update n).fits = true) :
    CodesStats.update s n = .ok (n, s.update n) := by
  have hn : n < 2 ^ 64 - 1 := by
    have h := hf
    rw [_root_.Dsi.update_eq, updateMany_eq] at h
    have := ((fits_iff _).1 h).2.1
    simp only at this
    omega
  rw [_root_.Dsi.update_eq] at hf ⊢
  simp only [CodesStats.update, update_many_eq s n 1 hn hl hf, bind_ok]

/-! ### `add`, `+=`, `+`, `default()`, `sum()` -/

/-- **`CodesStats::add`** computes `Stats.add` whenever no counter overflows -/
theorem add_eq (s r : Stats) (hs : SameShape s r) (hf : (s.add r).fits = true) :
    CodesStats.add s r = .ok (s.add r) := by
  rw [_root_.Dsi.add_eq] at hf ⊢
  obtain ⟨h0, h1, h2, h3, h4, h5, hz, hg, he, hr, hp⟩ := (fits_iff _).1 hf
  obtain ⟨lz, lg, le, lr, lp⟩ := hs
  simp only at h0 h1 h2 h3 h4 h5 hz hg he hr hp
  simp only [CodesStats.add]
  simp (disch := omega) only [guard_lt]
  rw [forZipMut_add _ _ s.zeta r.zeta lz hz, forZipMut_add _ _ s.golomb r.golomb lg hg,
    forZipMut_add _ _ s.expGolomb r.expGolomb le he, forZipMut_add _ _ s.rice r.rice lr hr,
    forZipMut_add _ _ s.pi r.pi lp hp]
  · simp only [bind_ok]
  all_goals
    intro x y hx
    simp (disch := omega) only [guard_lt]

/-- **`AddAssign::add_assign`** (`+=`) -/
theorem add_assign_eq (s r : Stats) (hs : SameShape s r) (hf : (s.add r).fits = true) :
    CodesStats.AddAssign.add_assign s r = .ok (s.add r) := by
  simp only [CodesStats.AddAssign.add_assign, add_eq s r hs hf, bind_ok]

/-- **`Add::add`** (`+`) -/
theorem add_trait_eq (s r : Stats) (hs : SameShape s r) (hf : (s.add r).fits = true) :
    CodesStats.Add.add s r = .ok (s.add r) := by
  simp only [CodesStats.Add.add, add_assign_eq s r hs hf, bind_ok]

/-- **`Default::default`** with the default const generics is `Stats.empty` -/
theorem default_eq :
    CodesStats.Default.default Gen.Stats.ZETA Gen.Stats.GOLOMB Gen.Stats.EXP_GOLOMB Gen.Stats.RICE Gen.Stats.PI
      = .ok Stats.empty := rfl

/-- `default()` for any const generics: all zero, arrays of the given lengths -/
theorem default_any (Z G E R P : Nat) :
    CodesStats.Default.default Z G E R P =
      .ok { total := 0, unary := 0, gamma := 0, delta := 0, omega := 0, vbyte := 0,
            zeta := List.replicate Z 0, golomb := List.replicate G 0, expGolomb := List.replicate E 0,
            rice := List.replicate R 0, pi := List.replicate P 0 } := rfl

/-- no step of the fold `acc + r₁ + r₂ + ..` overflows (and the shapes agree) -/
def FoldFits : Stats → List Stats → Prop
  | _, [] => True
  | acc, r :: rs => SameShape acc r ∧ (acc.add r).fits = true ∧ FoldFits (acc.add r) rs

theorem iterFold_add : ∀ (l : List Stats) (acc : Stats), FoldFits acc l →
    iterFold l acc (fun a b => Res.bind (CodesStats.Add.add a b) fun t => Res.ok t) = .ok (l.foldl Stats.add acc)
  | [], _, _ => rfl
  | r :: rs, acc, ⟨hs, hf, h⟩ => by
    simp only [iterFold, add_trait_eq acc r hs hf, bind_ok, List.foldl_cons]
    exact iterFold_add rs _ h

/-- **`Sum::sum`** (default const generics) computes `Stats.sum` whenever no step overflows -/
theorem sum_eq (l : List Stats) (h : FoldFits Stats.empty l) :
    CodesStats.Sum.sum Gen.Stats.ZETA Gen.Stats.GOLOMB Gen.Stats.EXP_GOLOMB Gen.Stats.RICE Gen.Stats.PI l
      = .ok (Stats.sum l) := by
  simp only [CodesStats.Sum.sum, default_eq, bind_ok, iterFold_add l _ h, Stats.sum]

/-! ### `best_code` -/

/-- the `check!` macro on the pair `(best, best_code)` of the generated body -/
def stepG (st : Nat × StatCodeId) (c : StatCodeId × Nat) : Nat × StatCodeId :=
  if c.2 < st.1 then (c.2, c.1) else st

/-- the generated pair `(best, best_code)` as the model's `(best_code, best)` -/
def toHand (st : Nat × StatCodeId) : StatCodeId × Nat := (st.2, st.1)

theorem toHand_stepG (st : Nat × StatCodeId) (c : StatCodeId × Nat) :
    toHand (stepG st c) = Stats.bestStep true (toHand st) c := by
  unfold stepG Stats.bestStep toHand
  by_cases h : c.2 < st.1 <;> simp [h]

theorem toHand_foldl (cs : List (StatCodeId × Nat)) : ∀ st : Nat × StatCodeId,
    toHand (cs.foldl stepG st) = cs.foldl (Stats.bestStep true) (toHand st) := by
  induction cs with
  | nil => intro st; rfl
  | cons c cs ih => intro st; simp only [List.foldl_cons, ih, toHand_stepG]

/-- the scan of one family from index `i` -/
def scanFrom (mk : Nat → StatCodeId) : Nat → List Nat → Nat × StatCodeId → Nat × StatCodeId
  | _, [], st => st
  | i, x :: xs, st => scanFrom mk (i + 1) xs (stepG st (mk i, x))

theorem scanFrom_eq (mk : Nat → StatCodeId) : ∀ (xs : List Nat) (i : Nat) (st : Nat × StatCodeId),
    scanFrom mk i xs st = (xs.mapIdx fun j x => (mk (i + j), x)).foldl stepG st
  | [], _, _ => rfl
  | x :: xs, i, st => by
    simp only [scanFrom, List.mapIdx_cons, List.foldl_cons, Nat.add_zero, scanFrom_eq mk xs (i + 1)]
    congr 2
    funext j y
    rw [Nat.add_assoc, Nat.add_comm 1]

theorem forEnumFrom_scan (mk : Nat → StatCodeId) (body : Nat → Nat → Nat × StatCodeId → Res (Nat × StatCodeId))
    (N : Nat) (hb : ∀ j x st, j < N → body j x st = .ok (stepG st (mk j, x))) :
    ∀ (xs : List Nat) (i : Nat) (st : Nat × StatCodeId), i + xs.length ≤ N →
    forEnumFrom i xs st body = .ok (scanFrom mk i xs st)
  | [], _, _, _ => rfl
  | x :: xs, i, st, hN => by
    have h0 := hb i x st (by simp only [List.length_cons] at hN; omega)
    simp only [forEnumFrom, h0, bind_ok, scanFrom]
    exact forEnumFrom_scan mk body N hb xs (i + 1) _ (by simp only [List.length_cons] at hN; omega)

theorem forEnum_scan (mk : Nat → StatCodeId) (body : Nat → Nat → Nat × StatCodeId → Res (Nat × StatCodeId))
    (xs : List Nat) (st : Nat × StatCodeId)
    (hb : ∀ j x st, j < xs.length → body j x st = .ok (stepG st (mk j, x))) :
    forEnum xs st body = .ok ((xs.mapIdx fun j x => (mk j, x)).foldl stepG st) := by
  have e := scanFrom_eq mk xs 0 st
  simp only [Nat.zero_add] at e
  rw [← e]
  exact forEnumFrom_scan mk body xs.length hb xs 0 st (by omega)

theorem join_mk (b v : Nat) (cb cv : StatCodeId) :
    (if v < b then Res.ok (v, cv) else Res.ok (b, cb)) = .ok (stepG (b, cb) (cv, v)) := by
  unfold stepG; split <;> rfl

theorem join_proj (st : Nat × StatCodeId) (v : Nat) (cv : StatCodeId) :
    (if v < st.1 then Res.ok (v, cv) else Res.ok st) = .ok (stepG st (cv, v)) := by
  unfold stepG; split <;> rfl

/-- a family scanned with the code parameter `index + off` (computed on a usize) -/
theorem forEnum_off (fam : CodeFam) (off : Nat) (xs : List Nat) (st : Nat × StatCodeId)
    (h : xs.length + off < 2 ^ 64) :
    forEnum xs st (fun k val st' =>
      Res.bind (if val < st'.1 then
          (if k + off ≥ 2 ^ 64 then Res.dpanic else Res.ok (val, (⟨fam, k + off⟩ : StatCodeId)))
        else Res.ok st') fun a => Res.ok a)
    = .ok ((xs.mapIdx fun j x => ((⟨fam, j + off⟩ : StatCodeId), x)).foldl stepG st) := by
  apply forEnum_scan (fun j => ⟨fam, j + off⟩)
  intro j x st hj
  simp (disch := omega) only [guard_lt, join_proj, bind_ok]

/-- a family scanned with the code parameter `index` -/
theorem forEnum_nooff (mk : Nat → StatCodeId) (xs : List Nat) (st : Nat × StatCodeId) :
    forEnum xs st (fun k val st' => Res.ok (stepG st' (mk k, val)))
    = .ok ((xs.mapIdx fun j x => (mk j, x)).foldl stepG st) :=
  forEnum_scan mk _ xs st (fun _ _ _ _ => rfl)

/-- **`CodesStats::best_code`** computes `Stats.bestCode` (the scan order, the strict comparison and
    the index → parameter offsets of the body are those of the model) -/
theorem best_code_eq (s : Stats) (hl : Small s) : CodesStats.best_code s = .ok s.bestCode := by
  obtain ⟨lz, lg, le, lr, lp⟩ := hl
  simp (disch := omega) only [CodesStats.best_code, Prod.eta, join_mk, join_proj, bind_ok, forEnum_off,
    forEnum_nooff]
  have e : ∀ st : Nat × StatCodeId, (st.2, st.1) = toHand st := fun _ => rfl
  have e0 : ∀ (a : Nat) (b : StatCodeId), toHand (a, b) = (b, a) := fun _ _ => rfl
  rw [e]
  simp only [toHand_foldl, toHand_stepG]
  rw [e0]
  simp only [Stats.bestCode, Stats.candidates, Gen.Stats.bestScan, Gen.Stats.bestInit, Gen.Stats.bestStrict,
    Stats.scalar, Stats.family, List.flatMap_cons, List.flatMap_nil, List.foldl_append, List.foldl_cons,
    List.foldl_nil, List.append_nil, Nat.add_zero]

/-! ### the wrapper -/

/-- `self.stats.lock().unwrap().update(v)` followed by the drop of the guard is `StatsWrapper.record` -/
theorem record_eq {W β : Type} (w : StatsWrapper W) (v : Nat) (K : StatsWrapper W → Res β)
    (hl : Small w.stats.val) (hf : (w.stats.val.update v).fits = true) :
    (Res.bind (Mutex.lockUnwrap w.stats) fun g =>
      Res.bind (CodesStats.update g v) fun r => K { w with stats := Mutex.release w.stats r.2 })
    = Res.bind (w.record v) K := by
  unfold Mutex.lockUnwrap StatsWrapper.record Mutex.release
  cases hp : w.stats.poisoned
  · simp only [Bool.false_eq_true, if_false, bind_ok, update_eq _ v hl hf, hp]
  · simp only [if_true, Res.bind]

/-- **`DynamicCodeRead::read`** of the wrapper -/
theorem read_dyn_eq {ρ W : Type} (inner : ρ → Res (Nat × ρ)) (w : StatsWrapper W) (r : ρ)
    (hl : Small w.stats.val) (hf : ∀ x, inner r = .ok x → (w.stats.val.update x.1).fits = true) :
    CodesStatsWrapper.DynamicCodeRead.read inner w r = StatsWrapper.read inner w r := by
  unfold CodesStatsWrapper.DynamicCodeRead.read StatsWrapper.read
  cases h : inner r with
  | ok x =>
    simp only [bind_ok]
    exact record_eq w x.1 (fun w' => Res.ok (x.1, x.2, w')) hl (hf x h)
  | _ => rfl

/-- **`StaticCodeRead::read`** of the wrapper -/
theorem read_static_eq {ρ W : Type} (inner : ρ → Res (Nat × ρ)) (w : StatsWrapper W) (r : ρ)
    (hl : Small w.stats.val) (hf : ∀ x, inner r = .ok x → (w.stats.val.update x.1).fits = true) :
    CodesStatsWrapper.StaticCodeRead.read inner w r = StatsWrapper.read inner w r := by
  unfold CodesStatsWrapper.StaticCodeRead.read StatsWrapper.read
  cases h : inner r with
  | ok x =>
    simp only [bind_ok]
    exact record_eq w x.1 (fun w' => Res.ok (x.1, x.2, w')) hl (hf x h)
  | _ => rfl

/-- **`DynamicCodeWrite::write`** of the wrapper -/
theorem write_dyn_eq {ω W : Type} (inner : ω → Nat → Res (Nat × ω)) (w : StatsWrapper W) (wr : ω) (value : Nat)
    (hl : Small w.stats.val)
    (hf : ∀ x, inner wr value = .ok x → (w.stats.val.update value).fits = true) :
    CodesStatsWrapper.DynamicCodeWrite.write inner w wr value = StatsWrapper.write inner w wr value := by
  unfold CodesStatsWrapper.DynamicCodeWrite.write StatsWrapper.write
  cases h : inner wr value with
  | ok x =>
    simp only [bind_ok]
    exact record_eq w value (fun w' => Res.ok (x.1, x.2, w')) hl (hf x h)
  | _ => rfl

/-- **`StaticCodeWrite::write`** of the wrapper -/
theorem write_static_eq {ω W : Type} (inner : ω → Nat → Res (Nat × ω)) (w : StatsWrapper W) (wr : ω) (value : Nat)
    (hl : Small w.stats.val)
    (hf : ∀ x, inner wr value = .ok x → (w.stats.val.update value).fits = true) :
    CodesStatsWrapper.StaticCodeWrite.write inner w wr value = StatsWrapper.write inner w wr value := by
  unfold CodesStatsWrapper.StaticCodeWrite.write StatsWrapper.write
  cases h : inner wr value with
  | ok x =>
    simp only [bind_ok]
    exact record_eq w value (fun w' => Res.ok (x.1, x.2, w')) hl (hf x h)
  | _ => rfl

/-- `CodesStatsWrapper::new`, `stats`, `into_inner` -/
theorem new_eq {W : Type} (x : W) :
    CodesStatsWrapper.new Gen.Stats.ZETA Gen.Stats.GOLOMB Gen.Stats.EXP_GOLOMB Gen.Stats.RICE Gen.Stats.PI x
      = .ok { stats := { val := Stats.empty, poisoned := false }, wrapped := x } := rfl

theorem stats_eq {W : Type} (w : StatsWrapper W) : CodesStatsWrapper.stats w = .ok w.stats := rfl

theorem into_inner_eq {W : Type} (w : StatsWrapper W) :
    CodesStatsWrapper.into_inner w = if w.stats.poisoned then .panic else .ok (w.wrapped, w.stats.val) := by
  unfold CodesStatsWrapper.into_inner Mutex.intoInnerUnwrap
  cases w.stats.poisoned <;> rfl

/-! ### end to end with the statements of C15 -/

theorem small_updateMany (s : Stats) (n c : Nat) (h : Small s) : Small (s.updateMany n c) := by
  rw [updateMany_eq]
  simpa only [Small, List.length_mapIdx] using h

theorem small_empty : Small Stats.empty := by
  simp only [Small, Stats.empty, List.length_replicate, Gen.Stats.ZETA, Gen.Stats.GOLOMB, Gen.Stats.EXP_GOLOMB,
    Gen.Stats.RICE, Gen.Stats.PI]
  omega

/-- the generated `update_many` applied to a list of `(value, count)` observations in order -/
def runUpdates (s : Stats) : List (Nat × Nat) → Res Stats
  | [] => .ok s
  | u :: us => Res.bind (CodesStats.update_many s u.1 u.2) fun r => runUpdates r.2 us

theorem runUpdates_eq : ∀ (us : List (Nat × Nat)) (s : Stats), Small s → (∀ u ∈ us, u.1 < 2 ^ 64 - 1) →
    (∀ k, k ≤ us.length → (applyUpdates s (us.take k)).fits = true) →
    runUpdates s us = .ok (applyUpdates s us)
  | [], _, _, _, _ => rfl
  | u :: us, s, hl, hv, hf => by
    have h1 : (s.updateMany u.1 u.2).fits = true := hf 1 (by simp)
    simp only [runUpdates, update_many_eq s u.1 u.2 (hv u (by simp)) hl h1, bind_ok]
    exact runUpdates_eq us _ (small_updateMany s u.1 u.2 hl) (fun v hv' => hv v (by simp [hv']))
      (fun k hk => hf (k + 1) (by simp only [List.length_cons]; omega))

/-- **end to end with C15**: the generated `update_many`, run from `default()` over any list of
    observations none of whose prefixes overflows a counter, ends in the documented statistics -/
theorem runUpdates_exact (us : List (Nat × Nat)) (hv : ∀ u ∈ us, u.1 < 2 ^ 64 - 1)
    (hf : ∀ k, k ≤ us.length → (applyUpdates Stats.empty (us.take k)).fits = true) :
    runUpdates Stats.empty us = .ok (Stats.exact us) := by
  rw [runUpdates_eq us _ small_empty hv hf, update_many_exact]

/-- the generated `best_code` returns the first tracked code, in the documented order, among those
    with the least total (`best_code_first` of C15) -/
theorem best_code_spec (s : Stats) (hl : Small s) :
    ∃ c, CodesStats.best_code s = .ok c ∧ some c = s.bestSpec :=
  ⟨s.bestCode, best_code_eq s hl, best_code_first s⟩

/-! ### the generated bodies compute (the statements are not vacuous) -/

/-- the value of an outcome, when there is one -/
def okVal {α : Type} : Res α → Option α
  | .ok a => some a
  | _ => none

example : CodesStats.best_code Stats.empty = .ok (⟨.unary, 0⟩, 0) := by rfl
example : CodesStats.add { Stats.empty with total := 2 ^ 64 - 1 } { Stats.empty with total := 1 } = .dpanic := by rfl
example : okVal (CodesStats.best_code
    { total := 9, unary := 7, gamma := 3, delta := 3, omega := 5, vbyte := 8, zeta := [3, 4], golomb := [9],
      expGolomb := [], rice := [3, 2, 2], pi := [2, 2] }) = some (⟨.rice, 1⟩, 2) := by decide
example : (okVal (CodesStats.update { Stats.empty with zeta := [], golomb := [], expGolomb := [], pi := [0, 0] } 5)).map
    (fun r => (r.2.rice.take 3, r.2.pi, r.2.total)) = some ([6, 4, 4], [5, 6], 1) := by decide
example {W : Type} (x : W) (r : Nat) :
    CodesStatsWrapper.DynamicCodeRead.read (fun r : Nat => Res.ok (5, r + 1))
      { stats := { val := Stats.empty, poisoned := true }, wrapped := x } r = .panic := by rfl

end StatsGen
end Dsi
