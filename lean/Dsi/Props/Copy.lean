/-
  Bulk copy (C08): copying `n` bits appends exactly the reader's next `n` bits to the writer,
  advances the reader by `n`, and leaves both in states related to the reference machines, from
  which every continuation (`rprog_sim`, `wprog_sim`) behaves as on the reference machines, that
  is, as if the bits had been moved one at a time (`refCopy_bit_by_bit`).

  * `refCopy` (in `Dsi/Lemmas/CopyRef.lean`) is the specification "move `n` bits";
  * `copyGeneric_ref`: the trait's default chunked loop on the reference machines is `refCopy`;
  * `copyGeneric_sim`: the chunked loop between the buffered reader and the buffered writer
    simulates the loop on the reference machines (any fuel, any outcome);
  * `copyTo_sim`, `copyFrom_sim`: the specialised `copy_to` of `BufBitReader` and `copy_from` of
    `BufBitWriter` simulate `refCopy`;
  * `copy_specialised_eq_generic`: the three paths have the same abstract outcome.

  Hypotheses beyond the state relations:
  * reader and writer have the same endianness `e` (as in the Rust: `copy_to<E, W: BitWrite<E>>`);
  * `r.avail n`: the property speaks about copies the stream can serve.  On a strict stream that
    ends inside the copy the reference loop is `UnexpectedEof` like the specification
    (`copyGeneric_ref_eof`), some chunks having been appended before the failure;
  * `copyTo_sim`: reader word width `≤ 64` in BOTH endiannesses (the word loop calls
    `write_bits(word, W)`, see `copyTo_needs_W_le_64`), and, for LE, a writer with the `checks`
    assertion requires `copy_to` compiled with `checks` too (the unchecked LE tail hands the whole
    word to `write_bits`, see `copyTo_le_unchecked_tail_dirty`);
  * `copyFrom_sim`, `copyGeneric_sim`: `e = .be → W_r ≤ 64` (from `readBits_sim`).
-/
import Dsi.Lemmas.CopyTo
namespace Dsi
open BufW CopyL

variable {Wr Ww : Nat}

/-- the outcome relation of the copy theorems: related readers, related writers -/
abbrev CopyPost (e : Endian) : BufR Wr × BufW Ww → RefR × RefW → Prop :=
  fun (s', t') (r', w') => BufR.Rel e s' r' ∧ RelC e t' w'

private theorem toPost {e : Endian} {x : Res (BufR Wr × BufW Ww)} {y : Res (RefR × RefW)}
    (h : ResRel (PQ (BufR.Rel e) (RelC e)) x y) : ResRel (CopyPost e) x y :=
  h.mono (fun ⟨_, _⟩ ⟨_, _⟩ h => h)

/-! ### 1. reference level -/

/-- **The generic chunked loop on the reference machines is the specification** (growable
    writer, enough fuel: the driver uses `n / 64 + 2`; any `checks`: the values read are clean,
    so the assertion of `write_bits` never fires). -/
theorem copyGeneric_ref (fuel : Nat) (r : RefR) (w : RefW) (n : Nat) (he : w.e = r.e)
    (hcap : w.cap = none) (hav : r.avail n = true) (hfuel : n / 64 + 1 ≤ fuel) :
    copyGeneric RefR.impl RefW.impl fuel r w n = refCopy r w n :=
  copyGeneric_ref_gen fuel r w n he (avail_mono r (Nat.zero_le n) hav)
    (by simp [RefW.fits, hcap]) (by omega)

/-- the same, spelled out: the reader's next `n` bits are appended and the reader advances -/
theorem copyGeneric_ref_ok (fuel : Nat) (r : RefR) (w : RefW) (n : Nat) (he : w.e = r.e)
    (hcap : w.cap = none) (hav : r.avail n = true) (hfuel : n / 64 + 1 ≤ fuel) :
    copyGeneric RefR.impl RefW.impl fuel r w n =
      .ok ({ r with pos := r.pos + n }, { w with bits := w.bits ++ takeZ n r.rest }) := by
  rw [copyGeneric_ref fuel r w n he hcap hav hfuel, refCopy_growable r w n hav hcap]

/-- a strict stream that ends inside the copy: `UnexpectedEof`, like the specification -/
theorem copyGeneric_ref_eof (fuel : Nat) (r : RefR) (w : RefW) (n : Nat) (he : w.e = r.e)
    (hcap : w.cap = none) (h0 : r.avail 0 = true) (hav : r.avail n = false)
    (hfuel : n / 64 + 1 ≤ fuel) :
    copyGeneric RefR.impl RefW.impl fuel r w n = .err .eof ∧ refCopy r w n = .err .eof := by
  have h := copyGeneric_ref_gen fuel r w n he h0 (by simp [RefW.fits, hcap]) (by omega)
  have h2 : refCopy r w n = .err .eof := by rw [refCopy_eq]; simp [hav]
  exact ⟨h.trans h2, h2⟩

/-- moving bits one at a time -/
def refCopyBits : Nat → RefR → RefW → Res (RefR × RefW)
  | 0, r, w => .ok (r, w)
  | n + 1, r, w => (refCopy r w 1).bind (fun p => refCopyBits n p.1 p.2)

/-- the specification is "move the bits one at a time" -/
theorem refCopy_bit_by_bit (n : Nat) (r : RefR) (w : RefW) (h0 : r.avail 0 = true)
    (hfit : w.fits w.bits = true) : refCopyBits n r w = refCopy r w n := by
  induction n generalizing r w with
  | zero => rw [refCopy_zero r w h0 hfit]; rfl
  | succ n ih =>
    have hcomm : refCopy r w (n + 1) = refCopy r w (1 + n) := by rw [Nat.add_comm]
    rw [hcomm, refCopy_add]
    show (refCopy r w 1).bind _ = _
    cases hc : refCopy r w 1 with
    | ok p =>
      obtain ⟨r', w'⟩ := p
      obtain ⟨hr, _, _, hf, hav⟩ := refCopy_ok_facts hc
      show refCopyBits n r' w' = refCopy r' w' n
      apply ih _ _ _ hf
      rw [hr, avail_advance]; exact hav
    | err _ => rfl
    | panic => rfl
    | dpanic => rfl

/-- 16-bit strict stream, 3 bits consumed; copy 11 bits into a writer holding 2 bits -/
def copyExR : RefR :=
  { e := .be, stream := [0xA5#8, 0x3C#8].flatMap (wordBits .be), pos := 3, strict := true, peekMax := 8 }
def copyExW : RefW := { e := .be, W := 8, bits := [true, false] }

example : copyGeneric RefR.impl RefW.impl 2 copyExR copyExW 11 = refCopy copyExR copyExW 11 :=
  copyGeneric_ref 2 _ _ 11 rfl rfl (by decide) (by decide)

example : refCopy copyExR copyExW 11 =
    .ok ({ copyExR with pos := 14 },
      { copyExW with bits := [true, false] ++
        [false, false, true, false, true, false, false, true, true, true, true] }) := rfl

-- the stream ends inside the copy
example : copyGeneric RefR.impl RefW.impl 2 copyExR copyExW 14 = .err .eof ∧
    refCopy copyExR copyExW 14 = .err .eof :=
  copyGeneric_ref_eof 2 _ _ 14 rfl rfl (by decide) (by decide) (by decide)

/-! ### 2. the generic loop, buffered reader to buffered writer -/

theorem copyGeneric_sim {e : Endian} (hW64 : e = .be → Wr ≤ 64) {s : BufR Wr} {r : RefR}
    {t : BufW Ww} {w : RefW} (hs : BufR.Rel e s r) (ht : RelC e t w) (fuel n : Nat) :
    ResRel (CopyPost e)
      (copyGeneric (BufR.impl e) (BufW.impl e) fuel s t n)
      (copyGeneric RefR.impl RefW.impl fuel r w n) :=
  toPost (copyGeneric_sim_gen (rsim_bufR hW64) (wsim_bufW e) fuel n hs ht)

theorem relC_e {e : Endian} {t : BufW Ww} {w : RefW} (h : RelC e t w) : w.e = e := h.1.2.1

/-- the generic loop against the specification (also for a fixed-capacity writer) -/
theorem copyGeneric_sim_spec {e : Endian} (hW64 : e = .be → Wr ≤ 64) {s : BufR Wr} {r : RefR}
    {t : BufW Ww} {w : RefW} (hs : BufR.Rel e s r) (ht : RelC e t w) {fuel n : Nat}
    (hav : r.avail n = true) (hfuel : n / 64 + 1 ≤ fuel) :
    ResRel (CopyPost e)
      (copyGeneric (BufR.impl e) (BufW.impl e) fuel s t n) (refCopy r w n) := by
  have := copyGeneric_sim hW64 hs ht fuel n
  rwa [copyGeneric_ref_gen fuel r w n (by rw [relC_e ht, hs.2.2.1])
    (avail_mono r (Nat.zero_le n) hav) (fits_of_relC ht) (by omega)] at this

/-! ### 3. the specialised paths -/

/-- **`BufBitWriter::copy_from`** from a buffered reader -/
theorem copyFrom_sim {e : Endian} (hW64 : e = .be → Wr ≤ 64) {s : BufR Wr} {r : RefR}
    {t : BufW Ww} {w : RefW} (hs : BufR.Rel e s r) (ht : RelC e t w) {n : Nat}
    (hav : r.avail n = true) :
    ResRel (CopyPost e) (BufW.copyFrom e (BufR.impl e) t s n) (refCopy r w n) :=
  toPost (copyFrom_sim_gen (rsim_bufR hW64) ht hs hs.2.2.1 hav)

/-- **`BufBitReader::copy_to`** into a buffered writer -/
theorem copyTo_sim {e : Endian} (checks : Bool) (hW : Wr ≤ 64) {s : BufR Wr} {r : RefR}
    {t : BufW Ww} {w : RefW} (hs : BufR.Rel e s r) (ht : RelC e t w) {n : Nat}
    (hck : e = .le → t.checks = true → checks = true) (hav : r.avail n = true) :
    ResRel (CopyPost e) (BufR.copyTo e checks (BufW.impl e) s t n) (refCopy r w n) :=
  toPost (copyTo_sim_gen (wsim_bufW e) checks hW hs ht (relC_e ht) (fits_of_relC ht)
    (fun hle hwc => hck hle (by rw [← ht.1.2.2.2.2.1]; exact hwc)) hav)

/-! ### 4. the specialised paths and the generic loop coincide -/

/-- two concrete outcomes with the same abstract outcome -/
def SameAbs (e : Endian) : BufR Wr × BufW Ww → BufR Wr × BufW Ww → Prop :=
  fun a b => ∃ r' w', (BufR.Rel e a.1 r' ∧ RelC e a.2 w') ∧ (BufR.Rel e b.1 r' ∧ RelC e b.2 w')

theorem ResRel.join {α β : Type} {R : α → β → Prop} {x x' : Res α} {y : Res β}
    (h : ResRel R x y) (h' : ResRel R x' y) : ResRel (fun a a' => ∃ b, R a b ∧ R a' b) x x' := by
  cases x <;> cases x' <;> cases y <;> simp only [ResRel] at h h' ⊢
  · exact ⟨_, h, h'⟩
  · exact h.trans h'.symm

/-- **Specialised = generic.**  Under the hypotheses of the simulation theorems the specialised
    `copy_to`, the specialised `copy_from` and the generic chunked loop have the same outcome
    up to abstraction: the same error, or success in states representing the same reference
    reader and the same reference writer (namely those of `refCopy r w n`). -/
theorem copy_specialised_eq_generic {e : Endian} (checks : Bool) (hW : Wr ≤ 64) {s : BufR Wr}
    {r : RefR} {t : BufW Ww} {w : RefW} (hs : BufR.Rel e s r) (ht : RelC e t w) {n : Nat}
    (hck : e = .le → t.checks = true → checks = true) (hav : r.avail n = true) :
    ResRel (SameAbs e) (BufR.copyTo e checks (BufW.impl e) s t n)
        (copyGeneric (BufR.impl e) (BufW.impl e) (n / 64 + 2) s t n) ∧
    ResRel (SameAbs e) (BufW.copyFrom e (BufR.impl e) t s n)
        (copyGeneric (BufR.impl e) (BufW.impl e) (n / 64 + 2) s t n) := by
  have hg := copyGeneric_sim_spec (fuel := n / 64 + 2) (fun _ => hW) hs ht hav (by omega)
  have h1 := ResRel.join (copyTo_sim checks hW hs ht hck hav) hg
  have h2 := ResRel.join (copyFrom_sim (fun _ => hW) hs ht hav) hg
  exact ⟨h1.mono (fun ⟨_, _⟩ ⟨_, _⟩ ⟨⟨r', w'⟩, h, h'⟩ => ⟨r', w', h, h'⟩),
    h2.mono (fun ⟨_, _⟩ ⟨_, _⟩ ⟨⟨r', w'⟩, h, h'⟩ => ⟨r', w', h, h'⟩)⟩

/-- what "same abstract outcome" gives on the concrete states: same bit position, same delivered
    and pending bits -/
theorem SameAbs.states {e : Endian} {a b : BufR Wr × BufW Ww} (h : SameAbs e a b) :
    a.1.bitPos = b.1.bitPos ∧ a.2.abs e = b.2.abs e := by
  obtain ⟨r', w', ⟨h1, h2⟩, ⟨h3, h4⟩⟩ := h
  exact ⟨(bitPos_eq h1).trans (bitPos_eq h3).symm,
    h2.1.2.2.2.2.2.symm.trans h4.1.2.2.2.2.2⟩

/-! ### examples: `W = 8`, strict three-word reader with 5 buffered bits, fixed four-word writer
    with `checks`; 13 bits (buffered part, one whole word... ) and 17 bits -/

example : ResRel (CopyPost .be)
    (BufR.copyTo .be false (BufW.impl .be) (readerExS .be) exS 13)
    (refCopy (readerExR .be) exRbe 13) :=
  copyTo_sim false (by decide) (readerEx_rel .be) exS_be (fun h => by cases h) (by decide)

example : ResRel (CopyPost .le)
    (BufR.copyTo .le true (BufW.impl .le) (readerExS .le) exS 17)
    (refCopy (readerExR .le) exRle 17) :=
  copyTo_sim true (by decide) (readerEx_rel .le) exS_le (fun _ _ => rfl) (by decide)

example : ResRel (CopyPost .le)
    (BufW.copyFrom .le (BufR.impl .le) exS (readerExS .le) 17)
    (refCopy (readerExR .le) exRle 17) :=
  copyFrom_sim (fun h => by cases h) (readerEx_rel .le) exS_le (by decide)

example : ResRel (CopyPost .be)
    (copyGeneric (BufR.impl .be) (BufW.impl .be) 2 (readerExS .be) exS 17)
    (refCopy (readerExR .be) exRbe 17) :=
  copyGeneric_sim_spec (fun _ => by decide) (readerEx_rel .be) exS_be (by decide) (by decide)

/-- the writer `exS` over a fixed backend of two words (one delivered, five bits pending) -/
def copyExT : BufW 8 := { exS with cap := some 2 }
def copyExTr : RefW := { exRbe with cap := some 2 }
theorem copyExT_rel : RelC .be copyExT copyExTr :=
  ⟨⟨⟨by decide, by decide⟩, rfl, rfl, rfl, rfl, by decide⟩, rfl⟩

-- two words cannot take 13 + 17 bits: all three paths and the specification are `UnexpectedEof`
example : BufW.copyFrom .be (BufR.impl .be) copyExT (readerExS .be) 17 = .err .eof ∧
    BufR.copyTo .be true (BufW.impl .be) (readerExS .be) copyExT 17 = .err .eof ∧
    copyGeneric (BufR.impl .be) (BufW.impl .be) 2 (readerExS .be) copyExT 17 = .err .eof ∧
    refCopy (readerExR .be) copyExTr 17 = .err .eof := ⟨rfl, rfl, rfl, rfl⟩

example : ResRel (CopyPost .be)
    (BufW.copyFrom .be (BufR.impl .be) copyExT (readerExS .be) 17)
    (refCopy (readerExR .be) copyExTr 17) :=
  copyFrom_sim (fun _ => by decide) (readerEx_rel .be) copyExT_rel (by decide)

/-! ### why the extra hypotheses of `copyTo_sim` -/

/-- a fresh `W = 65` LE reader over two words -/
def copyCexS : BufR 65 := BufR.new ⟨[1#65, 1#65], 0, false⟩
def copyCexR : RefR :=
  { e := .le, stream := [1#65, 1#65].flatMap (wordBits .le), pos := 0, strict := false, peekMax := 65 }
def copyCexT : BufW 8 := BufW.new 8
def copyCexW : RefW := { e := .le, W := 8 }

/-- `W_r ≤ 64` is necessary for `copy_to` in both endiannesses: with `W_r = 65` the word loop calls
    `write_bits(word, 65)` (`dpanic`: a debug assertion in the Rust), while the specification and
    the generic loop succeed.  The Rust only instantiates `W ≤ 64`. -/
theorem copyTo_needs_W_le_64 :
    BufR.Rel .le copyCexS copyCexR ∧ RelC .le copyCexT copyCexW ∧
    BufR.copyTo .le false (BufW.impl .le) copyCexS copyCexT 66 = .dpanic ∧
    (refCopy copyCexR copyCexW 66).isOk = true := by
  refine ⟨new_rel .le (by decide) _ _, rel_new .le (by decide) false none, ?_, ?_⟩
  · rfl
  · rw [refCopy_growable _ _ _ rfl rfl]; rfl

/-- a fresh `W = 8` LE reader over the word `0xFF`, and a fresh LE writer with `checks` -/
def copyCex2S : BufR 8 := BufR.new ⟨[0xFF#8], 0, false⟩
def copyCex2R : RefR :=
  { e := .le, stream := [0xFF#8].flatMap (wordBits .le), pos := 0, strict := false, peekMax := 8 }
def copyCex2T : BufW 8 := BufW.new 8 true
def copyCex2W : RefW := { e := .le, W := 8, checks := true }

/-- the LE `copy_to` compiled without `checks` hands the whole tail word to `write_bits`; a writer
    that does check (not a configuration one cargo build produces: the feature is crate-wide)
    panics on it, while `copy_to` compiled with `checks` masks the tail and succeeds -/
theorem copyTo_le_unchecked_tail_dirty :
    BufR.Rel .le copyCex2S copyCex2R ∧ RelC .le copyCex2T copyCex2W ∧
    BufR.copyTo .le false (BufW.impl .le) copyCex2S copyCex2T 3 = .panic ∧
    (BufR.copyTo .le true (BufW.impl .le) copyCex2S copyCex2T 3).isOk = true ∧
    (refCopy copyCex2R copyCex2W 3).isOk = true :=
  ⟨new_rel .le (by decide) _ _, rel_new .le (by decide) true none, rfl, rfl, rfl⟩

-- a concrete run of the three paths: 17 bits from bit 3 of `A5 3C F0` after the 13 bits `12 | 10101`
example : ∃ s1 t1 s2 t2 s3 t3,
    BufR.copyTo .be true (BufW.impl .be) (readerExS .be) exS 17 = .ok (s1, t1) ∧
    BufW.copyFrom .be (BufR.impl .be) exS (readerExS .be) 17 = .ok (s2, t2) ∧
    copyGeneric (BufR.impl .be) (BufW.impl .be) 2 (readerExS .be) exS 17 = .ok (s3, t3) ∧
    t1.out = [0x12#8, 0xA9#8, 0x4F#8] ∧ t2.out = t1.out ∧ t3.out = t1.out ∧
    t1.abs .be = t2.abs .be ∧ t1.abs .be = t3.abs .be ∧
    s1.bitPos = 20 ∧ s2.bitPos = 20 ∧ s3.bitPos = 20 :=
  ⟨_, _, _, _, _, _, rfl, rfl, rfl, by decide, by decide, by decide, by decide, by decide,
    by decide, by decide, by decide⟩

end Dsi
