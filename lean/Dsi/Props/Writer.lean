/-
  Refinement L3 ⟶ L1 for the writer: `BufBitWriter` (model `BufW`, any width `W`, any garbage in
  the unused part of the buffer) simulates the reference writer `RefW` operation by operation,
  hence for every writer program and every sequence of operations.
-/
import Dsi.Lemmas.WriterSim
import Dsi.Lemmas.WriterLayout
namespace Dsi
open BufW

namespace BufW
variable {W : Nat}

/-- `Rel` together with the capacity invariant `CapOk` (the words delivered so far fit a fixed
    backend).  `Rel` alone is not inductive for `cap = some c`: see `rel_alone_not_enough`. -/
def RelC (e : Endian) (s : BufW W) (r : RefW) : Prop := Rel e s r ∧ s.CapOk

theorem RelC_of_growable {e : Endian} {s : BufW W} {r : RefW} (h : Rel e s r)
    (hcap : s.cap = none) : RelC e s r := ⟨h, CapOk_of_none hcap⟩

/-- the outcome relation of every simulation theorem below -/
abbrev Post {α : Type} (e : Endian) (s : BufW W) : α × BufW W → α × RefW → Prop :=
  fun (a, s') (b, r') => a = b ∧ RelC e s' r' ∧ s.out <+: s'.out

end BufW

theorem ResRel.mono {α β : Type} {R Q : α → β → Prop} {x : Res α} {y : Res β}
    (h : ResRel R x y) (hRQ : ∀ a b, R a b → Q a b) : ResRel Q x y := by
  cases x <;> cases y <;> simp only [ResRel] at h ⊢
  · exact hRQ _ _ h
  · exact h

variable {W : Nat}

/-! ### examples of related states (used beside the theorems) -/

/-- `W = 8`, five pending bits `10101` in a buffer whose three upper bits are garbage, one
    delivered word, a fixed backend of four words, `checks` on -/
def exS : BufW 8 := { buffer := 0xB5#8, space := 3, out := [0x12#8], cap := some 4, checks := true }
def exRbe : RefW :=
  { e := .be, W := 8, checks := true, cap := some 4,
    bits := [false, false, false, true, false, false, true, false, true, false, true, false, true] }
def exRle : RefW :=
  { e := .le, W := 8, checks := true, cap := some 4,
    bits := [false, true, false, false, true, false, false, false, false, true, true, false, true] }

theorem exS_be : RelC .be exS exRbe :=
  ⟨⟨⟨by decide, by decide⟩, rfl, rfl, rfl, rfl, by decide⟩, rfl⟩
theorem exS_le : RelC .le exS exRle :=
  ⟨⟨⟨by decide, by decide⟩, rfl, rfl, rfl, rfl, by decide⟩, rfl⟩

/-! ### 1. `write_bits` -/

theorem fieldBits_mod64 (e : Endian) (v : Nat) {n : Nat} (h : n ≤ 64) :
    fieldBits e (v % 2 ^ 64) n = fieldBits e v n := fieldBits_mod e v h

theorem writeBits_sim {e : Endian} {s : BufW W} {r : RefW} (h : RelC e s r) (v n : Nat) :
    ResRel (fun (a, s') (b, r') => a = b ∧ RelC e s' r' ∧ s.out <+: s'.out)
      ((BufW.impl e).writeBits s v n) (RefW.writeBits r v n) := by
  obtain ⟨hrel, hc⟩ := h
  have hrel' := hrel
  obtain ⟨hi, he, hw, hcap, hchk, hbits⟩ := hrel'
  show ResRel _ (BufW.writeBits e s (BitVec.ofNat 64 v) n) _
  unfold RefW.writeBits
  by_cases hn : n > 64
  · cases e <;> simp [BufW.writeBits, writeBitsBE, writeBitsLE, hn, ResRel]
  · have hd : s.dirty (BitVec.ofNat 64 v) n = (r.checks && decide (v % 2 ^ 64 ≥ 2 ^ n)) := by
      simp [dirty, hchk]
    simp only [hn, if_false]
    by_cases hdirty : (r.checks && decide (v % 2 ^ 64 ≥ 2 ^ n)) = true
    · rw [hdirty] at hd
      cases e <;> simp [BufW.writeBits, writeBitsBE, writeBitsLE, hn, hd, hdirty, ResRel]
    · simp only [hdirty]
      simp only [Bool.not_eq_true] at hdirty
      rw [hdirty] at hd
      have hcore : Core e s (fieldBits r.e v n) n (BufW.writeBits e s (BitVec.ofNat 64 v) n) := by
        rw [he, ← fieldBits_mod64 e v (by omega), ← BitVec.toNat_ofNat]
        cases e
        · exact writeBitsBE_core s _ n hi hc (by omega) hd
        · exact writeBitsLE_core s _ n hi hc (by omega) hd
      exact (sim_of_core hrel hcore).mono (fun ⟨a, s'⟩ ⟨b, r'⟩ ⟨h1, h2, h3, h4⟩ => ⟨h1, ⟨h2, h3⟩, h4⟩)

example : ResRel (Post .be exS) ((BufW.impl .be).writeBits exS 0x2B 6) (RefW.writeBits exRbe 0x2B 6) :=
  writeBits_sim exS_be _ _

example : ResRel (Post .le exS) ((BufW.impl .le).writeBits exS 0x2B 6) (RefW.writeBits exRle 0x2B 6) :=
  writeBits_sim exS_le _ _

/-! ### 2. `write_unary`, `flush` -/

theorem writeUnary_sim {e : Endian} {s : BufW W} {r : RefW} (h : RelC e s r) (x : Nat) :
    ResRel (fun (a, s') (b, r') => a = b ∧ RelC e s' r' ∧ s.out <+: s'.out)
      ((BufW.impl e).writeUnary s x) (RefW.writeUnary r x) := by
  obtain ⟨hrel, hc⟩ := h
  show ResRel _ (BufW.writeUnary e s x) _
  unfold RefW.writeUnary
  by_cases hx : x ≥ 2 ^ 64 - 1
  · simp [BufW.writeUnary, hx, ResRel]
  · simp only [hx, if_false]
    exact (sim_of_core hrel (writeUnary_core e s x hrel.1 hc (by omega))).mono
      (fun ⟨a, s'⟩ ⟨b, r'⟩ ⟨h1, h2, h3, h4⟩ => ⟨h1, ⟨h2, h3⟩, h4⟩)

example : ResRel (Post .be exS) ((BufW.impl .be).writeUnary exS 17) (RefW.writeUnary exRbe 17) :=
  writeUnary_sim exS_be _

theorem pending_eq {e : Endian} {s : BufW W} {r : RefW} (hrel : Rel e s r) :
    r.pending = W - s.space := by
  obtain ⟨⟨hi1, hi2⟩, he, hw, hcap, hchk, hbits⟩ := hrel
  rw [RefW.pending, hbits, abs_length, hw, Nat.mul_add_mod']
  exact Nat.mod_eq_of_lt (by omega)

theorem flush_sim {e : Endian} {s : BufW W} {r : RefW} (h : RelC e s r) :
    ResRel (fun (a, s') (b, r') => a = b ∧ RelC e s' r' ∧ s.out <+: s'.out)
      ((BufW.impl e).flush s) (RefW.flush r) := by
  obtain ⟨hrel, hc⟩ := h
  show ResRel _ (BufW.flush e s) _
  simp only [RefW.flush, pending_eq hrel, hrel.2.2.1]
  exact (sim_of_core hrel (flush_core e s hrel.1 hc)).mono
    (fun ⟨a, s'⟩ ⟨b, r'⟩ ⟨h1, h2, h3, h4⟩ => ⟨h1, ⟨h2, h3⟩, h4⟩)

example : ResRel (Post .le exS) ((BufW.impl .le).flush exS) (RefW.flush exRle) :=
  flush_sim exS_le

/-! ### 3. flushing twice -/

/-- after a successful flush, a second flush returns `0` and changes nothing (in particular
    `out`); no invariant is needed -/
theorem flush_idempotent (e : Endian) {s s1 : BufW W} {k : Nat}
    (h : (BufW.impl e).flush s = .ok (k, s1)) :
    (BufW.impl e).flush s1 = .ok (0, s1) := by
  change BufW.flush e s = .ok (k, s1) at h
  show BufW.flush e s1 = .ok (0, s1)
  have hsp : W - s1.space = 0 := by
    unfold BufW.flush at h
    by_cases h0 : W - s.space = 0
    · simp only [h0, ne_eq, not_true_eq_false, if_false, Res.ok.injEq, Prod.mk.injEq] at h
      rw [← h.2]; exact h0
    · simp only [h0, ne_eq, not_false_eq_true, if_true] at h
      rw [emit_eq] at h
      by_cases h1 : capFits s.cap (s.out.length + 1) = true
      · simp only [h1, if_true, Res.ok.injEq, Prod.mk.injEq] at h
        rw [← h.2]; simp
      · simp [h1] at h
  simp [BufW.flush, hsp]

example : ∃ k s1, (BufW.impl .be).flush exS = .ok (k, s1) ∧ k = 5 ∧ s1.out.length = 2 :=
  ⟨_, _, rfl, rfl, rfl⟩

/-! ### 4. every writer program -/

/-- "then" for outcomes carrying a state -/
def Res.andThen {σ β : Type} (x : Res (Nat × σ)) (f : Nat → σ → Res β) : Res β :=
  match x with
  | .ok (a, s) => f a s
  | .err e => .err e
  | .panic => .panic
  | .dpanic => .dpanic

theorem WProg.run_writeBits {σ α : Type} (I : WImpl σ) (v n : Nat) (k : Nat → WProg α) (s : σ) :
    (WProg.writeBits v n k).run I s = (I.writeBits s v n).andThen (fun a s' => (k a).run I s') := by
  simp only [WProg.run, Res.andThen]
  cases I.writeBits s v n <;> rfl

theorem WProg.run_writeUnary {σ α : Type} (I : WImpl σ) (x : Nat) (k : Nat → WProg α) (s : σ) :
    (WProg.writeUnary x k).run I s = (I.writeUnary s x).andThen (fun a s' => (k a).run I s') := by
  simp only [WProg.run, Res.andThen]
  cases I.writeUnary s x <;> rfl

theorem WProg.run_flush {σ α : Type} (I : WImpl σ) (k : Nat → WProg α) (s : σ) :
    (WProg.flush k).run I s = (I.flush s).andThen (fun a s' => (k a).run I s') := by
  simp only [WProg.run, Res.andThen]
  cases I.flush s <;> rfl

/-- sequencing of simulation steps -/
theorem ResRel.step {β γ σ τ : Type} {R : Nat × σ → Nat × τ → Prop} {Q : β → γ → Prop}
    {x : Res (Nat × σ)} {y : Res (Nat × τ)} (h : ResRel R x y)
    {f : Nat → σ → Res β} {g : Nat → τ → Res γ}
    (hfg : ∀ a s b r, R (a, s) (b, r) → ResRel Q (f a s) (g b r)) :
    ResRel Q (x.andThen f) (y.andThen g) := by
  cases x <;> cases y <;> simp only [ResRel, Res.andThen] at h ⊢
  · exact hfg _ _ _ _ h
  · exact h

theorem wprog_sim {α : Type} (e : Endian) (p : WProg α) :
    ∀ {s : BufW W} {r : RefW}, RelC e s r →
      ResRel (fun (a, s') (b, r') => a = b ∧ RelC e s' r' ∧ s.out <+: s'.out)
        (p.run (BufW.impl e) s) (p.run RefW.impl r) := by
  induction p with
  | ret a => intro s r h; exact ⟨rfl, h, List.prefix_refl _⟩
  | panic => intro s r _; trivial
  | dpanic => intro s r _; trivial
  | writeBits v n k ih =>
    intro s r h
    rw [WProg.run_writeBits, WProg.run_writeBits]
    refine (writeBits_sim h v n).step ?_
    rintro a s1 b r1 ⟨rfl, h1, hp⟩
    exact (ih a h1).mono (fun ⟨_, _⟩ ⟨_, _⟩ ⟨h2, h3, h4⟩ => ⟨h2, h3, hp.trans h4⟩)
  | writeUnary x k ih =>
    intro s r h
    rw [WProg.run_writeUnary, WProg.run_writeUnary]
    refine (writeUnary_sim h x).step ?_
    rintro a s1 b r1 ⟨rfl, h1, hp⟩
    exact (ih a h1).mono (fun ⟨_, _⟩ ⟨_, _⟩ ⟨h2, h3, h4⟩ => ⟨h2, h3, hp.trans h4⟩)
  | flush k ih =>
    intro s r h
    rw [WProg.run_flush, WProg.run_flush]
    refine (flush_sim h).step ?_
    rintro a s1 b r1 ⟨rfl, h1, hp⟩
    exact (ih a h1).mono (fun ⟨_, _⟩ ⟨_, _⟩ ⟨h2, h3, h4⟩ => ⟨h2, h3, hp.trans h4⟩)

example : ResRel (Post .be exS)
    ((do let a ← WProg.wbits 5 3; let b ← WProg.wunary 9; pure (a + b) : WProg Nat).run
      (BufW.impl .be) exS)
    ((do let a ← WProg.wbits 5 3; let b ← WProg.wunary 9; pure (a + b) : WProg Nat).run
      RefW.impl exRbe) :=
  wprog_sim .be _ exS_be

/-! ### 5. sequences of operations from the initial state -/

inductive WOp where
  | bits (v n : Nat)
  | unary (x : Nat)
  | flush
  deriving Repr

/-- one operation on the concrete writer -/
def WOp.stepC (e : Endian) (s : BufW W) : WOp → Res (Nat × BufW W)
  | .bits v n => (BufW.impl e).writeBits s v n
  | .unary x => (BufW.impl e).writeUnary s x
  | .flush => (BufW.impl e).flush s

/-- one operation on the reference writer -/
def WOp.stepR (r : RefW) : WOp → Res (Nat × RefW)
  | .bits v n => RefW.writeBits r v n
  | .unary x => RefW.writeUnary r x
  | .flush => RefW.flush r

/-- run a list of operations (stopping at the first error or panic), collecting the results -/
def runOps {σ : Type} (step : σ → WOp → Res (Nat × σ)) : σ → List WOp → Res (List Nat × σ)
  | s, [] => .ok ([], s)
  | s, op :: ops =>
    (step s op).andThen fun a s' => (runOps step s' ops).map fun p => (a :: p.1, p.2)

theorem WOp.step_sim {e : Endian} {s : BufW W} {r : RefW} (h : RelC e s r) (op : WOp) :
    ResRel (fun (a, s') (b, r') => a = b ∧ RelC e s' r' ∧ s.out <+: s'.out)
      (op.stepC e s) (op.stepR r) := by
  cases op with
  | bits v n => exact writeBits_sim h v n
  | unary x => exact writeUnary_sim h x
  | flush => exact flush_sim h

theorem ResRel.map {α β α' β' : Type} {R : α → β → Prop} {Q : α' → β' → Prop}
    {x : Res α} {y : Res β} (h : ResRel R x y) (f : α → α') (g : β → β')
    (hfg : ∀ a b, R a b → Q (f a) (g b)) : ResRel Q (x.map f) (y.map g) := by
  cases x <;> cases y <;> simp only [ResRel, Res.map] at h ⊢
  · exact hfg _ _ h
  · exact h

theorem runOps_sim {e : Endian} (ops : List WOp) :
    ∀ {s : BufW W} {r : RefW}, RelC e s r →
      ResRel (fun (as, s') (bs, r') => as = bs ∧ RelC e s' r' ∧ s.out <+: s'.out)
        (runOps (WOp.stepC e) s ops) (runOps WOp.stepR r ops) := by
  induction ops with
  | nil => intro s r h; exact ⟨rfl, h, List.prefix_refl _⟩
  | cons op ops ih =>
    intro s r h
    refine (WOp.step_sim h op).step ?_
    rintro a s1 b r1 ⟨rfl, h1, hp⟩
    refine (ih h1).map _ _ ?_
    rintro ⟨as, s2⟩ ⟨bs, r2⟩ ⟨rfl, h2, hp2⟩
    exact ⟨rfl, h2, hp.trans hp2⟩

theorem runOps_append {σ : Type} (step : σ → WOp → Res (Nat × σ)) (l1 l2 : List WOp) (s : σ) :
    runOps step s (l1 ++ l2) =
      match runOps step s l1 with
      | .ok (as, s1) => (runOps step s1 l2).map fun p => (as ++ p.1, p.2)
      | .err e => .err e
      | .panic => .panic
      | .dpanic => .dpanic := by
  induction l1 generalizing s with
  | nil =>
    simp only [List.nil_append, runOps]
    cases runOps step s l2 <;> simp [Res.map]
  | cons op l1 ih =>
    simp only [List.cons_append, runOps, Res.andThen]
    cases step s op with
    | ok p =>
      obtain ⟨a, s'⟩ := p
      simp only [ih]
      cases runOps step s' l1 with
      | ok q =>
        obtain ⟨as, s1⟩ := q
        simp only [Res.map]
        cases runOps step s1 l2 <;> simp
      | err _ => rfl
      | panic => rfl
      | dpanic => rfl
    | err _ => rfl
    | panic => rfl
    | dpanic => rfl

/-- the initial states are related -/
theorem rel_new (e : Endian) (hW : 0 < W) (checks : Bool) (cap : Option Nat) :
    RelC e (BufW.new W checks cap) { e := e, W := W, checks := checks, cap := cap } := by
  refine ⟨⟨⟨hW, Nat.le_refl _⟩, rfl, rfl, rfl, rfl, ?_⟩, ?_⟩
  · simp [BufW.abs, BufW.new, valid_eq]
    apply List.eq_nil_of_length_eq_zero; simp
  · cases cap <;> simp [CapOk, BufW.new, capFits]

/-- From the initial state, every prefix `pre` of a list of operations `ops` leaves the concrete
    writer and the reference writer with the same outcome (same results, related states, or the
    same error / panic); and what the backend holds after `pre` is a prefix of what it holds
    after `ops` (likewise for the returned values). -/
theorem writer_refines (e : Endian) (hW : 0 < W) (checks : Bool) (cap : Option Nat)
    (ops pre : List WOp) (hpre : pre <+: ops) :
    ResRel (fun (as, s') (bs, r') => as = bs ∧ RelC e s' r')
        (runOps (WOp.stepC e) (BufW.new W checks cap) pre)
        (runOps WOp.stepR { e := e, W := W, checks := checks, cap := cap } pre) ∧
      ∀ as1 s1 as2 s2, runOps (WOp.stepC e) (BufW.new W checks cap) pre = .ok (as1, s1) →
        runOps (WOp.stepC e) (BufW.new W checks cap) ops = .ok (as2, s2) →
        s1.out <+: s2.out ∧ as1 <+: as2 := by
  have h0 := rel_new e hW checks cap
  have hsim := runOps_sim (e := e) pre h0
  refine ⟨hsim.mono (fun ⟨_, _⟩ ⟨_, _⟩ ⟨h1, h2, _⟩ => ⟨h1, h2⟩), ?_⟩
  intro as1 s1 as2 s2 h1 h2
  obtain ⟨rest, rfl⟩ := hpre
  rw [runOps_append, h1] at h2
  simp only at h2
  rw [h1] at hsim
  cases hr : runOps WOp.stepR { e := e, W := W, checks := checks, cap := cap } pre with
  | ok q =>
    obtain ⟨bs, r1⟩ := q
    rw [hr] at hsim
    obtain ⟨_, hrel1, _⟩ := hsim
    have hsim2 := runOps_sim (e := e) rest hrel1
    cases hc : runOps (WOp.stepC e) s1 rest with
    | ok q2 =>
      obtain ⟨as', s2'⟩ := q2
      rw [hc] at h2 hsim2
      simp only [Res.map, Res.ok.injEq, Prod.mk.injEq] at h2
      obtain ⟨rfl, rfl⟩ := h2
      cases hr2 : runOps WOp.stepR r1 rest with
      | ok q3 =>
        rw [hr2] at hsim2
        exact ⟨hsim2.2.2, List.prefix_append _ _⟩
      | err _ => rw [hr2] at hsim2; exact hsim2.elim
      | panic => rw [hr2] at hsim2; exact hsim2.elim
      | dpanic => rw [hr2] at hsim2; exact hsim2.elim
    | err _ => rw [hc] at h2; simp [Res.map] at h2
    | panic => rw [hc] at h2; simp [Res.map] at h2
    | dpanic => rw [hc] at h2; simp [Res.map] at h2
  | err _ => rw [hr] at hsim; exact hsim.elim
  | panic => rw [hr] at hsim; exact hsim.elim
  | dpanic => rw [hr] at hsim; exact hsim.elim

example : runOps (WOp.stepC .le) (BufW.new 8 true (some 2))
    [.bits 0x5 3, .unary 6, .bits 0xFFFF 16, .flush] = .err .eof := rfl

example : ∃ s, runOps (WOp.stepC .le) (BufW.new 8 true (some 4))
    [.bits 0x5 3, .unary 6, .bits 0xFFFF 16, .flush] = .ok ([3, 7, 16, 2], s) ∧
    s.out = [0x05#8, 0xFE#8, 0xFF#8, 0x03#8] := ⟨_, rfl, rfl⟩

/-! ### 6. the bytes in the backend are the canonical layout of the delivered bits -/

theorem layout_word (e : Endian) (h8 : 8 ∣ W) (w : BitVec W) (rest : List Bool) :
    layout e (wordBits e w ++ rest) = BufW.wordBytes e w ++ layout e rest := by
  obtain ⟨m, rfl⟩ := h8
  unfold wordBits BufW.wordBytes
  rw [Nat.mul_div_cancel_left m (by omega : 0 < 8)]
  cases e
  · exact layout_field_be m _ rest
  · exact layout_field_le m _ rest

theorem layout_words (e : Endian) (h8 : 8 ∣ W) (ws : List (BitVec W)) :
    layout e (ws.flatMap (wordBits e)) = ws.flatMap (BufW.wordBytes e) := by
  induction ws with
  | nil => rfl
  | cons w ws ih => rw [List.flatMap_cons, List.flatMap_cons, layout_word e h8, ih]

/-- the memory image of the backend of a writer is the canonical layout of what it delivered -/
theorem outBytes_eq_layout (e : Endian) (h8 : 8 ∣ W) (s : BufW W) :
    s.outBytes e = layout e (s.out.flatMap (wordBits e)) := (layout_words e h8 s.out).symm

theorem layout_spec (e : Endian) (bits : List Bool) (i : Nat) (h : i < bits.length) :
    ((layout e bits).getD (i / 8) 0).testBit (match e with | .be => 7 - i % 8 | .le => i % 8)
      = bits.getD i false :=
  layout_spec_aux e (i + 1) bits i (Nat.lt_succ_self i) h

example : layout .be ([0x12#8, 0xB5#8].flatMap (wordBits .be)) = [0x12, 0xB5] := by decide
example : layout .le ([0x1234#16].flatMap (wordBits .le)) = [0x34, 0x12] := by decide
example : layout .be ([0x1234#16].flatMap (wordBits .be)) = [0x12, 0x34] := by decide

/-! ### growable backends: the statements with plain `Rel` -/

theorem writeBits_sim_growable {e : Endian} {s : BufW W} {r : RefW} (h : BufW.Rel e s r)
    (hcap : s.cap = none) (v n : Nat) :
    ResRel (fun (a, s') (b, r') => a = b ∧ BufW.Rel e s' r' ∧ s.out <+: s'.out)
      ((BufW.impl e).writeBits s v n) (RefW.writeBits r v n) :=
  (writeBits_sim (RelC_of_growable h hcap) v n).mono
    (fun ⟨_, _⟩ ⟨_, _⟩ ⟨h1, h2, h3⟩ => ⟨h1, h2.1, h3⟩)

theorem writeUnary_sim_growable {e : Endian} {s : BufW W} {r : RefW} (h : BufW.Rel e s r)
    (hcap : s.cap = none) (x : Nat) :
    ResRel (fun (a, s') (b, r') => a = b ∧ BufW.Rel e s' r' ∧ s.out <+: s'.out)
      ((BufW.impl e).writeUnary s x) (RefW.writeUnary r x) :=
  (writeUnary_sim (RelC_of_growable h hcap) x).mono
    (fun ⟨_, _⟩ ⟨_, _⟩ ⟨h1, h2, h3⟩ => ⟨h1, h2.1, h3⟩)

theorem flush_sim_growable {e : Endian} {s : BufW W} {r : RefW} (h : BufW.Rel e s r)
    (hcap : s.cap = none) :
    ResRel (fun (a, s') (b, r') => a = b ∧ BufW.Rel e s' r' ∧ s.out <+: s'.out)
      ((BufW.impl e).flush s) (RefW.flush r) :=
  (flush_sim (RelC_of_growable h hcap)).mono
    (fun ⟨_, _⟩ ⟨_, _⟩ ⟨h1, h2, h3⟩ => ⟨h1, h2.1, h3⟩)

theorem wprog_sim_growable {α : Type} (e : Endian) (p : WProg α) {s : BufW W} {r : RefW}
    (h : BufW.Rel e s r) (hcap : s.cap = none) :
    ResRel (fun (a, s') (b, r') => a = b ∧ BufW.Rel e s' r' ∧ s.out <+: s'.out)
      (p.run (BufW.impl e) s) (p.run RefW.impl r) :=
  (wprog_sim e p (RelC_of_growable h hcap)).mono
    (fun ⟨_, _⟩ ⟨_, _⟩ ⟨h1, h2, h3⟩ => ⟨h1, h2.1, h3⟩)

/-- a growable concrete writer and its reference writer -/
def exG : BufW 8 := { buffer := 0xB5#8, space := 3, out := [0x12#8] }
def exGr : RefW :=
  { e := .be, W := 8,
    bits := [false, false, false, true, false, false, true, false, true, false, true, false, true] }
example : BufW.Rel .be exG exGr ∧ exG.cap = none :=
  ⟨⟨⟨by decide, by decide⟩, rfl, rfl, rfl, rfl, by decide⟩, rfl⟩

/-- Why `CapOk` is needed: `Rel` does not say that the delivered words fit the fixed backend.
    In the (unreachable) state below two words sit in a backend of capacity one; writing zero
    bits succeeds on the concrete writer and is refused by the reference writer. -/
theorem rel_alone_not_enough :
    ∃ (s : BufW 8) (r : RefW), BufW.Rel .be s r ∧
      ¬ ResRel (fun (a, s') (b, r') => a = b ∧ BufW.Rel .be s' r' ∧ s.out <+: s'.out)
        ((BufW.impl .be).writeBits s 0 0) (RefW.writeBits r 0 0) :=
  ⟨{ buffer := 0, space := 8, out := [0, 0], cap := some 1 },
   { e := .be, W := 8, cap := some 1, bits := List.replicate 16 false },
   ⟨⟨by decide, by decide⟩, rfl, rfl, rfl, rfl, by decide⟩, fun h => h⟩

end Dsi
