/-
  Headline theorem for C13 (in-memory word streams behave as an array with a cursor), stated over
  the method bodies regenerated from src/impls/mem_word_reader.rs / mem_word_writer.rs on this run
  (lean/Dsi/Gen/MemWordBodies.lean) only.

  * `genStepR strict`, `genStepW growable`: one call (`read_word`, `write_word`, `set_word_pos`,
    `word_pos`, `len`) on the *generated* bodies of the stream of that kind; as in the Rust a call
    that returns an error leaves the stream as it was;
  * `ArrCur` (lean/Dsi/Impl/MemWordSpec.lean): the specification "array + cursor";
  * `absR` / `absW`: the words of the stream as numbers and its cursor (not generated: it is the
    observation `into_inner()` / `word_pos()` gives of the stream);
  * `runMem`: run a list of calls, collecting the answers.

  `gen_memr_ops_refine`, `gen_memw_ops_refine`: ANY sequence of calls on the generated streams gives
  the answers of the specification and ends in the specification's final state.

  Hypotheses (none in the hand-written `memr_ops_refine` / `memw_ops_refine`), and why: positions
  and lengths are `usize` in the Rust and reported as `u64`; the model counts in `Nat`.  `B` bounds
  the cursor, the length and every requested position, and `B + ops.length < 2^64` (a sequence of
  `k` calls moves the cursor / grows the vector by at most `k`).
-/
import Dsi.Props.MemWordGen
import Dsi.Props.C13
namespace Dsi
namespace Headline2
variable {W : Nat}

/-- the answer of a call returning a value; on an error the stream is left as it was -/
def ansV {σ : Type} (m : σ) : Res (Nat × σ) → MemAns × σ
  | .ok (v, m') => (.ok (some v), m')
  | .err e => (.err e, m)
  | .panic => (.panic, m)
  | .dpanic => (.dpanic, m)

/-- the answer of a call returning `()` -/
def ansU {σ : Type} (m : σ) : Res σ → MemAns × σ
  | .ok m' => (.ok none, m')
  | .err e => (.err e, m)
  | .panic => (.panic, m)
  | .dpanic => (.dpanic, m)

/-- one call on the generated `MemWordReader` (`strict = false`: zero-extended) or
    `MemWordReaderStrict` (`strict = true`); the readers have no `write_word` / `len` -/
def genStepR (strict : Bool) (m : MemR W) : MemOp W → MemAns × MemR W
  | .read => ansV m (GenMem.natOut (if strict then Gen.MemR.read_word_strict m else Gen.MemR.read_word_inf m))
  | .seek p => ansU m (if strict then Gen.MemR.set_word_pos_strict m (BitVec.ofNat 64 p)
      else Gen.MemR.set_word_pos_inf m (BitVec.ofNat 64 p))
  | .pos => ansV m (GenMem.natOut (if strict then Gen.MemR.word_pos_strict m else Gen.MemR.word_pos_inf m))
  | .write _ => (.panic, m)
  | .len => (.panic, m)

/-- one call on the generated `MemWordWriterVec` (`growable = true`) or `MemWordWriterSlice` -/
def genStepW (growable : Bool) (m : MemW W) : MemOp W → MemAns × MemW W
  | .read => ansV m (GenMem.natOut (if growable then Gen.MemW.read_word_vec m else Gen.MemW.read_word_slice m))
  | .write w => ansU m (if growable then Gen.MemW.write_word_vec m w else Gen.MemW.write_word_slice m w)
  | .seek p => ansU m (if growable then Gen.MemW.set_word_pos_vec m (BitVec.ofNat 64 p)
      else Gen.MemW.set_word_pos_slice m (BitVec.ofNat 64 p))
  | .pos => ansV m (GenMem.natOut (if growable then Gen.MemW.word_pos_vec m else Gen.MemW.word_pos_slice m))
  | .len => (.ok (some (if growable then Gen.MemW.len_vec m else Gen.MemW.len_slice m)), m)

/-- every position requested by the sequence is at most `B` -/
def SeeksLe (B : Nat) (ops : List (MemOp W)) : Prop := ∀ p, MemOp.seek p ∈ ops → p ≤ B

theorem SeeksLe.tail {B : Nat} {op : MemOp W} {ops : List (MemOp W)} (h : SeeksLe B (op :: ops)) :
    SeeksLe (B + 1) ops := fun p hp => Nat.le_succ_of_le (h p (List.mem_cons_of_mem _ hp))

/-! ### one call: the generated step is the hand-written one -/

theorem genStepR_eq (m : MemR W) (op : MemOp W) (hop : op.forReader = true) {B : Nat}
    (hp : m.pos ≤ B) (hl : m.data.length ≤ B) (hs : ∀ p, op = .seek p → p ≤ B) (hB : B < 2 ^ 64) :
    genStepR m.strict m op = m.step op := by
  cases op with
  | read =>
    have : (if m.strict then Gen.MemR.read_word_strict m else Gen.MemR.read_word_inf m) = m.readWord := by
      cases h : m.strict
      · simp only [Bool.false_eq_true, if_false]; exact GenMem.read_word_inf_eq m h
      · simp only [if_true]; exact GenMem.read_word_strict_eq m h
    simp only [genStepR, MemR.step, this]
    cases m.readWord with
    | ok q => obtain ⟨v, m'⟩ := q; rfl
    | err e => rfl
    | panic => rfl
    | dpanic => rfl
  | seek p =>
    have hp64 : p < 2 ^ 64 := Nat.lt_of_le_of_lt (hs p rfl) hB
    have : (if m.strict then Gen.MemR.set_word_pos_strict m (BitVec.ofNat 64 p)
        else Gen.MemR.set_word_pos_inf m (BitVec.ofNat 64 p)) = m.setWordPos p := by
      cases h : m.strict
      · simp only [Bool.false_eq_true, if_false]
        rw [GenMem.set_word_pos_inf_eq m _ h, GenMem.ofNat64_toNat p hp64]
      · simp only [if_true]
        rw [GenMem.set_word_pos_strict_eq m _ h (by omega), GenMem.ofNat64_toNat p hp64]
    simp only [genStepR, MemR.step, this]
    cases m.setWordPos p with
    | ok m' => rfl
    | err e => rfl
    | panic => rfl
    | dpanic => rfl
  | pos =>
    have : GenMem.natOut (if m.strict then Gen.MemR.word_pos_strict m else Gen.MemR.word_pos_inf m)
        = .ok (m.wordPos, m) := by
      cases h : m.strict
      · simp only [Bool.false_eq_true, if_false]; exact GenMem.word_pos_inf_eq m (by omega)
      · simp only [if_true]; exact GenMem.word_pos_strict_eq m (by omega)
    simp only [genStepR, MemR.step, this]; rfl
  | write w => cases hop
  | len => cases hop

theorem genStepW_eq (m : MemW W) (op : MemOp W) {B : Nat}
    (hp : m.pos ≤ B) (hl : m.data.length ≤ B) (hs : ∀ p, op = .seek p → p ≤ B) (hB : B < 2 ^ 64) :
    genStepW m.growable m op = m.step op := by
  cases op with
  | read =>
    have : (if m.growable then Gen.MemW.read_word_vec m else Gen.MemW.read_word_slice m) = m.readWord := by
      cases m.growable
      · simp only [Bool.false_eq_true, if_false]; exact GenMem.read_word_slice_eq m
      · simp only [if_true]; exact GenMem.read_word_vec_eq m
    simp only [genStepW, MemW.step, this]
    cases m.readWord with
    | ok q => obtain ⟨v, m'⟩ := q; rfl
    | err e => rfl
    | panic => rfl
    | dpanic => rfl
  | write w =>
    have : (if m.growable then Gen.MemW.write_word_vec m w else Gen.MemW.write_word_slice m w)
        = m.writeWord w := by
      cases h : m.growable
      · simp only [Bool.false_eq_true, if_false]; exact GenMem.write_word_slice_eq m w h
      · simp only [if_true]; exact GenMem.write_word_vec_eq m w h
    simp only [genStepW, MemW.step, this]
    cases m.writeWord w with
    | ok m' => rfl
    | err e => rfl
    | panic => rfl
    | dpanic => rfl
  | seek p =>
    have hp64 : p < 2 ^ 64 := Nat.lt_of_le_of_lt (hs p rfl) hB
    have : (if m.growable then Gen.MemW.set_word_pos_vec m (BitVec.ofNat 64 p)
        else Gen.MemW.set_word_pos_slice m (BitVec.ofNat 64 p)) = m.setWordPos p := by
      cases m.growable
      · simp only [Bool.false_eq_true, if_false]
        rw [GenMem.set_word_pos_slice_eq m _ (by omega), GenMem.ofNat64_toNat p hp64]
      · simp only [if_true]
        rw [GenMem.set_word_pos_vec_eq m _ (by omega), GenMem.ofNat64_toNat p hp64]
    simp only [genStepW, MemW.step, this]
    cases m.setWordPos p with
    | ok m' => rfl
    | err e => rfl
    | panic => rfl
    | dpanic => rfl
  | pos =>
    have : GenMem.natOut (if m.growable then Gen.MemW.word_pos_vec m else Gen.MemW.word_pos_slice m)
        = .ok (m.wordPos, m) := by
      cases m.growable
      · simp only [Bool.false_eq_true, if_false]; exact GenMem.word_pos_slice_eq m (by omega)
      · simp only [if_true]; exact GenMem.word_pos_vec_eq m (by omega)
    simp only [genStepW, MemW.step, this]; rfl
  | len =>
    simp only [genStepW, MemW.step]
    cases m.growable <;> rfl

/-! ### what one hand-written call does to the kind, the cursor and the length -/

theorem memr_readWord_frame {m m' : MemR W} {w : BitVec W} (h : m.readWord = .ok (w, m')) :
    m'.strict = m.strict ∧ m'.pos = m.pos + 1 ∧ m'.data = m.data := by
  unfold MemR.readWord at h
  split at h
  · cases h; exact ⟨rfl, rfl, rfl⟩
  · split at h
    · cases h
    · cases h; exact ⟨rfl, rfl, rfl⟩

theorem memr_setWordPos_frame {m m' : MemR W} {p : Nat} (h : m.setWordPos p = .ok m') :
    m'.strict = m.strict ∧ m'.pos = p ∧ m'.data = m.data := by
  unfold MemR.setWordPos at h
  split at h
  · cases h
  · cases h; exact ⟨rfl, rfl, rfl⟩

theorem memw_readWord_frame {m m' : MemW W} {w : BitVec W} (h : m.readWord = .ok (w, m')) :
    m'.growable = m.growable ∧ m'.pos = m.pos + 1 ∧ m'.data = m.data := by
  unfold MemW.readWord at h
  split at h
  · cases h; exact ⟨rfl, rfl, rfl⟩
  · cases h

theorem memw_setWordPos_frame {m m' : MemW W} {p : Nat} (h : m.setWordPos p = .ok m') :
    m'.growable = m.growable ∧ m'.pos = p ∧ m'.data = m.data := by
  unfold MemW.setWordPos at h
  split at h
  · cases h
  · cases h; exact ⟨rfl, rfl, rfl⟩

theorem memw_writeWord_frame {m m' : MemW W} {w : BitVec W} (h : m.writeWord w = .ok m') :
    m'.growable = m.growable ∧ m'.pos = m.pos + 1 ∧ m'.data.length ≤ max m.data.length (m.pos + 1) := by
  unfold MemW.writeWord at h
  split at h
  · cases h
    refine ⟨rfl, rfl, ?_⟩
    show (m.data.set m.pos w).length ≤ _
    rw [List.length_set]; omega
  · split at h
    · cases h
      refine ⟨rfl, rfl, ?_⟩
      show (m.data ++ List.replicate (m.pos - m.data.length) 0 ++ [w]).length ≤ _
      simp only [List.length_append, List.length_replicate, List.length_singleton]
      omega
    · cases h

theorem memr_step_frame (m : MemR W) (op : MemOp W) {B : Nat} (hp : m.pos ≤ B) (hl : m.data.length ≤ B)
    (hs : ∀ p, op = .seek p → p ≤ B) :
    (m.step op).2.strict = m.strict ∧ (m.step op).2.pos ≤ B + 1 ∧ (m.step op).2.data.length ≤ B + 1 := by
  have keep : m.strict = m.strict ∧ m.pos ≤ B + 1 ∧ m.data.length ≤ B + 1 := ⟨rfl, by omega, by omega⟩
  cases op with
  | read =>
    simp only [MemR.step]
    cases h : m.readWord with
    | ok q =>
      obtain ⟨v, m'⟩ := q
      obtain ⟨a, b, c⟩ := memr_readWord_frame h
      exact ⟨a, by show m'.pos ≤ B + 1; omega, by show m'.data.length ≤ B + 1; rw [c]; omega⟩
    | err e => exact keep
    | panic => exact keep
    | dpanic => exact keep
  | seek p =>
    have := hs p rfl
    simp only [MemR.step]
    cases h : m.setWordPos p with
    | ok m' =>
      obtain ⟨a, b, c⟩ := memr_setWordPos_frame h
      exact ⟨a, by show m'.pos ≤ B + 1; omega, by show m'.data.length ≤ B + 1; rw [c]; omega⟩
    | err e => exact keep
    | panic => exact keep
    | dpanic => exact keep
  | pos => exact keep
  | write w => exact keep
  | len => exact keep

theorem memw_step_frame (m : MemW W) (op : MemOp W) {B : Nat} (hp : m.pos ≤ B) (hl : m.data.length ≤ B)
    (hs : ∀ p, op = .seek p → p ≤ B) :
    (m.step op).2.growable = m.growable ∧ (m.step op).2.pos ≤ B + 1 ∧ (m.step op).2.data.length ≤ B + 1 := by
  have keep : m.growable = m.growable ∧ m.pos ≤ B + 1 ∧ m.data.length ≤ B + 1 := ⟨rfl, by omega, by omega⟩
  cases op with
  | read =>
    simp only [MemW.step]
    cases h : m.readWord with
    | ok q =>
      obtain ⟨v, m'⟩ := q
      obtain ⟨a, b, c⟩ := memw_readWord_frame h
      exact ⟨a, by show m'.pos ≤ B + 1; omega, by show m'.data.length ≤ B + 1; rw [c]; omega⟩
    | err e => exact keep
    | panic => exact keep
    | dpanic => exact keep
  | write w =>
    simp only [MemW.step]
    cases h : m.writeWord w with
    | ok m' =>
      obtain ⟨a, b, c⟩ := memw_writeWord_frame h
      exact ⟨a, by show m'.pos ≤ B + 1; omega, by show m'.data.length ≤ B + 1; omega⟩
    | err e => exact keep
    | panic => exact keep
    | dpanic => exact keep
  | seek p =>
    have := hs p rfl
    simp only [MemW.step]
    cases h : m.setWordPos p with
    | ok m' =>
      obtain ⟨a, b, c⟩ := memw_setWordPos_frame h
      exact ⟨a, by show m'.pos ≤ B + 1; omega, by show m'.data.length ≤ B + 1; rw [c]; omega⟩
    | err e => exact keep
    | panic => exact keep
    | dpanic => exact keep
  | pos => exact keep
  | len => exact keep

/-! ### sequences of calls -/

theorem gen_memr_run_eq (strict : Bool) : ∀ (ops : List (MemOp W)) (m : MemR W) (B : Nat),
    m.strict = strict → (∀ op ∈ ops, op.forReader = true) → m.pos ≤ B → m.data.length ≤ B →
    SeeksLe B ops → B + ops.length < 2 ^ 64 →
    runMem (genStepR strict) m ops = runMem MemR.step m ops
  | [], m, B, _, _, _, _, _, _ => rfl
  | op :: ops, m, B, hs, hops, hp, hl, hsk, hB => by
    simp only [List.length_cons] at hB
    have hsk1 : ∀ p, op = .seek p → p ≤ B := fun p h => hsk p (by rw [h]; exact List.mem_cons_self)
    have h1 : genStepR strict m op = m.step op := by
      rw [← hs]; exact genStepR_eq m op (hops op List.mem_cons_self) hp hl hsk1 (by omega)
    obtain ⟨f1, f2, f3⟩ := memr_step_frame m op hp hl hsk1
    have ih := gen_memr_run_eq strict ops (m.step op).2 (B + 1) (by rw [f1, hs])
      (fun o ho => hops o (List.mem_cons_of_mem _ ho)) f2 f3 hsk.tail (by omega)
    simp only [runMem, h1, ih]

theorem gen_memw_run_eq (growable : Bool) : ∀ (ops : List (MemOp W)) (m : MemW W) (B : Nat),
    m.growable = growable → m.pos ≤ B → m.data.length ≤ B →
    SeeksLe B ops → B + ops.length < 2 ^ 64 →
    runMem (genStepW growable) m ops = runMem MemW.step m ops
  | [], m, B, _, _, _, _, _ => rfl
  | op :: ops, m, B, hs, hp, hl, hsk, hB => by
    simp only [List.length_cons] at hB
    have hsk1 : ∀ p, op = .seek p → p ≤ B := fun p h => hsk p (by rw [h]; exact List.mem_cons_self)
    have h1 : genStepW growable m op = m.step op := by
      rw [← hs]; exact genStepW_eq m op hp hl hsk1 (by omega)
    obtain ⟨f1, f2, f3⟩ := memw_step_frame m op hp hl hsk1
    have ih := gen_memw_run_eq growable ops (m.step op).2 (B + 1) (by rw [f1, hs]) f2 f3 hsk.tail
      (by omega)
    simp only [runMem, h1, ih]

/-- **C13, readers, generated bodies.**  Any sequence of `read_word` / `set_word_pos` / `word_pos`
    calls on the generated `MemWordReader` (zero-extended or strict) answers as the specification
    "array + cursor" does, and ends in the specification's final state. -/
theorem gen_memr_ops_refine (strict : Bool) (m : MemR W) (hs : m.strict = strict) (ops : List (MemOp W))
    (hops : ∀ op ∈ ops, op.forReader = true) (B : Nat) (hp : m.pos ≤ B) (hl : m.data.length ≤ B)
    (hsk : SeeksLe B ops) (hB : B + ops.length < 2 ^ 64) :
    (runMem (genStepR strict) m ops).1 = (runMem ArrCur.step (absR m) ops).1 ∧
    absR (runMem (genStepR strict) m ops).2 = (runMem ArrCur.step (absR m) ops).2 := by
  rw [gen_memr_run_eq strict ops m B hs hops hp hl hsk hB]
  exact memr_ops_refine m ops hops

/-- **C13, writers, generated bodies.**  Any sequence of `read_word` / `write_word` /
    `set_word_pos` / `word_pos` / `len` calls on the generated `MemWordWriterVec` /
    `MemWordWriterSlice` answers as the specification does, and ends in its final state. -/
theorem gen_memw_ops_refine (growable : Bool) (m : MemW W) (hg : m.growable = growable)
    (ops : List (MemOp W)) (B : Nat) (hp : m.pos ≤ B) (hl : m.data.length ≤ B)
    (hsk : SeeksLe B ops) (hB : B + ops.length < 2 ^ 64) :
    (runMem (genStepW growable) m ops).1 = (runMem ArrCur.step (absW m) ops).1 ∧
    absW (runMem (genStepW growable) m ops).2 = (runMem ArrCur.step (absW m) ops).2 := by
  rw [gen_memw_run_eq growable ops m B hg hp hl hsk hB]
  exact memw_ops_refine m ops

/-! ### non-vacuity -/

/-- strict reader over `[7, 9]`: read, read, read (error, cursor stays), seek beyond the end
    (rejected), position, seek 1, read -/
example : (runMem (genStepR true) ({ data := [7#8, 9#8], strict := true } : MemR 8)
      [.read, .read, .read, .seek 3, .pos, .seek 1, .read]).1
    = [.ok (some 7), .ok (some 9), .err .eof, .err .eof, .ok (some 2), .ok none, .ok (some 9)] := rfl

example : (runMem (genStepR true) ({ data := [7#8, 9#8], strict := true } : MemR 8)
      [.read, .read, .read, .seek 3, .pos, .seek 1, .read]).1
    = (runMem ArrCur.step (absR ({ data := [7#8, 9#8], strict := true } : MemR 8))
      ([.read, .read, .read, .seek 3, .pos, .seek 1, .read] : List (MemOp 8))).1 :=
  (gen_memr_ops_refine true _ rfl _ (by decide) 3 (by decide) (by decide)
    (by intro p hp; simp at hp; omega) (by decide)).1

/-- zero-extended reader: zeros beyond the end, any position accepted -/
example : (runMem (genStepR false) ({ data := [7#8], strict := false } : MemR 8)
      [.seek 5, .read, .pos]).1 = [.ok none, .ok (some 0), .ok (some 6)] := rfl

/-- vector writer: a write at the end grows the vector; slice writer: an error, cursor unchanged -/
example : (runMem (genStepW true) ({ data := [1#8], growable := true } : MemW 8)
      [.seek 1, .write 5#8, .len, .seek 0, .read, .pos]).1
    = [.ok none, .ok none, .ok (some 2), .ok none, .ok (some 1), .ok (some 1)] := rfl

example : (runMem (genStepW false) ({ data := [1#8], growable := false } : MemW 8)
      [.seek 1, .write 5#8, .pos, .len]).1 = [.ok none, .err .eof, .ok (some 1), .ok (some 1)] := rfl

example (ops : List (MemOp 8)) (h1 : SeeksLe 1000 ops) (h2 : ops.length < 1000) :
    (runMem (genStepW true) ({ data := [1#8], growable := true } : MemW 8) ops).1
      = (runMem ArrCur.step (absW ({ data := [1#8], growable := true } : MemW 8)) ops).1 :=
  (gen_memw_ops_refine true _ rfl ops 1000 (by decide) (by decide) h1 (by omega)).1

end Headline2
end Dsi
