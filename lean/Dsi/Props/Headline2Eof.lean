/-
  Headline theorems for C09 (end of stream: data is never fabricated and the tail is never lost),
  stated over the generated `BufBitReader` / `BitReader` (`genRImpl e`, `genBitRImpl e`: the bodies
  regenerated from src/impls/buf_bit_reader.rs, bit_reader.rs on this run) over a memory backend
  `⟨data, 0, strict⟩` (`strict = true`: `MemWordReaderStrict`, errors beyond the end;
  `strict = false`: `MemWordReader`, zero-extended).

  `bits = data.flatMap (wordBits e)` is the stream, `L = data.length * W` its length.  For a state
  `s1` reached by ANY generated program from a fresh reader, there is a position `pos` (the number
  of bits consumed: the cursor of the reference reader, and what the generated `bit_pos` answers)
  such that for every primitive operation (`EofExact`):
  * `read_bits(n)` / `peek_bits(n)` / `skip_bits(n)`: the outcome is `Err(UnexpectedEof)` if the
    backend is strict and the request crosses the end (`L < pos + n`), and otherwise (`Ok`) the
    value of the next `n` stream bits, zeros beyond the end (`takeZ n (bits.drop pos)`): exactly one
    of the two, so an error is returned EXACTLY when a bit beyond the end of a strict stream is
    needed, and a zero-extended backend never fails;
  * `read_unary`: the number of zeros before the next one if there is a one ahead, and
    `Err(UnexpectedEof)` on a strict stream without one.
  (`gen_eof_exact`; `gen_bitr_eof_exact` for the unbuffered reader.)  Codes lying entirely within
  the data decode correctly on a strict backend, through the tables too: `Headline.gen_code_roundtrip`
  with `strict := true` (registered under C03).

  Hypotheses: those of C07 (`PeekBounded`, `e = .be → W ≤ 64`, `hfit`), see Props/Headline2Seek.lean.
-/
import Dsi.Lemmas.Headline2Reader
namespace Dsi
namespace Headline2
open Headline
variable {W : Nat}

theorem resRel_err_left {α β : Type} {R : α → β → Prop} {x : Res α} {er : Err}
    (h : ResRel R x (.err er)) : x = .err er := by
  cases x <;> simp only [ResRel] at h
  rw [h]

theorem resRel_ok_left {α β : Type} {R : α → β → Prop} {x : Res α} {b : β}
    (h : ResRel R x (.ok b)) : ∃ a, x = .ok a ∧ R a b := by
  cases x <;> simp only [ResRel] at h
  exact ⟨_, rfl, h⟩

/-- the operations of a bit reader `I` at state `s` behave as a cursor at bit `pos` of `bits`
    (`L = bits.length`), strict or zero-extended; `peekMax`: the look-ahead capacity -/
structure EofExact {σ : Type} (I : RImpl σ) (e : Endian) (bits : List Bool) (strict : Bool)
    (peekMax : Nat) (s : σ) (pos : Nat) : Prop where
  readBits : ∀ n, n ≤ 64 →
    (strict = true ∧ bits.length < pos + n ∧ I.readBits s n = .err .eof) ∨
    (¬ (strict = true ∧ bits.length < pos + n) ∧
      ∃ s2, I.readBits s n = .ok (bitsVal e (takeZ n (bits.drop pos)), s2))
  peekBits : ∀ n, 1 ≤ n → n ≤ peekMax →
    (strict = true ∧ bits.length < pos + n ∧ I.peekBits s n = .err .eof) ∨
    (¬ (strict = true ∧ bits.length < pos + n) ∧
      ∃ s2, I.peekBits s n = .ok (bitsVal e (takeZ n (bits.drop pos)), s2))
  readUnary :
    (∀ z, RefR.firstOne (bits.drop pos) = some z → ∃ s2, I.readUnary s = .ok (z, s2)) ∧
    (RefR.firstOne (bits.drop pos) = none → strict = true → I.readUnary s = .err .eof)

/-- what the reference reader answers -/
theorem ref_readBits_cases (r : RefR) {n : Nat} (hn : n ≤ 64) :
    (r.strict = true ∧ r.stream.length < r.pos + n ∧ RefR.readBits r n = .err .eof) ∨
    (¬ (r.strict = true ∧ r.stream.length < r.pos + n) ∧
      RefR.readBits r n = .ok (bitsVal r.e (takeZ n (r.stream.drop r.pos)), { r with pos := r.pos + n })) := by
  unfold RefR.readBits
  rw [if_neg (by omega)]
  by_cases hav : r.avail n = true
  · right
    rw [if_pos hav]
    refine ⟨?_, rfl⟩
    rintro ⟨hs, hl⟩
    simp only [RefR.avail, hs, Bool.not_true, Bool.false_or, decide_eq_true_eq] at hav
    omega
  · left
    rw [if_neg hav]
    simp only [RefR.avail, Bool.or_eq_true, Bool.not_eq_eq_eq_not, Bool.not_true, decide_eq_true_eq,
      not_or, Bool.not_eq_false] at hav
    exact ⟨hav.1, by omega, rfl⟩

theorem ref_peekBits_cases (r : RefR) {n : Nat} (h1 : 1 ≤ n) (hn : n ≤ r.peekMax) :
    (r.strict = true ∧ r.stream.length < r.pos + n ∧ RefR.peekBits r n = .err .eof) ∨
    (¬ (r.strict = true ∧ r.stream.length < r.pos + n) ∧
      RefR.peekBits r n = .ok (bitsVal r.e (takeZ n (r.stream.drop r.pos)), r)) := by
  unfold RefR.peekBits
  rw [if_neg (by omega)]
  by_cases hav : r.avail n = true
  · right
    rw [if_pos hav]
    refine ⟨?_, rfl⟩
    rintro ⟨hs, hl⟩
    simp only [RefR.avail, hs, Bool.not_true, Bool.false_or, decide_eq_true_eq] at hav
    omega
  · left
    rw [if_neg hav]
    simp only [RefR.avail, Bool.or_eq_true, Bool.not_eq_eq_eq_not, Bool.not_true, decide_eq_true_eq,
      not_or, Bool.not_eq_false] at hav
    exact ⟨hav.1, by omega, rfl⟩

/-- from per-operation simulations of the reference reader at `r` -/
theorem eofExact_of_sim {σ : Type} {I : RImpl σ} {Q : σ → RefR → Prop} {s : σ} {r : RefR}
    (hrb : ∀ n, n ≤ 64 → ResRel (fun (x : Nat × σ) (y : Nat × RefR) => x.1 = y.1 ∧ Q x.2 y.2)
      (I.readBits s n) (RefR.readBits r n))
    (hpk : ∀ n, 1 ≤ n → n ≤ r.peekMax →
      ResRel (fun (x : Nat × σ) (y : Nat × RefR) => x.1 = y.1 ∧ Q x.2 y.2)
        (I.peekBits s n) (RefR.peekBits r n))
    (hun : ResRel (fun (x : Nat × σ) (y : Nat × RefR) => x.1 = y.1 ∧ Q x.2 y.2)
      (I.readUnary s) (RefR.readUnary r)) :
    EofExact I r.e r.stream r.strict r.peekMax s r.pos := by
  refine ⟨?_, ?_, ?_, ?_⟩
  · intro n hn
    have h := hrb n hn
    rcases ref_readBits_cases r hn with ⟨h1, h2, h3⟩ | ⟨h1, h3⟩
    · rw [h3] at h; exact Or.inl ⟨h1, h2, resRel_err_left h⟩
    · rw [h3] at h
      obtain ⟨⟨v, s2⟩, hx, hv, _⟩ := resRel_ok_left h
      exact Or.inr ⟨h1, s2, by rw [hx]; exact congrArg (fun t => Res.ok (t, s2)) hv⟩
  · intro n h1 hn
    have h := hpk n h1 hn
    rcases ref_peekBits_cases r h1 hn with ⟨h1, h2, h3⟩ | ⟨h1, h3⟩
    · rw [h3] at h; exact Or.inl ⟨h1, h2, resRel_err_left h⟩
    · rw [h3] at h
      obtain ⟨⟨v, s2⟩, hx, hv, _⟩ := resRel_ok_left h
      exact Or.inr ⟨h1, s2, by rw [hx]; exact congrArg (fun t => Res.ok (t, s2)) hv⟩
  · intro z hz
    have h := hun
    unfold RefR.readUnary RefR.rest at h
    rw [hz] at h
    obtain ⟨⟨v, s2⟩, hx, hv, _⟩ := resRel_ok_left h
    exact ⟨s2, by rw [hx]; exact congrArg (fun t => Res.ok (t, s2)) hv⟩
  · intro hz hs
    have h := hun
    unfold RefR.readUnary RefR.rest at h
    rw [hz] at h
    simp only [hs, if_true] at h
    exact resRel_err_left h

/-! ## the buffered reader -/

/-- `skip_bits(n)` on the generated buffered reader: `Err(UnexpectedEof)` exactly when it leaves a
    strict stream -/
def SkipExact {σ : Type} (I : RImpl σ) (L : Nat) (strict : Bool) (s : σ) (pos : Nat) : Prop :=
  ∀ n, (strict = true ∧ L < pos + n ∧ I.skipBits s n = .err .eof) ∨
    (¬ (strict = true ∧ L < pos + n) ∧ ∃ s2, I.skipBits s n = .ok s2)

theorem eof_of_ginv {e : Endian} (hW64 : e = .be → W ≤ 64) {s : BufR W} {r : RefR} (hi : GInv e s r) :
    EofExact (genRImpl e) r.e r.stream r.strict r.peekMax s r.pos ∧
    SkipExact (genRImpl e) r.stream.length r.strict s r.pos := by
  constructor
  · apply eofExact_of_sim (Q := BufR.Rel e)
    · intro n _
      rw [genR_readBits e s hi.2]
      exact (readBits_sim hW64 hi.1 n).mono_rr (fun _ _ h => h)
    · intro n _ hn
      rw [genR_peekBits e s hi.2]
      exact (peekBits_sim hi.1 (by rw [← hi.1.2.2.2.2.1]; exact hn)).mono_rr (fun _ _ h => h)
    · rw [genR_readUnary e s hi.2]
      exact (readUnary_sim hi.1).mono_rr (fun _ _ h => h)
  · intro n
    have h := skipBits_sim hi.1 n
    rw [← genR_skipBits e s hi.2] at h
    unfold RefR.skipBits at h
    by_cases hav : r.avail n = true
    · right
      rw [if_pos hav] at h
      obtain ⟨s2, hx, _⟩ := resRel_ok_left h
      refine ⟨?_, s2, hx⟩
      rintro ⟨hs, hl⟩
      simp only [RefR.avail, hs, Bool.not_true, Bool.false_or, decide_eq_true_eq] at hav
      omega
    · left
      rw [if_neg hav] at h
      simp only [RefR.avail, Bool.or_eq_true, Bool.not_eq_eq_eq_not, Bool.not_true, decide_eq_true_eq,
        not_or, Bool.not_eq_false] at hav
      exact ⟨hav.1, by omega, resRel_err_left h⟩

/-- **C09, generated `BufBitReader`.**  After any generated program from a fresh reader over the
    memory backend `⟨data, 0, strict⟩`: with `pos` the number of bits consumed (what the generated
    `bit_pos` answers), every `read_bits` / `peek_bits` / `skip_bits` request returns
    `Err(UnexpectedEof)` exactly when the backend is strict and the request crosses the end of the
    data, and otherwise the next bits of the stream (zeros beyond the end of a zero-extended
    backend, which therefore never fails); `read_unary` finds the next one, or fails on a strict
    stream without one. -/
theorem gen_eof_exact {α : Type} (e : Endian) (hW : 0 < W) (hW64 : e = .be → W ≤ 64)
    (data : List (BitVec W)) (strict : Bool) (hfit : data.length * W + 4 * W < 2 ^ 64)
    (p : RProg α) (hp : PeekBounded W 0 p) {a : α} {s1 : BufR W}
    (hrun : p.run (genRImpl e) (BufR.new ⟨data, 0, strict⟩) = .ok (a, s1)) :
    ∃ pos, (∃ r', p.run RefR.impl (refAt e data strict W 0) = .ok (a, r') ∧ r'.pos = pos) ∧
      (strict = true → pos ≤ data.length * W) ∧
      ((strict = true ∨ pos + 2 * W ≤ 2 ^ 64) → GenBufR.genBitPos e s1 = .ok (pos, s1)) ∧
      EofExact (genRImpl e) e (data.flatMap (wordBits e)) strict W s1 pos ∧
      SkipExact (genRImpl e) (data.length * W) strict s1 pos := by
  obtain ⟨r1, hr1, hi1⟩ := gen_run_ok hW64 p hp (ginv_new e hW data strict hfit) hrun
  have hr1' := ref_run_refAt hr1
  obtain ⟨h1, h2⟩ := eof_of_ginv hW64 hi1
  rw [hr1'] at h1 h2
  have hlen : (data.flatMap (wordBits e)).length = data.length * W := length_flatMap_wordBits e data
  refine ⟨r1.pos, ⟨r1, hr1, rfl⟩, ?_, ?_, h1, ?_⟩
  · intro hs
    have hle := hi1.1.2.2.2.2.2.2.2.1 (by rw [← hi1.1.2.2.2.1, hr1']; exact hs)
    have hd := ginv_data_length (ginv_new e hW data strict hfit).1 hi1.1 (by rw [hr1']; rfl)
    have hpp := hi1.1.2.2.2.2.2.2.1
    have hd' : s1.back.data.length = data.length := hd
    have := Nat.mul_le_mul_right W hle
    rw [hd'] at this
    omega
  · intro hf
    apply gen_bitPos_ginv hi1
    rcases hf with h | h
    · left; rw [hr1']; exact h
    · right; exact h
  · have : (refAt e data strict W r1.pos).stream.length = data.length * W := hlen
    rw [this] at h2
    exact h2

/-! ## the unbuffered reader -/

/-- **C09, generated unbuffered `BitReader`** (its `skip_bits` never fails; a read after a skip
    beyond the end of a strict stream is not covered here: the reference reader is not defined
    there, see `bitr_skipBits_beyond`). -/
theorem gen_bitr_eof_exact {α : Type} (e : Endian) (data : List (BitVec 64)) (strict : Bool)
    (p : RProg α) (hok : BitROK strict p) {a : α} {r1 : RefR}
    (href : p.run RefR.impl (refAt e data strict 32 0) = .ok (a, r1))
    (hfit : r1.pos + (data.length + 3) * 64 < 2 ^ 64) :
    ∃ s1, p.run (genBitRImpl e) { data := ⟨data, 0, strict⟩ } = .ok (a, s1) ∧
      genBitRBitPos e s1 = .ok (r1.pos, s1) ∧
      EofExact (genBitRImpl e) e (data.flatMap (wordBits e)) strict 32 s1 r1.pos := by
  obtain ⟨s1, hs1, hi1, hd1⟩ := gen_bitr_run_of_ref_ok p (bitr_new_rel e data 0 strict) hok href hfit
  have hr1' := ref_run_refAt href
  have hd1' : s1.data.data.length = data.length := by rw [hd1]
  have hix : s1.bitIndex = r1.pos := hi1.1.2.2.2.2.symm
  refine ⟨s1, hs1, genBitRBitPos_rel hi1.1 (by omega), ?_⟩
  have := eofExact_of_sim (I := genBitRImpl e) (Q := BitR.Rel' e) (s := s1) (r := r1)
    (by
      intro n hn
      rw [genBitRImpl_eq]
      exact (GenBitR.gen_bitr_readBits_sim hi1 hn (by omega)).mono_rr (fun _ _ h => h))
    (by
      intro n h1 hn
      rw [genBitRImpl_eq]
      have hpm : r1.peekMax = 32 := by rw [hr1']; rfl
      exact (GenBitR.gen_bitr_peekBits_sim hi1 h1 (by omega) (by omega)).mono_rr (fun _ _ h => h))
    (by
      rw [genBitRImpl_eq]
      exact (GenBitR.gen_bitr_readUnary_sim hi1 (by omega)).mono_rr (fun _ _ h => h))
  rw [hr1'] at this
  exact this

/-! ## non-vacuity -/

/-- strict 3-byte stream, 17 bits consumed by the mixed program of Props/Reader.lean: a 7-bit read
    fits, an 8-bit read crosses the end -/
example : ∃ s1 : BufR 8,
    readerExProg.run (genRImpl .be) (BufR.new ⟨[0xA5#8, 0x3C#8, 0xF0#8], 0, true⟩) = .ok (309, s1) ∧
    GenBufR.genBitPos .be s1 = .ok (17, s1) ∧
    (∃ s2, (genRImpl .be).readBits s1 7 = .ok (0x70, s2)) ∧
    (genRImpl .be).readBits s1 8 = .err .eof ∧
    (genRImpl .be).peekBits s1 8 = .err .eof ∧
    (genRImpl .be).skipBits s1 8 = .err .eof :=
  ⟨_, rfl, rfl, ⟨_, rfl⟩, rfl, rfl, rfl⟩

/-- the same on the zero-extended backend: zeros beyond the end, never an error -/
example : ∃ s1 : BufR 8,
    readerExProg.run (genRImpl .be) (BufR.new ⟨[0xA5#8, 0x3C#8, 0xF0#8], 0, false⟩) = .ok (309, s1) ∧
    (∃ s2, (genRImpl .be).readBits s1 8 = .ok (0xE0, s2)) ∧
    (∃ s2, (genRImpl .be).skipBits s1 100 = .ok s2) :=
  ⟨_, rfl, ⟨_, rfl⟩, ⟨_, rfl⟩⟩

example (e : Endian) {s1 : BufR 8} {a : Nat}
    (hrun : readerExProg.run (genRImpl e) (BufR.new ⟨[0xA5#8, 0x3C#8, 0xF0#8], 0, true⟩) = .ok (a, s1)) :
    ∃ pos, pos ≤ 24 ∧ GenBufR.genBitPos e s1 = .ok (pos, s1) ∧
      EofExact (genRImpl e) e ([0xA5#8, 0x3C#8, 0xF0#8].flatMap (wordBits e)) true 8 s1 pos := by
  obtain ⟨pos, _, h1, h2, h3, _⟩ := gen_eof_exact e (by decide) (fun _ => by decide) _ true (by decide)
    readerExProg readerExProg_bounded hrun
  exact ⟨pos, h1 rfl, h2 (Or.inl rfl), h3⟩

/-- the unbuffered reader at bit 61 of a strict two-word stream -/
example (e : Endian) {a : Nat} {r1 : RefR}
    (href : (RProg.rbits 61).run RefR.impl (refAt e bitrExData true 32 0) = .ok (a, r1))
    (hfit : r1.pos + (bitrExData.length + 3) * 64 < 2 ^ 64) :
    ∃ s1, (RProg.rbits 61).run (genBitRImpl e) { data := ⟨bitrExData, 0, true⟩ } = .ok (a, s1) ∧
      genBitRBitPos e s1 = .ok (r1.pos, s1) ∧
      EofExact (genBitRImpl e) e (bitrExData.flatMap (wordBits e)) true 32 s1 r1.pos := by
  refine gen_bitr_eof_exact e bitrExData true _ ?_ href hfit
  exact ⟨⟨by decide, fun _ => trivial⟩, Or.inl (fun _ => trivial)⟩

end Headline2
end Dsi
