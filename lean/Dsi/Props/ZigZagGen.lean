/-
  The generated zig-zag maps (lean/Dsi/Gen/ZigZagBodies.lean, produced by tools/translate_zigzag.py
  from the provided methods of `ToInt` / `ToNat` in src/codes/mod.rs on every run) against the
  hand-written `zzToInt` / `zzToNat` of lean/Dsi/Glue/ZigZag.lean, the functions the C17 theorems
  (lean/Dsi/Props/C17.lean) are about:

  * the provided methods, translated operator by operator, are `zzToInt` / `zzToNat` on every width;
  * the function of every implementing type (`impl ToInt for uN`, `impl ToNat for iN`: the provided
    method, or the translation of an overriding body) is `zzToInt` / `zzToNat` at that width;
  * the implementing types are exactly the primitive integers of widths 8, 16, 32, 64, 128 and
    `usize` / `isize` (64 bits).
-/
import Dsi.Glue.ZigZag
import Dsi.Gen.ZigZagBodies
import Dsi.Props.C17
namespace Dsi
namespace ZigZagGen
open Gen.ZigZag

/-- `Self::ONE` as a shift amount -/
theorem one_toNat {w : Nat} (h : 0 < w) : (1#w).toNat = 1 := by
  rw [BitVec.toNat_ofNat]
  exact Nat.mod_eq_of_lt (Nat.one_lt_two_pow (by omega))

/-- the provided `ToInt::to_int` is `zzToInt`, on every width -/
theorem to_int_eq {w : Nat} (x : BitVec w) : to_int x = zzToInt x := by
  rcases Nat.eq_zero_or_pos w with h | h
  · subst h; exact Subsingleton.elim _ _
  · unfold to_int zzToInt
    rw [one_toNat h]
    rfl

/-- the provided `ToNat::to_nat` is `zzToNat`, on every width -/
theorem to_nat_eq {w : Nat} (x : BitVec w) : to_nat x = zzToNat x := by
  rcases Nat.eq_zero_or_pos w with h | h
  · subst h; exact Subsingleton.elim _ _
  · unfold to_nat zzToNat
    rw [one_toNat h]

/-! ### every implementing type -/

theorem to_int_u8_eq : to_int_u8 = zzToInt := funext fun x => to_int_eq x
theorem to_int_u16_eq : to_int_u16 = zzToInt := funext fun x => to_int_eq x
theorem to_int_u32_eq : to_int_u32 = zzToInt := funext fun x => to_int_eq x
theorem to_int_u64_eq : to_int_u64 = zzToInt := funext fun x => to_int_eq x
theorem to_int_usize_eq : to_int_usize = zzToInt := funext fun x => to_int_eq x
theorem to_int_u128_eq : to_int_u128 = zzToInt := funext fun x => to_int_eq x

theorem to_nat_i8_eq : to_nat_i8 = zzToNat := funext fun x => to_nat_eq x
theorem to_nat_i16_eq : to_nat_i16 = zzToNat := funext fun x => to_nat_eq x
theorem to_nat_i32_eq : to_nat_i32 = zzToNat := funext fun x => to_nat_eq x
theorem to_nat_i64_eq : to_nat_i64 = zzToNat := funext fun x => to_nat_eq x
theorem to_nat_isize_eq : to_nat_isize = zzToNat := funext fun x => to_nat_eq x
theorem to_nat_i128_eq : to_nat_i128 = zzToNat := funext fun x => to_nat_eq x

/-- the implementing types: exactly the primitive integers (`usize` / `isize`: 64 bits), so the
    twelve theorems above cover every `impl` -/
theorem impls_eq :
    toIntImpls = [("u8", 8), ("u16", 16), ("u32", 32), ("u64", 64), ("usize", 64), ("u128", 128)] ∧
    toNatImpls = [("i8", 8), ("i16", 16), ("i32", 32), ("i64", 64), ("isize", 64), ("i128", 128)] :=
  ⟨rfl, rfl⟩

/-- the widths with an implementation are the same on both sides, so `to_nat` and `to_int` of a
    width are always both available -/
theorem impl_widths :
    toIntImpls.map (·.2) = [8, 16, 32, 64, 64, 128] ∧ toNatImpls.map (·.2) = toIntImpls.map (·.2) :=
  ⟨rfl, rfl⟩

/-- the C17 theorems, restated for the generated functions: mutually inverse on every width, and
    the documented integer mapping -/
theorem gen_roundtrip {w : Nat} (x : BitVec w) : to_int (to_nat x) = x ∧ to_nat (to_int x) = x := by
  rw [to_nat_eq, to_int_eq, to_int_eq, to_nat_eq]
  exact ⟨zz_toInt_toNat x, zz_toNat_toInt x⟩

theorem gen_spec {w : Nat} (x : BitVec w) : ((to_nat x).toNat : Int) = zzSpec x.toInt := by
  rw [to_nat_eq]; exact zz_spec x

end ZigZagGen
end Dsi
