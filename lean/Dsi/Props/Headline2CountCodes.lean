/-
  Headline theorems for C14, codes: the counting wrappers around the generated readers / writers of
  the codes, everything generated.

  How a code operation reaches the stream through `CountBitReader` / `CountBitWriter`:
  * γ, δ, ζ: the wrappers implement `GammaRead`, `DeltaRead`, `ZetaRead` (`read_zeta(k)`,
    `read_zeta3()`) and the `…Write` counterparts themselves: they call the wrapped object's method
    and add `len_<code>(value)` (readers) / the returned count (writers):
    `Gen.CountBitReader.read_gamma inner_read_gamma …` (lean/Dsi/Gen/CountBodies.lean) with
    `inner_read_gamma` the generated trait method of the generated `BufBitReader`
    (`(genOwnRead e ⟨.gamma, 0⟩).run (genRImpl e)`), and so on;
  * every other code (and these too, through the blanket impls): the generated reader program of the
    code run on the wrapper's own `BitRead` impl (`genCountRImpl (genRImpl e) P`), which counts each
    `read_bits` / `read_unary` / `skip_bits_after_peek` and not the peeks.
  In both cases, on any byte image holding the published codeword of `v` at any bit offset, the
  value is `v`, the inner reader ends where it ends without the wrapper, and the counter has grown by
  exactly the length of the codeword — the number of bits consumed, the growth of the generated
  `bit_pos` (`gen_countr_code_exact`, `gen_countr_forward_exact`, `gen_countr_zeta3_exact`).
  Writers: `gen_countw_forward_exact` (the four specialised methods add exactly the length of the
  codeword they write); every other code writer is a program over the wrapper's `BitWrite` impl and
  is covered by `gen_countw_exact` (Props/Headline2Count.lean).
-/
import Dsi.Props.Headline2ReadBytes
import Dsi.Lemmas.Headline2Count
import Dsi.Lemmas.Headline2Writer
import Dsi.Props.Glue2
namespace Dsi
namespace Headline2
open Headline E2E TrL EqvL CodeBodiesGen Gen SmallL

theorem forward_ok {ρ : Type} (ri : RImpl ρ) (p : RProg Nat) (len : Nat → Nat) {s s2 : ρ} {v k : Nat}
    (h : p.run ri s = .ok (v, s2)) : CountR.forward ri p len ⟨s, k⟩ = .ok (v, ⟨s2, k + len v⟩) := by
  unfold CountR.forward
  rw [h]; rfl

theorem forwardW_ok {ω : Type} (wi : WImpl ω) (p : WProg Nat) {t t2 : ω} {n k : Nat}
    (h : p.run wi t = .ok (n, t2)) : CountW.forward wi p ⟨t, k⟩ = .ok (n, ⟨t2, k + n⟩) := by
  unfold CountW.forward
  rw [h]; rfl

/-! ## readers -/

section readers
variable (e : Endian) {Wr : Nat} (hWr : 0 < Wr) (h8r : 8 ∣ Wr) (hW64 : e = .be → Wr ≤ 64)
  (strict P : Bool) (bytes : List Nat) (hbytes : ∀ b ∈ bytes, b < 256) (pre post : List Bool)
include hWr h8r hW64 hbytes

/-- **C14, any code, through the wrapper's `BitRead` impl.**  On a byte image whose bits are
    `pre ++ cw ++ post` (`cw` the codeword of `v` in the code `c`), after the generated
    `skip_bits(pre.len())` on the inner generated reader: the generated reader of `c` run on the
    generated counting wrapper (counter `k0`) returns `v`, leaves the inner reader where the
    unwrapped run leaves it, and the counter is `k0 + cw.len()`: it grew by the bits consumed. -/
theorem gen_countr_code_exact (hW12 : tablePeek ≤ Wr) (c : CodeId) (v : Nat) (hd : c.Dom v)
    {cw : List Bool} (hcw : c.codeword e v = some cw)
    (hbits : bitsOfBytes e bytes = pre ++ cw ++ post)
    (hfit : (pre ++ cw ++ post).length + 5 * Wr < 2 ^ 64) (k0 : Nat) :
    ∃ (s1 s2 : BufR Wr),
      (genRImpl e).skipBits (BufR.new ⟨wordsOfBytes e Wr (padTo (Wr / 8) bytes), 0, strict⟩) pre.length
        = .ok s1 ∧
      (genOwnRead e c).run (genRImpl e) s1 = .ok (v, s2) ∧
      (genOwnRead e c).run (genCountRImpl (genRImpl e) P) ⟨s1, k0⟩ = .ok (v, ⟨s2, k0 + cw.length⟩) ∧
      GenBufR.genBitPos e s2 = .ok (pre.length + cw.length, s2) := by
  obtain ⟨cw2, hcw2, hrd⟩ := ownRead_reads e c v hd
  rw [hcw] at hcw2
  cases Option.some.inj hcw2
  have hpb := (rside_ownRead e c hd).pb Wr hW12
  obtain ⟨s1, s2, zeros, h1, h2, h3, hrel1, hi1, h6, h7, hbp⟩ :=
    gen_read_bytes_core e hWr h8r hW64 strict bytes hbytes pre cw post hrd hW12 hpb
      (genOwnRead_guarded e c) (genOwnRead_peekLe e c hW12) hbits hfit
  refine ⟨s1, s2, h1, h2, ?_, h3⟩
  rw [genCountRImpl_eq,
    rrun_congr (ragree_gen (W := Wr) e).count (genOwnRead e c) (⟨s1, k0⟩ : CountR (BufR Wr)) hi1
      (genOwnRead_peekLe e c hW12)]
  -- the hand-written program through the wrapper, then `Guarded`
  obtain ⟨htr, _, hex⟩ := countr_concrete hW64 (ownRead e c) hpb hrel1 k0
  rw [h6] at htr
  cases hx : (ownRead e c).run (CountR.impl (BufR.impl e)) ⟨s1, k0⟩ with
  | ok x =>
    obtain ⟨a, ⟨s', c'⟩⟩ := x
    rw [hx] at htr
    simp only [rmap_ok, Res.ok.injEq, Prod.mk.injEq] at htr
    obtain ⟨ha, hs'⟩ := htr
    subst ha; subst hs'
    obtain ⟨hc, _⟩ := hex a s' c' hx
    have hb1 : s1.bitPos = pre.length := bitPos_eq hrel1
    have hc' : c' = k0 + cw.length := by omega
    subst hc'
    have hg := Bounded.guarded_countR_bufR (genOwnRead_guarded e c) e (⟨s1, k0⟩ : CountR (BufR Wr))
      (Bounded.binv_of_rel hrel1)
    unfold Bounded.AgreeOffPanic at hg
    rw [hx] at hg
    rcases hg with h | h | h
    · cases h
    · cases h
    · exact h.symm
  | err _ => rw [hx] at htr; cases htr
  | panic => rw [hx] at htr; cases htr
  | dpanic => rw [hx] at htr; cases htr

/-- the specialised `GammaRead` / `DeltaRead` / `ZetaRead::read_zeta` impls of the generated
    `CountBitReader`, over the generated trait methods of the generated `BufBitReader` -/
def genCountReadForward (c : CodeId) (x : CountR (BufR Wr)) : Res (Nat × CountR (BufR Wr)) :=
  match c.fam with
  | .gamma => Gen.CountBitReader.read_gamma (fun i => (genOwnRead e ⟨.gamma, 0⟩).run (genRImpl e) i) P x
  | .delta => Gen.CountBitReader.read_delta (fun i => (genOwnRead e ⟨.delta, 0⟩).run (genRImpl e) i) P x
  | .zeta => Gen.CountBitReader.read_zeta (fun i k => (genOwnRead e ⟨.zeta, k⟩).run (genRImpl e) i) P x c.p
  | _ => .panic     -- no specialised impl: see `gen_countr_code_exact`

omit hWr h8r hW64 hbytes in
theorem genCountReadForward_eq (c : CodeId) (hc : c = ⟨.gamma, 0⟩ ∨ c = ⟨.delta, 0⟩ ∨ c.fam = .zeta)
    (x : CountR (BufR Wr)) :
    genCountReadForward e P c x = CountR.forward (genRImpl e) (genOwnRead e c) (genOwnLen c) x := by
  rcases hc with rfl | rfl | hz
  · exact CountGen.read_gamma_eq' _ _ P x
  · exact CountGen.read_delta_eq' _ _ P x
  · obtain ⟨fam, p⟩ := c
    cases hz
    exact CountGen.read_zeta_eq' _ (fun k => genOwnRead e ⟨.zeta, k⟩) P x p

/-- **C14, `read_gamma` / `read_delta` / `read_zeta(k)` of the generated `CountBitReader`**: same
    value and inner state as the wrapped reader's method, and the counter grows by the length of the
    codeword consumed. -/
theorem gen_countr_forward_exact (hW12 : tablePeek ≤ Wr) (c : CodeId)
    (hc : c = ⟨.gamma, 0⟩ ∨ c = ⟨.delta, 0⟩ ∨ c.fam = .zeta) (v : Nat) (hd : c.Dom v)
    {cw : List Bool} (hcw : c.codeword e v = some cw)
    (hbits : bitsOfBytes e bytes = pre ++ cw ++ post)
    (hfit : (pre ++ cw ++ post).length + 5 * Wr < 2 ^ 64) (k0 : Nat) :
    ∃ (s1 s2 : BufR Wr),
      (genRImpl e).skipBits (BufR.new ⟨wordsOfBytes e Wr (padTo (Wr / 8) bytes), 0, strict⟩) pre.length
        = .ok s1 ∧
      (genOwnRead e c).run (genRImpl e) s1 = .ok (v, s2) ∧
      genCountReadForward e P c ⟨s1, k0⟩ = .ok (v, ⟨s2, k0 + cw.length⟩) ∧
      GenBufR.genBitPos e s2 = .ok (pre.length + cw.length, s2) := by
  obtain ⟨s1, s2, h1, h2, h3⟩ := gen_code_read_bytes e hWr h8r hW64 hW12 strict bytes hbytes pre post
    c v hd hcw hbits hfit
  refine ⟨s1, s2, h1, h2, ?_, h3⟩
  rw [genCountReadForward_eq e P c hc, forward_ok _ _ _ h2, gen_len_eq' e c v hd hcw]

/-- **C14, `read_zeta3` of the generated `CountBitReader`** over the generated (table-capable,
    flag from the generated `Params`) `read_zeta3` of the generated `BufBitReader`. -/
theorem gen_countr_zeta3_exact (hWt : Params.readZeta3Table = true → Zeta.READ_BITS ≤ Wr) (n : Nat)
    (hn : n < 2 ^ 64 - 1)
    (hbits : bitsOfBytes e bytes = pre ++ Spec.zetaWrapped e 3 n ++ post)
    (hfit : (pre ++ Spec.zetaWrapped e 3 n ++ post).length + 5 * Wr < 2 ^ 64) (k0 : Nat) :
    ∃ (s1 s2 : BufR Wr),
      (genRImpl e).skipBits (BufR.new ⟨wordsOfBytes e Wr (padTo (Wr / 8) bytes), 0, strict⟩) pre.length
        = .ok s1 ∧
      Gen.CountBitReader.read_zeta3
        (fun i => (TableFnsGen.readZeta3Param e Params.readZeta3Table).run (genRImpl e) i) P ⟨s1, k0⟩
        = .ok (n, ⟨s2, k0 + (Spec.zetaWrapped e 3 n).length⟩) ∧
      GenBufR.genBitPos e s2 = .ok (pre.length + (Spec.zetaWrapped e 3 n).length, s2) := by
  obtain ⟨s1, s2, h1, h2, h3⟩ := gen_zeta3_read_bytes e hWr h8r hW64 Params.readZeta3Table hWt strict
    bytes hbytes pre post n hn hbits hfit
  refine ⟨s1, s2, h1, ?_, h3⟩
  rw [CountGen.read_zeta3_eq' _ _ P, forward_ok _ _ _ h2]
  have : Gen.len_zeta n 3 = (Spec.zetaWrapped e 3 n).length := by
    unfold Gen.len_zeta
    exact gen_len_zeta_param_eq e _ 3 n (by decide) (by decide) hn
  rw [this]

end readers

/-! ## writers -/

/-- the specialised `GammaWrite` / `DeltaWrite` / `ZetaWrite::write_zeta` impls of the generated
    `CountBitWriter`, over the generated trait methods of the generated `BufBitWriter` -/
def genCountWriteForward (e : Endian) {Ww : Nat} (checks P : Bool) (c : CodeId) (x : CountW (BufW Ww))
    (v : Nat) : Res (Nat × CountW (BufW Ww)) :=
  match c.fam with
  | .gamma => Gen.CountBitWriter.write_gamma
      (fun i v => (genOwnWrite e checks ⟨.gamma, 0⟩ v).run (genWImpl e) i) P x v
  | .delta => Gen.CountBitWriter.write_delta
      (fun i v => (genOwnWrite e checks ⟨.delta, 0⟩ v).run (genWImpl e) i) P x v
  | .zeta => Gen.CountBitWriter.write_zeta
      (fun i v k => (genOwnWrite e checks ⟨.zeta, k⟩ v).run (genWImpl e) i) P x v c.p
  | _ => .panic     -- no specialised impl: a program over the wrapper's `BitWrite` impl

theorem genCountWriteForward_eq (e : Endian) {Ww : Nat} (checks P : Bool) (c : CodeId)
    (hc : c = ⟨.gamma, 0⟩ ∨ c = ⟨.delta, 0⟩ ∨ c.fam = .zeta) (x : CountW (BufW Ww)) (v : Nat) :
    genCountWriteForward e checks P c x v = CountW.forward (genWImpl e) (genOwnWrite e checks c v) x := by
  rcases hc with rfl | rfl | hz
  · exact CountGen.write_gamma_eq _ (fun v => genOwnWrite e checks ⟨.gamma, 0⟩ v) P x v
  · exact CountGen.write_delta_eq _ (fun v => genOwnWrite e checks ⟨.delta, 0⟩ v) P x v
  · obtain ⟨fam, p⟩ := c
    cases hz
    exact CountGen.write_zeta_eq _ (fun v k => genOwnWrite e checks ⟨.zeta, k⟩ v) P x v p

/-- **C14, `write_gamma` / `write_delta` / `write_zeta(k)` of the generated `CountBitWriter`.**
    After any preceding program on the generated `BufBitWriter`: the method returns the length of the
    codeword, leaves the inner writer as the wrapped writer's method does (so: the same bytes), and
    the counter grows by exactly the length of the codeword written. -/
theorem gen_countw_forward_exact {α : Type} (e : Endian) {Ww : Nat} (hWw : 0 < Ww) (h8w : 8 ∣ Ww)
    (hWw64 : Ww < 2 ^ 64) (checks P : Bool) (pre : WProg α) {a : α} {w1 : RefW}
    (hpre : pre.run RefW.impl (refW e Ww checks []) = .ok (a, w1))
    (c : CodeId) (hc : c = ⟨.gamma, 0⟩ ∨ c = ⟨.delta, 0⟩ ∨ c.fam = .zeta) (v : Nat) (hd : c.Dom v)
    {cw : List Bool} (hcw : c.codeword e v = some cw) (k0 : Nat) :
    ∃ (t t1 : BufW Ww) (k : Nat) (t2 : BufW Ww),
      pre.run (genWImpl e) (BufW.new Ww checks none) = .ok (a, t) ∧
      (genOwnWrite e checks c v).run (genWImpl e) t = .ok (cw.length, t1) ∧
      genCountWriteForward e checks P c ⟨t, k0⟩ v = .ok (cw.length, ⟨t1, k0 + cw.length⟩) ∧
      (genWImpl e).flush t1 = .ok (k, t2) ∧
      t2.outBytes e = layout e (w1.bits ++ cw ++ wpad Ww (w1.bits ++ cw).length) := by
  obtain ⟨t, ht, hrel⟩ := gen_wrun_relC e hWw hWw64 checks pre hpre
  obtain ⟨cw1, hcw1, hwr⟩ := ownWrite_writes e checks c v hd
  rw [hcw] at hcw1
  cases Option.some.inj hcw1
  have hq : (genOwnWrite e checks c v).run RefW.impl (refW e Ww checks w1.bits)
      = .ok (cw.length, { refW e Ww checks w1.bits with bits := w1.bits ++ cw }) := by
    rw [genOwnWrite_eq e checks c v hd]
    exact hwr _ rfl rfl rfl
  obtain ⟨t1, k, t2, h1, h2, h3, _⟩ := gen_image_of_relC e h8w hWw64 hrel _ hq
  refine ⟨t, t1, k, t2, ht, h1, ?_, h2, h3⟩
  rw [genCountWriteForward_eq e checks P c hc, forwardW_ok _ _ h1]

/-! ## non-vacuity -/

/-- the generated machines compute: unary 12 after three bits, through the generated counting
    wrapper's `BitRead` impl, from counter 100 -/
example : ∃ (s1 s2 : BufR 16),
    (genRImpl .be).skipBits (BufR.new ⟨wordsOfBytes .be 16 (padTo (16 / 8) [0xA0, 0x01]), 0, true⟩) 3 = .ok s1 ∧
    (genOwnRead .be ⟨.unary, 0⟩).run (genCountRImpl (genRImpl .be) true) ⟨s1, 100⟩ = .ok (12, ⟨s2, 113⟩) ∧
    GenBufR.genBitPos .be s2 = .ok (16, s2) := ⟨_, _, rfl, rfl, rfl⟩

/-- δ(1000) at bit 5 of the image `[21, 149, 30]`: through `CountBitReader::read_delta`, and as a
    program over the wrapper -/
example (k0 : Nat) : ∃ (s1 s2 : BufR 16),
    (genRImpl .le).skipBits (BufR.new ⟨wordsOfBytes .le 16 (padTo (16 / 8) [21, 149, 30]), 0, true⟩)
      (fieldBits .le 21 5).length = .ok s1 ∧
    (genOwnRead .le ⟨.delta, 0⟩).run (genRImpl .le) s1 = .ok (1000, s2) ∧
    genCountReadForward .le false ⟨.delta, 0⟩ ⟨s1, k0⟩ = .ok (1000, ⟨s2, k0 + (Spec.delta .le 1000).length⟩) ∧
    GenBufR.genBitPos .le s2 = .ok ((fieldBits .le 21 5).length + (Spec.delta .le 1000).length, s2) :=
  gen_countr_forward_exact .le (by decide) (by decide) (fun h => by cases h) true false [21, 149, 30]
    (by decide) (fieldBits .le 21 5) [false, false, false] (by decide) ⟨.delta, 0⟩ (Or.inr (Or.inl rfl))
    1000 (by decide) rfl (by decide) (by decide) k0

example (k0 : Nat) : ∃ (s1 s2 : BufR 16),
    (genRImpl .le).skipBits (BufR.new ⟨wordsOfBytes .le 16 (padTo (16 / 8) [21, 149, 30]), 0, true⟩)
      (fieldBits .le 21 5).length = .ok s1 ∧
    (genOwnRead .le ⟨.delta, 0⟩).run (genRImpl .le) s1 = .ok (1000, s2) ∧
    (genOwnRead .le ⟨.delta, 0⟩).run (genCountRImpl (genRImpl .le) false) ⟨s1, k0⟩
      = .ok (1000, ⟨s2, k0 + (Spec.delta .le 1000).length⟩) ∧
    GenBufR.genBitPos .le s2 = .ok ((fieldBits .le 21 5).length + (Spec.delta .le 1000).length, s2) :=
  gen_countr_code_exact .le (by decide) (by decide) (fun h => by cases h) true false [21, 149, 30]
    (by decide) (fieldBits .le 21 5) [false, false, false] (by decide) ⟨.delta, 0⟩ 1000 (by decide) rfl
    (by decide) (by decide) k0

/-- `CountBitWriter::write_zeta(12345, 3)` after five raw bits -/
example (e : Endian) {w1 : RefW} (hpre : exPre.run RefW.impl (refW e 32 true []) = .ok (5, w1)) (k0 : Nat) :
    ∃ (t t1 : BufW 32) (k : Nat) (t2 : BufW 32),
      exPre.run (genWImpl e) (BufW.new 32 true none) = .ok (5, t) ∧
      (genOwnWrite e true ⟨.zeta, 3⟩ 12345).run (genWImpl e) t = .ok ((Spec.zeta e 3 12345).length, t1) ∧
      genCountWriteForward e true false ⟨.zeta, 3⟩ ⟨t, k0⟩ 12345
        = .ok ((Spec.zeta e 3 12345).length, ⟨t1, k0 + (Spec.zeta e 3 12345).length⟩) ∧
      (genWImpl e).flush t1 = .ok (k, t2) ∧
      t2.outBytes e = layout e (w1.bits ++ Spec.zeta e 3 12345 ++
        wpad 32 (w1.bits ++ Spec.zeta e 3 12345).length) :=
  gen_countw_forward_exact e (by decide) (by decide) (by decide) true false exPre hpre ⟨.zeta, 3⟩
    (Or.inr (Or.inr rfl)) 12345 (by decide) rfl k0

end Headline2
end Dsi
