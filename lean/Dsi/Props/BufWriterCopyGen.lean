/-
  `BufBitWriter::copy_from` as TRANSLATED from src/impls/buf_bit_writer.rs on every run
  (`Dsi.Gen.BufW.copy_from_be/le` in lean/Dsi/Gen/BufWriterBodies.lean, tools/translate_bufw.py) is
  EQUAL to the hand-written model `BufW.copyFrom` (lean/Dsi/Impl/Copy.lean).

  Hypotheses, and why they are there:
  * `W ≤ 64`: the words the specialised path handles.  For wider words (`u128`) the Rust takes the
    generic chunked loop; it is translated too, but its equality with `copyGeneric` is NOT proved
    here (it needs that `write_bits` preserves `0 < space`, the hypothesis of `write_bits_XX_eq`).
  * `0 < W` (LE only): the rotation amount `n as u32` of the last partial word is `n % W`, which is
    below `2^32` only for a real word width.
  * `s.space ≤ W` (the struct invariant): `self.space_left_in_buffer as u64` / `as u32` agree with
    the `Nat` value only when it fits; under the invariant it does.
-/
import Dsi.Gen.BufWriterBodies
import Dsi.Props.BufWriterGen
import Dsi.Props.Copy
namespace Dsi
namespace GenBufW
variable {W : Nat}

theorem cast64 (v : Nat) (hW : W ≤ 64) : (BitVec.ofNat 64 v).setWidth W = BitVec.ofNat W v := by
  apply BitVec.eq_of_toNat_eq
  rw [BitVec.toNat_setWidth, BitVec.toNat_ofNat, BitVec.toNat_ofNat]
  exact Nat.mod_mod_of_dvd v (Nat.pow_dvd_pow 2 hW)

theorem ofNat64_toNat (x : Nat) (h : x ≤ 64) : (BitVec.ofNat 64 x).toNat = x := by
  rw [BitVec.toNat_ofNat]; omega

theorem forN_copyWordsFrom {ρ : Type} (ri : RImpl ρ) (hW : W ≤ 64)
    (f : ρ × BufW W → Res (ρ × BufW W))
    (hf : ∀ st, f st = Res.bind (ri.readBits st.1 W) fun rr =>
      Res.bind (st.2.emit ((BitVec.ofNat 64 rr.1).setWidth W)) fun s => .ok (rr.2, s)) :
    ∀ k r s, forN k (r, s) f = BufW.copyWordsFrom ri k r s
  | 0, r, s => rfl
  | k + 1, r, s => by
    simp only [forN, BufW.copyWordsFrom, hf]
    cases ri.readBits r W with
    | ok p =>
      obtain ⟨v, r'⟩ := p
      simp only [Res.bind, cast64 v hW]
      cases s.emit (BitVec.ofNat W v) with
      | ok s' => exact forN_copyWordsFrom ri hW f hf k r' s'
      | _ => rfl
    | _ => rfl

theorem copyWordsFrom_upd {ρ : Type} (ri : RImpl ρ) (b : BitVec W) (sp : Nat) :
    ∀ k r (s : BufW W), BufW.copyWordsFrom ri k r (upd b sp s) =
      (BufW.copyWordsFrom ri k r s).map fun p => (p.1, upd b sp p.2)
  | 0, r, s => rfl
  | k + 1, r, s => by
    simp only [BufW.copyWordsFrom]
    cases ri.readBits r W with
    | ok p =>
      obtain ⟨v, r'⟩ := p
      simp only [emit_upd]
      cases s.emit (BitVec.ofNat W v) with
      | ok s' => exact copyWordsFrom_upd ri b sp k r' s'
      | _ => rfl
    | _ => rfl

theorem copy_from_be_eq {ρ : Type} (ri : RImpl ρ) (s : BufW W) (r : ρ) (n : BitVec 64)
    (hW : W ≤ 64) (hs : s.space ≤ W) :
    Gen.BufW.copy_from_be ri s r n = BufW.copyFrom .be ri s r n.toNat := by
  obtain ⟨b, sp, out, cap, ch⟩ := s
  simp only at hs
  unfold Gen.BufW.copy_from_be BufW.copyFrom
  have hW' : ¬ W > 64 := by omega
  simp only [if_neg hW']
  have e0 : (BitVec.ofNat 64 sp).toNat = sp := ofNat64_toNat sp (by omega)
  have eW : (BitVec.ofNat 64 W).toNat = W := ofNat64_toNat W hW
  have hlt : (n < BitVec.ofNat 64 sp) ↔ n.toNat < sp := by rw [BitVec.lt_def, e0]
  simp only [hlt]
  by_cases hfast : n.toNat < sp
  · rw [if_pos hfast, if_pos hfast]
    cases ri.readBits r n.toNat with
    | ok p => obtain ⟨v, r'⟩ := p; simp only [Res.bind, BufW.shiftIn, BufW.placed, cast64 v hW]
    | _ => rfl
  · rw [if_neg hfast, if_neg hfast]
    cases ri.readBits r sp with
    | ok p =>
      obtain ⟨v, r1⟩ := p
      simp only [Res.bind, BufW.shiftIn, BufW.placed, cast64 v hW, emit_mk]
      cases hc : capOk cap out.length
      · rfl
      · simp only [if_true]
        have h3 : (n - BitVec.ofNat 64 sp).toNat = n.toNat - sp := by
          rw [BitVec.toNat_sub, e0]; have := n.isLt; omega
        have h4 : ((n - BitVec.ofNat 64 sp) / BitVec.ofNat 64 W).toNat = (n.toNat - sp) / W := by
          rw [BitVec.toNat_udiv, h3, eW]
        have h5 : ((n - BitVec.ofNat 64 sp) % BitVec.ofNat 64 W).toNat = (n.toNat - sp) % W := by
          rw [BitVec.toNat_umod, h3, eW]
        simp only [h4, h5]
        generalize b <<< (sp - 1) <<< 1 ||| BitVec.ofNat W v = b1
        rw [forN_copyWordsFrom ri hW _ ?_]
        rotate_left
        · intro st; rfl
        rw [show (⟨b1, sp, out ++ [b1], cap, ch⟩ : BufW W) = upd b1 sp ⟨b, sp, out ++ [b1], cap, ch⟩ from rfl,
          copyWordsFrom_upd]
        cases BufW.copyWordsFrom ri ((n.toNat - sp) / W) r1 ⟨b, sp, out ++ [b1], cap, ch⟩ with
        | ok q =>
          obtain ⟨r2, s2⟩ := q
          simp only [Res.map]
          cases ri.readBits r2 ((n.toNat - sp) % W) with
          | ok p3 => obtain ⟨v3, r3⟩ := p3; simp only [cast64 v3 hW]
          | _ => rfl
        | _ => rfl
    | _ => rfl

theorem copy_from_le_eq {ρ : Type} (ri : RImpl ρ) (s : BufW W) (r : ρ) (n : BitVec 64)
    (hW0 : 0 < W) (hW : W ≤ 64) (hs : s.space ≤ W) :
    Gen.BufW.copy_from_le ri s r n = BufW.copyFrom .le ri s r n.toNat := by
  obtain ⟨b, sp, out, cap, ch⟩ := s
  simp only at hs
  unfold Gen.BufW.copy_from_le BufW.copyFrom
  have hW' : ¬ W > 64 := by omega
  simp only [if_neg hW']
  have e0 : (BitVec.ofNat 64 sp).toNat = sp := ofNat64_toNat sp (by omega)
  have eW : (BitVec.ofNat 64 W).toNat = W := ofNat64_toNat W hW
  have hlt : (n < BitVec.ofNat 64 sp) ↔ n.toNat < sp := by rw [BitVec.lt_def, e0]
  simp only [hlt]
  have hsp32 : sp % 4294967296 = sp := Nat.mod_eq_of_lt (by omega)
  by_cases hfast : n.toNat < sp
  · rw [if_pos hfast, if_pos hfast]
    cases ri.readBits r n.toNat with
    | ok p =>
      obtain ⟨v, r'⟩ := p
      simp only [Res.bind, BufW.shiftIn, BufW.placed, cast64 v hW,
        Nat.mod_eq_of_lt (show n.toNat < 4294967296 by omega)]
    | _ => rfl
  · rw [if_neg hfast, if_neg hfast]
    cases ri.readBits r sp with
    | ok p =>
      obtain ⟨v, r1⟩ := p
      simp only [Res.bind, BufW.shiftIn, BufW.placed, cast64 v hW, emit_mk, hsp32]
      cases hc : capOk cap out.length
      · rfl
      · simp only [if_true]
        have h3 : (n - BitVec.ofNat 64 sp).toNat = n.toNat - sp := by
          rw [BitVec.toNat_sub, e0]; have := n.isLt; omega
        have h4 : ((n - BitVec.ofNat 64 sp) / BitVec.ofNat 64 W).toNat = (n.toNat - sp) / W := by
          rw [BitVec.toNat_udiv, h3, eW]
        have h5 : ((n - BitVec.ofNat 64 sp) % BitVec.ofNat 64 W).toNat = (n.toNat - sp) % W := by
          rw [BitVec.toNat_umod, h3, eW]
        simp only [h4, h5]
        generalize b >>> (sp - 1) >>> 1 ||| (BitVec.ofNat W v).rotateRight sp = b1
        rw [forN_copyWordsFrom ri hW _ ?_]
        rotate_left
        · intro st; rfl
        rw [show (⟨b1, sp, out ++ [b1], cap, ch⟩ : BufW W) = upd b1 sp ⟨b, sp, out ++ [b1], cap, ch⟩ from rfl,
          copyWordsFrom_upd]
        cases BufW.copyWordsFrom ri ((n.toNat - sp) / W) r1 ⟨b, sp, out ++ [b1], cap, ch⟩ with
        | ok q =>
          obtain ⟨r2, s2⟩ := q
          simp only [Res.map]
          cases ri.readBits r2 ((n.toNat - sp) % W) with
          | ok p3 =>
            obtain ⟨v3, r3⟩ := p3
            have : (n.toNat - sp) % W < 4294967296 := by
              have := Nat.mod_lt (n.toNat - sp) hW0
              omega
            simp only [cast64 v3 hW, Nat.mod_eq_of_lt this]
          | _ => rfl
        | _ => rfl
    | _ => rfl


/-! ### the refinement theorem, about the TRANSLATED body -/

/-- the translated `copy_from` of the two `BitWrite` impls -/
def genCopyFrom {ρ : Type} (e : Endian) (ri : RImpl ρ) (s : BufW W) (r : ρ) (n : BitVec 64) :
    Res (ρ × BufW W) :=
  match e with
  | .be => Gen.BufW.copy_from_be ri s r n
  | .le => Gen.BufW.copy_from_le ri s r n

theorem genCopyFrom_eq {ρ : Type} (e : Endian) (ri : RImpl ρ) (s : BufW W) (r : ρ) (n : BitVec 64)
    (hW : W ≤ 64) (hi : s.Inv) : genCopyFrom e ri s r n = BufW.copyFrom e ri s r n.toNat := by
  cases e
  · exact copy_from_be_eq ri s r n hW hi.2
  · exact copy_from_le_eq ri s r n (by have := hi.1; have := hi.2; omega) hW hi.2

/-- `Dsi.copyFrom_sim` (lean/Dsi/Props/Copy.lean) for the translated body, writer words of at most
    64 bits -/
theorem gen_copyFrom_sim {Wr Ww : Nat} {e : Endian} (hW64 : e = .be → Wr ≤ 64) (hWw : Ww ≤ 64)
    {s : BufR Wr} {r : RefR} {t : BufW Ww} {w : RefW} (hs : BufR.Rel e s r) (ht : BufW.RelC e t w)
    {n : BitVec 64} (hav : r.avail n.toNat = true) :
    ResRel (CopyPost e) (genCopyFrom e (BufR.impl e) t s n) (refCopy r w n.toNat) := by
  rw [genCopyFrom_eq e _ t s n hWw ht.1.1]
  exact copyFrom_sim hW64 hs ht hav

end GenBufW
end Dsi
