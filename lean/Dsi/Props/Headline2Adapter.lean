/-
  C11 over the generated definitions: the regenerated `WordAdapter::write_word` / `read_word`
  (lean/Dsi/Gen/AdapterBodies.lean), run against a wrapped object that answers with an arbitrary fault
  schedule, are lossless-or-error.
-/
import Dsi.Props.AdapterGen
import Dsi.Props.C11

namespace Dsi.Headline2
open Dsi Dsi.AdapterGen

/-- the generated `write_word` over any fault schedule: either it succeeds, and then the sink has received
    exactly the `n` bytes of the word, once and in order, after what it held (a prefix of the schedule
    consumed), or it reports an error; it never panics -/
theorem gen_adapter_write_lossless (n : Nat) (s : Sink) (w : Nat) :
    (∀ a', Gen.WordAdapter.write_word n Sink.writeWord { backend := s } w = .ok a' →
        a'.backend.bytes = s.bytes ++ leBytes w n ∧ ∃ used, s.sched = used ++ a'.backend.sched) ∧
    ((∃ a', Gen.WordAdapter.write_word n Sink.writeWord { backend := s } w = .ok a') ∨
     (∃ e, Gen.WordAdapter.write_word n Sink.writeWord { backend := s } w = .err e)) := by
  rw [write_word_sink_eq]
  obtain ⟨h1, h2⟩ := adapter_write_lossless s (leBytes w n)
  refine ⟨fun a' h => ?_, ?_⟩
  · cases hw : s.writeWord (leBytes w n) with
    | ok s' =>
      rw [hw] at h
      simp only [Res.map, Res.ok.injEq] at h
      subst h
      exact h1 s' hw
    | err e => rw [hw] at h; cases h
    | panic => rw [hw] at h; cases h
    | dpanic => rw [hw] at h; cases h
  · rcases h2 with ⟨s', hs⟩ | ⟨e, he⟩
    · exact .inl ⟨_, by rw [hs]; rfl⟩
    · exact .inr ⟨e, by rw [he]; rfl⟩

/-- the generated `read_word` over any fault schedule: a successful read returns the next `n` bytes of
    the source (as the little-endian value of the word) and leaves the rest -/
theorem gen_adapter_read_exact (n : Nat) (src : Source) (v : Nat) (a' : WordAdapter Source)
    (h : Gen.WordAdapter.read_word n (fun s buf => s.readWord buf.length) { backend := src } = .ok (v, a')) :
    v = leVal (src.bytes.take n) ∧ a'.backend.bytes = src.bytes.drop n := by
  rw [read_word_source_eq] at h
  cases hr : src.readWord n with
  | ok x =>
    obtain ⟨bytes, src'⟩ := x
    rw [hr] at h
    simp only [Res.map, Res.ok.injEq, Prod.mk.injEq] at h
    obtain ⟨hv, ha⟩ := h
    obtain ⟨hb, _, hd⟩ := adapter_read_exact src src' n bytes hr
    subst ha
    exact ⟨by rw [← hv, hb], hd⟩
  | err e => rw [hr] at h; cases h
  | panic => rw [hr] at h; cases h
  | dpanic => rw [hr] at h; cases h

example : ∃ a', Gen.WordAdapter.write_word 2 Sink.writeWord
    { backend := { bytes := [], sched := [.accept 1, .interrupted, .accept 5] } } 0x1234 = .ok a' ∧
    a'.backend.bytes = [0x34, 0x12] := ⟨_, rfl, rfl⟩

end Dsi.Headline2
