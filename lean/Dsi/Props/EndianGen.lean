/-
  The generated constants and aliases of src/traits/endianness.rs (lean/Dsi/Gen/EndianConsts.lean,
  produced by tools/translate_endian.py on every run; `Endian.le` / `Endian.be` stand for the structs
  `LittleEndian` / `BigEndian`) and the facts about them the model and the other translators rely on:

  * `IS_LITTLE` is true exactly for `LittleEndian`, `IS_BIG` exactly for `BigEndian`, and they are
    each other's negation; `NAME` is "little" / "big";
  * `LE` / `BE` are `LittleEndian` / `BigEndian`; `NativeEndian` and `NE` are the endianness of the
    target (`LittleEndian` on a little-endian target);
  * so a test `E::IS_LITTLE` / `E::IS_BIG` selects like `TypeId::of::<E>() == TypeId::of::<LE>()` /
    `.. == TypeId::of::<BE>()` (how tools/translate_codes2.py, translate_vbyteio.py and
    translate_teardown.py translate either form), and the generated `vbyte_write::<E>` /
    `vbyte_read::<E>` (lean/Dsi/Gen/VByteIOBodies.lean) run the big-endian variant exactly when
    `E::IS_BIG`, the little-endian one exactly when `E::IS_LITTLE`.
-/
import Dsi.Gen.EndianConsts
import Dsi.Gen.VByteIOBodies
namespace Dsi
namespace EndianGen
open Gen.Endianness

theorem is_little_be : IS_LITTLE BE = false := rfl
theorem is_little_le : IS_LITTLE LE = true := rfl
theorem is_big_be : IS_BIG BE = true := rfl
theorem is_big_le : IS_BIG LE = false := rfl

/-- `IS_BIG` is the negation of `IS_LITTLE`, for every selector type -/
theorem is_big_eq_not_is_little (e : Endian) : IS_BIG e = !IS_LITTLE e := by cases e <;> rfl

/-- the constants decide the selector type: what a test of `E::IS_LITTLE` / `E::IS_BIG` means -/
theorem is_little_iff (e : Endian) : IS_LITTLE e = true ↔ e = Endian.le := by cases e <;> decide
theorem is_big_iff (e : Endian) : IS_BIG e = true ↔ e = Endian.be := by cases e <;> decide

theorem name_eq : NAME LE = "little" ∧ NAME BE = "big" := ⟨rfl, rfl⟩

/-- the aliases -/
theorem aliases_eq : Gen.Endianness.LE = Endian.le ∧ Gen.Endianness.BE = Endian.be := ⟨rfl, rfl⟩

/-- `NativeEndian` / `NE` are the endianness of the target -/
theorem native_eq (target : Endian) : NativeEndian target = target ∧ NE target = target := by
  cases target <;> exact ⟨rfl, rfl⟩

/-- on a little-endian target `NE` is `LE` -/
theorem ne_eq_le : NE Endian.le = Gen.Endianness.LE := rfl
theorem ne_eq_be : NE Endian.be = Gen.Endianness.BE := rfl

/-- the dispatching `vbyte_write::<E>` / `vbyte_read::<E>` in terms of the constants -/
theorem vbyte_write_select (e : Endian) (v : Nat) :
    Gen.vbyte_write e v = if IS_BIG e then Gen.vbyte_write_be v else Gen.vbyte_write_le v := by
  cases e <;> rfl

theorem vbyte_write_select' (e : Endian) (v : Nat) :
    Gen.vbyte_write e v = if IS_LITTLE e then Gen.vbyte_write_le v else Gen.vbyte_write_be v := by
  cases e <;> rfl

theorem vbyte_read_select (fuel : Nat) (e : Endian) :
    Gen.vbyte_read fuel e = if IS_BIG e then Gen.vbyte_read_be fuel else Gen.vbyte_read_le fuel := by
  cases e <;> rfl

theorem vbyte_read_select' (fuel : Nat) (e : Endian) :
    Gen.vbyte_read fuel e = if IS_LITTLE e then Gen.vbyte_read_le fuel else Gen.vbyte_read_be fuel := by
  cases e <;> rfl

end EndianGen
end Dsi
