/-
  The tracing wrappers `DbgBitReader` / `DbgBitWriter` as TRANSLATED from src/utils/dbg_codes.rs on
  every run (lean/Dsi/Gen/DbgBodies.lean, produced statement by statement by tools/translate_dbg.py)
  are the identity the hand model takes them for (lean/Dsi/Glue/Wrappers.lean: "forward every method
  unchanged"; the driver runs `wrap=dbg` sessions on the bare machines):

  * `DbgR.impl ri = ri`, `DbgW.impl wi = wi`: the `BitRead` / `BitWrite` impls, method by method;
  * every specialised code-trait method (`GammaRead`, `DeltaRead`, `ZetaRead` and the `Write`
    counterparts) is the wrapped object's method (`inner_m`, bound BY NAME in the statements below:
    a body that forwarded to another method of the wrapped object would have another parameter);
  * transparency: running any `RProg` / `WProg` through the wrapper is running it on the wrapped
    implementation, and the code operations of a `wrap=dbg` session are those of the bare machine;
  * the set of translated methods is pinned, so that a method that appears in (or disappears from)
    an impl block of the wrappers cannot go unnoticed.
  No hypothesis is needed anywhere.
-/
import Dsi.Gen.DbgBodies
import Dsi.Session
namespace Dsi
namespace DbgGen
open Gen

/-! The per-method proofs all use the same `simp only` call, whatever the shape of the Rust body
    (`let v = inner.m(..)?; ..; Ok(v)`, `Ok(inner.m(..)?)` or `inner.m(..)` forwarded as it is), so that
    a rewrite of a body from one of these shapes into another is re-proved without touching this file. -/
set_option linter.unusedSimpArgs false

theorem bind_ok_eta {α β : Type} (x : Res (α × β)) : Res.bind x (fun p => Res.ok (p.1, p.2)) = x := by
  cases x <;> rfl

theorem bind_ok_id {α : Type} (x : Res α) : Res.bind x (fun p => Res.ok p) = x := by
  cases x <;> rfl

/-! ### constructors -/

theorem reader_new_eq {ρ : Type} (r : ρ) : Gen.DbgBitReader.new r = r := rfl
theorem writer_new_eq {ω : Type} (w : ω) : Gen.DbgBitWriter.new w = w := rfl

/-! ### `BitRead for DbgBitReader` -/

theorem read_bits_eq {ρ : Type} (ri : RImpl ρ) (s : ρ) (n : Nat) :
    Gen.DbgBitReader.read_bits ri s n = ri.readBits s n := by
  simp only [Gen.DbgBitReader.read_bits, bind_ok_eta, bind_ok_id]

theorem peek_bits_eq {ρ : Type} (ri : RImpl ρ) (s : ρ) (n : Nat) :
    Gen.DbgBitReader.peek_bits ri s n = ri.peekBits s n := by
  simp only [Gen.DbgBitReader.peek_bits, bind_ok_eta, bind_ok_id]

theorem read_unary_eq {ρ : Type} (ri : RImpl ρ) (s : ρ) :
    Gen.DbgBitReader.read_unary ri s = ri.readUnary s := by
  simp only [Gen.DbgBitReader.read_unary, bind_ok_eta, bind_ok_id]

theorem skip_bits_eq {ρ : Type} (ri : RImpl ρ) (s : ρ) (n : Nat) :
    Gen.DbgBitReader.skip_bits ri s n = ri.skipBits s n := by
  simp only [Gen.DbgBitReader.skip_bits, bind_ok_eta, bind_ok_id]

theorem skip_bits_after_peek_eq {ρ : Type} (ri : RImpl ρ) (s : ρ) (n : Nat) :
    Gen.DbgBitReader.skip_bits_after_peek ri s n = ri.skipAfterPeek s n := by
  simp only [Gen.DbgBitReader.skip_bits_after_peek, bind_ok_eta, bind_ok_id]

/-- the `BitRead` impl of `DbgBitReader<E, R>` is `R`'s -/
theorem reader_impl_eq {ρ : Type} (ri : RImpl ρ) : Gen.DbgR.impl ri = ri := by
  cases ri
  simp only [Gen.DbgR.impl, RImpl.mk.injEq]
  refine ⟨?_, ?_, ?_, ?_, ?_⟩
  · funext s n; exact read_bits_eq _ s n
  · funext s n; exact peek_bits_eq _ s n
  · funext s n; exact skip_bits_after_peek_eq _ s n
  · funext s n; exact skip_bits_eq _ s n
  · funext s; exact read_unary_eq _ s

/-! ### `BitWrite for DbgBitWriter` -/

theorem write_bits_eq {ω : Type} (wi : WImpl ω) (s : ω) (v n : Nat) :
    Gen.DbgBitWriter.write_bits wi s v n = wi.writeBits s v n := by
  simp only [Gen.DbgBitWriter.write_bits, bind_ok_eta, bind_ok_id]

theorem write_unary_eq {ω : Type} (wi : WImpl ω) (s : ω) (x : Nat) :
    Gen.DbgBitWriter.write_unary wi s x = wi.writeUnary s x := by
  simp only [Gen.DbgBitWriter.write_unary, bind_ok_eta, bind_ok_id]

theorem flush_eq {ω : Type} (wi : WImpl ω) (s : ω) :
    Gen.DbgBitWriter.flush wi s = wi.flush s := by
  simp only [Gen.DbgBitWriter.flush, bind_ok_eta, bind_ok_id]

/-- the `BitWrite` impl of `DbgBitWriter<E, W>` is `W`'s -/
theorem writer_impl_eq {ω : Type} (wi : WImpl ω) : Gen.DbgW.impl wi = wi := by
  cases wi
  simp only [Gen.DbgW.impl, WImpl.mk.injEq]
  refine ⟨?_, ?_, ?_⟩
  · funext s v n; exact write_bits_eq _ s v n
  · funext s x; exact write_unary_eq _ s x
  · funext s; exact flush_eq _ s

/-! ### the specialised code-trait impls: each is the wrapped object's method of the same name -/

theorem read_gamma_eq {ρ : Type} (f : ρ → Res (Nat × ρ)) (s : ρ) :
    Gen.DbgBitReader.read_gamma (inner_read_gamma := f) s = f s := by
  simp only [Gen.DbgBitReader.read_gamma, bind_ok_eta, bind_ok_id]

theorem read_delta_eq {ρ : Type} (f : ρ → Res (Nat × ρ)) (s : ρ) :
    Gen.DbgBitReader.read_delta (inner_read_delta := f) s = f s := by
  simp only [Gen.DbgBitReader.read_delta, bind_ok_eta, bind_ok_id]

theorem read_zeta_eq {ρ : Type} (f : ρ → Nat → Res (Nat × ρ)) (s : ρ) (k : Nat) :
    Gen.DbgBitReader.read_zeta (inner_read_zeta := f) s k = f s k := by
  simp only [Gen.DbgBitReader.read_zeta, bind_ok_eta, bind_ok_id]

theorem read_zeta3_eq {ρ : Type} (f : ρ → Res (Nat × ρ)) (s : ρ) :
    Gen.DbgBitReader.read_zeta3 (inner_read_zeta3 := f) s = f s := by
  simp only [Gen.DbgBitReader.read_zeta3, bind_ok_eta, bind_ok_id]

theorem write_gamma_eq {ω : Type} (f : ω → Nat → Res (Nat × ω)) (s : ω) (v : Nat) :
    Gen.DbgBitWriter.write_gamma (inner_write_gamma := f) s v = f s v := by
  simp only [Gen.DbgBitWriter.write_gamma, bind_ok_eta, bind_ok_id]

theorem write_delta_eq {ω : Type} (f : ω → Nat → Res (Nat × ω)) (s : ω) (v : Nat) :
    Gen.DbgBitWriter.write_delta (inner_write_delta := f) s v = f s v := by
  simp only [Gen.DbgBitWriter.write_delta, bind_ok_eta, bind_ok_id]

theorem write_zeta_eq {ω : Type} (f : ω → Nat → Nat → Res (Nat × ω)) (s : ω) (v k : Nat) :
    Gen.DbgBitWriter.write_zeta (inner_write_zeta := f) s v k = f s v k := by
  simp only [Gen.DbgBitWriter.write_zeta, bind_ok_eta, bind_ok_id]

theorem write_zeta3_eq {ω : Type} (f : ω → Nat → Res (Nat × ω)) (s : ω) (v : Nat) :
    Gen.DbgBitWriter.write_zeta3 (inner_write_zeta3 := f) s v = f s v := by
  simp only [Gen.DbgBitWriter.write_zeta3, bind_ok_eta, bind_ok_id]

/-! ### the translated surface is exactly this -/

theorem reader_methods :
    Gen.DbgBitReader.methods =
      ["BitRead::peek_bits", "BitRead::read_bits", "BitRead::read_unary", "BitRead::skip_bits",
       "BitRead::skip_bits_after_peek", "DeltaRead::read_delta", "GammaRead::read_gamma", "Self::new",
       "ZetaRead::read_zeta", "ZetaRead::read_zeta3"] := rfl

theorem writer_methods :
    Gen.DbgBitWriter.methods =
      ["BitWrite::flush", "BitWrite::write_bits", "BitWrite::write_unary", "DeltaWrite::write_delta",
       "GammaWrite::write_gamma", "Self::new", "ZetaWrite::write_zeta", "ZetaWrite::write_zeta3"] := rfl

/-! ### transparency -/

/-- Running ANY reader program through `DbgBitReader` is running it on the wrapped reader: same
    value, same state, same error / panic (by induction on the program, from the method
    equalities). -/
theorem rprog_transparent {ρ α : Type} (ri : RImpl ρ) (p : RProg α) (s : ρ) :
    p.run (Gen.DbgR.impl ri) s = p.run ri s := by
  induction p generalizing s with
  | ret a => rfl
  | fail e => rfl
  | panic => rfl
  | dpanic => rfl
  | readBits n k ih =>
    simp only [RProg.run, Gen.DbgR.impl, read_bits_eq]
    cases ri.readBits s n with
    | ok x => exact ih x.1 x.2
    | err e => rfl
    | panic => rfl
    | dpanic => rfl
  | readUnary k ih =>
    simp only [RProg.run, Gen.DbgR.impl, read_unary_eq]
    cases ri.readUnary s with
    | ok x => exact ih x.1 x.2
    | err e => rfl
    | panic => rfl
    | dpanic => rfl
  | peek n k ih =>
    simp only [RProg.run, Gen.DbgR.impl, peek_bits_eq]
    cases ri.peekBits s n with
    | ok x => exact ih (.ok x.1) x.2
    | err e => exact ih (.error e) s
    | panic => rfl
    | dpanic => rfl
  | skipAfterPeek n k ih =>
    simp only [RProg.run, Gen.DbgR.impl, skip_bits_after_peek_eq]
    exact ih _
  | skip n k ih =>
    simp only [RProg.run, Gen.DbgR.impl, skip_bits_eq]
    cases ri.skipBits s n with
    | ok s' => exact ih s'
    | err e => rfl
    | panic => rfl
    | dpanic => rfl

/-- Running ANY writer program through `DbgBitWriter` is running it on the wrapped writer. -/
theorem wprog_transparent {ω α : Type} (wi : WImpl ω) (p : WProg α) (s : ω) :
    p.run (Gen.DbgW.impl wi) s = p.run wi s := by
  induction p generalizing s with
  | ret a => rfl
  | panic => rfl
  | dpanic => rfl
  | writeBits v n k ih =>
    simp only [WProg.run, Gen.DbgW.impl, write_bits_eq]
    cases wi.writeBits s v n with
    | ok x => exact ih x.1 x.2
    | err e => rfl
    | panic => rfl
    | dpanic => rfl
  | writeUnary x k ih =>
    simp only [WProg.run, Gen.DbgW.impl, write_unary_eq]
    cases wi.writeUnary s x with
    | ok x => exact ih x.1 x.2
    | err e => rfl
    | panic => rfl
    | dpanic => rfl
  | flush k ih =>
    simp only [WProg.run, Gen.DbgW.impl, flush_eq]
    cases wi.flush s with
    | ok x => exact ih x.1 x.2
    | err e => rfl
    | panic => rfl
    | dpanic => rfl

/-- the generic bulk copy (the wrappers do not override `copy_to` / `copy_from`: the trait's default
    loop runs through them) -/
theorem copyGeneric_transparent {ρ ω : Type} (ri : RImpl ρ) (wi : WImpl ω) (fuel : Nat) (r : ρ) (w : ω) (n : Nat) :
    copyGeneric (Gen.DbgR.impl ri) (Gen.DbgW.impl wi) fuel r w n = copyGeneric ri wi fuel r w n := by
  rw [reader_impl_eq, writer_impl_eq]

/-! ### the code operations of a `wrap=dbg` session

  What `r.read_<code>()` / `w.write_<code>(v)` run on a wrapped object: for the code traits the
  wrappers implement themselves (`forwardedLen` lists them: γ, δ, ζ with the default parameters)
  the translated method, whose `inner_m` is the wrapped object running the method's program; every
  other code is a blanket impl over `BitRead` / `BitWrite` and runs its program through the wrapper's
  `BitRead` / `BitWrite` impl. -/

def dbgRcode {ρ : Type} (ri : RImpl ρ) (e : Endian) (code flags : String) (p : Nat) (r : ρ) :
    Option (Res (Nat × ρ)) :=
  match forwardedLen code flags p, readProg e code flags p with
  | some _, some prog =>
    some (match code with
      | "gamma" => Gen.DbgBitReader.read_gamma (inner_read_gamma := fun i => prog.run ri i) r
      | "delta" => Gen.DbgBitReader.read_delta (inner_read_delta := fun i => prog.run ri i) r
      | "zeta3" => Gen.DbgBitReader.read_zeta3 (inner_read_zeta3 := fun i => prog.run ri i) r
      | _ => Gen.DbgBitReader.read_zeta (inner_read_zeta := fun i _ => prog.run ri i) r p)
  | none, some prog => some (prog.run (Gen.DbgR.impl ri) r)
  | _, none => none

def dbgWcode {ω : Type} (wi : WImpl ω) (e : Endian) (checks : Bool) (code flags : String) (p v : Nat) (w : ω) :
    Option (Res (Nat × ω)) :=
  match forwardedLen code flags p, writeProg e checks code flags p v with
  | some _, some prog =>
    some (match code with
      | "gamma" => Gen.DbgBitWriter.write_gamma (inner_write_gamma := fun i _ => prog.run wi i) w v
      | "delta" => Gen.DbgBitWriter.write_delta (inner_write_delta := fun i _ => prog.run wi i) w v
      | "zeta3" => Gen.DbgBitWriter.write_zeta3 (inner_write_zeta3 := fun i _ => prog.run wi i) w v
      | _ => Gen.DbgBitWriter.write_zeta (inner_write_zeta := fun i _ _ => prog.run wi i) w v p)
  | none, some prog => some (prog.run (Gen.DbgW.impl wi) w)
  | _, none => none

/-- every code read through `DbgBitReader` is the bare machine's (`Mach.rcode` of `machL3`) -/
theorem rcode_transparent {ρ : Type} (ri : RImpl ρ) (e : Endian) (code flags : String) (p : Nat) (r : ρ) :
    dbgRcode ri e code flags p r = (readProg e code flags p).map fun prog => prog.run ri r := by
  unfold dbgRcode
  cases hp : readProg e code flags p with
  | none => cases forwardedLen code flags p <;> rfl
  | some prog =>
    cases forwardedLen code flags p with
    | none => simp only [Option.map, rprog_transparent]
    | some len =>
      simp only [Option.map, Option.some.injEq]
      split <;> simp only [read_gamma_eq, read_delta_eq, read_zeta3_eq, read_zeta_eq]

/-- every code write through `DbgBitWriter` is the bare machine's (`Mach.wcode` of `machL3`) -/
theorem wcode_transparent {ω : Type} (wi : WImpl ω) (e : Endian) (checks : Bool) (code flags : String)
    (p v : Nat) (w : ω) :
    dbgWcode wi e checks code flags p v w
      = (writeProg e checks code flags p v).map fun prog => prog.run wi w := by
  unfold dbgWcode
  cases hp : writeProg e checks code flags p v with
  | none => cases forwardedLen code flags p <;> rfl
  | some prog =>
    cases forwardedLen code flags p with
    | none => simp only [Option.map, wprog_transparent]
    | some len =>
      simp only [Option.map, Option.some.injEq]
      split <;> simp only [write_gamma_eq, write_delta_eq, write_zeta3_eq, write_zeta_eq]

end DbgGen
end Dsi
