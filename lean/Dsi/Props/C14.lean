/-
  C14 — the counting wrappers are transparent (same results, same inner stream) and their
  counters are exact on the reference writer / reader.
-/
import Dsi.Glue.Wrappers
import Dsi.Ref
import Dsi.Codes
namespace Dsi

namespace SmallL
theorem fieldLE_len (v n : Nat) : (fieldLE v n).length = n := by
  induction n generalizing v with
  | zero => rfl
  | succ n ih => simp [fieldLE, ih]
theorem fieldBits_len (e : Endian) (v n : Nat) : (fieldBits e v n).length = n := by
  cases e <;> simp [fieldBits, fieldLE_len]
theorem unaryBits_len (x : Nat) : (unaryBits x).length = x + 1 := by simp [unaryBits]

@[simp] theorem rmap_ok {α β} (f : α → β) (a : α) : Res.map f (.ok a) = .ok (f a) := rfl
@[simp] theorem rmap_err {α β} (f : α → β) (e : Err) : Res.map f (.err e : Res α) = .err e := rfl
@[simp] theorem rmap_panic {α β} (f : α → β) : Res.map f (.panic : Res α) = .panic := rfl
@[simp] theorem rmap_dpanic {α β} (f : α → β) : Res.map f (.dpanic : Res α) = .dpanic := rfl
end SmallL
open SmallL

/-! ### writers -/

/-- Running any writer program through `CountBitWriter` gives the same result and leaves the
    inner writer in the same state as running it on the inner writer directly. -/
theorem countw_transparent {ω α : Type} (wi : WImpl ω) (p : WProg α) (i : ω) (c : Nat) :
    (p.run (CountW.impl wi) ⟨i, c⟩).map (fun (a, s) => (a, s.inner)) = p.run wi i := by
  induction p generalizing i c with
  | ret a => rfl
  | panic => rfl
  | dpanic => rfl
  | writeBits v n k ih =>
    simp only [WProg.run, CountW.impl]
    cases h : wi.writeBits i v n with
    | ok x => obtain ⟨r, i'⟩ := x; simp only [rmap_ok]; exact ih r i' _
    | err e => rfl
    | panic => rfl
    | dpanic => rfl
  | writeUnary x k ih =>
    simp only [WProg.run, CountW.impl]
    cases h : wi.writeUnary i x with
    | ok x => obtain ⟨r, i'⟩ := x; simp only [rmap_ok]; exact ih r i' _
    | err e => rfl
    | panic => rfl
    | dpanic => rfl
  | flush k ih =>
    simp only [WProg.run, CountW.impl]
    cases h : wi.flush i with
    | ok x => obtain ⟨r, i'⟩ := x; simp only [rmap_ok]; exact ih r i' _
    | err e => rfl
    | panic => rfl
    | dpanic => rfl

/-! #### exactness on the reference writer -/

/-- `write_bits` adds exactly the `n` bits it appends -/
theorem countw_writeBits_exact (w : RefW) (c v n r : Nat) (s' : CountW RefW)
    (h : (CountW.impl RefW.impl).writeBits ⟨w, c⟩ v n = .ok (r, s')) :
    r = n ∧ s'.bitsWritten = c + n ∧ s'.inner.bits = w.bits ++ fieldBits w.e v n ∧
    s'.inner.bits.length = w.bits.length + n := by
  simp only [CountW.impl, RefW.impl, RefW.writeBits, RefW.put] at h
  split at h
  · cases h
  · split at h
    · cases h
    · split at h
      · simp only [rmap_ok, Res.ok.injEq, Prod.mk.injEq] at h
        obtain ⟨rfl, rfl⟩ := h
        simp [fieldBits_len]
      · cases h

/-- `write_unary` adds exactly the `x + 1` bits it appends -/
theorem countw_writeUnary_exact (w : RefW) (c x r : Nat) (s' : CountW RefW)
    (h : (CountW.impl RefW.impl).writeUnary ⟨w, c⟩ x = .ok (r, s')) :
    r = x + 1 ∧ s'.bitsWritten = c + (x + 1) ∧ s'.inner.bits = w.bits ++ unaryBits x ∧
    s'.inner.bits.length = w.bits.length + (x + 1) := by
  simp only [CountW.impl, RefW.impl, RefW.writeUnary, RefW.put] at h
  split at h
  · cases h
  · split at h
    · simp only [rmap_ok, Res.ok.injEq, Prod.mk.injEq] at h
      obtain ⟨rfl, rfl⟩ := h
      simp [unaryBits_len]
    · cases h

/-- `flush` adds nothing to the counter (the padding is not data; the pending bits were counted
    when they were written) -/
theorem countw_flush_exact (w : RefW) (c r : Nat) (s' : CountW RefW)
    (h : (CountW.impl RefW.impl).flush ⟨w, c⟩ = .ok (r, s')) :
    s'.bitsWritten = c ∧ r = w.pending ∧
    s'.inner.bits = w.bits ++ List.replicate ((w.W - w.pending) % w.W) false := by
  simp only [CountW.impl, RefW.impl, RefW.flush, RefW.put] at h
  split at h
  · simp only [rmap_ok, Res.ok.injEq, Prod.mk.injEq] at h
    obtain ⟨rfl, rfl⟩ := h
    simp
  · cases h

/-- the number of bits the `write_bits` / `write_unary` operations of a program append to the
    reference stream when the program runs from state `w` (flush padding excluded) -/
def WProg.dataBits {α : Type} : WProg α → RefW → Nat
  | .writeBits v n k, w =>
    match RefW.writeBits w v n with
    | .ok (r, w') => (w'.bits.length - w.bits.length) + dataBits (k r) w'
    | _ => 0
  | .writeUnary x k, w =>
    match RefW.writeUnary w x with
    | .ok (r, w') => (w'.bits.length - w.bits.length) + dataBits (k r) w'
    | _ => 0
  | .flush k, w =>
    match RefW.flush w with
    | .ok (r, w') => dataBits (k r) w'
    | _ => 0
  | _, _ => 0

/-- programs without `flush` -/
def WProg.flushFree {α : Type} : WProg α → Prop
  | .writeBits _ _ k => ∀ r, flushFree (k r)
  | .writeUnary _ k => ∀ r, flushFree (k r)
  | .flush _ => False
  | _ => True

/-- After any program on the reference writer the counter has increased by exactly the number of
    bits its `write_bits` / `write_unary` operations appended. -/
theorem countw_exact {α : Type} (p : WProg α) (w w' : RefW) (c c' : Nat) (a : α)
    (h : p.run (CountW.impl RefW.impl) ⟨w, c⟩ = .ok (a, ⟨w', c'⟩)) :
    c' = c + p.dataBits w := by
  induction p generalizing w c with
  | ret a => simp only [WProg.run, Res.ok.injEq, Prod.mk.injEq, CountW.mk.injEq] at h; simp [WProg.dataBits, h.2.2]
  | panic => cases h
  | dpanic => cases h
  | writeBits v n k ih =>
    simp only [WProg.run] at h
    cases hs : (CountW.impl RefW.impl).writeBits ⟨w, c⟩ v n with
    | ok x =>
      obtain ⟨r, s'⟩ := x
      obtain ⟨w1, c1⟩ := s'
      rw [hs] at h
      obtain ⟨_, hc, _, hl⟩ := countw_writeBits_exact w c v n r _ hs
      have hi : RefW.writeBits w v n = .ok (r, w1) := by
        simp only [CountW.impl, RefW.impl] at hs
        cases hq : RefW.writeBits w v n with
        | ok y => rw [hq] at hs; simp only [rmap_ok, Res.ok.injEq, Prod.mk.injEq, CountW.mk.injEq] at hs; obtain ⟨rfl, rfl, _⟩ := hs; rfl
        | err e => rw [hq] at hs; cases hs
        | panic => rw [hq] at hs; cases hs
        | dpanic => rw [hq] at hs; cases hs
      have := ih r w1 c1 h
      simp only at hc hl
      simp only [WProg.dataBits, hi]
      omega
    | err e => rw [hs] at h; cases h
    | panic => rw [hs] at h; cases h
    | dpanic => rw [hs] at h; cases h
  | writeUnary x k ih =>
    simp only [WProg.run] at h
    cases hs : (CountW.impl RefW.impl).writeUnary ⟨w, c⟩ x with
    | ok y =>
      obtain ⟨r, s'⟩ := y
      obtain ⟨w1, c1⟩ := s'
      rw [hs] at h
      obtain ⟨_, hc, _, hl⟩ := countw_writeUnary_exact w c x r _ hs
      have hi : RefW.writeUnary w x = .ok (r, w1) := by
        simp only [CountW.impl, RefW.impl] at hs
        cases hq : RefW.writeUnary w x with
        | ok y => rw [hq] at hs; simp only [rmap_ok, Res.ok.injEq, Prod.mk.injEq, CountW.mk.injEq] at hs; obtain ⟨rfl, rfl, _⟩ := hs; rfl
        | err e => rw [hq] at hs; cases hs
        | panic => rw [hq] at hs; cases hs
        | dpanic => rw [hq] at hs; cases hs
      have := ih r w1 c1 h
      simp only at hc hl
      simp only [WProg.dataBits, hi]
      omega
    | err e => rw [hs] at h; cases h
    | panic => rw [hs] at h; cases h
    | dpanic => rw [hs] at h; cases h
  | flush k ih =>
    simp only [WProg.run] at h
    cases hs : (CountW.impl RefW.impl).flush ⟨w, c⟩ with
    | ok y =>
      obtain ⟨r, s'⟩ := y
      obtain ⟨w1, c1⟩ := s'
      rw [hs] at h
      obtain ⟨hc, _, _⟩ := countw_flush_exact w c r _ hs
      have hi : RefW.flush w = .ok (r, w1) := by
        simp only [CountW.impl, RefW.impl] at hs
        cases hq : RefW.flush w with
        | ok y => rw [hq] at hs; simp only [rmap_ok, Res.ok.injEq, Prod.mk.injEq, CountW.mk.injEq] at hs; obtain ⟨rfl, rfl, _⟩ := hs; rfl
        | err e => rw [hq] at hs; cases hs
        | panic => rw [hq] at hs; cases hs
        | dpanic => rw [hq] at hs; cases hs
      have := ih r w1 c1 h
      simp only at hc
      simp only [WProg.dataBits, hi]
      omega
    | err e => rw [hs] at h; cases h
    | panic => rw [hs] at h; cases h
    | dpanic => rw [hs] at h; cases h

namespace SmallL
theorem refw_writeBits_ok {w w1 : RefW} {v n r : Nat} (h : RefW.writeBits w v n = .ok (r, w1)) :
    r = n ∧ w1.bits = w.bits ++ fieldBits w.e v n ∧ w.bits.length ≤ w1.bits.length := by
  simp only [RefW.writeBits, RefW.put] at h
  split at h
  · cases h
  · split at h
    · cases h
    · split at h
      · simp only [Res.ok.injEq, Prod.mk.injEq] at h
        obtain ⟨rfl, rfl⟩ := h
        simp
      · cases h

theorem refw_writeUnary_ok {w w1 : RefW} {x r : Nat} (h : RefW.writeUnary w x = .ok (r, w1)) :
    r = x + 1 ∧ w1.bits = w.bits ++ unaryBits x ∧ w.bits.length ≤ w1.bits.length := by
  simp only [RefW.writeUnary, RefW.put] at h
  split at h
  · cases h
  · split at h
    · simp only [Res.ok.injEq, Prod.mk.injEq] at h
      obtain ⟨rfl, rfl⟩ := h
      simp
    · cases h

theorem dataBits_flushFree {α : Type} (p : WProg α) (hf : p.flushFree) (w w' : RefW) (a : α)
    (h : p.run RefW.impl w = .ok (a, w')) : w'.bits.length = w.bits.length + p.dataBits w := by
  induction p generalizing w with
  | ret a => simp only [WProg.run, Res.ok.injEq, Prod.mk.injEq] at h; simp [WProg.dataBits, h.2]
  | panic => cases h
  | dpanic => cases h
  | writeBits v n k ih =>
    simp only [WProg.run, RefW.impl] at h
    cases hs : RefW.writeBits w v n with
    | ok x =>
      obtain ⟨r, w1⟩ := x
      rw [hs] at h
      have := ih r (hf r) w1 h
      have hle := (refw_writeBits_ok hs).2.2
      simp only [WProg.dataBits, hs]
      omega
    | err e => rw [hs] at h; cases h
    | panic => rw [hs] at h; cases h
    | dpanic => rw [hs] at h; cases h
  | writeUnary x k ih =>
    simp only [WProg.run, RefW.impl] at h
    cases hs : RefW.writeUnary w x with
    | ok y =>
      obtain ⟨r, w1⟩ := y
      rw [hs] at h
      have := ih r (hf r) w1 h
      have hle := (refw_writeUnary_ok hs).2.2
      simp only [WProg.dataBits, hs]
      omega
    | err e => rw [hs] at h; cases h
    | panic => rw [hs] at h; cases h
    | dpanic => rw [hs] at h; cases h
  | flush k ih => exact absurd hf (by simp [WProg.flushFree])
end SmallL

/-- the inner run of a counted run -/
theorem countw_inner_run {ω α : Type} (wi : WImpl ω) (p : WProg α) (i i' : ω) (c c' : Nat) (a : α)
    (h : p.run (CountW.impl wi) ⟨i, c⟩ = .ok (a, ⟨i', c'⟩)) : p.run wi i = .ok (a, i') := by
  rw [← countw_transparent wi p i c, h]; rfl

/-- For a program without `flush` (every code of the library) the counter increase is the growth of
    the reference stream. -/
theorem countw_exact_flushFree {α : Type} (p : WProg α) (hf : p.flushFree) (w w' : RefW) (c c' : Nat) (a : α)
    (h : p.run (CountW.impl RefW.impl) ⟨w, c⟩ = .ok (a, ⟨w', c'⟩)) :
    c' + w.bits.length = c + w'.bits.length := by
  have h1 := countw_exact p w w' c c' a h
  have h2 := dataBits_flushFree p hf w w' a (countw_inner_run _ p w w' c c' a h)
  omega

/-- The specialised `GammaWrite`/… implementations (`forward`) add the value the program returns:
    they agree with the generic counting whenever the program returns the number of bits it wrote
    (which the `Writes` theorems state for every code). -/
theorem countw_forward_exact (p : WProg Nat) (hf : p.flushFree) (w : RefW) (c : Nat)
    (hlen : ∀ r w', p.run RefW.impl w = .ok (r, w') → w'.bits.length = w.bits.length + r) :
    CountW.forward RefW.impl p ⟨w, c⟩ = p.run (CountW.impl RefW.impl) ⟨w, c⟩ := by
  have ht := countw_transparent RefW.impl p w c
  unfold CountW.forward
  cases hr : p.run (CountW.impl RefW.impl) ⟨w, c⟩ with
  | ok x =>
    obtain ⟨r, ⟨w', c'⟩⟩ := x
    rw [hr] at ht
    simp only [rmap_ok] at ht
    rw [← ht]
    have h1 := countw_exact_flushFree p hf w w' c c' r hr
    have h2 := hlen r w' ht.symm
    have : c' = c + r := by omega
    simp [this]
  | err e => rw [hr] at ht; rw [← ht]; rfl
  | panic => rw [hr] at ht; rw [← ht]; rfl
  | dpanic => rw [hr] at ht; rw [← ht]; rfl

/-- `forward` is transparent as well -/
theorem countw_forward_transparent {ω : Type} (wi : WImpl ω) (p : WProg Nat) (i : ω) (c : Nat) :
    (CountW.forward wi p ⟨i, c⟩).map (fun (a, s) => (a, s.inner)) = p.run wi i := by
  unfold CountW.forward
  cases p.run wi i with
  | ok x => rfl
  | err e => rfl
  | panic => rfl
  | dpanic => rfl

/-! ### readers -/

/-- Running any reader program (`peek_bits` included) through `CountBitReader` gives the same
    result and leaves the inner reader in the same state. -/
theorem countr_transparent {ρ α : Type} (ri : RImpl ρ) (p : RProg α) (r : ρ) (c : Nat) :
    (p.run (CountR.impl ri) ⟨r, c⟩).map (fun (a, s) => (a, s.inner)) = p.run ri r := by
  induction p generalizing r c with
  | ret a => rfl
  | fail e => rfl
  | panic => rfl
  | dpanic => rfl
  | readBits n k ih =>
    simp only [RProg.run, CountR.impl]
    cases h : ri.readBits r n with
    | ok x => obtain ⟨v, r'⟩ := x; simp only [rmap_ok]; exact ih v r' _
    | err e => rfl
    | panic => rfl
    | dpanic => rfl
  | readUnary k ih =>
    simp only [RProg.run, CountR.impl]
    cases h : ri.readUnary r with
    | ok x => obtain ⟨v, r'⟩ := x; simp only [rmap_ok]; exact ih v r' _
    | err e => rfl
    | panic => rfl
    | dpanic => rfl
  | peek n k ih =>
    simp only [RProg.run, CountR.impl]
    cases h : ri.peekBits r n with
    | ok x => obtain ⟨v, r'⟩ := x; simp only [rmap_ok]; exact ih (.ok v) r' _
    | err e => simp only [rmap_err]; exact ih (.error e) r c
    | panic => rfl
    | dpanic => rfl
  | skipAfterPeek n k ih =>
    simp only [RProg.run, CountR.impl]
    exact ih _ _
  | skip n k ih =>
    simp only [RProg.run, CountR.impl]
    cases h : ri.skipBits r n with
    | ok r' => simp only [rmap_ok]; exact ih r' _
    | err e => rfl
    | panic => rfl
    | dpanic => rfl

theorem countr_inner_run {ρ α : Type} (ri : RImpl ρ) (p : RProg α) (r r' : ρ) (c c' : Nat) (a : α)
    (h : p.run (CountR.impl ri) ⟨r, c⟩ = .ok (a, ⟨r', c'⟩)) : p.run ri r = .ok (a, r') := by
  rw [← countr_transparent ri p r c, h]; rfl

/-! #### exactness on the reference reader: each operation counts what it consumes -/

theorem countr_readBits_exact (r : RefR) (c n v : Nat) (s' : CountR RefR)
    (h : (CountR.impl RefR.impl).readBits ⟨r, c⟩ n = .ok (v, s')) :
    s'.bitsRead = c + n ∧ s'.inner.pos = r.pos + n := by
  simp only [CountR.impl, RefR.impl, RefR.readBits] at h
  split at h
  · cases h
  · split at h
    · simp only [rmap_ok, Res.ok.injEq, Prod.mk.injEq] at h
      obtain ⟨_, rfl⟩ := h; exact ⟨rfl, rfl⟩
    · cases h

/-- `peek_bits` is free: neither the counter nor the position moves -/
theorem countr_peek_exact (r : RefR) (c n v : Nat) (s' : CountR RefR)
    (h : (CountR.impl RefR.impl).peekBits ⟨r, c⟩ n = .ok (v, s')) :
    s'.bitsRead = c ∧ s'.inner.pos = r.pos := by
  simp only [CountR.impl, RefR.impl, RefR.peekBits] at h
  split at h
  · cases h
  · split at h
    · simp only [rmap_ok, Res.ok.injEq, Prod.mk.injEq] at h
      obtain ⟨_, rfl⟩ := h; exact ⟨rfl, rfl⟩
    · cases h

theorem countr_skipAfterPeek_exact (r : RefR) (c n : Nat) :
    ((CountR.impl RefR.impl).skipAfterPeek ⟨r, c⟩ n).bitsRead = c + n ∧
    ((CountR.impl RefR.impl).skipAfterPeek ⟨r, c⟩ n).inner.pos = r.pos + n := ⟨rfl, rfl⟩

theorem countr_skipBits_exact (r : RefR) (c n : Nat) (s' : CountR RefR)
    (h : (CountR.impl RefR.impl).skipBits ⟨r, c⟩ n = .ok s') :
    s'.bitsRead = c + n ∧ s'.inner.pos = r.pos + n := by
  simp only [CountR.impl, RefR.impl, RefR.skipBits] at h
  split at h
  · simp only [rmap_ok, Res.ok.injEq] at h
    subst h; exact ⟨rfl, rfl⟩
  · cases h

theorem countr_readUnary_exact (r : RefR) (c v : Nat) (s' : CountR RefR)
    (h : (CountR.impl RefR.impl).readUnary ⟨r, c⟩ = .ok (v, s')) :
    s'.bitsRead = c + v + 1 ∧ s'.inner.pos = r.pos + v + 1 := by
  simp only [CountR.impl, RefR.impl, RefR.readUnary] at h
  split at h
  · simp only [rmap_ok, Res.ok.injEq, Prod.mk.injEq] at h
    obtain ⟨rfl, rfl⟩ := h; exact ⟨rfl, rfl⟩
  · split at h <;> cases h

/-- After any program on the reference reader the counter has increased by exactly the number of
    bits consumed: `c' - c = r'.pos - r.pos` (stated without truncated subtraction). -/
theorem countr_exact {α : Type} (p : RProg α) (r r' : RefR) (c c' : Nat) (a : α)
    (h : p.run (CountR.impl RefR.impl) ⟨r, c⟩ = .ok (a, ⟨r', c'⟩)) :
    c' + r.pos = c + r'.pos ∧ r.pos ≤ r'.pos := by
  induction p generalizing r c with
  | ret a =>
    simp only [RProg.run, Res.ok.injEq, Prod.mk.injEq, CountR.mk.injEq] at h
    obtain ⟨_, rfl, rfl⟩ := h; exact ⟨rfl, Nat.le_refl _⟩
  | fail e => cases h
  | panic => cases h
  | dpanic => cases h
  | readBits n k ih =>
    simp only [RProg.run] at h
    cases hs : (CountR.impl RefR.impl).readBits ⟨r, c⟩ n with
    | ok x =>
      obtain ⟨v, ⟨r1, c1⟩⟩ := x
      rw [hs] at h
      obtain ⟨hc, hp⟩ := countr_readBits_exact r c n v _ hs
      have := ih v r1 c1 h
      simp only at hc hp
      omega
    | err e => rw [hs] at h; cases h
    | panic => rw [hs] at h; cases h
    | dpanic => rw [hs] at h; cases h
  | readUnary k ih =>
    simp only [RProg.run] at h
    cases hs : (CountR.impl RefR.impl).readUnary ⟨r, c⟩ with
    | ok x =>
      obtain ⟨v, ⟨r1, c1⟩⟩ := x
      rw [hs] at h
      obtain ⟨hc, hp⟩ := countr_readUnary_exact r c v _ hs
      have := ih v r1 c1 h
      simp only at hc hp
      omega
    | err e => rw [hs] at h; cases h
    | panic => rw [hs] at h; cases h
    | dpanic => rw [hs] at h; cases h
  | peek n k ih =>
    simp only [RProg.run] at h
    cases hs : (CountR.impl RefR.impl).peekBits ⟨r, c⟩ n with
    | ok x =>
      obtain ⟨v, ⟨r1, c1⟩⟩ := x
      rw [hs] at h
      obtain ⟨hc, hp⟩ := countr_peek_exact r c n v _ hs
      have := ih (.ok v) r1 c1 h
      simp only at hc hp
      omega
    | err e => rw [hs] at h; exact ih (.error e) r c h
    | panic => rw [hs] at h; cases h
    | dpanic => rw [hs] at h; cases h
  | skipAfterPeek n k ih =>
    simp only [RProg.run] at h
    have := ih _ _ h
    simp only [RefR.impl, RefR.skipAfterPeek] at this
    omega
  | skip n k ih =>
    simp only [RProg.run] at h
    cases hs : (CountR.impl RefR.impl).skipBits ⟨r, c⟩ n with
    | ok x =>
      obtain ⟨r1, c1⟩ := x
      rw [hs] at h
      obtain ⟨hc, hp⟩ := countr_skipBits_exact r c n _ hs
      have := ih r1 c1 h
      simp only at hc hp
      omega
    | err e => rw [hs] at h; cases h
    | panic => rw [hs] at h; cases h
    | dpanic => rw [hs] at h; cases h

/-- the subtraction form of `countr_exact` -/
theorem countr_exact_sub {α : Type} (p : RProg α) (r r' : RefR) (c c' : Nat) (a : α)
    (h : p.run (CountR.impl RefR.impl) ⟨r, c⟩ = .ok (a, ⟨r', c'⟩)) :
    c' - c = r'.pos - r.pos := by
  have := countr_exact p r r' c c' a h
  omega

/-- `forward` (the specialised `GammaRead`/… implementations add `len_code(value)`) is transparent -/
theorem countr_forward_transparent {ρ : Type} (ri : RImpl ρ) (p : RProg Nat) (len : Nat → Nat) (r : ρ) (c : Nat) :
    (CountR.forward ri p len ⟨r, c⟩).map (fun (a, s) => (a, s.inner)) = p.run ri r := by
  unfold CountR.forward
  cases p.run ri r with
  | ok x => rfl
  | err e => rfl
  | panic => rfl
  | dpanic => rfl

/-- `forward` is exact (agrees with the generic counting, hence with the bits consumed) whenever
    `len v` is the number of bits `p` consumes when it returns `v`. -/
theorem countr_forward_exact (p : RProg Nat) (len : Nat → Nat) (r : RefR) (c : Nat)
    (hlen : ∀ v r', p.run RefR.impl r = .ok (v, r') → r'.pos = r.pos + len v) :
    CountR.forward RefR.impl p len ⟨r, c⟩ = p.run (CountR.impl RefR.impl) ⟨r, c⟩ := by
  have ht := countr_transparent RefR.impl p r c
  unfold CountR.forward
  cases hr : p.run (CountR.impl RefR.impl) ⟨r, c⟩ with
  | ok x =>
    obtain ⟨v, ⟨r', c'⟩⟩ := x
    rw [hr] at ht
    simp only [rmap_ok] at ht
    rw [← ht]
    have h1 := countr_exact p r r' c c' v hr
    have h2 := hlen v r' ht.symm
    have : c' = c + len v := by omega
    simp [this]
  | err e => rw [hr] at ht; rw [← ht]; rfl
  | panic => rw [hr] at ht; rw [← ht]; rfl
  | dpanic => rw [hr] at ht; rw [← ht]; rfl

/-- consequently: after `forward`, the counter increase is the number of bits consumed -/
theorem countr_forward_counts (p : RProg Nat) (len : Nat → Nat) (r r' : RefR) (c c' v : Nat)
    (hlen : ∀ v r', p.run RefR.impl r = .ok (v, r') → r'.pos = r.pos + len v)
    (h : CountR.forward RefR.impl p len ⟨r, c⟩ = .ok (v, ⟨r', c'⟩)) :
    c' + r.pos = c + r'.pos := by
  rw [countr_forward_exact p len r c hlen] at h
  exact (countr_exact p r r' c c' v h).1

/-! ### concrete instances -/

/-- γ(5) then a flush on an 8-bit big-endian reference stream: 5 bits counted, 8 bits in the stream -/
example :
    (((writeGammaDefault false 5).bind fun a => WProg.flush fun _ => .ret a).run (CountW.impl RefW.impl)
        ⟨{ e := .be, W := 8 }, 0⟩).map (fun (a, s) => (a, s.bitsWritten, s.inner.bits.length)) =
      .ok (5, 5, 8) := by rfl

example (w' : RefW) (c' a : Nat)
    (h : (writeGammaDefault true 5).run (CountW.impl RefW.impl) ⟨{ e := .le, W := 64 }, 10⟩ = .ok (a, ⟨w', c'⟩)) :
    c' = 10 + w'.bits.length := by
  have hf : (writeGammaDefault true 5).flushFree := by
    simp [writeGammaDefault, WProg.flushFree]
  have := countw_exact_flushFree _ hf _ _ _ _ _ h
  simpa [Nat.add_comm] using this

/-- a peek, a skip of part of what was peeked, then a γ read: the counter is the position -/
example :
    ((RProg.peek 4 fun _ => .skipAfterPeek 2 readGammaDefault).run (CountR.impl RefR.impl)
        ⟨{ e := .be, stream := [true, false, false, false, true, true, false, true] }, 0⟩).map
        (fun (a, s) => (a, s.bitsRead, s.inner.pos)) = .ok (5, 7, 7) := by rfl

example (p : RProg Nat) (r r' : RefR) (a c' : Nat)
    (h : p.run (CountR.impl RefR.impl) ⟨r, 0⟩ = .ok (a, ⟨r', c'⟩)) : c' = r'.pos - r.pos := by
  have := countr_exact_sub p r r' 0 c' a h
  simpa using this

end Dsi
