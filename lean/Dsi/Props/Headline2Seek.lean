/-
  Headline theorems for C07 (reported bit positions and seeks are exact for every history), stated
  over the bodies regenerated from src/impls/buf_bit_reader.rs and src/impls/bit_reader.rs on this
  run: `genRImpl e` / `genBitRImpl e` (the five `BitRead` methods, Lemmas/HeadlineRunR.lean),
  `GenBufR.genBitPos` / `GenBufR.genSetBitPos` and `genBitRBitPos` / `genBitRSetBitPos` (the
  `BitSeek` methods).  The specification is the reference reader `RefR` (lean/Dsi/Ref.lean): a list
  of bits and a cursor; its position *is* the number of bits preceding the next bit to be read, and
  `refAt e data strict pm pos` is "a fresh reader that has consumed exactly `pos` bits".
  Not generated: `BufR.new` (the constructor: zeroed struct over the backend `⟨data, 0, strict⟩`).

  Buffered reader (`BufBitReader<E, _>` over a memory backend of `W`-bit words):
  * `gen_bitPos_exact`: after ANY generated program (reads, peeks, skips after peek, skips, unary
    reads, hence every code reader, table-driven or not) from a fresh reader, same outcome as the
    reference reader, and the generated `bit_pos` answers the reference position;
  * `gen_setBitPos_fresh`: after any such program, the generated `set_bit_pos(pos)`, `pos` anywhere
    in `0..=stream length`, succeeds, and every subsequent generated program behaves as on the
    reference reader standing at `pos` (outcome and reported position);
  * `gen_setBitPos_eq_skip`: … hence as on a fresh generated reader that skipped `pos` bits;
  * `gen_seek_history`: any interleaving of programs and seeks, `bit_pos` asked after every step.
  Unbuffered reader (`BitReader<E, _>`): `gen_bitr_seek_history` (same statement).

  Hypotheses, and why:
  * `PeekBounded W 0 p` (every peek asks for at most `W` bits and every `skip_bits_after_peek` is
    covered by the preceding peek): the contract of `peek_bits` / `skip_bits_after_peek`;
    `BitROK` for the unbuffered reader (reads ≤ 64, peeks 1..32, `skip_bits` only on a zero-extended
    stream: its `skip_bits` never fails);
  * `e = .be → W ≤ 64`: from `readBits_sim` (the Rust has no wider reader words);
  * `hfit`: the backend is shorter than `2^64` bits (positions are `u64`);
  * the position condition `strict = true ∨ pos + 2 * W ≤ 2^64`: on a zero-extended backend the
    cursor can run arbitrarily far beyond the data and the Rust computes `word_pos * W - bits_in_buffer`
    in `u64`; on a strict backend it never leaves the data.
-/
import Dsi.Lemmas.Headline2Reader
namespace Dsi
namespace Headline2
open Headline
variable {W : Nat}

/-! ## 1. the buffered reader: one program, then `bit_pos` -/

/-- **C07, positions.**  Any generated program from a fresh generated `BufBitReader`: same outcome
    (value, or the same error / panic kind) as on the reference reader, and the generated `bit_pos`
    then answers exactly the reference position (the number of bits consumed). -/
theorem gen_bitPos_exact {α : Type} (e : Endian) (hW : 0 < W) (hW64 : e = .be → W ≤ 64)
    (data : List (BitVec W)) (strict : Bool) (hfit : data.length * W + 4 * W < 2 ^ 64)
    (p : RProg α) (hp : PeekBounded W 0 p) :
    ResRel (fun (x : α × BufR W) (y : α × RefR) => x.1 = y.1 ∧
        ((y.2.strict = true ∨ y.2.pos + 2 * W ≤ 2 ^ 64) →
          GenBufR.genBitPos e x.2 = .ok (y.2.pos, x.2)))
      (p.run (genRImpl e) (BufR.new ⟨data, 0, strict⟩))
      (p.run RefR.impl (refAt e data strict W 0)) :=
  (gen_run_sim hW64 p hp (ginv_new e hW data strict hfit)).mono_rr
    (fun _ _ h => ⟨h.1, fun hf => gen_bitPos_ginv h.2 hf⟩)

/-- **C07, seeks.**  After any generated program `p` from a fresh reader, the generated
    `set_bit_pos(pos)` (`0 ≤ pos ≤` stream length, aligned or not) succeeds, and every subsequent
    generated program `q` has the outcome it has on the reference reader standing at `pos` — a
    fresh reader that had consumed exactly `pos` bits — and the generated `bit_pos` then answers
    the reference position. -/
theorem gen_setBitPos_fresh {α β : Type} (e : Endian) (hW : 0 < W) (hW64 : e = .be → W ≤ 64)
    (data : List (BitVec W)) (strict : Bool) (hfit : data.length * W + 4 * W < 2 ^ 64)
    (p : RProg α) (hp : PeekBounded W 0 p) {a : α} {s1 : BufR W}
    (hrun : p.run (genRImpl e) (BufR.new ⟨data, 0, strict⟩) = .ok (a, s1))
    (pos : Nat) (hpos : pos ≤ data.length * W) :
    ∃ s2, GenBufR.genSetBitPos e s1 (BitVec.ofNat 64 pos) = .ok s2 ∧
      ∀ (q : RProg β), PeekBounded W 0 q →
        ResRel (fun (x : β × BufR W) (y : β × RefR) => x.1 = y.1 ∧
            ((y.2.strict = true ∨ y.2.pos + 2 * W ≤ 2 ^ 64) →
              GenBufR.genBitPos e x.2 = .ok (y.2.pos, x.2)))
          (q.run (genRImpl e) s2) (q.run RefR.impl (refAt e data strict W pos)) := by
  obtain ⟨r1, hr1, hi1⟩ := gen_run_ok hW64 p hp (ginv_new e hW data strict hfit) hrun
  have hr1' := ref_run_refAt hr1
  have hlen : r1.stream.length = data.length * W := by
    rw [hr1']; show (data.flatMap (wordBits e)).length = _; rw [length_flatMap_wordBits]
  obtain ⟨s2, hs2, hi2⟩ := gen_setBitPos_ginv hi1 (pos := pos) (by rw [hlen]; exact hpos)
  have hseek : r1.seek pos = refAt e data strict W pos := by rw [hr1']; rfl
  rw [hseek] at hi2
  exact ⟨s2, hs2, fun q hq => (gen_run_sim hW64 q hq hi2).mono_rr
    (fun _ _ h => ⟨h.1, fun hf => gen_bitPos_ginv h.2 hf⟩)⟩

/-- … hence as a fresh generated reader that skipped `pos` bits: same values, same failures. -/
theorem gen_setBitPos_eq_skip {α β : Type} (e : Endian) (hW : 0 < W) (hW64 : e = .be → W ≤ 64)
    (data : List (BitVec W)) (strict : Bool) (hfit : data.length * W + 4 * W < 2 ^ 64)
    (p : RProg α) (hp : PeekBounded W 0 p) {a : α} {s1 : BufR W}
    (hrun : p.run (genRImpl e) (BufR.new ⟨data, 0, strict⟩) = .ok (a, s1))
    (pos : Nat) (hpos : pos ≤ data.length * W) :
    ∃ s2 s3, GenBufR.genSetBitPos e s1 (BitVec.ofNat 64 pos) = .ok s2 ∧
      (genRImpl e).skipBits (BufR.new ⟨data, 0, strict⟩) pos = .ok s3 ∧
      ∀ (q : RProg β), PeekBounded W 0 q →
        (q.run (genRImpl e) s2).map Prod.fst = (q.run (genRImpl e) s3).map Prod.fst := by
  obtain ⟨s2, hs2, hq2⟩ := gen_setBitPos_fresh (β := β) e hW hW64 data strict hfit p hp hrun pos hpos
  have hi0 := ginv_new e hW data strict hfit
  have href : (RProg.skip pos (.ret ())).run RefR.impl (refAt e data strict W 0)
      = .ok ((), refAt e data strict W pos) := by
    have hav : (refAt e data strict W 0).avail pos = true := by
      unfold RefR.avail refAt
      simp only [length_flatMap_wordBits, Nat.zero_add, Bool.or_eq_true, Bool.not_eq_eq_eq_not,
        Bool.not_true, decide_eq_true_eq]
      exact Or.inr hpos
    have hsk : RefR.impl.skipBits (refAt e data strict W 0) pos = .ok (refAt e data strict W pos) := by
      show RefR.skipBits _ _ = _
      unfold RefR.skipBits
      rw [if_pos hav]
      simp [refAt]
    simp only [RProg.run, hsk]
  obtain ⟨s3, hs3, hi3⟩ := gen_run_of_ref_ok hW64 (RProg.skip pos (.ret ())) (by simp only [PeekBounded]) hi0 href
  have hs3' : (genRImpl e).skipBits (BufR.new ⟨data, 0, strict⟩) pos = .ok s3 := by
    simp only [RProg.run] at hs3
    cases hk : (genRImpl e).skipBits (BufR.new ⟨data, 0, strict⟩) pos with
    | ok s' => rw [hk] at hs3; cases hs3; rfl
    | err _ => rw [hk] at hs3; cases hs3
    | panic => rw [hk] at hs3; cases hs3
    | dpanic => rw [hk] at hs3; cases hs3
  refine ⟨s2, s3, hs2, hs3', fun q hq => ?_⟩
  exact resRel_fst_eq (fun _ _ h => h.1) (fun _ _ h => h.1) (hq2 q hq) (gen_run_sim hW64 q hq hi3)

/-! ## 2. histories: programs and seeks interleaved, `bit_pos` after every step -/

/-- a step of a history: a reader program returning a number, or `set_bit_pos(pos)` -/
inductive SeekOp where
  | run (p : RProg Nat)
  | seek (pos : Nat)

/-- run a history on a seekable reader; after every step ask `bit_pos`; the observations are the
    pairs (value returned — the target for a seek —, position reported) -/
def runHist {σ : Type} (I : RImpl σ) (bitPos : σ → Res (Nat × σ)) (setBitPos : σ → Nat → Res σ) :
    List SeekOp → σ → Res (List (Nat × Nat) × σ)
  | [], s => .ok ([], s)
  | op :: ops, s =>
    Res.bind (match op with
      | .run p => p.run I s
      | .seek pos => (setBitPos s pos).map fun s' => (pos, s')) fun x =>
    Res.bind (bitPos x.2) fun y =>
    Res.bind (runHist I bitPos setBitPos ops y.2) fun z => .ok ((x.1, y.1) :: z.1, z.2)

/-- the reference reader as a seekable reader: `bit_pos` is the cursor, `set_bit_pos` moves it -/
def refBitPos (r : RefR) : Res (Nat × RefR) := .ok (r.pos, r)
def refSetBitPos (r : RefR) (pos : Nat) : Res RefR := .ok (r.seek pos)

/-- the general step-by-step argument -/
theorem hist_ok {σ : Type} (I : RImpl σ) (bp : σ → Res (Nat × σ)) (sp : σ → Nat → Res σ)
    (Inv : σ → RefR → Prop) (OK : RProg Nat → Prop) (FitPos : Nat → Prop) (L : Nat)
    (hrun : ∀ p s r a r', OK p → Inv s r → p.run RefR.impl r = .ok (a, r') → FitPos r'.pos →
      ∃ s', p.run I s = .ok (a, s') ∧ Inv s' r')
    (hbp : ∀ s r, Inv s r → FitPos r.pos → bp s = .ok (r.pos, s))
    (hsp : ∀ s r pos, Inv s r → pos ≤ L → ∃ s', sp s pos = .ok s' ∧ Inv s' (r.seek pos)) :
    ∀ (ops : List SeekOp) (s : σ) (r : RefR) (obs : List (Nat × Nat)) (r' : RefR),
      (∀ p, SeekOp.run p ∈ ops → OK p) → (∀ pos, SeekOp.seek pos ∈ ops → pos ≤ L) → Inv s r →
      runHist RefR.impl refBitPos refSetBitPos ops r = .ok (obs, r') → (∀ o ∈ obs, FitPos o.2) →
      ∃ s', runHist I bp sp ops s = .ok (obs, s') ∧ Inv s' r' := by
  intro ops
  induction ops with
  | nil =>
    intro s r obs r' _ _ hi h _
    simp only [runHist] at h ⊢
    cases h
    exact ⟨s, rfl, hi⟩
  | cons op ops ih =>
    intro s r obs r' hok hsk hi h hfit
    have hok' : ∀ p, SeekOp.run p ∈ ops → OK p := fun p hp => hok p (List.mem_cons_of_mem _ hp)
    have hsk' : ∀ pos, SeekOp.seek pos ∈ ops → pos ≤ L := fun p hp => hsk p (List.mem_cons_of_mem _ hp)
    -- the first step on the reference side yields `(a, r1)`, then `bit_pos` yields `r1.pos`
    have key : ∀ (a : Nat) (r1 : RefR) (s1 : σ), Inv s1 r1 →
        Res.bind (refBitPos r1) (fun y =>
          Res.bind (runHist RefR.impl refBitPos refSetBitPos ops y.2) fun z =>
            .ok ((a, y.1) :: z.1, z.2)) = .ok (obs, r') →
        ∃ s', Res.bind (bp s1) (fun y =>
          Res.bind (runHist I bp sp ops y.2) fun z => .ok ((a, y.1) :: z.1, z.2)) = .ok (obs, s') ∧
          Inv s' r' := by
      intro a r1 s1 hi1 h1
      simp only [refBitPos, Res.bind] at h1
      cases hrest : runHist RefR.impl refBitPos refSetBitPos ops r1 with
      | ok z =>
        obtain ⟨obs1, r2⟩ := z
        rw [hrest] at h1
        simp only at h1
        obtain ⟨ho, hr⟩ := Prod.mk.inj (Res.ok.inj h1)
        subst ho
        subst hr
        have hf1 : FitPos r1.pos := hfit (a, r1.pos) List.mem_cons_self
        obtain ⟨s2, hs2, hi2⟩ := ih s1 r1 obs1 r2 hok' hsk' hi1 hrest
          (fun o ho => hfit o (List.mem_cons_of_mem _ ho))
        refine ⟨s2, ?_, hi2⟩
        rw [hbp s1 r1 hi1 hf1]
        simp only [Res.bind, hs2]
      | err _ => rw [hrest] at h1; cases h1
      | panic => rw [hrest] at h1; cases h1
      | dpanic => rw [hrest] at h1; cases h1
    cases op with
    | run p =>
      simp only [runHist] at h ⊢
      cases hp : p.run RefR.impl r with
      | ok q =>
        obtain ⟨a, r1⟩ := q
        rw [hp] at h
        have h1 := h
        simp only [Res.bind] at h1
        -- the position observed after this step
        have hf1 : FitPos r1.pos := by
          simp only [refBitPos] at h1
          cases hrest : runHist RefR.impl refBitPos refSetBitPos ops r1 with
          | ok z => rw [hrest] at h1; simp only at h1; cases h1; exact hfit _ List.mem_cons_self
          | err _ => rw [hrest] at h1; cases h1
          | panic => rw [hrest] at h1; cases h1
          | dpanic => rw [hrest] at h1; cases h1
        obtain ⟨s1, hs1, hi1⟩ := hrun p s r a r1 (hok p List.mem_cons_self) hi hp hf1
        rw [hs1]
        exact key a r1 s1 hi1 h
      | err _ => rw [hp] at h; cases h
      | panic => rw [hp] at h; cases h
      | dpanic => rw [hp] at h; cases h
    | seek pos =>
      simp only [runHist, refSetBitPos, Res.map] at h ⊢
      obtain ⟨s1, hs1, hi1⟩ := hsp s r pos hi (hsk pos List.mem_cons_self)
      rw [hs1]
      exact key pos (r.seek pos) s1 hi1 h

/-- **C07, histories, `BufBitReader`.**  Any interleaving of generated programs (reads, peeks,
    skips, unary reads, code reads) and generated `set_bit_pos` calls (targets anywhere in
    `0..=stream length`) from a fresh reader, the generated `bit_pos` asked after every step: every
    value returned and every position reported is the one of the reference reader — where
    `bit_pos` is the cursor (number of bits preceding the next bit to be read) and `set_bit_pos`
    moves the cursor. -/
theorem gen_seek_history (e : Endian) (hW : 0 < W) (hW64 : e = .be → W ≤ 64)
    (data : List (BitVec W)) (strict : Bool) (hfit : data.length * W + 4 * W < 2 ^ 64)
    (ops : List SeekOp) (hops : ∀ p, SeekOp.run p ∈ ops → PeekBounded W 0 p)
    (hseek : ∀ pos, SeekOp.seek pos ∈ ops → pos ≤ data.length * W)
    {obs : List (Nat × Nat)} {r' : RefR}
    (href : runHist RefR.impl refBitPos refSetBitPos ops (refAt e data strict W 0) = .ok (obs, r'))
    (hpos : strict = true ∨ ∀ o ∈ obs, o.2 + 2 * W ≤ 2 ^ 64) :
    ∃ s', runHist (genRImpl e) (GenBufR.genBitPos e)
        (fun s pos => GenBufR.genSetBitPos e s (BitVec.ofNat 64 pos)) ops (BufR.new ⟨data, 0, strict⟩)
      = .ok (obs, s') := by
  have := hist_ok (genRImpl e) (GenBufR.genBitPos e)
    (fun s pos => GenBufR.genSetBitPos e s (BitVec.ofNat 64 pos))
    (fun s r => GInv e s r ∧ r = refAt e data strict W r.pos) (PeekBounded W 0)
    (fun q => strict = true ∨ q + 2 * W ≤ 2 ^ 64) (data.length * W)
    (by
      intro p s r a r1 hp hi hr _
      obtain ⟨s1, hs1, hi1⟩ := gen_run_of_ref_ok hW64 p hp hi.1 hr
      rw [hi.2] at hr
      exact ⟨s1, hs1, hi1, ref_run_refAt hr⟩)
    (by
      intro s r hi hf
      apply gen_bitPos_ginv hi.1
      rcases hf with h | h
      · left; rw [hi.2]; exact h
      · right; exact h)
    (by
      intro s r pos hi hp
      have hlen : r.stream.length = data.length * W := by
        rw [hi.2]; show (data.flatMap (wordBits e)).length = _; rw [length_flatMap_wordBits]
      obtain ⟨s1, hs1, hi1⟩ := gen_setBitPos_ginv hi.1 (pos := pos) (by rw [hlen]; exact hp)
      refine ⟨s1, hs1, hi1, ?_⟩
      rw [hi.2]; rfl)
    ops (BufR.new ⟨data, 0, strict⟩) (refAt e data strict W 0) obs r' hops hseek
    ⟨ginv_new e hW data strict hfit, rfl⟩ href
    (by
      intro o ho
      rcases hpos with h | h
      · exact Or.inl h
      · exact Or.inr (h o ho))
  obtain ⟨s', hs', _⟩ := this
  exact ⟨s', hs'⟩

/-! ## 3. the unbuffered reader -/

/-- **C07, histories, unbuffered `BitReader`** (64-bit words; look-ahead capacity 32): the same
    statement; every position observed fits a `u64` with three words of margin beyond the data
    (`self.bit_index` is a `u64`; `set_bit_pos` of this reader accepts any target, so on a strict
    stream targets are restricted to the stream, where the reference reader is defined). -/
theorem gen_bitr_seek_history (e : Endian) (data : List (BitVec 64)) (strict : Bool)
    (ops : List SeekOp) (hops : ∀ p, SeekOp.run p ∈ ops → BitROK strict p)
    (hseek : ∀ pos, SeekOp.seek pos ∈ ops → pos ≤ data.length * 64)
    {obs : List (Nat × Nat)} {r' : RefR}
    (href : runHist RefR.impl refBitPos refSetBitPos ops (refAt e data strict 32 0) = .ok (obs, r'))
    (hpos : ∀ o ∈ obs, o.2 + (data.length + 3) * 64 < 2 ^ 64) :
    ∃ s', runHist (genBitRImpl e) (genBitRBitPos e)
        (fun s pos => genBitRSetBitPos e s (BitVec.ofNat 64 pos)) ops { data := ⟨data, 0, strict⟩ }
      = .ok (obs, s') := by
  by_cases hemp : obs = []
  · -- no step at all
    subst hemp
    cases ops with
    | nil => exact ⟨_, rfl⟩
    | cons op ops =>
      exfalso
      simp only [runHist] at href
      cases h1 : (match op with
        | .run p => p.run RefR.impl (refAt e data strict 32 0)
        | .seek pos => (refSetBitPos (refAt e data strict 32 0) pos).map fun s' => (pos, s')) with
      | ok x =>
        rw [h1] at href
        simp only [Res.bind, refBitPos] at href
        cases h2 : runHist RefR.impl refBitPos refSetBitPos ops x.2 with
        | ok z => rw [h2] at href; simp only at href; cases href
        | err _ => rw [h2] at href; cases href
        | panic => rw [h2] at href; cases href
        | dpanic => rw [h2] at href; cases href
      | err _ => rw [h1] at href; cases href
      | panic => rw [h1] at href; cases href
      | dpanic => rw [h1] at href; cases href
  · have hlen64 : data.length * 64 + 3 * 64 < 2 ^ 64 := by
      obtain ⟨o, ho⟩ := List.exists_mem_of_ne_nil obs hemp
      have := hpos o ho
      rw [Nat.add_mul] at this
      omega
    have := hist_ok (genBitRImpl e) (genBitRBitPos e)
      (fun s pos => genBitRSetBitPos e s (BitVec.ofNat 64 pos))
      (fun s r => BitR.Rel' e s r ∧ s.data.data = data ∧ r = refAt e data strict 32 r.pos)
      (BitROK strict) (fun q => q + (data.length + 3) * 64 < 2 ^ 64) (data.length * 64)
      (by
        intro p s r a r1 hp hi hr hf
        have hst : r.strict = strict := by rw [hi.2.2]; rfl
        obtain ⟨s1, hs1, hi1, hd1⟩ := gen_bitr_run_of_ref_ok p hi.1 (by rw [hst]; exact hp) hr
          (by rw [hi.2.1]; exact hf)
        rw [hi.2.2] at hr
        exact ⟨s1, hs1, hi1, by rw [hd1, hi.2.1], ref_run_refAt hr⟩)
      (by
        intro s r hi hf
        exact genBitRBitPos_rel hi.1.1 (by omega))
      (by
        intro s r pos hi hp
        have hlen : r.stream.length = data.length * 64 := by
          rw [hi.2.2]; show (data.flatMap (wordBits e)).length = _; rw [length_flatMap_wordBits]
        obtain ⟨s1, hs1, hi1, hd1⟩ := genBitRSetBitPos_rel hi.1 (pos := pos) (by omega)
          (fun _ => by rw [hlen]; exact hp)
        refine ⟨s1, hs1, hi1, by rw [hd1, hi.2.1], ?_⟩
        rw [hi.2.2]; rfl)
      ops { data := ⟨data, 0, strict⟩ } (refAt e data strict 32 0) obs r' hops hseek
      ⟨bitr_new_rel e data 0 strict, rfl, rfl⟩ href hpos
    obtain ⟨s', hs', _⟩ := this
    exact ⟨s', hs'⟩

/-! ## 4. non-vacuity -/

/-- a history on a strict 3-byte stream: the mixed program of Props/Reader.lean, a seek to the
    unaligned position 5, a 7-bit read, a seek back to 0, a unary read -/
def exHist : List SeekOp :=
  [.run readerExProg, .seek 5, .run (RProg.rbits 7), .seek 0, .run RProg.runary]

theorem exHist_ok : ∀ p, SeekOp.run p ∈ exHist → PeekBounded 8 0 p := by
  intro p hp
  simp only [exHist, List.mem_cons, SeekOp.run.injEq, List.mem_nil_iff, or_false, reduceCtorEq,
    false_or] at hp
  rcases hp with rfl | rfl | rfl
  · exact readerExProg_bounded
  · exact fun _ => trivial
  · exact fun _ => trivial

/-- the generated machines compute, and report the reference positions -/
example : ∃ s', runHist (genRImpl .be) (GenBufR.genBitPos .be)
      (fun s pos => GenBufR.genSetBitPos .be s (BitVec.ofNat 64 pos)) exHist
      (BufR.new ⟨[0xA5#8, 0x3C#8, 0xF0#8], 0, true⟩)
    = .ok ([(309, 17), (5, 5), (83, 12), (0, 0), (0, 1)], s') := ⟨_, rfl⟩

example : ∃ r', runHist RefR.impl refBitPos refSetBitPos exHist
      (refAt .be [0xA5#8, 0x3C#8, 0xF0#8] true 8 0)
    = .ok ([(309, 17), (5, 5), (83, 12), (0, 0), (0, 1)], r') := ⟨_, rfl⟩

/-- `gen_seek_history` on this history, both endiannesses -/
example (e : Endian) {obs : List (Nat × Nat)} {r' : RefR}
    (href : runHist RefR.impl refBitPos refSetBitPos exHist
      (refAt e [0xA5#8, 0x3C#8, 0xF0#8] true 8 0) = .ok (obs, r')) :
    ∃ s', runHist (genRImpl e) (GenBufR.genBitPos e)
      (fun s pos => GenBufR.genSetBitPos e s (BitVec.ofNat 64 pos)) exHist
      (BufR.new ⟨[0xA5#8, 0x3C#8, 0xF0#8], 0, true⟩) = .ok (obs, s') :=
  gen_seek_history e (by decide) (fun _ => by decide) _ true (by decide) exHist exHist_ok
    (by intro pos hp; simp [exHist] at hp; rcases hp with rfl | rfl <;> decide) href (Or.inl rfl)

/-- `gen_bitPos_exact`, `gen_setBitPos_fresh` on the same data -/
example (e : Endian) : ResRel (fun (x : Nat × BufR 8) (y : Nat × RefR) => x.1 = y.1 ∧
      ((y.2.strict = true ∨ y.2.pos + 2 * 8 ≤ 2 ^ 64) → GenBufR.genBitPos e x.2 = .ok (y.2.pos, x.2)))
    (readerExProg.run (genRImpl e) (BufR.new ⟨[0xA5#8, 0x3C#8, 0xF0#8], 0, true⟩))
    (readerExProg.run RefR.impl (refAt e [0xA5#8, 0x3C#8, 0xF0#8] true 8 0)) :=
  gen_bitPos_exact e (by decide) (fun _ => by decide) _ true (by decide) _ readerExProg_bounded

example : ∃ s2, GenBufR.genSetBitPos .le
      (BufR.new ⟨[0xA5#8, 0x3C#8, 0xF0#8], 0, false⟩ : BufR 8) (BitVec.ofNat 64 13) = .ok s2 ∧
    ∀ (q : RProg Nat), PeekBounded 8 0 q →
      ResRel (fun (x : Nat × BufR 8) (y : Nat × RefR) => x.1 = y.1 ∧
          ((y.2.strict = true ∨ y.2.pos + 2 * 8 ≤ 2 ^ 64) → GenBufR.genBitPos .le x.2 = .ok (y.2.pos, x.2)))
        (q.run (genRImpl .le) s2) (q.run RefR.impl (refAt .le [0xA5#8, 0x3C#8, 0xF0#8] false 8 13)) :=
  gen_setBitPos_fresh .le (by decide) (fun h => by cases h) _ false (by decide) (.ret ()) trivial
    (a := ()) rfl 13 (by decide)

/-- the unbuffered reader: a 7-bit read across the word boundary after a seek, a unary read -/
def exHistB : List SeekOp := [.seek 61, .run (RProg.rbits 7), .run RProg.runary, .seek 3, .run (RProg.rbits 64)]

example : ∃ s', runHist (genBitRImpl .le) (genBitRBitPos .le)
      (fun s pos => genBitRSetBitPos .le s (BitVec.ofNat 64 pos)) exHistB { data := ⟨bitrExData, 0, true⟩ }
    = .ok ([(61, 61), (64, 68), (1, 70), (3, 3), (237366192402446301, 67)], s') := ⟨_, rfl⟩

example (e : Endian) {obs : List (Nat × Nat)} {r' : RefR}
    (href : runHist RefR.impl refBitPos refSetBitPos exHistB (refAt e bitrExData true 32 0) = .ok (obs, r'))
    (hpos : ∀ o ∈ obs, o.2 + (bitrExData.length + 3) * 64 < 2 ^ 64) :
    ∃ s', runHist (genBitRImpl e) (genBitRBitPos e)
      (fun s pos => genBitRSetBitPos e s (BitVec.ofNat 64 pos)) exHistB { data := ⟨bitrExData, 0, true⟩ }
      = .ok (obs, s') :=
  gen_bitr_seek_history e bitrExData true exHistB
    (by
      intro p hp
      simp only [exHistB, List.mem_cons, SeekOp.run.injEq, List.mem_nil_iff, or_false, reduceCtorEq,
        false_or] at hp
      rcases hp with rfl | rfl | rfl
      · exact ⟨⟨by decide, fun _ => trivial⟩, Or.inl (fun _ => trivial)⟩
      · exact ⟨fun _ => trivial, Or.inl (fun _ => trivial)⟩
      · exact ⟨⟨by decide, fun _ => trivial⟩, Or.inl (fun _ => trivial)⟩)
    (by intro pos hp; simp [exHistB] at hp; rcases hp with rfl | rfl <;> decide) href hpos

end Headline2
end Dsi
