/-
  C12 — the `std::io::Write` view of the bit writer and the `std::io::Read` view of the bit
  readers, on the L1 reference writer / reader:

  * bytes written through `io::Write` appear in the stream as exactly those bytes, in order,
    starting at the current bit position (`io_write_bits`, `io_write_run`);
  * bytes obtained through `io::Read` are the next `8 * len` stream bits grouped in stream order
    (`io_read_bytes`, `io_read_run`);
  * reading back what was written returns the same bytes (`io_roundtrip`);
  * on a byte-aligned position the bytes written are the bytes of the canonical layout
    (`io_aligned_image`, `io_aligned_image_at`).
-/
import Dsi.Lemmas.IOViewBits
namespace Dsi
open IOViewL

namespace IOViewL

/-! ### the writer side -/

theorem ioWriteChunks_cons (e : Endian) (c : List Nat) (cs : List (List Nat)) (k : WProg Unit)
    (hc : c.length = 8) :
    ioWriteChunks e (c :: cs) k = .writeBits (wordOf e c) 64 fun _ => ioWriteChunks e cs k := by
  cases e <;> simp [ioWriteChunks, hc, wordOf]

theorem writes_chunks (e : Endian) (checks : Bool) (cs : List (List Nat))
    (hl : ∀ c ∈ cs, c.length = 8) (hb : ∀ b ∈ cs.flatten, b < 256)
    {tail : WProg Unit} {tb : List Bool} (ht : WritesV tail e checks tb ()) :
    WritesV (ioWriteChunks e cs tail) e checks (bitsOfBytes e cs.flatten ++ tb) () := by
  induction cs with
  | nil => simpa [ioWriteChunks, bitsOfBytes_nil] using ht
  | cons c cs ih =>
    have hc : c.length = 8 := hl c (List.mem_cons_self ..)
    have hbc : ∀ b ∈ c, b < 256 := fun b h => hb b (by simp [h])
    have hbs : ∀ b ∈ cs.flatten, b < 256 := fun b h => hb b (by
      rw [List.flatten_cons]; exact List.mem_append_right _ h)
    have ih' := ih (fun x hx => hl x (List.mem_cons_of_mem _ hx)) hbs
    rw [ioWriteChunks_cons e c cs tail hc]
    have hw := WritesV.writeBits (e := e) (checks := checks) (v := wordOf e c) (n := 64)
      (k := fun _ => ioWriteChunks e cs tail) (Nat.le_refl _)
      (Or.inr (Nat.mod_lt _ (by decide))) ih'
    apply hw.congr _ rfl
    have hf := fieldBits_wordOf e c hbc
    rw [hc] at hf
    rw [List.flatten_cons, bitsOfBytes_append, List.append_assoc, ← hf]

/-- the remainder word of `ioWrite` (`word <<= 8; word |= byte` on a u64) -/
def remWord (e : Endian) (rem : List Nat) : Nat :=
  match e with
  | .be => rem.foldl (fun a b => (a * 256) % 2 ^ 64 + b) 0
  | .le => rem.reverse.foldl (fun a b => (a * 256) % 2 ^ 64 + b) 0

theorem remWord_eq_wordOf (e : Endian) (rem : List Nat) (h : ∀ b ∈ rem, b < 256)
    (hl : rem.length ≤ 8) : remWord e rem = wordOf e rem := by
  cases e
  · exact wrap_be rem h hl
  · exact wrap_le rem h hl

/-- the remainder part of `ioWrite` -/
def remTail (e : Endian) (rem : List Nat) : WProg Unit :=
  if rem.isEmpty then .ret ()
  else .writeBits (remWord e rem) (rem.length * 8) fun _ => .ret ()

theorem ioWrite_unfold (e : Endian) (bs : List Nat) :
    ioWrite e 8 bs = (ioWriteChunks e (chunksExact 8 bs bs.length).1
        (remTail e (chunksExact 8 bs bs.length).2)).bind fun _ => .ret bs.length := rfl

theorem writes_remTail (e : Endian) (checks : Bool) (rem : List Nat) (hb : ∀ b ∈ rem, b < 256)
    (hl : rem.length < 8) : WritesV (remTail e rem) e checks (bitsOfBytes e rem) () := by
  unfold remTail
  cases rem with
  | nil => simpa [bitsOfBytes_nil] using WritesV.ret e checks ()
  | cons b r =>
    simp only [List.isEmpty_cons, Bool.false_eq_true, if_false]
    rw [remWord_eq_wordOf e (b :: r) hb (by omega), Nat.mul_comm]
    have hlt := wordOf_lt e (b :: r) hb
    have hw := WritesV.writeBits (e := e) (checks := checks) (v := wordOf e (b :: r))
      (n := 8 * (b :: r).length) (k := fun _ => WProg.ret ()) (by omega)
      (Or.inr (Nat.lt_of_le_of_lt (Nat.mod_le _ _) hlt)) (WritesV.ret e checks ())
    apply hw.congr _ rfl
    rw [fieldBits_wordOf e (b :: r) hb, List.append_nil]

/-! ### the reader side -/

/-- `to_{be,le}_bytes` of a word, truncated to `k` bytes, as used by `ioRead` -/
def bytesOf (e : Endian) (v k : Nat) : List Nat :=
  match e with
  | .be => beBytes v k
  | .le => leBytes v k

theorem bytesOf_wordOf' (e : Endian) (c : List Nat) (h : ∀ b ∈ c, b < 256) (k : Nat)
    (hk : c.length = k) : bytesOf e (wordOf e c % 2 ^ (8 * k)) k = c :=
  bytesOf_wordOf e c h k hk

theorem ioReadLoop_succ (e : Endian) (k : Nat) (acc : List Nat) :
    ioReadLoop e (k + 1) acc = .readBits 64 fun v => ioReadLoop e k (acc ++ bytesOf e v 8) := by
  cases e <;> rfl

theorem reads_loop (e : Endian) (cs : List (List Nat))
    (hl : ∀ c ∈ cs, c.length = 8) (hb : ∀ b ∈ cs.flatten, b < 256) (acc : List Nat) :
    Reads (ioReadLoop e cs.length acc) e (bitsOfBytes e cs.flatten) (acc ++ cs.flatten) := by
  induction cs generalizing acc with
  | nil => simpa [ioReadLoop, bitsOfBytes_nil] using Reads.ret e acc
  | cons c cs ih =>
    have hc : c.length = 8 := hl c (List.mem_cons_self ..)
    have hbc : ∀ b ∈ c, b < 256 := fun b h => hb b (by simp [h])
    have hbs : ∀ b ∈ cs.flatten, b < 256 := fun b h => hb b (by
      rw [List.flatten_cons]; exact List.mem_append_right _ h)
    have ih' := ih (fun x hx => hl x (List.mem_cons_of_mem _ hx)) hbs (acc ++ c)
    rw [List.length_cons, ioReadLoop_succ]
    have hby : bytesOf e (wordOf e c % 2 ^ 64) 8 = c := bytesOf_wordOf' e c hbc 8 hc
    have hr := Reads.readBits (e := e) (n := 64) (v := wordOf e c)
      (k := fun v => ioReadLoop e cs.length (acc ++ bytesOf e v 8))
      (rest := bitsOfBytes e cs.flatten) (c := acc ++ c ++ cs.flatten) (Nat.le_refl _)
      (by simp only [hby]; exact ih')
    apply hr.congr _ (by simp)
    have hf := fieldBits_wordOf e c hbc
    rw [hc] at hf
    rw [List.flatten_cons, bitsOfBytes_append, ← hf]

/-- the remainder part of `ioRead` -/
def readTail (e : Endian) (len : Nat) (acc : List Nat) : RProg (List Nat) :=
  if len % 8 = 0 then .ret acc
  else .readBits (len % 8 * 8) fun v => .ret (acc ++ bytesOf e v (len % 8))

theorem ioRead_unfold (e : Endian) (len : Nat) :
    ioRead e len = (ioReadLoop e (len / 8) []).bind (readTail e len) := by
  cases e <;> rfl

theorem reads_readTail (e : Endian) (len : Nat) (acc rem : List Nat) (hb : ∀ b ∈ rem, b < 256)
    (hl : rem.length = len % 8) :
    Reads (readTail e len acc) e (bitsOfBytes e rem) (acc ++ rem) := by
  unfold readTail
  by_cases h0 : len % 8 = 0
  · have : rem = [] := List.eq_nil_of_length_eq_zero (by omega)
    subst this
    simpa [h0, bitsOfBytes_nil] using Reads.ret e acc
  · rw [if_neg h0, ← hl, Nat.mul_comm]
    have h8 : rem.length < 8 := by have := Nat.mod_lt len (show 0 < 8 by decide); omega
    have hby := bytesOf_wordOf' e rem hb rem.length rfl
    have hr := Reads.readBits (e := e) (n := 8 * rem.length) (v := wordOf e rem)
      (k := fun v => RProg.ret (acc ++ bytesOf e v rem.length))
      (rest := []) (c := acc ++ rem) (by omega)
      (by simp only [hby]; exact Reads.ret e _)
    apply hr.congr _ rfl
    rw [fieldBits_wordOf e rem hb, List.append_nil]

/-! ### layout -/

theorem bytes_mem_append_left {a b : List Nat} (h : ∀ x ∈ a ++ b, x < 256) : ∀ x ∈ a, x < 256 :=
  fun x hx => h x (List.mem_append_left _ hx)

theorem bytes_mem_append_right {a b : List Nat} (h : ∀ x ∈ a ++ b, x < 256) : ∀ x ∈ b, x < 256 :=
  fun x hx => h x (List.mem_append_right _ hx)

theorem byte_val (e : Endian) (x : Nat) : bitsVal e (fieldBits e x 8) = x % 256 := by
  cases e
  · exact byte_be x
  · exact byte_le x

theorem layout_bytes_append (e : Endian) (bs : List Nat) (hb : ∀ b ∈ bs, b < 256)
    (rest : List Bool) : layout e (bitsOfBytes e bs ++ rest) = bs ++ layout e rest := by
  induction bs with
  | nil => rfl
  | cons b bs ih =>
    rw [bitsOfBytes_cons, List.append_assoc, layout_chunk e _ _ (by simp), byte_val,
      ih (bytes_tail hb), Nat.mod_eq_of_lt (bytes_head hb), List.cons_append]

theorem layout_append_aligned (e : Endian) (n : Nat) : ∀ (a b : List Bool), a.length ≤ n →
    8 ∣ a.length → layout e (a ++ b) = layout e a ++ layout e b := by
  induction n with
  | zero =>
    intro a b hn _
    have : a = [] := List.eq_nil_of_length_eq_zero (by omega)
    subst this
    rfl
  | succ n ih =>
    intro a b hn hd
    by_cases h0 : a.length = 0
    · have : a = [] := List.eq_nil_of_length_eq_zero h0
      subst this
      rfl
    · have h8 : 8 ≤ a.length := by omega
      have ht : (a.take 8).length = 8 := by simp only [List.length_take]; omega
      have hdl : (a.drop 8).length = a.length - 8 := List.length_drop ..
      have e1 : a ++ b = a.take 8 ++ (a.drop 8 ++ b) := by
        rw [← List.append_assoc, List.take_append_drop]
      have e2 : layout e a = bitsVal e (a.take 8) :: layout e (a.drop 8) := by
        have := layout_chunk e (a.take 8) (a.drop 8) ht
        rwa [List.take_append_drop] at this
      rw [e1, layout_chunk e _ _ ht, ih (a.drop 8) b (by omega) (by omega), e2, List.cons_append]

end IOViewL

/-! ## C12, writer side -/

/-- **io::Write appends exactly the bytes.**  `write(buf)` through the `std::io::Write` view
    (8-byte chunks as 64-bit words, the remainder assembled into one word) appends to the stream
    exactly the bits of the bytes of `buf`, in order, and returns `buf.len()` — also with the
    `checks` feature (no assembled word is dirty). -/
theorem io_write_bits (e : Endian) (checks : Bool) (bs : List Nat) (hb : ∀ b ∈ bs, b < 256) :
    WritesV (ioWrite e 8 bs) e checks (bitsOfBytes e bs) bs.length := by
  obtain ⟨h1, h2, h3⟩ := chunksExact_spec bs.length bs (Nat.le_refl _)
  rw [ioWrite_unfold]
  generalize (chunksExact 8 bs bs.length).1 = cs at h1 h2
  generalize (chunksExact 8 bs bs.length).2 = rem at h1 h3
  have hb' : ∀ b ∈ cs.flatten ++ rem, b < 256 := by rw [← h1]; exact hb
  have ht := writes_remTail e checks rem (bytes_mem_append_right hb') h3
  have hc := writes_chunks e checks cs h2 (bytes_mem_append_left hb') ht
  have := WritesV.bind (k := fun _ => WProg.ret bs.length) hc (WritesV.ret e checks bs.length)
  apply this.congr _ rfl
  rw [List.append_nil, ← bitsOfBytes_append, ← h1]

/-- `io_write_bits` in plain words: on a growable reference writer of the same endianness the
    call succeeds, returns the number of bytes and appends `bitsOfBytes e bs` at the current bit
    position (aligned or not), whatever the `checks` feature. -/
theorem io_write_run (e : Endian) (bs : List Nat) (hb : ∀ b ∈ bs, b < 256) (w : RefW)
    (he : w.e = e) (hc : w.cap = none) :
    (ioWrite e 8 bs).run RefW.impl w
      = .ok (bs.length, { w with bits := w.bits ++ bitsOfBytes e bs }) :=
  io_write_bits e w.checks bs hb w he hc rfl

/-- 11 bytes: one 8-byte chunk (a 64-bit word) and a 3-byte remainder (a 24-bit word), at an
    unaligned position, big endian, with `checks` on. -/
example :
    (ioWrite .be 8 [1, 2, 3, 4, 5, 6, 7, 8, 9, 10, 255]).run RefW.impl
        { e := .be, W := 64, checks := true, bits := [true, false, true] }
      = .ok (11, { e := .be, W := 64, checks := true,
                   bits := [true, false, true]
                     ++ bitsOfBytes .be [1, 2, 3, 4, 5, 6, 7, 8, 9, 10, 255] }) :=
  io_write_run .be _ (by decide) _ rfl rfl

example : bitsOfBytes .be [1, 130] =
    [false, false, false, false, false, false, false, true,
     true, false, false, false, false, false, true, false] := by decide

example : bitsOfBytes .le [1, 130] =
    [true, false, false, false, false, false, false, false,
     false, true, false, false, false, false, false, true] := by decide

/-! ## C12, reader side -/

/-- **io::Read returns the next bytes of the stream.**  `read_exact` of `len` bytes through the
    `std::io::Read` view returns the next `8 * len` stream bits grouped into bytes in stream
    order, wherever these bits are embedded (any prefix — aligned or not —, any suffix, strict or
    zero-extended stream), and leaves the cursor just after them. -/
theorem io_read_bytes (e : Endian) (len : Nat) (bs : List Nat) (hlen : bs.length = len)
    (hb : ∀ b ∈ bs, b < 256) : Reads (ioRead e len) e (bitsOfBytes e bs) bs := by
  subst hlen
  obtain ⟨h1, h2, h3⟩ := chunksExact_spec bs.length bs (Nat.le_refl _)
  generalize (chunksExact 8 bs bs.length).1 = cs at h1 h2
  generalize (chunksExact 8 bs bs.length).2 = rem at h1 h3
  have hb' : ∀ b ∈ cs.flatten ++ rem, b < 256 := by rw [← h1]; exact hb
  have hlen : bs.length = 8 * cs.length + rem.length := by
    rw [h1, List.length_append, flatten_length8 cs h2]
  have hq : bs.length / 8 = cs.length := by omega
  have hr : rem.length = bs.length % 8 := by omega
  rw [ioRead_unfold, hq]
  have hl := reads_loop e cs h2 (bytes_mem_append_left hb') []
  have ht := reads_readTail e bs.length ([] ++ cs.flatten) rem (bytes_mem_append_right hb') hr
  have := Reads.bind (k := readTail e bs.length) hl ht
  apply this.congr
  · rw [← bitsOfBytes_append, ← h1]
  · rw [List.nil_append, ← h1]

/-- `io_read_bytes` in plain words: a reference reader positioned (at any bit position
    `pre.length`) in front of the bits of `bs` returns `bs` and advances by `8 * bs.length`. -/
theorem io_read_run (e : Endian) (bs : List Nat) (hb : ∀ b ∈ bs, b < 256)
    (pre post : List Bool) (strict : Bool) (pm : Nat) (hpm : 1 ≤ pm) :
    (ioRead e bs.length).run RefR.impl
        { e := e, stream := pre ++ bitsOfBytes e bs ++ post, pos := pre.length,
          strict := strict, peekMax := pm }
      = .ok (bs, { e := e, stream := pre ++ bitsOfBytes e bs ++ post,
                   pos := pre.length + 8 * bs.length, strict := strict, peekMax := pm }) := by
  have := io_read_bytes e bs.length bs rfl hb pre post strict pm hpm
  rw [RefR.at, RefR.after, bitsOfBytes_length] at this
  exact this

/-- 11 bytes read at bit position 3 of a strict little-endian stream: one 64-bit read and one
    24-bit read. -/
example :
    (ioRead .le 11).run RefR.impl
        { e := .le, strict := true, pos := 3,
          stream := [true, true, false]
            ++ bitsOfBytes .le [1, 2, 3, 4, 5, 6, 7, 8, 9, 10, 255] ++ [true] }
      = .ok ([1, 2, 3, 4, 5, 6, 7, 8, 9, 10, 255],
          { e := .le, strict := true, pos := 3 + 8 * 11,
            stream := [true, true, false]
              ++ bitsOfBytes .le [1, 2, 3, 4, 5, 6, 7, 8, 9, 10, 255] ++ [true] }) :=
  io_read_run .le [1, 2, 3, 4, 5, 6, 7, 8, 9, 10, 255] (by decide) [true, true, false] [true]
    true 64 (by decide)

/-! ## C12, round trip and byte image -/

/-- **Round trip.**  Writing `bs` through `io::Write` at the current position of a writer and then
    reading `bs.length` bytes through `io::Read` from that position of the resulting stream
    (followed by anything, strict or not) returns `bs` and consumes exactly `8 * bs.length` bits. -/
theorem io_roundtrip (e : Endian) (bs : List Nat) (hb : ∀ b ∈ bs, b < 256) (w : RefW)
    (he : w.e = e) (hc : w.cap = none) (post : List Bool) (strict : Bool) (pm : Nat)
    (hpm : 1 ≤ pm) :
    ∃ w' : RefW,
      (ioWrite e 8 bs).run RefW.impl w = .ok (bs.length, w') ∧
      w' = { w with bits := w.bits ++ bitsOfBytes e bs } ∧
      (ioRead e bs.length).run RefR.impl
          { e := e, stream := w'.bits ++ post, pos := w.bits.length, strict := strict,
            peekMax := pm }
        = .ok (bs, { e := e, stream := w'.bits ++ post, pos := w.bits.length + 8 * bs.length,
                     strict := strict, peekMax := pm }) :=
  ⟨_, io_write_run e bs hb w he hc, rfl, io_read_run e bs hb w.bits post strict pm hpm⟩

example : ∃ w' : RefW,
    (ioWrite .be 8 [1, 2, 3, 4, 5, 6, 7, 8, 9, 10, 255]).run RefW.impl
        { e := .be, W := 32, bits := [true] } = .ok (11, w') ∧
    (ioRead .be 11).run RefR.impl { e := .be, stream := w'.bits ++ [false, true], pos := 1 }
      = .ok ([1, 2, 3, 4, 5, 6, 7, 8, 9, 10, 255],
          { e := .be, stream := w'.bits ++ [false, true], pos := 1 + 8 * 11 }) := by
  obtain ⟨w', h1, _, h3⟩ := io_roundtrip .be [1, 2, 3, 4, 5, 6, 7, 8, 9, 10, 255] (by decide)
    { e := .be, W := 32, bits := [true] } rfl rfl [false, true] false 64 (by decide)
  exact ⟨w', h1, h3⟩

/-- **Byte image.**  The canonical byte layout (C01) of the bits of a byte list is that list. -/
theorem io_aligned_image (e : Endian) (bs : List Nat) (hb : ∀ b ∈ bs, b < 256) :
    layout e (bitsOfBytes e bs) = bs := by
  have := layout_bytes_append e bs hb []
  simpa [layout_nil] using this

/-- the layout of a byte-aligned prefix is not disturbed by what follows -/
theorem layout_append_of_aligned (e : Endian) (a b : List Bool) (h : 8 ∣ a.length) :
    layout e (a ++ b) = layout e a ++ layout e b :=
  layout_append_aligned e a.length a b (Nat.le_refl _) h

/-- **Byte image at an aligned position.**  When the writer is byte aligned, the bytes written
    through `io::Write` are exactly the next bytes of the output. -/
theorem io_aligned_image_at (e : Endian) (pre : List Bool) (bs : List Nat)
    (hb : ∀ b ∈ bs, b < 256) (h : 8 ∣ pre.length) :
    layout e (pre ++ bitsOfBytes e bs) = layout e pre ++ bs := by
  rw [layout_append_of_aligned e pre _ h, io_aligned_image e bs hb]

example : layout .be (bitsOfBytes .be [1, 2, 3, 4, 5, 6, 7, 8, 9, 10, 255])
    = [1, 2, 3, 4, 5, 6, 7, 8, 9, 10, 255] := io_aligned_image .be _ (by decide)

example : layout .le (fieldBits .le 0xAB 8 ++ bitsOfBytes .le [1, 2, 3]) = [0xAB, 1, 2, 3] := by
  decide

end Dsi
