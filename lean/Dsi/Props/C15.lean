/-
  C15 — code statistics are exact, mergeable and order-independent.

  The model (`Dsi.Glue.Stats`) follows the source through the generated offsets
  (`Dsi.Gen.Stats`); the statements below compare it with `Stats.exact` / `Stats.bestSpec`, which
  spell out the documented slot assignment (ζ: k = i+1, Golomb: b = i+1, exp-Golomb: k = i,
  Rice: log2_b = i, π: k = i+2) without generated data.  A shifted offset, a family skipped by
  `add`, a changed scan order or comparison therefore breaks a proof here.
  u64 overflow is outside the model: the statements are about `Nat` totals and apply to the
  implementation whenever `Stats.fits` (every total `< 2^64`) holds.
-/
import Dsi.Glue.Stats
namespace Dsi
open Stats

/-! ### the generated description, unfolded -/

theorem updateMany_eq (s : Stats) (n c : Nat) :
    s.updateMany n c =
      { total := s.total + c,
        unary := s.unary + (n + 1) * c,
        gamma := s.gamma + lenGammaD n * c,
        delta := s.delta + lenDeltaD n * c,
        omega := s.omega + lenOmega n * c,
        vbyte := s.vbyte + bitLenVByte n * c,
        zeta := s.zeta.mapIdx fun i x => x + lenZetaD n (i + 1) * c,
        golomb := s.golomb.mapIdx fun i x => x + lenGolomb n (i + 1) * c,
        expGolomb := s.expGolomb.mapIdx fun i x => x + lenExpGolombD n i * c,
        rice := s.rice.mapIdx fun i x => x + lenRice n i * c,
        pi := s.pi.mapIdx fun i x => x + lenPi n (i + 2) * c } := by
  simp [updateMany, scalarInc, familyInc, Gen.Stats.updScalars, Gen.Stats.updFamilies, evalLen]

theorem add_eq (s r : Stats) :
    s.add r =
      { total := s.total + r.total, unary := s.unary + r.unary, gamma := s.gamma + r.gamma,
        delta := s.delta + r.delta, omega := s.omega + r.omega, vbyte := s.vbyte + r.vbyte,
        zeta := List.zipWith (· + ·) s.zeta r.zeta,
        golomb := List.zipWith (· + ·) s.golomb r.golomb,
        expGolomb := List.zipWith (· + ·) s.expGolomb r.expGolomb,
        rice := List.zipWith (· + ·) s.rice r.rice,
        pi := List.zipWith (· + ·) s.pi r.pi } := by
  simp [add, addScalar, addFamily, Gen.Stats.addPairs, scalar, family]

theorem empty_eq :
    Stats.empty =
      { total := 0, unary := 0, gamma := 0, delta := 0, omega := 0, vbyte := 0,
        zeta := List.replicate 10 0, golomb := List.replicate 20 0, expGolomb := List.replicate 10 0,
        rice := List.replicate 10 0, pi := List.replicate 10 0 } := rfl

/-! ### list helpers -/

theorem sumLen_nil (f : Nat → Nat) : sumLen f [] = 0 := rfl

theorem sumLen_cons (f : Nat → Nat) (u : Nat × Nat) (us : List (Nat × Nat)) :
    sumLen f (u :: us) = u.2 * f u.1 + sumLen f us := by
  simp [sumLen]

theorem sumLen_append (f : Nat → Nat) (us vs : List (Nat × Nat)) :
    sumLen f (us ++ vs) = sumLen f us + sumLen f vs := by
  simp [sumLen, List.sum_append]

theorem sumLen_perm (f : Nat → Nat) {us vs : List (Nat × Nat)} (h : us.Perm vs) :
    sumLen f us = sumLen f vs :=
  (h.map _).sum_nat

theorem mapIdx_snd (l : List Nat) : (l.mapIdx fun _ x => x) = l := by
  apply List.ext_getElem <;> simp

theorem mapIdx_mapIdx_add (l : List Nat) (a b : Nat → Nat) :
    ((l.mapIdx fun i x => x + a i).mapIdx fun i x => x + b i) = l.mapIdx fun i x => x + (a i + b i) := by
  apply List.ext_getElem
  · simp
  · intro i h1 h2
    simp [Nat.add_assoc]

theorem replicate_mapIdx (n : Nat) (S : Nat → Nat) :
    ((List.replicate n 0).mapIdx fun i x => x + S i) = (List.range n).map S := by
  apply List.ext_getElem
  · simp
  · intro i h1 h2
    simp

theorem zipWith_range_map (n : Nat) (A B : Nat → Nat) :
    List.zipWith (· + ·) ((List.range n).map A) ((List.range n).map B) = (List.range n).map fun i => A i + B i := by
  apply List.ext_getElem
  · simp
  · intro i h1 h2
    simp

/-! ### sequential accumulation -/

/-- the state after a list of observations, from any starting state -/
theorem applyUpdates_eq (us : List (Nat × Nat)) : ∀ s : Stats,
    applyUpdates s us =
      { total := s.total + (us.map (·.2)).sum,
        unary := s.unary + sumLen lenUnary us,
        gamma := s.gamma + sumLen lenGammaD us,
        delta := s.delta + sumLen lenDeltaD us,
        omega := s.omega + sumLen lenOmega us,
        vbyte := s.vbyte + sumLen bitLenVByte us,
        zeta := s.zeta.mapIdx fun i x => x + sumLen (lenZetaD · (i + 1)) us,
        golomb := s.golomb.mapIdx fun i x => x + sumLen (lenGolomb · (i + 1)) us,
        expGolomb := s.expGolomb.mapIdx fun i x => x + sumLen (lenExpGolombD · i) us,
        rice := s.rice.mapIdx fun i x => x + sumLen (lenRice · i) us,
        pi := s.pi.mapIdx fun i x => x + sumLen (lenPi · (i + 2)) us } := by
  induction us with
  | nil =>
    intro s
    simp [applyUpdates, sumLen_nil, mapIdx_snd]
  | cons u us ih =>
    intro s
    have h : applyUpdates s (u :: us) = applyUpdates (s.updateMany u.1 u.2) us := rfl
    rw [h, ih, updateMany_eq]
    simp only [mapIdx_mapIdx_add, sumLen_cons, List.map_cons, List.sum_cons, lenUnary,
      Nat.add_assoc, Nat.mul_comm u.2]

/-- **update_many_exact**: after any list of `(value, count)` observations every tracked total is
    `Σ count · len_code(value)` with the documented parameter of its slot, and `total = Σ count`. -/
theorem update_many_exact (us : List (Nat × Nat)) : applyUpdates Stats.empty us = Stats.exact us := by
  rw [applyUpdates_eq, empty_eq]
  simp only [Stats.exact, replicate_mapIdx, Nat.zero_add]

/-- spelled out field by field -/
theorem update_many_exact_fields (us : List (Nat × Nat)) :
    let s := applyUpdates Stats.empty us
    s.total = (us.map (·.2)).sum ∧ s.unary = sumLen (· + 1) us ∧ s.gamma = sumLen lenGammaD us ∧
    s.delta = sumLen lenDeltaD us ∧ s.omega = sumLen lenOmega us ∧ s.vbyte = sumLen bitLenVByte us ∧
    (∀ i, i < 10 → s.zeta[i]? = some (sumLen (lenZetaD · (i + 1)) us)) ∧
    (∀ i, i < 20 → s.golomb[i]? = some (sumLen (lenGolomb · (i + 1)) us)) ∧
    (∀ i, i < 10 → s.expGolomb[i]? = some (sumLen (lenExpGolombD · i) us)) ∧
    (∀ i, i < 10 → s.rice[i]? = some (sumLen (lenRice · i) us)) ∧
    (∀ i, i < 10 → s.pi[i]? = some (sumLen (lenPi · (i + 2)) us)) ∧
    s.zeta.length = 10 ∧ s.golomb.length = 20 ∧ s.expGolomb.length = 10 ∧ s.rice.length = 10 ∧
    s.pi.length = 10 := by
  intro s
  have h : s = Stats.exact us := update_many_exact us
  rw [h]
  simp +contextual [Stats.exact]
  rfl

/-- observing a value `count` times one by one (`update`) is `update_many(value, count)` -/
theorem update_iter (s : Stats) (n c : Nat) :
    applyUpdates s (List.replicate c (n, 1)) = s.updateMany n c := by
  have e : s.updateMany n c = applyUpdates s [(n, c)] := by simp [applyUpdates]
  rw [e, applyUpdates_eq, applyUpdates_eq]
  have h1 : ∀ f : Nat → Nat, sumLen f (List.replicate c (n, 1)) = sumLen f [(n, c)] := by
    intro f
    simp only [sumLen, List.map_replicate, List.sum_replicate_nat, List.map_cons, List.map_nil,
      List.sum_cons, List.sum_nil, Nat.one_mul, Nat.add_zero]
  have h2 : ((List.replicate c (n, 1)).map (·.2)).sum = ([(n, c)].map (·.2)).sum := by
    simp only [List.map_replicate, List.sum_replicate_nat, List.map_cons, List.map_nil,
      List.sum_cons, List.sum_nil, Nat.mul_one, Nat.add_zero]
  simp only [h1, h2]

theorem update_eq (s : Stats) (n : Nat) : s.update n = s.updateMany n 1 := rfl

/-! ### merging -/

theorem add_exact (us vs : List (Nat × Nat)) :
    (Stats.exact us).add (Stats.exact vs) = Stats.exact (us ++ vs) := by
  rw [add_eq]
  simp only [Stats.exact, zipWith_range_map, sumLen_append, List.map_append, List.sum_append]

/-- **add_is_union**: merging partial statistics equals observing the union -/
theorem add_is_union (us vs : List (Nat × Nat)) :
    (applyUpdates Stats.empty us).add (applyUpdates Stats.empty vs) = applyUpdates Stats.empty (us ++ vs) := by
  simp only [update_many_exact, add_exact]

theorem exact_perm {us vs : List (Nat × Nat)} (h : us.Perm vs) : Stats.exact us = Stats.exact vs := by
  simp only [Stats.exact, sumLen_perm _ h, (h.map _).sum_nat]

theorem exact_nil : Stats.exact [] = Stats.empty := by
  rw [← update_many_exact]; rfl

/-- any split-and-merge tree computes the statistics of its leaves' observations -/
theorem mergeTree_eval (t : MergeTree) : t.eval = applyUpdates Stats.empty t.flatten := by
  induction t with
  | leaf us => rfl
  | node l r ihl ihr => simp only [MergeTree.eval, MergeTree.flatten, ihl, ihr, add_is_union]

/-- `sum()` over partial statistics is the statistics of the concatenation -/
theorem sum_exact (ls : List (List (Nat × Nat))) :
    Stats.sum (ls.map (applyUpdates Stats.empty)) = applyUpdates Stats.empty ls.flatten := by
  have key : ∀ (ls : List (List (Nat × Nat))) (acc : List (Nat × Nat)),
      (ls.map (applyUpdates Stats.empty)).foldl Stats.add (Stats.exact acc) = Stats.exact (acc ++ ls.flatten) := by
    intro ls
    induction ls with
    | nil => intro acc; simp
    | cons l ls ih =>
      intro acc
      simp only [List.map_cons, List.foldl_cons, update_many_exact, add_exact, ih, List.flatten_cons,
        List.append_assoc]
  have := key ls []
  rw [exact_nil] at this
  simpa [Stats.sum, update_many_exact] using this

/-- **sum_perm**: the result is invariant under any permutation of the observations and under any
    split-and-merge tree over them — every serialisation of concurrent `update`s through the
    mutex-protected wrapper, and every way of merging per-thread partial statistics, gives the
    sequential result. -/
theorem sum_perm :
    (∀ us vs : List (Nat × Nat), us.Perm vs →
      applyUpdates Stats.empty us = applyUpdates Stats.empty vs) ∧
    (∀ (t : MergeTree) (us : List (Nat × Nat)), t.flatten.Perm us →
      t.eval = applyUpdates Stats.empty us) := by
  refine ⟨fun us vs h => ?_, fun t us h => ?_⟩
  · simp only [update_many_exact, exact_perm h]
  · rw [mergeTree_eval]; simp only [update_many_exact, exact_perm h]

/-! ### best code -/

theorem candidates_eq (s : Stats) :
    (⟨Gen.Stats.bestInit.1, 0⟩, s.scalar Gen.Stats.bestInit.2) :: s.candidates = s.trackedCodes := by
  simp [candidates, trackedCodes, Gen.Stats.bestScan, Gen.Stats.bestInit, scalar, family]

theorem map_snd_mapIdx (l : List Nat) (c : Nat → StatCodeId) :
    (l.mapIdx fun i x => (c i, x)).map (·.2) = l := by
  apply List.ext_getElem <;> simp

theorem trackedCodes_snd (s : Stats) : s.trackedCodes.map (·.2) = s.tracked := by
  simp [trackedCodes, tracked, map_snd_mapIdx]

/-- the scan keeps a candidate whose cost is a lower bound of everything seen (either comparison) -/
theorem foldl_bestStep (strict : Bool) (cs : List (StatCodeId × Nat)) : ∀ a : StatCodeId × Nat,
    let r := cs.foldl (bestStep strict) a
    r ∈ a :: cs ∧ ∀ c ∈ a :: cs, r.2 ≤ c.2 := by
  induction cs with
  | nil => intro a; simp
  | cons c cs ih =>
    intro a
    have := ih (bestStep strict a c)
    simp only [List.foldl_cons]
    obtain ⟨hm, hl⟩ := this
    have hb : bestStep strict a c = a ∨ bestStep strict a c = c := by
      unfold bestStep
      by_cases h : (if strict = true then c.2 < a.2 else c.2 ≤ a.2) <;> simp [h]
    have hle : (bestStep strict a c).2 ≤ a.2 ∧ (bestStep strict a c).2 ≤ c.2 := by
      unfold bestStep
      cases strict <;> simp only [Bool.false_eq_true, if_false, if_true] <;> split <;> constructor <;> omega
    constructor
    · rcases List.mem_cons.1 hm with h | h
      · rw [h]
        rcases hb with hb | hb <;> rw [hb] <;> simp
      · exact List.mem_cons_of_mem _ (List.mem_cons_of_mem _ h)
    · intro x hx
      have h0 := hl _ (List.mem_cons_self)
      rcases List.mem_cons.1 hx with h | h
      · subst h; omega
      · rcases List.mem_cons.1 h with h | h
        · subst h; omega
        · exact hl _ (List.mem_cons_of_mem _ h)

theorem totalOf_tracked (s : Stats) : ∀ c ∈ s.trackedCodes, s.totalOf c.1 = some c.2 := by
  intro c hc
  simp only [trackedCodes, List.mem_append, List.mem_cons, List.mem_mapIdx, List.not_mem_nil, or_false] at hc
  rcases hc with ((((h | h) | h) | h) | h) | h
  · rcases h with h | h | h | h | h <;> subst h <;> rfl
  all_goals
    obtain ⟨i, hi, rfl⟩ := h
    simp [totalOf, List.getElem?_eq_getElem hi]

/-- **best_code_min**: the returned cost is the minimum over all tracked totals (it is one of
    them and none is smaller), and the returned code's total equals it -/
theorem best_code_min (s : Stats) :
    s.bestCode.2 ∈ s.tracked ∧ (∀ t ∈ s.tracked, s.bestCode.2 ≤ t) ∧
    s.totalOf s.bestCode.1 = some s.bestCode.2 := by
  have h := foldl_bestStep Gen.Stats.bestStrict s.candidates
    (⟨Gen.Stats.bestInit.1, 0⟩, s.scalar Gen.Stats.bestInit.2)
  rw [candidates_eq] at h
  obtain ⟨hm, hl⟩ := h
  refine ⟨?_, ?_, totalOf_tracked s _ hm⟩
  · rw [← trackedCodes_snd]; exact List.mem_map_of_mem hm
  · intro t ht
    rw [← trackedCodes_snd] at ht
    obtain ⟨c, hc, rfl⟩ := List.mem_map.1 ht
    exact hl c hc

theorem firstMin_cons_cons (a c : StatCodeId × Nat) (cs : List (StatCodeId × Nat)) :
    firstMin (a :: c :: cs) = firstMin (bestStep true a c :: cs) := by
  simp only [firstMin, bestStep]
  cases firstMin cs with
  | none => simp; split <;> simp_all <;> omega
  | some m =>
    simp only [if_true]
    by_cases h1 : m.2 < c.2 <;> by_cases h2 : c.2 < a.2 <;> by_cases h3 : m.2 < a.2 <;>
      simp [h1, h2, h3] <;> omega

theorem foldl_bestStep_firstMin (cs : List (StatCodeId × Nat)) : ∀ a,
    some (cs.foldl (bestStep true) a) = firstMin (a :: cs) := by
  induction cs with
  | nil => intro a; rfl
  | cons c cs ih => intro a; rw [List.foldl_cons, ih, firstMin_cons_cons]

/-- **best_code_first**: the reported code is the first one, in the documented order
    (Unary, Gamma, Delta, Omega, VByteBe, Zeta(1..), Golomb(1..), ExpGolomb(0..), Rice(0..), Pi(2..)),
    among those with the least total -/
theorem best_code_first (s : Stats) : some s.bestCode = s.bestSpec := by
  have hs : Gen.Stats.bestStrict = true := rfl
  unfold bestCode bestSpec
  rw [hs, foldl_bestStep_firstMin, candidates_eq]

/-! ### the statements are not vacuous -/

example : (applyUpdates Stats.empty [(5, 3), (0, 1)]).rice.take 3 = [19, 14, 15] := by decide
example : (applyUpdates Stats.empty [(5, 3), (0, 1)]).pi.take 2 = [18, 22] := by decide
example : (applyUpdates Stats.empty [(5, 3), (0, 1)]).total = 4 := by decide
set_option maxRecDepth 8000 in
example : (Stats.empty).bestCode = (⟨.unary, 0⟩, 0) := by decide
example : MergeTree.flatten (.node (.leaf [(1, 2)]) (.leaf [(3, 4)])) = [(1, 2), (3, 4)] := rfl

end Dsi
