/-
  Refinement L3 ⟶ L1 for the unbuffered bit reader `BitReader<E, WR>` (`BitR`, 64-bit words over a
  `MemR 64` backend): every operation of `BitR.impl e` simulates the reference reader `RefR`, and so
  does every reader program with bounded reads / peeks.

  Relations.
  * `BitR.Rel e s r` (from `SimFrame`): same endianness, strictness, `peekMax = 32`, the reference
    stream is the bits of the backend words, `r.pos = s.bitIndex`.  No constraint on the position:
    `skip_bits` / `set_bit_pos` of this reader only move the index and never fail, so the position
    can be beyond the end of a strict stream.
  * `BitR.Rel' e s r := BitR.Rel e s r ∧ r.avail 0` (added here): on a strict stream the position is
    within the stream (`rel'_iff`).  It holds initially (`bitr_new_rel`) and is preserved by every
    operation on which the reference succeeds.

  Divergences between the model and the reference, all made explicit below.
  * `read_bits(n)`, `n > 64`: BE `panic` (`assert!`), LE `dpanic`, reference `dpanic`
    (`bitr_readBits_gt64`); the simulation is stated for `n ≤ 64`.
  * `read_bits(0)` returns `0` without touching the backend; the reference answers `err eof` on a
    strict stream at a position beyond the end (`bitr_readBits_zero_diverges`).  Under `Rel'` (or for
    `1 ≤ n` under plain `Rel`) there is no divergence.
  * `peek_bits(0)` returns `0`, the reference is `dpanic`; `peek_bits(n)`, `n > 32` is `panic`,
    the reference (`peekMax = 32`) `dpanic`: the simulation is stated for `1 ≤ n ≤ 32`.
  * `skip_bits(n)` never fails; the reference fails (`err eof`) when the skip leaves a strict
    stream.  `bitr_skipBits`: simulation when the reference succeeds (`r.avail n`);
    `bitr_skipBits_beyond`: otherwise the concrete skip succeeds and every following
    `read_bits (1 ≤ m ≤ 64)` / `peek_bits (1 ≤ m ≤ 32)` / `read_unary` fails with `err eof`.
-/
import Dsi.Lemmas.BitReaderUnary
import Dsi.Props.Reader
namespace Dsi

namespace BitR
/-- `Rel` plus: on a strict stream the position has not left the stream -/
def Rel' (e : Endian) (s : BitR) (r : RefR) : Prop := BitR.Rel e s r ∧ r.avail 0 = true
end BitR

namespace BitRd

theorem avail_iff (r : RefR) (n : Nat) :
    r.avail n = true ↔ (r.strict = true → r.pos + n ≤ r.stream.length) := by
  cases hs : r.strict <;> simp [RefR.avail, hs]

theorem avail_mono {r : RefR} {c k : Nat} (h : r.avail c = true) (hk : k ≤ c) : r.avail k = true := by
  rw [avail_iff] at h ⊢
  intro hs; have := h hs; omega

theorem rel'_iff (e : Endian) (s : BitR) (r : RefR) :
    BitR.Rel' e s r ↔ BitR.Rel e s r ∧ (r.strict = true → r.pos ≤ r.stream.length) := by
  unfold BitR.Rel'
  rw [avail_iff]
  rfl

theorem ResRel.eq_err {α β} {R : α → β → Prop} {x : Res α} {er : Err} (h : ResRel R x (.err er)) :
    x = .err er := by
  match x, h with
  | .err e1, hh => have : e1 = er := hh; rw [this]

/-! ### the reference reader keeps `avail 0` when it succeeds -/

theorem ref_readBits_avail {r r' : RefR} {n v : Nat} (h : RefR.readBits r n = .ok (v, r')) :
    r'.avail 0 = true := by
  unfold RefR.readBits at h
  split at h
  · cases h
  · split at h
    · rename_i hav
      cases h
      rw [avail_iff] at hav ⊢
      exact hav
    · cases h

theorem ref_peekBits_avail {r r' : RefR} {n v : Nat} (h : RefR.peekBits r n = .ok (v, r')) :
    r' = r ∧ r.avail n = true := by
  unfold RefR.peekBits at h
  split at h
  · cases h
  · split at h
    · rename_i hav
      cases h
      exact ⟨rfl, hav⟩
    · cases h

theorem firstOne_lt {l : List Bool} {z : Nat} (h : RefR.firstOne l = some z) : z < l.length := by
  induction l generalizing z with
  | nil => cases h
  | cons b bs ih =>
    cases b with
    | true => simp [RefR.firstOne] at h; subst h; simp
    | false =>
      simp only [RefR.firstOne, Option.map_eq_some_iff] at h
      obtain ⟨z', hz', rfl⟩ := h
      have := ih hz'
      simp; omega

theorem ref_readUnary_avail {r r' : RefR} {v : Nat} (h : RefR.readUnary r = .ok (v, r')) :
    r'.avail 0 = true := by
  unfold RefR.readUnary at h
  split at h
  · rename_i z hz
    cases h
    have := firstOne_lt hz
    simp only [RefR.rest, List.length_drop] at this
    rw [avail_iff]
    intro _
    show r.pos + v + 1 + 0 ≤ r.stream.length
    omega
  · split at h <;> cases h

/-- from `Rel` on the outcomes to `Rel'`, when the reference outcome keeps `avail 0` -/
theorem lift' {e : Endian} {x : Res (Nat × BitR)} {y : Res (Nat × RefR)}
    (h : ResRel (fun a b => a.1 = b.1 ∧ BitR.Rel e a.2 b.2) x y)
    (hav : ∀ b, y = .ok b → b.2.avail 0 = true) :
    ResRel (fun (a, s') (b, r') => a = b ∧ BitR.Rel' e s' r') x y := by
  match x, y, h, hav with
  | .ok a, .ok b, hh, hav => exact ⟨hh.1, hh.2, hav b rfl⟩
  | .err _, .err _, hh, _ => exact hh
  | .panic, .panic, _, _ => exact trivial
  | .dpanic, .dpanic, _, _ => exact trivial

theorem liftRel {e : Endian} {x : Res (Nat × BitR)} {y : Res (Nat × RefR)}
    (h : ResRel (fun a b => a.1 = b.1 ∧ BitR.Rel e a.2 b.2) x y) :
    ResRel (fun (a, s') (b, r') => a = b ∧ BitR.Rel e s' r') x y :=
  ResRel.mono_rr (fun _ _ hab => hab) h

end BitRd

open BitRd

/-! ### concrete states used by the `example`s: a strict two-word backend, `bitIndex = 61`
    (three bits left in the first word) -/

def bitrExData : List (BitVec 64) := [0x1A5A5A5ADEADBEE8#64, 0x0123456789ABCDE8#64]

def bitrExS : BitR := { data := ⟨bitrExData, 0, true⟩, bitIndex := 61 }

def bitrExR (e : Endian) : RefR :=
  { e := e, stream := bitrExData.flatMap (wordBits e), pos := 61, strict := true, peekMax := 32 }

theorem bitrEx_rel (e : Endian) : BitR.Rel e bitrExS (bitrExR e) := ⟨rfl, rfl, rfl, rfl, rfl⟩

theorem bitrEx_rel' (e : Endian) : BitR.Rel' e bitrExS (bitrExR e) := by
  refine ⟨bitrEx_rel e, ?_⟩
  rw [avail_iff]
  intro _
  show 61 + 0 ≤ (bitrExData.flatMap (wordBits e)).length
  rw [length_flatMap_wordBits]
  decide

/-! ### 1. readBits -/

/-- `read_bits(n)`, `n ≤ 64`, under the invariant `Rel'` -/
theorem bitr_readBits_sim {e : Endian} {s : BitR} {r : RefR} (h : BitR.Rel' e s r) {n : Nat}
    (hn : n ≤ 64) :
    ResRel (fun (a, s') (b, r') => a = b ∧ BitR.Rel' e s' r')
      (BitR.readBits e s n) (RefR.readBits r n) := by
  apply lift' _ (fun b hb => ref_readBits_avail (v := b.1) (r' := b.2) hb)
  by_cases h0 : n = 0
  · subst h0
    exact BitRd.readBits_zero h.1 h.2
  · exact BitRd.readBits_sim_pos h.1 (Nat.pos_of_ne_zero h0) hn

/-- `read_bits(n)`, `1 ≤ n ≤ 64`, under the plain `Rel` (any position, even beyond the end) -/
theorem bitr_readBits_sim_of_pos {e : Endian} {s : BitR} {r : RefR} (h : BitR.Rel e s r) {n : Nat}
    (h1 : 1 ≤ n) (hn : n ≤ 64) :
    ResRel (fun (a, s') (b, r') => a = b ∧ BitR.Rel e s' r')
      (BitR.readBits e s n) (RefR.readBits r n) :=
  liftRel (BitRd.readBits_sim_pos h h1 hn)

/-- divergence (i): beyond 64 bits the BE reader panics in every build, the LE reader and the
    reference only under debug assertions -/
theorem bitr_readBits_gt64 (s : BitR) (r : RefR) {n : Nat} (hn : n > 64) :
    BitR.readBits .be s n = .panic ∧ BitR.readBits .le s n = .dpanic ∧ RefR.readBits r n = .dpanic := by
  have h0 : ¬ n = 0 := by omega
  simp [BitR.readBits, RefR.readBits, h0, hn]

/-- divergence (ii): `Rel` alone does not give the simulation of `read_bits(0)`: on a strict
    one-word stream at position 65 the model returns `0`, the reference `err eof` -/
theorem bitr_readBits_zero_diverges :
    ∃ (s : BitR) (r : RefR), BitR.Rel .le s r ∧ BitR.readBits .le s 0 = .ok (0, s) ∧
      RefR.readBits r 0 = .err .eof ∧
      ¬ ResRel (fun (a, s') (b, r') => a = b ∧ BitR.Rel .le s' r')
          (BitR.readBits .le s 0) (RefR.readBits r 0) := by
  refine ⟨{ data := ⟨[0#64], 0, true⟩, bitIndex := 65 },
    { e := .le, stream := [0#64].flatMap (wordBits .le), pos := 65, strict := true, peekMax := 32 },
    ⟨rfl, rfl, rfl, rfl, rfl⟩, rfl, ?_, ?_⟩
  · simp [RefR.readBits, RefR.avail, length_wordBits]
  · simp [RefR.readBits, RefR.avail, length_wordBits, BitR.readBits, ResRel]

-- 7 bits across the word boundary (3 from the first word, 4 from the second)
example (e : Endian) : ResRel (fun (a, s') (b, r') => a = b ∧ BitR.Rel' e s' r')
    (BitR.readBits e bitrExS 7) (RefR.readBits (bitrExR e) 7) :=
  bitr_readBits_sim (bitrEx_rel' e) (by decide)

example : ∃ s', BitR.readBits .le bitrExS 7 = .ok (0x40, s') ∧ s'.bitIndex = 68 := ⟨_, rfl, rfl⟩
example : ∃ s', BitR.readBits .be bitrExS 7 = .ok (0, s') ∧ s'.bitIndex = 68 := ⟨_, rfl, rfl⟩

/-! ### 2. peekBits -/

/-- `peek_bits(n)`, `1 ≤ n ≤ 32`: the truncation to 32 bits is the identity -/
theorem bitr_peekBits_sim {e : Endian} {s : BitR} {r : RefR} (h : BitR.Rel' e s r) {n : Nat}
    (h1 : 1 ≤ n) (hn : n ≤ 32) :
    ResRel (fun (a, s') (b, r') => a = b ∧ BitR.Rel' e s' r')
      (BitR.peekBits e s n) (RefR.peekBits r n) := by
  apply lift' (BitRd.peekBits_sim h.1 h1 hn)
  intro b hb
  obtain ⟨hr, _⟩ := ref_peekBits_avail (v := b.1) (r' := b.2) hb
  rw [hr]
  exact h.2

theorem bitr_peekBits_sim_rel {e : Endian} {s : BitR} {r : RefR} (h : BitR.Rel e s r) {n : Nat}
    (h1 : 1 ≤ n) (hn : n ≤ 32) :
    ResRel (fun (a, s') (b, r') => a = b ∧ BitR.Rel e s' r')
      (BitR.peekBits e s n) (RefR.peekBits r n) :=
  liftRel (BitRd.peekBits_sim h h1 hn)

/-- a peek moves neither reader -/
theorem bitr_peekBits_pos {e : Endian} {s s' : BitR} {n v : Nat}
    (h : BitR.peekBits e s n = .ok (v, s')) : s'.bitIndex = s.bitIndex := by
  unfold BitR.peekBits at h
  split at h
  · cases h; rfl
  · split at h
    · cases h
    · split at h <;> cases h
      rfl

theorem bitr_peekBits_ref_pos {r r' : RefR} {n v : Nat} (h : RefR.peekBits r n = .ok (v, r')) :
    r' = r := (ref_peekBits_avail h).1

/-- divergences of `peek_bits` outside `1 ≤ n ≤ 32` -/
theorem bitr_peekBits_out_of_range (e : Endian) (s : BitR) (r : RefR) (hpm : r.peekMax = 32) :
    BitR.peekBits e s 0 = .ok (0, s) ∧ RefR.peekBits r 0 = .dpanic ∧
    ∀ n, n > 32 → BitR.peekBits e s n = .panic ∧ RefR.peekBits r n = .dpanic := by
  refine ⟨by simp [BitR.peekBits], by simp [RefR.peekBits], ?_⟩
  intro n hn
  have h0 : ¬ n = 0 := by omega
  simp [BitR.peekBits, RefR.peekBits, h0, hn, hpm]

-- a 32-bit peek across the word boundary
example (e : Endian) : ResRel (fun (a, s') (b, r') => a = b ∧ BitR.Rel' e s' r')
    (BitR.peekBits e bitrExS 32) (RefR.peekBits (bitrExR e) 32) :=
  bitr_peekBits_sim (bitrEx_rel' e) (by decide) (by decide)

/-! ### 3. skipAfterPeek -/

/-- `skip_bits_after_peek` only adds to the index -/
theorem bitr_skipAfterPeek {e : Endian} {s : BitR} {r : RefR} (h : BitR.Rel e s r) (k : Nat) :
    BitR.Rel e (BitR.skipAfterPeek s k) (RefR.skipAfterPeek r k) :=
  BitRd.skipAfterPeek_rel h k

/-- … and keeps `Rel'` when the skipped bits are available -/
theorem bitr_skipAfterPeek' {e : Endian} {s : BitR} {r : RefR} (h : BitR.Rel' e s r) {k : Nat}
    (hk : r.avail k = true) :
    BitR.Rel' e (BitR.skipAfterPeek s k) (RefR.skipAfterPeek r k) := by
  refine ⟨BitRd.skipAfterPeek_rel h.1 k, ?_⟩
  rw [avail_iff] at hk ⊢
  exact hk

/-- in particular after a successful peek of `n ≥ k` bits -/
theorem bitr_skipAfterPeek_sim {e : Endian} {s s1 : BitR} {r : RefR} (h : BitR.Rel' e s r)
    {n v k : Nat} (h1 : 1 ≤ n) (hn : n ≤ 32) (hpk : BitR.peekBits e s n = .ok (v, s1)) (hk : k ≤ n) :
    BitR.Rel' e (BitR.skipAfterPeek s1 k) (RefR.skipAfterPeek r k) := by
  have hsim := BitRd.peekBits_sim h.1 h1 hn
  rw [hpk] at hsim
  cases hr : RefR.peekBits r n with
  | ok b =>
    obtain ⟨b, r'⟩ := b
    rw [hr] at hsim
    obtain ⟨hr', hav⟩ := ref_peekBits_avail hr
    subst hr'
    exact bitr_skipAfterPeek' ⟨hsim.2, h.2⟩ (avail_mono hav hk)
  | err _ => rw [hr] at hsim; exact hsim.elim
  | panic => rw [hr] at hsim; exact hsim.elim
  | dpanic => rw [hr] at hsim; exact hsim.elim

example (e : Endian) : ∃ v s1, BitR.peekBits e bitrExS 8 = .ok (v, s1) ∧
    BitR.Rel' e (BitR.skipAfterPeek s1 7) (RefR.skipAfterPeek (bitrExR e) 7) := by
  cases e
  · exact ⟨_, _, rfl, bitr_skipAfterPeek_sim (n := 8) (bitrEx_rel' .be) (by decide) (by decide) rfl (by decide)⟩
  · exact ⟨_, _, rfl, bitr_skipAfterPeek_sim (n := 8) (bitrEx_rel' .le) (by decide) (by decide) rfl (by decide)⟩

/-! ### 4. skipBits -/

/-- the concrete skip never fails and keeps `Rel` -/
theorem bitr_skipBits_rel {e : Endian} {s : BitR} {r : RefR} (h : BitR.Rel e s r) (n : Nat) :
    ∃ s', BitR.skipBits s n = .ok s' ∧ BitR.Rel e s' { r with pos := r.pos + n } :=
  ⟨_, rfl, BitRd.skipAfterPeek_rel h n⟩

/-- simulation when the reference skip succeeds (`r.avail n`: always on a zero-extended stream) -/
theorem bitr_skipBits {e : Endian} {s : BitR} {r : RefR} (h : BitR.Rel' e s r) {n : Nat}
    (hav : r.avail n = true) :
    ResRel (fun s' r' => BitR.Rel' e s' r') (BitR.skipBits s n) (RefR.skipBits r n) := by
  simp only [BitR.skipBits, RefR.skipBits, hav, if_true]
  exact bitr_skipAfterPeek' h hav

/-- when the reference skip fails (strict stream, the skip leaves it) the concrete skip succeeds,
    and the concrete reader fails at the next read / peek / unary read, with the same error -/
theorem bitr_skipBits_beyond {e : Endian} {s : BitR} {r : RefR} (h : BitR.Rel e s r) {n : Nat}
    (hav : r.avail n = false) :
    RefR.skipBits r n = .err .eof ∧
    ∃ s', BitR.skipBits s n = .ok s' ∧ BitR.Rel e s' { r with pos := r.pos + n } ∧
      (∀ m, 1 ≤ m → m ≤ 64 → BitR.readBits e s' m = .err .eof) ∧
      (∀ m, 1 ≤ m → m ≤ 32 → BitR.peekBits e s' m = .err .eof) ∧
      BitR.readUnary e s' = .err .eof := by
  have hrel := BitRd.skipAfterPeek_rel h n
  have hs : r.strict = true := by
    cases hs : r.strict
    · simp [RefR.avail, hs] at hav
    · rfl
  have hlt : r.stream.length < r.pos + n := by
    simpa [RefR.avail, hs] using hav
  have hav' : ∀ m, (RefR.skipAfterPeek r n).avail m = false := by
    intro m
    simp only [RefR.avail, RefR.skipAfterPeek, hs, Bool.not_true, Bool.false_or, decide_eq_false_iff_not]
    omega
  refine ⟨by simp [RefR.skipBits, hav], _, rfl, hrel, ?_, ?_, ?_⟩
  · intro m h1 hm
    have := BitRd.readBits_sim_pos hrel h1 hm
    have c : ¬ m > 64 := by omega
    simp only [RefR.readBits, if_neg c, hav' m] at this
    exact ResRel.eq_err this
  · intro m h1 hm
    have := BitRd.peekBits_sim hrel h1 hm
    have c : ¬ (m = 0 ∨ m > (RefR.skipAfterPeek r n).peekMax) := by
      show ¬ (m = 0 ∨ m > r.peekMax)
      rw [h.2.2.1]; omega
    simp only [RefR.peekBits, if_neg c, hav' m] at this
    exact ResRel.eq_err this
  · have := BitRd.readUnary_sim hrel
    have hnone : RefR.readUnary (RefR.skipAfterPeek r n) = .err .eof := by
      have : (RefR.skipAfterPeek r n).rest = [] := by
        simp only [RefR.rest, RefR.skipAfterPeek]
        exact List.drop_eq_nil_of_le (by omega)
      unfold RefR.readUnary
      rw [this]
      simp [RefR.firstOne, RefR.skipAfterPeek, hs]
    rw [hnone] at this
    exact ResRel.eq_err this

-- 14 bits: into the second word
example (e : Endian) : ResRel (fun s' r' => BitR.Rel' e s' r')
    (BitR.skipBits bitrExS 14) (RefR.skipBits (bitrExR e) 14) :=
  bitr_skipBits (bitrEx_rel' e) (by
    rw [avail_iff]; intro _
    show 61 + 14 ≤ (bitrExData.flatMap (wordBits e)).length
    rw [length_flatMap_wordBits]; decide)

-- 68 bits: one bit beyond the end of the strict stream
example (e : Endian) : RefR.skipBits (bitrExR e) 68 = .err .eof ∧
    ∃ s', BitR.skipBits bitrExS 68 = .ok s' ∧ BitR.readBits e s' 1 = .err .eof := by
  obtain ⟨h1, s', h2, _, h3, _⟩ := bitr_skipBits_beyond (bitrEx_rel e) (n := 68) (by
    simp only [RefR.avail, bitrExR, length_flatMap_wordBits]; decide)
  exact ⟨h1, s', h2, h3 1 (by decide) (by decide)⟩

/-! ### 5. readUnary -/

/-- no restriction: on a zero-extended stream with no one ahead the model runs out of fuel
    (`dpanic`) exactly where the reference is `dpanic`; on a strict stream both are `err eof` -/
theorem bitr_readUnary_sim {e : Endian} {s : BitR} {r : RefR} (h : BitR.Rel' e s r) :
    ResRel (fun (a, s') (b, r') => a = b ∧ BitR.Rel' e s' r')
      (BitR.readUnary e s) (RefR.readUnary r) :=
  lift' (BitRd.readUnary_sim h.1) (fun b hb => ref_readUnary_avail (v := b.1) (r' := b.2) hb)

theorem bitr_readUnary_sim_rel {e : Endian} {s : BitR} {r : RefR} (h : BitR.Rel e s r) :
    ResRel (fun (a, s') (b, r') => a = b ∧ BitR.Rel e s' r')
      (BitR.readUnary e s) (RefR.readUnary r) :=
  liftRel (BitRd.readUnary_sim h)

/-- zero-extended stream with no one ahead: both sides `dpanic` -/
theorem bitr_readUnary_none {e : Endian} {s : BitR} {r : RefR} (h : BitR.Rel e s r)
    (hs : r.strict = false) (h0 : RefR.firstOne r.rest = none) :
    BitR.readUnary e s = .dpanic ∧ RefR.readUnary r = .dpanic := by
  have hr : RefR.readUnary r = .dpanic := by simp [RefR.readUnary, h0, hs]
  have := BitRd.readUnary_sim h
  rw [hr] at this
  refine ⟨?_, hr⟩
  match hx : BitR.readUnary e s, this with
  | .dpanic, _ => rfl

-- the terminating one is in the second word (LE: 3 + 3 zeros, BE: 3 + 7 zeros)
example (e : Endian) : ResRel (fun (a, s') (b, r') => a = b ∧ BitR.Rel' e s' r')
    (BitR.readUnary e bitrExS) (RefR.readUnary (bitrExR e)) :=
  bitr_readUnary_sim (bitrEx_rel' e)

example : ∃ s', BitR.readUnary .le bitrExS = .ok (6, s') ∧ s'.bitIndex = 68 := ⟨_, rfl, rfl⟩
example : ∃ s', BitR.readUnary .be bitrExS = .ok (10, s') ∧ s'.bitIndex = 72 := ⟨_, rfl, rfl⟩

/-! ### 6. setBitPos, bitPos -/

theorem bitr_setBitPos {e : Endian} {s : BitR} {r : RefR} (h : BitR.Rel e s r) (p : Nat) :
    BitR.Rel e (BitR.setBitPos s p) (r.seek p) :=
  BitRd.setBitPos_rel h p

/-- `Rel'` after a seek within a strict stream (anywhere on a zero-extended one) -/
theorem bitr_setBitPos' {e : Endian} {s : BitR} {r : RefR} (h : BitR.Rel' e s r) {p : Nat}
    (hp : r.strict = true → p ≤ r.stream.length) :
    BitR.Rel' e (BitR.setBitPos s p) (r.seek p) := by
  refine ⟨BitRd.setBitPos_rel h.1 p, ?_⟩
  rw [avail_iff]
  exact hp

theorem bitr_bitPos {e : Endian} {s : BitR} {r : RefR} (h : BitR.Rel e s r) : s.bitPos = r.pos :=
  h.2.2.2.2.symm

example (e : Endian) : BitR.Rel' e (BitR.setBitPos bitrExS 100) ((bitrExR e).seek 100) :=
  bitr_setBitPos' (bitrEx_rel' e) (by
    intro _
    show 100 ≤ (bitrExData.flatMap (wordBits e)).length
    rw [length_flatMap_wordBits]; decide)

example (e : Endian) : bitrExS.bitPos = (bitrExR e).pos := bitr_bitPos (bitrEx_rel e)

/-! ### 7. the initial state -/

/-- a fresh reader (`bit_index = 0`) over any backend cursor -/
theorem bitr_new_rel (e : Endian) (data : List (BitVec 64)) (wp : Nat) (strict : Bool) :
    BitR.Rel' e { data := ⟨data, wp, strict⟩ }
      { e := e, stream := data.flatMap (wordBits e), pos := 0, strict := strict, peekMax := 32 } := by
  refine ⟨⟨rfl, rfl, rfl, rfl, rfl⟩, ?_⟩
  rw [avail_iff]
  intro _
  exact Nat.zero_le _

example (e : Endian) : BitR.Rel' e { data := ⟨bitrExData, 0, true⟩ }
    { e := e, stream := bitrExData.flatMap (wordBits e), pos := 0, strict := true, peekMax := 32 } :=
  bitr_new_rel e _ _ _

/-! ### 8. reader programs -/

namespace BitR

/-- `ProgOK c p`: every `readBits` of `p` asks for at most 64 bits, every `peek` for between 1 and
    32 bits, and every `skipAfterPeek k` is covered by the credit of peeked bits: `c` initially, `n`
    after a successful `peek n`, the remainder after a `skipAfterPeek`, nothing after any other
    operation.  (`PeekBounded 32` of the buffered reader, plus the bounds `n ≤ 64` on reads and
    `1 ≤ n` on peeks that this reader needs.) -/
def ProgOK {α : Type} : Nat → RProg α → Prop
  | _, .ret _ => True
  | _, .fail _ => True
  | _, .panic => True
  | _, .dpanic => True
  | _, .readBits n k => n ≤ 64 ∧ ∀ v, ProgOK 0 (k v)
  | _, .readUnary k => ∀ v, ProgOK 0 (k v)
  | c, .peek n k => 1 ≤ n ∧ n ≤ 32 ∧ (∀ v, ProgOK n (k (.ok v))) ∧ (∀ x, ProgOK c (k (.error x)))
  | c, .skipAfterPeek n k => n ≤ c ∧ ProgOK (c - n) k
  | _, .skip _ k => ProgOK 0 k

/-- `NoEofSkip p r`: run on the reference reader `r`, the program `p` never executes a `skip` that
    fails (i.e. that leaves a strict stream).  This is where the concrete `skip_bits`, which never
    fails, diverges. -/
def NoEofSkip {α : Type} : RProg α → RefR → Prop
  | .ret _, _ => True
  | .fail _, _ => True
  | .panic, _ => True
  | .dpanic, _ => True
  | .readBits n k, r => ∀ v r', RefR.readBits r n = .ok (v, r') → NoEofSkip (k v) r'
  | .readUnary k, r => ∀ v r', RefR.readUnary r = .ok (v, r') → NoEofSkip (k v) r'
  | .peek n k, r => (∀ v r', RefR.peekBits r n = .ok (v, r') → NoEofSkip (k (.ok v)) r') ∧
      (∀ x, RefR.peekBits r n = .err x → NoEofSkip (k (.error x)) r)
  | .skipAfterPeek n k, r => NoEofSkip k (RefR.skipAfterPeek r n)
  | .skip n k, r => r.avail n = true ∧ NoEofSkip k { r with pos := r.pos + n }

/-- no `skip` instruction at all -/
def NoSkip {α : Type} : RProg α → Prop
  | .ret _ => True
  | .fail _ => True
  | .panic => True
  | .dpanic => True
  | .readBits _ k => ∀ v, NoSkip (k v)
  | .readUnary k => ∀ v, NoSkip (k v)
  | .peek _ k => ∀ v, NoSkip (k v)
  | .skipAfterPeek _ k => NoSkip k
  | .skip _ _ => False

end BitR

theorem noEofSkip_of_noSkip {α : Type} (p : RProg α) (hp : BitR.NoSkip p) (r : RefR) :
    BitR.NoEofSkip p r := by
  induction p generalizing r with
  | ret a => trivial
  | fail x => trivial
  | panic => trivial
  | dpanic => trivial
  | readBits n k ih => intro v r' _; exact ih v (hp v) r'
  | readUnary k ih => intro v r' _; exact ih v (hp v) r'
  | peek n k ih => exact ⟨fun v r' _ => ih (.ok v) (hp (.ok v)) r', fun x _ => ih (.error x) (hp (.error x)) r⟩
  | skipAfterPeek n k ih => exact ih hp _
  | skip n k ih => exact hp.elim

/-- the two bounds `ProgOK` adds to `PeekBounded 32`: reads of at most 64 bits, peeks of at least one -/
def BitR.ReadBounds {α : Type} : RProg α → Prop
  | .ret _ => True
  | .fail _ => True
  | .panic => True
  | .dpanic => True
  | .readBits n k => n ≤ 64 ∧ ∀ v, ReadBounds (k v)
  | .readUnary k => ∀ v, ReadBounds (k v)
  | .peek n k => 1 ≤ n ∧ ∀ v, ReadBounds (k v)
  | .skipAfterPeek _ k => ReadBounds k
  | .skip _ k => ReadBounds k

/-- `ProgOK` from the predicate `PeekBounded 32` of the buffered reader -/
theorem progOK_of_peekBounded {α : Type} (p : RProg α) (c : Nat) (h1 : PeekBounded 32 c p)
    (h2 : BitR.ReadBounds p) : BitR.ProgOK c p := by
  induction p generalizing c with
  | ret a => trivial
  | fail x => trivial
  | panic => trivial
  | dpanic => trivial
  | readBits n k ih => exact ⟨h2.1, fun v => ih v 0 (h1 v) (h2.2 v)⟩
  | readUnary k ih => exact fun v => ih v 0 (h1 v) (h2 v)
  | peek n k ih =>
    exact ⟨h2.1, h1.1, fun v => ih (.ok v) n (h1.2.1 v) (h2.2 (.ok v)),
      fun x => ih (.error x) c (h1.2.2 x) (h2.2 (.error x))⟩
  | skipAfterPeek n k ih => exact ⟨h1.1, ih (c - n) h1.2 h2⟩
  | skip n k ih => exact ih 0 h1 h2

/-- the reference operations keep the strictness flag -/
private theorem ref_strict_readBits {r r' : RefR} {n v : Nat} (h : RefR.readBits r n = .ok (v, r')) :
    r'.strict = r.strict := by
  unfold RefR.readBits at h
  split at h
  · cases h
  · split at h <;> cases h
    rfl

private theorem ref_strict_readUnary {r r' : RefR} {v : Nat} (h : RefR.readUnary r = .ok (v, r')) :
    r'.strict = r.strict := by
  unfold RefR.readUnary at h
  split at h
  · cases h; rfl
  · split at h <;> cases h

theorem noEofSkip_of_nonstrict {α : Type} (p : RProg α) (r : RefR) (hs : r.strict = false) :
    BitR.NoEofSkip p r := by
  induction p generalizing r with
  | ret a => trivial
  | fail x => trivial
  | panic => trivial
  | dpanic => trivial
  | readBits n k ih => intro v r' h; exact ih v r' (by rw [ref_strict_readBits h]; exact hs)
  | readUnary k ih => intro v r' h; exact ih v r' (by rw [ref_strict_readUnary h]; exact hs)
  | peek n k ih =>
    refine ⟨fun v r' h => ?_, fun x _ => ih (.error x) r hs⟩
    rw [(ref_peekBits_avail h).1]
    exact ih (.ok v) r hs
  | skipAfterPeek n k ih => exact ih _ hs
  | skip n k ih => exact ⟨by simp [RefR.avail, hs], ih _ hs⟩

private theorem bitr_rprog_sim_aux {α : Type} {e : Endian} (p : RProg α) :
    ∀ (c : Nat), BitR.ProgOK c p → ∀ (s : BitR) (r : RefR), BitR.Rel e s r → r.avail c = true →
    BitR.NoEofSkip p r →
    ResRel (fun a b => a.1 = b.1 ∧ BitR.Rel' e a.2 b.2)
      (p.run (BitR.impl e) s) (p.run RefR.impl r) := by
  induction p with
  | ret a => intro c _ s r h hc _; exact ⟨rfl, h, avail_mono hc (Nat.zero_le _)⟩
  | fail x => intro c _ s r h _ _; exact rfl
  | panic => intro c _ s r h _ _; exact trivial
  | dpanic => intro c _ s r h _ _; exact trivial
  | readBits n k ih =>
    intro c hp s r h hc hskip
    have hsim : ResRel (fun a b => a.1 = b.1 ∧ BitR.Rel' e a.2 b.2)
        ((BitR.impl e).readBits s n) (RefR.impl.readBits r n) :=
      ResRel.mono_rr (fun _ _ hab => hab)
        (bitr_readBits_sim ⟨h, avail_mono hc (Nat.zero_le _)⟩ hp.1)
    have hsk : ∀ v r', RefR.impl.readBits r n = .ok (v, r') → BitR.NoEofSkip (k v) r' := hskip
    simp only [RProg.run]
    revert hsim hsk
    generalize (BitR.impl e).readBits s n = x
    generalize RefR.impl.readBits r n = y
    intro hsim hsk
    match x, y, hsim with
    | .ok (v, s'), .ok (v', r'), ⟨hv, hrel⟩ =>
      have hv : v = v' := hv
      subst hv
      exact ih v 0 (hp.2 v) s' r' hrel.1 hrel.2 (hsk v r' rfl)
    | .err _, .err _, hh => exact hh
    | .panic, .panic, _ => exact trivial
    | .dpanic, .dpanic, _ => exact trivial
  | readUnary k ih =>
    intro c hp s r h hc hskip
    have hsim : ResRel (fun a b => a.1 = b.1 ∧ BitR.Rel' e a.2 b.2)
        ((BitR.impl e).readUnary s) (RefR.impl.readUnary r) :=
      ResRel.mono_rr (fun _ _ hab => hab)
        (bitr_readUnary_sim ⟨h, avail_mono hc (Nat.zero_le _)⟩)
    have hsk : ∀ v r', RefR.impl.readUnary r = .ok (v, r') → BitR.NoEofSkip (k v) r' := hskip
    simp only [RProg.run]
    revert hsim hsk
    generalize (BitR.impl e).readUnary s = x
    generalize RefR.impl.readUnary r = y
    intro hsim hsk
    match x, y, hsim with
    | .ok (v, s'), .ok (v', r'), ⟨hv, hrel⟩ =>
      have hv : v = v' := hv
      subst hv
      exact ih v 0 (hp v) s' r' hrel.1 hrel.2 (hsk v r' rfl)
    | .err _, .err _, hh => exact hh
    | .panic, .panic, _ => exact trivial
    | .dpanic, .dpanic, _ => exact trivial
  | peek n k ih =>
    intro c hp s r h hc hskip
    obtain ⟨h1, hn, hok, herr⟩ := hp
    have hsim : ResRel (fun a b => a.1 = b.1 ∧ BitR.Rel e a.2 b.2)
        ((BitR.impl e).peekBits s n) (RefR.impl.peekBits r n) := BitRd.peekBits_sim h h1 hn
    have hsk1 : ∀ v r', RefR.impl.peekBits r n = .ok (v, r') → BitR.NoEofSkip (k (.ok v)) r' := hskip.1
    have hsk2 : ∀ x, RefR.impl.peekBits r n = .err x → BitR.NoEofSkip (k (.error x)) r := hskip.2
    have hav : ∀ v r', RefR.impl.peekBits r n = .ok (v, r') → r'.avail n = true := by
      intro v r' hh
      obtain ⟨e1, e2⟩ := ref_peekBits_avail (r := r) hh
      rw [e1]; exact e2
    simp only [RProg.run]
    revert hsim hsk1 hsk2 hav
    generalize (BitR.impl e).peekBits s n = x
    generalize RefR.impl.peekBits r n = y
    intro hsim hsk1 hsk2 hav
    match x, y, hsim with
    | .ok (v, s'), .ok (v', r'), ⟨hv, hrel⟩ =>
      have hv : v = v' := hv
      subst hv
      exact ih (.ok v) n (hok v) s' r' hrel (hav v r' rfl) (hsk1 v r' rfl)
    | .err x1, .err x2, hh =>
      have : x1 = x2 := hh
      subst this
      exact ih (.error x1) c (herr x1) s r h hc (hsk2 x1 rfl)
    | .panic, .panic, _ => exact trivial
    | .dpanic, .dpanic, _ => exact trivial
  | skipAfterPeek n k ih =>
    intro c hp s r h hc hskip
    obtain ⟨hn, hk⟩ := hp
    simp only [RProg.run]
    apply ih (c - n) hk _ _ (bitr_skipAfterPeek h n) _ hskip
    rw [avail_iff] at hc ⊢
    intro hs
    have := hc hs
    show r.pos + n + (c - n) ≤ r.stream.length
    omega
  | skip n k ih =>
    intro c hp s r h hc hskip
    obtain ⟨hav, hk⟩ := hskip
    have e1 : (BitR.impl e).skipBits s n = .ok (BitR.skipAfterPeek s n) := rfl
    have e2 : RefR.impl.skipBits r n = .ok { r with pos := r.pos + n } := by
      show RefR.skipBits r n = _
      simp [RefR.skipBits, hav]
    simp only [RProg.run, e1, e2]
    apply ih 0 hp _ _ (bitr_skipAfterPeek h n) _ hk
    rw [avail_iff] at hav ⊢
    exact hav

/-- the simulation with an initial credit `c` of bits known to be available (`r.avail c`) -/
theorem bitr_rprog_sim_credit {α : Type} {e : Endian} (p : RProg α) (c : Nat) (hp : BitR.ProgOK c p)
    {s : BitR} {r : RefR} (h : BitR.Rel e s r) (hc : r.avail c = true) (hskip : BitR.NoEofSkip p r) :
    ResRel (fun (a, s') (b, r') => a = b ∧ BitR.Rel' e s' r')
      (p.run (BitR.impl e) s) (p.run RefR.impl r) :=
  ResRel.mono_rr (fun _ _ hab => hab) (bitr_rprog_sim_aux p c hp s r h hc hskip)

/-- every reader program with reads of at most 64 bits and covered peeks of 1 to 32 bits runs
    identically (related outcomes, related final states) on the unbuffered reader and on the
    reference reader, as long as the reference run never skips out of a strict stream -/
theorem bitr_rprog_sim {α : Type} {e : Endian} (p : RProg α) (hp : BitR.ProgOK 0 p)
    {s : BitR} {r : RefR} (h : BitR.Rel' e s r) (hskip : BitR.NoEofSkip p r) :
    ResRel (fun (a, s') (b, r') => a = b ∧ BitR.Rel' e s' r')
      (p.run (BitR.impl e) s) (p.run RefR.impl r) :=
  bitr_rprog_sim_credit p 0 hp h.1 h.2 hskip

/-- no side condition on a zero-extended stream -/
theorem bitr_rprog_sim_nonstrict {α : Type} {e : Endian} (p : RProg α) (hp : BitR.ProgOK 0 p)
    {s : BitR} {r : RefR} (h : BitR.Rel e s r) (hs : r.strict = false) :
    ResRel (fun (a, s') (b, r') => a = b ∧ BitR.Rel' e s' r')
      (p.run (BitR.impl e) s) (p.run RefR.impl r) :=
  bitr_rprog_sim_credit p 0 hp h (by simp [RefR.avail, hs]) (noEofSkip_of_nonstrict p r hs)

/-- no side condition for a program without `skip` (all the code readers) -/
theorem bitr_rprog_sim_noSkip {α : Type} {e : Endian} (p : RProg α) (hp : BitR.ProgOK 0 p)
    (hns : BitR.NoSkip p) {s : BitR} {r : RefR} (h : BitR.Rel' e s r) :
    ResRel (fun (a, s') (b, r') => a = b ∧ BitR.Rel' e s' r')
      (p.run (BitR.impl e) s) (p.run RefR.impl r) :=
  bitr_rprog_sim p hp h (noEofSkip_of_noSkip p hns r)

/-- a program mixing every operation: peek across the word boundary, partial skip, a read, a skip
    that stays inside the stream, a unary read -/
def bitrExProg : RProg Nat :=
  .peek 9 (fun
    | .ok idx => .skipAfterPeek 5 (.readBits 20 (fun v => .skip 3 (.readUnary (fun u => .ret (idx + v + u)))))
    | .error _ => .readUnary .ret)

theorem bitrExProg_ok : BitR.ProgOK 0 bitrExProg :=
  ⟨by decide, by decide, fun _ => ⟨by decide, by decide, fun _ => fun _ => trivial⟩, fun _ => fun _ => trivial⟩

theorem bitrExProg_noEofSkip (e : Endian) : BitR.NoEofSkip bitrExProg (bitrExR e) := by
  refine ⟨?_, fun _ _ => fun _ _ _ => trivial⟩
  intro v r' h
  rw [(ref_peekBits_avail h).1]
  intro v2 r2 h2
  refine ⟨?_, fun _ _ _ => trivial⟩
  have hav : (RefR.skipAfterPeek (bitrExR e) 5).avail 20 = true := by
    rw [avail_iff]; intro _
    show 61 + 5 + 20 ≤ (bitrExData.flatMap (wordBits e)).length
    rw [length_flatMap_wordBits]; decide
  have c : ¬ 20 > 64 := by decide
  simp only [RefR.readBits, if_neg c, hav, if_true, Res.ok.injEq, Prod.mk.injEq] at h2
  rw [← h2.2, avail_iff]
  intro _
  show 61 + 5 + 20 + 3 ≤ (bitrExData.flatMap (wordBits e)).length
  rw [length_flatMap_wordBits]; decide

example (e : Endian) : ResRel (fun (a, s') (b, r') => a = b ∧ BitR.Rel' e s' r')
    (bitrExProg.run (BitR.impl e) bitrExS) (bitrExProg.run RefR.impl (bitrExR e)) :=
  bitr_rprog_sim bitrExProg bitrExProg_ok (bitrEx_rel' e) (bitrExProg_noEofSkip e)

end Dsi
