/-
  The method bodies of `BufBitWriter` as TRANSLATED from src/impls/buf_bit_writer.rs on every run
  (lean/Dsi/Gen/BufWriterBodies.lean, emitted by tools/translate_bufw.py) are EQUAL to the
  hand-written model (lean/Dsi/Impl/BufWriter.lean) every other writer theorem is about.

  Hypotheses, and why they are there:
  * `0 < s.space` (write_bits, write_unary): the Rust bodies start with
    `debug_assert!(self.space_left_in_buffer > 0)`, which the translation keeps (outcome `dpanic`)
    and the hand model leaves out because it is the struct invariant ("It is always greater than
    zero").  On a state with `space = 0` the two sides really differ.
  * `s.space ≤ W` and `W < 2 ^ 64` (write_unary only): `write_unary` computes in `u64`
    (`self.space_left_in_buffer as u64`, `WW::Word::BITS as u64`, wrapping subtraction, unsigned
    division) where the hand model computes in `Nat`; the two agree when the `usize` quantities fit
    64 bits (`W ≤ 128` for every word type) and `W ≠ 0`.
  No hypothesis is needed for `flush`.
-/
import Dsi.Gen.BufWriterBodies
import Dsi.Props.Writer
namespace Dsi
namespace GenBufW
variable {W : Nat}

/-! ### the backend -/

def capOk (cap : Option Nat) (len : Nat) : Bool :=
  match cap with
  | some c => decide (len < c)
  | none => true

theorem emit_mk (b : BitVec W) (sp : Nat) (out : List (BitVec W)) (cap : Option Nat) (ch : Bool)
    (w : BitVec W) :
    BufW.emit ⟨b, sp, out, cap, ch⟩ w =
      if capOk cap out.length then .ok ⟨b, sp, out ++ [w], cap, ch⟩ else .err .eof := by
  cases cap <;> simp [BufW.emit, capOk]

/-- overwrite the two fields the backend never looks at -/
def upd (b : BitVec W) (sp : Nat) (s : BufW W) : BufW W := { s with buffer := b, space := sp }

theorem emit_upd (b : BitVec W) (sp : Nat) (s : BufW W) (w : BitVec W) :
    (upd b sp s).emit w = (s.emit w).map (upd b sp) := by
  obtain ⟨b0, sp0, out, cap, ch⟩ := s
  simp only [upd, emit_mk]
  cases capOk cap out.length <;> rfl

set_option linter.unusedSimpArgs false in
theorem flush_be_eq (s : BufW W) : Gen.BufW.flush_be s = BufW.flush .be s := by
  obtain ⟨b, sp, out, cap, ch⟩ := s
  simp only [Gen.BufW.flush_be, BufW.flush, BufW.shiftIn, emit_mk]
  by_cases h : W - sp = 0
  · cases capOk cap out.length <;> simp [h, Res.bind]
  · have h' : 0 < W - sp := Nat.pos_of_ne_zero h
    cases capOk cap out.length <;> simp [h, h', Res.bind]

set_option linter.unusedSimpArgs false in
theorem flush_le_eq (s : BufW W) : Gen.BufW.flush_le s = BufW.flush .le s := by
  obtain ⟨b, sp, out, cap, ch⟩ := s
  simp only [Gen.BufW.flush_le, BufW.flush, BufW.shiftIn, emit_mk]
  by_cases h : W - sp = 0
  · cases capOk cap out.length <;> simp [h, Res.bind]
  · have h' : 0 < W - sp := Nat.pos_of_ne_zero h
    cases capOk cap out.length <;> simp [h, h', Res.bind]
/-! ### `write_bits` -/

theorem spillBE_upd (v : BitVec 64) (b : BitVec W) (sp : Nat) :
    ∀ k tw (s : BufW W), BufW.spillBE v k tw (upd b sp s) =
      (BufW.spillBE v k tw s).map fun p => (p.1, upd b sp p.2)
  | 0, tw, s => rfl
  | k + 1, tw, s => by
    simp only [BufW.spillBE, emit_upd]
    cases s.emit ((v >>> (tw - W)).setWidth W) with
    | ok s' => exact spillBE_upd v b sp k (tw - W) s'
    | _ => rfl

theorem forN_spillBE (v : BitVec 64) (f : Nat × BufW W → Res (Nat × BufW W))
    (hf : ∀ st, f st = Res.bind (st.2.emit ((v >>> (st.1 - W)).setWidth W)) fun s => .ok (st.1 - W, s)) :
    ∀ k tw s, forN k (tw, s) f = BufW.spillBE v k tw s
  | 0, tw, s => rfl
  | k + 1, tw, s => by
    simp only [forN, BufW.spillBE, hf]
    cases s.emit ((v >>> (tw - W)).setWidth W) with
    | ok s' => exact forN_spillBE v f hf k (tw - W) s'
    | _ => rfl

theorem mask_toNat (n : Nat) (hn : n ≤ 64) :
    ((((1 : BitVec 128) <<< n) - 1).setWidth 64).toNat = 2 ^ n - 1 := by
  have h1 : (2:Nat) ^ n ≤ 2 ^ 64 := Nat.pow_le_pow_right (by decide) hn
  have h0 : 0 < (2:Nat) ^ n := Nat.two_pow_pos n
  simp only [BitVec.toNat_setWidth, BitVec.toNat_sub, BitVec.toNat_shiftLeft, Nat.shiftLeft_eq]
  have e1 : (1 : BitVec 128).toNat = 1 := rfl
  rw [e1]
  generalize (2:Nat) ^ n = p at *
  omega

theorem fits_iff (v : BitVec 64) (n : Nat) (hn : n ≤ 64) :
    (v &&& (((1 : BitVec 128) <<< n) - 1).setWidth 64 = v) ↔ v.toNat < 2 ^ n := by
  rw [← BitVec.toNat_inj, BitVec.toNat_and, mask_toNat n hn, Nat.and_two_pow_sub_one_eq_mod]
  constructor
  · intro h; rw [← h]; exact Nat.mod_lt _ (Nat.two_pow_pos n)
  · exact Nat.mod_eq_of_lt

theorem checks_iff (ch : Bool) (b : BitVec W) (sp : Nat) (out : List (BitVec W)) (cap : Option Nat)
    (v : BitVec 64) (n : Nat) (hn : n ≤ 64) :
    (ch = true ∧ ¬(v &&& (((1 : BitVec 128) <<< n) - 1).setWidth 64 = v)) ↔
      BufW.dirty ⟨b, sp, out, cap, ch⟩ v n = true := by
  simp only [BufW.dirty, fits_iff v n hn, Bool.and_eq_true, decide_eq_true_eq, Nat.not_lt, ge_iff_le]

theorem write_bits_be_eq (s : BufW W) (v : BitVec 64) (n : Nat) (hs : 0 < s.space) :
    Gen.BufW.write_bits_be s v n = BufW.writeBitsBE s v n := by
  obtain ⟨b, sp, out, cap, ch⟩ := s
  unfold Gen.BufW.write_bits_be BufW.writeBitsBE
  by_cases hn : n ≤ 64
  · rw [if_neg (fun h => h hn), if_neg (Nat.not_lt.mpr hn)]
    simp only [checks_iff ch b sp out cap v n hn]
    by_cases hd : BufW.dirty ⟨b, sp, out, cap, ch⟩ v n = true
    · rw [if_pos hd, if_pos hd]
    · rw [if_neg hd, if_neg hd, if_neg (fun h => h hs)]
      by_cases hf : n < sp
      · rw [if_pos hf, if_pos hf]
        simp only [Nat.mod_eq_of_lt (show n < 4294967296 by omega)]
      · rw [if_neg hf, if_neg hf]
        simp only [emit_mk]
        cases hc : capOk cap out.length
        · rfl
        · simp only [if_true, Res.bind]
          generalize b <<< (sp - 1) <<< 1 ||| BitVec.setWidth W (v <<< (64 - n) >>> (64 - sp)) = b1
          rw [forN_spillBE v]
          · rw [show (⟨b1, sp, out ++ [b1], cap, ch⟩ : BufW W) = upd b1 sp ⟨b, sp, out ++ [b1], cap, ch⟩ from rfl,
              spillBE_upd]
            cases BufW.spillBE v ((n - sp) / W) (n - sp) ⟨b, sp, out ++ [b1], cap, ch⟩ <;> rfl
          · intro st; rfl
  · rw [if_pos hn, if_pos (Nat.lt_of_not_le hn)]

theorem spillLE_upd (b : BitVec W) (sp : Nat) :
    ∀ k (v : BitVec 64) (s : BufW W), BufW.spillLE k v (upd b sp s) =
      (BufW.spillLE k v s).map fun p => (p.1, upd b sp p.2)
  | 0, v, s => rfl
  | k + 1, v, s => by
    simp only [BufW.spillLE, emit_upd]
    cases s.emit (v.setWidth W) with
    | ok s' => exact spillLE_upd b sp k (v >>> W) s'
    | _ => rfl

theorem forN_spillLE (f : BitVec 64 × BufW W → Res (BitVec 64 × BufW W))
    (hf : ∀ st, f st = Res.bind (st.2.emit (st.1.setWidth W)) fun s => .ok (st.1 >>> W, s)) :
    ∀ k v s, forN k (v, s) f = BufW.spillLE k v s
  | 0, v, s => rfl
  | k + 1, v, s => by
    simp only [forN, BufW.spillLE, hf]
    cases s.emit (v.setWidth W) with
    | ok s' => exact forN_spillLE f hf k (v >>> W) s'
    | _ => rfl

theorem write_bits_le_eq (s : BufW W) (v : BitVec 64) (n : Nat) (hs : 0 < s.space) :
    Gen.BufW.write_bits_le s v n = BufW.writeBitsLE s v n := by
  obtain ⟨b, sp, out, cap, ch⟩ := s
  unfold Gen.BufW.write_bits_le BufW.writeBitsLE
  by_cases hn : n ≤ 64
  · rw [if_neg (fun h => h hn), if_neg (Nat.not_lt.mpr hn)]
    simp only [checks_iff ch b sp out cap v n hn]
    by_cases hd : BufW.dirty ⟨b, sp, out, cap, ch⟩ v n = true
    · rw [if_pos hd, if_pos hd]
    · rw [if_neg hd, if_neg hd, if_neg (fun h => h hs)]
      by_cases hf : n < sp
      · rw [if_pos hf, if_pos hf]
        simp only [Nat.mod_eq_of_lt (show n < 4294967296 by omega)]
      · rw [if_neg hf, if_neg hf]
        simp only [emit_mk]
        cases hc : capOk cap out.length
        · rfl
        · simp only [if_true, Res.bind]
          generalize b >>> (sp - 1) >>> 1 ||| BitVec.setWidth W v <<< (W - sp) = b1
          simp only [Nat.mod_eq_of_lt (show n - sp < 4294967296 by omega)]
          rw [forN_spillLE]
          · rw [show (⟨b1, sp, out ++ [b1], cap, ch⟩ : BufW W) = upd b1 sp ⟨b, sp, out ++ [b1], cap, ch⟩ from rfl,
              spillLE_upd]
            cases BufW.spillLE ((n - sp) / W) (v >>> (sp - 1) >>> 1) ⟨b, sp, out ++ [b1], cap, ch⟩ <;> rfl
          · intro st; rfl
  · rw [if_pos hn, if_pos (Nat.lt_of_not_le hn)]

/-! ### `write_unary` -/

theorem forN_zeroWords (f : BufW W → Res (BufW W))
    (hf : ∀ s, f s = Res.bind (s.emit 0) fun s => .ok s) :
    ∀ k s, forN k s f = BufW.zeroWords k s
  | 0, s => rfl
  | k + 1, s => by
    simp only [forN, BufW.zeroWords, hf]
    cases s.emit 0 with
    | ok s' => exact forN_zeroWords f hf k s'
    | _ => rfl

theorem write_unary_be_eq (s : BufW W) (v : BitVec 64) (hs : 0 < s.space) (hsW : s.space ≤ W)
    (hW : W < 2 ^ 64) :
    Gen.BufW.write_unary_be s v = BufW.writeUnary .be s v.toNat := by
  obtain ⟨b, sp, out, cap, ch⟩ := s
  simp only at hs hsW
  unfold Gen.BufW.write_unary_be BufW.writeUnary
  have hx := v.isLt
  by_cases hmax : v = BitVec.allOnes 64
  · subst hmax
    rw [if_pos (fun h => h rfl), if_pos (by simp)]
  · have hx' : v.toNat < 2 ^ 64 - 1 := by
      have : v.toNat ≠ 2 ^ 64 - 1 := fun h => hmax (BitVec.eq_of_toNat_eq (by simp [h]))
      omega
    rw [if_neg (fun h => h hmax), if_neg (Nat.not_le.mpr hx'), if_neg (fun h => h hs)]
    have e0 : (BitVec.ofNat 64 sp).toNat = sp := by simp [BitVec.toNat_ofNat]; omega
    have eW : (BitVec.ofNat 64 W).toNat = W := by simp [BitVec.toNat_ofNat]; omega
    have h1 : (v + 1).toNat = v.toNat + 1 := by simp [BitVec.toNat_add]; omega
    have h2 : (v + 1 ≤ BitVec.ofNat 64 sp) ↔ v.toNat + 1 ≤ sp := by rw [BitVec.le_def, h1, e0]
    simp only [h1, h2]
    by_cases hfast : v.toNat + 1 ≤ sp
    · rw [if_pos hfast, if_pos hfast]
      simp only [emit_mk, BufW.shiftIn, BufW.oneWord]
      by_cases h0 : sp - (v.toNat + 1) = 0 <;> cases hc : capOk cap out.length <;>
        simp [h0, Res.bind]
    · rw [if_neg hfast, if_neg hfast]
      simp only [emit_mk, BufW.shiftIn, BufW.oneWord]
      cases hc : capOk cap out.length
      · rfl
      · simp only [if_true, Res.bind]
        have h3 : (v - BitVec.ofNat 64 sp).toNat = v.toNat - sp := by
          rw [BitVec.toNat_sub, e0]; omega
        have h4 : ((v - BitVec.ofNat 64 sp) / BitVec.ofNat 64 W).toNat = (v.toNat - sp) / W := by
          rw [BitVec.toNat_udiv, h3, eW]
        have h5 : ((v - BitVec.ofNat 64 sp) % BitVec.ofNat 64 W).toNat = (v.toNat - sp) % W := by
          rw [BitVec.toNat_umod, h3, eW]
        have h6 : ((v - BitVec.ofNat 64 sp) % BitVec.ofNat 64 W = BitVec.ofNat 64 W - 1) ↔
            (v.toNat - sp) % W = W - 1 := by
          rw [← BitVec.toNat_inj, h5, BitVec.toNat_sub, eW]
          have : (1 : BitVec 64).toNat = 1 := rfl
          rw [this]; omega
        simp only [h4, h5, h6]
        rw [forN_zeroWords]
        · cases BufW.zeroWords ((v.toNat - sp) / W)
              ⟨b <<< (sp - 1) <<< 1, sp, out ++ [b <<< (sp - 1) <<< 1], cap, ch⟩ with
          | ok s2 =>
            by_cases hl : (v.toNat - sp) % W = W - 1
            · simp only [hl, if_true]
              generalize s2.emit _ = r
              cases r <;> rfl
            · simp only [hl, if_false]
          | _ => rfl
        · intro s; rfl

theorem write_unary_le_eq (s : BufW W) (v : BitVec 64) (hs : 0 < s.space) (hsW : s.space ≤ W)
    (hW : W < 2 ^ 64) :
    Gen.BufW.write_unary_le s v = BufW.writeUnary .le s v.toNat := by
  obtain ⟨b, sp, out, cap, ch⟩ := s
  simp only at hs hsW
  unfold Gen.BufW.write_unary_le BufW.writeUnary
  have hx := v.isLt
  by_cases hmax : v = BitVec.allOnes 64
  · subst hmax
    rw [if_pos (fun h => h rfl), if_pos (by simp)]
  · have hx' : v.toNat < 2 ^ 64 - 1 := by
      have : v.toNat ≠ 2 ^ 64 - 1 := fun h => hmax (BitVec.eq_of_toNat_eq (by simp [h]))
      omega
    rw [if_neg (fun h => h hmax), if_neg (Nat.not_le.mpr hx'), if_neg (fun h => h hs)]
    have e0 : (BitVec.ofNat 64 sp).toNat = sp := by simp [BitVec.toNat_ofNat]; omega
    have eW : (BitVec.ofNat 64 W).toNat = W := by simp [BitVec.toNat_ofNat]; omega
    have h1 : (v + 1).toNat = v.toNat + 1 := by simp [BitVec.toNat_add]; omega
    have h2 : (v + 1 ≤ BitVec.ofNat 64 sp) ↔ v.toNat + 1 ≤ sp := by rw [BitVec.le_def, h1, e0]
    simp only [h1, h2]
    by_cases hfast : v.toNat + 1 ≤ sp
    · rw [if_pos hfast, if_pos hfast]
      simp only [emit_mk, BufW.shiftIn, BufW.oneWord]
      by_cases h0 : sp - (v.toNat + 1) = 0 <;> cases hc : capOk cap out.length <;>
        simp [h0, Res.bind]
    · rw [if_neg hfast, if_neg hfast]
      simp only [emit_mk, BufW.shiftIn, BufW.oneWord]
      cases hc : capOk cap out.length
      · rfl
      · simp only [if_true, Res.bind]
        have h3 : (v - BitVec.ofNat 64 sp).toNat = v.toNat - sp := by
          rw [BitVec.toNat_sub, e0]; omega
        have h4 : ((v - BitVec.ofNat 64 sp) / BitVec.ofNat 64 W).toNat = (v.toNat - sp) / W := by
          rw [BitVec.toNat_udiv, h3, eW]
        have h5 : ((v - BitVec.ofNat 64 sp) % BitVec.ofNat 64 W).toNat = (v.toNat - sp) % W := by
          rw [BitVec.toNat_umod, h3, eW]
        have h6 : ((v - BitVec.ofNat 64 sp) % BitVec.ofNat 64 W = BitVec.ofNat 64 W - 1) ↔
            (v.toNat - sp) % W = W - 1 := by
          rw [← BitVec.toNat_inj, h5, BitVec.toNat_sub, eW]
          have : (1 : BitVec 64).toNat = 1 := rfl
          rw [this]; omega
        simp only [h4, h5, h6]
        rw [forN_zeroWords]
        · cases BufW.zeroWords ((v.toNat - sp) / W)
              ⟨b >>> (sp - 1) >>> 1, sp, out ++ [b >>> (sp - 1) >>> 1], cap, ch⟩ with
          | ok s2 =>
            by_cases hl : (v.toNat - sp) % W = W - 1
            · simp only [hl, if_true]
              generalize s2.emit _ = r
              cases r <;> rfl
            · simp only [hl, if_false]
          | _ => rfl
        · intro s; rfl

/-- the same with the argument as the `Nat` the hand model takes (every `u64` is such an `x`) -/
theorem write_unary_be_eq_nat (s : BufW W) (x : Nat) (hx : x < 2 ^ 64) (hs : 0 < s.space)
    (hsW : s.space ≤ W) (hW : W < 2 ^ 64) :
    Gen.BufW.write_unary_be s (BitVec.ofNat 64 x) = BufW.writeUnary .be s x := by
  rw [write_unary_be_eq s _ hs hsW hW, BitVec.toNat_ofNat, Nat.mod_eq_of_lt hx]

theorem write_unary_le_eq_nat (s : BufW W) (x : Nat) (hx : x < 2 ^ 64) (hs : 0 < s.space)
    (hsW : s.space ≤ W) (hW : W < 2 ^ 64) :
    Gen.BufW.write_unary_le s (BitVec.ofNat 64 x) = BufW.writeUnary .le s x := by
  rw [write_unary_le_eq s _ hs hsW hW, BitVec.toNat_ofNat, Nat.mod_eq_of_lt hx]

/-! ### the refinement theorems, about the TRANSLATED bodies

`Dsi.writeBits_sim`, `Dsi.writeUnary_sim`, `Dsi.flush_sim` (lean/Dsi/Props/Writer.lean) are about
the hand model; through the equalities above they hold of the text translated from the Rust
source on this run.  `W < 2 ^ 64`: see the header (only `write_unary` needs it). -/

/-- the translated bodies packaged as an implementation of the `BitWrite` interface -/
def genImpl (e : Endian) : WImpl (BufW W) :=
  { writeBits := fun s v n =>
      match e with
      | .be => Gen.BufW.write_bits_be s (BitVec.ofNat 64 v) n
      | .le => Gen.BufW.write_bits_le s (BitVec.ofNat 64 v) n,
    writeUnary := fun s x =>
      match e with
      | .be => Gen.BufW.write_unary_be s (BitVec.ofNat 64 x)
      | .le => Gen.BufW.write_unary_le s (BitVec.ofNat 64 x),
    flush := fun s =>
      match e with
      | .be => Gen.BufW.flush_be s
      | .le => Gen.BufW.flush_le s }

theorem genImpl_writeBits (e : Endian) (s : BufW W) (hi : s.Inv) (v n : Nat) :
    (genImpl e).writeBits s v n = (BufW.impl e).writeBits s v n := by
  cases e
  · exact write_bits_be_eq s _ n hi.1
  · exact write_bits_le_eq s _ n hi.1

theorem genImpl_writeUnary (e : Endian) (s : BufW W) (hi : s.Inv) (hW : W < 2 ^ 64) (x : Nat)
    (hx : x < 2 ^ 64) : (genImpl e).writeUnary s x = (BufW.impl e).writeUnary s x := by
  cases e
  · exact write_unary_be_eq_nat s x hx hi.1 hi.2 hW
  · exact write_unary_le_eq_nat s x hx hi.1 hi.2 hW

theorem genImpl_flush (e : Endian) (s : BufW W) : (genImpl e).flush s = (BufW.impl e).flush s := by
  cases e
  · exact flush_be_eq s
  · exact flush_le_eq s

theorem gen_writeBits_sim {e : Endian} {s : BufW W} {r : RefW} (h : BufW.RelC e s r) (v n : Nat) :
    ResRel (fun (a, s') (b, r') => a = b ∧ BufW.RelC e s' r' ∧ s.out <+: s'.out)
      ((genImpl e).writeBits s v n) (RefW.writeBits r v n) := by
  rw [genImpl_writeBits e s h.1.1]
  exact writeBits_sim h v n

theorem gen_writeUnary_sim {e : Endian} {s : BufW W} {r : RefW} (h : BufW.RelC e s r)
    (hW : W < 2 ^ 64) (x : Nat) (hx : x < 2 ^ 64) :
    ResRel (fun (a, s') (b, r') => a = b ∧ BufW.RelC e s' r' ∧ s.out <+: s'.out)
      ((genImpl e).writeUnary s x) (RefW.writeUnary r x) := by
  rw [genImpl_writeUnary e s h.1.1 hW x hx]
  exact writeUnary_sim h x

theorem gen_flush_sim {e : Endian} {s : BufW W} {r : RefW} (h : BufW.RelC e s r) :
    ResRel (fun (a, s') (b, r') => a = b ∧ BufW.RelC e s' r' ∧ s.out <+: s'.out)
      ((genImpl e).flush s) (RefW.flush r) := by
  rw [genImpl_flush e s]
  exact flush_sim h

end GenBufW
end Dsi
