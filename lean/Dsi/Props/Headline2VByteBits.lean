/-
  Headline theorems for C18, second part: the byte-level VByte functions against the bit-stream
  VByte codes, everything generated: `Gen.vbyte_write e' v` (the `std::io` writer,
  lean/Dsi/Gen/VByteIOBodies.lean), `genOwnWrite e checks c v` / `genOwnRead e c` for
  `c = ⟨.vbyteBe, 0⟩ / ⟨.vbyteLe, 0⟩` (the `VByteBeWrite` / `VByteLeRead` … trait methods,
  lean/Dsi/Gen/VByteBodies.lean) on the generated `BufBitWriter` / `BufBitReader` of stream
  endianness `e` (`genWImpl e`, `genRImpl e`).

  * `gen_vbyte_bits_image`: at a byte-aligned position of a bit stream of EITHER endianness, the
    generated bit-stream VByte writer of a variant delivers exactly the bytes the generated
    `vbyte_write` of that variant produces;
  * (`gen_code_read_bytes`, Props/Headline2ReadBytes.lean: a generated `BufBitReader` built on ANY
    byte image whose bits are `pre ++ (the codeword of v) ++ post` reads `v` with the generated
    reader of the code, for every code of the `Codes` enum;)
  * `gen_vbyte_bits_accept`: in particular it accepts, at any byte offset, the bytes the generated
    `vbyte_write` produced.
-/
import Dsi.Props.Headline2ReadBytes
import Dsi.Props.Headline2VByte
namespace Dsi
namespace Headline2
open Headline E2E TrL EqvL CodeBodiesGen Gen CodesB

/-- the bit-stream VByte code of a variant -/
def vbyteCode (big : Bool) : CodeId := if big then ⟨.vbyteBe, 0⟩ else ⟨.vbyteLe, 0⟩

/-- the endianness parameter naming a variant -/
def endOf (big : Bool) : Endian := if big then .be else .le

theorem specBytes_lt (big : Bool) (v : Nat) (hv : v < 2 ^ 64) : ∀ b ∈ Spec.vbyteBytes big v, b < 256 := by
  cases big
  · rw [← vbyte_le_bytes v hv]; exact vbyteLeBytes_range v
  · rw [← vbyte_be_bytes v hv]; exact vbyteBeBytes_range v

/-- **C18, same bytes.**  After any preceding program that leaves the generated `BufBitWriter` (of
    stream endianness `e`) byte aligned, the generated bit-stream VByte writer of the variant `big`
    delivers, after `flush`: the image of the preceding bits, then exactly the bytes `bs` that the
    generated `std::io` function `vbyte_write` of that variant appends, then padding. -/
theorem gen_vbyte_bits_image {α : Type} (e : Endian) (big : Bool) {Ww : Nat} (hWw : 0 < Ww)
    (h8w : 8 ∣ Ww) (hWw64 : Ww < 2 ^ 64) (checks : Bool) (pre : WProg α) {a : α} {bits₀ : List Bool}
    (hpre : pre.run RefW.impl { e := e, W := Ww, checks := checks, cap := none, bits := [] }
      = .ok (a, { e := e, W := Ww, checks := checks, cap := none, bits := bits₀ }))
    (hal : 8 ∣ bits₀.length) (v : Nat) (hv : v < 2 ^ 64) :
    ∃ (bs : List Nat) (sw : BufW Ww) (k : Nat) (sw' : BufW Ww) (tail : List Nat),
      (∀ inp out : List Nat, (Gen.vbyte_write (endOf big) v).run inp out = .ok (bs.length, inp, out ++ bs)) ∧
      (pre.bind fun _ => genOwnWrite e checks (vbyteCode big) v).run (genWImpl e) (BufW.new Ww checks none)
        = .ok (8 * bs.length, sw) ∧
      (genWImpl e).flush sw = .ok (k, sw') ∧
      sw'.outBytes e = layout e bits₀ ++ bs ++ tail := by
  have hd : (vbyteCode big).Dom v := by cases big <;> exact hv
  obtain ⟨cw, sw, k, sw', hcw, h1, h2, h3⟩ :=
    gen_code_write_image e hWw h8w hWw64 checks pre hpre (vbyteCode big) v hd
  have hcw' : cw = bitsOfBytes e (Spec.vbyteBytes big v) := by
    cases big <;> (cases hcw; rfl)
  have hbo : bigOf (endOf big) = big := by cases big <;> rfl
  refine ⟨Spec.vbyteBytes big v, sw, k, sw', layout e (List.replicate ((Ww - (bits₀ ++ cw).length % Ww) % Ww) false),
    ?_, ?_, h2, ?_⟩
  · intro inp out
    rw [gen_vbyteio_write (endOf big) hv, hbo, gen_vbyte_len v hv]
  · rw [h1, hcw', bitsOfBytes_length]
  · rw [h3, layout_append_of_aligned e (bits₀ ++ cw) _
      (by rw [List.length_append, hcw', bitsOfBytes_length]; omega), hcw',
      io_aligned_image_at e bits₀ _ (specBytes_lt big v hv) hal]

/-- **C18, same bytes accepted.**  The bytes `bs` the generated `std::io` function `vbyte_write` of a
    variant produces for `v`, embedded at any byte offset of any byte image: the generated
    bit-stream VByte reader of that variant, on a generated `BufBitReader` of EITHER stream
    endianness built on the image, returns `v` and stops right after them. -/
theorem gen_vbyte_bits_accept (e : Endian) (big : Bool) {Wr : Nat} (hWr : 0 < Wr) (h8r : 8 ∣ Wr)
    (hW64 : e = .be → Wr ≤ 64) (hW12 : tablePeek ≤ Wr) (strict : Bool) (v : Nat) (hv : v < 2 ^ 64)
    (before after bs out : List Nat) (hb1 : ∀ b ∈ before, b < 256) (hb2 : ∀ b ∈ after, b < 256)
    (hbs : (Gen.vbyte_write (endOf big) v).run [] out = .ok (bs.length, [], out ++ bs))
    (hfit : 8 * (before ++ bs ++ after).length + 5 * Wr < 2 ^ 64) :
    ∃ (s1 s2 : BufR Wr),
      (genRImpl e).skipBits
        (BufR.new ⟨wordsOfBytes e Wr (padTo (Wr / 8) (before ++ bs ++ after)), 0, strict⟩)
        (8 * before.length) = .ok s1 ∧
      (genOwnRead e (vbyteCode big)).run (genRImpl e) s1 = .ok (v, s2) ∧
      GenBufR.genBitPos e s2 = .ok (8 * before.length + 8 * bs.length, s2) := by
  have hbo : bigOf (endOf big) = big := by cases big <;> rfl
  have hbs' : bs = Spec.vbyteBytes big v := by
    rw [gen_vbyteio_write (endOf big) hv, hbo] at hbs
    have := (Prod.mk.inj (Prod.mk.inj (Res.ok.inj hbs)).2).2
    exact (List.append_cancel_left this).symm
  have hd : (vbyteCode big).Dom v := by cases big <;> exact hv
  have hcw : (vbyteCode big).codeword e v = some (bitsOfBytes e bs) := by
    rw [hbs']; cases big <;> rfl
  have hlt : ∀ b ∈ before ++ bs ++ after, b < 256 := by
    intro b hb
    rcases List.mem_append.1 hb with h | h
    · rcases List.mem_append.1 h with h | h
      · exact hb1 b h
      · rw [hbs'] at h; exact specBytes_lt big v hv b h
    · exact hb2 b h
  have := gen_code_read_bytes e hWr h8r hW64 hW12 strict (before ++ bs ++ after) hlt
    (bitsOfBytes e before) (bitsOfBytes e after) (vbyteCode big) v hd hcw
    (by rw [bitsOfBytes_append, bitsOfBytes_append])
    (by simp only [List.length_append, bitsOfBytes_length] at hfit ⊢; omega)
  simpa only [bitsOfBytes_length] using this

/-! ### non-vacuity -/

/-- BE variant on an LE stream, 16-bit words, after one aligned byte: same bytes as `vbyte_write_be` -/
example : ∃ (sw : BufW 16) (k : Nat) (sw' : BufW 16),
    ((WProg.wbits 0xAB 8).bind fun _ => genOwnWrite .le false ⟨.vbyteBe, 0⟩ 300000).run (genWImpl .le)
      (BufW.new 16 false none) = .ok (24, sw) ∧
    (genWImpl .le).flush sw = .ok (k, sw') ∧ sw'.outBytes .le = [0xAB, 0x91, 0xA6, 0x60] ∧
    (Gen.vbyte_write .be 300000).run [] [0xAB] = .ok (3, [], [0xAB, 0x91, 0xA6, 0x60]) :=
  ⟨_, _, _, rfl, rfl, rfl, rfl⟩

example : ∃ (s1 s2 : BufR 16),
    (genRImpl .le).skipBits (BufR.new ⟨wordsOfBytes .le 16 (padTo (16 / 8) [0xAB, 0x91, 0xA6, 0x60]), 0, true⟩) 8
      = .ok s1 ∧
    (genOwnRead .le ⟨.vbyteBe, 0⟩).run (genRImpl .le) s1 = .ok (300000, s2) ∧
    GenBufR.genBitPos .le s2 = .ok (32, s2) := ⟨_, _, rfl, rfl, rfl⟩

example (e : Endian) (big : Bool) {bs : List Nat}
    (hbs : (Gen.vbyte_write (endOf big) 300000).run [] [] = .ok (bs.length, [], [] ++ bs))
    (hl : bs.length ≤ 10) :
    ∃ (s1 s2 : BufR 32),
      (genRImpl e).skipBits
        (BufR.new ⟨wordsOfBytes e 32 (padTo (32 / 8) ([1, 2, 3] ++ bs ++ [9])), 0, true⟩) (8 * 3) = .ok s1 ∧
      (genOwnRead e (vbyteCode big)).run (genRImpl e) s1 = .ok (300000, s2) ∧
      GenBufR.genBitPos e s2 = .ok (8 * 3 + 8 * bs.length, s2) :=
  gen_vbyte_bits_accept e big (by decide) (by decide) (fun _ => by decide) (by decide) true 300000
    (by decide) [1, 2, 3] [9] bs [] (by decide) (by decide) hbs (by
      simp only [List.length_append, List.length_cons, List.length_nil]; omega)

end Headline2
end Dsi
