/-
  The method bodies of the unbuffered `BitReader` as TRANSLATED from src/impls/bit_reader.rs on
  every run (lean/Dsi/Gen/BitReaderBodies.lean, emitted by tools/translate_bitr.py) are EQUAL to the
  hand-written model (lean/Dsi/Impl/BitReader.lean).

  The Rust keeps the position in a `u64` (`self.bit_index`), the hand model in a `Nat`; the
  translation computes in `BitVec 64`.  Every equality therefore needs the hypothesis that the
  positions involved fit 64 bits (`s.bitIndex + n < 2 ^ 64`, for `read_unary` the position of the
  end of the data plus three words): beyond that the Rust wraps (or panics in debug builds) where the
  hand model goes on counting.  No other hypothesis is needed.
-/
import Dsi.Gen.BitReaderBodies
import Dsi.Props.BitReader
namespace Dsi
namespace GenBitR
def natOut {w : Nat} {σ : Type} (x : Res (BitVec w × σ)) : Res (Nat × σ) :=
  x.map fun p => (p.1.toNat, p.2)

theorem ofNat_toNat_of_lt (x : Nat) (h : x < 2 ^ 64) : (BitVec.ofNat 64 x).toNat = x := by
  rw [BitVec.toNat_ofNat, Nat.mod_eq_of_lt h]

theorem idx_div (x : Nat) (h : x < 2 ^ 64) : (BitVec.ofNat 64 x / 64).toNat = x / 64 := by
  rw [BitVec.toNat_udiv, ofNat_toNat_of_lt x h]; rfl

theorem idx_mod (x : Nat) (h : x < 2 ^ 64) : (BitVec.ofNat 64 x % 64).toNat = x % 64 := by
  rw [BitVec.toNat_umod, ofNat_toNat_of_lt x h]; rfl

theorem idx_add (x n : Nat) (h : x + n < 2 ^ 64) :
    (BitVec.ofNat 64 x + BitVec.ofNat 64 n).toNat = x + n := by
  rw [← BitVec.ofNat_add, ofNat_toNat_of_lt _ h]

theorem skip_bits_be_eq (s : BitR) (n : Nat) (h : s.bitIndex + n < 2 ^ 64) :
    Gen.BitR.skip_bits_be s n = BitR.skipBits s n := by
  unfold Gen.BitR.skip_bits_be BitR.skipBits
  simp only [idx_add _ _ h]

theorem read_bits_be_eq (s : BitR) (n : Nat) (h : s.bitIndex + n < 2 ^ 64) :
    natOut (Gen.BitR.read_bits_be s n) = BitR.readBits .be s n := by
  obtain ⟨d, ix⟩ := s
  simp only at h
  have hix : ix < 2 ^ 64 := by omega
  unfold natOut Gen.BitR.read_bits_be BitR.readBits BitR.extract
  simp only [idx_div ix hix, idx_mod ix hix]
  by_cases h0 : n = 0
  · simp only [h0, if_true]; rfl
  · simp only [h0, if_false]
    by_cases h64 : n > 64
    · rw [if_pos (by omega), if_pos h64]; rfl
    · rw [if_neg (by omega), if_neg h64]
      cases d.setWordPos (ix / 64) with
      | ok d0 =>
        simp only [Res.bind]
        by_cases hs : ix % 64 + n ≤ 64
        · simp only [hs, if_true]
          cases d0.readWord with
          | ok p => obtain ⟨w, d1⟩ := p; simp only [Res.map, idx_add ix n h]
          | _ => rfl
        · simp only [hs, if_false]
          cases d0.readWord with
          | ok p =>
            obtain ⟨w, d1⟩ := p
            simp only
            cases d1.readWord with
            | ok q => obtain ⟨w2, d2⟩ := q; simp only [Res.map, idx_add ix n h]
            | _ => rfl
          | _ => rfl
      | _ => rfl
theorem read_bits_le_eq (s : BitR) (n : Nat) (h : s.bitIndex + n < 2 ^ 64) :
    natOut (Gen.BitR.read_bits_le s n) = BitR.readBits .le s n := by
  obtain ⟨d, ix⟩ := s
  simp only at h
  have hix : ix < 2 ^ 64 := by omega
  unfold natOut Gen.BitR.read_bits_le BitR.readBits BitR.extract
  simp only [idx_div ix hix, idx_mod ix hix]
  by_cases h0 : n = 0
  · simp only [h0, if_true]; rfl
  · simp only [h0, if_false]
    by_cases h64 : n > 64
    · rw [if_pos (by omega), if_pos h64]; rfl
    · rw [if_neg (by omega), if_neg h64]
      cases d.setWordPos (ix / 64) with
      | ok d0 =>
        simp only [Res.bind]
        by_cases hs : ix % 64 + n ≤ 64
        · simp only [hs, if_true]
          cases d0.readWord with
          | ok p => obtain ⟨w, d1⟩ := p; simp only [Res.map, idx_add ix n h]
          | _ => rfl
        · simp only [hs, if_false]
          cases d0.readWord with
          | ok p =>
            obtain ⟨w, d1⟩ := p
            simp only
            cases d1.readWord with
            | ok q => obtain ⟨w2, d2⟩ := q; simp only [Res.map, idx_add ix n h]
            | _ => rfl
          | _ => rfl
      | _ => rfl

theorem peek_bits_be_eq (s : BitR) (n : Nat) (hix : s.bitIndex < 2 ^ 64) :
    Gen.BitR.peek_bits_be s n = BitR.peekBits .be s n := by
  obtain ⟨d, ix⟩ := s
  simp only at hix
  unfold Gen.BitR.peek_bits_be BitR.peekBits BitR.extract
  simp only [idx_div ix hix, idx_mod ix hix]
  by_cases h0 : n = 0
  · simp only [h0, if_true]
  · simp only [h0, if_false]
    by_cases h32 : n > 32
    · rw [if_pos (by omega), if_pos h32]
    · rw [if_neg (by omega), if_neg h32]
      cases d.setWordPos (ix / 64) with
      | ok d0 =>
        simp only [Res.bind]
        by_cases hs : ix % 64 + n ≤ 64
        · simp only [hs, if_true]
          cases d0.readWord with
          | ok p => obtain ⟨w, d1⟩ := p; simp only [BitVec.toNat_setWidth]
          | _ => rfl
        · simp only [hs, if_false]
          cases d0.readWord with
          | ok p =>
            obtain ⟨w, d1⟩ := p
            simp only
            cases d1.readWord with
            | ok q => obtain ⟨w2, d2⟩ := q; simp only [BitVec.toNat_setWidth]
            | _ => rfl
          | _ => rfl
      | _ => rfl

theorem peek_bits_le_eq (s : BitR) (n : Nat) (hix : s.bitIndex < 2 ^ 64) :
    Gen.BitR.peek_bits_le s n = BitR.peekBits .le s n := by
  obtain ⟨d, ix⟩ := s
  simp only at hix
  unfold Gen.BitR.peek_bits_le BitR.peekBits BitR.extract
  simp only [idx_div ix hix, idx_mod ix hix]
  by_cases h0 : n = 0
  · simp only [h0, if_true]
  · simp only [h0, if_false]
    by_cases h32 : n > 32
    · rw [if_pos (by omega), if_pos h32]
    · rw [if_neg (by omega), if_neg h32]
      cases d.setWordPos (ix / 64) with
      | ok d0 =>
        simp only [Res.bind]
        by_cases hs : ix % 64 + n ≤ 64
        · simp only [hs, if_true]
          cases d0.readWord with
          | ok p => obtain ⟨w, d1⟩ := p; simp only [BitVec.toNat_setWidth]
          | _ => rfl
        · simp only [hs, if_false]
          cases d0.readWord with
          | ok p =>
            obtain ⟨w, d1⟩ := p
            simp only
            cases d1.readWord with
            | ok q => obtain ⟨w2, d2⟩ := q; simp only [BitVec.toNat_setWidth]
            | _ => rfl
          | _ => rfl
      | _ => rfl

theorem skip_bits_le_eq (s : BitR) (n : Nat) (h : s.bitIndex + n < 2 ^ 64) :
    Gen.BitR.skip_bits_le s n = BitR.skipBits s n := by
  unfold Gen.BitR.skip_bits_le BitR.skipBits
  simp only [idx_add _ _ h]

theorem skip_bits_after_peek_be_eq (s : BitR) (n : Nat) (h : s.bitIndex + n < 2 ^ 64) :
    Gen.BitR.skip_bits_after_peek_be s n = .ok (BitR.skipAfterPeek s n) := by
  unfold Gen.BitR.skip_bits_after_peek_be BitR.skipAfterPeek
  simp only [idx_add _ _ h]

theorem skip_bits_after_peek_le_eq (s : BitR) (n : Nat) (h : s.bitIndex + n < 2 ^ 64) :
    Gen.BitR.skip_bits_after_peek_le s n = .ok (BitR.skipAfterPeek s n) := by
  unfold Gen.BitR.skip_bits_after_peek_le BitR.skipAfterPeek
  simp only [idx_add _ _ h]

theorem bit_pos_be_eq (s : BitR) (h : s.bitIndex < 2 ^ 64) :
    natOut (Gen.BitR.bit_pos_be s) = .ok (s.bitPos, s) := by
  unfold natOut Gen.BitR.bit_pos_be BitR.bitPos
  simp only [Res.map, ofNat_toNat_of_lt _ h]

theorem bit_pos_le_eq (s : BitR) (h : s.bitIndex < 2 ^ 64) :
    natOut (Gen.BitR.bit_pos_le s) = .ok (s.bitPos, s) := by
  unfold natOut Gen.BitR.bit_pos_le BitR.bitPos
  simp only [Res.map, ofNat_toNat_of_lt _ h]

theorem set_bit_pos_be_eq (s : BitR) (p : BitVec 64) :
    Gen.BitR.set_bit_pos_be s p = .ok (BitR.setBitPos s p.toNat) := rfl

theorem set_bit_pos_le_eq (s : BitR) (p : BitVec 64) :
    Gen.BitR.set_bit_pos_le s p = .ok (BitR.setBitPos s p.toNat) := rfl

theorem ofNat_lt_iff (a b : Nat) (ha : a < 2 ^ 64) (hb : b < 2 ^ 64) :
    BitVec.ofNat 64 a < BitVec.ofNat 64 b ↔ a < b := by
  rw [BitVec.lt_def, ofNat_toNat_of_lt a ha, ofNat_toNat_of_lt b hb]

theorem loopN_unaryLoop_be (ix : Nat)
    (f : BitVec 64 × BitVec 64 × BitVec 64 × BitR →
      Res (Step (BitVec 64 × BitR) (BitVec 64 × BitVec 64 × BitVec 64 × BitR)))
    (hf : ∀ st, f st =
      if BitVec.ofNat 64 (BufR.clz st.2.2.1) < st.1 then
        .ok (Step.ret (st.2.1 + BitVec.ofNat 64 (BufR.clz st.2.2.1),
          { st.2.2.2 with bitIndex := (BitVec.ofNat 64 st.2.2.2.bitIndex +
              (st.2.1 + BitVec.ofNat 64 (BufR.clz st.2.2.1) + 1)).toNat }))
      else Res.bind st.2.2.2.data.readWord fun rw =>
        .ok (Step.next (64, st.2.1 + st.1, rw.1, { st.2.2.2 with data := rw.2 }))) :
    ∀ k (biw tot : Nat) (word : BitVec 64) (d : MemR 64), biw ≤ 64 → ix + tot + k * 64 < 2 ^ 64 →
      natOut (loopN k (BitVec.ofNat 64 biw, BitVec.ofNat 64 tot, word, (⟨d, ix⟩ : BitR)) f) =
        (BitR.unaryLoop .be k d word biw tot).map fun p => (p.1, ⟨p.2, ix + p.1 + 1⟩)
  | 0, biw, tot, word, d, _, _ => rfl
  | k + 1, biw, tot, word, d, hb, h => by
    rw [Nat.succ_mul] at h
    have hz := clz_le word
    simp only [natOut, loopN, BitR.unaryLoop, hf]
    simp only [ofNat_lt_iff (BufR.clz word) biw (by omega) (by omega)]
    by_cases hlt : BufR.clz word < biw
    · simp only [hlt, if_true, Res.bind, Res.map]
      have e1 : (BitVec.ofNat 64 tot + BitVec.ofNat 64 (BufR.clz word)).toNat = tot + BufR.clz word :=
        idx_add _ _ (by omega)
      have e2 : (BitVec.ofNat 64 ix + (BitVec.ofNat 64 tot + BitVec.ofNat 64 (BufR.clz word) + 1)).toNat
          = ix + (tot + BufR.clz word) + 1 := by
        rw [show (1 : BitVec 64) = BitVec.ofNat 64 1 from rfl, ← BitVec.ofNat_add, ← BitVec.ofNat_add,
          idx_add _ _ (by omega)]
        omega
      rw [e1, e2]
    · simp only [hlt, if_false]
      show Res.map _ (Res.bind (Res.bind d.readWord _) _) = _
      cases d.readWord with
      | ok p =>
        obtain ⟨w, d'⟩ := p
        simp only [Res.bind]
        rw [← BitVec.ofNat_add]
        exact loopN_unaryLoop_be ix f hf k 64 (tot + biw) w d' (by omega) (by omega)
      | _ => rfl


theorem loopN_unaryLoop_le (ix : Nat)
    (f : BitVec 64 × BitVec 64 × BitVec 64 × BitR →
      Res (Step (BitVec 64 × BitR) (BitVec 64 × BitVec 64 × BitVec 64 × BitR)))
    (hf : ∀ st, f st =
      if BitVec.ofNat 64 (BufR.ctz st.2.2.1) < st.1 then
        .ok (Step.ret (st.2.1 + BitVec.ofNat 64 (BufR.ctz st.2.2.1),
          { st.2.2.2 with bitIndex := (BitVec.ofNat 64 st.2.2.2.bitIndex +
              (st.2.1 + BitVec.ofNat 64 (BufR.ctz st.2.2.1) + 1)).toNat }))
      else Res.bind st.2.2.2.data.readWord fun rw =>
        .ok (Step.next (64, st.2.1 + st.1, rw.1, { st.2.2.2 with data := rw.2 }))) :
    ∀ k (biw tot : Nat) (word : BitVec 64) (d : MemR 64), biw ≤ 64 → ix + tot + k * 64 < 2 ^ 64 →
      natOut (loopN k (BitVec.ofNat 64 biw, BitVec.ofNat 64 tot, word, (⟨d, ix⟩ : BitR)) f) =
        (BitR.unaryLoop .le k d word biw tot).map fun p => (p.1, ⟨p.2, ix + p.1 + 1⟩)
  | 0, biw, tot, word, d, _, _ => rfl
  | k + 1, biw, tot, word, d, hb, h => by
    rw [Nat.succ_mul] at h
    have hz := ctz_le word
    simp only [natOut, loopN, BitR.unaryLoop, hf]
    simp only [ofNat_lt_iff (BufR.ctz word) biw (by omega) (by omega)]
    by_cases hlt : BufR.ctz word < biw
    · simp only [hlt, if_true, Res.bind, Res.map]
      have e1 : (BitVec.ofNat 64 tot + BitVec.ofNat 64 (BufR.ctz word)).toNat = tot + BufR.ctz word :=
        idx_add _ _ (by omega)
      have e2 : (BitVec.ofNat 64 ix + (BitVec.ofNat 64 tot + BitVec.ofNat 64 (BufR.ctz word) + 1)).toNat
          = ix + (tot + BufR.ctz word) + 1 := by
        rw [show (1 : BitVec 64) = BitVec.ofNat 64 1 from rfl, ← BitVec.ofNat_add, ← BitVec.ofNat_add,
          idx_add _ _ (by omega)]
        omega
      rw [e1, e2]
    · simp only [hlt, if_false]
      show Res.map _ (Res.bind (Res.bind d.readWord _) _) = _
      cases d.readWord with
      | ok p =>
        obtain ⟨w, d'⟩ := p
        simp only [Res.bind]
        rw [← BitVec.ofNat_add]
        exact loopN_unaryLoop_le ix f hf k 64 (tot + biw) w d' (by omega) (by omega)
      | _ => rfl

theorem setWordPos_data {d d0 : MemR 64} {p : Nat} (h : d.setWordPos p = .ok d0) :
    d0.data = d.data := by
  unfold MemR.setWordPos at h
  split at h
  · cases h
  · cases h; rfl

theorem readWord_data {d d1 : MemR 64} {w : BitVec 64} (h : d.readWord = .ok (w, d1)) :
    d1.data = d.data := by
  unfold MemR.readWord at h
  split at h
  · cases h; rfl
  · split at h
    · cases h
    · cases h; rfl

theorem off_ofNat (ix : Nat) : BitVec.ofNat 64 ix % 64 = BitVec.ofNat 64 (ix % 64) := by
  apply BitVec.eq_of_toNat_eq
  rw [BitVec.toNat_umod, BitVec.toNat_ofNat, BitVec.toNat_ofNat]
  show ix % 2 ^ 64 % 64 = ix % 64 % 2 ^ 64
  omega

theorem biw_ofNat (ix : Nat) :
    (64 : BitVec 64) - BitVec.ofNat 64 (ix % 64) = BitVec.ofNat 64 (64 - ix % 64) := by
  apply BitVec.eq_of_toNat_eq
  rw [BitVec.toNat_sub, BitVec.toNat_ofNat, BitVec.toNat_ofNat]
  show (2 ^ 64 - ix % 64 % 2 ^ 64 + 64) % 2 ^ 64 = (64 - ix % 64) % 2 ^ 64
  omega

/-- `hfit`: three words beyond the end of the data still have a 64-bit position -/
theorem read_unary_be_eq (s : BitR)
    (hfit : s.bitIndex + (s.data.data.length + 3) * 64 < 2 ^ 64) :
    natOut (Gen.BitR.read_unary_be s) = BitR.readUnary .be s := by
  obtain ⟨d, ix⟩ := s
  simp only at hfit
  have hix : ix < 2 ^ 64 := by omega
  unfold Gen.BitR.read_unary_be BitR.readUnary
  simp only [idx_div ix hix, off_ofNat, biw_ofNat]
  cases hs : d.setWordPos (ix / 64) with
  | ok d0 =>
    simp only [Res.bind]
    cases hr : d0.readWord with
    | ok p =>
      obtain ⟨w, d1⟩ := p
      simp only
      have hd : d1.data.length = d.data.length := by
        rw [readWord_data hr, setWordPos_data hs]
      rw [ofNat_toNat_of_lt (ix % 64) (by omega)]
      have key := loopN_unaryLoop_be ix _ (fun _ => rfl) (d1.data.length + 3 - d1.pos) (64 - ix % 64) 0
        (w <<< (ix % 64)) d1 (by omega) (by
          have : (d1.data.length + 3 - d1.pos) * 64 ≤ (d.data.length + 3) * 64 :=
            Nat.mul_le_mul_right _ (by omega)
          omega)
      refine key.trans ?_
      cases BitR.unaryLoop Endian.be (d1.data.length + 3 - d1.pos) d1 (w <<< (ix % 64)) (64 - ix % 64) 0 with
      | ok q => obtain ⟨r, d2⟩ := q; rfl
      | _ => rfl
    | _ => rfl
  | _ => rfl

theorem read_unary_le_eq (s : BitR)
    (hfit : s.bitIndex + (s.data.data.length + 3) * 64 < 2 ^ 64) :
    natOut (Gen.BitR.read_unary_le s) = BitR.readUnary .le s := by
  obtain ⟨d, ix⟩ := s
  simp only at hfit
  have hix : ix < 2 ^ 64 := by omega
  unfold Gen.BitR.read_unary_le BitR.readUnary
  simp only [idx_div ix hix, off_ofNat, biw_ofNat]
  cases hs : d.setWordPos (ix / 64) with
  | ok d0 =>
    simp only [Res.bind]
    cases hr : d0.readWord with
    | ok p =>
      obtain ⟨w, d1⟩ := p
      simp only
      have hd : d1.data.length = d.data.length := by
        rw [readWord_data hr, setWordPos_data hs]
      rw [ofNat_toNat_of_lt (ix % 64) (by omega)]
      have key := loopN_unaryLoop_le ix _ (fun _ => rfl) (d1.data.length + 3 - d1.pos) (64 - ix % 64) 0
        (w >>> (ix % 64)) d1 (by omega) (by
          have : (d1.data.length + 3 - d1.pos) * 64 ≤ (d.data.length + 3) * 64 :=
            Nat.mul_le_mul_right _ (by omega)
          omega)
      refine key.trans ?_
      cases BitR.unaryLoop Endian.le (d1.data.length + 3 - d1.pos) d1 (w >>> (ix % 64)) (64 - ix % 64) 0 with
      | ok q => obtain ⟨r, d2⟩ := q; rfl
      | _ => rfl
    | _ => rfl
  | _ => rfl

/-! ### the refinement theorems, about the TRANSLATED bodies -/

/-- the translated bodies packaged as an implementation of the `BitRead` interface -/
def genImpl (e : Endian) : RImpl BitR :=
  match e with
  | .be => { readBits := fun s n => natOut (Gen.BitR.read_bits_be s n),
             peekBits := Gen.BitR.peek_bits_be,
             skipAfterPeek := fun s n =>
               match Gen.BitR.skip_bits_after_peek_be s n with
               | .ok s' => s'
               | _ => s,
             skipBits := Gen.BitR.skip_bits_be,
             readUnary := fun s => natOut (Gen.BitR.read_unary_be s) }
  | .le => { readBits := fun s n => natOut (Gen.BitR.read_bits_le s n),
             peekBits := Gen.BitR.peek_bits_le,
             skipAfterPeek := fun s n =>
               match Gen.BitR.skip_bits_after_peek_le s n with
               | .ok s' => s'
               | _ => s,
             skipBits := Gen.BitR.skip_bits_le,
             readUnary := fun s => natOut (Gen.BitR.read_unary_le s) }

theorem genImpl_readBits (e : Endian) (s : BitR) (n : Nat) (h : s.bitIndex + n < 2 ^ 64) :
    (genImpl e).readBits s n = (BitR.impl e).readBits s n := by
  cases e
  · exact read_bits_be_eq s n h
  · exact read_bits_le_eq s n h

theorem genImpl_peekBits (e : Endian) (s : BitR) (n : Nat) (h : s.bitIndex < 2 ^ 64) :
    (genImpl e).peekBits s n = (BitR.impl e).peekBits s n := by
  cases e
  · exact peek_bits_be_eq s n h
  · exact peek_bits_le_eq s n h

theorem genImpl_skipAfterPeek (e : Endian) (s : BitR) (n : Nat) (h : s.bitIndex + n < 2 ^ 64) :
    (genImpl e).skipAfterPeek s n = (BitR.impl e).skipAfterPeek s n := by
  cases e
  · show (match Gen.BitR.skip_bits_after_peek_be s n with | .ok s' => s' | _ => s) = _
    rw [skip_bits_after_peek_be_eq s n h]; rfl
  · show (match Gen.BitR.skip_bits_after_peek_le s n with | .ok s' => s' | _ => s) = _
    rw [skip_bits_after_peek_le_eq s n h]; rfl

theorem genImpl_skipBits (e : Endian) (s : BitR) (n : Nat) (h : s.bitIndex + n < 2 ^ 64) :
    (genImpl e).skipBits s n = (BitR.impl e).skipBits s n := by
  cases e
  · exact skip_bits_be_eq s n h
  · exact skip_bits_le_eq s n h

theorem genImpl_readUnary (e : Endian) (s : BitR)
    (hfit : s.bitIndex + (s.data.data.length + 3) * 64 < 2 ^ 64) :
    (genImpl e).readUnary s = (BitR.impl e).readUnary s := by
  cases e
  · exact read_unary_be_eq s hfit
  · exact read_unary_le_eq s hfit

theorem gen_bitr_readBits_sim {e : Endian} {s : BitR} {r : RefR} (h : BitR.Rel' e s r) {n : Nat}
    (hn : n ≤ 64) (hfit : s.bitIndex + n < 2 ^ 64) :
    ResRel (fun (a, s') (b, r') => a = b ∧ BitR.Rel' e s' r')
      ((genImpl e).readBits s n) (RefR.readBits r n) := by
  rw [genImpl_readBits e s n hfit]
  exact bitr_readBits_sim h hn

theorem gen_bitr_peekBits_sim {e : Endian} {s : BitR} {r : RefR} (h : BitR.Rel' e s r) {n : Nat}
    (h1 : 1 ≤ n) (hn : n ≤ 32) (hfit : s.bitIndex < 2 ^ 64) :
    ResRel (fun (a, s') (b, r') => a = b ∧ BitR.Rel' e s' r')
      ((genImpl e).peekBits s n) (RefR.peekBits r n) := by
  rw [genImpl_peekBits e s n hfit]
  exact bitr_peekBits_sim h h1 hn

theorem gen_bitr_skipBits {e : Endian} {s : BitR} {r : RefR} (h : BitR.Rel' e s r) {n : Nat}
    (hav : r.avail n = true) (hfit : s.bitIndex + n < 2 ^ 64) :
    ResRel (fun s' r' => BitR.Rel' e s' r') ((genImpl e).skipBits s n) (RefR.skipBits r n) := by
  rw [genImpl_skipBits e s n hfit]
  exact bitr_skipBits h hav

theorem gen_bitr_readUnary_sim {e : Endian} {s : BitR} {r : RefR} (h : BitR.Rel' e s r)
    (hfit : s.bitIndex + (s.data.data.length + 3) * 64 < 2 ^ 64) :
    ResRel (fun (a, s') (b, r') => a = b ∧ BitR.Rel' e s' r')
      ((genImpl e).readUnary s) (RefR.readUnary r) := by
  rw [genImpl_readUnary e s hfit]
  exact bitr_readUnary_sim h

/-- `bit_pos` of the translated `BitSeek` impls returns the reference position -/
theorem gen_bitr_bitPos {e : Endian} {s : BitR} {r : RefR} (h : BitR.Rel e s r)
    (hfit : s.bitIndex < 2 ^ 64) :
    natOut (Gen.BitR.bit_pos_be s) = .ok (r.pos, s) ∧ natOut (Gen.BitR.bit_pos_le s) = .ok (r.pos, s) := by
  rw [bit_pos_be_eq s hfit, bit_pos_le_eq s hfit, bitr_bitPos h]
  exact ⟨rfl, rfl⟩

/-- `set_bit_pos` of the translated `BitSeek` impls is the reference seek -/
theorem gen_bitr_setBitPos {e : Endian} {s : BitR} {r : RefR} (h : BitR.Rel e s r) (p : BitVec 64) :
    (∃ s', Gen.BitR.set_bit_pos_be s p = .ok s' ∧ BitR.Rel e s' (r.seek p.toNat)) ∧
    (∃ s', Gen.BitR.set_bit_pos_le s p = .ok s' ∧ BitR.Rel e s' (r.seek p.toNat)) :=
  ⟨⟨_, set_bit_pos_be_eq s p, bitr_setBitPos h p.toNat⟩, ⟨_, set_bit_pos_le_eq s p, bitr_setBitPos h p.toNat⟩⟩

end GenBitR
end Dsi
