/-
  C20 — code lengths are monotone and Kraft-bounded; the change-point search is exact.

  * `len_mono`: every implemented length function (closed formulas of `Dsi.Codes` and the
    table-backed defaults of `Dsi.Defaults`, i.e. what `len_gamma`, `len_delta`, `len_zeta`,
    `len_exp_golomb` really compute) is non-decreasing on its domain.
  * `kraft_*`: partial Kraft sums of the implemented lengths are at most 1, from Mathlib's
    Kraft–McMillan inequality applied to the published codewords (`Dsi.Spec`), which are shown
    prefix-free and of the implemented length (`Dsi.Lemmas.Kraft`).
  * `find_change_*`: the model of `FindChangePoints::next` (`Dsi.Glue.FindChange`) on a
    non-decreasing function: first item `(0, f 0)`; every later item is the least change point
    after the current one whenever it is within reach (in particular whenever it is `≤ 2^63`);
    `next` returns within its fuel, without overflow, and returns `none` exactly when no change
    point is within reach (e.g. for constant functions).
-/
import Dsi.Lemmas.FindChange
import Dsi.Lemmas.LenMono
import Dsi.Lemmas.Kraft
import Dsi.Lemmas.Kraft2
import Dsi.Glue.StatsDriver
import Dsi.Lemmas.CodesBCodes
namespace Dsi

/-! ### monotone lengths -/

/-- **len_mono**: a larger value never gets a shorter codeword, for every length function of
    `src/codes/*.rs` (values `< 2^64 - 1` where the code cannot encode `2^64 - 1`; unconditional
    where the formula is monotone on all of `Nat`) -/
theorem len_mono {m n : Nat} (h : m ≤ n) :
    lenUnary m ≤ lenUnary n ∧
    lenGammaDefault m ≤ lenGammaDefault n ∧
    lenDelta none none m ≤ lenDelta none none n ∧
    lenOmega m ≤ lenOmega n ∧
    bitLenVByte m ≤ bitLenVByte n ∧
    (∀ k, lenRice m k ≤ lenRice n k) ∧
    (∀ k, lenPi m k ≤ lenPi n k) ∧
    (∀ k, lenExpGolomb none m k ≤ lenExpGolomb none n k) ∧
    (∀ b, 1 ≤ b → b < 2 ^ 64 → lenGolomb m b ≤ lenGolomb n b) ∧
    (∀ u, lenMinimalBinary m u ≤ lenMinimalBinary n u) ∧
    (∀ k, 1 ≤ k → k ≤ 63 → n < 2 ^ 64 - 1 → lenZetaDefault m k ≤ lenZetaDefault n k) :=
  ⟨lenUnary_mono h, lenGammaDefault_mono h, lenDelta_none_mono h, lenOmega_mono h, bitLenVByte_mono h,
   fun k => lenRice_mono k h, fun k => lenPi_mono k h, fun k => lenExpGolomb_none_mono k h,
   fun b hb hb' => lenGolomb_mono b hb hb' h, fun u => lenMinimalBinary_mono u h,
   fun k hk1 hk hn => lenZetaDefault_mono k hk1 hk h hn⟩

/-- the same for the parameterless library functions (`len_gamma`, `len_delta`, `len_zeta`,
    `len_exp_golomb`), which go through the generated length tables -/
theorem len_mono_defaults {m n : Nat} (h : m ≤ n) :
    lenGammaD m ≤ lenGammaD n ∧ lenDeltaD m ≤ lenDeltaD n ∧
    (∀ k, lenExpGolombD m k ≤ lenExpGolombD n k) ∧
    (∀ k, 1 ≤ k → k ≤ 63 → n < 2 ^ 64 - 1 → lenZetaD m k ≤ lenZetaD n k) :=
  ⟨lenGammaD_mono h, lenDeltaD_mono h, fun k => lenExpGolombD_mono k h,
   fun k hk1 hk hn => lenZetaD_mono k hk1 hk h hn⟩

/-- the generated length tables agree with the closed formulas, so every `_param::<…>` variant
    computes the same lengths -/
theorem len_tables_eq (n k : Nat) (t td tg : Bool) :
    lenGammaP t n = lenGammaDefault n ∧ lenDeltaP td tg n = lenDelta none none n ∧
    lenZetaP t n k = lenZetaDefault n k :=
  ⟨lenGammaP_eq t n, lenDeltaP_eq td tg n, lenZetaP_eq t n k⟩

/-- every library length function, as iterated by `FindChangePoints` / `get_implied_distribution`,
    is non-decreasing in the sense the search needs -/
theorem lib_len_mono :
    FC.Mono lenUnary ∧ FC.Mono lenGammaD ∧ FC.Mono lenDeltaD ∧ FC.Mono lenOmega ∧ FC.Mono bitLenVByte ∧
    (∀ k, FC.Mono (lenRice · k)) ∧ (∀ k, FC.Mono (lenPi · k)) ∧ (∀ k, FC.Mono (lenExpGolombD · k)) ∧
    (∀ b, 1 ≤ b → b < 2 ^ 64 → FC.Mono (lenGolomb · b)) ∧ (∀ u, FC.Mono (lenMinimalBinary · u)) ∧
    (∀ k, 1 ≤ k → k ≤ 63 → FC.Mono (lenZetaD · k)) := by
  refine ⟨fun a b h _ => lenUnary_mono h, fun a b h _ => lenGammaD_mono h, fun a b h _ => lenDeltaD_mono h,
    fun a b h _ => lenOmega_mono h, fun a b h _ => bitLenVByte_mono h, fun k a b h _ => lenRice_mono k h,
    fun k a b h _ => lenPi_mono k h, fun k a b h _ => lenExpGolombD_mono k h,
    fun b hb hb' x y h _ => lenGolomb_mono b hb hb' h, fun u a b h _ => lenMinimalBinary_mono u h,
    fun k hk1 hk a b h hb => lenZetaD_mono k hk1 hk h (by simpa [FC.U64MAX] using hb)⟩

/-! ### Kraft -/

/-- **kraft**: for every `N` (within the code's domain) the lengths of the first `N` values
    satisfy Kraft's inequality — every code of the library: unary, γ, δ, ω, VByte, ζ_k, π_k,
    Rice_k, exp-Golomb_k, Golomb_b, minimal binary with bound `u` -/
theorem kraft (N : ℕ) :
    ∑ n ∈ Finset.range N, ((1:ℝ)/2) ^ lenUnary n ≤ 1 ∧
    ∑ n ∈ Finset.range N, ((1:ℝ)/2) ^ lenGammaDefault n ≤ 1 ∧
    ∑ n ∈ Finset.range N, ((1:ℝ)/2) ^ lenDelta none none n ≤ 1 ∧
    (N ≤ 2 ^ 64 - 1 → ∑ n ∈ Finset.range N, ((1:ℝ)/2) ^ lenOmega n ≤ 1) ∧
    (N ≤ 2 ^ 64 → ∑ n ∈ Finset.range N, ((1:ℝ)/2) ^ bitLenVByte n ≤ 1) ∧
    (∀ k, 1 ≤ k → N ≤ 2 ^ 64 - 1 → ∑ n ∈ Finset.range N, ((1:ℝ)/2) ^ lenZetaDefault n k ≤ 1) ∧
    (∀ k, ∑ n ∈ Finset.range N, ((1:ℝ)/2) ^ lenPi n k ≤ 1) ∧
    (∀ k, ∑ n ∈ Finset.range N, ((1:ℝ)/2) ^ lenRice n k ≤ 1) ∧
    (∀ k, ∑ n ∈ Finset.range N, ((1:ℝ)/2) ^ lenExpGolomb none n k ≤ 1) ∧
    (∀ b, 1 ≤ b → b < 2 ^ 64 → ∑ n ∈ Finset.range N, ((1:ℝ)/2) ^ lenGolomb n b ≤ 1) ∧
    (∀ u, 1 ≤ u → u < 2 ^ 64 → N ≤ u → ∑ n ∈ Finset.range N, ((1:ℝ)/2) ^ lenMinimalBinary n u ≤ 1) :=
  ⟨kraft_unary N, kraft_gamma N, kraft_delta N, fun h => kraft_omega N h, fun h => kraft_vbyte N h,
   fun k hk h => kraft_zeta k hk N h, fun k => kraft_pi k N, fun k => kraft_rice k N,
   fun k => kraft_expGolomb k N, fun b hb hb' => kraft_golomb b hb hb' N,
   fun u hu hu' h => kraft_minimalBinary u hu hu' N h⟩

/-- the implemented length is the length of the published codeword (the link Kraft goes through) -/
theorem len_eq_codeword_length (e : Endian) (n : ℕ) :
    (Spec.unary n).length = lenUnary n ∧ (Spec.gamma e n).length = lenGammaDefault n ∧
    (Spec.delta e n).length = lenDelta none none n ∧ (Spec.omega e n).length = lenOmega n ∧
    (∀ big, n < 2 ^ 64 → (Spec.vbyte e big n).length = bitLenVByte n) ∧
    (∀ k, 1 ≤ k → n < 2 ^ 64 - 1 → (Spec.zetaWrapped e k n).length = lenZetaDefault n k) ∧
    (∀ k, (Spec.pi e k n).length = lenPi n k) ∧ (∀ k, (Spec.rice e k n).length = lenRice n k) ∧
    (∀ k, (Spec.expGolomb e k n).length = lenExpGolomb none n k) ∧
    (∀ b, 1 ≤ b → b < 2 ^ 64 → (Spec.golomb e b n).length = lenGolomb n b) ∧
    (∀ u, 1 ≤ u → u < 2 ^ 64 → (Spec.minimalBinary e n u).length = lenMinimalBinary n u) :=
  ⟨unary_length n, gamma_length e n, delta_length e n, omega_length e n, fun big h => vbyte_length e big n h,
   fun _ hk h => zetaWrapped_length e hk n h, fun k => pi_length e k n, fun k => rice_length e k n,
   fun k => expGolomb_length e k n, fun _ hb hb' => golomb_length e n hb hb',
   fun _ hu hu' => minimalBinary_length e n hu hu'⟩

/-- the same for what `len_gamma`, `len_delta`, `len_exp_golomb` compute through the tables -/
theorem kraft_defaults (N : ℕ) :
    ∑ n ∈ Finset.range N, ((1:ℝ)/2) ^ lenGammaD n ≤ 1 ∧
    ∑ n ∈ Finset.range N, ((1:ℝ)/2) ^ lenDeltaD n ≤ 1 ∧
    (∀ k, ∑ n ∈ Finset.range N, ((1:ℝ)/2) ^ lenExpGolombD n k ≤ 1) ∧
    (∀ k, 1 ≤ k → N ≤ 2 ^ 64 - 1 → ∑ n ∈ Finset.range N, ((1:ℝ)/2) ^ lenZetaD n k ≤ 1) := by
  refine ⟨?_, ?_, fun k => ?_, fun k hk h => ?_⟩
  · simpa only [lenGammaD_eq] using kraft_gamma N
  · simpa only [lenDeltaD_eq] using kraft_delta N
  · simpa only [lenExpGolombD_eq] using kraft_expGolomb k N
  · simpa only [lenZetaD_eq] using kraft_zeta k hk N h

/-! ### change-point search -/

open FC

/-- **find_change_first**: the first item is `(0, f 0)` -/
theorem find_change_first (f : Nat → Nat) :
    FC.next f FC.new = .ok (some (0, f 0), { current := 0, prev := some (f 0) }) ∧
    Started f { current := 0, prev := some (f 0) } :=
  ⟨next_first f, started_first f⟩

/-- **find_change_sound**: on a non-decreasing function, after the first call, if `x` is the
    least point after `current` where `f` differs from its value at `current` and `x` is within
    reach (some probe `current + 2^j < 2^64 - 1` lies at or beyond it — always the case when
    `x ≤ 2^63`), then `next` yields exactly `(x, f x)` and moves there; in particular the yielded
    points increase strictly and no change point up to `2^63` is missed. -/
theorem find_change_sound {f : Nat → Nat} (hm : Mono f) {s : FC} (hs : Started f s) {x : Nat}
    (hx : LeastChange f s.current x) (hr : InReach s.current x ∨ x ≤ 2 ^ 63) :
    FC.next f s = .ok (some (x, f x), { current := x, prev := some (f x) }) ∧
    s.current < x ∧ Started f { current := x, prev := some (f x) } := by
  have hr' : InReach s.current x := by
    rcases hr with h | h
    · exact h
    · exact inReach_of_le hx.1 h
  rcases next_started hm hs with ⟨x', hx', _, hn, hst⟩ | ⟨hno, _⟩
  · have := leastChange_unique hx hx'
    subst this
    exact ⟨hn, hx.1, hst⟩
  · exact absurd ⟨x, hx, hr'⟩ hno

/-- whatever `next` yields after the first call is the least change point after `current` -/
theorem find_change_only_changes {f : Nat → Nat} (hm : Mono f) {s s' : FC} (hs : Started f s) {x v : Nat}
    (h : FC.next f s = .ok (some (x, v), s')) :
    LeastChange f s.current x ∧ v = f x ∧ s' = { current := x, prev := some (f x) } := by
  rcases next_started hm hs with ⟨x', hx', _, hn, _⟩ | ⟨_, hn⟩
  · rw [hn] at h
    simp only [Res.ok.injEq, Prod.mk.injEq, Option.some.injEq] at h
    obtain ⟨⟨rfl, rfl⟩, rfl⟩ := h
    exact ⟨hx', rfl, rfl⟩
  · rw [hn] at h; simp at h

/-- **find_change_terminates**: on a non-decreasing function `next` always returns a result
    within its fuel (no `HANG`), without overflow or failed debug assertion, and the result is
    `none` — leaving the state unchanged — exactly when no change point is within reach; in
    particular for every function that is constant from `current` on. -/
theorem find_change_terminates {f : Nat → Nat} (hm : Mono f) {s : FC} (hs : Started f s) :
    (∃ r, FC.next f s = .ok r) ∧
    ((¬ ∃ x, LeastChange f s.current x ∧ InReach s.current x) ↔ FC.next f s = .ok (none, s)) ∧
    ((∀ y, s.current ≤ y → f y = f s.current) → FC.next f s = .ok (none, s)) := by
  have key : (¬ ∃ x, LeastChange f s.current x ∧ InReach s.current x) ↔ FC.next f s = .ok (none, s) := by
    rcases next_started hm hs with ⟨x, hx, hr, hn, _⟩ | ⟨hno, hn⟩
    · constructor
      · intro h; exact absurd ⟨x, hx, hr⟩ h
      · intro h; rw [hn] at h; simp at h
    · exact ⟨fun _ => hn, fun _ => hno⟩
  refine ⟨?_, key, ?_⟩
  · rcases next_started hm hs with ⟨x, _, _, hn, _⟩ | ⟨_, hn⟩ <;> exact ⟨_, hn⟩
  · intro hconst
    apply key.1
    rintro ⟨x, ⟨h1, h2, _⟩, _⟩
    exact h2 (hconst x (Nat.le_of_lt h1))

/-- the constant function: one item, then the end -/
theorem find_change_const (c : Nat) :
    FC.changePoints (fun _ => c) 5 = .ok ([(0, c)], true) := by
  have hm : Mono (fun _ : Nat => c) := fun _ _ _ _ => Nat.le_refl _
  have h1 := (find_change_first (fun _ : Nat => c)).1
  have h2 := (find_change_terminates hm (started_first (fun _ : Nat => c))).2.2 (fun _ _ => rfl)
  simp only [FC.changePoints, FC.collect, h1, h2, List.reverse_cons, List.reverse_nil, List.nil_append]

/-! ### the whole iteration -/

/-- consecutive least change points, each within reach of the previous one -/
inductive ChangeChain (f : Nat → Nat) : Nat → List (Nat × Nat) → Prop where
  | nil (cur : Nat) : ChangeChain f cur []
  | cons {cur x : Nat} {rest : List (Nat × Nat)} :
      LeastChange f cur x → InReach cur x → ChangeChain f x rest → ChangeChain f cur ((x, f x) :: rest)

/-- the point the iteration stands at after yielding `items` from `cur` -/
def lastPoint (cur : Nat) (items : List (Nat × Nat)) : Nat := (items.getLast?.map (·.1)).getD cur

theorem lastPoint_cons (cur : Nat) (y : Nat × Nat) (items : List (Nat × Nat)) :
    lastPoint cur (y :: items) = lastPoint y.1 items := by
  cases items with
  | nil => simp [lastPoint]
  | cons a as => simp [lastPoint, List.getLast?_cons_cons, List.getLast?_eq_getLast_of_ne_nil (List.cons_ne_nil a as)]

theorem collect_spec {f : Nat → Nat} (hm : Mono f) : ∀ (fuel : Nat) (s : FC) (acc : List (Nat × Nat)),
    Started f s →
    ∃ items ended, FC.collect f fuel s acc = .ok (acc.reverse ++ items, ended) ∧
      ChangeChain f s.current items ∧ items.length ≤ fuel ∧ (ended = false → items.length = fuel) ∧
      (ended = true → ¬ ∃ x, LeastChange f (lastPoint s.current items) x ∧ InReach (lastPoint s.current items) x) := by
  intro fuel
  induction fuel with
  | zero =>
    intro s acc _
    exact ⟨[], false, by simp [FC.collect], .nil _, by simp, by simp, by simp⟩
  | succ fuel ih =>
    intro s acc hs
    rcases next_started hm hs with ⟨x, hx, hr, hn, hst⟩ | ⟨hno, hn⟩
    · obtain ⟨items, ended, hc, hch, hl, hf, he⟩ := ih { current := x, prev := some (f x) } ((x, f x) :: acc) hst
      refine ⟨(x, f x) :: items, ended, ?_, .cons hx hr hch, by simp; omega, by simpa using hf, ?_⟩
      · simp only [FC.collect, hn, hc]; simp
      · intro h
        rw [lastPoint_cons]
        exact he h
    · exact ⟨[], true, by simp [FC.collect, hn], .nil _, by simp, by simp, by simpa [lastPoint] using hno⟩

/-- **find_change_iteration**: the first `n` outputs of the iterator on a non-decreasing function
    are `(0, f 0)` followed by the consecutive least change points (each paired with the new
    value), it ends only when no further change point is within reach, and it never hangs,
    overflows or trips a debug assertion. -/
theorem find_change_iteration {f : Nat → Nat} (hm : Mono f) (n : Nat) :
    ∃ items ended, FC.changePoints f (n + 1) = .ok ((0, f 0) :: items, ended) ∧
      ChangeChain f 0 items ∧ (ended = false → items.length = n) ∧
      (ended = true → ¬ ∃ x, LeastChange f (lastPoint 0 items) x ∧ InReach (lastPoint 0 items) x) := by
  obtain ⟨items, ended, hc, hch, _, hf, he⟩ := collect_spec hm n { current := 0, prev := some (f 0) } [(0, f 0)]
    (started_first f)
  refine ⟨items, ended, ?_, hch, hf, he⟩
  simp only [FC.changePoints, FC.collect, next_first, hc]
  simp

/-- the reference the correspondence check compares the implementation with (`FC.specChangePoints`:
    plain bisection for the least change point below the farthest probe) is this specification,
    and the iterator model agrees with it on every non-decreasing function -/
theorem find_change_matches_reference {f : Nat → Nat} (hm : Mono f) (n : Nat) :
    FC.changePoints f n = .ok (FC.specChangePoints f n) ∧
    ∀ cur, (FC.specNext f cur = none → ¬ ∃ x, LeastChange f cur x ∧ InReach cur x) ∧
      (∀ x v, FC.specNext f cur = some (x, v) → LeastChange f cur x ∧ InReach cur x ∧ v = f x) :=
  ⟨changePoints_eq_spec hm n, fun cur => specNext_spec hm cur⟩

/-! ### the statements are not vacuous -/

example : FC.changePoints (fun x => if x < 5 then 0 else 1) 4 = .ok ([(0, 0), (5, 1)], true) := by rfl
example : LeastChange (fun x => if x < 5 then 0 else 1) 0 5 := by
  refine ⟨by decide, by decide, ?_⟩
  intro y _ hy
  simp [hy]

end Dsi

namespace Dsi

/-- the closed forms the driver uses as the reference for codewords too long to build are the
    lengths of the published codewords -/
theorem specLenBig_sound (code : String) (p v x : Nat) (h : specLenBig code p v = some x) :
    specLen code p v = some x := by
  unfold specLenBig at h
  split at h
  · -- unary
    cases h
    simp [specLen, Spec.codeword, Spec.unary, CodesB.unaryBits_length]
  · -- rice
    cases h
    simp [specLen, Spec.codeword, rice_length, lenRice]
  · -- golomb
    split at h
    · cases h
    · cases h
      simp [specLen, Spec.codeword, Spec.golomb, Spec.unary, CodesB.unaryBits_length]
  · cases h

example : specLenBig "rice" 0 (2 ^ 32) = some (2 ^ 32 + 1) := by decide

end Dsi
