/-
  C05 — table-driven coding is observationally identical to bit-by-bit coding.

  For γ, δ and ζ₃, decoding / encoding / measuring through the precomputed tables gives the same
  value, the same bits, the same length and the same final stream position as without tables:
  * readers: on *every* state of the reference reader `RefR` (any position hence any alignment,
    strict or zero-extended stream, any number of bits left — in particular fewer than the
    table's index width before the end of a strict stream, where the look-ahead fails and the
    reader falls back) whose look-ahead capacity `peekMax` is at least the index width;
  * writers: on *every* state of the reference writer `RefW` (growable or fixed capacity) whose
    `checks` flag is the one the program was built with;
  * lengths: for every argument.

  The table facts (`*_ok`) are kernel evaluations over the generated tables
  (`Dsi.Lemmas.TablesOk*`, the big decoding tables cut into independently evaluated pieces); the lifting is generic (`readTable_eq`, `writeTable_eq`,
  `lenTable_eq`).  The concrete readers refine `RefR` for look-aheads up to their word size
  (`peekBits_sim`, `table_sim` in `Dsi.Props.Reader`), which is where `peekMax` comes from.
-/
import Dsi.Defaults
import Dsi.Glue.CheckTables
import Dsi.Lemmas.TablesSound
import Dsi.Lemmas.TablesWrite
import Dsi.Lemmas.TablesOkGamma
import Dsi.Lemmas.TablesOkDeltaRead
import Dsi.Lemmas.TablesOkDeltaWriteBe
import Dsi.Lemmas.TablesOkDeltaWriteLe
import Dsi.Lemmas.TablesOkZetaRead
import Dsi.Lemmas.TablesOkZetaWriteBe
import Dsi.Lemmas.TablesOkZetaWriteLe
import Dsi.Props.CodesA
import Dsi.Props.CodesB
namespace Dsi
open Gen

namespace Tables

/-! ### the generated arrays are the concatenation of their chunks -/

theorem gamma_READ_BE : Gamma.READ_BE = Gamma.READ_BE_chunks.flatten.toArray := by
  simp [Gamma.READ_BE, Gamma.READ_BE_l, Gamma.READ_BE_chunks]
theorem gamma_READ_LEN_BE : Gamma.READ_LEN_BE = Gamma.READ_LEN_BE_chunks.flatten.toArray := by
  simp [Gamma.READ_LEN_BE, Gamma.READ_LEN_BE_l, Gamma.READ_LEN_BE_chunks]
theorem gamma_READ_LE : Gamma.READ_LE = Gamma.READ_LE_chunks.flatten.toArray := by
  simp [Gamma.READ_LE, Gamma.READ_LE_l, Gamma.READ_LE_chunks]
theorem gamma_READ_LEN_LE : Gamma.READ_LEN_LE = Gamma.READ_LEN_LE_chunks.flatten.toArray := by
  simp [Gamma.READ_LEN_LE, Gamma.READ_LEN_LE_l, Gamma.READ_LEN_LE_chunks]
theorem gamma_WRITE_BE : Gamma.WRITE_BE = Gamma.WRITE_BE_chunks.flatten.toArray := by
  simp [Gamma.WRITE_BE, Gamma.WRITE_BE_l, Gamma.WRITE_BE_chunks]
theorem gamma_WRITE_LEN_BE : Gamma.WRITE_LEN_BE = Gamma.WRITE_LEN_BE_chunks.flatten.toArray := by
  simp [Gamma.WRITE_LEN_BE, Gamma.WRITE_LEN_BE_l, Gamma.WRITE_LEN_BE_chunks]
theorem gamma_WRITE_LE : Gamma.WRITE_LE = Gamma.WRITE_LE_chunks.flatten.toArray := by
  simp [Gamma.WRITE_LE, Gamma.WRITE_LE_l, Gamma.WRITE_LE_chunks]
theorem gamma_WRITE_LEN_LE : Gamma.WRITE_LEN_LE = Gamma.WRITE_LEN_LE_chunks.flatten.toArray := by
  simp [Gamma.WRITE_LEN_LE, Gamma.WRITE_LEN_LE_l, Gamma.WRITE_LEN_LE_chunks]
theorem gamma_LEN : Gamma.LEN = Gamma.LEN_chunks.flatten.toArray := by
  simp [Gamma.LEN, Gamma.LEN_l, Gamma.LEN_chunks]

theorem delta_READ_BE : Delta.READ_BE = Delta.READ_BE_chunks.flatten.toArray := by
  simp [Delta.READ_BE, Delta.READ_BE_l, Delta.READ_BE_chunks]
theorem delta_READ_LEN_BE : Delta.READ_LEN_BE = Delta.READ_LEN_BE_chunks.flatten.toArray := by
  simp [Delta.READ_LEN_BE, Delta.READ_LEN_BE_l, Delta.READ_LEN_BE_chunks]
theorem delta_READ_LE : Delta.READ_LE = Delta.READ_LE_chunks.flatten.toArray := by
  simp [Delta.READ_LE, Delta.READ_LE_l, Delta.READ_LE_chunks]
theorem delta_READ_LEN_LE : Delta.READ_LEN_LE = Delta.READ_LEN_LE_chunks.flatten.toArray := by
  simp [Delta.READ_LEN_LE, Delta.READ_LEN_LE_l, Delta.READ_LEN_LE_chunks]
theorem delta_WRITE_BE : Delta.WRITE_BE = Delta.WRITE_BE_chunks.flatten.toArray := by
  simp [Delta.WRITE_BE, Delta.WRITE_BE_l, Delta.WRITE_BE_chunks]
theorem delta_WRITE_LEN_BE : Delta.WRITE_LEN_BE = Delta.WRITE_LEN_BE_chunks.flatten.toArray := by
  simp [Delta.WRITE_LEN_BE, Delta.WRITE_LEN_BE_l, Delta.WRITE_LEN_BE_chunks]
theorem delta_WRITE_LE : Delta.WRITE_LE = Delta.WRITE_LE_chunks.flatten.toArray := by
  simp [Delta.WRITE_LE, Delta.WRITE_LE_l, Delta.WRITE_LE_chunks]
theorem delta_WRITE_LEN_LE : Delta.WRITE_LEN_LE = Delta.WRITE_LEN_LE_chunks.flatten.toArray := by
  simp [Delta.WRITE_LEN_LE, Delta.WRITE_LEN_LE_l, Delta.WRITE_LEN_LE_chunks]
theorem delta_LEN : Delta.LEN = Delta.LEN_chunks.flatten.toArray := by
  simp [Delta.LEN, Delta.LEN_l, Delta.LEN_chunks]

theorem zeta_READ_BE : Zeta.READ_BE = Zeta.READ_BE_chunks.flatten.toArray := by
  simp [Zeta.READ_BE, Zeta.READ_BE_l, Zeta.READ_BE_chunks]
theorem zeta_READ_LEN_BE : Zeta.READ_LEN_BE = Zeta.READ_LEN_BE_chunks.flatten.toArray := by
  simp [Zeta.READ_LEN_BE, Zeta.READ_LEN_BE_l, Zeta.READ_LEN_BE_chunks]
theorem zeta_READ_LE : Zeta.READ_LE = Zeta.READ_LE_chunks.flatten.toArray := by
  simp [Zeta.READ_LE, Zeta.READ_LE_l, Zeta.READ_LE_chunks]
theorem zeta_READ_LEN_LE : Zeta.READ_LEN_LE = Zeta.READ_LEN_LE_chunks.flatten.toArray := by
  simp [Zeta.READ_LEN_LE, Zeta.READ_LEN_LE_l, Zeta.READ_LEN_LE_chunks]
theorem zeta_WRITE_BE : Zeta.WRITE_BE = Zeta.WRITE_BE_chunks.flatten.toArray := by
  simp [Zeta.WRITE_BE, Zeta.WRITE_BE_l, Zeta.WRITE_BE_chunks]
theorem zeta_WRITE_LEN_BE : Zeta.WRITE_LEN_BE = Zeta.WRITE_LEN_BE_chunks.flatten.toArray := by
  simp [Zeta.WRITE_LEN_BE, Zeta.WRITE_LEN_BE_l, Zeta.WRITE_LEN_BE_chunks]
theorem zeta_WRITE_LE : Zeta.WRITE_LE = Zeta.WRITE_LE_chunks.flatten.toArray := by
  simp [Zeta.WRITE_LE, Zeta.WRITE_LE_l, Zeta.WRITE_LE_chunks]
theorem zeta_WRITE_LEN_LE : Zeta.WRITE_LEN_LE = Zeta.WRITE_LEN_LE_chunks.flatten.toArray := by
  simp [Zeta.WRITE_LEN_LE, Zeta.WRITE_LEN_LE_l, Zeta.WRITE_LEN_LE_chunks]
theorem zeta_LEN : Zeta.LEN = Zeta.LEN_chunks.flatten.toArray := by
  simp [Zeta.LEN, Zeta.LEN_l, Zeta.LEN_chunks]

/-! ### the table records of `Dsi.Defaults` are checked tables -/

theorem gammaReadOK (e : Endian) : ReadOK e readGammaDefault (gammaRTab e) := by
  cases e with
  | be =>
    show ReadOK .be _ ⟨_, _, Gamma.READ_BE, Gamma.READ_LEN_BE⟩
    rw [gamma_READ_BE, gamma_READ_LEN_BE]; exact readOK_of_chk gamma_read_be_ok
  | le =>
    show ReadOK .le _ ⟨_, _, Gamma.READ_LE, Gamma.READ_LEN_LE⟩
    rw [gamma_READ_LE, gamma_READ_LEN_LE]; exact readOK_of_chk gamma_read_le_ok

theorem deltaReadOK (e : Endian) : ReadOK e (readDeltaDefault none) (deltaRTab e) := by
  cases e with
  | be =>
    show ReadOK .be _ ⟨_, _, Delta.READ_BE, Delta.READ_LEN_BE⟩
    rw [delta_READ_BE, delta_READ_LEN_BE]; exact readOK_of_chk delta_read_be_ok
  | le =>
    show ReadOK .le _ ⟨_, _, Delta.READ_LE, Delta.READ_LEN_LE⟩
    rw [delta_READ_LE, delta_READ_LEN_LE]; exact readOK_of_chk delta_read_le_ok

theorem zetaReadOK (e : Endian) : ReadOK e (readZetaDefault 3) (zetaRTab e) := by
  cases e with
  | be =>
    show ReadOK .be _ ⟨_, _, Zeta.READ_BE, Zeta.READ_LEN_BE⟩
    rw [zeta_READ_BE, zeta_READ_LEN_BE]; exact readOK_of_chk zeta_read_be_ok
  | le =>
    show ReadOK .le _ ⟨_, _, Zeta.READ_LE, Zeta.READ_LEN_LE⟩
    rw [zeta_READ_LE, zeta_READ_LEN_LE]; exact readOK_of_chk zeta_read_le_ok

theorem gammaWriteOK (e : Endian) : WriteOK e (writeGammaDefault false) (gammaWTab e) := by
  cases e with
  | be =>
    show WriteOK .be _ ⟨Gamma.WRITE_BE, Gamma.WRITE_LEN_BE⟩
    rw [gamma_WRITE_BE, gamma_WRITE_LEN_BE]; exact writeOK_of_chk gamma_write_be_ok
  | le =>
    show WriteOK .le _ ⟨Gamma.WRITE_LE, Gamma.WRITE_LEN_LE⟩
    rw [gamma_WRITE_LE, gamma_WRITE_LEN_LE]; exact writeOK_of_chk gamma_write_le_ok

theorem deltaWriteOK (e : Endian) : WriteOK e (writeDeltaDefault false none) (deltaWTab e) := by
  cases e with
  | be =>
    show WriteOK .be _ ⟨Delta.WRITE_BE, Delta.WRITE_LEN_BE⟩
    rw [delta_WRITE_BE, delta_WRITE_LEN_BE]; exact writeOK_of_chk delta_write_be_ok
  | le =>
    show WriteOK .le _ ⟨Delta.WRITE_LE, Delta.WRITE_LEN_LE⟩
    rw [delta_WRITE_LE, delta_WRITE_LEN_LE]; exact writeOK_of_chk delta_write_le_ok

theorem zetaWriteOK (e : Endian) : WriteOK e (writeZetaDefault · 3) (zetaWTab e) := by
  cases e with
  | be =>
    show WriteOK .be _ ⟨Zeta.WRITE_BE, Zeta.WRITE_LEN_BE⟩
    rw [zeta_WRITE_BE, zeta_WRITE_LEN_BE]; exact writeOK_of_chk zeta_write_be_ok
  | le =>
    show WriteOK .le _ ⟨Zeta.WRITE_LE, Zeta.WRITE_LEN_LE⟩
    rw [zeta_WRITE_LE, zeta_WRITE_LEN_LE]; exact writeOK_of_chk zeta_write_le_ok

theorem gammaRTab_readBits (e : Endian) : (gammaRTab e).readBits = Gamma.READ_BITS := by cases e <;> rfl
theorem deltaRTab_readBits (e : Endian) : (deltaRTab e).readBits = Delta.READ_BITS := by cases e <;> rfl
theorem zetaRTab_readBits (e : Endian) : (zetaRTab e).readBits = Zeta.READ_BITS := by cases e <;> rfl

/-! ### the bit-by-bit programs are peek-free / flush-free -/

theorem peekFree_tail (len : Nat) :
    PeekFree (if len ≥ 64 then RProg.dpanic else RProg.readBits len fun v => RProg.ret (v + 2 ^ len - 1)) :=
  PeekFree.ite ((PeekFree.dpanic_iff).2 trivial)
    ((PeekFree.readBits_iff _ _).2 fun _ => (PeekFree.ret_iff _).2 trivial)

theorem peekFree_gamma : PeekFree readGammaDefault :=
  (PeekFree.readUnary_iff _).2 peekFree_tail

theorem peekFree_delta : PeekFree (readDeltaDefault none) :=
  PeekFree.bind peekFree_gamma peekFree_tail

theorem peekFree_minbin (max : Nat) : PeekFree (readMinimalBinary max) := by
  unfold readMinimalBinary
  refine PeekFree.ite ((PeekFree.panic_iff).2 trivial) ?_
  refine (PeekFree.readBits_iff _ _).2 fun p => ?_
  refine PeekFree.ite ((PeekFree.ret_iff _).2 trivial) ?_
  refine (PeekFree.readBits_iff _ _).2 fun b => ?_
  exact PeekFree.ite ((PeekFree.dpanic_iff).2 trivial) ((PeekFree.ret_iff _).2 trivial)

theorem peekFree_zeta (k : Nat) : PeekFree (readZetaDefault k) := by
  unfold readZetaDefault
  refine (PeekFree.readUnary_iff _).2 fun h => ?_
  refine PeekFree.ite ((PeekFree.dpanic_iff).2 trivial) ?_
  refine PeekFree.bind (peekFree_minbin _) fun res => ?_
  exact PeekFree.ite ((PeekFree.dpanic_iff).2 trivial) ((PeekFree.ret_iff _).2 trivial)

theorem flushFree_gamma (c : Bool) (n : Nat) : FlushFree (writeGammaDefault c n) := by
  unfold writeGammaDefault
  refine FlushFree.ite ((FlushFree.panic_iff).2 trivial) ?_
  exact (FlushFree.writeUnary_iff _ _).2 fun a =>
    (FlushFree.writeBits_iff _ _ _).2 fun b => (FlushFree.ret_iff _).2 trivial

theorem flushFree_delta (c : Bool) (n : Nat) : FlushFree (writeDeltaDefault c none n) := by
  unfold writeDeltaDefault
  refine FlushFree.ite ((FlushFree.panic_iff).2 trivial) ?_
  exact FlushFree.bind (flushFree_gamma c _) fun a =>
    (FlushFree.writeBits_iff _ _ _).2 fun b => (FlushFree.ret_iff _).2 trivial

theorem flushFree_minbin (n max : Nat) : FlushFree (writeMinimalBinary n max) := by
  unfold writeMinimalBinary
  refine FlushFree.ite ((FlushFree.panic_iff).2 trivial) ?_
  refine FlushFree.ite ?_ ?_
  · exact (FlushFree.writeBits_iff _ _ _).2 fun _ => (FlushFree.ret_iff _).2 trivial
  · refine FlushFree.ite ((FlushFree.dpanic_iff).2 trivial) ?_
    exact (FlushFree.writeBits_iff _ _ _).2 fun _ =>
      (FlushFree.writeBits_iff _ _ _).2 fun _ => (FlushFree.ret_iff _).2 trivial

theorem flushFree_zeta (n k : Nat) : FlushFree (writeZetaDefault n k) := by
  unfold writeZetaDefault
  refine FlushFree.ite ((FlushFree.panic_iff).2 trivial) ?_
  refine FlushFree.ite ((FlushFree.panic_iff).2 trivial) ?_
  refine FlushFree.ite ((FlushFree.dpanic_iff).2 trivial) ?_
  refine (FlushFree.writeUnary_iff _ _).2 fun a => ?_
  exact FlushFree.bind (flushFree_minbin _ _) fun b => (FlushFree.ret_iff _).2 trivial

end Tables

/-! ## 1. Decoding -/

/-- γ through the table = γ bit by bit, on every reader state with enough look-ahead. -/
theorem readGamma_table_eq (e : Endian) (r : RefR) (he : r.e = e)
    (hpm : Gamma.READ_BITS ≤ r.peekMax) :
    (readGamma (some (gammaRTab e))).run RefR.impl r = readGammaDefault.run RefR.impl r :=
  readTable_eq Tables.peekFree_gamma (Tables.gammaReadOK e) r he
    (by rw [Tables.gammaRTab_readBits]; exact hpm)

/-- the same with the table switched on or off by a flag (`read_gamma_param::<USE_TABLE>`) -/
theorem readGammaP_eq (e : Endian) (t : Bool) (r : RefR) (he : r.e = e)
    (hpm : t = true → Gamma.READ_BITS ≤ r.peekMax) :
    (readGammaP e t).run RefR.impl r = readGammaDefault.run RefR.impl r := by
  cases t with
  | false => rfl
  | true => exact readGamma_table_eq e r he (hpm rfl)

/-- the δ fallback with the inner γ table-driven = the δ fallback without any table -/
theorem readDeltaDefault_gamma_eq (e : Endian) (tg : Bool) (r : RefR) (he : r.e = e)
    (hg : tg = true → Gamma.READ_BITS ≤ r.peekMax) :
    (readDeltaDefault (opt tg (gammaRTab e))).run RefR.impl r
      = (readDeltaDefault none).run RefR.impl r := by
  unfold readDeltaDefault
  rw [RProg.run_bind, RProg.run_bind]
  have := readGammaP_eq e tg r he hg
  unfold readGammaP at this
  rw [this]
  rfl

/-- δ with any of the four table selections (`read_delta_param::<USE_DELTA_TABLE, USE_GAMMA_TABLE>`)
    = δ without tables. -/
theorem readDeltaP_eq (e : Endian) (td tg : Bool) (r : RefR) (he : r.e = e)
    (hd : td = true → Delta.READ_BITS ≤ r.peekMax)
    (hg : tg = true → Gamma.READ_BITS ≤ r.peekMax) :
    (readDeltaP e td tg).run RefR.impl r = (readDelta none none).run RefR.impl r := by
  have hfb := readDeltaDefault_gamma_eq e tg r he hg
  cases td with
  | false => exact hfb
  | true =>
    show (readTable (deltaRTab e) (readDeltaDefault (opt tg (gammaRTab e)))).run RefR.impl r = _
    rw [readTable_congr _ _ _ r hfb]
    exact readTable_eq Tables.peekFree_delta (Tables.deltaReadOK e) r he
      (by rw [Tables.deltaRTab_readBits]; exact hd rfl)

/-- δ with both tables (the δ table, and the γ table inside the fallback) -/
theorem readDelta_table_eq (e : Endian) (r : RefR) (he : r.e = e)
    (hd : Delta.READ_BITS ≤ r.peekMax) (hg : Gamma.READ_BITS ≤ r.peekMax) :
    (readDelta (some (deltaRTab e)) (some (gammaRTab e))).run RefR.impl r
      = (readDelta none none).run RefR.impl r :=
  readDeltaP_eq e true true r he (fun _ => hd) (fun _ => hg)

/-- δ table only -/
theorem readDelta_table_only_eq (e : Endian) (r : RefR) (he : r.e = e)
    (hd : Delta.READ_BITS ≤ r.peekMax) :
    (readDelta (some (deltaRTab e)) none).run RefR.impl r = (readDelta none none).run RefR.impl r :=
  readDeltaP_eq e true false r he (fun _ => hd) (fun h => by cases h)

/-- γ table only -/
theorem readDelta_gamma_table_eq (e : Endian) (r : RefR) (he : r.e = e)
    (hg : Gamma.READ_BITS ≤ r.peekMax) :
    (readDelta none (some (gammaRTab e))).run RefR.impl r = (readDelta none none).run RefR.impl r :=
  readDeltaP_eq e false true r he (fun h => by cases h) (fun _ => hg)

/-- ζ₃ through the table = ζ₃ bit by bit. -/
theorem readZeta3_table_eq (e : Endian) (r : RefR) (he : r.e = e)
    (hpm : Zeta.READ_BITS ≤ r.peekMax) :
    (readZeta3 (some (zetaRTab e))).run RefR.impl r = (readZetaDefault 3).run RefR.impl r :=
  readTable_eq (Tables.peekFree_zeta 3) (Tables.zetaReadOK e) r he
    (by rw [Tables.zetaRTab_readBits]; exact hpm)

theorem readZeta3P_eq (e : Endian) (t : Bool) (r : RefR) (he : r.e = e)
    (hpm : t = true → Zeta.READ_BITS ≤ r.peekMax) :
    (readZeta3P e t).run RefR.impl r = (readZetaDefault 3).run RefR.impl r := by
  cases t with
  | false => rfl
  | true => exact readZeta3_table_eq e r he (hpm rfl)

/-! ### the parameterless default methods (flags from the generated `Params`) -/

theorem readGammaD_eq (e : Endian) (r : RefR) (he : r.e = e)
    (hpm : Params.readGammaTable = true → Gamma.READ_BITS ≤ r.peekMax) :
    (readGammaD e).run RefR.impl r = readGammaDefault.run RefR.impl r :=
  readGammaP_eq e _ r he hpm

theorem readDeltaD_eq (e : Endian) (r : RefR) (he : r.e = e)
    (hd : Params.readDeltaTable = true → Delta.READ_BITS ≤ r.peekMax)
    (hg : Params.readDeltaGammaTable = true → Gamma.READ_BITS ≤ r.peekMax) :
    (readDeltaD e).run RefR.impl r = (readDelta none none).run RefR.impl r :=
  readDeltaP_eq e _ _ r he hd hg

theorem readZeta3D_eq (e : Endian) (r : RefR) (he : r.e = e)
    (hpm : Params.readZeta3Table = true → Zeta.READ_BITS ≤ r.peekMax) :
    (readZeta3D e).run RefR.impl r = (readZetaDefault 3).run RefR.impl r :=
  readZeta3P_eq e _ r he hpm

/-! ## 2. Encoding -/

/-- γ through the table = γ bit by bit, on every writer state, for every `n`. -/
theorem writeGamma_table_eq (e : Endian) (checks : Bool) (n : Nat) (w : RefW) (he : w.e = e)
    (hc : w.checks = checks) :
    (writeGamma checks (some (gammaWTab e)) n).run RefW.impl w
      = (writeGammaDefault checks n).run RefW.impl w :=
  writeTable_eq (Tables.gammaWriteOK e) checks _ n (Tables.flushFree_gamma false n)
    (Tables.flushFree_gamma checks n)
    (fun hn => ⟨Spec.gamma e n, gamma_writes e false n hn, gamma_writes e checks n hn⟩) w he hc

theorem writeGammaP_eq (e : Endian) (checks t : Bool) (n : Nat) (w : RefW) (he : w.e = e)
    (hc : w.checks = checks) :
    (writeGammaP e checks t n).run RefW.impl w = (writeGammaDefault checks n).run RefW.impl w := by
  cases t with
  | false => rfl
  | true => exact writeGamma_table_eq e checks n w he hc

/-- the δ fallback with the inner γ table-driven = the δ fallback without any table -/
theorem writeDeltaDefault_gamma_eq (e : Endian) (checks tg : Bool) (n : Nat) (w : RefW)
    (he : w.e = e) (hc : w.checks = checks) :
    (writeDeltaDefault checks (opt tg (gammaWTab e)) n).run RefW.impl w
      = (writeDeltaDefault checks none n).run RefW.impl w := by
  unfold writeDeltaDefault
  by_cases hn : n ≥ 2 ^ 64 - 1
  · rw [if_pos hn, if_pos hn]
  · rw [if_neg hn, if_neg hn]
    simp only
    rw [WProg.run_bind, WProg.run_bind]
    have := writeGammaP_eq e checks tg (n + 1).log2 w he hc
    unfold writeGammaP at this
    rw [this]
    rfl

/-- δ with any of the four table selections = δ without tables, on every writer state. -/
theorem writeDeltaP_eq (e : Endian) (checks td tg : Bool) (n : Nat) (w : RefW) (he : w.e = e)
    (hc : w.checks = checks) :
    (writeDeltaP e checks td tg n).run RefW.impl w
      = (writeDelta checks none none n).run RefW.impl w := by
  have hfb := writeDeltaDefault_gamma_eq e checks tg n w he hc
  cases td with
  | false => exact hfb
  | true =>
    show (writeTable (deltaWTab e) n (writeDeltaDefault checks (opt tg (gammaWTab e)) n)).run
      RefW.impl w = _
    rw [writeTable_congr _ _ _ _ w hfb]
    exact writeTable_eq (Tables.deltaWriteOK e) checks _ n (Tables.flushFree_delta false n)
      (Tables.flushFree_delta checks n)
      (fun hn => ⟨Spec.delta e n, delta_writes e false n hn, delta_writes e checks n hn⟩) w he hc

theorem writeDelta_table_eq (e : Endian) (checks : Bool) (n : Nat) (w : RefW) (he : w.e = e)
    (hc : w.checks = checks) :
    (writeDelta checks (some (deltaWTab e)) (some (gammaWTab e)) n).run RefW.impl w
      = (writeDelta checks none none n).run RefW.impl w :=
  writeDeltaP_eq e checks true true n w he hc

theorem writeDelta_table_only_eq (e : Endian) (checks : Bool) (n : Nat) (w : RefW) (he : w.e = e)
    (hc : w.checks = checks) :
    (writeDelta checks (some (deltaWTab e)) none n).run RefW.impl w
      = (writeDelta checks none none n).run RefW.impl w :=
  writeDeltaP_eq e checks true false n w he hc

theorem writeDelta_gamma_table_eq (e : Endian) (checks : Bool) (n : Nat) (w : RefW) (he : w.e = e)
    (hc : w.checks = checks) :
    (writeDelta checks none (some (gammaWTab e)) n).run RefW.impl w
      = (writeDelta checks none none n).run RefW.impl w :=
  writeDeltaP_eq e checks false true n w he hc

/-- ζ₃ through the table = ζ₃ bit by bit, on every writer state (either `checks` value). -/
theorem writeZeta3_table_eq (e : Endian) (n : Nat) (w : RefW) (he : w.e = e) :
    (writeZeta3 (some (zetaWTab e)) n).run RefW.impl w = (writeZetaDefault n 3).run RefW.impl w :=
  writeTable_eq (dflt0 := (writeZetaDefault · 3)) (Tables.zetaWriteOK e) w.checks _ n
    (Tables.flushFree_zeta n 3) (Tables.flushFree_zeta n 3)
    (fun hn => ⟨Spec.zetaWrapped e 3 n, zeta_writes e false 3 n (by decide) (by decide) hn,
      zeta_writes e w.checks 3 n (by decide) (by decide) hn⟩) w he rfl

theorem writeZeta3P_eq (e : Endian) (t : Bool) (n : Nat) (w : RefW) (he : w.e = e) :
    (writeZeta3P e t n).run RefW.impl w = (writeZetaDefault n 3).run RefW.impl w := by
  cases t with
  | false => rfl
  | true => exact writeZeta3_table_eq e n w he

theorem writeGammaD_eq (e : Endian) (checks : Bool) (n : Nat) (w : RefW) (he : w.e = e)
    (hc : w.checks = checks) :
    (writeGammaD e checks n).run RefW.impl w = (writeGammaDefault checks n).run RefW.impl w :=
  writeGammaP_eq e checks _ n w he hc

theorem writeDeltaD_eq (e : Endian) (checks : Bool) (n : Nat) (w : RefW) (he : w.e = e)
    (hc : w.checks = checks) :
    (writeDeltaD e checks n).run RefW.impl w = (writeDelta checks none none n).run RefW.impl w :=
  writeDeltaP_eq e checks _ _ n w he hc

theorem writeZeta3D_eq (e : Endian) (n : Nat) (w : RefW) (he : w.e = e) :
    (writeZeta3D e n).run RefW.impl w = (writeZetaDefault n 3).run RefW.impl w :=
  writeZeta3P_eq e _ n w he

/-! ## 3. Lengths -/

theorem lenGamma_table_eq (n : Nat) : lenGamma (some Gamma.LEN) n = lenGammaDefault n := by
  unfold lenGamma
  simp only
  split
  · rename_i l hl
    rw [Tables.gamma_LEN] at hl
    exact lenTable_eq gamma_len_ok n l hl
  · rfl

theorem lenGammaP_eq (t : Bool) (n : Nat) : lenGammaP t n = lenGammaDefault n := by
  cases t with
  | false => rfl
  | true => exact lenGamma_table_eq n

/-- δ length with any of the four table selections = δ length without tables -/
theorem lenDeltaP_eq (td tg : Bool) (n : Nat) : lenDeltaP td tg n = lenDelta none none n := by
  have hg : lenGamma (opt tg Gamma.LEN) (n + 1).log2 = lenGammaDefault (n + 1).log2 :=
    lenGammaP_eq tg _
  have hfb : (n + 1).log2 + lenGamma (opt tg Gamma.LEN) (n + 1).log2 = lenDelta none none n := by
    rw [hg]; rfl
  cases td with
  | false => exact hfb
  | true =>
    show lenDelta (some Delta.LEN) (opt tg Gamma.LEN) n = _
    unfold lenDelta
    simp only
    split
    · rename_i l hl
      rw [Tables.delta_LEN] at hl
      exact lenTable_eq delta_len_ok n l hl
    · rw [hg]; rfl

theorem lenDelta_table_eq (n : Nat) :
    lenDelta (some Delta.LEN) (some Gamma.LEN) n = lenDelta none none n := lenDeltaP_eq true true n
theorem lenDelta_table_only_eq (n : Nat) :
    lenDelta (some Delta.LEN) none n = lenDelta none none n := lenDeltaP_eq true false n
theorem lenDelta_gamma_table_eq (n : Nat) :
    lenDelta none (some Gamma.LEN) n = lenDelta none none n := lenDeltaP_eq false true n

/-- ζ length through the table (used only when `k` is the table's `K`) = ζ length function,
    for every `n` and every `k`. -/
theorem lenZeta_table_eq (n k : Nat) :
    lenZeta (some (Zeta.LEN, Zeta.K)) n k = lenZetaDefault n k := by
  unfold lenZeta
  simp only
  split
  · rename_i hk
    split
    · rename_i l hl
      rw [Tables.zeta_LEN] at hl
      rw [hk]
      exact lenTable_eq zeta_len_ok n l hl
    · rfl
  · rfl

theorem lenZetaP_eq (t : Bool) (n k : Nat) : lenZetaP t n k = lenZetaDefault n k := by
  cases t with
  | false => rfl
  | true => exact lenZeta_table_eq n k

theorem lenGammaD_eq (n : Nat) : lenGammaD n = lenGammaDefault n := lenGammaP_eq _ n
theorem lenDeltaD_eq (n : Nat) : lenDeltaD n = lenDelta none none n := lenDeltaP_eq _ _ n
theorem lenZetaD_eq (n k : Nat) : lenZetaD n k = lenZetaDefault n k := lenZetaP_eq _ n k

/-! ## 4. Table sizes (consequences of the `*_ok` checks) -/

theorem gamma_table_sizes :
    (Gamma.READ_BE.size = 2 ^ Gamma.READ_BITS ∧ Gamma.READ_LEN_BE.size = 2 ^ Gamma.READ_BITS) ∧
    (Gamma.READ_LE.size = 2 ^ Gamma.READ_BITS ∧ Gamma.READ_LEN_LE.size = 2 ^ Gamma.READ_BITS) ∧
    (Gamma.WRITE_BE.size = Gamma.WRITE_MAX + 1 ∧ Gamma.WRITE_LEN_BE.size = Gamma.WRITE_MAX + 1) ∧
    (Gamma.WRITE_LE.size = Gamma.WRITE_MAX + 1 ∧ Gamma.WRITE_LEN_LE.size = Gamma.WRITE_MAX + 1) ∧
    Gamma.LEN.size = Gamma.WRITE_MAX + 1 := by
  rw [Tables.gamma_READ_BE, Tables.gamma_READ_LEN_BE, Tables.gamma_READ_LE, Tables.gamma_READ_LEN_LE,
    Tables.gamma_WRITE_BE, Tables.gamma_WRITE_LEN_BE, Tables.gamma_WRITE_LE, Tables.gamma_WRITE_LEN_LE,
    Tables.gamma_LEN]
  exact ⟨Tables.chkReadTable_sizes gamma_read_be_ok, Tables.chkReadTable_sizes gamma_read_le_ok,
    Tables.chkWriteTable_sizes gamma_write_be_ok, Tables.chkWriteTable_sizes gamma_write_le_ok,
    lenTable_size gamma_len_ok⟩

theorem delta_table_sizes :
    (Delta.READ_BE.size = 2 ^ Delta.READ_BITS ∧ Delta.READ_LEN_BE.size = 2 ^ Delta.READ_BITS) ∧
    (Delta.READ_LE.size = 2 ^ Delta.READ_BITS ∧ Delta.READ_LEN_LE.size = 2 ^ Delta.READ_BITS) ∧
    (Delta.WRITE_BE.size = Delta.WRITE_MAX + 1 ∧ Delta.WRITE_LEN_BE.size = Delta.WRITE_MAX + 1) ∧
    (Delta.WRITE_LE.size = Delta.WRITE_MAX + 1 ∧ Delta.WRITE_LEN_LE.size = Delta.WRITE_MAX + 1) ∧
    Delta.LEN.size = Delta.WRITE_MAX + 1 := by
  rw [Tables.delta_READ_BE, Tables.delta_READ_LEN_BE, Tables.delta_READ_LE, Tables.delta_READ_LEN_LE,
    Tables.delta_WRITE_BE, Tables.delta_WRITE_LEN_BE, Tables.delta_WRITE_LE, Tables.delta_WRITE_LEN_LE,
    Tables.delta_LEN]
  exact ⟨Tables.chkReadTable_sizes delta_read_be_ok, Tables.chkReadTable_sizes delta_read_le_ok,
    Tables.chkWriteTable_sizes delta_write_be_ok, Tables.chkWriteTable_sizes delta_write_le_ok,
    lenTable_size delta_len_ok⟩

theorem zeta_table_sizes :
    (Zeta.READ_BE.size = 2 ^ Zeta.READ_BITS ∧ Zeta.READ_LEN_BE.size = 2 ^ Zeta.READ_BITS) ∧
    (Zeta.READ_LE.size = 2 ^ Zeta.READ_BITS ∧ Zeta.READ_LEN_LE.size = 2 ^ Zeta.READ_BITS) ∧
    (Zeta.WRITE_BE.size = Zeta.WRITE_MAX + 1 ∧ Zeta.WRITE_LEN_BE.size = Zeta.WRITE_MAX + 1) ∧
    (Zeta.WRITE_LE.size = Zeta.WRITE_MAX + 1 ∧ Zeta.WRITE_LEN_LE.size = Zeta.WRITE_MAX + 1) ∧
    Zeta.LEN.size = Zeta.WRITE_MAX + 1 ∧ Zeta.K = 3 := by
  rw [Tables.zeta_READ_BE, Tables.zeta_READ_LEN_BE, Tables.zeta_READ_LE, Tables.zeta_READ_LEN_LE,
    Tables.zeta_WRITE_BE, Tables.zeta_WRITE_LEN_BE, Tables.zeta_WRITE_LE, Tables.zeta_WRITE_LEN_LE,
    Tables.zeta_LEN]
  exact ⟨Tables.chkReadTable_sizes zeta_read_be_ok, Tables.chkReadTable_sizes zeta_read_le_ok,
    Tables.chkWriteTable_sizes zeta_write_be_ok, Tables.chkWriteTable_sizes zeta_write_le_ok,
    lenTable_size zeta_len_ok, zeta_k_ok⟩

/-! ## 5. The construction-time diagnostic -/

/-- The reader constructors print the `check_tables` diagnostic for exactly the tables whose
    index width exceeds the look-ahead their `peek_bits` guarantees. -/
theorem diag_sound : (∀ W, bufReaderDiag W = checkTables (bufReaderCapacity W)) ∧
    bitReaderDiag = checkTables bitReaderCapacity :=
  ⟨fun _ => rfl, rfl⟩

/-- `check_tables` names a table iff the capacity is below its index width -/
theorem checkTables_mem (c : Nat) :
    ("gamma" ∈ checkTables c ↔ c < Gamma.READ_BITS) ∧
    ("delta" ∈ checkTables c ↔ c < Delta.READ_BITS) ∧
    ("zeta3" ∈ checkTables c ↔ c < Zeta.READ_BITS) := by
  unfold checkTables
  refine ⟨?_, ?_, ?_⟩ <;>
    (by_cases h1 : c < Gamma.READ_BITS <;> by_cases h2 : c < Delta.READ_BITS <;>
      by_cases h3 : c < Zeta.READ_BITS <;> simp [h1, h2, h3])

/-- no diagnostic ⇒ the capacity hypothesis of every decoding theorem above holds -/
theorem checkTables_nil (c : Nat) (h : checkTables c = []) :
    Gamma.READ_BITS ≤ c ∧ Delta.READ_BITS ≤ c ∧ Zeta.READ_BITS ≤ c := by
  have ⟨h1, h2, h3⟩ := checkTables_mem c
  rw [h] at h1 h2 h3
  simp only [List.not_mem_nil, false_iff, Nat.not_lt] at h1 h2 h3
  exact ⟨h1, h2, h3⟩

/-- a reader constructed without diagnostic decodes γ, δ, ζ₃ by default exactly as bit by bit -/
theorem defaults_eq_of_no_diag (e : Endian) (r : RefR) (he : r.e = e)
    (h : checkTables r.peekMax = []) :
    (readGammaD e).run RefR.impl r = readGammaDefault.run RefR.impl r ∧
    (readDeltaD e).run RefR.impl r = (readDelta none none).run RefR.impl r ∧
    (readZeta3D e).run RefR.impl r = (readZetaDefault 3).run RefR.impl r := by
  have ⟨hg, hd, hz⟩ := checkTables_nil _ h
  exact ⟨readGammaD_eq e r he (fun _ => hg), readDeltaD_eq e r he (fun _ => hd) (fun _ => hg),
    readZeta3D_eq e r he (fun _ => hz)⟩

/-! ## 6. Non-vacuity: concrete, non-trivial states -/

/-- a strict 13-bit stream read from position 5: only 8 bits are left, fewer than any index width,
    so every table look-ahead fails and falls back -/
def c05ExShort (e : Endian) : RefR :=
  { e := e, stream := [true, false, true, true, false, false, true, false, true, true, false, true, true],
    pos := 5, strict := true, peekMax := 32 }

/-- a zero-extended stream read from an unaligned position, look-ahead capacity 64 -/
def c05ExLong (e : Endian) : RefR :=
  { e := e, stream := [false, true, true, false, false, false, true, false, true, true, false, true,
      true, false, false, true, false, true, false, false, false, false, true, true, true], pos := 3,
    strict := false, peekMax := 64 }

def c05ExW (e : Endian) (checks : Bool) : RefW :=
  { e := e, W := 16, checks := checks, cap := some 2, bits := [true, false, true] }

example (e : Endian) : (readGamma (some (gammaRTab e))).run RefR.impl (c05ExShort e)
    = readGammaDefault.run RefR.impl (c05ExShort e) :=
  readGamma_table_eq e _ rfl (by cases e <;> decide)
example (e : Endian) : (readGamma (some (gammaRTab e))).run RefR.impl (c05ExLong e)
    = readGammaDefault.run RefR.impl (c05ExLong e) :=
  readGamma_table_eq e _ rfl (by cases e <;> decide)
example (e : Endian) :
    (readDelta (some (deltaRTab e)) (some (gammaRTab e))).run RefR.impl (c05ExShort e)
      = (readDelta none none).run RefR.impl (c05ExShort e) :=
  readDelta_table_eq e _ rfl (by cases e <;> decide) (by cases e <;> decide)
example (e : Endian) :
    (readDelta (some (deltaRTab e)) (some (gammaRTab e))).run RefR.impl (c05ExLong e)
      = (readDelta none none).run RefR.impl (c05ExLong e) :=
  readDelta_table_eq e _ rfl (by cases e <;> decide) (by cases e <;> decide)
example (e : Endian) : (readZeta3 (some (zetaRTab e))).run RefR.impl (c05ExShort e)
    = (readZetaDefault 3).run RefR.impl (c05ExShort e) :=
  readZeta3_table_eq e _ rfl (by cases e <;> decide)
example (e : Endian) : (readZeta3D e).run RefR.impl (c05ExLong e)
    = (readZetaDefault 3).run RefR.impl (c05ExLong e) :=
  readZeta3D_eq e _ rfl (fun _ => by cases e <;> decide)

-- a fixed-capacity writer (2 words of 16 bits, 3 bits used) under `checks`
example (e : Endian) : (writeGamma true (some (gammaWTab e)) 37).run RefW.impl (c05ExW e true)
    = (writeGammaDefault true 37).run RefW.impl (c05ExW e true) :=
  writeGamma_table_eq e true 37 _ rfl rfl
example (e : Endian) :
    (writeDelta false (some (deltaWTab e)) (some (gammaWTab e)) 1000).run RefW.impl (c05ExW e false)
      = (writeDelta false none none 1000).run RefW.impl (c05ExW e false) :=
  writeDelta_table_eq e false 1000 _ rfl rfl
example (e : Endian) : (writeZeta3 (some (zetaWTab e)) 500).run RefW.impl (c05ExW e true)
    = (writeZetaDefault 500 3).run RefW.impl (c05ExW e true) :=
  writeZeta3_table_eq e 500 _ rfl

example : lenGamma (some Gamma.LEN) 40 = lenGammaDefault 40 := lenGamma_table_eq 40
example : lenDelta (some Delta.LEN) (some Gamma.LEN) 700 = lenDelta none none 700 := lenDelta_table_eq 700
example : lenZeta (some (Zeta.LEN, Zeta.K)) 900 3 = lenZetaDefault 900 3 := lenZeta_table_eq 900 3
example : lenZeta (some (Zeta.LEN, Zeta.K)) 900 5 = lenZetaDefault 900 5 := lenZeta_table_eq 900 5

end Dsi
