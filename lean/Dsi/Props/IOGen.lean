/-
  The `std::io::Write::write` body of `BufBitWriter` and the `std::io::Read::read` bodies of
  `BufBitReader` / `BitReader` as TRANSLATED from the Rust source on every run
  (lean/Dsi/Gen/IOBodies.lean, emitted by tools/translate_io.py) are EQUAL to the hand-written
  programs `ioWrite e 8 buf` / `ioRead e buf.length` (lean/Dsi/IOView.lean) run on the same bit
  interface -- for EVERY implementation `wi : WImpl ω` / `ri : RImpl ρ` of the interface and every
  state, i.e. they are the same programs.

  Hypotheses, and why they are there:
  * `∀ b ∈ buf, b < 256` (write): the elements of a `&[u8]` are bytes; the hand program passes the
    `Nat` assembled from them to `write_bits`, the Rust a `u64`.
  * `hri` (read): the reader interface returns `u64` values; the hand program cuts the `Nat` it got
    into bytes, the Rust a `u64`.
  The kind of the `std::io::Error` the Rust maps a failure to is not part of `ioWrite` / `ioRead`
  (they propagate the error of the interface).
-/
import Dsi.Gen.IOBodies
import Dsi.Props.IOView
namespace Dsi
namespace GenIO
open IOViewL

/-! ### small facts -/

theorem ofNat64_toNat (x : Nat) (h : x < 2 ^ 64) : (BitVec.ofNat 64 x).toNat = x := by
  rw [BitVec.toNat_ofNat, Nat.mod_eq_of_lt h]

theorem toNat_zero64 : (0 : BitVec 64).toNat = 0 := rfl

theorem leBytes_length (v : Nat) : ∀ k, (leBytes v k).length = k := by
  intro k
  induction k generalizing v with
  | zero => rfl
  | succ k ih => simp only [leBytes, List.length_cons, ih]

theorem beBytes_length (v k : Nat) : (beBytes v k).length = k := by
  unfold beBytes; rw [List.length_reverse, leBytes_length]

theorem leBytes_take (v : Nat) : ∀ k j, j ≤ k → (leBytes v k).take j = leBytes v j := by
  intro k
  induction k generalizing v with
  | zero => intro j hj; have : j = 0 := by omega
            subst this; rfl
  | succ k ih =>
    intro j hj
    cases j with
    | zero => rfl
    | succ j => simp only [leBytes, List.take_succ_cons, ih (v / 256) j (by omega)]

theorem beBytes_drop (v k j : Nat) (h : j ≤ k) : (beBytes v k).drop (k - j) = beBytes v j := by
  unfold beBytes
  rw [List.drop_reverse, leBytes_length, show k - (k - j) = j by omega, leBytes_take v k j h]

/-- a loop whose body has no effect is a fold -/
theorem forEachN_pure {α σ : Type} (g : σ → α → σ) (body : α → σ → Res σ)
    (hb : ∀ x st, body x st = .ok (g st x)) : ∀ (l : List α) (st : σ),
    forEachN l st body = .ok (l.foldl g st)
  | [], st => rfl
  | x :: xs, st => by
    simp only [forEachN, hb, Res.bind, List.foldl_cons]
    exact forEachN_pure g body hb xs _

/-! ### `std::io::Write::write` -/

/-- `word <<= 8; word |= byte as u64` on a `u64` is the wrapping accumulator of `ioWrite` -/
theorem shl_or_toNat (a : BitVec 64) (b : Nat) (hb : b < 256) :
    ((a <<< 8) ||| BitVec.ofNat 64 b).toNat = (a.toNat * 256) % 2 ^ 64 + b := by
  rw [BitVec.toNat_or, BitVec.toNat_shiftLeft, ofNat64_toNat b (by omega), Nat.shiftLeft_eq]
  have h1 : a.toNat * 2 ^ 8 % 2 ^ 64 = (a.toNat % 2 ^ 56) <<< 8 := by
    rw [Nat.shiftLeft_eq, show (2:Nat) ^ 64 = 2 ^ 56 * 2 ^ 8 by decide, Nat.mul_mod_mul_right]
  rw [show a.toNat * 256 = a.toNat * 2 ^ 8 by rfl, h1]
  exact (Nat.shiftLeft_add_eq_or_of_lt (by omega) _).symm

theorem fold_toNat (l : List Nat) (hl : ∀ b ∈ l, b < 256) : ∀ (a : BitVec 64),
    (l.foldl (fun (word : BitVec 64) (byte : Nat) => (word <<< 8) ||| BitVec.ofNat 64 byte) a).toNat =
      wrapAcc a.toNat l := by
  induction l with
  | nil => intro a; rfl
  | cons b l ih =>
    intro a
    rw [List.foldl_cons, ih (bytes_tail hl), shl_or_toNat a b (bytes_head hl), wrapAcc_cons]

/-- the chunk loop -/
theorem forEachN_chunks {ω : Type} (e : Endian) (wi : WImpl ω) (conv : List Nat → Nat)
    (hconv : ∀ c, conv c = wordOf e c) (body : List Nat → ω → Res ω)
    (hbody : ∀ c w, body c w = Res.bind (arrOf 8 c) fun arr =>
      Res.bind (wi.writeBits w (BitVec.ofNat 64 (conv arr)).toNat 64) fun ww => .ok ww.2) :
    ∀ (cs : List (List Nat)) (k : WProg Unit) (w : ω), (∀ c ∈ cs, ∀ b ∈ c, b < 256) →
      (ioWriteChunks e cs k).run wi w = Res.bind (forEachN cs w body) fun w' => k.run wi w'
  | [], k, w, _ => rfl
  | c :: cs, k, w, hb => by
    simp only [forEachN, hbody, arrOf]
    by_cases hc : c.length = 8
    · rw [ioWriteChunks_cons e c cs k hc]
      have hlt : wordOf e c < 2 ^ 64 := by
        have := wordOf_lt e c (hb c (List.mem_cons_self ..))
        rw [hc] at this; exact this
      simp only [hc, if_true, Res.bind, ofNat64_toNat _ hlt, WProg.run, hconv]
      cases wi.writeBits w (wordOf e c) 64 with
      | ok q =>
        obtain ⟨x, w'⟩ := q
        simp only []
        exact forEachN_chunks e wi conv hconv body hbody cs k w' (fun c' h' => hb c' (List.mem_cons_of_mem _ h'))
      | _ => rfl
    · have hp : ioWriteChunks e (c :: cs) k = .panic := by simp [ioWriteChunks, hc]
      rw [hp]
      simp only [hc, if_false, Res.bind, WProg.run]

theorem write_eq_aux {ω : Type} (e : Endian) (wi : WImpl ω) (w : ω) (buf : List Nat) (hb : ∀ b ∈ buf, b < 256)
    (conv : List Nat → Nat) (hconv : ∀ c, conv c = wordOf e c) (ord : List Nat → List Nat)
    (hord : ∀ rem, wrapAcc 0 (ord rem) = remWord e rem) (hmem : ∀ rem, ∀ b ∈ ord rem, b ∈ rem) :
    (Res.bind (forEachN (chunksExact 8 buf buf.length).1 w fun word w =>
        Res.bind (arrOf 8 word) fun arr =>
        Res.bind (wi.writeBits w (BitVec.ofNat 64 (conv arr)).toNat 64) fun ww => Res.ok ww.2) fun w =>
      Res.bind (if ¬((chunksExact 8 buf buf.length).2.isEmpty = true) then
          Res.bind (forEachN (ord (chunksExact 8 buf buf.length).2) (0 : BitVec 64) fun byte word =>
            Res.ok ((word <<< 8) ||| BitVec.ofNat 64 byte)) fun word =>
          Res.bind (wi.writeBits w word.toNat ((chunksExact 8 buf buf.length).2.length * 8)) fun ww => Res.ok ww.2
        else Res.ok w) fun w =>
      Res.ok (buf.length, w)) = (ioWrite e 8 buf).run wi w := by
  obtain ⟨h1, h2, h3⟩ := chunksExact_spec buf.length buf (Nat.le_refl _)
  rw [ioWrite_unfold, WProg.run_bind]
  generalize (chunksExact 8 buf buf.length).1 = cs at h1 h2 ⊢
  generalize (chunksExact 8 buf buf.length).2 = rem at h1 h3 ⊢
  have hbc : ∀ c ∈ cs, ∀ b ∈ c, b < 256 := by
    intro c hc b hbm
    apply hb; rw [h1]
    exact List.mem_append_left _ (List.mem_flatten.2 ⟨c, hc, hbm⟩)
  have hbr : ∀ b ∈ rem, b < 256 := by
    intro b hbm; apply hb; rw [h1]; exact List.mem_append_right _ hbm
  rw [forEachN_chunks e wi conv hconv _ (fun _ _ => rfl) cs (remTail e rem) w hbc]
  cases forEachN cs w _ with
  | ok w1 =>
    simp only [Res.bind, remTail]
    by_cases hr : rem.isEmpty = true
    · simp only [hr, not_true, if_false, if_true, WProg.run]
    · simp only [hr, if_false, Bool.false_eq_true, WProg.run, not_false_eq_true, if_true]
      rw [forEachN_pure (fun (word : BitVec 64) (byte : Nat) => (word <<< 8) ||| BitVec.ofNat 64 byte) _
        (fun _ _ => rfl)]
      simp only [fold_toNat _ (fun b h => hbr b (hmem rem b h)), toNat_zero64, hord]
      cases wi.writeBits w1 (remWord e rem) (rem.length * 8) with
      | ok q => rfl
      | _ => rfl
  | _ => rfl

theorem write_be_eq (W : Nat) {ω : Type} (wi : WImpl ω) (w : ω) (buf : List Nat) (hb : ∀ b ∈ buf, b < 256) :
    Gen.IO.write_be W wi w buf = (ioWrite .be 8 buf).run wi w :=
  write_eq_aux .be wi w buf hb beVal (fun _ => rfl) id (fun _ => rfl) (fun _ _ h => h)

theorem write_le_eq (W : Nat) {ω : Type} (wi : WImpl ω) (w : ω) (buf : List Nat) (hb : ∀ b ∈ buf, b < 256) :
    Gen.IO.write_le W wi w buf = (ioWrite .le 8 buf).run wi w :=
  write_eq_aux .le wi w buf hb leVal (fun _ => rfl) List.reverse (fun _ => rfl)
    (fun _ _ h => List.mem_reverse.1 h)

/-! ### `std::io::Read::read` -/

theorem bytesOf_length (e : Endian) (v k : Nat) : (bytesOf e v k).length = k := by
  cases e
  · exact beBytes_length v k
  · exact leBytes_length v k

/-- the chunk loop: after `i` windows the buffer is the bytes read so far followed by the untouched
    rest of the original buffer -/
theorem forRange_readLoop {ρ : Type} (e : Endian) (ri : RImpl ρ)
    (hri : ∀ r k v r', ri.readBits r k = .ok (v, r') → v < 2 ^ 64) (buf0 : List Nat)
    (body : Nat → List Nat × ρ → Res (List Nat × ρ))
    (hbody : ∀ i st, body i st = Res.bind (ri.readBits st.2 64) fun rr =>
      Res.bind (sliceCopy st.1 (i * 8) 8 (bytesOf e (BitVec.ofNat 64 rr.1).toNat 8)) fun buf => .ok (buf, rr.2)) :
    ∀ (k i : Nat) (acc : List Nat) (r : ρ), acc.length = 8 * i →
      forRange i k (acc ++ buf0.drop (8 * i), r) body =
        Res.bind ((ioReadLoop e k acc).run ri r) fun p => .ok (p.1 ++ buf0.drop (8 * (i + k)), p.2)
  | 0, i, acc, r, _ => rfl
  | k + 1, i, acc, r, hacc => by
    rw [ioReadLoop_succ]
    simp only [forRange, hbody, RProg.run]
    cases hr : ri.readBits r 64 with
    | ok p =>
      obtain ⟨v, r'⟩ := p
      have hv := hri r 64 v r' hr
      have h1 : (acc ++ buf0.drop (8 * i)).take (i * 8) = acc := by
        rw [List.take_append_of_le_length (by omega), List.take_of_length_le (by omega)]
      have h2 : (acc ++ buf0.drop (8 * i)).drop (i * 8 + 8) = buf0.drop (8 * (i + 1)) := by
        rw [List.drop_append, List.drop_drop, List.drop_of_length_le (by omega), List.nil_append]
        congr 1; omega
      simp only [Res.bind, ofNat64_toNat v hv, sliceCopy, bytesOf_length, if_true, h1, h2]
      have := forRange_readLoop e ri hri buf0 body hbody k (i + 1) (acc ++ bytesOf e v 8) r'
        (by rw [List.length_append, bytesOf_length]; omega)
      rw [List.append_assoc] at this ⊢
      rw [this, show i + 1 + k = i + (k + 1) by omega]
      rfl
    | _ => rfl

theorem forRange_readLoop0 {ρ : Type} (e : Endian) (ri : RImpl ρ)
    (hri : ∀ r k v r', ri.readBits r k = .ok (v, r') → v < 2 ^ 64) (buf0 : List Nat)
    (body : Nat → List Nat × ρ → Res (List Nat × ρ))
    (hbody : ∀ i st, body i st = Res.bind (ri.readBits st.2 64) fun rr =>
      Res.bind (sliceCopy st.1 (i * 8) 8 (bytesOf e (BitVec.ofNat 64 rr.1).toNat 8)) fun buf => .ok (buf, rr.2))
    (k : Nat) (r : ρ) :
    forRange 0 k (buf0, r) body =
      Res.bind ((ioReadLoop e k []).run ri r) fun p => .ok (p.1 ++ buf0.drop (8 * k), p.2) := by
  have := forRange_readLoop e ri hri buf0 body hbody k 0 [] r rfl
  simpa only [Nat.mul_zero, List.drop_zero, List.nil_append, Nat.zero_add] using this

theorem ioReadLoop_length {ρ : Type} (e : Endian) (ri : RImpl ρ) : ∀ (k : Nat) (acc : List Nat) (r : ρ) acc' r',
    (ioReadLoop e k acc).run ri r = .ok (acc', r') → acc'.length = acc.length + 8 * k
  | 0, acc, r, acc', r', h => by
    simp only [ioReadLoop, RProg.run, Res.ok.injEq, Prod.mk.injEq] at h
    rw [← h.1]; rfl
  | k + 1, acc, r, acc', r', h => by
    rw [ioReadLoop_succ] at h
    simp only [RProg.run] at h
    cases hr : ri.readBits r 64 with
    | ok p =>
      obtain ⟨v, r1⟩ := p
      rw [hr] at h
      have := ioReadLoop_length e ri k _ r1 acc' r' h
      rw [this, List.length_append, bytesOf_length]; omega
    | _ => rw [hr] at h; cases h

theorem read_eq_aux {ρ : Type} (e : Endian) (ri : RImpl ρ)
    (hri : ∀ r k v r', ri.readBits r k = .ok (v, r') → v < 2 ^ 64) (r : ρ) (buf : List Nat)
    (bytes8 : Nat → List Nat) (h8 : ∀ v, bytes8 v = bytesOf e v 8)
    (cut : List Nat → Nat → Res (List Nat))
    (hcut : ∀ v n, 0 < n → n < 8 → cut (bytesOf e v 8) n = .ok (bytesOf e v n)) :
    (Res.bind (forRange 0 (buf.length / 8) (buf, r) fun chunk_i st =>
        Res.bind (ri.readBits st.2 64) fun rr =>
        Res.bind (sliceCopy st.1 (chunk_i * 8) 8 (bytes8 (BitVec.ofNat 64 rr.1).toNat)) fun buf =>
        Res.ok (buf, rr.2)) fun st =>
      Res.bind (if ¬(st.1.length % 8 = 0) then
          Res.bind (ri.readBits st.2 (st.1.length % 8 * 8)) fun rr =>
          Res.bind (cut (bytes8 (BitVec.ofNat 64 rr.1).toNat) (st.1.length % 8)) fun sl =>
          Res.bind (sliceCopy st.1 ((st.1.length / 8) * 8) (st.1.length % 8) sl) fun buf =>
          Res.ok (buf, rr.2)
        else Res.ok (st.1, st.2)) fun st =>
      Res.ok (st.1.length, st.1, st.2)) =
    ((ioRead e buf.length).run ri r).map fun p => (buf.length, p.1, p.2) := by
  simp only [h8]
  rw [forRange_readLoop0 e ri hri buf _ (fun _ _ => rfl), ioRead_unfold, RProg.run_bind]
  cases hl : (ioReadLoop e (buf.length / 8) []).run ri r with
  | ok p =>
    obtain ⟨acc, r1⟩ := p
    have hacc := ioReadLoop_length e ri _ _ r acc r1 hl
    simp only [List.length_nil, Nat.zero_add] at hacc
    have hlen : (acc ++ buf.drop (8 * (buf.length / 8))).length = buf.length := by
      rw [List.length_append, List.length_drop, hacc]; omega
    simp only [Res.bind, hlen, readTail]
    by_cases h0 : buf.length % 8 = 0
    · have hd : buf.drop (8 * (buf.length / 8)) = [] := List.drop_of_length_le (by omega)
      simp only [h0, not_true, if_false, if_true, RProg.run, Res.map, hd, List.append_nil]
      rw [hd, List.append_nil] at hlen
      rw [hlen]
    · have hm := Nat.mod_lt buf.length (show 0 < 8 by decide)
      simp only [h0, not_false_eq_true, if_true, if_false, RProg.run]
      cases hr : ri.readBits r1 (buf.length % 8 * 8) with
      | ok q =>
        obtain ⟨v, r2⟩ := q
        have hv := hri r1 _ v r2 hr
        have h1 : (acc ++ buf.drop (8 * (buf.length / 8))).take (buf.length / 8 * 8) = acc := by
          rw [List.take_append_of_le_length (by omega), List.take_of_length_le (by omega)]
        have h2 : (acc ++ buf.drop (8 * (buf.length / 8))).drop (buf.length / 8 * 8 + buf.length % 8) = [] :=
          List.drop_of_length_le (by rw [hlen]; omega)
        simp only [ofNat64_toNat v hv, hcut v _ (by omega) hm, sliceCopy, bytesOf_length, if_true, h1, h2,
          List.append_nil, Res.map, List.length_append, hacc]
        congr 2
        omega
      | _ => rfl
  | _ => rfl

theorem cut_be (v n : Nat) (h0 : 0 < n) (h8 : n < 8) :
    sliceRange (bytesOf .be v 8) (8 - n) (bytesOf .be v 8).length = .ok (bytesOf .be v n) := by
  show sliceRange (beBytes v 8) (8 - n) (beBytes v 8).length = .ok (beBytes v n)
  unfold sliceRange
  rw [beBytes_length, if_pos ⟨by omega, Nat.le_refl _⟩, List.take_of_length_le (by rw [beBytes_length]; omega),
    beBytes_drop v 8 n (by omega)]

theorem cut_le (v n : Nat) (h0 : 0 < n) (h8 : n < 8) :
    sliceRange (bytesOf .le v 8) 0 n = .ok (bytesOf .le v n) := by
  show sliceRange (leBytes v 8) 0 n = .ok (leBytes v n)
  unfold sliceRange
  rw [leBytes_length, if_pos ⟨by omega, by omega⟩, List.drop_zero, leBytes_take v 8 n (by omega)]

theorem read_bufr_be_eq (W : Nat) {ρ : Type} (ri : RImpl ρ)
    (hri : ∀ r k v r', ri.readBits r k = .ok (v, r') → v < 2 ^ 64) (r : ρ) (buf : List Nat) :
    Gen.IO.read_bufr_be W ri r buf = ((ioRead .be buf.length).run ri r).map fun p => (buf.length, p.1, p.2) :=
  read_eq_aux .be ri hri r buf (fun v => beBytes v 8) (fun _ => rfl)
    (fun full n => sliceRange full (8 - n) full.length) cut_be

theorem read_bufr_le_eq (W : Nat) {ρ : Type} (ri : RImpl ρ)
    (hri : ∀ r k v r', ri.readBits r k = .ok (v, r') → v < 2 ^ 64) (r : ρ) (buf : List Nat) :
    Gen.IO.read_bufr_le W ri r buf = ((ioRead .le buf.length).run ri r).map fun p => (buf.length, p.1, p.2) :=
  read_eq_aux .le ri hri r buf (fun v => leBytes v 8) (fun _ => rfl)
    (fun full n => sliceRange full 0 n) cut_le

theorem read_bitr_be_eq (W : Nat) {ρ : Type} (ri : RImpl ρ)
    (hri : ∀ r k v r', ri.readBits r k = .ok (v, r') → v < 2 ^ 64) (r : ρ) (buf : List Nat) :
    Gen.IO.read_bitr_be W ri r buf = ((ioRead .be buf.length).run ri r).map fun p => (buf.length, p.1, p.2) :=
  read_eq_aux .be ri hri r buf (fun v => beBytes v 8) (fun _ => rfl)
    (fun full n => sliceRange full (8 - n) full.length) cut_be

theorem read_bitr_le_eq (W : Nat) {ρ : Type} (ri : RImpl ρ)
    (hri : ∀ r k v r', ri.readBits r k = .ok (v, r') → v < 2 ^ 64) (r : ρ) (buf : List Nat) :
    Gen.IO.read_bitr_le W ri r buf = ((ioRead .le buf.length).run ri r).map fun p => (buf.length, p.1, p.2) :=
  read_eq_aux .le ri hri r buf (fun v => leBytes v 8) (fun _ => rfl)
    (fun full n => sliceRange full 0 n) cut_le

end GenIO
end Dsi
