/-
  Glue 2 — links between the component theorems.

  1. Backends of the concrete writer (C01, C11, C13): the list `out` of `BufW` behaves like the
     in-memory word writers (`memw_*`) and like the `WordAdapter` over a byte sink
     (`adapter_stream_*`); the adapter over a byte source reads the words the memory reader
     holds (`adapter_read_stream`, `adapter_read_refines_memr`, `adapter_round_trip`).
  2. Counting wrappers over the concrete machines (C14 at L3): `countw_concrete`, `countr_concrete`.
  3. The change-point list of `get_implied_distribution` (C20): `implied_change_points`.

  Extra hypotheses and why:
  * `8 ∣ W` wherever bytes are compared with bits (a word is a whole number of bytes);
  * `0 < W / 8` on the read side (`read_exact` of zero bytes returns nothing);
  * `allBytes.length % (W / 8) = 0` in `adapter_read_refines_memr` only: the memory reader pads a
    trailing partial word with zeros, the adapter reports `eof` (`adapter_read_stream` covers
    the general case: agreement on the complete words, then `eof`);
  * `e = .be → W ≤ 64` and `PeekBounded W 0 p` in `countr_concrete`: those of `rprog_sim`;
    `RProg` has no seek operation, so "does not seek" is built in;
  * `130 ≤ fuel` in `implied_change_points`: 129 items at most (lengths 0 … 128) plus the call
    that ends the list; `impliedChangePoints_spec` in `Dsi.Lemmas.Glue2Implied` covers every fuel.
-/
import Dsi.Lemmas.Glue2Backends
import Dsi.Lemmas.Glue2Adapter
import Dsi.Lemmas.Glue2Count
import Dsi.Lemmas.Glue2Implied
namespace Dsi
open SmallL

variable {W : Nat}

/-! ## 1(a) memory word writers behave like `out` -/

/-- **memw_append.**  From the empty growable `MemW`, writing `ws` word by word succeeds and
    yields `data = ws`, `pos = ws.length`.  Into a fixed slice of `c` zero words it succeeds iff
    `ws.length ≤ c` (then `data = ws ++ zeros`), else `eof`.  `BufW.emit` on its list backend does
    exactly the same, with `cap := none` / `cap := some c`. -/
theorem memw_append (ws : List (BitVec W)) (c : Nat) (checks : Bool) :
    G2.memwWriteAll { data := [], pos := 0, growable := true } ws =
      .ok { data := ws, pos := ws.length, growable := true } ∧
    G2.memwWriteAll { data := List.replicate c 0, pos := 0, growable := false } ws =
      (if ws.length ≤ c then
        .ok { data := ws ++ List.replicate (c - ws.length) 0, pos := ws.length, growable := false }
       else .err .eof) ∧
    G2.emitAll (BufW.new W checks none) ws = .ok { BufW.new W checks none with out := ws } ∧
    G2.emitAll (BufW.new W checks (some c)) ws =
      (if ws.length ≤ c then .ok { BufW.new W checks (some c) with out := ws } else .err .eof) := by
  refine ⟨G2.memw_append_vec ws, G2.memw_append_slice c ws, ?_, ?_⟩
  · have := G2.emitAll_eq ws (BufW.new W checks none) (by simp [BufW.CapOk, BufW.new, capFits])
    simpa [BufW.new, capFits] using this
  · have := G2.emitAll_eq ws (BufW.new W checks (some c)) (by simp [BufW.CapOk, BufW.new, capFits])
    simpa [BufW.new, capFits] using this

/-- **One delivered word.**  If the memory backend holds what the writer delivered (`BackRel`),
    `backend.write_word(w)` on the list (`BufW.emit`) and on the memory writer
    (`MemW.writeWord`) succeed together — staying related — or both fail with `eof`, which
    happens exactly when the capacity is exceeded.  Likewise for any number of words. -/
theorem memw_backend_sim {s : BufW W} {m : MemW W} (h : G2.BackRel s m) :
    (∀ w, ResRel G2.BackRel (s.emit w) (m.writeWord w)) ∧
    (∀ ws, ResRel G2.BackRel (G2.emitAll s ws) (G2.memwWriteAll m ws)) ∧
    (∀ w, s.emit w = .err .eof ↔ ∃ c, s.cap = some c ∧ c ≤ s.out.length) :=
  ⟨G2.emit_backend h, fun ws => G2.emitAll_backend ws h, fun w => by
    obtain ⟨buffer, space, out, cap, checks⟩ := s
    cases cap with
    | none => simp [BufW.emit]
    | some c =>
      by_cases hlt : out.length < c
      · simp only [BufW.emit, hlt, if_true, Option.some.injEq, exists_eq_left']
        constructor
        · intro h'; cases h'
        · intro h'; omega
      · simp only [BufW.emit, hlt, if_false, Option.some.injEq, exists_eq_left', true_iff]
        omega⟩

/-- **The memory backend holds `out`.**  For every writer state within its capacity (every state
    reachable by the simulation, `RelC`), replaying the delivered words on the fresh memory
    backend of that capacity succeeds and leaves exactly `out` (then the untouched zeros of a
    slice), cursor after them. -/
theorem memw_holds_out (t : BufW W) (hc : t.CapOk) :
    ∃ m, G2.memwWriteAll (G2.memwNew W t.cap) t.out = .ok m ∧ G2.BackRel t m := by
  have h0 : (BufW.new W t.checks t.cap).CapOk := by
    cases hcap : t.cap <;> simp [BufW.CapOk, BufW.new, capFits]
  have he := G2.emitAll_eq t.out (BufW.new W t.checks t.cap) h0
  have hfit : capFits (BufW.new W t.checks t.cap).cap
      ((BufW.new W t.checks t.cap).out.length + t.out.length) = true := by
    simpa [BufW.new, BufW.CapOk] using hc
  rw [if_pos hfit] at he
  have hs := G2.emitAll_backend t.out (G2.backRel_new (W := W) t.checks t.cap)
  rw [he] at hs
  cases hm : G2.memwWriteAll (G2.memwNew W t.cap) t.out with
  | ok m =>
    rw [hm] at hs
    refine ⟨m, rfl, ?_⟩
    simpa [G2.BackRel, BufW.new, ResRel] using hs
  | err _ => rw [hm] at hs; exact hs.elim
  | panic => rw [hm] at hs; exact hs.elim
  | dpanic => rw [hm] at hs; exact hs.elim

/-- after any writer program from a related state, the memory backend holds what was delivered -/
theorem writer_backend_memw {α : Type} (e : Endian) (p : WProg α) {t t' : BufW W} {w : RefW}
    (h : BufW.RelC e t w) {a : α} (hrun : p.run (BufW.impl e) t = .ok (a, t')) :
    ∃ m, G2.memwWriteAll (G2.memwNew W t'.cap) t'.out = .ok m ∧ G2.BackRel t' m := by
  have hs := wprog_sim e p h
  rw [hrun] at hs
  cases hr : p.run RefW.impl w with
  | ok y =>
    rw [hr] at hs
    exact memw_holds_out t' hs.2.1.2
  | err _ => rw [hr] at hs; exact hs.elim
  | panic => rw [hr] at hs; exact hs.elim
  | dpanic => rw [hr] at hs; exact hs.elim

example : G2.memwWriteAll ({ data := [], pos := 0, growable := true } : MemW 8) [0x12#8, 0xB5#8, 7#8] =
    .ok { data := [0x12#8, 0xB5#8, 7#8], pos := 3, growable := true } :=
  (memw_append _ 0 false).1

example : G2.memwWriteAll ({ data := List.replicate 4 0, pos := 0, growable := false } : MemW 8)
    [0x12#8, 0xB5#8, 7#8] = .ok { data := [0x12#8, 0xB5#8, 7#8, 0#8], pos := 3, growable := false } := by
  simpa using (memw_append [0x12#8, 0xB5#8, 7#8] 4 false).2.1

example : G2.memwWriteAll ({ data := List.replicate 2 0, pos := 0, growable := false } : MemW 8)
    [0x12#8, 0xB5#8, 7#8] = .err .eof ∧
    G2.emitAll (BufW.new 8 false (some 2)) [0x12#8, 0xB5#8, 7#8] = .err .eof := by
  have h := memw_append [0x12#8, 0xB5#8, 7#8] 2 false
  exact ⟨by simpa using h.2.1, by simpa using h.2.2.2⟩

/-- the example state of `Props/Writer.lean` (one delivered word, capacity four) -/
example : ∃ m, G2.memwWriteAll (G2.memwNew 8 exS.cap) exS.out = .ok m ∧
    m.data = [0x12#8, 0#8, 0#8, 0#8] ∧ m.pos = 1 := by
  obtain ⟨m, hm, hpos, _, hsome⟩ := memw_holds_out exS exS_be.2
  exact ⟨m, hm, (hsome 4 rfl).2.2, hpos⟩

/-! ## 1(b) the word adapter over a byte sink / source -/

/-- **adapter_stream_transparent.**  With a fault-free sink, writing the native bytes of each
    delivered word, in order, through `WordAdapter::write_word` appends exactly the bytes of the
    words, i.e. (for whole-byte words) the canonical byte layout of the delivered bits: the bytes a
    `WordAdapter` over a byte sink receives are the memory image. -/
theorem adapter_stream_transparent (e : Endian) (s : Sink) (hs : s.sched = []) (out : List (BitVec W)) :
    Sink.writeWords s (out.map (BufW.wordBytes e)) =
      .ok { s with bytes := s.bytes ++ out.flatMap (BufW.wordBytes e) } ∧
    (8 ∣ W → out.flatMap (BufW.wordBytes e) = layout e (out.flatMap (wordBits e))) :=
  ⟨G2.writeWords_transparent e out s hs, fun h8 => (layout_words e h8 out).symm⟩

/-- the same for the words a writer has delivered: the sink receives `t.outBytes e`, the layout
    of the delivered bits -/
theorem adapter_stream_image (e : Endian) (h8 : 8 ∣ W) (t : BufW W) (s : Sink) (hs : s.sched = []) :
    Sink.writeWords s (t.out.map (BufW.wordBytes e)) =
      .ok { s with bytes := s.bytes ++ layout e (t.out.flatMap (wordBits e)) } := by
  rw [(adapter_stream_transparent e s hs t.out).1, ← outBytes_eq_layout e h8 t]
  rfl

/-- for EVERY schedule of short writes, interruptions and failures: if the adapter reports
    success for all words, the sink has received exactly the memory image -/
theorem adapter_stream_lossless (e : Endian) (h8 : 8 ∣ W) (out : List (BitVec W)) (s s' : Sink)
    (h : Sink.writeWords s (out.map (BufW.wordBytes e)) = .ok s') :
    s'.bytes = s.bytes ++ layout e (out.flatMap (wordBits e)) := by
  rw [G2.writeWords_lossless e out s s' h, layout_words e h8 out]

/-- **adapter_read_stream.**  With a fault-free source over a byte image (a trailing partial word
    allowed), positioned at word `i`: reading `k` words through the adapter
    (`read_exact` of `W/8` bytes, then `from_be_bytes`/`from_le_bytes`) returns words
    `i, …, i+k-1` of the memory reader's view `wordsOfBytes` while complete words remain, and
    the next `read_word` is `eof` once fewer than `W/8` bytes are left. -/
theorem adapter_read_stream (e : Endian) (hB : 0 < W / 8) (allBytes : List Nat) (i k : Nat)
    (hk : (i + k) * (W / 8) ≤ allBytes.length) :
    G2.adReadWords e W { bytes := allBytes.drop (i * (W / 8)) } k =
      .ok (((wordsOfBytes e W allBytes).drop i).take k, { bytes := allBytes.drop ((i + k) * (W / 8)) }) ∧
    (allBytes.length < (i + k + 1) * (W / 8) →
      G2.adReadWord e W { bytes := allBytes.drop ((i + k) * (W / 8)) } = .err .eof) := by
  refine ⟨G2.adReadWords_complete e hB allBytes k i hk, fun hlt => ?_⟩
  apply G2.adReadWord_eof e _ rfl
  simp only [List.length_drop]
  rw [Nat.succ_mul] at hlt
  omega

/-- **The adapter reader refines the strict memory reader.**  On a byte image of a whole number
    of words, `read_word` through a fault-free adapter and `read_word` of `MemWordReaderStrict`
    over `wordsOfBytes` return the same word, stay related, and report `eof` together. -/
theorem adapter_read_refines_memr (e : Endian) (hB : 0 < W / 8) (allBytes : List Nat)
    (hmod : allBytes.length % (W / 8) = 0) :
    G2.AdRel e W allBytes { bytes := allBytes } { data := wordsOfBytes e W allBytes, pos := 0, strict := true } ∧
    ∀ (src : Source) (m : MemR W), G2.AdRel e W allBytes src m →
      ResRel (fun (w, src') (w', m') => w = w' ∧ G2.AdRel e W allBytes src' m')
        (G2.adReadWord e W src) m.readWord :=
  ⟨G2.adRel_start e allBytes, fun _ _ h => G2.adReadWord_refines e hB allBytes hmod h⟩

/-- **Round trip through the adapter.**  Writing the delivered words through a fault-free
    adapter into an empty sink and reading the bytes back through a fault-free adapter returns
    the delivered words (`from_xx_bytes ∘ to_xx_bytes = id`), leaving nothing. -/
theorem adapter_round_trip (e : Endian) (h8 : 8 ∣ W) (out : List (BitVec W)) :
    ∃ s' : Sink, Sink.writeWords {} (out.map (BufW.wordBytes e)) = .ok s' ∧
      s'.bytes = layout e (out.flatMap (wordBits e)) ∧
      G2.adReadWords e W { bytes := s'.bytes } out.length = .ok (out, { bytes := [] }) := by
  refine ⟨_, (adapter_stream_transparent e {} rfl out).1, ?_, ?_⟩
  · simp [layout_words e h8 out]
  · have := G2.adReadWords_wordBytes e h8 out []
    simpa using this

example : Sink.writeWords {} ([0x1234#16, 0xABCD#16].map (BufW.wordBytes .be)) =
    .ok { bytes := [0x12, 0x34, 0xAB, 0xCD] } := by
  rw [(adapter_stream_transparent .be {} rfl _).1]; rfl

example : Sink.writeWords {} ([0x1234#16, 0xABCD#16].map (BufW.wordBytes .le)) =
    .ok { bytes := layout .le ([0x1234#16, 0xABCD#16].flatMap (wordBits .le)) } := by
  have := adapter_stream_image .le (by decide) ({ buffer := 0, space := 16, out := [0x1234#16, 0xABCD#16] } : BufW 16)
    {} rfl
  simpa using this

/-- five bytes, 16-bit words: two complete words, then `eof` (the memory reader would see a third,
    zero-padded word) -/
example : G2.adReadWords .be 16 { bytes := [0x12, 0x34, 0xAB, 0xCD, 0xEE] } 2 =
      .ok ((wordsOfBytes .be 16 [0x12, 0x34, 0xAB, 0xCD, 0xEE]).take 2, { bytes := [0xEE] }) ∧
    G2.adReadWord .be 16 { bytes := [0xEE] } = .err .eof ∧
    (wordsOfBytes .be 16 [0x12, 0x34, 0xAB, 0xCD, 0xEE]).take 2 = [0x1234#16, 0xABCD#16] := by
  have h := adapter_read_stream (W := 16) .be (by decide) [0x12, 0x34, 0xAB, 0xCD, 0xEE] 0 2 (by decide)
  exact ⟨by simpa using h.1, by simpa using h.2 (by decide), by decide⟩

example : ∃ s' : Sink, Sink.writeWords {} ([0x1234#16, 0xABCD#16].map (BufW.wordBytes .le)) = .ok s' ∧
    G2.adReadWords .le 16 { bytes := s'.bytes } 2 = .ok ([0x1234#16, 0xABCD#16], { bytes := [] }) := by
  obtain ⟨s', h1, _, h3⟩ := adapter_round_trip (W := 16) .le (by decide) [0x1234#16, 0xABCD#16]
  exact ⟨s', h1, h3⟩

/-! ## 2. counting wrappers over the concrete machines -/

/-- **countw_concrete (C14 at L3).**  For a concrete writer `t` related to a reference writer `w`:
    running any program through `CountBitWriter` over `BufBitWriter`
    * is transparent (same values, same inner state as the uncounted run),
    * has the same outcome as the counted reference run, with the same counter, and
    * when it succeeds, the counter has grown by exactly the number of bits the program's
      `write_bits`/`write_unary` operations appended to the reference stream (`dataBits`,
      flush padding excluded); for a program without `flush` that is the growth of the abstract
      stream `t.abs e`. -/
theorem countw_concrete {α : Type} (e : Endian) (p : WProg α) {t : BufW W} {w : RefW}
    (h : BufW.RelC e t w) (c : Nat) :
    (p.run (CountW.impl (BufW.impl e)) ⟨t, c⟩).map (fun (a, s) => (a, s.inner)) = p.run (BufW.impl e) t ∧
    ResRel (fun (x : α × CountW (BufW W)) (y : α × CountW RefW) =>
        x.1 = y.1 ∧ BufW.RelC e x.2.inner y.2.inner ∧ x.2.bitsWritten = y.2.bitsWritten)
      (p.run (CountW.impl (BufW.impl e)) ⟨t, c⟩) (p.run (CountW.impl RefW.impl) ⟨w, c⟩) ∧
    ∀ (a : α) (t' : BufW W) (c' : Nat),
      p.run (CountW.impl (BufW.impl e)) ⟨t, c⟩ = .ok (a, ⟨t', c'⟩) →
      ∃ w', p.run RefW.impl w = .ok (a, w') ∧ BufW.RelC e t' w' ∧ c' = c + p.dataBits w ∧
        (p.flushFree → c' + (t.abs e).length = c + (t'.abs e).length) := by
  have hsim := G2.countw_sim e p h c
  refine ⟨countw_transparent _ p t c, hsim.mono (fun _ _ hab => ⟨hab.1, hab.2.1, hab.2.2.1⟩), ?_⟩
  intro a t' c' hrun
  rw [hrun] at hsim
  cases hr : p.run (CountW.impl RefW.impl) ⟨w, c⟩ with
  | ok y =>
    obtain ⟨b, ⟨w', c''⟩⟩ := y
    rw [hr] at hsim
    obtain ⟨hab, hrel, hcc, _⟩ := hsim
    simp only at hab hrel hcc
    subst hab; subst hcc
    refine ⟨w', countw_inner_run _ p w w' c c' a hr, hrel, countw_exact p w w' c c' a hr, fun hf => ?_⟩
    have := countw_exact_flushFree p hf w w' c c' a hr
    rw [h.1.2.2.2.2.2, hrel.1.2.2.2.2.2] at this
    exact this
  | err _ => rw [hr] at hsim; exact hsim.elim
  | panic => rw [hr] at hsim; exact hsim.elim
  | dpanic => rw [hr] at hsim; exact hsim.elim

/-- **countr_concrete (C14 at L3).**  For a concrete reader `s` related to a reference reader `r`
    and a program satisfying the hypotheses of `rprog_sim` (reader programs cannot seek):
    running it through `CountBitReader` over `BufBitReader` is transparent, has the same outcome
    and counter as the counted reference run, and when it succeeds the counter has grown by
    exactly `s'.bitPos - s.bitPos`. -/
theorem countr_concrete {α : Type} {e : Endian} (hW64 : e = .be → W ≤ 64) (p : RProg α)
    (hp : PeekBounded W 0 p) {s : BufR W} {r : RefR} (h : BufR.Rel e s r) (c : Nat) :
    (p.run (CountR.impl (BufR.impl e)) ⟨s, c⟩).map (fun (a, x) => (a, x.inner)) = p.run (BufR.impl e) s ∧
    ResRel (fun (x : α × CountR (BufR W)) (y : α × CountR RefR) =>
        x.1 = y.1 ∧ BufR.Rel e x.2.inner y.2.inner ∧ x.2.bitsRead = y.2.bitsRead)
      (p.run (CountR.impl (BufR.impl e)) ⟨s, c⟩) (p.run (CountR.impl RefR.impl) ⟨r, c⟩) ∧
    ∀ (a : α) (s' : BufR W) (c' : Nat),
      p.run (CountR.impl (BufR.impl e)) ⟨s, c⟩ = .ok (a, ⟨s', c'⟩) →
      c' + s.bitPos = c + s'.bitPos ∧ s.bitPos ≤ s'.bitPos ∧ c' - c = s'.bitPos - s.bitPos ∧
      ∃ r', p.run RefR.impl r = .ok (a, r') ∧ BufR.Rel e s' r' := by
  have hsim := G2.countr_sim hW64 p hp h c
  refine ⟨countr_transparent _ p s c, hsim, ?_⟩
  intro a s' c' hrun
  rw [hrun] at hsim
  cases hr : p.run (CountR.impl RefR.impl) ⟨r, c⟩ with
  | ok y =>
    obtain ⟨b, ⟨r', c''⟩⟩ := y
    rw [hr] at hsim
    obtain ⟨hab, hrel, hcc⟩ := hsim
    simp only at hab hrel hcc
    subst hab; subst hcc
    have hex := countr_exact p r r' c c' a hr
    rw [bitPos_eq h, bitPos_eq hrel]
    exact ⟨hex.1, hex.2, by omega, r', countr_inner_run _ p r r' c c' a hr, hrel⟩
  | err _ => rw [hr] at hsim; exact hsim.elim
  | panic => rw [hr] at hsim; exact hsim.elim
  | dpanic => rw [hr] at hsim; exact hsim.elim

/-- `write_bits(5, 3)`, `write_unary(9)`, then a flush, counted, on the example state of
    `Props/Writer.lean` (five pending bits, `W = 8`): 13 bits counted, the flush adds none -/
def g2ExProg : WProg Nat := do
  let a ← WProg.wbits 5 3
  let b ← WProg.wunary 9
  WProg.flush fun _ => pure (a + b)

example : ∃ t', g2ExProg.run (CountW.impl (BufW.impl .be)) ⟨exS, 100⟩ = .ok (13, ⟨t', 113⟩) ∧
    113 = 100 + g2ExProg.dataBits exRbe := ⟨_, rfl, by decide⟩

example (a : Nat) (t' : BufW 8) (c' : Nat)
    (hrun : g2ExProg.run (CountW.impl (BufW.impl .be)) ⟨exS, 100⟩ = .ok (a, ⟨t', c'⟩)) :
    c' = 100 + g2ExProg.dataBits exRbe := by
  obtain ⟨_, _, _, hc, _⟩ := (countw_concrete .be g2ExProg exS_be 100).2.2 a t' c' hrun
  exact hc

/-- the mixed reader program of `Props/Reader.lean` (peek, skip-after-peek, read, skip, unary) on
    its example state: the counter moves with `bitPos` -/
example (e : Endian) (a : Nat) (s' : BufR 8) (c' : Nat)
    (hrun : readerExProg.run (CountR.impl (BufR.impl e)) ⟨readerExS e, 40⟩ = .ok (a, ⟨s', c'⟩)) :
    c' - 40 = s'.bitPos - (readerExS e).bitPos :=
  ((countr_concrete (fun _ => by decide) readerExProg readerExProg_bounded (readerEx_rel e) 40).2.2
    a s' c' hrun).2.2.1

example : (readerExProg.run (CountR.impl (BufR.impl .be)) ⟨readerExS .be, 40⟩).map
    (fun (a, x) => (a, x.bitsRead, x.inner.bitPos)) = .ok (337, 55, 18) := by rfl

/-! ## 3. the change points of the implied distribution -/

open FC in
/-- **implied_change_points (C20).**  For a non-decreasing `f`, the change-point list of
    `get_implied_distribution` (`FindChangePoints` taken while `len ≤ 128`; any fuel `≥ 130`, in
    particular the model's default 4096) is produced without hang, overflow or failed debug
    assertion, and:
    * it is empty if `f 0 > 128` and starts with `(0, f 0)` otherwise;
    * every entry is `(x, f x)` with `f x ≤ 128`;
    * first (and second) components increase strictly;
    * every later entry `(x, f x)` is the LEAST change point after its predecessor, within reach
      of the search, and `f x ≠ f (x - 1)`;
    * it has at most 129 entries;
    * it is complete: after the last entry either no change point is within reach or the next
      one has a length above 128;
    * it is the iterator's output (same number of calls) cut at the first item above 128. -/
theorem implied_change_points {f : Nat → Nat} (hm : Mono f) (fuel : Nat) (hfuel : 130 ≤ fuel) :
    ∃ l, impliedChangePoints f fuel = .ok l ∧ G2.ImpliedSpec f l ∧
      ∃ items ended, changePoints f fuel = .ok (items, ended) ∧
        l = items.takeWhile (fun p => decide (p.2 ≤ 128)) := by
  rcases G2.impliedChangePoints_spec hm fuel with ⟨_, hlt⟩ | ⟨l, hl, hspec⟩
  · omega
  · exact ⟨l, hl, hspec, G2.impliedChangePoints_takeWhile hm fuel l hl⟩

open FC in
/-- the default fuel of the model -/
theorem implied_change_points_default {f : Nat → Nat} (hm : Mono f) :
    ∃ l, impliedChangePoints f = .ok l ∧ G2.ImpliedSpec f l := by
  obtain ⟨l, hl, hs, _⟩ := implied_change_points hm 4096 (by decide)
  exact ⟨l, hl, hs⟩

open FC in
/-- for every fuel (the "first `n` entries" form): the model either runs out of fuel — only
    possible below 130 — or returns a list with the same properties -/
theorem implied_change_points_any_fuel {f : Nat → Nat} (hm : Mono f) (fuel : Nat) :
    (impliedChangePoints f fuel = .err .other ∧ fuel < 130) ∨
    (∃ l, impliedChangePoints f fuel = .ok l ∧ G2.ImpliedSpec f l) :=
  G2.impliedChangePoints_spec hm fuel

/-- a step function with lengths 0, 3, then 200: the list stops before the step above 128 -/
example : FC.impliedChangePoints (fun x => if x < 5 then 0 else if x < 9 then 3 else 200) =
    .ok [(0, 0), (5, 3)] := by rfl

/-- every library length function gets a well-formed list, e.g. `len_gamma` and `len_zeta(·, 3)` -/
example : (∃ l, FC.impliedChangePoints lenGammaD = .ok l ∧ G2.ImpliedSpec lenGammaD l) ∧
    (∃ l, FC.impliedChangePoints (lenZetaD · 3) = .ok l ∧ G2.ImpliedSpec (lenZetaD · 3) l) :=
  ⟨implied_change_points_default lib_len_mono.2.1,
   implied_change_points_default (lib_len_mono.2.2.2.2.2.2.2.2.2.2 3 (by decide) (by decide))⟩

end Dsi
