/-
  Headline theorems for C14 (counting and tracing wrappers are transparent and count exactly),
  stated over generated definitions only: the wrappers `genCountWImpl wi PRINT` /
  `genCountRImpl ri PRINT` assembled from the bodies regenerated from src/utils/count.rs
  (lean/Dsi/Gen/CountBodies.lean) and `Gen.DbgW.impl` / `Gen.DbgR.impl` (src/utils/dbg_codes.rs,
  lean/Dsi/Gen/DbgBodies.lean), wrapped around the generated `BufBitWriter` / `BufBitReader`
  (`genWImpl e`, `genRImpl e`).  Specification: the reference writer / reader (`RefW`, `RefR`);
  `WProg.dataBits` is the number of bits the `write_bits` / `write_unary` operations of a program
  append (flush padding excluded).  Not generated: `BufW.new`, `BufR.new`, the struct literals
  `⟨inner, 0⟩` (`CountBitWriter::new` / `CountBitReader::new`: counter zero).

  * `gen_countw_exact`: any writer program through the generated `CountBitWriter` over the generated
    `BufBitWriter`, from fresh: same values and same inner state as without the wrapper (hence the
    same byte image), and the counter is exactly the number of bits written (for a program without
    `flush`: the length of the stream written);
  * `gen_countr_exact`: any reader program (peeks included) through the generated `CountBitReader`
    over the generated `BufBitReader`, from fresh: same outcome and inner state as without the
    wrapper, and the counter is what the generated `bit_pos` of the inner reader answers;
  * `gen_dbg_transparent`: the generated tracing wrappers, alone or under the counting wrappers,
    change nothing.
  Hypotheses: those of C01 / C07 (`Ww < 2^64`; `PeekBounded`, `e = .be → W ≤ 64`, `hfit`).
-/
import Dsi.Lemmas.Headline2Count
import Dsi.Lemmas.Headline2Writer
import Dsi.Lemmas.Headline2Reader
import Dsi.Props.DbgGen
import Dsi.Props.Glue2
namespace Dsi
namespace Headline2
open Headline SmallL
variable {W : Nat}

/-! ## the counting writer -/

/-- **C14, `CountBitWriter`.**  `pw` is any writer program (its run on the reference writer says
    which bits it writes).  Through the generated counting wrapper over a fresh generated
    `BufBitWriter` it returns the same value and leaves the inner writer in the same state as
    without the wrapper, and `bits_written` is exactly the number of bits its `write_bits` /
    `write_unary` operations wrote — without a `flush`, the length of the stream. -/
theorem gen_countw_exact {α : Type} (e : Endian) {Ww : Nat} (hWw : 0 < Ww) (hWw64 : Ww < 2 ^ 64)
    (checks P : Bool) (pw : WProg α) {a : α} {w' : RefW}
    (href : pw.run RefW.impl { e := e, W := Ww, checks := checks, cap := none, bits := [] } = .ok (a, w')) :
    ∃ (sw : BufW Ww) (c' : Nat),
      pw.run (genCountWImpl (genWImpl e) P) ⟨BufW.new Ww checks none, 0⟩ = .ok (a, ⟨sw, c'⟩) ∧
      pw.run (genWImpl e) (BufW.new Ww checks none) = .ok (a, sw) ∧
      c' = pw.dataBits { e := e, W := Ww, checks := checks, cap := none, bits := [] } ∧
      (pw.flushFree → c' = w'.bits.length) := by
  have hrel := rel_new e hWw checks none
  have hinv := inv_new hWw checks none
  obtain ⟨htr, hsim, hex⟩ := countw_concrete e pw hrel 0
  -- the counted reference run succeeds
  have hcr := countw_transparent RefW.impl pw { e := e, W := Ww, checks := checks, cap := none, bits := [] } 0
  rw [href] at hcr
  cases hy : pw.run (CountW.impl RefW.impl) ⟨{ e := e, W := Ww, checks := checks, cap := none, bits := [] }, 0⟩ with
  | ok y =>
    obtain ⟨b, ⟨w1, c1⟩⟩ := y
    rw [hy] at hsim hcr
    simp only [rmap_ok, Res.ok.injEq, Prod.mk.injEq] at hcr
    obtain ⟨hb, hw1⟩ := hcr
    obtain ⟨⟨a2, ⟨sw, c'⟩⟩, hx, hab, _, _⟩ := resRel_ok_left' hsim
    simp only at hab
    have ha2 : a2 = a := hab.trans hb
    rw [ha2] at hx
    obtain ⟨w2, hw2, _, hc, hff⟩ := hex a sw c' hx
    have hinner : pw.run (BufW.impl e) (BufW.new Ww checks none) = .ok (a, sw) :=
      countw_inner_run _ pw _ sw 0 c' a hx
    refine ⟨sw, c', ?_, gen_wrun_of_ok e hWw64 pw hinv hinner, by omega, fun hf => ?_⟩
    · rw [genCountWImpl_eq]
      exact wrun_of_ok (wagree_gen e hWw64).count pw (s := ⟨BufW.new Ww checks none, 0⟩) hinv hx
    · have := countw_exact_flushFree pw hf _ w1 0 c1 b hy
      have hcc : c' = c1 := by
        have h1 := countw_exact pw _ w1 0 c1 b hy
        omega
      rw [hw1] at this
      simp only [List.length_nil] at this
      omega
  | err _ => rw [hy] at hcr; cases hcr
  | panic => rw [hy] at hcr; cases hcr
  | dpanic => rw [hy] at hcr; cases hcr
where
  resRel_ok_left' {α β : Type} {R : α → β → Prop} {x : Res α} {b : β}
      (h : ResRel R x (.ok b)) : ∃ a, x = .ok a ∧ R a b := by
    cases x <;> simp only [ResRel] at h
    exact ⟨_, rfl, h⟩

/-! ## the counting reader -/

/-- **C14, `CountBitReader`.**  Any reader program (reads, peeks, skips after peek, skips, unary
    reads — hence every code reader, table-driven or not) through the generated counting wrapper
    over a fresh generated `BufBitReader`: the outcome and the inner reader's state are those of
    the run without the wrapper, and when it succeeds `bits_read` is exactly what the generated
    `bit_pos` of the inner reader answers: the number of bits consumed. -/
theorem gen_countr_exact {α : Type} (e : Endian) (hW : 0 < W) (hW64 : e = .be → W ≤ 64)
    (data : List (BitVec W)) (strict P : Bool) (hfit : data.length * W + 4 * W < 2 ^ 64)
    (p : RProg α) (hp : PeekBounded W 0 p) :
    (p.run (genCountRImpl (genRImpl e) P) ⟨BufR.new ⟨data, 0, strict⟩, 0⟩).map (fun (a, x) => (a, x.inner))
      = p.run (genRImpl e) (BufR.new ⟨data, 0, strict⟩) ∧
    ∀ (a : α) (s' : BufR W) (c' : Nat),
      p.run (genCountRImpl (genRImpl e) P) ⟨BufR.new ⟨data, 0, strict⟩, 0⟩ = .ok (a, ⟨s', c'⟩) →
      (strict = true ∨ c' + 2 * W ≤ 2 ^ 64) →
      GenBufR.genBitPos e s' = .ok (c', s') := by
  have hi0 := ginv_new e hW data strict hfit
  rw [genCountRImpl_eq]
  refine ⟨countr_transparent _ p _ 0, ?_⟩
  intro a s' c' hrun hf
  have hinner := countr_inner_run _ p _ s' 0 c' a hrun
  obtain ⟨r', hr', hi'⟩ := gen_run_ok hW64 p hp hi0 hinner
  have hr'' := ref_run_refAt hr'
  -- the counter, through the hand-written reader
  have hple := PeekLe.of_peekBounded p 0 hp
  have hcong := rrun_congr (ragree_gen (W := W) e).count p (⟨BufR.new ⟨data, 0, strict⟩, 0⟩ : CountR (BufR W))
    hi0.2 hple
  rw [hcong] at hrun
  obtain ⟨hc, _, _, r2, _, hrel2⟩ := (countr_concrete hW64 p hp hi0.1 0).2.2 a s' c' hrun
  have h0 : (BufR.new ⟨data, 0, strict⟩ : BufR W).bitPos = 0 := by
    rw [bitPos_eq hi0.1]; rfl
  have hc' : c' = r'.pos := by
    rw [h0, bitPos_eq hi'.1] at hc
    omega
  rw [hc']
  apply gen_bitPos_ginv hi'
  rcases hf with h | h
  · left; rw [hr'']; exact h
  · right; omega

/-! ## the tracing wrappers -/

/-- **C14, `DbgBitReader` / `DbgBitWriter`.**  The generated tracing wrappers around the generated
    reader / writer run every program exactly as the bare generated reader / writer (same values,
    same states, same errors), alone and under the generated counting wrappers; so every statement
    about the generated `BufBitReader` / `BufBitWriter` holds verbatim through them. -/
theorem gen_dbg_transparent {α : Type} (e : Endian) (P : Bool) :
    (∀ (p : RProg α) (s : BufR W), p.run (Gen.DbgR.impl (genRImpl e)) s = p.run (genRImpl e) s) ∧
    (∀ (p : WProg α) (s : BufW W), p.run (Gen.DbgW.impl (genWImpl e)) s = p.run (genWImpl e) s) ∧
    (∀ (p : RProg α) (x : CountR (BufR W)),
      p.run (genCountRImpl (Gen.DbgR.impl (genRImpl e)) P) x = p.run (genCountRImpl (genRImpl e) P) x) ∧
    (∀ (p : WProg α) (x : CountW (BufW W)),
      p.run (genCountWImpl (Gen.DbgW.impl (genWImpl e)) P) x = p.run (genCountWImpl (genWImpl e) P) x) ∧
    (∀ (p : RProg α) (x : CountR (BufR W)),
      p.run (Gen.DbgR.impl (genCountRImpl (genRImpl e) P)) x = p.run (genCountRImpl (genRImpl e) P) x) ∧
    (∀ (p : WProg α) (x : CountW (BufW W)),
      p.run (Gen.DbgW.impl (genCountWImpl (genWImpl e) P)) x = p.run (genCountWImpl (genWImpl e) P) x) :=
  ⟨fun p s => DbgGen.rprog_transparent _ p s, fun p s => DbgGen.wprog_transparent _ p s,
   fun p x => by rw [DbgGen.reader_impl_eq], fun p x => by rw [DbgGen.writer_impl_eq],
   fun p x => DbgGen.rprog_transparent _ p x, fun p x => DbgGen.wprog_transparent _ p x⟩

/-! ## non-vacuity -/

/-- the writer program of Props/Glue2.lean (`write_bits(5, 3)`, `write_unary(9)`, `flush`) counted
    on a fresh generated 8-bit writer: 13 bits counted, the flush adds none, two bytes delivered -/
example : ∃ sw : BufW 8,
    g2ExProg.run (genCountWImpl (genWImpl .be) true) ⟨BufW.new 8 false none, 0⟩ = .ok (13, ⟨sw, 13⟩) ∧
    sw.outBytes .be = [0xA0, 0x08] := ⟨_, rfl, rfl⟩

example (e : Endian) {a : Nat} {w' : RefW}
    (href : g2ExProg.run RefW.impl { e := e, W := 8, checks := false, cap := none, bits := [] } = .ok (a, w')) :
    ∃ (sw : BufW 8) (c' : Nat),
      g2ExProg.run (genCountWImpl (genWImpl e) true) ⟨BufW.new 8 false none, 0⟩ = .ok (a, ⟨sw, c'⟩) ∧
      g2ExProg.run (genWImpl e) (BufW.new 8 false none) = .ok (a, sw) ∧
      c' = g2ExProg.dataBits { e := e, W := 8, checks := false, cap := none, bits := [] } :=
  have ⟨sw, c', h1, h2, h3, _⟩ := gen_countw_exact e (by decide) (by decide) false true g2ExProg href
  ⟨sw, c', h1, h2, h3⟩

/-- the mixed reader program (peek, skip after peek, read, skip, unary) counted on a fresh generated
    reader: the counter is the position -/
example : ∃ s' : BufR 8,
    readerExProg.run (genCountRImpl (genRImpl .be) false) ⟨BufR.new ⟨[0xA5#8, 0x3C#8, 0xF0#8], 0, true⟩, 0⟩
      = .ok (309, ⟨s', 17⟩) ∧ GenBufR.genBitPos .be s' = .ok (17, s') := ⟨_, rfl, rfl⟩

example (e : Endian) (a : Nat) (s' : BufR 8) (c' : Nat)
    (h : readerExProg.run (genCountRImpl (genRImpl e) false) ⟨BufR.new ⟨[0xA5#8, 0x3C#8, 0xF0#8], 0, true⟩, 0⟩
      = .ok (a, ⟨s', c'⟩)) : GenBufR.genBitPos e s' = .ok (c', s') :=
  (gen_countr_exact e (by decide) (fun _ => by decide) _ true false (by decide) readerExProg
    readerExProg_bounded).2 a s' c' h (Or.inl rfl)

end Headline2
end Dsi
