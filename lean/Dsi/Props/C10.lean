/-
  C10 — every dispatch mechanism performs the code it names.

  The theorems are about the generated arm lists (`Dsi.Gen.Dispatch`, regenerated from the Rust
  source on every run): the arm selected for an identifier / a `Codes` value performs
  (`semCall`) the code that the identifier's name / the variant denotes, up to the documented
  coincidences (`CodeId.equiv`; `lenEquiv` for lengths).  One wrong arm makes them false.
-/
import Dsi.Props.DispatchCommon
namespace Dsi
open Gen.Dispatch

/-- the call means the wanted code (up to the documented coincidences) -/
def semOk (k : Kind) (call : Call) (bound : Option Nat) (want : CodeId) : Bool :=
  match semCall k call bound with
  | some got => equivK k got want
  | none => false

/-! ### `ConstCode<ID>` -/

/-- the arm selected for the value `v` of the constant `name` performs the code `name` denotes -/
def constArmOk (k : Kind) (name : String) (v : Nat) : Bool :=
  match codeOfName name, lookupConst codeConsts (armsConst k) v with
  | some want, some call => semOk k call none want
  | _, _ => false

theorem dispatch_const_ok :
    -- every constant (all 61 names, aliases included), each of read / write / len
    (∀ (k : Kind), ∀ nv ∈ codeConsts, constArmOk k nv.1 nv.2 = true) ∧
    -- the identifiers are exactly 0..=50 …
    (∀ nv ∈ codeConsts, nv.2 ≤ 50) ∧ (∀ id, id ≤ 50 → ∃ nv ∈ codeConsts, nv.2 = id) ∧
    -- … and any other identifier selects the panic arm
    (∀ (k : Kind) (id : Nat), id > 50 → lookupConst codeConsts (armsConst k) id = some Call.unsupported) := by
  refine ⟨?_, ?_, ?_, ?_⟩
  · intro k; cases k <;> decide +kernel
  · decide +kernel
  · decide +kernel
  · intro k id hid
    have hv : ∀ x ∈ codeConsts.map (·.2), x ≤ 50 := by decide +kernel
    have h1 : id ∉ codeConsts.map (·.2) := fun h => by have := hv id h; omega
    have hl : ∀ x ∈ carmLits (armsConst k), x ≤ 50 := by cases k <;> decide +kernel
    have h2 : id ∉ carmLits (armsConst k) := fun h => by have := hl id h; omega
    rw [lookupConst_of_not_mem codeConsts id (armsConst k) h1 h2]
    cases k <;> decide +kernel

/-! ### `Codes` -/

def codesP (k : Kind) (fam : Family) (n : Nat) (r : Option Call) : Bool :=
  match r with
  | some call => semOk k call (some n) ⟨fam, n⟩
  | none => false

/-- the arm selected for `c` performs the code `c` names, with `c`'s parameter -/
def codesArmOk (k : Kind) (c : Codes) : Bool :=
  codesP k c.fam c.param (lookupCodes (armsCodes k) c.variant c.param)

theorem semOk_of_sym (k : Kind) (call : Call) (fam : Family) (n : Nat)
    (h : semCallSym k call = some (fam, some Arg.param)) : semOk k call (some n) ⟨fam, n⟩ = true := by
  simp [semOk, semCall, h, instSym, equivK_refl]

/-- generic arm: it means `fam` applied to the bound parameter -/
def genP (k : Kind) (fam : Family) (r : Option Call) : Bool :=
  match r with
  | some call => decide (semCallSym k call = some (fam, some Arg.param))
  | none => false

theorem codes_param_ok (k : Kind) (arms : List (List Pat × Call)) (v : String) (fam : Family)
    (hlit : (armLits v arms).all (fun n => codesP k fam n (lookupCodes arms v n)) = true)
    (hgen : genP k fam (lookupCodes arms v (fresh (armLits v arms))) = true) :
    ∀ n, codesP k fam n (lookupCodes arms v n) = true := by
  apply forall_param_of_lits v arms (codesP k fam) hlit
  intro n _
  revert hgen
  cases lookupCodes arms v (fresh (armLits v arms)) with
  | none => simp [genP]
  | some call =>
    intro hgen
    simp only [genP, decide_eq_true_eq] at hgen
    exact semOk_of_sym k call fam n hgen

theorem dispatch_codes_ok : ∀ (k : Kind) (c : Codes), codesArmOk k c = true := by
  intro k c
  cases k <;> cases c <;>
    first
    | decide +kernel
    | exact codes_param_ok _ (armsCodes _) "Zeta" .zeta (by decide +kernel) (by decide +kernel) _
    | exact codes_param_ok _ (armsCodes _) "Pi" .pi (by decide +kernel) (by decide +kernel) _
    | exact codes_param_ok _ (armsCodes _) "Golomb" .golomb (by decide +kernel) (by decide +kernel) _
    | exact codes_param_ok _ (armsCodes _) "ExpGolomb" .expGolomb (by decide +kernel) (by decide +kernel) _
    | exact codes_param_ok _ (armsCodes _) "Rice" .rice (by decide +kernel) (by decide +kernel) _

/-! ### `FuncCodeReader` / `FuncCodeWriter` / `FuncCodeLen` / `FactoryFuncCodeReader` -/

def funcP (k : Kind) (want : CodeId) (r : Option Call) : Bool :=
  match r with
  | some .unsupported => true
  | some call => semOk k call none want
  | none => false

/-- `new(c)` either refuses or selects a closure whose body performs the code `c` names -/
def funcArmOk (k : Kind) (arms : List (List Pat × Call)) (c : Codes) : Bool :=
  funcP k c.id (lookupCodes arms c.variant c.param)

/-- the codes the documentation promises a function pointer for: the parameterless ones and the
    parametric ones with parameter up to 10 (from 1 for ζ and Golomb) -/
def documentedCodes : List Codes :=
  [.unary, .gamma, .delta, .omega, .vbyteLe, .vbyteBe]
  ++ (List.range 10).map (fun i => .zeta (i + 1)) ++ (List.range 11).map .pi
  ++ (List.range 10).map (fun i => .golomb (i + 1)) ++ (List.range 11).map .expGolomb
  ++ (List.range 11).map .rice

theorem func_param_ok (k : Kind) (arms : List (List Pat × Call)) (v : String) (fam : Family)
    (hlit : (armLits v arms).all (fun n => funcP k ⟨fam, n⟩ (lookupCodes arms v n)) = true)
    (hgen : lookupCodes arms v (fresh (armLits v arms)) = some Call.unsupported) :
    ∀ n, funcP k ⟨fam, n⟩ (lookupCodes arms v n) = true := by
  apply forall_param_of_lits v arms (fun n => funcP k ⟨fam, n⟩) hlit
  intro n _
  rw [hgen]; rfl

theorem func_arms_ok (k : Kind) (arms : List (List Pat × Call))
    (h0 : ∀ c ∈ [Codes.unary, .gamma, .delta, .omega, .vbyteLe, .vbyteBe], funcArmOk k arms c = true)
    (hl : ∀ vf ∈ [("Zeta", Family.zeta), ("Pi", .pi), ("Golomb", .golomb), ("ExpGolomb", .expGolomb), ("Rice", .rice)],
      (armLits vf.1 arms).all (fun n => funcP k ⟨vf.2, n⟩ (lookupCodes arms vf.1 n)) = true ∧
      lookupCodes arms vf.1 (fresh (armLits vf.1 arms)) = some Call.unsupported) :
    ∀ c : Codes, funcArmOk k arms c = true := by
  intro c
  cases c with
  | unary => exact h0 _ (by simp)
  | gamma => exact h0 _ (by simp)
  | delta => exact h0 _ (by simp)
  | omega => exact h0 _ (by simp)
  | vbyteLe => exact h0 _ (by simp)
  | vbyteBe => exact h0 _ (by simp)
  | zeta n => exact func_param_ok k arms "Zeta" .zeta (hl ("Zeta", .zeta) (by simp)).1 (hl ("Zeta", .zeta) (by simp)).2 n
  | pi n => exact func_param_ok k arms "Pi" .pi (hl ("Pi", .pi) (by simp)).1 (hl ("Pi", .pi) (by simp)).2 n
  | golomb n => exact func_param_ok k arms "Golomb" .golomb (hl ("Golomb", .golomb) (by simp)).1 (hl ("Golomb", .golomb) (by simp)).2 n
  | expGolomb n => exact func_param_ok k arms "ExpGolomb" .expGolomb (hl ("ExpGolomb", .expGolomb) (by simp)).1 (hl ("ExpGolomb", .expGolomb) (by simp)).2 n
  | rice n => exact func_param_ok k arms "Rice" .rice (hl ("Rice", .rice) (by simp)).1 (hl ("Rice", .rice) (by simp)).2 n

theorem dispatch_func_ok :
    (∀ (k : Kind) (c : Codes), funcArmOk k (armsFunc k) c = true) ∧
    (∀ (k : Kind), ∀ c ∈ documentedCodes, lookupCodes (armsFunc k) c.variant c.param ≠ some Call.unsupported) := by
  refine ⟨?_, ?_⟩
  · intro k
    cases k <;> exact func_arms_ok _ _ (by decide +kernel) (by decide +kernel)
  · intro k; cases k <;> decide +kernel

theorem dispatch_factory_ok :
    (∀ c : Codes, funcArmOk .read armsFactory c = true) ∧
    (∀ c ∈ documentedCodes, lookupCodes armsFactory c.variant c.param ≠ some Call.unsupported) := by
  refine ⟨func_arms_ok _ _ (by decide +kernel) (by decide +kernel), by decide +kernel⟩

/-! ### `CodesStatsWrapper` -/

/-- The wrapper returns what the wrapped dispatcher returns (value, bits, reader/writer state)
    and counts exactly the calls that returned. -/
theorem stats_wrapper_transparent {σ α : Type} (wrapped : σ → Res (α × σ)) (s : σ) (total : Nat) :
    (statsWrap wrapped s total).1 = wrapped s ∧
    (statsWrap wrapped s total).2 = (if (wrapped s).isOk then total + 1 else total) := by
  unfold statsWrap
  cases h : wrapped s <;> simp [Res.isOk]

/-! ### the programs run by the dispatchers are determined by the meaning -/

/-- A read call that means code `id` runs `id`'s own program — except `read_zeta3`, which runs
    the table-assisted ζ₃ reader (its agreement with `read_zeta(3)` is an L2 theorem). -/
theorem callRead_sem (e : Endian) (call : Call) (bound : Option Nat) (id : CodeId)
    (h : semCall .read call bound = some id) :
    callRead e call bound = some (if isZeta3Call call then readZeta3D e else ownRead e id) := by
  simp [callRead, h]

theorem callWrite_sem (e : Endian) (checks : Bool) (call : Call) (bound : Option Nat) (id : CodeId) (v : Nat)
    (h : semCall .write call bound = some id) :
    callWrite e checks call bound v =
      some (if isZeta3Call call then writeZeta3D e v else ownWrite e checks id v) := by
  simp [callWrite, h]

theorem callLen_sem (call : Call) (bound : Option Nat) (id : CodeId)
    (h : semCall .len call bound = some id) : callLen call bound = some (ownLen id) := by
  simp [callLen, h]

/-- `read_zeta3` / `write_zeta3` mean ζ₃ and nothing else does the table-assisted ζ₃ -/
theorem zeta3_call_sem (k : Kind) (call : Call) (bound : Option Nat) (id : CodeId)
    (hz : isZeta3Call call = true) (h : semCall k call bound = some id) : id = ⟨.zeta, 3⟩ := by
  cases call with
  | read m args =>
    simp only [isZeta3Call, beq_iff_eq] at hz
    subst hz
    cases k <;> simp only [semCall, semCallSym, Option.bind] at h <;> try exact absurd h (by simp)
    cases args with
    | nil => simp [readMethod, applySem, instSym] at h; exact h.symm
    | cons a as => simp [readMethod, applySem] at h
  | write m args =>
    simp only [isZeta3Call, beq_iff_eq] at hz
    subst hz
    cases k <;> simp only [semCall, semCallSym, Option.bind] at h <;> try exact absurd h (by simp)
    cases args with
    | nil => simp [writeMethod, applySem, instSym] at h; exact h.symm
    | cons a as => simp [writeMethod, applySem] at h
  | len f args => simp [isZeta3Call] at hz
  | unaryLen => simp [isZeta3Call] at hz
  | unsupported => simp [isZeta3Call] at hz

end Dsi
