/-
  C03 at the concrete level (capstone): what the concrete writer `BufW Ww` delivers as bytes, read
  back by the concrete readers `BufR Wr` / `BitR` built on those bytes, decodes to what was written,
  for every endianness, writer word size and reader word size.

  Ingredients (all proved elsewhere and only glued here): the code theorems `Reads` / `Writes`
  (`Props/CodesA`, `Props/CodesB`), the writer refinement (`Props/Writer`), the reader refinements
  (`Props/Reader`, `Props/BitReader`); the byte image bridge is in `Lemmas/EndToEndBytes`.

  Hypotheses, and why:
  * `0 < Ww`, `0 < Wr`, `8 ∣ Ww`, `8 ∣ Wr`: words are whole bytes (`wordBytes` / `wordsOfBytes`
    divide by 8);
  * `e = .be → Wr ≤ 64`: hypothesis of `rprog_sim` (see `readBitsBE_needs_W_le_64`);
  * `PeekBounded Wr 0 rp` (buffered reader), `BitR.ProgOK 0 rp` and `BitR.NoSkip rp ∨ strict = false`
    (unbuffered reader): hypotheses of `rprog_sim` / `bitr_rprog_sim`;
  * raw fields of at most 64 bits, clean under `checks` (`write_bits` asserts it).
-/
import Dsi.Lemmas.EndToEndSim
import Dsi.Props.CodesA
import Dsi.Props.CodesB
namespace Dsi
open E2E

/-! ### 1. byte image (statements in `Lemmas/EndToEndBytes`)
    `e2e_bits_of_layout`, `e2e_layout_lt`, `e2e_words_of_bytes`, `e2e_words_of_bytes_padded`,
    `e2e_words_padTo`. -/

/-! ### 2. the writer side -/

/-- From the initial state of a growable concrete writer, a program that succeeds on the reference
    writer succeeds with the same result, `flush` succeeds, and the delivered bytes are the
    reference bits followed by zero padding up to a multiple of `Ww`. -/
theorem e2e_writer_image {α : Type} (e : Endian) {Ww : Nat} (hW : 0 < Ww) (h8 : 8 ∣ Ww)
    (checks : Bool) (p : WProg α) {a : α} {r' : RefW}
    (hp : p.run RefW.impl { e := e, W := Ww, checks := checks, cap := none, bits := [] } = .ok (a, r')) :
    ∃ (s : BufW Ww) (k : Nat) (s' : BufW Ww),
      p.run (BufW.impl e) (BufW.new Ww checks none) = .ok (a, s) ∧
      (BufW.impl e).flush s = .ok (k, s') ∧
      bitsOfBytes e (s'.outBytes e)
        = r'.bits ++ List.replicate ((Ww - r'.bits.length % Ww) % Ww) false ∧
      (∀ b ∈ s'.outBytes e, b < 256) ∧
      (s'.outBytes e).length % (Ww / 8) = 0 :=
  writer_image e hW h8 checks p hp

/-- the stream seen by a reader of word size `Wr` built on the image of the writer: the reference
    bits followed by zeros -/
theorem e2e_reader_stream {α : Type} (e : Endian) {Ww Wr : Nat} (hWw : 0 < Ww) (h8w : 8 ∣ Ww)
    (hWr : 0 < Wr) (h8r : 8 ∣ Wr) (checks : Bool) (p : WProg α) {a : α} {r' : RefW}
    (hp : p.run RefW.impl { e := e, W := Ww, checks := checks, cap := none, bits := [] } = .ok (a, r')) :
    ∃ (s : BufW Ww) (k : Nat) (s' : BufW Ww) (zeros : List Bool),
      p.run (BufW.impl e) (BufW.new Ww checks none) = .ok (a, s) ∧
      (BufW.impl e).flush s = .ok (k, s') ∧
      (∀ b ∈ zeros, b = false) ∧
      (wordsOfBytes e Wr (padTo (Wr / 8) (s'.outBytes e))).flatMap (wordBits e) = r'.bits ++ zeros := by
  obtain ⟨s, k, s', h1, h2, h3, h4, _⟩ := writer_image e hWw h8w checks p hp
  refine ⟨s, k, s', wpad Ww r'.bits.length ++ rpad Wr (s'.outBytes e).length, h1, h2, ?_, ?_⟩
  · intro b hb
    rcases List.mem_append.1 hb with h | h
    · exact wpad_all_false _ _ b h
    · exact (List.mem_replicate.1 h).2
  · rw [e2e_words_padTo e h8r hWr, reader_stream e hWr h8r _ h4, h3, List.append_assoc]

/-! ### 3. the capstone -/

/-- **Round trip, buffered reader.**  `pw` writes `pre ++ bits ++ post` (on the reference writer);
    `rp` decodes `bits` to `v` (on the reference reader, wherever `bits` is embedded).  Then on the
    concrete machines: run `pw` and `flush` on a fresh `BufW Ww`, build a `BufR Wr` on the delivered
    bytes (zero-padded to whole reader words), skip `pre.length` bits and run `rp`: the result is `v`
    and the reader stands at `pre.length + bits.length`. -/
theorem e2e_roundtrip {α β : Type} (e : Endian) {Ww Wr : Nat} (hWw : 0 < Ww) (h8w : 8 ∣ Ww)
    (hWr : 0 < Wr) (h8r : 8 ∣ Wr) (hW64 : e = .be → Wr ≤ 64) (checks strict : Bool)
    (pw : WProg α) {a : α} {r' : RefW} (pre bits post : List Bool)
    (hpw : pw.run RefW.impl { e := e, W := Ww, checks := checks, cap := none, bits := [] } = .ok (a, r'))
    (hbits : r'.bits = pre ++ bits ++ post)
    (rp : RProg β) {v : β} (hr : Reads rp e bits v) (hpb : PeekBounded Wr 0 rp) :
    ∃ (sw : BufW Ww) (k : Nat) (sw' : BufW Ww) (s1 s2 : BufR Wr),
      pw.run (BufW.impl e) (BufW.new Ww checks none) = .ok (a, sw) ∧
      (BufW.impl e).flush sw = .ok (k, sw') ∧
      (BufR.impl e).skipBits
        (BufR.new ⟨wordsOfBytes e Wr (padTo (Wr / 8) (sw'.outBytes e)), 0, strict⟩) pre.length = .ok s1 ∧
      rp.run (BufR.impl e) s1 = .ok (v, s2) ∧
      s2.bitPos = pre.length + bits.length := by
  obtain ⟨sw, k, sw', zeros, h1, h2, _, hst⟩ := e2e_reader_stream e hWw h8w hWr h8r checks pw hpw
  rw [hbits, List.append_assoc] at hst
  obtain ⟨s1, h3, hrel⟩ := buf_start e hWr _ strict pre bits (post ++ zeros) hst
  obtain ⟨s2, h4, _, h5⟩ := buf_step hW64 hrel hr hpb
  exact ⟨sw, k, sw', s1, s2, h1, h2, h3, h4, h5⟩

/-- the same with the reader built as the differential driver does (`machL3.mkReader`: no explicit
    padding, `wordsOfBytes` pads by itself) -/
theorem e2e_roundtrip_mach {α β : Type} (e : Endian) {Ww Wr : Nat} (hWw : 0 < Ww) (h8w : 8 ∣ Ww)
    (hWr : 0 < Wr) (h8r : 8 ∣ Wr) (hW64 : e = .be → Wr ≤ 64) (checks strict : Bool)
    (pw : WProg α) {a : α} {r' : RefW} (pre bits post : List Bool)
    (hpw : pw.run RefW.impl { e := e, W := Ww, checks := checks, cap := none, bits := [] } = .ok (a, r'))
    (hbits : r'.bits = pre ++ bits ++ post)
    (rp : RProg β) {v : β} (hr : Reads rp e bits v) (hpb : PeekBounded Wr 0 rp) :
    ∃ (sw : BufW Ww) (k : Nat) (sw' : BufW Ww) (s1 s2 : BufR Wr),
      pw.run (BufW.impl e) (BufW.new Ww checks none) = .ok (a, sw) ∧
      (BufW.impl e).flush sw = .ok (k, sw') ∧
      (BufR.impl e).skipBits
        (BufR.new ⟨wordsOfBytes e Wr (sw'.outBytes e), 0, strict⟩) pre.length = .ok s1 ∧
      rp.run (BufR.impl e) s1 = .ok (v, s2) ∧
      s2.bitPos = pre.length + bits.length := by
  obtain ⟨sw, k, sw', s1, s2, h1, h2, h3, h4, h5⟩ :=
    e2e_roundtrip e hWw h8w hWr h8r hW64 checks strict pw pre bits post hpw hbits rp hr hpb
  rw [e2e_words_padTo e h8r hWr] at h3
  exact ⟨sw, k, sw', s1, s2, h1, h2, h3, h4, h5⟩

/-- **Round trip, unbuffered reader** (`BitR`, 64-bit words).  Side conditions of
    `bitr_rprog_sim`: reads of at most 64 bits and covered peeks of 1 to 32 bits (`BitR.ProgOK`),
    and either no `skip` in the program or a zero-extended backend. -/
theorem e2e_roundtrip_bitr {α β : Type} (e : Endian) {Ww : Nat} (hWw : 0 < Ww) (h8w : 8 ∣ Ww)
    (checks strict : Bool) (pw : WProg α) {a : α} {r' : RefW} (pre bits post : List Bool)
    (hpw : pw.run RefW.impl { e := e, W := Ww, checks := checks, cap := none, bits := [] } = .ok (a, r'))
    (hbits : r'.bits = pre ++ bits ++ post)
    (rp : RProg β) {v : β} (hr : Reads rp e bits v) (hok : BitR.ProgOK 0 rp)
    (hskip : BitR.NoSkip rp ∨ strict = false) :
    ∃ (sw : BufW Ww) (k : Nat) (sw' : BufW Ww) (s1 s2 : BitR),
      pw.run (BufW.impl e) (BufW.new Ww checks none) = .ok (a, sw) ∧
      (BufW.impl e).flush sw = .ok (k, sw') ∧
      (BitR.impl e).skipBits
        { data := ⟨wordsOfBytes e 64 (padTo 8 (sw'.outBytes e)), 0, strict⟩ } pre.length = .ok s1 ∧
      rp.run (BitR.impl e) s1 = .ok (v, s2) ∧
      s2.bitPos = pre.length + bits.length := by
  obtain ⟨sw, k, sw', zeros, h1, h2, _, hst⟩ :=
    e2e_reader_stream (Wr := 64) e hWw h8w (by decide) (by decide) checks pw hpw
  rw [hbits, List.append_assoc] at hst
  obtain ⟨s1, h3, hrel⟩ := bitr_start e _ strict pre bits (post ++ zeros) hst
  obtain ⟨s2, h4, _, h5⟩ := bitr_step hrel hr hok hskip
  exact ⟨sw, k, sw', s1, s2, h1, h2, h3, h4, h5⟩

/-! ### 4. a code between two raw fields -/

/-- write `a` on `na` bits, then the code, then `b` on `nb` bits; return the total length -/
def framedW (a na : Nat) (wc : WProg Nat) (b nb : Nat) : WProg Nat :=
  (WProg.wbits a na).bind fun x => wc.bind fun y => (WProg.wbits b nb).bind fun z => .ret (x + y + z)

theorem framedW_writes {e : Endian} {checks : Bool} {wc : WProg Nat} {code : List Bool}
    (hw : Writes wc e checks code) {a na b nb : Nat} (hna : na ≤ 64) (hnb : nb ≤ 64)
    (ha : checks = false ∨ a % 2 ^ 64 < 2 ^ na) (hb : checks = false ∨ b % 2 ^ 64 < 2 ^ nb) :
    WritesV (framedW a na wc b nb) e checks (fieldBits e a na ++ (code ++ (fieldBits e b nb ++ [])))
      (na + code.length + nb) := by
  unfold framedW
  have h1 := (Writes.wbits (e := e) (checks := checks) (v := a) hna ha).toV
  have h3 := (Writes.wbits (e := e) (checks := checks) (v := b) hnb hb).toV
  rw [fieldBits_length] at h1 h3
  exact WritesV.bind h1 (WritesV.bind hw.toV (WritesV.bind h3 (WritesV.ret e checks _)))

/-- The concrete round trip of `[a : na bits] [code] [b : nb bits]` with the buffered reader:
    the concrete writer accepts the three writes and the flush; the concrete reader built on the
    delivered bytes returns `a % 2^na`, the value `v`, `b % 2^nb`, in order, and ends at the end of
    the data. -/
def RoundTripsFramed (e : Endian) (Ww Wr : Nat) (checks strict : Bool) (wc : WProg Nat)
    (rc : RProg Nat) (len v a na b nb : Nat) : Prop :=
  ∃ (sw : BufW Ww) (k : Nat) (sw' : BufW Ww) (s1 s2 s3 : BufR Wr),
    (framedW a na wc b nb).run (BufW.impl e) (BufW.new Ww checks none) = .ok (na + len + nb, sw) ∧
    (BufW.impl e).flush sw = .ok (k, sw') ∧
    (BufR.impl e).readBits
      (BufR.new ⟨wordsOfBytes e Wr (padTo (Wr / 8) (sw'.outBytes e)), 0, strict⟩) na
        = .ok (a % 2 ^ na, s1) ∧
    rc.run (BufR.impl e) s1 = .ok (v, s2) ∧
    (BufR.impl e).readBits s2 nb = .ok (b % 2 ^ nb, s3) ∧
    s3.bitPos = na + len + nb

/-- the same with the unbuffered reader -/
def RoundTripsFramedBitR (e : Endian) (Ww : Nat) (checks strict : Bool) (wc : WProg Nat)
    (rc : RProg Nat) (len v a na b nb : Nat) : Prop :=
  ∃ (sw : BufW Ww) (k : Nat) (sw' : BufW Ww) (s1 s2 s3 : BitR),
    (framedW a na wc b nb).run (BufW.impl e) (BufW.new Ww checks none) = .ok (na + len + nb, sw) ∧
    (BufW.impl e).flush sw = .ok (k, sw') ∧
    (BitR.impl e).readBits
      { data := ⟨wordsOfBytes e 64 (padTo 8 (sw'.outBytes e)), 0, strict⟩ } na = .ok (a % 2 ^ na, s1) ∧
    rc.run (BitR.impl e) s1 = .ok (v, s2) ∧
    (BitR.impl e).readBits s2 nb = .ok (b % 2 ^ nb, s3) ∧
    s3.bitPos = na + len + nb

/-- any code with a `Writes` and a `Reads` theorem round-trips between two raw fields -/
theorem e2e_framed (e : Endian) {Ww Wr : Nat} (hWw : 0 < Ww) (h8w : 8 ∣ Ww) (hWr : 0 < Wr)
    (h8r : 8 ∣ Wr) (hW64 : e = .be → Wr ≤ 64) (checks strict : Bool)
    {wc : WProg Nat} {rc : RProg Nat} {code : List Bool} {v : Nat}
    (hw : Writes wc e checks code) (hr : Reads rc e code v) (hpb : PeekBounded Wr 0 rc)
    (a na b nb : Nat) (hna : na ≤ 64) (hnb : nb ≤ 64)
    (ha : checks = false ∨ a % 2 ^ 64 < 2 ^ na) (hb : checks = false ∨ b % 2 ^ 64 < 2 ^ nb) :
    RoundTripsFramed e Ww Wr checks strict wc rc code.length v a na b nb := by
  have hW := framedW_writes hw hna hnb ha hb
  have hrun := hW { e := e, W := Ww, checks := checks, cap := none, bits := [] } rfl rfl rfl
  obtain ⟨sw, k, sw', zeros, h1, h2, _, hst⟩ :=
    e2e_reader_stream e hWw h8w hWr h8r checks _ hrun
  simp only [List.nil_append, List.append_nil] at hst
  have hst' : (wordsOfBytes e Wr (padTo (Wr / 8) (sw'.outBytes e))).flatMap (wordBits e)
      = [] ++ fieldBits e a na ++ (code ++ (fieldBits e b nb ++ zeros)) := by
    rw [hst]; simp [List.append_assoc]
  have hrel0 : BufR.Rel e (BufR.new ⟨wordsOfBytes e Wr (padTo (Wr / 8) (sw'.outBytes e)), 0, strict⟩)
      (RefR.at e [] (fieldBits e a na) (code ++ (fieldBits e b nb ++ zeros)) strict Wr) := by
    have := new_rel e hWr (wordsOfBytes e Wr (padTo (Wr / 8) (sw'.outBytes e))) strict
    rw [hst'] at this
    exact this
  obtain ⟨s1, r1, hrel1, _⟩ := buf_step hW64 hrel0 (reads_rbits e hna a) (pb_rbits Wr na)
  rw [after_eq_at] at hrel1
  obtain ⟨s2, r2, hrel2, _⟩ := buf_step hW64 hrel1 hr hpb
  rw [after_eq_at] at hrel2
  obtain ⟨s3, r3, _, hpos⟩ := buf_step hW64 hrel2 (reads_rbits e hnb b) (pb_rbits Wr nb)
  refine ⟨sw, k, sw', s1, s2, s3, h1, h2, run_rbits_ok _ _ _ _ _ r1, r2, run_rbits_ok _ _ _ _ _ r3, ?_⟩
  rw [hpos]
  simp

theorem e2e_framed_bitr (e : Endian) {Ww : Nat} (hWw : 0 < Ww) (h8w : 8 ∣ Ww) (checks strict : Bool)
    {wc : WProg Nat} {rc : RProg Nat} {code : List Bool} {v : Nat}
    (hw : Writes wc e checks code) (hr : Reads rc e code v) (hok : BitR.ProgOK 0 rc)
    (hskip : BitR.NoSkip rc ∨ strict = false)
    (a na b nb : Nat) (hna : na ≤ 64) (hnb : nb ≤ 64)
    (ha : checks = false ∨ a % 2 ^ 64 < 2 ^ na) (hb : checks = false ∨ b % 2 ^ 64 < 2 ^ nb) :
    RoundTripsFramedBitR e Ww checks strict wc rc code.length v a na b nb := by
  have hW := framedW_writes hw hna hnb ha hb
  have hrun := hW { e := e, W := Ww, checks := checks, cap := none, bits := [] } rfl rfl rfl
  obtain ⟨sw, k, sw', zeros, h1, h2, _, hst⟩ :=
    e2e_reader_stream (Wr := 64) e hWw h8w (by decide) (by decide) checks _ hrun
  simp only [List.nil_append, List.append_nil] at hst
  have hst' : (wordsOfBytes e 64 (padTo 8 (sw'.outBytes e))).flatMap (wordBits e)
      = [] ++ fieldBits e a na ++ (code ++ (fieldBits e b nb ++ zeros)) := by
    have hst2 : (wordsOfBytes e 64 (padTo 8 (sw'.outBytes e))).flatMap (wordBits e)
        = fieldBits e a na ++ (code ++ fieldBits e b nb) ++ zeros := hst
    rw [hst2]; simp [List.append_assoc]
  have hrel0 : BitR.Rel' e { data := ⟨wordsOfBytes e 64 (padTo 8 (sw'.outBytes e)), 0, strict⟩ }
      (RefR.at e [] (fieldBits e a na) (code ++ (fieldBits e b nb ++ zeros)) strict 32) := by
    have := bitr_new_rel e (wordsOfBytes e 64 (padTo 8 (sw'.outBytes e))) 0 strict
    rw [hst'] at this
    exact this
  obtain ⟨s1, r1, hrel1, _⟩ :=
    bitr_step hrel0 (reads_rbits e hna a) (ok_rbits hna) (Or.inl (ns_rbits na))
  rw [after_eq_at] at hrel1
  obtain ⟨s2, r2, hrel2, _⟩ := bitr_step hrel1 hr hok hskip
  rw [after_eq_at] at hrel2
  obtain ⟨s3, r3, _, hpos⟩ :=
    bitr_step hrel2 (reads_rbits e hnb b) (ok_rbits hnb) (Or.inl (ns_rbits nb))
  refine ⟨sw, k, sw', s1, s2, s3, h1, h2, run_rbits_ok _ _ _ _ _ r1, r2, run_rbits_ok _ _ _ _ _ r3, ?_⟩
  rw [hpos]
  simp

/-! #### γ, δ, ζ_k, ω — for every endianness, writer and reader word size, value in the domain and
    surrounding raw fields -/

section codes
variable (e : Endian) {Ww Wr : Nat} (hWw : 0 < Ww) (h8w : 8 ∣ Ww) (hWr : 0 < Wr) (h8r : 8 ∣ Wr)
  (hW64 : e = .be → Wr ≤ 64) (checks strict : Bool) (a na b nb : Nat) (hna : na ≤ 64) (hnb : nb ≤ 64)
  (ha : checks = false ∨ a % 2 ^ 64 < 2 ^ na) (hb : checks = false ∨ b % 2 ^ 64 < 2 ^ nb)
include hWw h8w hna hnb ha hb

section buffered
include hWr h8r hW64

theorem e2e_gamma (n : Nat) (hn : n < 2 ^ 64 - 1) :
    RoundTripsFramed e Ww Wr checks strict (writeGammaDefault checks n) readGammaDefault
      (Spec.gamma e n).length n a na b nb :=
  e2e_framed e hWw h8w hWr h8r hW64 checks strict (gamma_writes e checks n hn) (gamma_reads e n hn)
    (pb_gamma Wr) a na b nb hna hnb ha hb

theorem e2e_delta (n : Nat) (hn : n < 2 ^ 64 - 1) :
    RoundTripsFramed e Ww Wr checks strict (writeDeltaDefault checks none n) (readDeltaDefault none)
      (Spec.delta e n).length n a na b nb :=
  e2e_framed e hWw h8w hWr h8r hW64 checks strict (delta_writes e checks n hn) (delta_reads e n hn)
    (pb_delta Wr) a na b nb hna hnb ha hb

theorem e2e_zeta (k n : Nat) (hk1 : 1 ≤ k) (hk : k ≤ 63) (hn : n < 2 ^ 64 - 1) :
    RoundTripsFramed e Ww Wr checks strict (writeZetaDefault n k) (readZetaDefault k)
      (Spec.zetaWrapped e k n).length n a na b nb :=
  e2e_framed e hWw h8w hWr h8r hW64 checks strict (zeta_writes e checks k n hk1 hk hn)
    (zeta_reads e k n hk1 hk hn) (pb_zeta Wr k) a na b nb hna hnb ha hb

theorem e2e_omega (n : Nat) (hn : n < 2 ^ 64 - 1) :
    RoundTripsFramed e Ww Wr checks strict (writeOmega e checks n) (readOmega e)
      (Spec.omega e n).length n a na b nb :=
  e2e_framed e hWw h8w hWr h8r hW64 checks strict (omega_writes e checks n hn) (omega_reads e n hn)
    (pb_omega e hWr) a na b nb hna hnb ha hb

end buffered

theorem e2e_gamma_bitr (n : Nat) (hn : n < 2 ^ 64 - 1) :
    RoundTripsFramedBitR e Ww checks strict (writeGammaDefault checks n) readGammaDefault
      (Spec.gamma e n).length n a na b nb :=
  e2e_framed_bitr e hWw h8w checks strict (gamma_writes e checks n hn) (gamma_reads e n hn)
    ok_gamma (Or.inl ns_gamma) a na b nb hna hnb ha hb

theorem e2e_delta_bitr (n : Nat) (hn : n < 2 ^ 64 - 1) :
    RoundTripsFramedBitR e Ww checks strict (writeDeltaDefault checks none n) (readDeltaDefault none)
      (Spec.delta e n).length n a na b nb :=
  e2e_framed_bitr e hWw h8w checks strict (delta_writes e checks n hn) (delta_reads e n hn)
    ok_delta (Or.inl ns_delta) a na b nb hna hnb ha hb

theorem e2e_zeta_bitr (k n : Nat) (hk1 : 1 ≤ k) (hk : k ≤ 63) (hn : n < 2 ^ 64 - 1) :
    RoundTripsFramedBitR e Ww checks strict (writeZetaDefault n k) (readZetaDefault k)
      (Spec.zetaWrapped e k n).length n a na b nb :=
  e2e_framed_bitr e hWw h8w checks strict (zeta_writes e checks k n hk1 hk hn)
    (zeta_reads e k n hk1 hk hn) (ok_zeta k) (Or.inl (ns_zeta k)) a na b nb hna hnb ha hb

theorem e2e_omega_bitr (n : Nat) (hn : n < 2 ^ 64 - 1) :
    RoundTripsFramedBitR e Ww checks strict (writeOmega e checks n) (readOmega e)
      (Spec.omega e n).length n a na b nb :=
  e2e_framed_bitr e hWw h8w checks strict (omega_writes e checks n hn) (omega_reads e n hn)
    (ok_omega e) (Or.inl (ns_omega e)) a na b nb hna hnb ha hb

end codes

/-! ### non-vacuity -/

/-- `Ww = 16`, `Wr = 8`, little-endian, strict backend: five raw bits `10101`, δ(1000), no trailer -/
example : RoundTripsFramed .le 16 8 false true (writeDeltaDefault false none 1000)
    (readDeltaDefault none) (Spec.delta .le 1000).length 1000 21 5 0 0 :=
  e2e_delta .le (by decide) (by decide) (by decide) (by decide) (fun h => by cases h) false true
    21 5 0 0 (by decide) (by decide) (Or.inl rfl) (Or.inl rfl) 1000 (by decide)

/-- `Ww = 64`, `Wr = 32`, big-endian, `checks` on: ζ_3(12345) between a 7-bit and a 13-bit field -/
example : RoundTripsFramed .be 64 32 true false (writeZetaDefault 12345 3) (readZetaDefault 3)
    (Spec.zetaWrapped .be 3 12345).length 12345 100 7 5000 13 :=
  e2e_zeta .be (by decide) (by decide) (by decide) (by decide) (fun _ => by decide) true false
    100 7 5000 13 (by decide) (by decide) (Or.inr (by decide)) (Or.inr (by decide)) 3 12345
    (by decide) (by decide) (by decide)

/-- the unbuffered reader on the image of an 8-bit writer: ω(10^6) after 3 raw bits -/
example : RoundTripsFramedBitR .be 8 false true (writeOmega .be false 1000000) (readOmega .be)
    (Spec.omega .be 1000000).length 1000000 5 3 1 1 :=
  e2e_omega_bitr .be (by decide) (by decide) false true 5 3 1 1 (by decide) (by decide)
    (Or.inl rfl) (Or.inl rfl) 1000000 (by decide)

/-- the capstone itself on concrete numbers: γ(9) written after the five bits `10101` by a 16-bit
    LE writer, read by an 8-bit LE reader after skipping five bits -/
example : ∃ (sw : BufW 16) (k : Nat) (sw' : BufW 16) (s1 s2 : BufR 8),
    (framedW 21 5 (writeGammaDefault false 9) 0 0).run (BufW.impl .le) (BufW.new 16 false none)
      = .ok (5 + (Spec.gamma .le 9).length + 0, sw) ∧
    (BufW.impl .le).flush sw = .ok (k, sw') ∧
    (BufR.impl .le).skipBits
      (BufR.new ⟨wordsOfBytes .le 8 (padTo (8 / 8) (sw'.outBytes .le)), 0, true⟩) 5 = .ok s1 ∧
    readGammaDefault.run (BufR.impl .le) s1 = .ok (9, s2) ∧
    s2.bitPos = 5 + (Spec.gamma .le 9).length := by
  have hW := framedW_writes (e := .le) (checks := false) (gamma_writes .le false 9 (by decide))
    (a := 21) (na := 5) (b := 0) (nb := 0) (by decide) (by decide) (Or.inl rfl) (Or.inl rfl)
  have hrun := hW { e := .le, W := 16, checks := false, cap := none, bits := [] } rfl rfl rfl
  have := e2e_roundtrip .le (Ww := 16) (Wr := 8) (by decide) (by decide) (by decide) (by decide)
    (fun h => by cases h) false true _ (fieldBits .le 21 5) (Spec.gamma .le 9) (fieldBits .le 0 0 ++ [])
    hrun (by simp) readGammaDefault (gamma_reads .le 9 (by decide)) (pb_gamma 8)
  simpa using this

/-- the same session computed: the four bytes a 16-bit LE writer delivers for `10101`, δ(1000), and
    what an 8-bit LE strict reader makes of them (this is the instance of `e2e_delta` above) -/
example : ∃ (sw : BufW 16) (k : Nat) (sw' : BufW 16),
    (framedW 21 5 (writeDeltaDefault false none 1000) 0 0).run (BufW.impl .le) (BufW.new 16 false none)
      = .ok (21, sw) ∧
    (BufW.impl .le).flush sw = .ok (k, sw') ∧ sw'.outBytes .le = [21, 149, 30, 0] :=
  ⟨_, _, _, rfl, rfl, rfl⟩

example : ∃ (s1 s2 : BufR 8),
    (BufR.impl .le).readBits (BufR.new ⟨wordsOfBytes .le 8 (padTo (8 / 8) [21, 149, 30, 0]), 0, true⟩) 5
      = .ok (21, s1) ∧
    (readDeltaDefault none).run (BufR.impl .le) s1 = .ok (1000, s2) ∧ s2.bitPos = 21 :=
  ⟨_, _, rfl, rfl, rfl⟩

end Dsi
