/-
  HEADLINE THEOREMS, stated about the definitions regenerated from the Rust source on this run.

  Every object in the statements below is a generated definition or a specification:

  * `genWImpl e`, `genRImpl e`, `genBitRImpl e` — the bodies of `BufBitWriter` / `BufBitReader` /
    `BitReader` methods (lean/Dsi/Gen/BufWriterBodies.lean, BufReaderBodies.lean,
    BitReaderBodies.lean), assembled in `Lemmas/HeadlineRun.lean`;
  * `genOwnWrite e checks c v`, `genOwnRead e c`, `genOwnLen c v` — the code writers / readers /
    length functions (Gen/CodeBodies.lean, OmegaBodies.lean, VByteBodies.lean, TableFns.lean,
    LenFormulas.lean, flags from Gen/Params.lean), assembled in `Lemmas/HeadlineCodes.lean`;
  * `GenBufR.genBitPos`, `genBitRBitPos` — the generated `bit_pos`;
  * `Spec.*` / `CodeId.codeword` — the published codewords; `layout` — the canonical byte layout;
    `RefW` — the reference writer (only used to say which bits an arbitrary preceding program wrote).
  Not generated (there is no Rust body to translate, or it is the harness' view of memory):
  `BufW.new`, `BufR.new` (the constructors: zeroed struct), `BufW.outBytes` / `wordsOfBytes` /
  `padTo` (bytes of the backend words in memory order, and back).

  The theorems are spread over modules by what they depend on, so that the obligations of a
  property fail only when a Rust body that property is about changes:
  1. `gen_wrun_eq`, `gen_wrun_agree` (Lemmas/HeadlineRunW.lean: writer bodies only), `gen_rrun_eq`,
     `gen_rrun_bitr_eq` (Lemmas/HeadlineRunR.lean: reader bodies only): every program runs on the
     generated implementations as on the hand-written models.                          [C01, C02]
  2. `gen_write_image` (Props/HeadlineImage.lean), `gen_code_write_image`, `gen_code_write_len`,
     `gen_{gamma,delta,zeta3,minbin}_write_image` (Props/HeadlineWrite.lean: writer bodies and code
     writers).                                                                         [C01, C04]
  3. `gen_len_eq`, `gen_len_*_param_eq` (Props/HeadlineLen.lean: length functions only).    [C06]
  4. this file: `gen_roundtrip`, `gen_roundtrip_bitr`, `gen_code_roundtrip`,
     `gen_code_roundtrip_bitr`, `gen_code_framed`, `gen_{gamma,delta,zeta3,minbin}_roundtrip`, and
     one instance of every headline theorem on concrete numbers.                            [C03]

  Hypotheses beyond those of the theorems about the hand-written models (`e2e_writer_image`,
  `e2e_roundtrip`, `e2e_code`, `code_read_concrete`, `ownLen_codeword`), and why:
  * `Ww < 2 ^ 64` (writer word width): `write_unary` computes `WW::Word::BITS as u64`;
  * `hfit` (the whole stream, padding included, is shorter than `2^64` bits; `2^63` for the
    unbuffered reader): `BufBitReader::read_unary` counts in `u64`, `BitReader` keeps its position in
    a `u64`, the hand-written models count in `Nat`.
-/
import Dsi.Lemmas.HeadlineCodes
import Dsi.Props.HeadlineWrite
import Dsi.Props.Transport
import Dsi.Props.Bounded
namespace Dsi
namespace Headline
open E2E TrL EqvL CodeBodiesGen Gen

/-! ## 0. the generated `bit_pos` of the unbuffered reader, padding lengths -/

/-- `impl BitSeek for BitReader<E, _>::bit_pos`, from the translated bodies -/
def genBitRBitPos (e : Endian) (s : BitR) : Res (Nat × BitR) :=
  match e with
  | .be => GenBitR.natOut (Gen.BitR.bit_pos_be s)
  | .le => GenBitR.natOut (Gen.BitR.bit_pos_le s)

theorem genBitRBitPos_eq {e : Endian} {s : BitR} {r : RefR} (h : BitR.Rel e s r)
    (hfit : s.bitIndex < 2 ^ 64) : genBitRBitPos e s = .ok (r.pos, s) := by
  have := GenBitR.gen_bitr_bitPos h hfit
  cases e
  · exact this.1
  · exact this.2

theorem wpad_length_lt {W : Nat} (n : Nat) (hW : 0 < W) : (wpad W n).length < W := by
  unfold wpad
  rw [List.length_replicate]
  exact Nat.mod_lt _ hW

theorem rpad_length_le {Wr : Nat} (nb : Nat) (hW : 0 < Wr) (h8 : 8 ∣ Wr) : (rpad Wr nb).length ≤ Wr := by
  have hB : 0 < Wr / 8 := by
    obtain ⟨m, rfl⟩ := h8
    rw [Nat.mul_div_cancel_left m (by omega : 0 < 8)]; omega
  unfold rpad
  rw [List.length_replicate]
  have h1 := Nat.mod_lt (Wr / 8 - nb % (Wr / 8)) hB
  have h2 := Nat.mul_div_le Wr 8
  omega

/-- the words a reader of width `Wr` is built from, given the byte image of a flushed writer of
    width `Ww` holding `bits`: they spell `bits` followed by zeros, and there are at most
    `(bits.length + Ww + Wr) / Wr` of them -/
theorem reader_words (e : Endian) {Ww Wr : Nat} (hWw : 0 < Ww) (hWr : 0 < Wr) (h8r : 8 ∣ Wr)
    {bits : List Bool} {bytes : List Nat} (hb : ∀ b ∈ bytes, b < 256)
    (h3 : bitsOfBytes e bytes = bits ++ wpad Ww bits.length) :
    ∃ zeros, (wordsOfBytes e Wr (padTo (Wr / 8) bytes)).flatMap (wordBits e) = bits ++ zeros ∧
      (wordsOfBytes e Wr (padTo (Wr / 8) bytes)).length * Wr ≤ bits.length + Ww + Wr := by
  have hst : (wordsOfBytes e Wr (padTo (Wr / 8) bytes)).flatMap (wordBits e)
      = bits ++ (wpad Ww bits.length ++ rpad Wr bytes.length) := by
    rw [e2e_words_padTo e h8r hWr, reader_stream e hWr h8r _ hb, h3, List.append_assoc]
  refine ⟨_, hst, ?_⟩
  have hl := congrArg List.length hst
  rw [length_flatMap_wordBits, List.length_append, List.length_append] at hl
  have h1 := wpad_length_lt bits.length hWw
  have h2 := rpad_length_le bytes.length hWr h8r
  omega

/-! ## 2. C02 / C03: round trips on the generated machines -/

/-- **Round trip, generated `BufBitWriter` and `BufBitReader`** (`e2e_roundtrip` with every
    hand-written object replaced by its generated counterpart).  `pw` writes `pre ++ bits ++ post`
    (reference semantics); `rpG` is a generated reader program, `rpH` a program it agrees with off
    (debug-)panic points (`Guarded`) and that decodes `bits` to `v` on the reference reader.  Then:
    run `pw` and `flush` on a fresh generated writer of width `Ww`, build a generated reader of width
    `Wr` on the delivered bytes, `skip_bits(pre.length)`, run `rpG`: the result is `v` and the generated
    `bit_pos` answers `pre.length + bits.length`. -/
theorem gen_roundtrip {α β : Type} (e : Endian) {Ww Wr : Nat} (hWw : 0 < Ww) (h8w : 8 ∣ Ww)
    (hWw64 : Ww < 2 ^ 64) (hWr : 0 < Wr) (h8r : 8 ∣ Wr) (hW64 : e = .be → Wr ≤ 64)
    (checks strict : Bool) (pw : WProg α) {a : α} {r' : RefW} (pre bits post : List Bool)
    (hpw : pw.run RefW.impl { e := e, W := Ww, checks := checks, cap := none, bits := [] } = .ok (a, r'))
    (hbits : r'.bits = pre ++ bits ++ post)
    {rpH rpG : RProg β} {v : β} {K : Nat} (hr : ReadsPM K rpH e bits v) (hK : K ≤ Wr)
    (hpb : PeekBounded Wr 0 rpH) (hg : Guarded rpH rpG) (hple : PeekLe Wr rpG)
    (hfit : r'.bits.length + Ww + 5 * Wr < 2 ^ 64) :
    ∃ (sw : BufW Ww) (k : Nat) (sw' : BufW Ww) (s1 s2 : BufR Wr),
      pw.run (genWImpl e) (BufW.new Ww checks none) = .ok (a, sw) ∧
      (genWImpl e).flush sw = .ok (k, sw') ∧
      (genRImpl e).skipBits
        (BufR.new ⟨wordsOfBytes e Wr (padTo (Wr / 8) (sw'.outBytes e)), 0, strict⟩) pre.length = .ok s1 ∧
      rpG.run (genRImpl e) s1 = .ok (v, s2) ∧
      GenBufR.genBitPos e s2 = .ok (pre.length + bits.length, s2) := by
  obtain ⟨sw, k, sw', h1, h2, h3, h4, _⟩ := writer_image e hWw h8w checks pw hpw
  obtain ⟨zeros, hst, hlen⟩ := reader_words e (Wr := Wr) hWw hWr h8r h4 h3
  have hpl : pre.length + bits.length ≤ r'.bits.length := by
    rw [hbits]; simp only [List.length_append]; omega
  rw [hbits, List.append_assoc] at hst
  obtain ⟨s1, h5, hrel1⟩ := buf_start e hWr _ strict pre bits (post ++ zeros) hst
  obtain ⟨s2, h6, hrel2, _⟩ := buf_step_pm hW64 hrel1 hr hK hpb
  have hi0 : RInv (BufR.new ⟨wordsOfBytes e Wr (padTo (Wr / 8) (sw'.outBytes e)), 0, strict⟩) :=
    rinv_new _ hWr (by
      show (wordsOfBytes e Wr (padTo (Wr / 8) (sw'.outBytes e))).length * Wr + 4 * Wr < 2 ^ 64
      omega)
  have hi1 : RInv s1 := hand_skipBits_rinv e hi0 h5
  have hgs := Bounded.Guarded.soundOn (BufR.impl e) (Bounded.BInv e) (Bounded.bufR_boundedOn e)
    (Bounded.bufR_preserves e) hg s1 (Bounded.binv_of_rel hrel1)
  rw [h6] at hgs
  have h7 : rpG.run (BufR.impl e) s1 = .ok (v, s2) := by
    rcases hgs with h | h | h
    · cases h
    · cases h
    · exact h.symm
  have hpos2 : s2.back.pos * Wr < 2 ^ 64 := by
    have hp : (RefR.after e pre bits (post ++ zeros) strict Wr).pos + s2.bib = s2.back.pos * Wr :=
      hrel2.2.2.2.2.2.2.1
    have hb := hrel2.1
    have : (RefR.after e pre bits (post ++ zeros) strict Wr).pos = pre.length + bits.length := rfl
    omega
  refine ⟨sw, k, sw', s1, s2, gen_wrun_of_ok e hWw64 _ (inv_new hWw checks none) h1, ?_, ?_, ?_, ?_⟩
  · rw [genW_flush]; exact h2
  · rw [genR_skipBits e _ hi0]; exact h5
  · rw [gen_rrun_eq e rpG s1 hi1 hple]; exact h7
  · exact GenBufR.gen_bitPos_eq hrel2 hpos2

/-- **Round trip, generated `BufBitWriter` and unbuffered `BitReader`** (`e2e_roundtrip_bitr`). -/
theorem gen_roundtrip_bitr {α β : Type} (e : Endian) {Ww : Nat} (hWw : 0 < Ww) (h8w : 8 ∣ Ww)
    (hWw64 : Ww < 2 ^ 64) (checks strict : Bool) (pw : WProg α) {a : α} {r' : RefW}
    (pre bits post : List Bool)
    (hpw : pw.run RefW.impl { e := e, W := Ww, checks := checks, cap := none, bits := [] } = .ok (a, r'))
    (hbits : r'.bits = pre ++ bits ++ post)
    {rpH rpG : RProg β} {v : β} {K : Nat} (hr : ReadsPM K rpH e bits v) (hK : K ≤ 32)
    (hok : BitR.ProgOK 0 rpH) (hskip : BitR.NoSkip rpH ∨ strict = false) (hg : Guarded rpH rpG)
    (hfit : 2 * r'.bits.length + 2 * Ww + 5 * 64 < 2 ^ 64) :
    ∃ (sw : BufW Ww) (k : Nat) (sw' : BufW Ww) (s1 s2 : BitR),
      pw.run (genWImpl e) (BufW.new Ww checks none) = .ok (a, sw) ∧
      (genWImpl e).flush sw = .ok (k, sw') ∧
      (genBitRImpl e).skipBits
        { data := ⟨wordsOfBytes e 64 (padTo 8 (sw'.outBytes e)), 0, strict⟩ } pre.length = .ok s1 ∧
      rpG.run (genBitRImpl e) s1 = .ok (v, s2) ∧
      genBitRBitPos e s2 = .ok (pre.length + bits.length, s2) := by
  obtain ⟨sw, k, sw', h1, h2, h3, h4, _⟩ := writer_image e hWw h8w checks pw hpw
  obtain ⟨zeros, hst, hlen⟩ :=
    reader_words e (Wr := 64) hWw (by decide) (by decide) h4 h3
  have hpl : pre.length + bits.length ≤ r'.bits.length := by
    rw [hbits]; simp only [List.length_append]; omega
  rw [hbits, List.append_assoc] at hst
  have hst' : (wordsOfBytes e 64 (padTo 8 (sw'.outBytes e))).flatMap (wordBits e)
      = pre ++ bits ++ (post ++ zeros) := hst
  have hlen' : (wordsOfBytes e 64 (padTo 8 (sw'.outBytes e))).length * 64
      ≤ r'.bits.length + Ww + 64 := hlen
  obtain ⟨s1, h5, hrel1⟩ := bitr_start e _ strict pre bits (post ++ zeros) hst'
  obtain ⟨s2, h6, hrel2, hpos⟩ := bitr_step_pm hrel1 hr hK hok hskip
  have hpos : s2.bitIndex = pre.length + bits.length := hpos
  have hd1 := (bitr_skipBits_step h5).2
  have hd1 : s1.data.data = wordsOfBytes e 64 (padTo 8 (sw'.outBytes e)) := hd1
  have h7 : rpG.run (BitR.impl e) s1 = .ok (v, s2) := by
    rcases Guarded.sound (BitR.impl e) (Bounded.bitR_bounded e) hg s1 with h | h | h
    · rw [h6] at h; cases h
    · rw [h6] at h; cases h
    · rw [← h]; exact h6
  refine ⟨sw, k, sw', s1, s2, gen_wrun_of_ok e hWw64 _ (inv_new hWw checks none) h1, ?_, ?_, ?_, ?_⟩
  · rw [genW_flush]; exact h2
  · rw [genBitRImpl_eq, GenBitR.genImpl_skipBits e _ _ (by show 0 + pre.length < 2 ^ 64; omega)]
    exact h5
  · refine gen_rrun_bitr_eq e rpG s1 v s2 h7 ?_
    rw [hd1, hpos, Nat.add_mul]
    omega
  · exact genBitRBitPos_eq hrel2.1 (by rw [hpos]; omega)

/-- the round trip right after an arbitrary preceding program `pre` (which wrote `bits₀`): the
    generated writer program `gw` then `flush`; the generated reader skips `bits₀`, runs `rpG` -/
theorem gen_roundtrip_after {α : Type} (e : Endian) {Ww Wr : Nat} (hWw : 0 < Ww) (h8w : 8 ∣ Ww)
    (hWw64 : Ww < 2 ^ 64) (hWr : 0 < Wr) (h8r : 8 ∣ Wr) (hW64 : e = .be → Wr ≤ 64)
    (checks strict : Bool) (pre : WProg α) {a : α} {bits₀ : List Bool}
    (hpre : pre.run RefW.impl { e := e, W := Ww, checks := checks, cap := none, bits := [] }
      = .ok (a, { e := e, W := Ww, checks := checks, cap := none, bits := bits₀ }))
    {gw hw : WProg Nat} (heq : gw = hw) {cw : List Bool} (hwr : Writes hw e checks cw)
    {rpH rpG : RProg Nat} {v : Nat} {K : Nat} (hr : ReadsPM K rpH e cw v) (hK : K ≤ Wr)
    (hpb : PeekBounded Wr 0 rpH) (hg : Guarded rpH rpG) (hple : PeekLe Wr rpG)
    (hfit : bits₀.length + cw.length + Ww + 5 * Wr < 2 ^ 64) :
    ∃ (sw : BufW Ww) (k : Nat) (sw' : BufW Ww) (s1 s2 : BufR Wr),
      (pre.bind fun _ => gw).run (genWImpl e) (BufW.new Ww checks none) = .ok (cw.length, sw) ∧
      (genWImpl e).flush sw = .ok (k, sw') ∧
      (genRImpl e).skipBits
        (BufR.new ⟨wordsOfBytes e Wr (padTo (Wr / 8) (sw'.outBytes e)), 0, strict⟩) bits₀.length = .ok s1 ∧
      rpG.run (genRImpl e) s1 = .ok (v, s2) ∧
      GenBufR.genBitPos e s2 = .ok (bits₀.length + cw.length, s2) := by
  subst heq
  have hrun : (pre.bind fun _ => gw).run RefW.impl
      { e := e, W := Ww, checks := checks, cap := none, bits := [] }
      = .ok (cw.length, { e := e, W := Ww, checks := checks, cap := none, bits := bits₀ ++ cw }) := by
    rw [WProg.run_bind, hpre]
    exact hwr _ rfl rfl rfl
  exact gen_roundtrip e hWw h8w hWw64 hWr h8r hW64 checks strict _ bits₀ cw [] hrun
    (List.append_nil _).symm hr hK hpb hg hple
    (by show (bits₀ ++ cw).length + Ww + 5 * Wr < 2 ^ 64; rw [List.length_append]; exact hfit)

theorem gen_roundtrip_after_bitr {α : Type} (e : Endian) {Ww : Nat} (hWw : 0 < Ww) (h8w : 8 ∣ Ww)
    (hWw64 : Ww < 2 ^ 64) (checks strict : Bool) (pre : WProg α) {a : α} {bits₀ : List Bool}
    (hpre : pre.run RefW.impl { e := e, W := Ww, checks := checks, cap := none, bits := [] }
      = .ok (a, { e := e, W := Ww, checks := checks, cap := none, bits := bits₀ }))
    {gw hw : WProg Nat} (heq : gw = hw) {cw : List Bool} (hwr : Writes hw e checks cw)
    {rpH rpG : RProg Nat} {v : Nat} {K : Nat} (hr : ReadsPM K rpH e cw v) (hK : K ≤ 32)
    (hok : BitR.ProgOK 0 rpH) (hskip : BitR.NoSkip rpH ∨ strict = false) (hg : Guarded rpH rpG)
    (hfit : 2 * (bits₀.length + cw.length) + 2 * Ww + 5 * 64 < 2 ^ 64) :
    ∃ (sw : BufW Ww) (k : Nat) (sw' : BufW Ww) (s1 s2 : BitR),
      (pre.bind fun _ => gw).run (genWImpl e) (BufW.new Ww checks none) = .ok (cw.length, sw) ∧
      (genWImpl e).flush sw = .ok (k, sw') ∧
      (genBitRImpl e).skipBits
        { data := ⟨wordsOfBytes e 64 (padTo 8 (sw'.outBytes e)), 0, strict⟩ } bits₀.length = .ok s1 ∧
      rpG.run (genBitRImpl e) s1 = .ok (v, s2) ∧
      genBitRBitPos e s2 = .ok (bits₀.length + cw.length, s2) := by
  subst heq
  have hrun : (pre.bind fun _ => gw).run RefW.impl
      { e := e, W := Ww, checks := checks, cap := none, bits := [] }
      = .ok (cw.length, { e := e, W := Ww, checks := checks, cap := none, bits := bits₀ ++ cw }) := by
    rw [WProg.run_bind, hpre]
    exact hwr _ rfl rfl rfl
  exact gen_roundtrip_bitr e hWw h8w hWw64 checks strict _ bits₀ cw [] hrun
    (List.append_nil _).symm hr hK hok hskip hg
    (by show 2 * (bits₀ ++ cw).length + 2 * Ww + 5 * 64 < 2 ^ 64; rw [List.length_append]; exact hfit)

/-- **C03 for every code of the `Codes` enum, on the generated machines** (`code_read_concrete` /
    `e2e_code`): after an arbitrary preceding program, the generated writer of the code on the
    generated `BufBitWriter`, `flush`; on the delivered bytes the generated `BufBitReader` of any
    word width `Wr ≥ 12` (`≤ 64` for BE), strict or zero-extended, skips the preceding bits, the
    generated reader of the code returns `v`, and the generated `bit_pos` is the end of the
    codeword. -/
theorem gen_code_roundtrip {α : Type} (e : Endian) {Ww Wr : Nat} (hWw : 0 < Ww) (h8w : 8 ∣ Ww)
    (hWw64 : Ww < 2 ^ 64) (hWr : 0 < Wr) (h8r : 8 ∣ Wr) (hW64 : e = .be → Wr ≤ 64)
    (checks strict : Bool) (hW12 : tablePeek ≤ Wr) (pre : WProg α) {a : α} {bits₀ : List Bool}
    (hpre : pre.run RefW.impl { e := e, W := Ww, checks := checks, cap := none, bits := [] }
      = .ok (a, { e := e, W := Ww, checks := checks, cap := none, bits := bits₀ }))
    (c : CodeId) (v : Nat) (hd : c.Dom v) {cw : List Bool} (hcw : c.codeword e v = some cw)
    (hfit : bits₀.length + cw.length + Ww + 5 * Wr < 2 ^ 64) :
    ∃ (sw : BufW Ww) (k : Nat) (sw' : BufW Ww) (s1 s2 : BufR Wr),
      (pre.bind fun _ => genOwnWrite e checks c v).run (genWImpl e) (BufW.new Ww checks none)
        = .ok (cw.length, sw) ∧
      (genWImpl e).flush sw = .ok (k, sw') ∧
      (genRImpl e).skipBits
        (BufR.new ⟨wordsOfBytes e Wr (padTo (Wr / 8) (sw'.outBytes e)), 0, strict⟩) bits₀.length = .ok s1 ∧
      (genOwnRead e c).run (genRImpl e) s1 = .ok (v, s2) ∧
      GenBufR.genBitPos e s2 = .ok (bits₀.length + cw.length, s2) := by
  obtain ⟨cw1, hcw1, hwr⟩ := ownWrite_writes e checks c v hd
  obtain ⟨cw2, hcw2, hrd⟩ := ownRead_reads e c v hd
  rw [hcw] at hcw1 hcw2
  cases Option.some.inj hcw1
  cases Option.some.inj hcw2
  exact gen_roundtrip_after e hWw h8w hWw64 hWr h8r hW64 checks strict pre hpre
    (genOwnWrite_eq e checks c v hd) hwr hrd hW12 ((rside_ownRead e c hd).pb Wr hW12)
    (genOwnRead_guarded e c) (genOwnRead_peekLe e c hW12) hfit

/-- the same with the generated unbuffered `BitReader` (`code_read_bitr` / `e2e_code_bitr`) -/
theorem gen_code_roundtrip_bitr {α : Type} (e : Endian) {Ww : Nat} (hWw : 0 < Ww) (h8w : 8 ∣ Ww)
    (hWw64 : Ww < 2 ^ 64) (checks strict : Bool) (pre : WProg α) {a : α} {bits₀ : List Bool}
    (hpre : pre.run RefW.impl { e := e, W := Ww, checks := checks, cap := none, bits := [] }
      = .ok (a, { e := e, W := Ww, checks := checks, cap := none, bits := bits₀ }))
    (c : CodeId) (v : Nat) (hd : c.Dom v) {cw : List Bool} (hcw : c.codeword e v = some cw)
    (hfit : 2 * (bits₀.length + cw.length) + 2 * Ww + 5 * 64 < 2 ^ 64) :
    ∃ (sw : BufW Ww) (k : Nat) (sw' : BufW Ww) (s1 s2 : BitR),
      (pre.bind fun _ => genOwnWrite e checks c v).run (genWImpl e) (BufW.new Ww checks none)
        = .ok (cw.length, sw) ∧
      (genWImpl e).flush sw = .ok (k, sw') ∧
      (genBitRImpl e).skipBits
        { data := ⟨wordsOfBytes e 64 (padTo 8 (sw'.outBytes e)), 0, strict⟩ } bits₀.length = .ok s1 ∧
      (genOwnRead e c).run (genBitRImpl e) s1 = .ok (v, s2) ∧
      genBitRBitPos e s2 = .ok (bits₀.length + cw.length, s2) := by
  obtain ⟨cw1, hcw1, hwr⟩ := ownWrite_writes e checks c v hd
  obtain ⟨cw2, hcw2, hrd⟩ := ownRead_reads e c v hd
  rw [hcw] at hcw1 hcw2
  cases Option.some.inj hcw1
  cases Option.some.inj hcw2
  have hs := rside_ownRead e c hd
  exact gen_roundtrip_after_bitr e hWw h8w hWw64 checks strict pre hpre
    (genOwnWrite_eq e checks c v hd) hwr hrd tablePeek_le_32 (hs.ok tablePeek_le_32) (Or.inl hs.ns)
    (genOwnRead_guarded e c) hfit

/-! ### a code between two raw fields (`e2e_framed`, `e2e_code`), everything generated -/

/-- `RoundTripsFramed` (Props/EndToEnd.lean) on the generated machines: a fresh generated writer of
    width `Ww` accepts `[a : na bits] wc [b : nb bits]` and the flush; the generated reader of width
    `Wr` built on the delivered bytes reads back `a` (generated `read_bits`), then `rc` returns `v`,
    then `b`, and the generated `bit_pos` is `na + len + nb`. -/
def GenRoundTripsFramed (e : Endian) (Ww Wr : Nat) (checks strict : Bool) (wc : WProg Nat)
    (rc : RProg Nat) (len v a na b nb : Nat) : Prop :=
  ∃ (sw : BufW Ww) (k : Nat) (sw' : BufW Ww) (s1 s2 s3 : BufR Wr),
    (framedW a na wc b nb).run (genWImpl e) (BufW.new Ww checks none) = .ok (na + len + nb, sw) ∧
    (genWImpl e).flush sw = .ok (k, sw') ∧
    (genRImpl e).readBits
      (BufR.new ⟨wordsOfBytes e Wr (padTo (Wr / 8) (sw'.outBytes e)), 0, strict⟩) na
        = .ok (a % 2 ^ na, s1) ∧
    rc.run (genRImpl e) s1 = .ok (v, s2) ∧
    (genRImpl e).readBits s2 nb = .ok (b % 2 ^ nb, s3) ∧
    GenBufR.genBitPos e s3 = .ok (na + len + nb, s3)

/-- the refinement relation gives the struct invariant when the stream is shorter than `2^64` bits -/
theorem rinv_of_rel_stream {W : Nat} {e : Endian} {s : BufR W} {r : RefR} (h : BufR.Rel e s r)
    (hfit : r.stream.length + 4 * W < 2 ^ 64) : RInv s := by
  refine rinv_of_rel h ?_
  have := h.2.2.2.2.2.1
  rw [this, length_flatMap_wordBits] at hfit
  exact hfit

theorem gen_framed (e : Endian) {Ww Wr : Nat} (hWw : 0 < Ww) (h8w : 8 ∣ Ww) (hWw64 : Ww < 2 ^ 64)
    (hWr : 0 < Wr) (h8r : 8 ∣ Wr) (hW64 : e = .be → Wr ≤ 64) (checks strict : Bool)
    {wcG wcH : WProg Nat} (heq : wcG = wcH) {rcH rcG : RProg Nat} {code : List Bool} {v : Nat} {K : Nat}
    (hw : Writes wcH e checks code) (hr : ReadsPM K rcH e code v) (hK : K ≤ Wr)
    (hpb : PeekBounded Wr 0 rcH) (hg : Guarded rcH rcG) (hple : PeekLe Wr rcG)
    (a na b nb : Nat) (hna : na ≤ 64) (hnb : nb ≤ 64)
    (ha : checks = false ∨ a % 2 ^ 64 < 2 ^ na) (hb : checks = false ∨ b % 2 ^ 64 < 2 ^ nb)
    (hfit : na + code.length + nb + Ww + 5 * Wr < 2 ^ 64) :
    GenRoundTripsFramed e Ww Wr checks strict wcG rcG code.length v a na b nb := by
  subst heq
  have hW := framedW_writes hw hna hnb ha hb
  have hrun := hW { e := e, W := Ww, checks := checks, cap := none, bits := [] } rfl rfl rfl
  obtain ⟨sw, k, sw', h1, h2, h3, h4, _⟩ := writer_image e hWw h8w checks _ hrun
  obtain ⟨zeros, hst, hlen⟩ := reader_words e (Wr := Wr) hWw hWr h8r h4 h3
  simp only [List.nil_append, List.append_nil, List.length_append, fieldBits_length] at hst hlen
  have hst' : (wordsOfBytes e Wr (padTo (Wr / 8) (sw'.outBytes e))).flatMap (wordBits e)
      = [] ++ fieldBits e a na ++ (code ++ (fieldBits e b nb ++ zeros)) := by
    rw [hst]; simp [List.append_assoc]
  have hslen : ([] ++ fieldBits e a na ++ (code ++ (fieldBits e b nb ++ zeros))).length + 4 * Wr
      < 2 ^ 64 := by
    rw [← hst', length_flatMap_wordBits]; omega
  have hrel0 : BufR.Rel e (BufR.new ⟨wordsOfBytes e Wr (padTo (Wr / 8) (sw'.outBytes e)), 0, strict⟩)
      (RefR.at e [] (fieldBits e a na) (code ++ (fieldBits e b nb ++ zeros)) strict Wr) := by
    have := new_rel e hWr (wordsOfBytes e Wr (padTo (Wr / 8) (sw'.outBytes e))) strict
    rw [hst'] at this
    exact this
  obtain ⟨s1, r1, hrel1, _⟩ := buf_step hW64 hrel0 (reads_rbits e hna a) (pb_rbits Wr na)
  rw [after_eq_at] at hrel1
  obtain ⟨s2, r2, hrel2, _⟩ := buf_step_pm hW64 hrel1 hr hK hpb
  rw [after_eq_at] at hrel2
  obtain ⟨s3, r3, hrel3, _⟩ := buf_step hW64 hrel2 (reads_rbits e hnb b) (pb_rbits Wr nb)
  have hi0 := rinv_of_rel_stream hrel0 (by simpa [RefR.at, List.append_assoc] using hslen)
  have hi1 := rinv_of_rel_stream hrel1 (by simpa [RefR.at, List.append_assoc] using hslen)
  have hi2 := rinv_of_rel_stream hrel2 (by simpa [RefR.at, List.append_assoc] using hslen)
  have hgs := Bounded.Guarded.soundOn (BufR.impl e) (Bounded.BInv e) (Bounded.bufR_boundedOn e)
    (Bounded.bufR_preserves e) hg s1 (Bounded.binv_of_rel hrel1)
  rw [r2] at hgs
  have h7 : rcG.run (BufR.impl e) s1 = .ok (v, s2) := by
    rcases hgs with h | h | h
    · cases h
    · cases h
    · exact h.symm
  have hpos3 : s3.back.pos * Wr < 2 ^ 64 := by
    have hp := hrel3.2.2.2.2.2.2.1
    have hb3 := hrel3.1
    simp only [RefR.after, List.length_append, fieldBits_length, List.length_nil] at hp
    omega
  refine ⟨sw, k, sw', s1, s2, s3, gen_wrun_of_ok e hWw64 _ (inv_new hWw checks none) h1, ?_, ?_, ?_,
    ?_, ?_⟩
  · rw [genW_flush]; exact h2
  · rw [genR_readBits e _ hi0]; exact run_rbits_ok _ _ _ _ _ r1
  · rw [gen_rrun_eq e rcG s1 hi1 hple]; exact h7
  · rw [genR_readBits e _ hi2]; exact run_rbits_ok _ _ _ _ _ r3
  · have := GenBufR.gen_bitPos_eq hrel3 hpos3
    simpa [RefR.after, Nat.add_assoc] using this

/-- **`e2e_code` on the generated machines**: every code of the `Codes` enum, generated default
    methods (tables included), between two raw fields -/
theorem gen_code_framed (e : Endian) {Ww Wr : Nat} (hWw : 0 < Ww) (h8w : 8 ∣ Ww) (hWw64 : Ww < 2 ^ 64)
    (hWr : 0 < Wr) (h8r : 8 ∣ Wr) (hW64 : e = .be → Wr ≤ 64) (checks strict : Bool)
    (a na b nb : Nat) (hna : na ≤ 64) (hnb : nb ≤ 64)
    (ha : checks = false ∨ a % 2 ^ 64 < 2 ^ na) (hb : checks = false ∨ b % 2 ^ 64 < 2 ^ nb)
    (hW12 : tablePeek ≤ Wr) (c : CodeId) (v : Nat) (hd : c.Dom v) {cw : List Bool}
    (hcw : c.codeword e v = some cw) (hfit : na + cw.length + nb + Ww + 5 * Wr < 2 ^ 64) :
    GenRoundTripsFramed e Ww Wr checks strict (genOwnWrite e checks c v) (genOwnRead e c) cw.length v
      a na b nb := by
  obtain ⟨cw1, hcw1, hwr⟩ := ownWrite_writes e checks c v hd
  obtain ⟨cw2, hcw2, hrd⟩ := ownRead_reads e c v hd
  rw [hcw] at hcw1 hcw2
  cases Option.some.inj hcw1
  cases Option.some.inj hcw2
  exact gen_framed e hWw h8w hWw64 hWr h8r hW64 checks strict (genOwnWrite_eq e checks c v hd) hwr hrd
    hW12 ((rside_ownRead e c hd).pb Wr hW12) (genOwnRead_guarded e c) (genOwnRead_peekLe e c hW12)
    a na b nb hna hnb ha hb hfit

/-! ## 4. the table options: γ, δ, ζ₃ with every combination of flags, writer and reader flags
    independent (C05 on the generated machines), and minimal binary -/

theorem readGammaP_reads (e : Endian) (tr : Bool) (n : Nat) (hn : n < 2 ^ 64 - 1) :
    ReadsPM (need tr Gamma.READ_BITS) (readGammaP e tr) e (Spec.gamma e n) n :=
  ReadsPM.of_run_eq (gamma_reads e n hn)
    (fun r he hk => readGammaP_eq e tr r he (fun ht => by subst ht; exact hk))

theorem readDeltaP_reads (e : Endian) (td tg : Bool) (n : Nat) (hn : n < 2 ^ 64 - 1) :
    ReadsPM (max (need td Delta.READ_BITS) (need tg Gamma.READ_BITS)) (readDeltaP e td tg) e
      (Spec.delta e n) n :=
  ReadsPM.of_run_eq (delta_reads e n hn)
    (fun r he hk => readDeltaP_eq e td tg r he
      (fun ht => by subst ht; exact Nat.le_trans (Nat.le_max_left _ _) hk)
      (fun ht => by subst ht; exact Nat.le_trans (Nat.le_max_right _ _) hk))

section tableOptions
variable {α : Type} (e : Endian) {Ww Wr : Nat} (hWw : 0 < Ww) (h8w : 8 ∣ Ww) (hWw64 : Ww < 2 ^ 64)
  (hWr : 0 < Wr) (h8r : 8 ∣ Wr) (hW64 : e = .be → Wr ≤ 64) (checks strict : Bool)
  (pre : WProg α) {a : α} {bits₀ : List Bool}
  (hpre : pre.run RefW.impl { e := e, W := Ww, checks := checks, cap := none, bits := [] }
    = .ok (a, { e := e, W := Ww, checks := checks, cap := none, bits := bits₀ }))
include hWw h8w hWw64 hpre hWr h8r hW64

/-- γ: written with table flag `tw`, read with table flag `tr` (a table needs `Wr ≥ 9`) -/
theorem gen_gamma_roundtrip (tw tr : Bool) (hWt : tr = true → Gamma.READ_BITS ≤ Wr) (n : Nat)
    (hn : n < 2 ^ 64 - 1) (hfit : bits₀.length + (Spec.gamma e n).length + Ww + 5 * Wr < 2 ^ 64) :
    ∃ (sw : BufW Ww) (k : Nat) (sw' : BufW Ww) (s1 s2 : BufR Wr),
      (pre.bind fun _ => TableFnsGen.writeGammaParam e checks tw n).run (genWImpl e)
        (BufW.new Ww checks none) = .ok ((Spec.gamma e n).length, sw) ∧
      (genWImpl e).flush sw = .ok (k, sw') ∧
      (genRImpl e).skipBits
        (BufR.new ⟨wordsOfBytes e Wr (padTo (Wr / 8) (sw'.outBytes e)), 0, strict⟩) bits₀.length = .ok s1 ∧
      (TableFnsGen.readGammaParam e tr).run (genRImpl e) s1 = .ok (n, s2) ∧
      GenBufR.genBitPos e s2 = .ok (bits₀.length + (Spec.gamma e n).length, s2) := by
  have hK : need tr Gamma.READ_BITS ≤ Wr := by cases tr <;> simp [need] <;> exact hWt rfl
  exact gen_roundtrip_after e hWw h8w hWw64 hWr h8r hW64 checks strict pre hpre
    (TableFnsGen.write_gamma_param_eq e checks tw hn)
    (writeGammaP_writes e checks tw n hn) (readGammaP_reads e tr n hn) hK
    ((rside_gammaP e tr).pb Wr hK) (TableFnsGen.read_gamma_param_guarded e tr)
    (peekLe_readGammaParam e tr hWt) hfit

/-- δ: any of the 4 × 4 combinations of writer and reader table flags -/
theorem gen_delta_roundtrip (twd twg trd trg : Bool) (hWd : trd = true → Delta.READ_BITS ≤ Wr)
    (hWg : trg = true → Gamma.READ_BITS ≤ Wr) (n : Nat) (hn : n < 2 ^ 64 - 1)
    (hfit : bits₀.length + (Spec.delta e n).length + Ww + 5 * Wr < 2 ^ 64) :
    ∃ (sw : BufW Ww) (k : Nat) (sw' : BufW Ww) (s1 s2 : BufR Wr),
      (pre.bind fun _ => TableFnsGen.writeDeltaParam e checks twd twg n).run (genWImpl e)
        (BufW.new Ww checks none) = .ok ((Spec.delta e n).length, sw) ∧
      (genWImpl e).flush sw = .ok (k, sw') ∧
      (genRImpl e).skipBits
        (BufR.new ⟨wordsOfBytes e Wr (padTo (Wr / 8) (sw'.outBytes e)), 0, strict⟩) bits₀.length = .ok s1 ∧
      (TableFnsGen.readDeltaParam e trd trg).run (genRImpl e) s1 = .ok (n, s2) ∧
      GenBufR.genBitPos e s2 = .ok (bits₀.length + (Spec.delta e n).length, s2) := by
  have hK : max (need trd Delta.READ_BITS) (need trg Gamma.READ_BITS) ≤ Wr := by
    apply Nat.max_le.2
    constructor
    · cases trd <;> simp [need] <;> exact hWd rfl
    · cases trg <;> simp [need] <;> exact hWg rfl
  exact gen_roundtrip_after e hWw h8w hWw64 hWr h8r hW64 checks strict pre hpre
    (TableFnsGen.write_delta_param_eq e checks twd twg hn)
    (writeDeltaP_writes e checks twd twg n hn) (readDeltaP_reads e trd trg n hn) hK
    ((rside_deltaP e trd trg).pb Wr hK) (TableFnsGen.read_delta_param_guarded e trd trg)
    (peekLe_readDeltaParam e trd trg hWd hWg) hfit

/-- ζ₃ (`write_zeta3_param::<tw>` / `read_zeta3_param::<tr>`; the table needs `Wr ≥ 12`) -/
theorem gen_zeta3_roundtrip (tw tr : Bool) (hWt : tr = true → Zeta.READ_BITS ≤ Wr) (n : Nat)
    (hn : n < 2 ^ 64 - 1)
    (hfit : bits₀.length + (Spec.zetaWrapped e 3 n).length + Ww + 5 * Wr < 2 ^ 64) :
    ∃ (sw : BufW Ww) (k : Nat) (sw' : BufW Ww) (s1 s2 : BufR Wr),
      (pre.bind fun _ => TableFnsGen.writeZeta3Param e tw n).run (genWImpl e)
        (BufW.new Ww checks none) = .ok ((Spec.zetaWrapped e 3 n).length, sw) ∧
      (genWImpl e).flush sw = .ok (k, sw') ∧
      (genRImpl e).skipBits
        (BufR.new ⟨wordsOfBytes e Wr (padTo (Wr / 8) (sw'.outBytes e)), 0, strict⟩) bits₀.length = .ok s1 ∧
      (TableFnsGen.readZeta3Param e tr).run (genRImpl e) s1 = .ok (n, s2) ∧
      GenBufR.genBitPos e s2 = .ok (bits₀.length + (Spec.zetaWrapped e 3 n).length, s2) := by
  have hK : need tr Zeta.READ_BITS ≤ Wr := by cases tr <;> simp [need] <;> exact hWt rfl
  exact gen_roundtrip_after e hWw h8w hWw64 hWr h8r hW64 checks strict pre hpre
    (TableFnsGen.write_zeta3_param_eq e tw hn) (writeZeta3P_writes e checks tw n hn)
    (readZeta3P_reads e tr n hn) hK ((rside_zeta3P e tr).pb Wr hK)
    (TableFnsGen.read_zeta3_param_guarded e tr) (peekLe_readZeta3Param e tr hWt) hfit

/-- minimal binary with upper bound `u` -/
theorem gen_minbin_roundtrip (x u : Nat) (hu : 1 ≤ u) (h64 : u < 2 ^ 64) (hx : x < u)
    (hfit : bits₀.length + (Spec.minimalBinary e x u).length + Ww + 5 * Wr < 2 ^ 64) :
    ∃ (sw : BufW Ww) (k : Nat) (sw' : BufW Ww) (s1 s2 : BufR Wr),
      (pre.bind fun _ => Gen.write_minimal_binary x u).run (genWImpl e)
        (BufW.new Ww checks none) = .ok ((Spec.minimalBinary e x u).length, sw) ∧
      (genWImpl e).flush sw = .ok (k, sw') ∧
      (genRImpl e).skipBits
        (BufR.new ⟨wordsOfBytes e Wr (padTo (Wr / 8) (sw'.outBytes e)), 0, strict⟩) bits₀.length = .ok s1 ∧
      (Gen.read_minimal_binary u).run (genRImpl e) s1 = .ok (x, s2) ∧
      GenBufR.genBitPos e s2 = .ok (bits₀.length + (Spec.minimalBinary e x u).length, s2) :=
  gen_roundtrip_after e hWw h8w hWw64 hWr h8r hW64 checks strict pre hpre
    (write_minimal_binary_eq' (by omega) h64 hx) (minbin_writes e checks x u hu h64 hx)
    ((minbin_reads e x u hu h64 hx).toPM 0) (Nat.zero_le _)
    ((simple_minbin h64).peekBounded Wr _ 0) (read_minimal_binary_guarded u)
    (peekLe_read_minimal_binary u) hfit

end tableOptions

/-! ## 5. non-vacuity: every headline theorem instantiated on a concrete case -/

/-- a writer program mixing the three operations -/
def exWProg : WProg Nat :=
  .writeBits 0x2B5 10 fun a => .writeUnary 40 fun b => .flush fun c => .writeBits 1 1 fun d => .ret (a + b + c + d)

theorem exWProg_u64 : U64 exWProg := fun _ => ⟨by decide, fun _ _ _ => trivial⟩

/-- `gen_wrun_eq`: 16-bit words, both endiannesses -/
example (e : Endian) :
    exWProg.run (genWImpl e) (BufW.new 16) = exWProg.run (BufW.impl e) (BufW.new 16) :=
  gen_wrun_eq e (by decide) exWProg _ (inv_new (by decide) false none) exWProg_u64

/-- … and the run is a successful one: the translated bodies compute (10 + 41 bits written, the
    flush delivers the 3 pending bits in a fourth 16-bit word, then one more bit is buffered) -/
example : ∃ s, exWProg.run (genWImpl .be) (BufW.new 16) = .ok (55, s) ∧
    s.out = [0xAD40#16, 0x0000#16, 0x0000#16, 0x2000#16] ∧ s.space = 15 :=
  ⟨_, rfl, rfl, rfl⟩

/-- `gen_wrun_agree` on a program whose `write_unary` argument is not a `u64`: the hand-written
    model debug-panics -/
example : (WProg.wunary (2 ^ 64 + 5)).run (BufW.impl .le) (BufW.new 32) = .dpanic ∨
    (WProg.wunary (2 ^ 64 + 5)).run (genWImpl .le) (BufW.new 32)
      = (WProg.wunary (2 ^ 64 + 5)).run (BufW.impl .le) (BufW.new 32) :=
  gen_wrun_agree .le (by decide) _ _ (inv_new (by decide) false none)

/-- `gen_rrun_eq`: the program of Props/Reader.lean mixing every reader operation, on a reader in
    the middle of a strict 3-byte stream -/
example (e : Endian) :
    readerExProg.run (genRImpl e) (readerExS e) = readerExProg.run (BufR.impl e) (readerExS e) :=
  gen_rrun_eq e readerExProg _
    ⟨by decide, by show 5 < 2 * 8; decide, by show 3 * 8 + 4 * 8 < 2 ^ 64; decide⟩
    (PeekLe.of_peekBounded _ 0 readerExProg_bounded)

/-- `gen_rrun_bitr_eq`: a 7-bit read across the word boundary, a peek, a unary read -/
def exRProg : RProg Nat :=
  .readBits 7 fun a => .peek 9 fun
    | .ok p => .skipAfterPeek 4 (.readUnary fun u => .ret (a + p + u))
    | .error _ => .ret a

example (e : Endian) : ∃ a s', exRProg.run (genBitRImpl e) bitrExS = .ok (a, s') := by
  cases e
  · exact ⟨_, _, gen_rrun_bitr_eq .be exRProg bitrExS _ _ rfl (by decide)⟩
  · exact ⟨_, _, gen_rrun_bitr_eq .le exRProg bitrExS _ _ rfl (by decide)⟩

/-- the preceding program of the examples: five raw bits `10101` -/
def exPre : WProg Nat := WProg.wbits 21 5

theorem exPre_run (e : Endian) (Ww : Nat) (checks : Bool) :
    exPre.run RefW.impl { e := e, W := Ww, checks := checks, cap := none, bits := [] }
      = .ok (5, { e := e, W := Ww, checks := checks, cap := none, bits := fieldBits e 21 5 }) := by
  cases checks <;> rfl

/-- `gen_code_write_image`: δ(1000) (through the generated δ / γ write tables) after five raw bits,
    16-bit little-endian writer -/
example : ∃ (cw : List Bool) (sw : BufW 16) (k : Nat) (sw' : BufW 16),
    (⟨.delta, 0⟩ : CodeId).codeword .le 1000 = some cw ∧
    (exPre.bind fun _ => genOwnWrite .le false ⟨.delta, 0⟩ 1000).run (genWImpl .le) (BufW.new 16 false none)
      = .ok (cw.length, sw) ∧
    (genWImpl .le).flush sw = .ok (k, sw') ∧
    sw'.outBytes .le = layout .le (fieldBits .le 21 5 ++ cw ++
      List.replicate ((16 - (fieldBits .le 21 5 ++ cw).length % 16) % 16) false) :=
  gen_code_write_image .le (by decide) (by decide) (by decide) false exPre (exPre_run .le 16 false)
    ⟨.delta, 0⟩ 1000 (by decide)

/-- `gen_code_roundtrip`: ζ₃(12345), `checks` on, 64-bit BE writer, 32-bit BE zero-extended reader -/
example : ∃ (sw : BufW 64) (k : Nat) (sw' : BufW 64) (s1 s2 : BufR 32),
    (exPre.bind fun _ => genOwnWrite .be true ⟨.zeta, 3⟩ 12345).run (genWImpl .be) (BufW.new 64 true none)
      = .ok ((Spec.zeta .be 3 12345).length, sw) ∧
    (genWImpl .be).flush sw = .ok (k, sw') ∧
    (genRImpl .be).skipBits
      (BufR.new ⟨wordsOfBytes .be 32 (padTo (32 / 8) (sw'.outBytes .be)), 0, false⟩)
      (fieldBits .be 21 5).length = .ok s1 ∧
    (genOwnRead .be ⟨.zeta, 3⟩).run (genRImpl .be) s1 = .ok (12345, s2) ∧
    GenBufR.genBitPos .be s2
      = .ok ((fieldBits .be 21 5).length + (Spec.zeta .be 3 12345).length, s2) :=
  gen_code_roundtrip .be (by decide) (by decide) (by decide) (by decide) (by decide) (fun _ => by decide)
    true false (by decide) exPre (exPre_run .be 64 true) ⟨.zeta, 3⟩ 12345 (by decide) rfl (by decide)

/-- `gen_code_roundtrip`, a table-driven reader: δ(1000) (generated δ read table off, γ read table
    on, per the generated `Params`), 16-bit LE writer, 16-bit LE strict reader -/
example : ∃ (sw : BufW 16) (k : Nat) (sw' : BufW 16) (s1 s2 : BufR 16),
    (exPre.bind fun _ => genOwnWrite .le false ⟨.delta, 0⟩ 1000).run (genWImpl .le) (BufW.new 16 false none)
      = .ok ((Spec.delta .le 1000).length, sw) ∧
    (genWImpl .le).flush sw = .ok (k, sw') ∧
    (genRImpl .le).skipBits
      (BufR.new ⟨wordsOfBytes .le 16 (padTo (16 / 8) (sw'.outBytes .le)), 0, true⟩)
      (fieldBits .le 21 5).length = .ok s1 ∧
    (genOwnRead .le ⟨.delta, 0⟩).run (genRImpl .le) s1 = .ok (1000, s2) ∧
    GenBufR.genBitPos .le s2
      = .ok ((fieldBits .le 21 5).length + (Spec.delta .le 1000).length, s2) :=
  gen_code_roundtrip .le (by decide) (by decide) (by decide) (by decide) (by decide)
    (fun h => by cases h) false true (by decide) exPre (exPre_run .le 16 false) ⟨.delta, 0⟩ 1000
    (by decide) rfl (by decide)

/-- `gen_code_roundtrip_bitr`: ω(10^6) on the image of an 8-bit BE writer, strict unbuffered reader -/
example : ∃ (sw : BufW 8) (k : Nat) (sw' : BufW 8) (s1 s2 : BitR),
    (exPre.bind fun _ => genOwnWrite .be false ⟨.omega, 0⟩ 1000000).run (genWImpl .be) (BufW.new 8 false none)
      = .ok ((Spec.omega .be 1000000).length, sw) ∧
    (genWImpl .be).flush sw = .ok (k, sw') ∧
    (genBitRImpl .be).skipBits
      { data := ⟨wordsOfBytes .be 64 (padTo 8 (sw'.outBytes .be)), 0, true⟩ }
      (fieldBits .be 21 5).length = .ok s1 ∧
    (genOwnRead .be ⟨.omega, 0⟩).run (genBitRImpl .be) s1 = .ok (1000000, s2) ∧
    genBitRBitPos .be s2
      = .ok ((fieldBits .be 21 5).length + (Spec.omega .be 1000000).length, s2) :=
  gen_code_roundtrip_bitr .be (by decide) (by decide) (by decide) false true exPre
    (exPre_run .be 8 false) ⟨.omega, 0⟩ 1000000 (by decide) rfl (by decide)

/-- `gen_code_framed`: Rice₃(77) between a 7-bit and a 13-bit field, `checks` on -/
example : GenRoundTripsFramed .le 32 16 true true (genOwnWrite .le true ⟨.rice, 3⟩ 77)
    (genOwnRead .le ⟨.rice, 3⟩) (Spec.rice .le 3 77).length 77 100 7 5000 13 :=
  gen_code_framed .le (by decide) (by decide) (by decide) (by decide) (by decide) (fun h => by cases h)
    true true 100 7 5000 13 (by decide) (by decide) (Or.inr (by decide)) (Or.inr (by decide))
    (by decide) ⟨.rice, 3⟩ 77 (by decide) rfl (by decide)

/-- `gen_gamma_roundtrip`: written without the table, read through the table (and conversely) -/
example (tw tr : Bool) : ∃ (sw : BufW 16) (k : Nat) (sw' : BufW 16) (s1 s2 : BufR 16),
    (exPre.bind fun _ => TableFnsGen.writeGammaParam .le false tw 9).run (genWImpl .le)
      (BufW.new 16 false none) = .ok ((Spec.gamma .le 9).length, sw) ∧
    (genWImpl .le).flush sw = .ok (k, sw') ∧
    (genRImpl .le).skipBits
      (BufR.new ⟨wordsOfBytes .le 16 (padTo (16 / 8) (sw'.outBytes .le)), 0, true⟩)
      (fieldBits .le 21 5).length = .ok s1 ∧
    (TableFnsGen.readGammaParam .le tr).run (genRImpl .le) s1 = .ok (9, s2) ∧
    GenBufR.genBitPos .le s2 = .ok ((fieldBits .le 21 5).length + (Spec.gamma .le 9).length, s2) :=
  gen_gamma_roundtrip .le (by decide) (by decide) (by decide) (by decide) (by decide)
    (fun h => by cases h) false true exPre (exPre_run .le 16 false) tw tr (fun _ => by decide) 9
    (by decide) (by decide)

/-- `gen_minbin_roundtrip` -/
example : ∃ (sw : BufW 8) (k : Nat) (sw' : BufW 8) (s1 s2 : BufR 8),
    (exPre.bind fun _ => Gen.write_minimal_binary 11 13).run (genWImpl .be)
      (BufW.new 8 false none) = .ok ((Spec.minimalBinary .be 11 13).length, sw) ∧
    (genWImpl .be).flush sw = .ok (k, sw') ∧
    (genRImpl .be).skipBits
      (BufR.new ⟨wordsOfBytes .be 8 (padTo (8 / 8) (sw'.outBytes .be)), 0, false⟩)
      (fieldBits .be 21 5).length = .ok s1 ∧
    (Gen.read_minimal_binary 13).run (genRImpl .be) s1 = .ok (11, s2) ∧
    GenBufR.genBitPos .be s2
      = .ok ((fieldBits .be 21 5).length + (Spec.minimalBinary .be 11 13).length, s2) :=
  gen_minbin_roundtrip .be (by decide) (by decide) (by decide) (by decide) (by decide)
    (fun _ => by decide) false false exPre (exPre_run .be 8 false) 11 13 (by decide) (by decide)
    (by decide) (by decide)


/-- the generated machines compute: the session of `Props/EndToEnd.lean` (`10101`, then the
    table-free δ(1000), 16-bit LE writer; 8-bit LE strict reader) run on the translated bodies -/
example : ∃ (sw : BufW 16) (k : Nat) (sw' : BufW 16),
    (framedW 21 5 (Gen.default_write_delta (fun _ n => Gen.default_write_gamma false n) false false 1000) 0 0).run
      (genWImpl .le) (BufW.new 16 false none) = .ok (21, sw) ∧
    (genWImpl .le).flush sw = .ok (k, sw') ∧ sw'.outBytes .le = [21, 149, 30, 0] :=
  ⟨_, _, _, rfl, rfl, rfl⟩

example : ∃ (s1 s2 : BufR 8),
    (genRImpl .le).readBits (BufR.new ⟨wordsOfBytes .le 8 (padTo (8 / 8) [21, 149, 30, 0]), 0, true⟩) 5
      = .ok (21, s1) ∧
    (Gen.default_read_delta (fun _ => Gen.default_read_gamma) false).run (genRImpl .le) s1 = .ok (1000, s2) ∧
    GenBufR.genBitPos .le s2 = .ok (21, s2) :=
  ⟨_, _, rfl, rfl, rfl⟩

end Headline
end Dsi
