/-
  Transport of the L1/L2 theorems to the concrete machines (L3): what is proved about programs on
  the reference reader `RefR` / reference writer `RefW` holds on the buffered reader `BufR W`
  (`BufBitReader`), the unbuffered reader `BitR` (`BitReader`) and the writer `BufW W`
  (`BufBitWriter`), through the simulations `rprog_sim`, `bitr_rprog_sim`, `wprog_sim`.

  1. `table_read_concrete*` (C05 at L3): table-driven and table-free readers give the same value and
     the same abstract state on the concrete reader;
  2. `table_write_concrete*` (C05 at L3): table-driven and table-free writers leave the concrete
     writer with the same abstract bit stream and return the same length;
  3. `writes_concrete` and its instances `*_write_concrete`, `code_write_concrete` (C04/C06 at L3);
  4. `reads_concrete`, `reads_concrete_bitr` and their instances `*_read_concrete`,
     `*_read_bitr`, `code_read_concrete`, `code_read_bitr` (C03/C06/C07 at L3);
  5. `dispatch_write_concrete`, `dispatch_read_concrete` (C10 at L3): the program a dispatcher
     selects performs the wanted code on the concrete machines;
  6. `e2e_code`, `e2e_code_bitr`, `e2e_equiv` and the per-code `e2e_*` not in `Props/EndToEnd`
     (C03 at L3): what the concrete writer delivers for any code of the `Codes` enum, the concrete
     readers decode — also through an alias of the code.

  Hypotheses, and why:
  * `BufR.Rel e s r` / `BitR.Rel' e s r` / `RelC e t w`: the concrete state represents the reference
    state (holds initially: `new_rel`, `bitr_new_rel`, `rel_new`; preserved by every operation);
  * `e = .be → W ≤ 64`: hypothesis of `rprog_sim` (see `readBitsBE_needs_W_le_64`);
  * `K ≤ W` for a program that looks `K` bits ahead (tables: 9, 11, 12 bits): `peek_bits` of the
    buffered reader serves at most `W` bits (`BufR.Rel` says `r.peekMax = W`); `K ≤ 32` for `BitR`;
  * writers: `w.cap = none` (growable backend; the code theorems `Writes` are stated there).
-/
import Dsi.Lemmas.TransportE2E
namespace Dsi
open TrL EqvL E2E BufW Gen

variable {W : Nat}

/-! ## 0. same outcome up to abstraction -/

/-- two outcomes of the concrete buffered reader: the same value, and states representing the same
    reference reader (same stream, same position, same strictness) -/
def SameR (e : Endian) {α : Type} : α × BufR W → α × BufR W → Prop :=
  fun a b => a.1 = b.1 ∧ ∃ r', BufR.Rel e a.2 r' ∧ BufR.Rel e b.2 r'

/-- two outcomes of the concrete writer: the same returned value, the same abstract bit stream
    (`BufW.abs`: delivered words followed by the pending bits), and states representing the same
    reference writer -/
def SameW (e : Endian) {α : Type} : α × BufW W → α × BufW W → Prop :=
  fun a b => a.1 = b.1 ∧ a.2.abs e = b.2.abs e ∧ ∃ w', RelC e a.2 w' ∧ RelC e b.2 w'

theorem SameR.bitPos {e : Endian} {α : Type} {a b : α × BufR W} (h : SameR e a b) :
    a.2.bitPos = b.2.bitPos := by
  obtain ⟨_, r', h1, h2⟩ := h
  rw [bitPos_eq h1, bitPos_eq h2]

/-- two concrete runs related to the same reference run are related to each other -/
theorem run_eq_concrete {α : Type} {e : Endian} (hW64 : e = .be → W ≤ 64) {p q : RProg α}
    (hp : PeekBounded W 0 p) (hq : PeekBounded W 0 q) {s : BufR W} {r : RefR} (h : BufR.Rel e s r)
    (heq : p.run RefR.impl r = q.run RefR.impl r) :
    ResRel (SameR e) (p.run (BufR.impl e) s) (q.run (BufR.impl e) s) := by
  have h1 : ResRel (fun a b => a.1 = b.1 ∧ BufR.Rel e a.2 b.2) (p.run (BufR.impl e) s)
      (p.run RefR.impl r) := ResRel.mono_rr (fun _ _ hab => hab) (rprog_sim hW64 p hp h)
  have h2 : ResRel (fun a b => a.1 = b.1 ∧ BufR.Rel e a.2 b.2) (q.run (BufR.impl e) s)
      (q.run RefR.impl r) := ResRel.mono_rr (fun _ _ hab => hab) (rprog_sim hW64 q hq h)
  rw [heq] at h1
  exact join_reader h1 h2

theorem wrun_eq_concrete {α : Type} {e : Endian} {p q : WProg α} {t : BufW W} {w : RefW}
    (h : RelC e t w) (heq : p.run RefW.impl w = q.run RefW.impl w) :
    ResRel (SameW e) (p.run (BufW.impl e) t) (q.run (BufW.impl e) t) := by
  have h1 : ResRel (fun a b => a.1 = b.1 ∧ RelC e a.2 b.2) (p.run (BufW.impl e) t)
      (p.run RefW.impl w) := (wprog_sim e p h).mono (fun ⟨_, _⟩ ⟨_, _⟩ ⟨h1, h2, _⟩ => ⟨h1, h2⟩)
  have h2 : ResRel (fun a b => a.1 = b.1 ∧ RelC e a.2 b.2) (q.run (BufW.impl e) t)
      (q.run RefW.impl w) := (wprog_sim e q h).mono (fun ⟨_, _⟩ ⟨_, _⟩ ⟨h1, h2, _⟩ => ⟨h1, h2⟩)
  rw [heq] at h1
  exact join_writer h1 h2

/-! ## 1. table-driven readers = table-free readers, on the concrete buffered reader -/

section tableRead
variable {e : Endian} (hW64 : e = .be → W ≤ 64) {s : BufR W} {r : RefR} (h : BufR.Rel e s r)
include hW64 h

/-- γ, table selected by the flag `t` (`read_gamma_param::<USE_TABLE>`) -/
theorem table_read_concrete_gammaP (t : Bool) (hW : t = true → Gamma.READ_BITS ≤ W) :
    ResRel (SameR e) ((readGammaP e t).run (BufR.impl e) s) (readGammaDefault.run (BufR.impl e) s) := by
  have hK : need t Gamma.READ_BITS ≤ W := by cases t <;> simp [need] <;> exact hW rfl
  refine run_eq_concrete hW64 ((rside_gammaP e t).pb W hK) (simple_gamma.peekBounded W _ 0) h ?_
  exact readGammaP_eq e t r h.2.2.1 (fun ht => by rw [h.2.2.2.2.1]; exact hW ht)

/-- γ through the table (`W ≥ 9`) -/
theorem table_read_concrete_gamma (hW : Gamma.READ_BITS ≤ W) :
    ResRel (SameR e) ((readGamma (some (gammaRTab e))).run (BufR.impl e) s)
      (readGammaDefault.run (BufR.impl e) s) :=
  table_read_concrete_gammaP hW64 h true (fun _ => hW)

/-- δ with any of the four table selections (`read_delta_param::<USE_DELTA_TABLE, USE_GAMMA_TABLE>`) -/
theorem table_read_concrete_deltaP (td tg : Bool) (hd : td = true → Delta.READ_BITS ≤ W)
    (hg : tg = true → Gamma.READ_BITS ≤ W) :
    ResRel (SameR e) ((readDeltaP e td tg).run (BufR.impl e) s)
      ((readDeltaDefault none).run (BufR.impl e) s) := by
  have hK : max (need td Delta.READ_BITS) (need tg Gamma.READ_BITS) ≤ W := by
    apply Nat.max_le.2
    constructor
    · cases td <;> simp [need] <;> exact hd rfl
    · cases tg <;> simp [need] <;> exact hg rfl
  refine run_eq_concrete hW64 ((rside_deltaP e td tg).pb W hK) (simple_delta.peekBounded W _ 0) h ?_
  exact readDeltaP_eq e td tg r h.2.2.1 (fun ht => by rw [h.2.2.2.2.1]; exact hd ht)
    (fun ht => by rw [h.2.2.2.2.1]; exact hg ht)

/-- δ: both tables, the δ table only, the γ table only -/
theorem table_read_concrete_delta (hd : Delta.READ_BITS ≤ W) :
    ResRel (SameR e) ((readDelta (some (deltaRTab e)) (some (gammaRTab e))).run (BufR.impl e) s)
      ((readDeltaDefault none).run (BufR.impl e) s) ∧
    ResRel (SameR e) ((readDelta (some (deltaRTab e)) none).run (BufR.impl e) s)
      ((readDeltaDefault none).run (BufR.impl e) s) ∧
    ResRel (SameR e) ((readDelta none (some (gammaRTab e))).run (BufR.impl e) s)
      ((readDeltaDefault none).run (BufR.impl e) s) := by
  have hg : Gamma.READ_BITS ≤ W := Nat.le_trans (by decide) hd
  exact ⟨table_read_concrete_deltaP hW64 h true true (fun _ => hd) (fun _ => hg),
    table_read_concrete_deltaP hW64 h true false (fun _ => hd) (fun ht => by cases ht),
    table_read_concrete_deltaP hW64 h false true (fun ht => by cases ht) (fun _ => hg)⟩

/-- ζ₃, table selected by the flag -/
theorem table_read_concrete_zeta3P (t : Bool) (hW : t = true → Zeta.READ_BITS ≤ W) :
    ResRel (SameR e) ((readZeta3P e t).run (BufR.impl e) s)
      ((readZetaDefault 3).run (BufR.impl e) s) := by
  have hK : need t Zeta.READ_BITS ≤ W := by cases t <;> simp [need] <;> exact hW rfl
  refine run_eq_concrete hW64 ((rside_zeta3P e t).pb W hK) ((simple_zeta 3).peekBounded W _ 0) h ?_
  exact readZeta3P_eq e t r h.2.2.1 (fun ht => by rw [h.2.2.2.2.1]; exact hW ht)

theorem table_read_concrete_zeta3 (hW : Zeta.READ_BITS ≤ W) :
    ResRel (SameR e) ((readZeta3 (some (zetaRTab e))).run (BufR.impl e) s)
      ((readZetaDefault 3).run (BufR.impl e) s) :=
  table_read_concrete_zeta3P hW64 h true (fun _ => hW)

/-- the parameterless default methods (flags from the generated `Params`) -/
theorem table_read_concrete_gammaD (hW : Params.readGammaTable = true → Gamma.READ_BITS ≤ W) :
    ResRel (SameR e) ((readGammaD e).run (BufR.impl e) s) (readGammaDefault.run (BufR.impl e) s) :=
  table_read_concrete_gammaP hW64 h _ hW

theorem table_read_concrete_deltaD (hd : Params.readDeltaTable = true → Delta.READ_BITS ≤ W)
    (hg : Params.readDeltaGammaTable = true → Gamma.READ_BITS ≤ W) :
    ResRel (SameR e) ((readDeltaD e).run (BufR.impl e) s)
      ((readDeltaDefault none).run (BufR.impl e) s) :=
  table_read_concrete_deltaP hW64 h _ _ hd hg

theorem table_read_concrete_zeta3D (hW : Params.readZeta3Table = true → Zeta.READ_BITS ≤ W) :
    ResRel (SameR e) ((readZeta3D e).run (BufR.impl e) s)
      ((readZetaDefault 3).run (BufR.impl e) s) :=
  table_read_concrete_zeta3P hW64 h _ hW

/-- **C05 on the concrete buffered reader.**  For a word size covering the widest table index
    (`W ≥ 12`: the library's 16-, 32-, 64-bit readers) every table selection of γ, δ, ζ₃ and the
    default methods give the same value and the same abstract state (hence the same `bitPos`) as
    the bit-by-bit readers, on every reader state — any alignment, strict or zero-extended backend,
    any number of bits left. -/
theorem table_read_concrete (hW : tablePeek ≤ W) :
    (∀ t, ResRel (SameR e) ((readGammaP e t).run (BufR.impl e) s)
        (readGammaDefault.run (BufR.impl e) s)) ∧
    (∀ td tg, ResRel (SameR e) ((readDeltaP e td tg).run (BufR.impl e) s)
        ((readDeltaDefault none).run (BufR.impl e) s)) ∧
    (∀ t, ResRel (SameR e) ((readZeta3P e t).run (BufR.impl e) s)
        ((readZetaDefault 3).run (BufR.impl e) s)) ∧
    ResRel (SameR e) ((readGammaD e).run (BufR.impl e) s) (readGammaDefault.run (BufR.impl e) s) ∧
    ResRel (SameR e) ((readDeltaD e).run (BufR.impl e) s)
        ((readDeltaDefault none).run (BufR.impl e) s) ∧
    ResRel (SameR e) ((readZeta3D e).run (BufR.impl e) s)
        ((readZetaDefault 3).run (BufR.impl e) s) := by
  have hg : Gamma.READ_BITS ≤ W := Nat.le_trans gamma_le_tablePeek hW
  have hd : Delta.READ_BITS ≤ W := Nat.le_trans delta_le_tablePeek hW
  have hz : Zeta.READ_BITS ≤ W := Nat.le_trans zeta_le_tablePeek hW
  exact ⟨fun t => table_read_concrete_gammaP hW64 h t (fun _ => hg),
    fun td tg => table_read_concrete_deltaP hW64 h td tg (fun _ => hd) (fun _ => hg),
    fun t => table_read_concrete_zeta3P hW64 h t (fun _ => hz),
    table_read_concrete_gammaD hW64 h (fun _ => hg),
    table_read_concrete_deltaD hW64 h (fun _ => hd) (fun _ => hg),
    table_read_concrete_zeta3D hW64 h (fun _ => hz)⟩

end tableRead

/-! ## 2. table-driven writers = table-free writers, on the concrete writer -/

section tableWrite
variable {e : Endian} {t : BufW W} {w : RefW} (h : RelC e t w)
include h

theorem table_write_concrete_gammaP (tb : Bool) (n : Nat) :
    ResRel (SameW e) ((writeGammaP e t.checks tb n).run (BufW.impl e) t)
      ((writeGammaDefault t.checks n).run (BufW.impl e) t) :=
  wrun_eq_concrete h (writeGammaP_eq e t.checks tb n w h.1.2.1 h.1.2.2.2.2.1)

theorem table_write_concrete_deltaP (td tg : Bool) (n : Nat) :
    ResRel (SameW e) ((writeDeltaP e t.checks td tg n).run (BufW.impl e) t)
      ((writeDeltaDefault t.checks none n).run (BufW.impl e) t) :=
  wrun_eq_concrete h (writeDeltaP_eq e t.checks td tg n w h.1.2.1 h.1.2.2.2.2.1)

theorem table_write_concrete_zeta3P (tb : Bool) (n : Nat) :
    ResRel (SameW e) ((writeZeta3P e tb n).run (BufW.impl e) t)
      ((writeZetaDefault n 3).run (BufW.impl e) t) :=
  wrun_eq_concrete h (writeZeta3P_eq e tb n w h.1.2.1)

/-- **C05 on the concrete writer**: every table selection of γ, δ, ζ₃ and the default methods leave
    the concrete writer with the same abstract bit stream (delivered words and pending bits) and
    return the same length as the bit-by-bit writers — on every writer state (any fill level of
    the buffer, growable or fixed backend, either `checks` value), for every `n`. -/
theorem table_write_concrete (n : Nat) :
    (∀ tb, ResRel (SameW e) ((writeGammaP e t.checks tb n).run (BufW.impl e) t)
        ((writeGammaDefault t.checks n).run (BufW.impl e) t)) ∧
    (∀ td tg, ResRel (SameW e) ((writeDeltaP e t.checks td tg n).run (BufW.impl e) t)
        ((writeDeltaDefault t.checks none n).run (BufW.impl e) t)) ∧
    (∀ tb, ResRel (SameW e) ((writeZeta3P e tb n).run (BufW.impl e) t)
        ((writeZetaDefault n 3).run (BufW.impl e) t)) ∧
    ResRel (SameW e) ((writeGammaD e t.checks n).run (BufW.impl e) t)
        ((writeGammaDefault t.checks n).run (BufW.impl e) t) ∧
    ResRel (SameW e) ((writeDeltaD e t.checks n).run (BufW.impl e) t)
        ((writeDeltaDefault t.checks none n).run (BufW.impl e) t) ∧
    ResRel (SameW e) ((writeZeta3D e n).run (BufW.impl e) t)
        ((writeZetaDefault n 3).run (BufW.impl e) t) :=
  ⟨fun tb => table_write_concrete_gammaP h tb n, fun td tg => table_write_concrete_deltaP h td tg n,
    fun tb => table_write_concrete_zeta3P h tb n, table_write_concrete_gammaP h _ n,
    table_write_concrete_deltaP h _ _ n, table_write_concrete_zeta3P h _ n⟩

end tableWrite

/-! ## 3. every code writer on the concrete writer (C04 / C06 at L3) -/

/-- **A program that appends `bits` on the reference writer appends `bits` on the concrete writer**
    (growable backend): it returns `bits.length`, the new state represents the reference writer
    with `bits` appended; moreover the words already delivered are never rewritten and the abstract
    bit stream grows by exactly `bits`. -/
theorem writes_concrete {p : WProg Nat} {e : Endian} {checks : Bool} {bits : List Bool}
    (hw : Writes p e checks bits) {t : BufW W} {w : RefW} (h : RelC e t w) (hcap : w.cap = none)
    (hc : w.checks = checks) :
    ∃ t', p.run (BufW.impl e) t = .ok (bits.length, t') ∧
      RelC e t' { w with bits := w.bits ++ bits } ∧ t.out <+: t'.out ∧
      t'.abs e = t.abs e ++ bits := by
  have hsim : ResRel (fun a b => a.1 = b.1 ∧ RelC e a.2 b.2 ∧ t.out <+: a.2.out)
      (p.run (BufW.impl e) t) (p.run RefW.impl w) :=
    (wprog_sim e p h).mono (fun ⟨_, _⟩ ⟨_, _⟩ hab => hab)
  rw [hw w h.1.2.1 hcap hc] at hsim
  obtain ⟨⟨a, t'⟩, hrun, ha, hrel, hpre⟩ := ResRel.ok_right hsim
  have ha : a = bits.length := ha
  subst ha
  refine ⟨t', hrun, hrel, hpre, ?_⟩
  have h1 : (w.bits ++ bits) = t'.abs e := hrel.1.2.2.2.2.2
  have h2 : w.bits = t.abs e := h.1.2.2.2.2.2
  rw [← h1, h2]

/-- the same for the `checks` flag of the concrete writer at hand -/
theorem writes_concrete' {p : WProg Nat} {e : Endian} {bits : List Bool} {t : BufW W} {w : RefW}
    (h : RelC e t w) (hcap : w.cap = none) (hw : Writes p e t.checks bits) :
    ∃ t', p.run (BufW.impl e) t = .ok (bits.length, t') ∧
      RelC e t' { w with bits := w.bits ++ bits } ∧ t.out <+: t'.out ∧
      t'.abs e = t.abs e ++ bits :=
  writes_concrete hw h hcap h.1.2.2.2.2.1

section codeWrite
variable {e : Endian} {t : BufW W} {w : RefW} (h : RelC e t w) (hcap : w.cap = none)
include h hcap

theorem unary_write_concrete (x : Nat) (hx : x < 2 ^ 64 - 1) :
    ∃ t', (writeUnaryC x).run (BufW.impl e) t
        = .ok ((Spec.unary x).length, t') ∧
      RelC e t' { w with bits := w.bits ++ Spec.unary x } ∧ t.out <+: t'.out ∧
      t'.abs e = t.abs e ++ Spec.unary x :=
  writes_concrete' h hcap (unary_writes e t.checks x hx)

theorem gamma_write_concrete (n : Nat) (hn : n < 2 ^ 64 - 1) :
    ∃ t', (writeGammaDefault t.checks n).run (BufW.impl e) t
        = .ok ((Spec.gamma e n).length, t') ∧
      RelC e t' { w with bits := w.bits ++ Spec.gamma e n } ∧ t.out <+: t'.out ∧
      t'.abs e = t.abs e ++ Spec.gamma e n :=
  writes_concrete' h hcap (gamma_writes e t.checks n hn)

theorem delta_write_concrete (n : Nat) (hn : n < 2 ^ 64 - 1) :
    ∃ t', (writeDeltaDefault t.checks none n).run (BufW.impl e) t
        = .ok ((Spec.delta e n).length, t') ∧
      RelC e t' { w with bits := w.bits ++ Spec.delta e n } ∧ t.out <+: t'.out ∧
      t'.abs e = t.abs e ++ Spec.delta e n :=
  writes_concrete' h hcap (delta_writes e t.checks n hn)

theorem omega_write_concrete (n : Nat) (hn : n < 2 ^ 64 - 1) :
    ∃ t', (writeOmega e t.checks n).run (BufW.impl e) t
        = .ok ((Spec.omega e n).length, t') ∧
      RelC e t' { w with bits := w.bits ++ Spec.omega e n } ∧ t.out <+: t'.out ∧
      t'.abs e = t.abs e ++ Spec.omega e n :=
  writes_concrete' h hcap (omega_writes e t.checks n hn)

theorem zeta_write_concrete (k n : Nat) (hk1 : 1 ≤ k) (hk : k ≤ 63) (hn : n < 2 ^ 64 - 1) :
    ∃ t', (writeZetaDefault n k).run (BufW.impl e) t
        = .ok ((Spec.zetaWrapped e k n).length, t') ∧
      RelC e t' { w with bits := w.bits ++ Spec.zetaWrapped e k n } ∧ t.out <+: t'.out ∧
      t'.abs e = t.abs e ++ Spec.zetaWrapped e k n :=
  writes_concrete' h hcap (zeta_writes e t.checks k n hk1 hk hn)

theorem pi_write_concrete (k n : Nat) (hk : k ≤ 63) (hn : n < 2 ^ 64 - 1) :
    ∃ t', (writePi t.checks n k).run (BufW.impl e) t
        = .ok ((Spec.pi e k n).length, t') ∧
      RelC e t' { w with bits := w.bits ++ Spec.pi e k n } ∧ t.out <+: t'.out ∧
      t'.abs e = t.abs e ++ Spec.pi e k n :=
  writes_concrete' h hcap (pi_writes e t.checks k n hk hn)

theorem rice_write_concrete (k n : Nat) (hk : k ≤ 63) (hq : n / 2 ^ k < 2 ^ 64 - 1) :
    ∃ t', (writeRice t.checks n k).run (BufW.impl e) t
        = .ok ((Spec.rice e k n).length, t') ∧
      RelC e t' { w with bits := w.bits ++ Spec.rice e k n } ∧ t.out <+: t'.out ∧
      t'.abs e = t.abs e ++ Spec.rice e k n :=
  writes_concrete' h hcap (rice_writes e t.checks k n hk hq)

theorem golomb_write_concrete (b n : Nat) (hb : 1 ≤ b) (hb64 : b < 2 ^ 64) (hq : n / b < 2 ^ 64 - 1) :
    ∃ t', (writeGolomb n b).run (BufW.impl e) t
        = .ok ((Spec.golomb e b n).length, t') ∧
      RelC e t' { w with bits := w.bits ++ Spec.golomb e b n } ∧ t.out <+: t'.out ∧
      t'.abs e = t.abs e ++ Spec.golomb e b n :=
  writes_concrete' h hcap (golomb_writes e t.checks b n hb hb64 hq)

theorem expGolomb_write_concrete (k n : Nat) (hk : k ≤ 63) (hn : n < 2 ^ 64) (hk0 : k = 0 → n < 2 ^ 64 - 1) :
    ∃ t', (writeExpGolomb t.checks none n k).run (BufW.impl e) t
        = .ok ((Spec.expGolomb e k n).length, t') ∧
      RelC e t' { w with bits := w.bits ++ Spec.expGolomb e k n } ∧ t.out <+: t'.out ∧
      t'.abs e = t.abs e ++ Spec.expGolomb e k n :=
  writes_concrete' h hcap (expGolomb_writes e t.checks k n hk hn hk0)

theorem minbin_write_concrete (x u : Nat) (hu : 1 ≤ u) (h64 : u < 2 ^ 64) (hx : x < u) :
    ∃ t', (writeMinimalBinary x u).run (BufW.impl e) t
        = .ok ((Spec.minimalBinary e x u).length, t') ∧
      RelC e t' { w with bits := w.bits ++ Spec.minimalBinary e x u } ∧ t.out <+: t'.out ∧
      t'.abs e = t.abs e ++ Spec.minimalBinary e x u :=
  writes_concrete' h hcap (minbin_writes e t.checks x u hu h64 hx)

theorem vbyte_be_write_concrete (v : Nat) (hv : v < 2 ^ 64) :
    ∃ t', (writeVByteBe v).run (BufW.impl e) t
        = .ok ((Spec.vbyte e true v).length, t') ∧
      RelC e t' { w with bits := w.bits ++ Spec.vbyte e true v } ∧ t.out <+: t'.out ∧
      t'.abs e = t.abs e ++ Spec.vbyte e true v :=
  writes_concrete' h hcap (vbyte_be_writes e t.checks v hv)

theorem vbyte_le_write_concrete (v : Nat) (hv : v < 2 ^ 64) :
    ∃ t', (writeVByteLe v).run (BufW.impl e) t
        = .ok ((Spec.vbyte e false v).length, t') ∧
      RelC e t' { w with bits := w.bits ++ Spec.vbyte e false v } ∧ t.out <+: t'.out ∧
      t'.abs e = t.abs e ++ Spec.vbyte e false v :=
  writes_concrete' h hcap (vbyte_le_writes e t.checks v hv)

/-- ζ_k in the range where the implemented code is the published one -/
theorem zeta_write_concrete_published (k n : Nat) (hk1 : 1 ≤ k) (hk : k ≤ 63) (hn : n < 2 ^ 64 - 1)
    (hpub : ((n + 1).log2 / k + 1) * k ≤ 64) :
    ∃ t', (writeZetaDefault n k).run (BufW.impl e) t = .ok ((Spec.zeta e k n).length, t') ∧
      RelC e t' { w with bits := w.bits ++ Spec.zeta e k n } ∧ t.out <+: t'.out ∧
      t'.abs e = t.abs e ++ Spec.zeta e k n := by
  rw [← zeta_published e k n hpub]
  exact zeta_write_concrete h hcap k n hk1 hk hn

/-- **C04 / C06 on the concrete writer, every code of the `Codes` enum at once**: the default
    trait method of the code `c` (`ownWrite`: the program every dispatcher ends up running, tables
    included) returns the length of the published codeword and appends exactly that codeword. -/
theorem code_write_concrete (c : CodeId) (v : Nat) (hd : c.Dom v) :
    ∃ cw t', c.codeword e v = some cw ∧
      (ownWrite e t.checks c v).run (BufW.impl e) t = .ok (cw.length, t') ∧
      RelC e t' { w with bits := w.bits ++ cw } ∧ t.out <+: t'.out ∧ t'.abs e = t.abs e ++ cw := by
  obtain ⟨cw, hcw, hwr⟩ := ownWrite_writes e t.checks c v hd
  obtain ⟨t', h1, h2, h3, h4⟩ := writes_concrete' h hcap hwr
  exact ⟨cw, t', hcw, h1, h2, h3, h4⟩

/-- the returned length is what the length function of the code computes (C06) -/
theorem code_write_concrete_len (c : CodeId) (v : Nat) (hd : c.Dom v) :
    ∃ t', (ownWrite e t.checks c v).run (BufW.impl e) t = .ok (ownLen c v, t') := by
  obtain ⟨cw, t', hcw, h1, _⟩ := code_write_concrete h hcap c v hd
  have := ownLen_codeword e c v hd
  rw [CodeId.codewordLen, hcw] at this
  have hl : cw.length = ownLen c v := Option.some.inj this
  rw [hl] at h1
  exact ⟨t', h1⟩

/-- aliases (`CodeId.equiv`) write the same bits on the concrete writer -/
theorem equiv_write_concrete {a b : CodeId} (hab : a.equiv b = true) (v : Nat) (hd : a.Dom v) :
    ResRel (SameW e) ((ownWrite e t.checks a v).run (BufW.impl e) t)
      ((ownWrite e t.checks b v).run (BufW.impl e) t) := by
  obtain ⟨cw, _, _, ha, hb⟩ := equiv_ownWrite hab e t.checks v hd
  exact wrun_eq_concrete h (writes_run_eq ha hb w h.1.2.1 hcap h.1.2.2.2.2.1)

end codeWrite

/-! ## 4. every code reader on the concrete readers (C03 / C06 / C07 at L3) -/

/-- a reference reader positioned at the start of `bits` is `RefR.at` -/
theorem refr_at_of_pos {e : Endian} {r : RefR} {pre bits post : List Bool} (he : r.e = e)
    (hst : r.stream = pre ++ bits ++ post) (hpos : r.pos = pre.length) :
    r = RefR.at e pre bits post r.strict r.peekMax := by
  obtain ⟨re, rs, rp, rst, rpm⟩ := r
  simp only at he hst hpos
  subst he hst hpos
  rfl

/-- **A program that decodes `bits` to `v` on the reference reader decodes it on the concrete
    buffered reader**, wherever the codeword lies in the stream (any alignment with respect to
    the words, the buffer in any fill state): it returns `v`, consumes exactly `bits.length` bits
    (`bitPos`), and the new state represents the reference reader moved past the codeword.
    `K` is the look-ahead the program needs (`0` for the table-free readers: `reads_concrete`). -/
theorem readsPM_concrete {α : Type} {e : Endian} (hW64 : e = .be → W ≤ 64) {K : Nat} {p : RProg α}
    {bits : List Bool} {v : α} (hr : ReadsPM K p e bits v) (hK : K ≤ W) (hpb : PeekBounded W 0 p)
    {s : BufR W} {r : RefR} (h : BufR.Rel e s r) {pre post : List Bool}
    (hst : r.stream = pre ++ bits ++ post) (hpos : r.pos = pre.length) :
    ∃ s', p.run (BufR.impl e) s = .ok (v, s') ∧ s'.bitPos = s.bitPos + bits.length ∧
      BufR.Rel e s' { r with pos := r.pos + bits.length } := by
  have hW : 1 ≤ W := Rel.pos_W h
  have hpm : r.peekMax = W := h.2.2.2.2.1
  have hat := refr_at_of_pos h.2.2.1 hst hpos
  have hsim : ResRel (fun a b => a.1 = b.1 ∧ BufR.Rel e a.2 b.2) (p.run (BufR.impl e) s)
      (p.run RefR.impl r) := ResRel.mono_rr (fun _ _ hab => hab) (rprog_sim hW64 p hpb h)
  have hrun : p.run RefR.impl r = .ok (v, RefR.after e pre bits post r.strict r.peekMax) := by
    have := hr pre post r.strict r.peekMax (by rw [hpm]; exact hK) (by rw [hpm]; exact hW)
    rw [← hat] at this
    exact this
  rw [hrun] at hsim
  obtain ⟨⟨v', s'⟩, h1, hv, hrel⟩ := ResRel.ok_right hsim
  have hv : v' = v := hv
  subst hv
  have hafter : RefR.after e pre bits post r.strict r.peekMax = { r with pos := r.pos + bits.length } := by
    rw [hat]; simp [RefR.at, RefR.after]
  have hrel' : BufR.Rel e s' (RefR.after e pre bits post r.strict r.peekMax) := hrel
  refine ⟨s', h1, ?_, hafter ▸ hrel'⟩
  rw [bitPos_eq hrel', bitPos_eq h, hpos]
  rfl

theorem reads_concrete {α : Type} {e : Endian} (hW64 : e = .be → W ≤ 64) {p : RProg α}
    {bits : List Bool} {v : α} (hr : Reads p e bits v) (hpb : PeekBounded W 0 p)
    {s : BufR W} {r : RefR} (h : BufR.Rel e s r) {pre post : List Bool}
    (hst : r.stream = pre ++ bits ++ post) (hpos : r.pos = pre.length) :
    ∃ s', p.run (BufR.impl e) s = .ok (v, s') ∧ s'.bitPos = s.bitPos + bits.length ∧
      BufR.Rel e s' { r with pos := r.pos + bits.length } :=
  readsPM_concrete hW64 (hr.toPM 0) (Nat.zero_le _) hpb h hst hpos

/-- the same on the unbuffered reader `BitR` (look-ahead at most 32 bits; a program that skips
    needs a zero-extended backend) -/
theorem readsPM_concrete_bitr {α : Type} {e : Endian} {K : Nat} {p : RProg α} {bits : List Bool}
    {v : α} (hr : ReadsPM K p e bits v) (hK : K ≤ 32) (hok : BitR.ProgOK 0 p) {s : BitR} {r : RefR}
    (hskip : BitR.NoSkip p ∨ r.strict = false) (h : BitR.Rel' e s r) {pre post : List Bool}
    (hst : r.stream = pre ++ bits ++ post) (hpos : r.pos = pre.length) :
    ∃ s', p.run (BitR.impl e) s = .ok (v, s') ∧ s'.bitPos = s.bitPos + bits.length ∧
      BitR.Rel' e s' { r with pos := r.pos + bits.length } := by
  have hpm : r.peekMax = 32 := h.1.2.2.1
  have hat := refr_at_of_pos h.1.1 hst hpos
  have hne : BitR.NoEofSkip p r := by
    rcases hskip with h1 | h1
    · exact noEofSkip_of_noSkip p h1 _
    · exact noEofSkip_of_nonstrict p _ h1
  have hsim : ResRel (fun a b => a.1 = b.1 ∧ BitR.Rel' e a.2 b.2) (p.run (BitR.impl e) s)
      (p.run RefR.impl r) := ResRel.mono_rr (fun _ _ hab => hab) (bitr_rprog_sim p hok h hne)
  have hrun : p.run RefR.impl r = .ok (v, RefR.after e pre bits post r.strict r.peekMax) := by
    have := hr pre post r.strict r.peekMax (by rw [hpm]; exact hK) (by rw [hpm]; decide)
    rw [← hat] at this
    exact this
  rw [hrun] at hsim
  obtain ⟨⟨v', s'⟩, h1, hv, hrel⟩ := ResRel.ok_right hsim
  have hv : v' = v := hv
  subst hv
  have hafter : RefR.after e pre bits post r.strict r.peekMax = { r with pos := r.pos + bits.length } := by
    rw [hat]; simp [RefR.at, RefR.after]
  have hrel' : BitR.Rel' e s' (RefR.after e pre bits post r.strict r.peekMax) := hrel
  refine ⟨s', h1, ?_, hafter ▸ hrel'⟩
  rw [bitr_bitPos hrel'.1, bitr_bitPos h.1, hpos]
  rfl

theorem reads_concrete_bitr {α : Type} {e : Endian} {p : RProg α} {bits : List Bool}
    {v : α} (hr : Reads p e bits v) (hok : BitR.ProgOK 0 p) {s : BitR} {r : RefR}
    (hskip : BitR.NoSkip p ∨ r.strict = false) (h : BitR.Rel' e s r) {pre post : List Bool}
    (hst : r.stream = pre ++ bits ++ post) (hpos : r.pos = pre.length) :
    ∃ s', p.run (BitR.impl e) s = .ok (v, s') ∧ s'.bitPos = s.bitPos + bits.length ∧
      BitR.Rel' e s' { r with pos := r.pos + bits.length } :=
  readsPM_concrete_bitr (hr.toPM 0) (Nat.zero_le _) hok hskip h hst hpos

/-- both readers at once, from the packed side conditions -/
theorem rside_concrete {α : Type} {e : Endian} {K : Nat} {p : RProg α} {bits : List Bool} {v : α}
    (hs : RSide K p) (hr : ReadsPM K p e bits v) :
    (∀ {W : Nat} (_ : e = .be → W ≤ 64) (_ : K ≤ W) {s : BufR W} {r : RefR} (_ : BufR.Rel e s r)
        {pre post : List Bool} (_ : r.stream = pre ++ bits ++ post) (_ : r.pos = pre.length),
      ∃ s', p.run (BufR.impl e) s = .ok (v, s') ∧ s'.bitPos = s.bitPos + bits.length ∧
        BufR.Rel e s' { r with pos := r.pos + bits.length }) ∧
    (K ≤ 32 → ∀ {s : BitR} {r : RefR} (_ : BitR.Rel' e s r) {pre post : List Bool}
        (_ : r.stream = pre ++ bits ++ post) (_ : r.pos = pre.length),
      ∃ s', p.run (BitR.impl e) s = .ok (v, s') ∧ s'.bitPos = s.bitPos + bits.length ∧
        BitR.Rel' e s' { r with pos := r.pos + bits.length }) :=
  ⟨fun hW64 hK _ _ h _ _ hst hpos => readsPM_concrete hW64 hr hK (hs.pb _ hK) h hst hpos,
   fun hK _ _ h _ _ hst hpos => readsPM_concrete_bitr hr hK (hs.ok hK) (Or.inl hs.ns) h hst hpos⟩

/-! ### the table-free code readers on the buffered reader: any word size, any alignment -/

section codeReadBuf
variable {e : Endian} (hW64 : e = .be → W ≤ 64) {s : BufR W} {r : RefR} (h : BufR.Rel e s r)
  {pre post : List Bool}
include hW64 h

theorem unary_read_concrete (x : Nat)
    (hst : r.stream = pre ++ Spec.unary x ++ post) (hpos : r.pos = pre.length) :
    ∃ s', (readUnaryC).run (BufR.impl e) s = .ok (x, s') ∧
      s'.bitPos = s.bitPos + (Spec.unary x).length ∧
      BufR.Rel e s' { r with pos := r.pos + (Spec.unary x).length } :=
  reads_concrete hW64 (unary_reads e x) ((simple_unary).peekBounded W _ 0) h hst hpos

theorem gamma_read_concrete (n : Nat) (hn : n < 2 ^ 64 - 1)
    (hst : r.stream = pre ++ Spec.gamma e n ++ post) (hpos : r.pos = pre.length) :
    ∃ s', (readGammaDefault).run (BufR.impl e) s = .ok (n, s') ∧
      s'.bitPos = s.bitPos + (Spec.gamma e n).length ∧
      BufR.Rel e s' { r with pos := r.pos + (Spec.gamma e n).length } :=
  reads_concrete hW64 (gamma_reads e n hn) ((simple_gamma).peekBounded W _ 0) h hst hpos

theorem delta_read_concrete (n : Nat) (hn : n < 2 ^ 64 - 1)
    (hst : r.stream = pre ++ Spec.delta e n ++ post) (hpos : r.pos = pre.length) :
    ∃ s', (readDeltaDefault none).run (BufR.impl e) s = .ok (n, s') ∧
      s'.bitPos = s.bitPos + (Spec.delta e n).length ∧
      BufR.Rel e s' { r with pos := r.pos + (Spec.delta e n).length } :=
  reads_concrete hW64 (delta_reads e n hn) ((simple_delta).peekBounded W _ 0) h hst hpos

theorem zeta_read_concrete (k n : Nat) (hk1 : 1 ≤ k) (hk : k ≤ 63) (hn : n < 2 ^ 64 - 1)
    (hst : r.stream = pre ++ Spec.zetaWrapped e k n ++ post) (hpos : r.pos = pre.length) :
    ∃ s', (readZetaDefault k).run (BufR.impl e) s = .ok (n, s') ∧
      s'.bitPos = s.bitPos + (Spec.zetaWrapped e k n).length ∧
      BufR.Rel e s' { r with pos := r.pos + (Spec.zetaWrapped e k n).length } :=
  reads_concrete hW64 (zeta_reads e k n hk1 hk hn) ((simple_zeta k).peekBounded W _ 0) h hst hpos

theorem pi_read_concrete (k n : Nat) (hk : k ≤ 63) (hn : n < 2 ^ 64 - 1)
    (hst : r.stream = pre ++ Spec.pi e k n ++ post) (hpos : r.pos = pre.length) :
    ∃ s', (readPi k).run (BufR.impl e) s = .ok (n, s') ∧
      s'.bitPos = s.bitPos + (Spec.pi e k n).length ∧
      BufR.Rel e s' { r with pos := r.pos + (Spec.pi e k n).length } :=
  reads_concrete hW64 (pi_reads e k n hk hn) ((simple_pi k).peekBounded W _ 0) h hst hpos

theorem rice_read_concrete (k n : Nat) (hk : k ≤ 63) (hn : n < 2 ^ 64)
    (hst : r.stream = pre ++ Spec.rice e k n ++ post) (hpos : r.pos = pre.length) :
    ∃ s', (readRice k).run (BufR.impl e) s = .ok (n, s') ∧
      s'.bitPos = s.bitPos + (Spec.rice e k n).length ∧
      BufR.Rel e s' { r with pos := r.pos + (Spec.rice e k n).length } :=
  reads_concrete hW64 (rice_reads e k n hk hn) ((simple_rice k).peekBounded W _ 0) h hst hpos

theorem golomb_read_concrete (b n : Nat) (hb : 1 ≤ b) (hb64 : b < 2 ^ 64) (hn : n < 2 ^ 64)
    (hst : r.stream = pre ++ Spec.golomb e b n ++ post) (hpos : r.pos = pre.length) :
    ∃ s', (readGolomb b).run (BufR.impl e) s = .ok (n, s') ∧
      s'.bitPos = s.bitPos + (Spec.golomb e b n).length ∧
      BufR.Rel e s' { r with pos := r.pos + (Spec.golomb e b n).length } :=
  reads_concrete hW64 (golomb_reads e b n hb hb64 hn) ((simple_golomb hb64).peekBounded W _ 0) h hst hpos

theorem expGolomb_read_concrete (k n : Nat) (hk : k ≤ 63) (hn : n < 2 ^ 64) (hk0 : k = 0 → n < 2 ^ 64 - 1)
    (hst : r.stream = pre ++ Spec.expGolomb e k n ++ post) (hpos : r.pos = pre.length) :
    ∃ s', (readExpGolomb none k).run (BufR.impl e) s = .ok (n, s') ∧
      s'.bitPos = s.bitPos + (Spec.expGolomb e k n).length ∧
      BufR.Rel e s' { r with pos := r.pos + (Spec.expGolomb e k n).length } :=
  reads_concrete hW64 (expGolomb_reads e k n hk hn hk0) ((simple_expGolomb k).peekBounded W _ 0) h hst hpos

theorem minbin_read_concrete (x u : Nat) (hu : 1 ≤ u) (h64 : u < 2 ^ 64) (hx : x < u)
    (hst : r.stream = pre ++ Spec.minimalBinary e x u ++ post) (hpos : r.pos = pre.length) :
    ∃ s', (readMinimalBinary u).run (BufR.impl e) s = .ok (x, s') ∧
      s'.bitPos = s.bitPos + (Spec.minimalBinary e x u).length ∧
      BufR.Rel e s' { r with pos := r.pos + (Spec.minimalBinary e x u).length } :=
  reads_concrete hW64 (minbin_reads e x u hu h64 hx) ((simple_minbin h64).peekBounded W _ 0) h hst hpos

theorem vbyte_be_read_concrete (fuel v : Nat) (hf : 10 ≤ fuel) (hv : v < 2 ^ 64)
    (hst : r.stream = pre ++ Spec.vbyte e true v ++ post) (hpos : r.pos = pre.length) :
    ∃ s', (readVByteBe fuel).run (BufR.impl e) s = .ok (v, s') ∧
      s'.bitPos = s.bitPos + (Spec.vbyte e true v).length ∧
      BufR.Rel e s' { r with pos := r.pos + (Spec.vbyte e true v).length } :=
  reads_concrete hW64 (vbyte_be_reads e fuel v hf hv) ((simple_vbyteBe fuel).peekBounded W _ 0) h hst hpos

theorem vbyte_le_read_concrete (fuel v : Nat) (hf : 10 ≤ fuel) (hv : v < 2 ^ 64)
    (hst : r.stream = pre ++ Spec.vbyte e false v ++ post) (hpos : r.pos = pre.length) :
    ∃ s', (readVByteLe fuel).run (BufR.impl e) s = .ok (v, s') ∧
      s'.bitPos = s.bitPos + (Spec.vbyte e false v).length ∧
      BufR.Rel e s' { r with pos := r.pos + (Spec.vbyte e false v).length } :=
  reads_concrete hW64 (vbyte_le_reads e fuel v hf hv) ((simple_vbyteLe fuel).peekBounded W _ 0) h hst hpos

/-- ω looks one bit ahead (`1 ≤ W` always holds) -/
theorem omega_read_concrete (n : Nat) (hn : n < 2 ^ 64 - 1)
    (hst : r.stream = pre ++ Spec.omega e n ++ post) (hpos : r.pos = pre.length) :
    ∃ s', (readOmega e).run (BufR.impl e) s = .ok (n, s') ∧
      s'.bitPos = s.bitPos + (Spec.omega e n).length ∧
      BufR.Rel e s' { r with pos := r.pos + (Spec.omega e n).length } :=
  reads_concrete hW64 (omega_reads e n hn) (pb_omega e (Rel.pos_W h)) h hst hpos

/-- ζ_k in the range where the implemented code is the published one -/
theorem zeta_read_concrete_published (k n : Nat) (hk1 : 1 ≤ k) (hk : k ≤ 63) (hn : n < 2 ^ 64 - 1)
    (hpub : ((n + 1).log2 / k + 1) * k ≤ 64)
    (hst : r.stream = pre ++ Spec.zeta e k n ++ post) (hpos : r.pos = pre.length) :
    ∃ s', (readZetaDefault k).run (BufR.impl e) s = .ok (n, s') ∧
      s'.bitPos = s.bitPos + (Spec.zeta e k n).length ∧
      BufR.Rel e s' { r with pos := r.pos + (Spec.zeta e k n).length } := by
  rw [← zeta_published e k n hpub] at hst ⊢
  exact zeta_read_concrete hW64 h k n hk1 hk hn hst hpos

/-- **C03 / C07 on the concrete buffered reader, every code of the `Codes` enum at once**: the
    default trait method of the code `c` (`ownRead`: the program every dispatcher ends up running,
    tables included), started at the first bit of the published codeword of `v`, returns `v` and
    consumes exactly the codeword.  `W ≥ 12` covers the look-ahead of the tables. -/
theorem code_read_concrete (hW : tablePeek ≤ W) (c : CodeId) (v : Nat) (hd : c.Dom v) {cw : List Bool}
    (hcw : c.codeword e v = some cw) (hst : r.stream = pre ++ cw ++ post)
    (hpos : r.pos = pre.length) :
    ∃ s', (ownRead e c).run (BufR.impl e) s = .ok (v, s') ∧ s'.bitPos = s.bitPos + cw.length ∧
      BufR.Rel e s' { r with pos := r.pos + cw.length } := by
  obtain ⟨cw', hcw', hrd⟩ := ownRead_reads e c v hd
  rw [hcw] at hcw'
  have : cw' = cw := (Option.some.inj hcw').symm
  subst this
  exact readsPM_concrete hW64 hrd hW ((rside_ownRead e c hd).pb W hW) h hst hpos

/-- aliases (`CodeId.equiv`) decode each other's codewords on the concrete reader: same value,
    same abstract state -/
theorem equiv_read_concrete (hW : tablePeek ≤ W) {a b : CodeId} (hab : a.equiv b = true) (v : Nat)
    (hd : a.Dom v) {cw : List Bool} (hcw : a.codeword e v = some cw)
    (hst : r.stream = pre ++ cw ++ post) (hpos : r.pos = pre.length) :
    ∃ s1 s2, (ownRead e a).run (BufR.impl e) s = .ok (v, s1) ∧
      (ownRead e b).run (BufR.impl e) s = .ok (v, s2) ∧ SameR e (v, s1) (v, s2) := by
  obtain ⟨s1, h1, _, hr1⟩ := code_read_concrete hW64 h hW a v hd hcw hst hpos
  have hcwb : b.codeword e v = some cw := by rw [← equiv_codewords hab e v]; exact hcw
  obtain ⟨s2, h2, _, hr2⟩ :=
    code_read_concrete hW64 h hW b v ((equiv_dom hab v).1 hd) hcwb hst hpos
  exact ⟨s1, s2, h1, h2, rfl, _, hr1, hr2⟩

end codeReadBuf

/-! ### the same on the unbuffered reader `BitR` -/

section codeReadBitR
variable {e : Endian} {s : BitR} {r : RefR} (h : BitR.Rel' e s r) {pre post : List Bool}
include h

theorem unary_read_bitr (x : Nat)
    (hst : r.stream = pre ++ Spec.unary x ++ post) (hpos : r.pos = pre.length) :
    ∃ s', (readUnaryC).run (BitR.impl e) s = .ok (x, s') ∧
      s'.bitPos = s.bitPos + (Spec.unary x).length ∧
      BitR.Rel' e s' { r with pos := r.pos + (Spec.unary x).length } :=
  reads_concrete_bitr (unary_reads e x) ((simple_unary).progOK _ 0)
    (Or.inl ((simple_unary).noSkip _)) h hst hpos

theorem gamma_read_bitr (n : Nat) (hn : n < 2 ^ 64 - 1)
    (hst : r.stream = pre ++ Spec.gamma e n ++ post) (hpos : r.pos = pre.length) :
    ∃ s', (readGammaDefault).run (BitR.impl e) s = .ok (n, s') ∧
      s'.bitPos = s.bitPos + (Spec.gamma e n).length ∧
      BitR.Rel' e s' { r with pos := r.pos + (Spec.gamma e n).length } :=
  reads_concrete_bitr (gamma_reads e n hn) ((simple_gamma).progOK _ 0)
    (Or.inl ((simple_gamma).noSkip _)) h hst hpos

theorem delta_read_bitr (n : Nat) (hn : n < 2 ^ 64 - 1)
    (hst : r.stream = pre ++ Spec.delta e n ++ post) (hpos : r.pos = pre.length) :
    ∃ s', (readDeltaDefault none).run (BitR.impl e) s = .ok (n, s') ∧
      s'.bitPos = s.bitPos + (Spec.delta e n).length ∧
      BitR.Rel' e s' { r with pos := r.pos + (Spec.delta e n).length } :=
  reads_concrete_bitr (delta_reads e n hn) ((simple_delta).progOK _ 0)
    (Or.inl ((simple_delta).noSkip _)) h hst hpos

theorem zeta_read_bitr (k n : Nat) (hk1 : 1 ≤ k) (hk : k ≤ 63) (hn : n < 2 ^ 64 - 1)
    (hst : r.stream = pre ++ Spec.zetaWrapped e k n ++ post) (hpos : r.pos = pre.length) :
    ∃ s', (readZetaDefault k).run (BitR.impl e) s = .ok (n, s') ∧
      s'.bitPos = s.bitPos + (Spec.zetaWrapped e k n).length ∧
      BitR.Rel' e s' { r with pos := r.pos + (Spec.zetaWrapped e k n).length } :=
  reads_concrete_bitr (zeta_reads e k n hk1 hk hn) ((simple_zeta k).progOK _ 0)
    (Or.inl ((simple_zeta k).noSkip _)) h hst hpos

theorem pi_read_bitr (k n : Nat) (hk : k ≤ 63) (hn : n < 2 ^ 64 - 1)
    (hst : r.stream = pre ++ Spec.pi e k n ++ post) (hpos : r.pos = pre.length) :
    ∃ s', (readPi k).run (BitR.impl e) s = .ok (n, s') ∧
      s'.bitPos = s.bitPos + (Spec.pi e k n).length ∧
      BitR.Rel' e s' { r with pos := r.pos + (Spec.pi e k n).length } :=
  reads_concrete_bitr (pi_reads e k n hk hn) ((simple_pi k).progOK _ 0)
    (Or.inl ((simple_pi k).noSkip _)) h hst hpos

theorem rice_read_bitr (k n : Nat) (hk : k ≤ 63) (hn : n < 2 ^ 64)
    (hst : r.stream = pre ++ Spec.rice e k n ++ post) (hpos : r.pos = pre.length) :
    ∃ s', (readRice k).run (BitR.impl e) s = .ok (n, s') ∧
      s'.bitPos = s.bitPos + (Spec.rice e k n).length ∧
      BitR.Rel' e s' { r with pos := r.pos + (Spec.rice e k n).length } :=
  reads_concrete_bitr (rice_reads e k n hk hn) ((simple_rice k).progOK _ 0)
    (Or.inl ((simple_rice k).noSkip _)) h hst hpos

theorem golomb_read_bitr (b n : Nat) (hb : 1 ≤ b) (hb64 : b < 2 ^ 64) (hn : n < 2 ^ 64)
    (hst : r.stream = pre ++ Spec.golomb e b n ++ post) (hpos : r.pos = pre.length) :
    ∃ s', (readGolomb b).run (BitR.impl e) s = .ok (n, s') ∧
      s'.bitPos = s.bitPos + (Spec.golomb e b n).length ∧
      BitR.Rel' e s' { r with pos := r.pos + (Spec.golomb e b n).length } :=
  reads_concrete_bitr (golomb_reads e b n hb hb64 hn) ((simple_golomb hb64).progOK _ 0)
    (Or.inl ((simple_golomb hb64).noSkip _)) h hst hpos

theorem expGolomb_read_bitr (k n : Nat) (hk : k ≤ 63) (hn : n < 2 ^ 64) (hk0 : k = 0 → n < 2 ^ 64 - 1)
    (hst : r.stream = pre ++ Spec.expGolomb e k n ++ post) (hpos : r.pos = pre.length) :
    ∃ s', (readExpGolomb none k).run (BitR.impl e) s = .ok (n, s') ∧
      s'.bitPos = s.bitPos + (Spec.expGolomb e k n).length ∧
      BitR.Rel' e s' { r with pos := r.pos + (Spec.expGolomb e k n).length } :=
  reads_concrete_bitr (expGolomb_reads e k n hk hn hk0) ((simple_expGolomb k).progOK _ 0)
    (Or.inl ((simple_expGolomb k).noSkip _)) h hst hpos

theorem minbin_read_bitr (x u : Nat) (hu : 1 ≤ u) (h64 : u < 2 ^ 64) (hx : x < u)
    (hst : r.stream = pre ++ Spec.minimalBinary e x u ++ post) (hpos : r.pos = pre.length) :
    ∃ s', (readMinimalBinary u).run (BitR.impl e) s = .ok (x, s') ∧
      s'.bitPos = s.bitPos + (Spec.minimalBinary e x u).length ∧
      BitR.Rel' e s' { r with pos := r.pos + (Spec.minimalBinary e x u).length } :=
  reads_concrete_bitr (minbin_reads e x u hu h64 hx) ((simple_minbin h64).progOK _ 0)
    (Or.inl ((simple_minbin h64).noSkip _)) h hst hpos

theorem vbyte_be_read_bitr (fuel v : Nat) (hf : 10 ≤ fuel) (hv : v < 2 ^ 64)
    (hst : r.stream = pre ++ Spec.vbyte e true v ++ post) (hpos : r.pos = pre.length) :
    ∃ s', (readVByteBe fuel).run (BitR.impl e) s = .ok (v, s') ∧
      s'.bitPos = s.bitPos + (Spec.vbyte e true v).length ∧
      BitR.Rel' e s' { r with pos := r.pos + (Spec.vbyte e true v).length } :=
  reads_concrete_bitr (vbyte_be_reads e fuel v hf hv) ((simple_vbyteBe fuel).progOK _ 0)
    (Or.inl ((simple_vbyteBe fuel).noSkip _)) h hst hpos

theorem vbyte_le_read_bitr (fuel v : Nat) (hf : 10 ≤ fuel) (hv : v < 2 ^ 64)
    (hst : r.stream = pre ++ Spec.vbyte e false v ++ post) (hpos : r.pos = pre.length) :
    ∃ s', (readVByteLe fuel).run (BitR.impl e) s = .ok (v, s') ∧
      s'.bitPos = s.bitPos + (Spec.vbyte e false v).length ∧
      BitR.Rel' e s' { r with pos := r.pos + (Spec.vbyte e false v).length } :=
  reads_concrete_bitr (vbyte_le_reads e fuel v hf hv) ((simple_vbyteLe fuel).progOK _ 0)
    (Or.inl ((simple_vbyteLe fuel).noSkip _)) h hst hpos

theorem omega_read_bitr (n : Nat) (hn : n < 2 ^ 64 - 1)
    (hst : r.stream = pre ++ Spec.omega e n ++ post) (hpos : r.pos = pre.length) :
    ∃ s', (readOmega e).run (BitR.impl e) s = .ok (n, s') ∧
      s'.bitPos = s.bitPos + (Spec.omega e n).length ∧
      BitR.Rel' e s' { r with pos := r.pos + (Spec.omega e n).length } :=
  reads_concrete_bitr (omega_reads e n hn) (ok_omega e) (Or.inl (ns_omega e)) h hst hpos

/-- **every code of the `Codes` enum on the unbuffered reader** (its 32-bit look-ahead covers the
    tables) -/
theorem code_read_bitr (c : CodeId) (v : Nat) (hd : c.Dom v) {cw : List Bool}
    (hcw : c.codeword e v = some cw) (hst : r.stream = pre ++ cw ++ post)
    (hpos : r.pos = pre.length) :
    ∃ s', (ownRead e c).run (BitR.impl e) s = .ok (v, s') ∧ s'.bitPos = s.bitPos + cw.length ∧
      BitR.Rel' e s' { r with pos := r.pos + cw.length } := by
  obtain ⟨cw', hcw', hrd⟩ := ownRead_reads e c v hd
  rw [hcw] at hcw'
  have : cw' = cw := (Option.some.inj hcw').symm
  subst this
  have hs := rside_ownRead e c hd
  exact readsPM_concrete_bitr hrd tablePeek_le_32 (hs.ok tablePeek_le_32) (Or.inl hs.ns) h hst hpos

end codeReadBitR

/-! ## 5. the dispatchers on the concrete machines (C10 at L3) -/

/-- the program selected by a dispatcher arm that means the wanted code (`semOk`, established for
    every arm by `dispatch_const_ok` / `dispatch_codes_ok` / `dispatch_func_ok`) appends the wanted
    code's codeword on the concrete writer -/
theorem dispatch_write_concrete {e : Endian} {t : BufW W} {w : RefW} (h : RelC e t w)
    (hcap : w.cap = none) (call : Call) (bound : Option Nat) (want : CodeId) (v : Nat)
    (p : WProg Nat) (hok : semOk .write call bound want = true)
    (hp : callWrite e t.checks call bound v = some p) (hd : want.Dom v) :
    ∃ cw t', want.codeword e v = some cw ∧ p.run (BufW.impl e) t = .ok (cw.length, t') ∧
      RelC e t' { w with bits := w.bits ++ cw } ∧ t.out <+: t'.out ∧ t'.abs e = t.abs e ++ cw := by
  obtain ⟨cw, hcw, hwr⟩ := dispatch_write_performs e t.checks call bound want v p hok hp hd
  obtain ⟨t', h1, h2, h3, h4⟩ := writes_concrete' h hcap hwr
  exact ⟨cw, t', hcw, h1, h2, h3, h4⟩

/-- … and decodes it on the concrete buffered reader -/
theorem dispatch_read_concrete {e : Endian} (hW64 : e = .be → W ≤ 64) (hW : tablePeek ≤ W)
    {s : BufR W} {r : RefR} (h : BufR.Rel e s r) (call : Call) (bound : Option Nat) (want : CodeId)
    (v : Nat) (p : RProg Nat) (hok : semOk .read call bound want = true)
    (hp : callRead e call bound = some p) (hd : want.Dom v) {cw pre post : List Bool}
    (hcw : want.codeword e v = some cw) (hst : r.stream = pre ++ cw ++ post)
    (hpos : r.pos = pre.length) :
    ∃ s', p.run (BufR.impl e) s = .ok (v, s') ∧ s'.bitPos = s.bitPos + cw.length ∧
      BufR.Rel e s' { r with pos := r.pos + cw.length } := by
  obtain ⟨cw', hcw', hrd⟩ := dispatch_read_performs e call bound want v p hok hp hd
  rw [hcw] at hcw'
  have : cw' = cw := (Option.some.inj hcw').symm
  subst this
  exact readsPM_concrete hW64 hrd hW ((rside_callRead e call bound hp hok hd).pb W hW) h hst hpos

/-! ## 6. round trips on the concrete machines (C03 at L3) for every code

`RoundTripsFramed e Ww Wr checks strict wc rc len v a na b nb` (`Props/EndToEnd`): a fresh concrete
writer of word size `Ww` accepts `[a : na bits] wc [b : nb bits]` and the flush; the buffered
reader of word size `Wr` built on the delivered bytes reads back `a`, then `rc` returns `v`, then
`b`, and ends at `na + len + nb`. -/

section roundTrip
variable (e : Endian) {Ww Wr : Nat} (hWw : 0 < Ww) (h8w : 8 ∣ Ww) (hWr : 0 < Wr) (h8r : 8 ∣ Wr)
  (hW64 : e = .be → Wr ≤ 64) (checks strict : Bool) (a na b nb : Nat) (hna : na ≤ 64) (hnb : nb ≤ 64)
  (ha : checks = false ∨ a % 2 ^ 64 < 2 ^ na) (hb : checks = false ∨ b % 2 ^ 64 < 2 ^ nb)
include hWw h8w hna hnb ha hb

section buffered
include hWr h8r hW64

/-- **every code of the `Codes` enum, default methods (tables included)**, reader word size
    covering the tables -/
theorem e2e_code (hW12 : tablePeek ≤ Wr) (c : CodeId) (v : Nat) (hd : c.Dom v) :
    ∃ cw, c.codeword e v = some cw ∧
      RoundTripsFramed e Ww Wr checks strict (ownWrite e checks c v) (ownRead e c) cw.length v
        a na b nb := by
  obtain ⟨cw, hcw, hwr⟩ := ownWrite_writes e checks c v hd
  obtain ⟨cw', hcw', hrd⟩ := ownRead_reads e c v hd
  rw [hcw] at hcw'
  have : cw' = cw := (Option.some.inj hcw').symm
  subst this
  exact ⟨cw', hcw, e2e_framed_pm e hWw h8w hWr h8r hW64 checks strict hwr hrd hW12
    ((rside_ownRead e c hd).pb Wr hW12) a na b nb hna hnb ha hb⟩

/-- **through an alias**: what the writer of `c₁` delivers, the reader of any `c₂` with
    `c₁.equiv c₂` decodes (ζ₁ / γ / π₀ / exp-Golomb₀, Rice₀ / Golomb₁ / unary, Golomb_{2^j} / Rice_j) -/
theorem e2e_equiv (hW12 : tablePeek ≤ Wr) {c₁ c₂ : CodeId} (heq : c₁.equiv c₂ = true) (v : Nat)
    (hd : c₁.Dom v) :
    ∃ cw, c₁.codeword e v = some cw ∧ c₂.codeword e v = some cw ∧
      RoundTripsFramed e Ww Wr checks strict (ownWrite e checks c₁ v) (ownRead e c₂) cw.length v
        a na b nb := by
  obtain ⟨cw, hcw, hwr⟩ := ownWrite_writes e checks c₁ v hd
  have hd2 := (equiv_dom heq v).1 hd
  obtain ⟨cw', hcw', hrd⟩ := ownRead_reads e c₂ v hd2
  have hcw2 : c₂.codeword e v = some cw := by rw [← equiv_codewords heq e v]; exact hcw
  rw [hcw2] at hcw'
  have : cw' = cw := (Option.some.inj hcw').symm
  subst this
  exact ⟨cw', hcw, hcw2, e2e_framed_pm e hWw h8w hWr h8r hW64 checks strict hwr hrd hW12
    ((rside_ownRead e c₂ hd2).pb Wr hW12) a na b nb hna hnb ha hb⟩

/-! the codes not covered in `Props/EndToEnd` (table-free programs: any reader word size) -/

theorem e2e_unary (x : Nat) (hx : x < 2 ^ 64 - 1) :
    RoundTripsFramed e Ww Wr checks strict (writeUnaryC x) (readUnaryC)
      (Spec.unary x).length x a na b nb :=
  e2e_framed e hWw h8w hWr h8r hW64 checks strict (unary_writes e checks x hx) (unary_reads e x)
    ((simple_unary).peekBounded Wr _ 0) a na b nb hna hnb ha hb

theorem e2e_pi (k n : Nat) (hk : k ≤ 63) (hn : n < 2 ^ 64 - 1) :
    RoundTripsFramed e Ww Wr checks strict (writePi checks n k) (readPi k)
      (Spec.pi e k n).length n a na b nb :=
  e2e_framed e hWw h8w hWr h8r hW64 checks strict (pi_writes e checks k n hk hn) (pi_reads e k n hk hn)
    ((simple_pi k).peekBounded Wr _ 0) a na b nb hna hnb ha hb

theorem e2e_rice (k n : Nat) (hk : k ≤ 63) (hn : n < 2 ^ 64) (hq : n / 2 ^ k < 2 ^ 64 - 1) :
    RoundTripsFramed e Ww Wr checks strict (writeRice checks n k) (readRice k)
      (Spec.rice e k n).length n a na b nb :=
  e2e_framed e hWw h8w hWr h8r hW64 checks strict (rice_writes e checks k n hk hq) (rice_reads e k n hk hn)
    ((simple_rice k).peekBounded Wr _ 0) a na b nb hna hnb ha hb

theorem e2e_golomb (g n : Nat) (hg : 1 ≤ g) (hg64 : g < 2 ^ 64) (hn : n < 2 ^ 64) (hq : n / g < 2 ^ 64 - 1) :
    RoundTripsFramed e Ww Wr checks strict (writeGolomb n g) (readGolomb g)
      (Spec.golomb e g n).length n a na b nb :=
  e2e_framed e hWw h8w hWr h8r hW64 checks strict (golomb_writes e checks g n hg hg64 hq) (golomb_reads e g n hg hg64 hn)
    ((simple_golomb hg64).peekBounded Wr _ 0) a na b nb hna hnb ha hb

theorem e2e_expGolomb (k n : Nat) (hk : k ≤ 63) (hn : n < 2 ^ 64) (hk0 : k = 0 → n < 2 ^ 64 - 1) :
    RoundTripsFramed e Ww Wr checks strict (writeExpGolomb checks none n k) (readExpGolomb none k)
      (Spec.expGolomb e k n).length n a na b nb :=
  e2e_framed e hWw h8w hWr h8r hW64 checks strict (expGolomb_writes e checks k n hk hn hk0) (expGolomb_reads e k n hk hn hk0)
    ((simple_expGolomb k).peekBounded Wr _ 0) a na b nb hna hnb ha hb

theorem e2e_minbin (x u : Nat) (hu : 1 ≤ u) (h64 : u < 2 ^ 64) (hx : x < u) :
    RoundTripsFramed e Ww Wr checks strict (writeMinimalBinary x u) (readMinimalBinary u)
      (Spec.minimalBinary e x u).length x a na b nb :=
  e2e_framed e hWw h8w hWr h8r hW64 checks strict (minbin_writes e checks x u hu h64 hx) (minbin_reads e x u hu h64 hx)
    ((simple_minbin h64).peekBounded Wr _ 0) a na b nb hna hnb ha hb

theorem e2e_vbyte_be (fuel v : Nat) (hf : 10 ≤ fuel) (hv : v < 2 ^ 64) :
    RoundTripsFramed e Ww Wr checks strict (writeVByteBe v) (readVByteBe fuel)
      (Spec.vbyte e true v).length v a na b nb :=
  e2e_framed e hWw h8w hWr h8r hW64 checks strict (vbyte_be_writes e checks v hv) (vbyte_be_reads e fuel v hf hv)
    ((simple_vbyteBe fuel).peekBounded Wr _ 0) a na b nb hna hnb ha hb

theorem e2e_vbyte_le (fuel v : Nat) (hf : 10 ≤ fuel) (hv : v < 2 ^ 64) :
    RoundTripsFramed e Ww Wr checks strict (writeVByteLe v) (readVByteLe fuel)
      (Spec.vbyte e false v).length v a na b nb :=
  e2e_framed e hWw h8w hWr h8r hW64 checks strict (vbyte_le_writes e checks v hv) (vbyte_le_reads e fuel v hf hv)
    ((simple_vbyteLe fuel).peekBounded Wr _ 0) a na b nb hna hnb ha hb

end buffered

/-- every code of the `Codes` enum with the unbuffered reader -/
theorem e2e_code_bitr (c : CodeId) (v : Nat) (hd : c.Dom v) :
    ∃ cw, c.codeword e v = some cw ∧
      RoundTripsFramedBitR e Ww checks strict (ownWrite e checks c v) (ownRead e c) cw.length v
        a na b nb := by
  obtain ⟨cw, hcw, hwr⟩ := ownWrite_writes e checks c v hd
  obtain ⟨cw', hcw', hrd⟩ := ownRead_reads e c v hd
  rw [hcw] at hcw'
  have : cw' = cw := (Option.some.inj hcw').symm
  subst this
  have hs := rside_ownRead e c hd
  exact ⟨cw', hcw, e2e_framed_bitr_pm e hWw h8w checks strict hwr hrd tablePeek_le_32
    (hs.ok tablePeek_le_32) (Or.inl hs.ns) a na b nb hna hnb ha hb⟩

theorem e2e_unary_bitr (x : Nat) (hx : x < 2 ^ 64 - 1) :
    RoundTripsFramedBitR e Ww checks strict (writeUnaryC x) (readUnaryC)
      (Spec.unary x).length x a na b nb :=
  e2e_framed_bitr e hWw h8w checks strict (unary_writes e checks x hx) (unary_reads e x)
    ((simple_unary).progOK _ 0) (Or.inl ((simple_unary).noSkip _)) a na b nb hna hnb ha hb

theorem e2e_pi_bitr (k n : Nat) (hk : k ≤ 63) (hn : n < 2 ^ 64 - 1) :
    RoundTripsFramedBitR e Ww checks strict (writePi checks n k) (readPi k)
      (Spec.pi e k n).length n a na b nb :=
  e2e_framed_bitr e hWw h8w checks strict (pi_writes e checks k n hk hn) (pi_reads e k n hk hn)
    ((simple_pi k).progOK _ 0) (Or.inl ((simple_pi k).noSkip _)) a na b nb hna hnb ha hb

theorem e2e_rice_bitr (k n : Nat) (hk : k ≤ 63) (hn : n < 2 ^ 64) (hq : n / 2 ^ k < 2 ^ 64 - 1) :
    RoundTripsFramedBitR e Ww checks strict (writeRice checks n k) (readRice k)
      (Spec.rice e k n).length n a na b nb :=
  e2e_framed_bitr e hWw h8w checks strict (rice_writes e checks k n hk hq) (rice_reads e k n hk hn)
    ((simple_rice k).progOK _ 0) (Or.inl ((simple_rice k).noSkip _)) a na b nb hna hnb ha hb

theorem e2e_golomb_bitr (g n : Nat) (hg : 1 ≤ g) (hg64 : g < 2 ^ 64) (hn : n < 2 ^ 64) (hq : n / g < 2 ^ 64 - 1) :
    RoundTripsFramedBitR e Ww checks strict (writeGolomb n g) (readGolomb g)
      (Spec.golomb e g n).length n a na b nb :=
  e2e_framed_bitr e hWw h8w checks strict (golomb_writes e checks g n hg hg64 hq) (golomb_reads e g n hg hg64 hn)
    ((simple_golomb hg64).progOK _ 0) (Or.inl ((simple_golomb hg64).noSkip _)) a na b nb hna hnb ha hb

theorem e2e_expGolomb_bitr (k n : Nat) (hk : k ≤ 63) (hn : n < 2 ^ 64) (hk0 : k = 0 → n < 2 ^ 64 - 1) :
    RoundTripsFramedBitR e Ww checks strict (writeExpGolomb checks none n k) (readExpGolomb none k)
      (Spec.expGolomb e k n).length n a na b nb :=
  e2e_framed_bitr e hWw h8w checks strict (expGolomb_writes e checks k n hk hn hk0) (expGolomb_reads e k n hk hn hk0)
    ((simple_expGolomb k).progOK _ 0) (Or.inl ((simple_expGolomb k).noSkip _)) a na b nb hna hnb ha hb

theorem e2e_minbin_bitr (x u : Nat) (hu : 1 ≤ u) (h64 : u < 2 ^ 64) (hx : x < u) :
    RoundTripsFramedBitR e Ww checks strict (writeMinimalBinary x u) (readMinimalBinary u)
      (Spec.minimalBinary e x u).length x a na b nb :=
  e2e_framed_bitr e hWw h8w checks strict (minbin_writes e checks x u hu h64 hx) (minbin_reads e x u hu h64 hx)
    ((simple_minbin h64).progOK _ 0) (Or.inl ((simple_minbin h64).noSkip _)) a na b nb hna hnb ha hb

theorem e2e_vbyte_be_bitr (fuel v : Nat) (hf : 10 ≤ fuel) (hv : v < 2 ^ 64) :
    RoundTripsFramedBitR e Ww checks strict (writeVByteBe v) (readVByteBe fuel)
      (Spec.vbyte e true v).length v a na b nb :=
  e2e_framed_bitr e hWw h8w checks strict (vbyte_be_writes e checks v hv) (vbyte_be_reads e fuel v hf hv)
    ((simple_vbyteBe fuel).progOK _ 0) (Or.inl ((simple_vbyteBe fuel).noSkip _)) a na b nb hna hnb ha hb

theorem e2e_vbyte_le_bitr (fuel v : Nat) (hf : 10 ≤ fuel) (hv : v < 2 ^ 64) :
    RoundTripsFramedBitR e Ww checks strict (writeVByteLe v) (readVByteLe fuel)
      (Spec.vbyte e false v).length v a na b nb :=
  e2e_framed_bitr e hWw h8w checks strict (vbyte_le_writes e checks v hv) (vbyte_le_reads e fuel v hf hv)
    ((simple_vbyteLe fuel).progOK _ 0) (Or.inl ((simple_vbyteLe fuel).noSkip _)) a na b nb hna hnb ha hb

end roundTrip

/-! ## non-vacuity: concrete data -/

/-- a growable 8-bit writer holding thirteen bits (one delivered word, five pending bits, garbage
    in the unused part of the buffer) -/
theorem exG_rel : RelC .be exG exGr :=
  RelC_of_growable ⟨⟨by decide, by decide⟩, rfl, rfl, rfl, rfl, by decide⟩ rfl

-- δ(1000) on that writer: 14 more bits after the 13 already there
example : ∃ t', (writeDeltaDefault false none 1000).run (BufW.impl .be) exG
      = .ok ((Spec.delta .be 1000).length, t') ∧
    RelC .be t' { exGr with bits := exGr.bits ++ Spec.delta .be 1000 } ∧ exG.out <+: t'.out ∧
    t'.abs .be = exG.abs .be ++ Spec.delta .be 1000 :=
  delta_write_concrete exG_rel rfl 1000 (by decide)

-- the dispatcher's Golomb₈ and Rice₃ on that writer
example : ResRel (SameW .be) ((ownWrite .be false ⟨.golomb, 8⟩ 100).run (BufW.impl .be) exG)
    ((ownWrite .be false ⟨.rice, 3⟩ 100).run (BufW.impl .be) exG) :=
  equiv_write_concrete exG_rel rfl (by decide) 100 (by decide)

example : ∃ cw t', (⟨.zeta, 3⟩ : CodeId).codeword .be 77 = some cw ∧
    (ownWrite .be false ⟨.zeta, 3⟩ 77).run (BufW.impl .be) exG = .ok (cw.length, t') ∧
    RelC .be t' { exGr with bits := exGr.bits ++ cw } ∧ exG.out <+: t'.out ∧
    t'.abs .be = exG.abs .be ++ cw :=
  code_write_concrete exG_rel rfl ⟨.zeta, 3⟩ 77 (by decide)

-- the tables on the (fixed-capacity, `checks`) writer of `Props/Writer`
example : ResRel (SameW .be) ((writeGammaD .be exS.checks 5).run (BufW.impl .be) exS)
    ((writeGammaDefault exS.checks 5).run (BufW.impl .be) exS) :=
  (table_write_concrete exS_be 5).2.2.2.1

/-- a 16-bit strict reader over two words, and the reference reader it represents -/
def trExS (_e : Endian) : BufR 16 := BufR.new ⟨[0xA53C#16, 0xF00F#16], 0, true⟩
def trExR (e : Endian) : RefR :=
  { e := e, stream := [0xA53C#16, 0xF00F#16].flatMap (wordBits e), pos := 0, strict := true,
    peekMax := 16 }
theorem trEx_rel (e : Endian) : BufR.Rel e (trExS e) (trExR e) := new_rel e (by decide) _ _

example (e : Endian) : ResRel (SameR e) ((readZeta3 (some (zetaRTab e))).run (BufR.impl e) (trExS e))
    ((readZetaDefault 3).run (BufR.impl e) (trExS e)) :=
  table_read_concrete_zeta3 (fun _ => by decide) (trEx_rel e) (by decide)

example (e : Endian) : ResRel (SameR e) ((readDeltaD e).run (BufR.impl e) (trExS e))
    ((readDeltaDefault none).run (BufR.impl e) (trExS e)) :=
  (table_read_concrete (fun _ => by decide) (trEx_rel e) (by decide)).2.2.2.2.1

-- the stream `1010 0101 0011 1100 …` (BE) starts with ζ₃(1) = `1010`: the dispatcher's ζ₃ reader
-- (`read_zeta3`, table on) returns 1 and stands at bit 4
example : ∃ s', (ownRead .be ⟨.zeta, 3⟩).run (BufR.impl .be) (trExS .be) = .ok (1, s') ∧
    s'.bitPos = (trExS .be).bitPos + 4 ∧ BufR.Rel .be s' { trExR .be with pos := 0 + 4 } :=
  code_read_concrete (W := 16) (e := .be) (pre := []) (cw := Spec.zeta .be 3 1)
    (post := ((trExR .be).stream.drop 4)) (fun _ => by decide) (trEx_rel .be) (by decide)
    ⟨.zeta, 3⟩ 1 (by decide) (by decide) (by decide) rfl

-- the 8-bit reader of `Props/Reader` (three bits consumed, five buffered): γ(4) = `00101` at bit 3
example : ∃ s', readGammaDefault.run (BufR.impl .be) (readerExS .be) = .ok (4, s') ∧
    s'.bitPos = (readerExS .be).bitPos + 5 :=
  let ⟨s', h1, h2, _⟩ := gamma_read_concrete (e := .be) (pre := [true, false, true])
    (post := (readerExR .be).stream.drop 8) (fun _ => by decide) (readerEx_rel .be) 4 (by decide)
    (by decide) rfl
  ⟨s', h1, h2⟩

-- the unbuffered reader of `Props/BitReader` at bit 61 of its first word
-- (LE): γ(93), thirteen bits across the word boundary
example : ∃ s', readGammaDefault.run (BitR.impl .le) bitrExS = .ok (93, s') ∧
    s'.bitPos = bitrExS.bitPos + 13 := by
  have hst : (bitrExR .le).stream = (bitrExR .le).stream.take 61 ++ Spec.gamma .le 93
      ++ (bitrExR .le).stream.drop 74 := by decide
  obtain ⟨s', h1, h2, _⟩ := gamma_read_bitr (bitrEx_rel' .le) 93 (by decide) hst (by decide)
  exact ⟨s', h1, h2⟩

-- ζ₁ written by a 16-bit LE writer between two raw fields, read back as γ by a 32-bit reader
example : ∃ cw, (⟨.zeta, 1⟩ : CodeId).codeword .le 1000 = some cw ∧
    (⟨.gamma, 0⟩ : CodeId).codeword .le 1000 = some cw ∧
    RoundTripsFramed .le 16 32 true true (ownWrite .le true ⟨.zeta, 1⟩ 1000) (ownRead .le ⟨.gamma, 0⟩)
      cw.length 1000 5 3 77 7 :=
  e2e_equiv .le (by decide) (by decide) (by decide) (by decide) (fun h => by cases h) true true
    5 3 77 7 (by decide) (by decide) (Or.inr (by decide)) (Or.inr (by decide)) (by decide)
    (by decide) 1000 (by decide)

-- VByte (big-endian bytes) on a big-endian stream, 8-bit writer, 8-bit reader
example : RoundTripsFramed .be 8 8 false false (writeVByteBe 300000) (readVByteBe 12)
    (Spec.vbyte .be true 300000).length 300000 1 1 0 0 :=
  e2e_vbyte_be .be (by decide) (by decide) (by decide) (by decide) (fun _ => by decide) false false
    1 1 0 0 (by decide) (by decide) (Or.inl rfl) (Or.inl rfl) 12 300000 (by decide) (by decide)

-- Golomb₇ with the unbuffered reader
example : RoundTripsFramedBitR .le 32 true true (writeGolomb 100 7) (readGolomb 7)
    (Spec.golomb .le 7 100).length 100 2 2 3 2 :=
  e2e_golomb_bitr .le (by decide) (by decide) true true 2 2 3 2 (by decide) (by decide)
    (Or.inr (by decide)) (Or.inr (by decide)) 7 100 (by decide) (by decide) (by decide) (by decide)

-- the `ConstCode<ZETA1>` arm (`write_gamma`) on the growable writer: ζ₁(9) appended
example : ∃ cw t', (⟨.zeta, 1⟩ : CodeId).codeword .be 9 = some cw ∧
    (writeGammaD .be false 9).run (BufW.impl .be) exG = .ok (cw.length, t') ∧
    RelC .be t' { exGr with bits := exGr.bits ++ cw } ∧ exG.out <+: t'.out ∧
    t'.abs .be = exG.abs .be ++ cw :=
  dispatch_write_concrete exG_rel rfl (.write "write_gamma" []) none ⟨.zeta, 1⟩ 9 _ (by decide) rfl
    (by decide)

end Dsi
