/-
  C19 — the `checks` option: the assertion at the top of `write_bits` fires exactly on dirty
  arguments (bits set above the `n` low ones), otherwise the option changes nothing, and the
  library's own code writers never trip it.
-/
import Dsi.Ref
import Dsi.Impl.BufWriter
import Dsi.Props.CodesA
import Dsi.Props.CodesB
namespace Dsi

namespace SmallL
@[simp] theorem rm_ok {α β} (f : α → β) (a : α) : Res.map f (.ok a) = .ok (f a) := rfl
@[simp] theorem rm_err {α β} (f : α → β) (e : Err) : Res.map f (.err e : Res α) = .err e := rfl
@[simp] theorem rm_panic {α β} (f : α → β) : Res.map f (.panic : Res α) = .panic := rfl
@[simp] theorem rm_dpanic {α β} (f : α → β) : Res.map f (.dpanic : Res α) = .dpanic := rfl

theorem put_ne_panic (w : RefW) (bs : List Bool) (r : Nat) : w.put bs r ≠ .panic := by
  simp only [RefW.put]
  split <;> (intro h; cases h)
end SmallL
open SmallL

/-! ### when the assertion fires -/

/-- reference writer: `write_bits` panics iff `checks` is on and the value has a bit set at or
    above position `n` (for a legal width `n ≤ 64`) -/
theorem checks_fire_iff_dirty_ref (w : RefW) (v n : Nat) :
    RefW.writeBits w v n = .panic ↔ (n ≤ 64 ∧ w.checks = true ∧ v % 2 ^ 64 ≥ 2 ^ n) := by
  unfold RefW.writeBits
  by_cases hn : n > 64
  · rw [if_pos hn]
    exact ⟨fun h => (by cases h), fun h => (by omega)⟩
  · rw [if_neg hn]
    by_cases hd : (w.checks && decide (v % 2 ^ 64 ≥ 2 ^ n)) = true
    · rw [if_pos hd]
      simp only [Bool.and_eq_true, decide_eq_true_eq] at hd
      exact ⟨fun _ => ⟨by omega, hd.1, hd.2⟩, fun _ => rfl⟩
    · rw [if_neg hd]
      simp only [Bool.and_eq_true, decide_eq_true_eq] at hd
      exact ⟨fun h => absurd h (put_ne_panic _ _ _), fun h => absurd ⟨h.2.1, h.2.2⟩ hd⟩

namespace SmallL
variable {W : Nat}

theorem emit_ne_panic (s : BufW W) (x : BitVec W) : s.emit x ≠ .panic := by
  unfold BufW.emit
  split
  · split <;> (intro h; cases h)
  · intro h; cases h

theorem spillBE_ne_panic (v : BitVec 64) (k t : Nat) (s : BufW W) : BufW.spillBE v k t s ≠ .panic := by
  induction k generalizing t s with
  | zero => intro h; cases h
  | succ k ih =>
    unfold BufW.spillBE
    simp only
    cases he : s.emit ((v >>> (t - W)).setWidth W) with
    | ok s' => exact ih _ _
    | err e => intro h; cases h
    | panic => exact absurd he (emit_ne_panic _ _)
    | dpanic => intro h; cases h

theorem spillLE_ne_panic (k : Nat) (v : BitVec 64) (s : BufW W) : BufW.spillLE k v s ≠ .panic := by
  induction k generalizing v s with
  | zero => intro h; cases h
  | succ k ih =>
    unfold BufW.spillLE
    cases he : s.emit (v.setWidth W) with
    | ok s' => exact ih _ _
    | err e => intro h; cases h
    | panic => exact absurd he (emit_ne_panic _ _)
    | dpanic => intro h; cases h

theorem dirty_iff (s : BufW W) (v : BitVec 64) (n : Nat) :
    s.dirty v n = true ↔ (s.checks = true ∧ v.toNat ≥ 2 ^ n) := by
  simp [BufW.dirty]

theorem writeBitsBE_panic_iff (s : BufW W) (v : BitVec 64) (n : Nat) :
    BufW.writeBitsBE s v n = .panic ↔ (n ≤ 64 ∧ s.dirty v n = true) := by
  unfold BufW.writeBitsBE
  by_cases hn : n > 64
  · rw [if_pos hn]
    exact ⟨fun h => (by cases h), fun h => (by omega)⟩
  · rw [if_neg hn]
    by_cases hd : s.dirty v n = true
    · rw [if_pos hd]
      exact ⟨fun _ => ⟨by omega, hd⟩, fun _ => rfl⟩
    · rw [if_neg hd]
      refine ⟨fun h => ?_, fun h => absurd h.2 hd⟩
      exfalso
      split at h
      · cases h
      · simp only at h
        split at h
        · rename_i s1 he
          split at h
          · cases h
          · cases h
          · rename_i hsp; exact spillBE_ne_panic _ _ _ _ hsp
          · cases h
        · cases h
        · rename_i he; exact emit_ne_panic _ _ he
        · cases h

theorem writeBitsLE_panic_iff (s : BufW W) (v : BitVec 64) (n : Nat) :
    BufW.writeBitsLE s v n = .panic ↔ (n ≤ 64 ∧ s.dirty v n = true) := by
  unfold BufW.writeBitsLE
  by_cases hn : n > 64
  · rw [if_pos hn]
    exact ⟨fun h => (by cases h), fun h => (by omega)⟩
  · rw [if_neg hn]
    by_cases hd : s.dirty v n = true
    · rw [if_pos hd]
      exact ⟨fun _ => ⟨by omega, hd⟩, fun _ => rfl⟩
    · rw [if_neg hd]
      refine ⟨fun h => ?_, fun h => absurd h.2 hd⟩
      exfalso
      split at h
      · cases h
      · simp only at h
        split at h
        · rename_i s1 he
          split at h
          · cases h
          · cases h
          · rename_i hsp; exact spillLE_ne_panic _ _ _ hsp
          · cases h
        · cases h
        · rename_i he; exact emit_ne_panic _ _ he
        · cases h
end SmallL

/-- concrete buffered writer (both endiannesses, every word width): `write_bits` panics iff
    `checks` is on and the (u64) value has a bit set at or above position `n` -/
theorem checks_fire_iff_dirty {W : Nat} (e : Endian) (s : BufW W) (v n : Nat) :
    (BufW.impl e).writeBits s v n = .panic ↔ (n ≤ 64 ∧ s.checks = true ∧ v % 2 ^ 64 ≥ 2 ^ n) := by
  have hv : (BitVec.ofNat 64 v).toNat = v % 2 ^ 64 := BitVec.toNat_ofNat _ _
  simp only [BufW.impl, BufW.writeBits]
  cases e with
  | be => rw [writeBitsBE_panic_iff, dirty_iff, hv]
  | le => rw [writeBitsLE_panic_iff, dirty_iff, hv]

/-- the two writers panic on the same arguments -/
theorem checks_fire_same {W : Nat} (e : Endian) (s : BufW W) (w : RefW) (v n : Nat) (hc : s.checks = w.checks) :
    (BufW.impl e).writeBits s v n = .panic ↔ RefW.impl.writeBits w v n = .panic := by
  rw [checks_fire_iff_dirty, hc]
  exact (checks_fire_iff_dirty_ref w v n).symm

/-- with `checks` off nothing ever panics in `write_bits` -/
theorem no_checks_no_panic {W : Nat} (e : Endian) (s : BufW W) (w : RefW) (v n : Nat)
    (hs : s.checks = false) (hw : w.checks = false) :
    (BufW.impl e).writeBits s v n ≠ .panic ∧ RefW.writeBits w v n ≠ .panic := by
  constructor
  · intro h; have := (checks_fire_iff_dirty e s v n).1 h; rw [hs] at this; exact absurd this.2.1 (by simp)
  · intro h; have := (checks_fire_iff_dirty_ref w v n).1 h; rw [hw] at this; exact absurd this.2.1 (by simp)

/-! ### otherwise the option is irrelevant -/

/-- forget the flag -/
def RefW.setChecks (b : Bool) (w : RefW) : RefW := { w with checks := b }

namespace SmallL
theorem put_of_fits {w : RefW} {bs : List Bool} {r : Nat} (h : w.fits (w.bits ++ bs) = true) :
    w.put bs r = .ok (r, { w with bits := w.bits ++ bs }) := by
  simp only [RefW.put]; rw [if_pos h]
theorem put_of_not_fits {w : RefW} {bs : List Bool} {r : Nat} (h : w.fits (w.bits ++ bs) = false) :
    w.put bs r = .err .eof := by
  simp only [RefW.put]; rw [if_neg (by simp [h])]

theorem put_setChecks (b : Bool) (w : RefW) (bs : List Bool) (r : Nat) :
    (RefW.setChecks b w).put bs r = (w.put bs r).map (fun (a, s) => (a, RefW.setChecks b s)) := by
  cases hf : w.fits (w.bits ++ bs) with
  | true => rw [put_of_fits (w := RefW.setChecks b w) hf, put_of_fits hf]; rfl
  | false => rw [put_of_not_fits (w := RefW.setChecks b w) hf, put_of_not_fits hf]; rfl

theorem writeBits_clean (w : RefW) (v n : Nat) (hn : n ≤ 64) (hv : w.checks = false ∨ v % 2 ^ 64 < 2 ^ n) :
    RefW.writeBits w v n = w.put (fieldBits w.e v n) n := by
  unfold RefW.writeBits
  rw [if_neg (by omega), if_neg]
  rcases hv with h | h
  · simp [h]
  · simp; intro _; omega

theorem writeBits_setChecks (b : Bool) (w : RefW) (v n : Nat) (hn : n ≤ 64) (hv : b = false ∨ v % 2 ^ 64 < 2 ^ n) :
    RefW.writeBits (RefW.setChecks b w) v n =
      (w.put (fieldBits w.e v n) n).map (fun (a, s) => (a, RefW.setChecks b s)) := by
  rw [writeBits_clean _ v n hn hv]
  exact put_setChecks b w _ _

theorem writeBits_big (w : RefW) (v n : Nat) (hn : n > 64) : RefW.writeBits w v n = .dpanic := by
  unfold RefW.writeBits; rw [if_pos hn]

theorem writeUnary_setChecks (b : Bool) (w : RefW) (x : Nat) :
    RefW.writeUnary (RefW.setChecks b w) x = (RefW.writeUnary w x).map (fun (a, s) => (a, RefW.setChecks b s)) := by
  unfold RefW.writeUnary
  split
  · rfl
  · exact put_setChecks b w _ _

theorem flush_setChecks (b : Bool) (w : RefW) :
    RefW.flush (RefW.setChecks b w) = (RefW.flush w).map (fun (a, s) => (a, RefW.setChecks b s)) := by
  unfold RefW.flush
  exact put_setChecks b w _ _
end SmallL

/-- If `write_bits` with `checks` on does not panic, it does exactly what it does with `checks` off
    (same result, same stream; only the flag itself differs). -/
theorem flags_irrelevant_ref (w : RefW) (v n : Nat)
    (h : RefW.writeBits { w with checks := true } v n ≠ .panic) :
    (RefW.writeBits { w with checks := true } v n).map (fun (r, s) => (r, { s with checks := false })) =
      RefW.writeBits { w with checks := false } v n := by
  have hd := mt (checks_fire_iff_dirty_ref { w with checks := true } v n).2 h
  by_cases hn : n > 64
  · rw [writeBits_big _ v n hn, writeBits_big _ v n hn]; rfl
  · have hv : v % 2 ^ 64 < 2 ^ n := by
      apply Nat.lt_of_not_le; intro hge; exact hd ⟨by omega, rfl, hge⟩
    have h1 := writeBits_setChecks true w v n (by omega) (.inr hv)
    have h2 := writeBits_setChecks false w v n (by omega) (.inl rfl)
    simp only [RefW.setChecks] at h1 h2
    rw [h1, h2]
    cases w.put (fieldBits w.e v n) n with
    | ok x => rfl
    | err e => rfl
    | panic => rfl
    | dpanic => rfl

/-- The same for whole programs (a fixed program, i.e. one that does not itself look at the flag):
    if the run with `checks` on does not panic, the run with `checks` off gives the same result and
    the same stream. -/
theorem flags_irrelevant_prog {α : Type} (p : WProg α) (w : RefW)
    (h : p.run RefW.impl (w.setChecks true) ≠ .panic) :
    (p.run RefW.impl (w.setChecks true)).map (fun (a, s) => (a, s.setChecks false)) =
      p.run RefW.impl (w.setChecks false) := by
  induction p generalizing w with
  | ret a => rfl
  | panic => exact absurd rfl h
  | dpanic => rfl
  | writeBits v n k ih =>
    simp only [WProg.run, RefW.impl] at h ⊢
    by_cases hn : n > 64
    · rw [writeBits_big _ v n hn, writeBits_big _ v n hn]; rfl
    · have hstep : RefW.writeBits (w.setChecks true) v n ≠ .panic := by
        intro hp; rw [hp] at h; exact h rfl
      have hd := mt (checks_fire_iff_dirty_ref (w.setChecks true) v n).2 hstep
      have hv : v % 2 ^ 64 < 2 ^ n := by
        apply Nat.lt_of_not_le; intro hge; exact hd ⟨by omega, rfl, hge⟩
      rw [writeBits_setChecks true w v n (by omega) (.inr hv)] at h ⊢
      rw [writeBits_setChecks false w v n (by omega) (.inl rfl)]
      cases hs : w.put (fieldBits w.e v n) n with
      | ok y =>
        obtain ⟨r, w1⟩ := y
        rw [hs] at h
        simp only [rm_ok] at h ⊢
        exact ih r w1 h
      | err e => rfl
      | panic => rfl
      | dpanic => rfl
  | writeUnary x k ih =>
    simp only [WProg.run, RefW.impl] at h ⊢
    rw [writeUnary_setChecks true w x] at h ⊢
    rw [writeUnary_setChecks false w x]
    cases hs : RefW.writeUnary w x with
    | ok y =>
      obtain ⟨r, w1⟩ := y
      rw [hs] at h
      simp only [rm_ok] at h ⊢
      exact ih r w1 h
    | err e => rfl
    | panic => rfl
    | dpanic => rfl
  | flush k ih =>
    simp only [WProg.run, RefW.impl] at h ⊢
    rw [flush_setChecks true w] at h ⊢
    rw [flush_setChecks false w]
    cases hs : RefW.flush w with
    | ok y =>
      obtain ⟨r, w1⟩ := y
      rw [hs] at h
      simp only [rm_ok] at h ⊢
      exact ih r w1 h
    | err e => rfl
    | panic => rfl
    | dpanic => rfl

/-! #### the concrete writer -/

def BufW.setChecks {W : Nat} (b : Bool) (s : BufW W) : BufW W := { s with checks := b }

namespace SmallL
variable {W : Nat}

theorem emit_setChecks (b : Bool) (s : BufW W) (x : BitVec W) :
    (s.setChecks b).emit x = (s.emit x).map (BufW.setChecks b) := by
  unfold BufW.emit BufW.setChecks
  cases hc : s.cap with
  | none => rfl
  | some c =>
    simp only
    split <;> rfl

theorem spillBE_setChecks (b : Bool) (v : BitVec 64) (k t : Nat) (s : BufW W) :
    BufW.spillBE v k t (s.setChecks b) = (BufW.spillBE v k t s).map (fun (t, s) => (t, s.setChecks b)) := by
  induction k generalizing t s with
  | zero => rfl
  | succ k ih =>
    unfold BufW.spillBE
    simp only
    rw [emit_setChecks]
    cases he : s.emit ((v >>> (t - W)).setWidth W) with
    | ok s' => simp only [rm_ok]; exact ih _ _
    | err e => rfl
    | panic => rfl
    | dpanic => rfl

theorem spillLE_setChecks (b : Bool) (k : Nat) (v : BitVec 64) (s : BufW W) :
    BufW.spillLE k v (s.setChecks b) = (BufW.spillLE k v s).map (fun (t, s) => (t, s.setChecks b)) := by
  induction k generalizing v s with
  | zero => rfl
  | succ k ih =>
    unfold BufW.spillLE
    rw [emit_setChecks]
    cases he : s.emit (v.setWidth W) with
    | ok s' => simp only [rm_ok]; exact ih _ _
    | err e => rfl
    | panic => rfl
    | dpanic => rfl

theorem dirty_false_of_lt (s : BufW W) (v : BitVec 64) (n : Nat) (h : v.toNat < 2 ^ n) : s.dirty v n = false := by
  simp [BufW.dirty]; intro _; exact h

theorem writeBitsBE_setChecks (b : Bool) (s : BufW W) (v : BitVec 64) (n : Nat) (hv : v.toNat < 2 ^ n) :
    BufW.writeBitsBE (s.setChecks b) v n = (BufW.writeBitsBE s v n).map (fun (r, s') => (r, s'.setChecks b)) := by
  unfold BufW.writeBitsBE
  rw [dirty_false_of_lt _ v n hv, dirty_false_of_lt _ v n hv]
  by_cases hn : n > 64
  · simp [hn]
  · simp only [hn, if_false, Bool.false_eq_true]
    by_cases hsp : n < s.space
    · have : n < (s.setChecks b).space := hsp
      rw [if_pos this, if_pos hsp]; rfl
    · have : ¬ n < (s.setChecks b).space := hsp
      rw [if_neg this, if_neg hsp]
      have e1 : (s.setChecks b).buffer = s.buffer := rfl
      have e2 : (s.setChecks b).space = s.space := rfl
      rw [e1, e2, emit_setChecks]
      cases s.emit (s.buffer <<< (s.space - 1) <<< 1 ||| BitVec.setWidth W (v <<< (64 - n) >>> (64 - s.space))) with
      | ok s1 =>
        simp only [rm_ok]
        rw [spillBE_setChecks]
        cases BufW.spillBE v ((n - s.space) / W) (n - s.space) s1 with
        | ok y => rfl
        | err e => rfl
        | panic => rfl
        | dpanic => rfl
      | err e => rfl
      | panic => rfl
      | dpanic => rfl

theorem writeBitsLE_setChecks (b : Bool) (s : BufW W) (v : BitVec 64) (n : Nat) (hv : v.toNat < 2 ^ n) :
    BufW.writeBitsLE (s.setChecks b) v n = (BufW.writeBitsLE s v n).map (fun (r, s') => (r, s'.setChecks b)) := by
  unfold BufW.writeBitsLE
  rw [dirty_false_of_lt _ v n hv, dirty_false_of_lt _ v n hv]
  by_cases hn : n > 64
  · simp [hn]
  · simp only [hn, if_false, Bool.false_eq_true]
    by_cases hsp : n < s.space
    · have : n < (s.setChecks b).space := hsp
      rw [if_pos this, if_pos hsp]; rfl
    · have : ¬ n < (s.setChecks b).space := hsp
      rw [if_neg this, if_neg hsp]
      have e1 : (s.setChecks b).buffer = s.buffer := rfl
      have e2 : (s.setChecks b).space = s.space := rfl
      rw [e1, e2, emit_setChecks]
      cases s.emit (s.buffer >>> (s.space - 1) >>> 1 ||| BitVec.setWidth W v <<< (W - s.space)) with
      | ok s1 =>
        simp only [rm_ok]
        rw [spillLE_setChecks]
        cases BufW.spillLE ((n - s.space) / W) (v >>> (s.space - 1) >>> 1) s1 with
        | ok y => rfl
        | err e => rfl
        | panic => rfl
        | dpanic => rfl
      | err e => rfl
      | panic => rfl
      | dpanic => rfl
end SmallL

/-- concrete writer: if `write_bits` with `checks` on does not panic, it does exactly what it does
    with `checks` off (same result, same buffer, same words delivered) -/
theorem flags_irrelevant_buf {W : Nat} (e : Endian) (s : BufW W) (v n : Nat)
    (h : (BufW.impl e).writeBits (s.setChecks true) v n ≠ .panic) :
    ((BufW.impl e).writeBits (s.setChecks true) v n).map (fun (r, s') => (r, s'.setChecks false)) =
      (BufW.impl e).writeBits (s.setChecks false) v n := by
  have hd := mt (checks_fire_iff_dirty e (s.setChecks true) v n).2 h
  by_cases hn : n > 64
  · cases e <;> simp [BufW.impl, BufW.writeBits, BufW.writeBitsBE, BufW.writeBitsLE, hn]
  · have hv : (BitVec.ofNat 64 v).toNat < 2 ^ n := by
      rw [BitVec.toNat_ofNat]
      apply Nat.lt_of_not_le; intro hge; exact hd ⟨by omega, rfl, hge⟩
    simp only [BufW.impl, BufW.writeBits]
    cases e with
    | be =>
      simp only
      rw [writeBitsBE_setChecks true s _ n hv, writeBitsBE_setChecks false s _ n hv]
      cases BufW.writeBitsBE s (BitVec.ofNat 64 v) n with
      | ok y => rfl
      | err e => rfl
      | panic => rfl
      | dpanic => rfl
    | le =>
      simp only
      rw [writeBitsLE_setChecks true s _ n hv, writeBitsLE_setChecks false s _ n hv]
      cases BufW.writeBitsLE s (BitVec.ofNat 64 v) n with
      | ok y => rfl
      | err e => rfl
      | panic => rfl
      | dpanic => rfl

/-! ### the library's own writers never trip the assertion -/

/-- `p` (a code writer, as a function of the `checks` feature) is *clean*: with the flag on or off,
    on a growable reference writer with that flag, the write succeeds — in particular no panic —
    returns the codeword length and appends exactly `bits`. -/
def ChecksClean (p : Bool → WProg Nat) (e : Endian) (bits : List Bool) : Prop :=
  ∀ (w : RefW) (c : Bool), w.e = e → w.cap = none →
    (p c).run RefW.impl { w with checks := c } =
      .ok (bits.length, { w with checks := c, bits := w.bits ++ bits })

/-- generic lemma: the `Writes` theorems for both values of the flag give cleanness -/
theorem writes_checks_irrelevant {p : Bool → WProg Nat} {e : Endian} {bits : List Bool}
    (ht : Writes (p true) e true bits) (hf : Writes (p false) e false bits) : ChecksClean p e bits := by
  intro w c he hc
  cases c with
  | true => exact ht { w with checks := true } he hc rfl
  | false => exact hf { w with checks := false } he hc rfl

/-- consequences of cleanness: no panic with the flag on, and the same value and stream as with the
    flag off -/
theorem ChecksClean.no_panic {p : Bool → WProg Nat} {e : Endian} {bits : List Bool}
    (h : ChecksClean p e bits) (w : RefW) (he : w.e = e) (hc : w.cap = none) :
    (p true).run RefW.impl { w with checks := true } ≠ .panic := by
  rw [h w true he hc]; intro h'; cases h'

theorem ChecksClean.same {p : Bool → WProg Nat} {e : Endian} {bits : List Bool}
    (h : ChecksClean p e bits) (w : RefW) (he : w.e = e) (hc : w.cap = none) :
    ((p true).run RefW.impl { w with checks := true }).map (fun (a, s) => (a, s.bits)) =
      ((p false).run RefW.impl { w with checks := false }).map (fun (a, s) => (a, s.bits)) := by
  rw [h w true he hc, h w false he hc]; rfl

theorem unary_writes_clean (e : Endian) (x : Nat) (hx : x < 2 ^ 64 - 1) :
    ChecksClean (fun _ => writeUnaryC x) e (Spec.unary x) :=
  writes_checks_irrelevant (unary_writes e true x hx) (unary_writes e false x hx)

theorem gamma_writes_clean (e : Endian) (n : Nat) (hn : n < 2 ^ 64 - 1) :
    ChecksClean (fun c => writeGammaDefault c n) e (Spec.gamma e n) :=
  writes_checks_irrelevant (gamma_writes e true n hn) (gamma_writes e false n hn)

theorem delta_writes_clean (e : Endian) (n : Nat) (hn : n < 2 ^ 64 - 1) :
    ChecksClean (fun c => writeDeltaDefault c none n) e (Spec.delta e n) :=
  writes_checks_irrelevant (delta_writes e true n hn) (delta_writes e false n hn)

theorem rice_writes_clean (e : Endian) (k n : Nat) (hk : k ≤ 63) (hq : n / 2 ^ k < 2 ^ 64 - 1) :
    ChecksClean (fun c => writeRice c n k) e (Spec.rice e k n) :=
  writes_checks_irrelevant (rice_writes e true k n hk hq) (rice_writes e false k n hk hq)

theorem pi_writes_clean (e : Endian) (k n : Nat) (hk : k ≤ 63) (hn : n < 2 ^ 64 - 1) :
    ChecksClean (fun c => writePi c n k) e (Spec.pi e k n) :=
  writes_checks_irrelevant (pi_writes e true k n hk hn) (pi_writes e false k n hk hn)

theorem expGolomb_writes_clean (e : Endian) (k n : Nat) (hk : k ≤ 63) (hn : n < 2 ^ 64)
    (hk0 : k = 0 → n < 2 ^ 64 - 1) :
    ChecksClean (fun c => writeExpGolomb c none n k) e (Spec.expGolomb e k n) :=
  writes_checks_irrelevant (expGolomb_writes e true k n hk hn hk0) (expGolomb_writes e false k n hk hn hk0)

theorem omega_writes_clean (e : Endian) (n : Nat) (hn : n < 2 ^ 64 - 1) :
    ChecksClean (fun c => writeOmega e c n) e (Spec.omega e n) :=
  writes_checks_irrelevant (omega_writes e true n hn) (omega_writes e false n hn)

theorem minbin_writes_clean (e : Endian) (x u : Nat) (hu : 1 ≤ u) (h64 : u < 2 ^ 64) (hx : x < u) :
    ChecksClean (fun _ => writeMinimalBinary x u) e (Spec.minimalBinary e x u) :=
  writes_checks_irrelevant (minbin_writes e true x u hu h64 hx) (minbin_writes e false x u hu h64 hx)

theorem zeta_writes_clean (e : Endian) (k n : Nat) (hk1 : 1 ≤ k) (hk : k ≤ 63) (hn : n < 2 ^ 64 - 1) :
    ChecksClean (fun _ => writeZetaDefault n k) e (Spec.zetaWrapped e k n) :=
  writes_checks_irrelevant (zeta_writes e true k n hk1 hk hn) (zeta_writes e false k n hk1 hk hn)

theorem golomb_writes_clean (e : Endian) (b n : Nat) (hb : 1 ≤ b) (hb64 : b < 2 ^ 64) (hq : n / b < 2 ^ 64 - 1) :
    ChecksClean (fun _ => writeGolomb n b) e (Spec.golomb e b n) :=
  writes_checks_irrelevant (golomb_writes e true b n hb hb64 hq) (golomb_writes e false b n hb hb64 hq)

theorem vbyte_be_writes_clean (e : Endian) (v : Nat) (hv : v < 2 ^ 64) :
    ChecksClean (fun _ => writeVByteBe v) e (Spec.vbyte e true v) :=
  writes_checks_irrelevant (vbyte_be_writes e true v hv) (vbyte_be_writes e false v hv)

theorem vbyte_le_writes_clean (e : Endian) (v : Nat) (hv : v < 2 ^ 64) :
    ChecksClean (fun _ => writeVByteLe v) e (Spec.vbyte e false v) :=
  writes_checks_irrelevant (vbyte_le_writes e true v hv) (vbyte_le_writes e false v hv)

/-- the corollary the property names, in one statement: for every code of the library and every
    in-domain argument, writing with `checks` on does not panic and appends the same bits as
    with `checks` off -/
theorem library_writes_clean (e : Endian) :
    (∀ x, x < 2 ^ 64 - 1 → ChecksClean (fun _ => writeUnaryC x) e (Spec.unary x)) ∧
    (∀ n, n < 2 ^ 64 - 1 → ChecksClean (fun c => writeGammaDefault c n) e (Spec.gamma e n)) ∧
    (∀ n, n < 2 ^ 64 - 1 → ChecksClean (fun c => writeDeltaDefault c none n) e (Spec.delta e n)) ∧
    (∀ k n, k ≤ 63 → n / 2 ^ k < 2 ^ 64 - 1 → ChecksClean (fun c => writeRice c n k) e (Spec.rice e k n)) ∧
    (∀ k n, k ≤ 63 → n < 2 ^ 64 - 1 → ChecksClean (fun c => writePi c n k) e (Spec.pi e k n)) ∧
    (∀ k n, k ≤ 63 → n < 2 ^ 64 → (k = 0 → n < 2 ^ 64 - 1) →
      ChecksClean (fun c => writeExpGolomb c none n k) e (Spec.expGolomb e k n)) ∧
    (∀ n, n < 2 ^ 64 - 1 → ChecksClean (fun c => writeOmega e c n) e (Spec.omega e n)) ∧
    (∀ x u, 1 ≤ u → u < 2 ^ 64 → x < u → ChecksClean (fun _ => writeMinimalBinary x u) e (Spec.minimalBinary e x u)) ∧
    (∀ k n, 1 ≤ k → k ≤ 63 → n < 2 ^ 64 - 1 → ChecksClean (fun _ => writeZetaDefault n k) e (Spec.zetaWrapped e k n)) ∧
    (∀ b n, 1 ≤ b → b < 2 ^ 64 → n / b < 2 ^ 64 - 1 → ChecksClean (fun _ => writeGolomb n b) e (Spec.golomb e b n)) ∧
    (∀ v, v < 2 ^ 64 → ChecksClean (fun _ => writeVByteBe v) e (Spec.vbyte e true v)) ∧
    (∀ v, v < 2 ^ 64 → ChecksClean (fun _ => writeVByteLe v) e (Spec.vbyte e false v)) :=
  ⟨unary_writes_clean e, gamma_writes_clean e, delta_writes_clean e, rice_writes_clean e, pi_writes_clean e,
   expGolomb_writes_clean e, omega_writes_clean e, minbin_writes_clean e, zeta_writes_clean e,
   golomb_writes_clean e, vbyte_be_writes_clean e, vbyte_le_writes_clean e⟩

/-! ### concrete instances -/

/-- a dirty argument: 5 does not fit in 2 bits -/
example : RefW.writeBits { e := .be, W := 64, checks := true } 5 2 = .panic :=
  (checks_fire_iff_dirty_ref _ 5 2).2 ⟨by decide, rfl, by decide⟩
example : (BufW.impl .le).writeBits (BufW.new 16 (checks := true)) 5 2 = .panic :=
  (checks_fire_iff_dirty .le _ 5 2).2 ⟨by decide, rfl, by decide⟩
/-- the same call with `checks` off silently keeps the low bits -/
example : (RefW.writeBits { e := .be, W := 64, checks := false } 5 2).map (fun (r, s) => (r, s.bits)) =
    .ok (2, [false, true]) := by rfl
/-- a clean argument on the concrete writer: the flag makes no difference -/
example :
    ((BufW.impl .be).writeBits ((BufW.new 8).setChecks true) 5 3).map (fun (r, s') => (r, s'.setChecks false)) =
      (BufW.impl .be).writeBits ((BufW.new 8).setChecks false) 5 3 :=
  flags_irrelevant_buf .be (BufW.new 8) 5 3
    (fun h => absurd ((checks_fire_iff_dirty .be _ 5 3).1 h).2.2 (by decide))
/-- γ(1000) with `checks` on: no panic -/
example (w : RefW) (he : w.e = .le) (hc : w.cap = none) :
    (writeGammaDefault true 1000).run RefW.impl { w with checks := true } ≠ .panic :=
  (gamma_writes_clean .le 1000 (by decide)).no_panic w he hc

end Dsi
