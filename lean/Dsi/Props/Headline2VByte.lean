/-
  Headline theorems for C18 (byte-level VByte functions), byte level, stated over the functions
  regenerated from src/codes/vbyte.rs on this run: `Gen.vbyte_write e v`, `Gen.vbyte_read fuel e`
  (lean/Dsi/Gen/VByteIOBodies.lean: programs over `std::io::Write` / `std::io::Read`, run on byte
  lists by `BProg.run inp out`: unread input, output so far) and `Gen.byte_len_vbyte`
  (lean/Dsi/Gen/LenFormulas.lean).  Specification: `Spec.vbyteBytes big v` (the published VByte
  byte string of `v`, lean/Dsi/Spec.lean), `Spec.vbyteOffset` (the length steps `2^7`,
  `2^7 + 2^14`, …), `CodesB.Term` (a terminated byte string: continuation bit on every byte but the
  last), `vbyteVal e s` (its unwrapped value).  `fuel` bounds the reader's loop (any bound above
  the input length).

  * `gen_vbyteio_write`: for every `v < 2^64`, `vbyte_write::<E>(v)` appends exactly the published
    bytes of the variant named by `E`, leaves the input alone, and returns their number, which is
    what the generated `byte_len_vbyte(v)` computes;
  * `gen_vbyteio_roundtrip`: `vbyte_read::<E>` on those bytes followed by anything returns `v` and
    leaves the rest unread;
  * `gen_vbyteio_complete`: every terminated byte string whose value fits in 64 bits is read
    entirely by `vbyte_read::<E>`, as a value `w` that `vbyte_write::<E>` encodes as that very
    string, and no other value does;
  * `gen_vbyte_len_step`: `byte_len_vbyte(v) = k` exactly on `[offset (k-1), offset k)`.
  The comparison with the bit-stream codes is in Props/Headline2VByteBits.lean.
-/
import Dsi.Props.VByteIOGen
import Dsi.Props.EndianGen
import Dsi.Props.LenGen
import Dsi.Props.CodesB
namespace Dsi
namespace Headline2
open CodesB

/-- the variant (`true`: big-endian byte order) named by an endianness parameter -/
def bigOf : Endian → Bool
  | .be => true
  | .le => false

/-- unwrapped value of a VByte string of the variant of `e` -/
def vbyteVal (e : Endian) (s : List Nat) : Nat :=
  match e with
  | .be => vbyteValBe s
  | .le => vbyteValLe s

theorem gen_vbyte_len (v : Nat) (hv : v < 2 ^ 64) (big : Bool) :
    (Spec.vbyteBytes big v).length = Gen.byte_len_vbyte v := by
  rw [specBytes_length, LenGen.byte_len_vbyte_eq hv, vbyte_byte_len v hv]

/-- **C18, writer.** -/
theorem gen_vbyteio_write (e : Endian) {v : Nat} (hv : v < 2 ^ 64) (inp out : List Nat) :
    (Gen.vbyte_write e v).run inp out
      = .ok (Gen.byte_len_vbyte v, inp, out ++ Spec.vbyteBytes (bigOf e) v) := by
  cases e
  · rw [(VByteIOGen.vbyte_write_dispatch v).1, VByteIOGen.vbyte_write_be_run hv,
      (vbyte_written_len v hv).1]
    show Res.ok (Spec.vbyteLen v, inp, out ++ vbyteBeBytes v) = _
    rw [vbyte_be_bytes v hv, ← specBytes_length true v, gen_vbyte_len v hv]; rfl
  · rw [(VByteIOGen.vbyte_write_dispatch v).2, VByteIOGen.vbyte_write_le_run hv,
      (vbyte_written_len v hv).2]
    show Res.ok (Spec.vbyteLen v, inp, out ++ vbyteLeBytes v) = _
    rw [vbyte_le_bytes v hv, ← specBytes_length false v, gen_vbyte_len v hv]; rfl

theorem gen_vbyteio_read_hand (e : Endian) (bytes out : List Nat) (fuel : Nat) (hf : bytes.length < fuel)
    {w : Nat} {rest : List Nat}
    (h : (match e with | .be => vbyteReadBe bytes | .le => vbyteReadLe bytes) = .ok (w, rest)) :
    (Gen.vbyte_read fuel e).run bytes out = .ok (w, rest, out) := by
  cases e
  · have h : vbyteReadBe bytes = .ok (w, rest) := h
    rw [(VByteIOGen.vbyte_read_dispatch fuel).1]
    rcases VByteIOGen.vbyte_read_be_run bytes out fuel (by omega) with h1 | h1
    · rw [h] at h1; cases h1
    · rw [h1, h]; rfl
  · have h : vbyteReadLe bytes = .ok (w, rest) := h
    rw [(VByteIOGen.vbyte_read_dispatch fuel).2]
    rcases VByteIOGen.vbyte_read_le_run bytes out fuel hf with h1 | h1
    · rw [h] at h1; cases h1
    · rw [h1, h]; rfl

/-- **C18, decode ∘ encode = id.**  The bytes `vbyte_write::<E>(v)` produces, followed by any bytes
    `rest`: `vbyte_read::<E>` returns `v`, leaves `rest` unread and writes nothing. -/
theorem gen_vbyteio_roundtrip (e : Endian) {v : Nat} (hv : v < 2 ^ 64) (inp out rest out' : List Nat)
    (fuel : Nat) (hf : (Spec.vbyteBytes (bigOf e) v ++ rest).length < fuel) :
    ∃ bs, (Gen.vbyte_write e v).run inp out = .ok (bs.length, inp, out ++ bs) ∧
      bs = Spec.vbyteBytes (bigOf e) v ∧ bs.length = Gen.byte_len_vbyte v ∧
      (Gen.vbyte_read fuel e).run (bs ++ rest) out' = .ok (v, rest, out') := by
  refine ⟨_, ?_, rfl, gen_vbyte_len v hv _, ?_⟩
  · rw [gen_vbyteio_write e hv, gen_vbyte_len v hv]
  · apply gen_vbyteio_read_hand e _ out' fuel hf
    cases e
    · show vbyteReadBe (Spec.vbyteBytes true v ++ rest) = _
      rw [← vbyte_be_bytes v hv]; exact vbyte_be_roundtrip v rest hv
    · show vbyteReadLe (Spec.vbyteBytes false v ++ rest) = _
      rw [← vbyte_le_bytes v hv]; exact vbyte_le_roundtrip v rest hv

/-- **C18, completeness.**  Every terminated byte string `s` (bytes `< 256`) whose value fits in 64
    bits: `vbyte_read::<E>` consumes exactly `s` and returns a value `w < 2^64` that
    `vbyte_write::<E>` encodes as `s`; and `w` is the only value encoded as `s`. -/
theorem gen_vbyteio_complete (e : Endian) (s : List Nat) (ht : Term s) (hb : ∀ b ∈ s, b < 256)
    (hfits : vbyteVal e s < 2 ^ 64) :
    ∃ w, w = vbyteVal e s ∧
      (∀ (rest out : List Nat) (fuel : Nat), (s ++ rest).length < fuel →
        (Gen.vbyte_read fuel e).run (s ++ rest) out = .ok (w, rest, out)) ∧
      (∀ inp out : List Nat, (Gen.vbyte_write e w).run inp out = .ok (s.length, inp, out ++ s)) ∧
      (∀ w', w' < 2 ^ 64 → Spec.vbyteBytes (bigOf e) w' = s → w' = w) := by
  refine ⟨vbyteVal e s, rfl, ?_, ?_, ?_⟩
  · intro rest out fuel hf
    apply gen_vbyteio_read_hand e _ out fuel hf
    cases e
    · exact vbyteReadBe_ok s rest ht hfits
    · exact vbyteReadLe_ok s rest ht hfits
  · intro inp out
    rw [gen_vbyteio_write e hfits]
    cases e
    · have hfits : vbyteValBe s < 2 ^ 64 := hfits
      have : Spec.vbyteBytes true (vbyteValBe s) = s := by
        rw [← vbyte_be_bytes _ hfits]; exact be_encode_decode s ht hb hfits
      show Res.ok (Gen.byte_len_vbyte (vbyteValBe s), inp, out ++ Spec.vbyteBytes true (vbyteValBe s)) = _
      rw [← gen_vbyte_len _ hfits true, this]
    · have hfits : vbyteValLe s < 2 ^ 64 := hfits
      have : Spec.vbyteBytes false (vbyteValLe s) = s := by
        rw [← vbyte_le_bytes _ hfits]; exact le_encode_decode s ht hb hfits
      show Res.ok (Gen.byte_len_vbyte (vbyteValLe s), inp, out ++ Spec.vbyteBytes false (vbyteValLe s)) = _
      rw [← gen_vbyte_len _ hfits false, this]
  · intro w' hw' hs
    cases e
    · have hs : Spec.vbyteBytes true w' = s := hs
      show w' = vbyteValBe s
      rw [← hs, ← vbyte_be_bytes w' hw', vbyteBeBytes_val w' hw']
    · have hs : Spec.vbyteBytes false w' = s := hs
      show w' = vbyteValLe s
      rw [← hs, ← vbyte_le_bytes w' hw', vbyteLeBytes_val w' hw']

/-- **C18, length steps.** -/
theorem gen_vbyte_len_step (v k : Nat) (hv : v < 2 ^ 64) (hk : 1 ≤ k) :
    (Gen.byte_len_vbyte v = k ↔ Spec.vbyteOffset (k - 1) ≤ v ∧ v < Spec.vbyteOffset k) ∧
    1 ≤ Gen.byte_len_vbyte v ∧ Gen.byte_len_vbyte v ≤ 10 ∧
    Gen.bit_len_vbyte v = 8 * Gen.byte_len_vbyte v := by
  have hl : Gen.byte_len_vbyte v = Spec.vbyteLen v := by
    rw [LenGen.byte_len_vbyte_eq hv, vbyte_byte_len v hv]
  have hb : Gen.bit_len_vbyte v = 8 * Gen.byte_len_vbyte v := rfl
  rw [hb, hl]
  exact ⟨vbyte_len_step v k hv hk, (vbyte_len_le_10 v hv).1, (vbyte_len_le_10 v hv).2, rfl⟩

/-! ### non-vacuity -/

example : (Gen.vbyte_write .be 300000).run [9] [7] = .ok (3, [9], [7, 0x91, 0xA6, 0x60]) := by rfl
example : (Gen.vbyte_read 10 .be).run [0x91, 0xA6, 0x60, 5] [] = .ok (300000, [5], []) := by rfl
example : (Gen.vbyte_write .le 300000).run [] [] = .ok (3, [], [0xE0, 0xA6, 0x11]) := by rfl
example : (Gen.vbyte_read 10 .le).run [0xE0, 0xA6, 0x11] [1] = .ok (300000, [], [1]) := by rfl

example (e : Endian) : ∃ bs, (Gen.vbyte_write e (2 ^ 64 - 1)).run [] [] = .ok (bs.length, [], [] ++ bs) ∧
    bs = Spec.vbyteBytes (bigOf e) (2 ^ 64 - 1) ∧ bs.length = Gen.byte_len_vbyte (2 ^ 64 - 1) ∧
    (Gen.vbyte_read 20 e).run (bs ++ [1, 2]) [] = .ok (2 ^ 64 - 1, [1, 2], []) :=
  gen_vbyteio_roundtrip e (by decide) [] [] [1, 2] [] 20 (by
    rw [List.length_append, specBytes_length]
    have := (vbyte_len_le_10 (2 ^ 64 - 1) (by decide)).2
    simp only [List.length_cons, List.length_nil]; omega)

example : ∃ w, w = vbyteVal .be [0x80, 0x00] ∧
    (∀ (rest out : List Nat) (fuel : Nat), ([0x80, 0x00] ++ rest).length < fuel →
      (Gen.vbyte_read fuel .be).run ([0x80, 0x00] ++ rest) out = .ok (w, rest, out)) ∧
    (∀ inp out : List Nat, (Gen.vbyte_write .be w).run inp out = .ok (2, inp, out ++ [0x80, 0x00])) ∧
    (∀ w', w' < 2 ^ 64 → Spec.vbyteBytes (bigOf .be) w' = [0x80, 0x00] → w' = w) :=
  gen_vbyteio_complete .be [0x80, 0x00] ⟨by decide, (by decide : (0 : Nat) / 128 = 0)⟩ (by decide) (by decide)

example : Gen.byte_len_vbyte 127 = 1 ∧ Gen.byte_len_vbyte 128 = 2 ∧ Gen.byte_len_vbyte (128 + 2 ^ 14 - 1) = 2 ∧
    Gen.byte_len_vbyte (128 + 2 ^ 14) = 3 := by decide

end Headline2
end Dsi
