/-
  The structural guard of the translators (tools/hygiene.py).

  Every translator finds "the" impl / fn / constant it translates by name in a fixed file.  That is
  sound only if that text is what the crate compiles and if the names the translators interpret
  (`BE`, `LE`, `debug_assert!`, `gamma_tables`, `len_gamma`, ...) mean what they mean in the audited
  crate.  `Dsi.Gen.Hygiene.violations_Cnn` list, for each property and the files it depends on, the differences between the item inventory of the crate
  (items, impl / trait members, cfg / path / derive attributes, struct definitions with their
  const-generic defaults, item-position macro invocations, the bodies of the functions no translator
  reads -- constructors, `clone`, no-op flushes, `BitSeek` of the counting wrappers -- pinned by hash,
  the conditions of the `debug_assert!`s the code translators drop, and the `[features]` /
  `[dependencies]` of Cargo.toml) and the reviewed inventory `tools/hygiene_expected.json`.

  Found necessary by the translator audit: without it, e.g. putting `impl BitRead<BE> for BufBitReader`
  under `#[cfg(any())]` next to a live `impl BitRead<BigEndian> for BufBitReader` with a different
  body, a file-local `type BE = LittleEndian;`, `#[path = ".."] mod count;`, an impl overriding the
  trait-default `copy_to`, or `bits_in_buffer: 1` in `BufBitReader::new` all left every generated
  file byte-identical.
-/
import Dsi.Gen.Hygiene

namespace Dsi.Props.HygieneGen

/-- nothing differs from the audited crate structure in the files property C01 depends on -/
theorem clean_C01 : Dsi.Gen.Hygiene.violations_C01 = [] := rfl

/-- nothing differs from the audited crate structure in the files property C02 depends on -/
theorem clean_C02 : Dsi.Gen.Hygiene.violations_C02 = [] := rfl

/-- nothing differs from the audited crate structure in the files property C03 depends on -/
theorem clean_C03 : Dsi.Gen.Hygiene.violations_C03 = [] := rfl

/-- nothing differs from the audited crate structure in the files property C04 depends on -/
theorem clean_C04 : Dsi.Gen.Hygiene.violations_C04 = [] := rfl

/-- nothing differs from the audited crate structure in the files property C05 depends on -/
theorem clean_C05 : Dsi.Gen.Hygiene.violations_C05 = [] := rfl

/-- nothing differs from the audited crate structure in the files property C06 depends on -/
theorem clean_C06 : Dsi.Gen.Hygiene.violations_C06 = [] := rfl

/-- nothing differs from the audited crate structure in the files property C07 depends on -/
theorem clean_C07 : Dsi.Gen.Hygiene.violations_C07 = [] := rfl

/-- nothing differs from the audited crate structure in the files property C08 depends on -/
theorem clean_C08 : Dsi.Gen.Hygiene.violations_C08 = [] := rfl

/-- nothing differs from the audited crate structure in the files property C09 depends on -/
theorem clean_C09 : Dsi.Gen.Hygiene.violations_C09 = [] := rfl

/-- nothing differs from the audited crate structure in the files property C10 depends on -/
theorem clean_C10 : Dsi.Gen.Hygiene.violations_C10 = [] := rfl

/-- nothing differs from the audited crate structure in the files property C11 depends on -/
theorem clean_C11 : Dsi.Gen.Hygiene.violations_C11 = [] := rfl

/-- nothing differs from the audited crate structure in the files property C12 depends on -/
theorem clean_C12 : Dsi.Gen.Hygiene.violations_C12 = [] := rfl

/-- nothing differs from the audited crate structure in the files property C13 depends on -/
theorem clean_C13 : Dsi.Gen.Hygiene.violations_C13 = [] := rfl

/-- nothing differs from the audited crate structure in the files property C14 depends on -/
theorem clean_C14 : Dsi.Gen.Hygiene.violations_C14 = [] := rfl

/-- nothing differs from the audited crate structure in the files property C15 depends on -/
theorem clean_C15 : Dsi.Gen.Hygiene.violations_C15 = [] := rfl

/-- nothing differs from the audited crate structure in the files property C16 depends on -/
theorem clean_C16 : Dsi.Gen.Hygiene.violations_C16 = [] := rfl

/-- nothing differs from the audited crate structure in the files property C17 depends on -/
theorem clean_C17 : Dsi.Gen.Hygiene.violations_C17 = [] := rfl

/-- nothing differs from the audited crate structure in the files property C18 depends on -/
theorem clean_C18 : Dsi.Gen.Hygiene.violations_C18 = [] := rfl

/-- nothing differs from the audited crate structure in the files property C19 depends on -/
theorem clean_C19 : Dsi.Gen.Hygiene.violations_C19 = [] := rfl

/-- nothing differs from the audited crate structure in the files property C20 depends on -/
theorem clean_C20 : Dsi.Gen.Hygiene.violations_C20 = [] := rfl

end Dsi.Props.HygieneGen
