/-
  The generated table functions and `*Param` trait impls (lean/Dsi/Gen/TableFns.lean, produced by
  tools/translate_codes2.py from src/codes/{gamma,delta,zeta}_tables.rs and
  src/codes/{gamma,delta,zeta}.rs on every run) against the hand-written programs of
  Dsi/Codes.lean / Dsi/Defaults.lean.

  * `read_table_be/le`: `readTable (xRTab e) fb` is the generated function followed by the
    caller's `if let Some((res, _)) = .. { return Ok(res) } fb`, up to the order of the two bounds
    checks (`Guarded`: the hand-written program checks both indices before skipping); with tables
    of equal size the two are equal (`*_eq`).
  * `len_table_be/le` is `read_table_be/le` with the value dropped.
  * `write_table_be/le` followed by the caller's `if let Some(len) = ..? { return Ok(len) } fb`
    is `writeTable (xWTab e) n fb`.
  * the `*Param` impls are `readGammaP e t`, `readDeltaP e td tg`, `readZeta3P e t`,
    `writeGammaP e checks t n`, ... : which table module and which endianness each impl uses is
    part of the generated text, so is checked here.
-/
import Dsi.Defaults
import Dsi.Gen.TableFns
import Dsi.Props.CodeBodiesGen
namespace Dsi
namespace TableFnsGen
open Gen CodeBodiesGen

/-! ### the shape of the generated table functions, over arbitrary tables -/

/-- the text of `read_table_be/le` over arbitrary constants -/
def readTableG (bits missing : Nat) (vals lens : Array Nat) : RProg (Option (Nat × Nat)) :=
  .peek bits fun
  | .ok idx =>
    (match lens[idx]? with
    | none => .panic
    | some len =>
    if len ≠ missing then
      (.skipAfterPeek len <|
      match vals[idx]? with
      | none => .panic
      | some r1 =>
      .ret (some (r1, len)))
    else
      .ret none)
  | .error _ =>
    (.ret none)

/-- the text of `len_table_be/le` -/
def lenTableG (bits missing : Nat) (lens : Array Nat) : RProg (Option Nat) :=
  .peek bits fun
  | .ok idx =>
    (match lens[idx]? with
    | none => .panic
    | some len =>
    if len ≠ missing then
      (.skipAfterPeek len <|
      .ret (some len))
    else
      .ret none)
  | .error _ =>
    (.ret none)

/-- the text of `write_table_be/le` -/
def writeTableG (vals lens : Array Nat) (value : Nat) : WProg (Option Nat) :=
  match vals[value]? with
  | some bits =>
    (match lens[value]? with
    | none => .panic
    | some len =>
    .writeBits bits len fun _ =>
    .ret (some len))
  | none =>
    (.ret none)

/-- the caller's `if let Some((res, _)) = read_table(self) { return Ok(res); } fb` -/
def orElseR (fb : RProg Nat) : Option (Nat × Nat) → RProg Nat
  | some (res, _) => .ret res
  | none => fb

/-- the caller's `if let Some(len) = write_table(self, n)? { return Ok(len); } fb` -/
def orElseW (fb : WProg Nat) : Option Nat → WProg Nat
  | some len => .ret len
  | none => fb

theorem readTableG_guarded (bits missing : Nat) (vals lens : Array Nat) {fb fb' : RProg Nat}
    (hf : Guarded fb fb') :
    Guarded (readTable { readBits := bits, missing := missing, vals := vals, lens := lens } fb)
      ((readTableG bits missing vals lens).bind (orElseR fb')) := by
  unfold readTable readTableG
  simp only [RProg.bind]
  refine Guarded.peek _ fun r => ?_
  cases r with
  | error e => exact hf
  | ok idx =>
    simp only
    cases hl : lens[idx]? with
    | none => exact Guarded.panic _
    | some len =>
      cases hv : vals[idx]? with
      | none => exact Guarded.panic _
      | some v =>
        simp only
        split
        · simp only [RProg.bind, orElseR]; exact Guarded.refl _
        · exact hf

theorem getElem?_none_of_size {a b : Array Nat} {i v : Nat} (h : a.size = b.size) (hb : b[i]? = some v) :
    a[i]? ≠ none := by
  intro ha
  have h1 : a.size ≤ i := Array.getElem?_eq_none_iff.mp ha
  have h2 : i < b.size := by
    rcases Nat.lt_or_ge i b.size with h | h
    · exact h
    · rw [Array.getElem?_eq_none_iff.mpr h] at hb; cases hb
  omega

/-- with tables of equal size the order of the two bounds checks does not matter -/
theorem readTableG_eq (bits missing : Nat) (vals lens : Array Nat) (h : vals.size = lens.size)
    (fb : RProg Nat) :
    (readTableG bits missing vals lens).bind (orElseR fb)
      = readTable { readBits := bits, missing := missing, vals := vals, lens := lens } fb := by
  unfold readTable readTableG
  simp only [RProg.bind]
  congr 1
  funext r
  cases r with
  | error e => rfl
  | ok idx =>
    simp only
    cases hl : lens[idx]? with
    | none => rfl
    | some len =>
      cases hv : vals[idx]? with
      | none => exact absurd hv (getElem?_none_of_size h hl)
      | some v =>
        simp only
        split
        · simp only [RProg.bind, orElseR]
        · rfl

/-- `len_table` is `read_table` with the value dropped (which has one more bounds check) -/
theorem lenTableG_guarded (bits missing : Nat) (vals lens : Array Nat) :
    Guarded ((readTableG bits missing vals lens).bind fun o => .ret (o.map Prod.snd))
      (lenTableG bits missing lens) := by
  unfold lenTableG readTableG
  simp only [RProg.bind]
  refine Guarded.peek _ fun r => ?_
  cases r with
  | error e => exact Guarded.refl _
  | ok idx =>
    simp only
    cases hl : lens[idx]? with
    | none => exact Guarded.refl _
    | some len =>
      simp only
      split
      · simp only [RProg.bind]
        refine Guarded.skipAfterPeek _ ?_
        cases hv : vals[idx]? with
        | none => exact Guarded.panic _
        | some v => exact Guarded.refl _
      · exact Guarded.refl _

theorem lenTableG_eq (bits missing : Nat) (vals lens : Array Nat) (h : vals.size = lens.size) :
    lenTableG bits missing lens
      = (readTableG bits missing vals lens).bind fun o => .ret (o.map Prod.snd) := by
  unfold lenTableG readTableG
  simp only [RProg.bind]
  congr 1
  funext r
  cases r with
  | error e => rfl
  | ok idx =>
    simp only
    cases hl : lens[idx]? with
    | none => rfl
    | some len =>
      simp only
      split
      · simp only [RProg.bind]
        cases hv : vals[idx]? with
        | none => exact absurd hv (getElem?_none_of_size h hl)
        | some v => rfl
      · rfl

theorem writeTableG_eq (vals lens : Array Nat) (n : Nat) (fb : WProg Nat) :
    (writeTableG vals lens n).bind (orElseW fb) = writeTable { vals := vals, lens := lens } n fb := by
  unfold writeTable writeTableG
  cases hv : vals[n]? with
  | none => rfl
  | some bits =>
    simp only
    cases hl : lens[n]? with
    | none => rfl
    | some len => rfl

/-! ### the generated functions have that shape (this is where the constant and array names used
    by each function are checked) -/

/-- `x_tables::read_table_be / read_table_le` by endianness -/
def gammaReadTable : Endian → RProg (Option (Nat × Nat))
  | .be => Gen.Gamma.read_table_be
  | .le => Gen.Gamma.read_table_le
def deltaReadTable : Endian → RProg (Option (Nat × Nat))
  | .be => Gen.Delta.read_table_be
  | .le => Gen.Delta.read_table_le
def zetaReadTable : Endian → RProg (Option (Nat × Nat))
  | .be => Gen.Zeta.read_table_be
  | .le => Gen.Zeta.read_table_le
def gammaLenTable : Endian → RProg (Option Nat)
  | .be => Gen.Gamma.len_table_be
  | .le => Gen.Gamma.len_table_le
def deltaLenTable : Endian → RProg (Option Nat)
  | .be => Gen.Delta.len_table_be
  | .le => Gen.Delta.len_table_le
def zetaLenTable : Endian → RProg (Option Nat)
  | .be => Gen.Zeta.len_table_be
  | .le => Gen.Zeta.len_table_le
def gammaWriteTable : Endian → Nat → WProg (Option Nat)
  | .be => Gen.Gamma.write_table_be
  | .le => Gen.Gamma.write_table_le
def deltaWriteTable : Endian → Nat → WProg (Option Nat)
  | .be => Gen.Delta.write_table_be
  | .le => Gen.Delta.write_table_le
def zetaWriteTable : Endian → Nat → WProg (Option Nat)
  | .be => Gen.Zeta.write_table_be
  | .le => Gen.Zeta.write_table_le

/- the comparison of the generated text with the generic shapes must not evaluate `T[idx]?` on the
   concrete (up to 4096-entry) tables -/
attribute [local irreducible] Gamma.READ_BE Gamma.READ_LEN_BE Gamma.READ_LE Gamma.READ_LEN_LE
  Gamma.WRITE_BE Gamma.WRITE_LEN_BE Gamma.WRITE_LE Gamma.WRITE_LEN_LE
  Delta.READ_BE Delta.READ_LEN_BE Delta.READ_LE Delta.READ_LEN_LE
  Delta.WRITE_BE Delta.WRITE_LEN_BE Delta.WRITE_LE Delta.WRITE_LEN_LE
  Zeta.READ_BE Zeta.READ_LEN_BE Zeta.READ_LE Zeta.READ_LEN_LE
  Zeta.WRITE_BE Zeta.WRITE_LEN_BE Zeta.WRITE_LE Zeta.WRITE_LEN_LE

theorem gamma_read_table_shape :
    Gen.Gamma.read_table_be = readTableG Gamma.READ_BITS Gamma.MISSING_VALUE_LEN_BE Gamma.READ_BE Gamma.READ_LEN_BE ∧
    Gen.Gamma.read_table_le = readTableG Gamma.READ_BITS Gamma.MISSING_VALUE_LEN_LE Gamma.READ_LE Gamma.READ_LEN_LE :=
  ⟨rfl, rfl⟩
theorem gamma_len_table_shape :
    Gen.Gamma.len_table_be = lenTableG Gamma.READ_BITS Gamma.MISSING_VALUE_LEN_BE Gamma.READ_LEN_BE ∧
    Gen.Gamma.len_table_le = lenTableG Gamma.READ_BITS Gamma.MISSING_VALUE_LEN_LE Gamma.READ_LEN_LE :=
  ⟨rfl, rfl⟩
theorem gamma_write_table_shape (n : Nat) :
    Gen.Gamma.write_table_be n = writeTableG Gamma.WRITE_BE Gamma.WRITE_LEN_BE n ∧
    Gen.Gamma.write_table_le n = writeTableG Gamma.WRITE_LE Gamma.WRITE_LEN_LE n :=
  ⟨rfl, rfl⟩
theorem delta_read_table_shape :
    Gen.Delta.read_table_be = readTableG Delta.READ_BITS Delta.MISSING_VALUE_LEN_BE Delta.READ_BE Delta.READ_LEN_BE ∧
    Gen.Delta.read_table_le = readTableG Delta.READ_BITS Delta.MISSING_VALUE_LEN_LE Delta.READ_LE Delta.READ_LEN_LE :=
  ⟨rfl, rfl⟩
theorem delta_len_table_shape :
    Gen.Delta.len_table_be = lenTableG Delta.READ_BITS Delta.MISSING_VALUE_LEN_BE Delta.READ_LEN_BE ∧
    Gen.Delta.len_table_le = lenTableG Delta.READ_BITS Delta.MISSING_VALUE_LEN_LE Delta.READ_LEN_LE :=
  ⟨rfl, rfl⟩
theorem delta_write_table_shape (n : Nat) :
    Gen.Delta.write_table_be n = writeTableG Delta.WRITE_BE Delta.WRITE_LEN_BE n ∧
    Gen.Delta.write_table_le n = writeTableG Delta.WRITE_LE Delta.WRITE_LEN_LE n :=
  ⟨rfl, rfl⟩
theorem zeta_read_table_shape :
    Gen.Zeta.read_table_be = readTableG Zeta.READ_BITS Zeta.MISSING_VALUE_LEN_BE Zeta.READ_BE Zeta.READ_LEN_BE ∧
    Gen.Zeta.read_table_le = readTableG Zeta.READ_BITS Zeta.MISSING_VALUE_LEN_LE Zeta.READ_LE Zeta.READ_LEN_LE :=
  ⟨rfl, rfl⟩
theorem zeta_len_table_shape :
    Gen.Zeta.len_table_be = lenTableG Zeta.READ_BITS Zeta.MISSING_VALUE_LEN_BE Zeta.READ_LEN_BE ∧
    Gen.Zeta.len_table_le = lenTableG Zeta.READ_BITS Zeta.MISSING_VALUE_LEN_LE Zeta.READ_LEN_LE :=
  ⟨rfl, rfl⟩
theorem zeta_write_table_shape (n : Nat) :
    Gen.Zeta.write_table_be n = writeTableG Zeta.WRITE_BE Zeta.WRITE_LEN_BE n ∧
    Gen.Zeta.write_table_le n = writeTableG Zeta.WRITE_LE Zeta.WRITE_LEN_LE n :=
  ⟨rfl, rfl⟩

/-! ### gamma_tables.rs -/

theorem gamma_read_table_guarded (e : Endian) {fb fb' : RProg Nat} (hf : Guarded fb fb') :
    Guarded (readTable (gammaRTab e) fb) ((gammaReadTable e).bind (orElseR fb')) := by
  cases e
  · show Guarded _ (Gen.Gamma.read_table_be.bind _); rw [gamma_read_table_shape.1]; exact readTableG_guarded _ _ _ _ hf
  · show Guarded _ (Gen.Gamma.read_table_le.bind _); rw [gamma_read_table_shape.2]; exact readTableG_guarded _ _ _ _ hf

theorem gamma_read_table_eq (e : Endian) (h : (gammaRTab e).vals.size = (gammaRTab e).lens.size)
    (fb : RProg Nat) : (gammaReadTable e).bind (orElseR fb) = readTable (gammaRTab e) fb := by
  cases e
  · show Gen.Gamma.read_table_be.bind _ = _; rw [gamma_read_table_shape.1]; exact readTableG_eq _ _ _ _ h fb
  · show Gen.Gamma.read_table_le.bind _ = _; rw [gamma_read_table_shape.2]; exact readTableG_eq _ _ _ _ h fb

theorem gamma_len_table_guarded (e : Endian) :
    Guarded ((gammaReadTable e).bind fun o => .ret (o.map Prod.snd)) (gammaLenTable e) := by
  cases e
  · show Guarded (Gen.Gamma.read_table_be.bind _) Gen.Gamma.len_table_be
    rw [gamma_read_table_shape.1, gamma_len_table_shape.1]; exact lenTableG_guarded _ _ _ _
  · show Guarded (Gen.Gamma.read_table_le.bind _) Gen.Gamma.len_table_le
    rw [gamma_read_table_shape.2, gamma_len_table_shape.2]; exact lenTableG_guarded _ _ _ _

theorem gamma_len_table_eq (e : Endian) (h : (gammaRTab e).vals.size = (gammaRTab e).lens.size) :
    gammaLenTable e = (gammaReadTable e).bind fun o => .ret (o.map Prod.snd) := by
  cases e
  · show Gen.Gamma.len_table_be = Gen.Gamma.read_table_be.bind _
    rw [gamma_read_table_shape.1, gamma_len_table_shape.1]; exact lenTableG_eq _ _ _ _ h
  · show Gen.Gamma.len_table_le = Gen.Gamma.read_table_le.bind _
    rw [gamma_read_table_shape.2, gamma_len_table_shape.2]; exact lenTableG_eq _ _ _ _ h

theorem gamma_write_table_eq (e : Endian) (n : Nat) (fb : WProg Nat) :
    (gammaWriteTable e n).bind (orElseW fb) = writeTable (gammaWTab e) n fb := by
  cases e
  · show (Gen.Gamma.write_table_be n).bind _ = _; rw [(gamma_write_table_shape n).1]; exact writeTableG_eq _ _ n fb
  · show (Gen.Gamma.write_table_le n).bind _ = _; rw [(gamma_write_table_shape n).2]; exact writeTableG_eq _ _ n fb

/-! ### delta_tables.rs -/

theorem delta_read_table_guarded (e : Endian) {fb fb' : RProg Nat} (hf : Guarded fb fb') :
    Guarded (readTable (deltaRTab e) fb) ((deltaReadTable e).bind (orElseR fb')) := by
  cases e
  · show Guarded _ (Gen.Delta.read_table_be.bind _); rw [delta_read_table_shape.1]; exact readTableG_guarded _ _ _ _ hf
  · show Guarded _ (Gen.Delta.read_table_le.bind _); rw [delta_read_table_shape.2]; exact readTableG_guarded _ _ _ _ hf

theorem delta_read_table_eq (e : Endian) (h : (deltaRTab e).vals.size = (deltaRTab e).lens.size)
    (fb : RProg Nat) : (deltaReadTable e).bind (orElseR fb) = readTable (deltaRTab e) fb := by
  cases e
  · show Gen.Delta.read_table_be.bind _ = _; rw [delta_read_table_shape.1]; exact readTableG_eq _ _ _ _ h fb
  · show Gen.Delta.read_table_le.bind _ = _; rw [delta_read_table_shape.2]; exact readTableG_eq _ _ _ _ h fb

theorem delta_len_table_guarded (e : Endian) :
    Guarded ((deltaReadTable e).bind fun o => .ret (o.map Prod.snd)) (deltaLenTable e) := by
  cases e
  · show Guarded (Gen.Delta.read_table_be.bind _) Gen.Delta.len_table_be
    rw [delta_read_table_shape.1, delta_len_table_shape.1]; exact lenTableG_guarded _ _ _ _
  · show Guarded (Gen.Delta.read_table_le.bind _) Gen.Delta.len_table_le
    rw [delta_read_table_shape.2, delta_len_table_shape.2]; exact lenTableG_guarded _ _ _ _

theorem delta_len_table_eq (e : Endian) (h : (deltaRTab e).vals.size = (deltaRTab e).lens.size) :
    deltaLenTable e = (deltaReadTable e).bind fun o => .ret (o.map Prod.snd) := by
  cases e
  · show Gen.Delta.len_table_be = Gen.Delta.read_table_be.bind _
    rw [delta_read_table_shape.1, delta_len_table_shape.1]; exact lenTableG_eq _ _ _ _ h
  · show Gen.Delta.len_table_le = Gen.Delta.read_table_le.bind _
    rw [delta_read_table_shape.2, delta_len_table_shape.2]; exact lenTableG_eq _ _ _ _ h

theorem delta_write_table_eq (e : Endian) (n : Nat) (fb : WProg Nat) :
    (deltaWriteTable e n).bind (orElseW fb) = writeTable (deltaWTab e) n fb := by
  cases e
  · show (Gen.Delta.write_table_be n).bind _ = _; rw [(delta_write_table_shape n).1]; exact writeTableG_eq _ _ n fb
  · show (Gen.Delta.write_table_le n).bind _ = _; rw [(delta_write_table_shape n).2]; exact writeTableG_eq _ _ n fb

/-! ### zeta_tables.rs -/

theorem zeta_read_table_guarded (e : Endian) {fb fb' : RProg Nat} (hf : Guarded fb fb') :
    Guarded (readTable (zetaRTab e) fb) ((zetaReadTable e).bind (orElseR fb')) := by
  cases e
  · show Guarded _ (Gen.Zeta.read_table_be.bind _); rw [zeta_read_table_shape.1]; exact readTableG_guarded _ _ _ _ hf
  · show Guarded _ (Gen.Zeta.read_table_le.bind _); rw [zeta_read_table_shape.2]; exact readTableG_guarded _ _ _ _ hf

theorem zeta_read_table_eq (e : Endian) (h : (zetaRTab e).vals.size = (zetaRTab e).lens.size)
    (fb : RProg Nat) : (zetaReadTable e).bind (orElseR fb) = readTable (zetaRTab e) fb := by
  cases e
  · show Gen.Zeta.read_table_be.bind _ = _; rw [zeta_read_table_shape.1]; exact readTableG_eq _ _ _ _ h fb
  · show Gen.Zeta.read_table_le.bind _ = _; rw [zeta_read_table_shape.2]; exact readTableG_eq _ _ _ _ h fb

theorem zeta_len_table_guarded (e : Endian) :
    Guarded ((zetaReadTable e).bind fun o => .ret (o.map Prod.snd)) (zetaLenTable e) := by
  cases e
  · show Guarded (Gen.Zeta.read_table_be.bind _) Gen.Zeta.len_table_be
    rw [zeta_read_table_shape.1, zeta_len_table_shape.1]; exact lenTableG_guarded _ _ _ _
  · show Guarded (Gen.Zeta.read_table_le.bind _) Gen.Zeta.len_table_le
    rw [zeta_read_table_shape.2, zeta_len_table_shape.2]; exact lenTableG_guarded _ _ _ _

theorem zeta_len_table_eq (e : Endian) (h : (zetaRTab e).vals.size = (zetaRTab e).lens.size) :
    zetaLenTable e = (zetaReadTable e).bind fun o => .ret (o.map Prod.snd) := by
  cases e
  · show Gen.Zeta.len_table_be = Gen.Zeta.read_table_be.bind _
    rw [zeta_read_table_shape.1, zeta_len_table_shape.1]; exact lenTableG_eq _ _ _ _ h
  · show Gen.Zeta.len_table_le = Gen.Zeta.read_table_le.bind _
    rw [zeta_read_table_shape.2, zeta_len_table_shape.2]; exact lenTableG_eq _ _ _ _ h

theorem zeta_write_table_eq (e : Endian) (n : Nat) (fb : WProg Nat) :
    (zetaWriteTable e n).bind (orElseW fb) = writeTable (zetaWTab e) n fb := by
  cases e
  · show (Gen.Zeta.write_table_be n).bind _ = _; rw [(zeta_write_table_shape n).1]; exact writeTableG_eq _ _ n fb
  · show (Gen.Zeta.write_table_le n).bind _ = _; rw [(zeta_write_table_shape n).2]; exact writeTableG_eq _ _ n fb

/-! ### the `*Param` impls -/

/-- `impl GammaReadParam<BE/LE> for B` by endianness -/
def readGammaParam : Endian → Bool → RProg Nat
  | .be => Gen.read_gamma_param_be
  | .le => Gen.read_gamma_param_le
def writeGammaParam : Endian → Bool → Bool → Nat → WProg Nat
  | .be => Gen.write_gamma_param_be
  | .le => Gen.write_gamma_param_le
def readDeltaParam : Endian → Bool → Bool → RProg Nat
  | .be => Gen.read_delta_param_be
  | .le => Gen.read_delta_param_le
def writeDeltaParam : Endian → Bool → Bool → Bool → Nat → WProg Nat
  | .be => Gen.write_delta_param_be
  | .le => Gen.write_delta_param_le
def readZetaParam : Endian → Nat → RProg Nat
  | .be => Gen.read_zeta_param_be
  | .le => Gen.read_zeta_param_le
def readZeta3Param : Endian → Bool → RProg Nat
  | .be => Gen.read_zeta3_param_be
  | .le => Gen.read_zeta3_param_le
def writeZetaParam : Endian → Bool → Nat → Nat → WProg Nat
  | .be => Gen.write_zeta_param_be
  | .le => Gen.write_zeta_param_le
def writeZeta3Param : Endian → Bool → Nat → WProg Nat
  | .be => Gen.write_zeta3_param_be
  | .le => Gen.write_zeta3_param_le

theorem read_gamma_param_guarded (e : Endian) (t : Bool) :
    Guarded (readGammaP e t) (readGammaParam e t) := by
  cases t
  · cases e <;> exact default_read_gamma_guarded
  · cases e
    · exact gamma_read_table_guarded .be default_read_gamma_guarded
    · exact gamma_read_table_guarded .le default_read_gamma_guarded

/-- `default_read_delta::<E, _, G>(self)` with the `read_gamma_param` of the impl for `E` -/
theorem default_read_delta_param_guarded (e : Endian) (tg : Bool) :
    Guarded (readDeltaDefault (opt tg (gammaRTab e))) (Gen.default_read_delta (readGammaParam e) tg) := by
  unfold readDeltaDefault Gen.default_read_delta
  refine Guarded.bind (read_gamma_param_guarded e tg) fun len => ?_
  split
  · exact Guarded.dpanic _
  · rw [one_shl_mod (by omega)]
    exact Guarded.refl _

theorem read_delta_param_guarded (e : Endian) (td tg : Bool) :
    Guarded (readDeltaP e td tg) (readDeltaParam e td tg) := by
  cases td
  · cases e
    · exact default_read_delta_param_guarded .be tg
    · exact default_read_delta_param_guarded .le tg
  · cases e
    · exact delta_read_table_guarded .be (default_read_delta_param_guarded .be tg)
    · exact delta_read_table_guarded .le (default_read_delta_param_guarded .le tg)

theorem read_zeta_param_guarded (e : Endian) (k : Nat) :
    Guarded (readZetaDefault k) (readZetaParam e k) := by
  cases e <;> exact default_read_zeta_guarded k

theorem read_zeta3_param_guarded (e : Endian) (t : Bool) :
    Guarded (readZeta3P e t) (readZeta3Param e t) := by
  cases t
  · cases e <;> exact default_read_zeta_guarded 3
  · cases e
    · exact zeta_read_table_guarded .be (default_read_zeta_guarded 3)
    · exact zeta_read_table_guarded .le (default_read_zeta_guarded 3)

theorem write_gamma_param_eq (e : Endian) (checks t : Bool) {n : Nat} (hn : n < 2 ^ 64 - 1) :
    writeGammaParam e checks t n = writeGammaP e checks t n := by
  cases t
  · cases e <;> exact default_write_gamma_eq checks hn
  · have h := default_write_gamma_eq checks hn
    cases e
    · show _ = writeTable (gammaWTab .be) n (writeGammaDefault checks n)
      rw [← h]; exact gamma_write_table_eq .be n _
    · show _ = writeTable (gammaWTab .le) n (writeGammaDefault checks n)
      rw [← h]; exact gamma_write_table_eq .le n _

/-- `default_write_delta::<E, _, G>(self, n)` with the `write_gamma_param` of the impl for `E` -/
theorem default_write_delta_param_eq (e : Endian) (checks tg : Bool) {n : Nat} (hn : n < 2 ^ 64 - 1) :
    Gen.default_write_delta (writeGammaParam e checks) checks tg n
      = writeDeltaDefault checks (opt tg (gammaWTab e)) n := by
  rw [← default_write_delta_eq e checks tg hn]
  have hl : (n + 1).log2 < 2 ^ 64 - 1 := by
    have := log2_lt_64 (m := n + 1) (by omega)
    omega
  have hg := write_gamma_param_eq e checks tg hl
  unfold Gen.default_write_delta
  simp only [hg]

theorem write_delta_param_eq (e : Endian) (checks td tg : Bool) {n : Nat} (hn : n < 2 ^ 64 - 1) :
    writeDeltaParam e checks td tg n = writeDeltaP e checks td tg n := by
  cases td
  · cases e
    · exact default_write_delta_param_eq .be checks tg hn
    · exact default_write_delta_param_eq .le checks tg hn
  · cases e
    · have h := default_write_delta_param_eq .be checks tg hn
      show _ = writeTable (deltaWTab .be) n (writeDeltaDefault checks (opt tg (gammaWTab .be)) n)
      rw [← h]; exact delta_write_table_eq .be n _
    · have h := default_write_delta_param_eq .le checks tg hn
      show _ = writeTable (deltaWTab .le) n (writeDeltaDefault checks (opt tg (gammaWTab .le)) n)
      rw [← h]; exact delta_write_table_eq .le n _

/-- `write_zeta_param::<T>` ignores its flag: there is no table lookup for a general `k` -/
theorem write_zeta_param_eq (e : Endian) (t : Bool) {n k : Nat} (hn : n < 2 ^ 64 - 1) (hk0 : k ≠ 0)
    (hk : k < 64) : writeZetaParam e t n k = writeZetaDefault n k := by
  cases e <;> exact default_write_zeta_eq hn hk0 hk

theorem write_zeta3_param_eq (e : Endian) (t : Bool) {n : Nat} (hn : n < 2 ^ 64 - 1) :
    writeZeta3Param e t n = writeZeta3P e t n := by
  have h := default_write_zeta_eq (k := 3) hn (by decide) (by decide)
  cases t
  · cases e <;> exact h
  · cases e
    · show _ = writeTable (zetaWTab .be) n (writeZetaDefault n 3)
      rw [← h]; exact zeta_write_table_eq .be n _
    · show _ = writeTable (zetaWTab .le) n (writeZetaDefault n 3)
      rw [← h]; exact zeta_write_table_eq .le n _

end TableFnsGen
end Dsi
