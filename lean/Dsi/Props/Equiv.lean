/-
  The codeword equalities behind `CodeId.equiv` (C10 / C16 accept the aliases of the dispatch
  tables "up to proved codeword equality": this is the proof).

  1. the published codewords (`Dsi.Spec`) of the codes the library documents as identical are equal,
     for every endianness and every argument (no domain bound is needed at this level);
  2. `equiv_codewords`: the syntactic relation `CodeId.equiv` of `Dsi/Glue/Dispatch.lean` implies
     equality of codewords, `CodeId.lenEquiv` equality of codeword lengths;
  3. program-level consequences on the reference machines: the aliased reader / writer programs
     decode / append the same bits and return the same value / length.
-/
import Dsi.Lemmas.EquivSpec
import Dsi.Props.C05
import Dsi.Props.C10
namespace Dsi
open EqvL Gen

/-! ## 1. equalities of published codewords -/

theorem spec_zeta1_eq_gamma (e : Endian) (n : Nat) : Spec.zeta e 1 n = Spec.gamma e n := by
  unfold Spec.zeta Spec.gamma
  simp only [Nat.div_one, Nat.mul_one, two_pow_succ_sub]
  have hm : n + 1 ≠ 0 := Nat.succ_ne_zero n
  rw [minbin_pow2 e _ _ (sub_pow_log2_lt hm)]
  congr 1
  exact fieldBits_congr e (sub_pow_log2_mod hm)

theorem spec_pi0_eq_gamma (e : Endian) (n : Nat) : Spec.pi e 0 n = Spec.gamma e n := by
  simp [Spec.pi, Spec.rice, Spec.gamma, fieldBits_zero]

theorem spec_expGolomb0_eq_gamma (e : Endian) (n : Nat) : Spec.expGolomb e 0 n = Spec.gamma e n := by
  simp [Spec.expGolomb, fieldBits_zero]

theorem spec_rice0_eq_unary (e : Endian) (n : Nat) : Spec.rice e 0 n = Spec.unary n := by
  simp [Spec.rice, fieldBits_zero]

theorem spec_golomb_pow2_eq_rice (e : Endian) (j n : Nat) :
    Spec.golomb e (2 ^ j) n = Spec.rice e j n := by
  unfold Spec.golomb Spec.rice
  rw [minbin_pow2 e _ _ (Nat.mod_lt _ (Nat.two_pow_pos j))]
  congr 1
  exact fieldBits_congr e (Nat.mod_mod _ _)

theorem spec_golomb1_eq_unary (e : Endian) (n : Nat) : Spec.golomb e 1 n = Spec.unary n := by
  have := spec_golomb_pow2_eq_rice e 0 n
  rw [Nat.pow_zero] at this
  rw [this, spec_rice0_eq_unary]

theorem spec_golomb2_eq_rice1 (e : Endian) (n : Nat) : Spec.golomb e 2 n = Spec.rice e 1 n :=
  spec_golomb_pow2_eq_rice e 1 n
theorem spec_golomb4_eq_rice2 (e : Endian) (n : Nat) : Spec.golomb e 4 n = Spec.rice e 2 n :=
  spec_golomb_pow2_eq_rice e 2 n
theorem spec_golomb8_eq_rice3 (e : Endian) (n : Nat) : Spec.golomb e 8 n = Spec.rice e 3 n :=
  spec_golomb_pow2_eq_rice e 3 n

/-- the two byte orders of VByte have codewords of the same length -/
theorem spec_vbyte_len_eq (e : Endian) (n : Nat) :
    (Spec.vbyte e true n).length = (Spec.vbyte e false n).length := by
  simp only [Spec.vbyte, CodesB.bits_length, CodesB.specBytes_length]

/-! ## 2. `CodeId.equiv` implies equal codewords -/

/-- The published codeword of a code identifier.  The parameterless families ignore `p`
    (`CodeId.canon` normalises it to `0`); ζ₀ and Golomb₀ have no codeword (the library divides by
    the parameter). -/
def CodeId.codeword (c : CodeId) (e : Endian) (n : Nat) : Option (List Bool) :=
  match c.fam with
  | .unary => some (Spec.unary n)
  | .gamma => some (Spec.gamma e n)
  | .delta => some (Spec.delta e n)
  | .omega => some (Spec.omega e n)
  | .vbyteBe => some (Spec.vbyte e true n)
  | .vbyteLe => some (Spec.vbyte e false n)
  | .zeta => if c.p = 0 then none else some (Spec.zeta e c.p n)
  | .pi => some (Spec.pi e c.p n)
  | .golomb => if c.p = 0 then none else some (Spec.golomb e c.p n)
  | .expGolomb => some (Spec.expGolomb e c.p n)
  | .rice => some (Spec.rice e c.p n)

/-- the length of the published codeword -/
def CodeId.codewordLen (c : CodeId) (e : Endian) (n : Nat) : Option Nat :=
  (c.codeword e n).map List.length

/-- the canonical representative has the same codewords -/
theorem CodeId.codeword_canon (c : CodeId) (e : Endian) (n : Nat) :
    c.canon.codeword e n = c.codeword e n := by
  obtain ⟨fam, p⟩ := c
  cases fam
  case zeta =>
    by_cases h1 : p = 1
    · subst h1; simp [CodeId.canon, CodeId.codeword, spec_zeta1_eq_gamma]
    · simp [CodeId.canon, h1]
  case pi =>
    by_cases h0 : p = 0
    · subst h0; simp [CodeId.canon, CodeId.codeword, spec_pi0_eq_gamma]
    · simp [CodeId.canon, h0]
  case expGolomb =>
    by_cases h0 : p = 0
    · subst h0; simp [CodeId.canon, CodeId.codeword, spec_expGolomb0_eq_gamma]
    · simp [CodeId.canon, h0]
  case rice =>
    by_cases h0 : p = 0
    · subst h0; simp [CodeId.canon, CodeId.codeword, spec_rice0_eq_unary]
    · simp [CodeId.canon, h0]
  case golomb =>
    by_cases h1 : p = 1
    · subst h1; simp [CodeId.canon, CodeId.codeword, spec_golomb1_eq_unary]
    by_cases h2 : p = 2
    · subst h2; simp [CodeId.canon, CodeId.codeword, spec_golomb2_eq_rice1]
    by_cases h4 : p = 4
    · subst h4; simp [CodeId.canon, CodeId.codeword, spec_golomb4_eq_rice2]
    by_cases h8 : p = 8
    · subst h8; simp [CodeId.canon, CodeId.codeword, spec_golomb8_eq_rice3]
    simp [CodeId.canon, h1, h2, h4, h8]
  all_goals rfl

/-- **Codes related by `CodeId.equiv` have the same codewords**, for every endianness and every
    argument (both sides are `none` exactly for ζ₀ / Golomb₀). -/
theorem equiv_codewords {a b : CodeId} (h : a.equiv b = true) (e : Endian) (n : Nat) :
    a.codeword e n = b.codeword e n := by
  have hc : a.canon = b.canon := by simpa [CodeId.equiv] using h
  rw [← CodeId.codeword_canon a, ← CodeId.codeword_canon b, hc]

theorem CodeId.codewordLen_lenCanon (c : CodeId) (e : Endian) (n : Nat) :
    c.lenCanon.codewordLen e n = c.codewordLen e n := by
  have hcan : c.canon.codewordLen e n = c.codewordLen e n := by
    simp only [CodeId.codewordLen, CodeId.codeword_canon]
  unfold CodeId.lenCanon
  by_cases hf : c.canon.fam = Family.vbyteLe
  · simp only [hf, if_true]
    rw [← hcan]
    simp only [CodeId.codewordLen, CodeId.codeword, hf, Option.map_some, spec_vbyte_len_eq]
  · simp only [hf, if_false]
    exact hcan

/-- **Codes related by `CodeId.lenEquiv` (`equiv`, plus VByteBe ~ VByteLe) have codewords of the
    same length.** -/
theorem lenEquiv_codeword_lengths {a b : CodeId} (h : a.lenEquiv b = true) (e : Endian) (n : Nat) :
    a.codewordLen e n = b.codewordLen e n := by
  have hc : a.lenCanon = b.lenCanon := by simpa [CodeId.lenEquiv] using h
  rw [← CodeId.codewordLen_lenCanon a, ← CodeId.codewordLen_lenCanon b, hc]

/-- the relation used by the dispatch theorems for each kind of call -/
theorem equivK_codewords (k : Kind) {a b : CodeId} (h : equivK k a b = true) (e : Endian) (n : Nat) :
    a.codewordLen e n = b.codewordLen e n ∧ (k ≠ .len → a.codeword e n = b.codeword e n) := by
  cases k
  case len => exact ⟨lenEquiv_codeword_lengths h e n, fun h => absurd rfl h⟩
  all_goals
    exact ⟨by simp only [CodeId.codewordLen, equiv_codewords h e n], fun _ => equiv_codewords h e n⟩

example : (⟨.zeta, 1⟩ : CodeId).codeword .le 5 = (⟨.expGolomb, 0⟩ : CodeId).codeword .le 5 :=
  equiv_codewords (by decide) .le 5
example : (⟨.golomb, 8⟩ : CodeId).codeword .be 100 = (⟨.rice, 3⟩ : CodeId).codeword .be 100 :=
  equiv_codewords (by decide) .be 100
example : (⟨.golomb, 8⟩ : CodeId).codeword .be 100
    = some [false, false, false, false, false, false, false, false, false, false, false, false,
            true, true, false, false] := by decide
example : (⟨.vbyteLe, 0⟩ : CodeId).codewordLen .be 300000 = (⟨.vbyteBe, 7⟩ : CodeId).codewordLen .be 300000 :=
  lenEquiv_codeword_lengths (by decide) .be 300000

/-! ## 3. program-level consequences on the reference machines

`Writes p e checks bits`: on every growable reference writer `p` appends exactly `bits` and returns
their number; `Reads p e bits v`: wherever `bits` is embedded in a stream, `p` returns `v` and
consumes exactly `bits`.  Two programs with the same `Writes` (`Reads`) statement therefore run
identically there (`EqvL.writes_run_eq`, `EqvL.reads_run_eq`). -/

/-- for `k = 1` the bound `2^{(h+1)k}` never wraps: the implemented ζ₁ is the published one, i.e. γ -/
theorem zeta1_wrapped_eq_gamma (e : Endian) (n : Nat) (hn : n < 2 ^ 64 - 1) :
    Spec.zetaWrapped e 1 n = Spec.gamma e n := by
  have hl := log2_lt_64 (m := n + 1) (by omega)
  rw [zeta_published e 1 n (by rw [Nat.div_one, Nat.mul_one]; omega), spec_zeta1_eq_gamma]

/-! ### ζ₁ = γ -/

theorem zeta1_writes_gamma (e : Endian) (checks : Bool) (n : Nat) (hn : n < 2 ^ 64 - 1) :
    Writes (writeZetaDefault n 1) e checks (Spec.gamma e n) := by
  rw [← zeta1_wrapped_eq_gamma e n hn]
  exact zeta_writes e checks 1 n (by decide) (by decide) hn

theorem gamma_writes_zeta1 (e : Endian) (checks : Bool) (n : Nat) (hn : n < 2 ^ 64 - 1) :
    Writes (writeGammaDefault checks n) e checks (Spec.zeta e 1 n) := by
  rw [spec_zeta1_eq_gamma]; exact gamma_writes e checks n hn

/-- `write_zeta(n, 1)` and `write_gamma(n)` append the same bits and return the same length, on
    every growable reference writer and for every `n` (both panic for `n = 2^64 − 1`) -/
theorem writeZeta1_run_eq_gamma (e : Endian) (checks : Bool) (n : Nat) (w : RefW) (he : w.e = e)
    (hcap : w.cap = none) (hc : w.checks = checks) :
    (writeZetaDefault n 1).run RefW.impl w = (writeGammaDefault checks n).run RefW.impl w := by
  by_cases hn : n < 2 ^ 64 - 1
  · exact writes_run_eq (zeta1_writes_gamma e checks n hn) (gamma_writes e checks n hn) w he hcap hc
  · have hn' : n ≥ 2 ^ 64 - 1 := by omega
    unfold writeZetaDefault writeGammaDefault
    rw [if_pos hn', if_pos hn']

theorem zeta1_reads_gamma (e : Endian) (n : Nat) (hn : n < 2 ^ 64 - 1) :
    Reads (readZetaDefault 1) e (Spec.gamma e n) n := by
  rw [← zeta1_wrapped_eq_gamma e n hn]
  exact zeta_reads e 1 n (by decide) (by decide) hn

theorem gamma_reads_zeta1 (e : Endian) (n : Nat) (hn : n < 2 ^ 64 - 1) :
    Reads readGammaDefault e (Spec.zeta e 1 n) n := by
  rw [spec_zeta1_eq_gamma]; exact gamma_reads e n hn

/-! ### π₀ = γ -/

theorem pi0_writes_gamma (e : Endian) (checks : Bool) (n : Nat) (hn : n < 2 ^ 64 - 1) :
    Writes (writePi checks n 0) e checks (Spec.gamma e n) := by
  rw [← spec_pi0_eq_gamma]; exact pi_writes e checks 0 n (by decide) hn

theorem gamma_writes_pi0 (e : Endian) (checks : Bool) (n : Nat) (hn : n < 2 ^ 64 - 1) :
    Writes (writeGammaDefault checks n) e checks (Spec.pi e 0 n) := by
  rw [spec_pi0_eq_gamma]; exact gamma_writes e checks n hn

theorem pi0_reads_gamma (e : Endian) (n : Nat) (hn : n < 2 ^ 64 - 1) :
    Reads (readPi 0) e (Spec.gamma e n) n := by
  rw [← spec_pi0_eq_gamma]; exact pi_reads e 0 n (by decide) hn

theorem gamma_reads_pi0 (e : Endian) (n : Nat) (hn : n < 2 ^ 64 - 1) :
    Reads readGammaDefault e (Spec.pi e 0 n) n := by
  rw [spec_pi0_eq_gamma]; exact gamma_reads e n hn

/-! ### exp-Golomb₀ = γ -/

theorem expGolomb0_writes_gamma (e : Endian) (checks : Bool) (n : Nat) (hn : n < 2 ^ 64 - 1) :
    Writes (writeExpGolomb checks none n 0) e checks (Spec.gamma e n) := by
  rw [← spec_expGolomb0_eq_gamma]
  exact expGolomb_writes e checks 0 n (by decide) (by omega) (fun _ => hn)

theorem gamma_writes_expGolomb0 (e : Endian) (checks : Bool) (n : Nat) (hn : n < 2 ^ 64 - 1) :
    Writes (writeGammaDefault checks n) e checks (Spec.expGolomb e 0 n) := by
  rw [spec_expGolomb0_eq_gamma]; exact gamma_writes e checks n hn

theorem expGolomb0_reads_gamma (e : Endian) (n : Nat) (hn : n < 2 ^ 64 - 1) :
    Reads (readExpGolomb none 0) e (Spec.gamma e n) n := by
  rw [← spec_expGolomb0_eq_gamma]
  exact expGolomb_reads e 0 n (by decide) (by omega) (fun _ => hn)

theorem gamma_reads_expGolomb0 (e : Endian) (n : Nat) (hn : n < 2 ^ 64 - 1) :
    Reads readGammaDefault e (Spec.expGolomb e 0 n) n := by
  rw [spec_expGolomb0_eq_gamma]; exact gamma_reads e n hn

/-! ### Rice₀ = Golomb₁ = unary -/

theorem rice0_writes_unary (e : Endian) (checks : Bool) (n : Nat) (hn : n < 2 ^ 64 - 1) :
    Writes (writeRice checks n 0) e checks (Spec.unary n) := by
  rw [← spec_rice0_eq_unary e]
  exact rice_writes e checks 0 n (by decide) (by rw [Nat.pow_zero, Nat.div_one]; exact hn)

theorem unary_writes_rice0 (e : Endian) (checks : Bool) (n : Nat) (hn : n < 2 ^ 64 - 1) :
    Writes (writeUnaryC n) e checks (Spec.rice e 0 n) := by
  rw [spec_rice0_eq_unary]; exact unary_writes e checks n hn

theorem rice0_reads_unary (e : Endian) (n : Nat) (hn : n < 2 ^ 64) :
    Reads (readRice 0) e (Spec.unary n) n := by
  rw [← spec_rice0_eq_unary e]; exact rice_reads e 0 n (by decide) hn

theorem unary_reads_rice0 (e : Endian) (n : Nat) : Reads readUnaryC e (Spec.rice e 0 n) n := by
  rw [spec_rice0_eq_unary]; exact unary_reads e n

theorem golomb1_writes_unary (e : Endian) (checks : Bool) (n : Nat) (hn : n < 2 ^ 64 - 1) :
    Writes (writeGolomb n 1) e checks (Spec.unary n) := by
  rw [← spec_golomb1_eq_unary e]
  exact golomb_writes e checks 1 n (by decide) (by decide) (by rw [Nat.div_one]; exact hn)

theorem unary_writes_golomb1 (e : Endian) (checks : Bool) (n : Nat) (hn : n < 2 ^ 64 - 1) :
    Writes (writeUnaryC n) e checks (Spec.golomb e 1 n) := by
  rw [spec_golomb1_eq_unary]; exact unary_writes e checks n hn

theorem golomb1_reads_unary (e : Endian) (n : Nat) (hn : n < 2 ^ 64) :
    Reads (readGolomb 1) e (Spec.unary n) n := by
  rw [← spec_golomb1_eq_unary e]; exact golomb_reads e 1 n (by decide) (by decide) hn

theorem unary_reads_golomb1 (e : Endian) (n : Nat) : Reads readUnaryC e (Spec.golomb e 1 n) n := by
  rw [spec_golomb1_eq_unary]; exact unary_reads e n

/-! ### Golomb_{2^j} = Rice_j (`j ≤ 63`; in the dispatch tables `j = 1, 2, 3`) -/

theorem golomb_pow2_writes_rice (e : Endian) (checks : Bool) (j n : Nat) (hj : j ≤ 63)
    (hq : n / 2 ^ j < 2 ^ 64 - 1) :
    Writes (writeGolomb n (2 ^ j)) e checks (Spec.rice e j n) := by
  rw [← spec_golomb_pow2_eq_rice]
  exact golomb_writes e checks (2 ^ j) n (Nat.two_pow_pos j)
    (Nat.pow_lt_pow_right (by decide) (by omega)) hq

theorem rice_writes_golomb_pow2 (e : Endian) (checks : Bool) (j n : Nat) (hj : j ≤ 63)
    (hq : n / 2 ^ j < 2 ^ 64 - 1) :
    Writes (writeRice checks n j) e checks (Spec.golomb e (2 ^ j) n) := by
  rw [spec_golomb_pow2_eq_rice]; exact rice_writes e checks j n hj hq

theorem golomb_pow2_reads_rice (e : Endian) (j n : Nat) (hj : j ≤ 63) (hn : n < 2 ^ 64) :
    Reads (readGolomb (2 ^ j)) e (Spec.rice e j n) n := by
  rw [← spec_golomb_pow2_eq_rice]
  exact golomb_reads e (2 ^ j) n (Nat.two_pow_pos j) (Nat.pow_lt_pow_right (by decide) (by omega)) hn

theorem rice_reads_golomb_pow2 (e : Endian) (j n : Nat) (hj : j ≤ 63) (hn : n < 2 ^ 64) :
    Reads (readRice j) e (Spec.golomb e (2 ^ j) n) n := by
  rw [spec_golomb_pow2_eq_rice]; exact rice_reads e j n hj hn

/-- `write_golomb(n, 2^j)` and `write_rice(n, j)` run identically on every growable writer -/
theorem writeGolomb_pow2_run_eq_rice (e : Endian) (checks : Bool) (j n : Nat) (hj : j ≤ 63)
    (hq : n / 2 ^ j < 2 ^ 64 - 1) (w : RefW) (he : w.e = e) (hcap : w.cap = none)
    (hc : w.checks = checks) :
    (writeGolomb n (2 ^ j)).run RefW.impl w = (writeRice checks n j).run RefW.impl w :=
  writes_run_eq (golomb_pow2_writes_rice e checks j n hj hq) (rice_writes e checks j n hj hq) w he hcap hc

/-- `read_golomb(2^j)` and `read_rice(j)` run identically at every Rice_j codeword -/
theorem readGolomb_pow2_run_eq_rice (e : Endian) (j n : Nat) (hj : j ≤ 63) (hn : n < 2 ^ 64)
    (pre post : List Bool) (strict : Bool) (pm : Nat) (hpm : 1 ≤ pm) :
    (readGolomb (2 ^ j)).run RefR.impl (RefR.at e pre (Spec.rice e j n) post strict pm)
      = (readRice j).run RefR.impl (RefR.at e pre (Spec.rice e j n) post strict pm) :=
  reads_run_eq (golomb_pow2_reads_rice e j n hj hn) (rice_reads e j n hj hn) pre post strict pm hpm

/-- `read_zeta(1)` and `read_gamma` run identically at every γ codeword -/
theorem readZeta1_run_eq_gamma (e : Endian) (n : Nat) (hn : n < 2 ^ 64 - 1)
    (pre post : List Bool) (strict : Bool) (pm : Nat) (hpm : 1 ≤ pm) :
    (readZetaDefault 1).run RefR.impl (RefR.at e pre (Spec.gamma e n) post strict pm)
      = readGammaDefault.run RefR.impl (RefR.at e pre (Spec.gamma e n) post strict pm) :=
  reads_run_eq (zeta1_reads_gamma e n hn) (gamma_reads e n hn) pre post strict pm hpm

/-! ### `read_zeta3` / `write_zeta3` perform ζ₃ whatever the table option -/

/-- `Reads` for programs that look ahead (table readers): only on readers whose look-ahead
    capacity `peekMax` is at least `K` -/
def ReadsPM {α : Type} (K : Nat) (p : RProg α) (e : Endian) (bits : List Bool) (a : α) : Prop :=
  ∀ pre post strict pm, K ≤ pm → 1 ≤ pm →
    p.run RefR.impl (RefR.at e pre bits post strict pm) = .ok (a, RefR.after e pre bits post strict pm)

theorem Reads.toPM {α : Type} {p : RProg α} {e : Endian} {bits : List Bool} {a : α}
    (h : Reads p e bits a) (K : Nat) : ReadsPM K p e bits a :=
  fun pre post strict pm _ hpm => h pre post strict pm hpm

theorem ReadsPM.mono {α : Type} {p : RProg α} {e : Endian} {bits : List Bool} {a : α} {K K' : Nat}
    (h : ReadsPM K p e bits a) (hK : K ≤ K') : ReadsPM K' p e bits a :=
  fun pre post strict pm hk hpm => h pre post strict pm (Nat.le_trans hK hk) hpm

/-- transport along a run equality that holds for look-ahead capacities `≥ K` -/
theorem ReadsPM.of_run_eq {p q : RProg Nat} {e : Endian} {bits : List Bool} {v : Nat} {K : Nat}
    (hq : Reads q e bits v)
    (h : ∀ r : RefR, r.e = e → K ≤ r.peekMax → p.run RefR.impl r = q.run RefR.impl r) :
    ReadsPM K p e bits v := by
  intro pre post strict pm hk hpm
  rw [h _ rfl hk]
  exact hq pre post strict pm hpm

theorem readZeta3_none : readZeta3 none = readZetaDefault 3 := rfl
theorem writeZeta3_none (n : Nat) : writeZeta3 none n = writeZetaDefault n 3 := rfl

/-- `write_zeta3`, table on or off, appends the (implemented) ζ₃ codeword -/
theorem writeZeta3P_writes (e : Endian) (checks t : Bool) (n : Nat) (hn : n < 2 ^ 64 - 1) :
    Writes (writeZeta3P e t n) e checks (Spec.zetaWrapped e 3 n) :=
  writes_of_run_eq (zeta_writes e checks 3 n (by decide) (by decide) hn)
    (fun w he _ => writeZeta3P_eq e t n w he)

/-- … which is the published one for `n + 1 < 2^63` (for larger `n` the bound `2^66` wraps) -/
theorem zeta3_published (e : Endian) (n : Nat) (hn : n + 1 < 2 ^ 63) :
    Spec.zetaWrapped e 3 n = Spec.zeta e 3 n := by
  apply zeta_published
  have hl : (n + 1).log2 < 63 := (Nat.log2_lt (Nat.succ_ne_zero n)).2 hn
  omega

theorem writeZeta3P_writes_published (e : Endian) (checks t : Bool) (n : Nat) (hn : n + 1 < 2 ^ 63) :
    Writes (writeZeta3P e t n) e checks (Spec.zeta e 3 n) := by
  rw [← zeta3_published e n hn]; exact writeZeta3P_writes e checks t n (by omega)

/-- `write_zeta3` and `write_zeta(_, 3)` run identically on every reference writer -/
theorem writeZeta3P_run_eq (e : Endian) (t : Bool) (n : Nat) (w : RefW) (he : w.e = e) :
    (writeZeta3P e t n).run RefW.impl w = (writeZetaDefault n 3).run RefW.impl w :=
  writeZeta3P_eq e t n w he

/-- `read_zeta3`, table on or off, decodes the ζ₃ codeword (table on: look-ahead capacity at least
    the index width) -/
theorem readZeta3P_reads (e : Endian) (t : Bool) (n : Nat) (hn : n < 2 ^ 64 - 1) :
    ReadsPM (if t then Zeta.READ_BITS else 0) (readZeta3P e t) e (Spec.zetaWrapped e 3 n) n :=
  ReadsPM.of_run_eq (zeta_reads e 3 n (by decide) (by decide) hn)
    (fun r he hk => readZeta3P_eq e t r he (fun ht => by rw [ht] at hk; exact hk))

/-- the parameterless methods (flags from the generated `Params`) -/
theorem writeZeta3D_writes (e : Endian) (checks : Bool) (n : Nat) (hn : n < 2 ^ 64 - 1) :
    Writes (writeZeta3D e n) e checks (Spec.zetaWrapped e 3 n) :=
  writeZeta3P_writes e checks _ n hn

theorem readZeta3D_reads (e : Endian) (n : Nat) (hn : n < 2 ^ 64 - 1) :
    ReadsPM Zeta.READ_BITS (readZeta3D e) e (Spec.zetaWrapped e 3 n) n :=
  (readZeta3P_reads e _ n hn).mono (by split <;> simp)

/-! ## 4. the dispatchers' own programs perform the codeword of their code

`ownWrite` / `ownRead` / `ownLen` (`Dsi/Glue/Dispatch.lean`) are the parameterless default trait
methods, tables included.  On the domain `CodeId.Dom` each of them writes / decodes / measures the
published codeword of its code; with `equiv_codewords` two identifiers related by `CodeId.equiv`
therefore name programs that write the same bits, decode the same bits and return the same
lengths — which is what "up to proved codeword equality" means in C10 / C16. -/

/-- the widest table index (`12`, the ζ₃ table): a reader with at least this look-ahead capacity
    can run every table-driven default method -/
def tablePeek : Nat := max Gamma.READ_BITS (max Delta.READ_BITS Zeta.READ_BITS)

theorem gamma_le_tablePeek : Gamma.READ_BITS ≤ tablePeek := by decide
theorem delta_le_tablePeek : Delta.READ_BITS ≤ tablePeek := by decide
theorem zeta_le_tablePeek : Zeta.READ_BITS ≤ tablePeek := by decide
theorem tablePeek_le_32 : tablePeek ≤ 32 := by decide
theorem one_le_tablePeek : 1 ≤ tablePeek := by decide

/-- The arguments on which the library claims the code: the value range of the code, a legal
    parameter, a writable unary part; for ζ_k also that the bound `2^{(h+1)k}` does not wrap (beyond,
    the implemented ζ is `Spec.zetaWrapped`, not the published code). -/
def CodeId.Dom (c : CodeId) (v : Nat) : Prop :=
  match c.fam with
  | .unary => v < 2 ^ 64 - 1
  | .gamma => v < 2 ^ 64 - 1
  | .delta => v < 2 ^ 64 - 1
  | .omega => v < 2 ^ 64 - 1
  | .vbyteBe => v < 2 ^ 64
  | .vbyteLe => v < 2 ^ 64
  | .zeta => 1 ≤ c.p ∧ c.p ≤ 63 ∧ v < 2 ^ 64 - 1 ∧ ((v + 1).log2 / c.p + 1) * c.p ≤ 64
  | .pi => c.p ≤ 63 ∧ v < 2 ^ 64 - 1
  | .golomb => 1 ≤ c.p ∧ c.p < 2 ^ 64 ∧ v < 2 ^ 64 ∧ v / c.p < 2 ^ 64 - 1
  | .expGolomb => c.p ≤ 63 ∧ v < 2 ^ 64 ∧ (c.p = 0 → v < 2 ^ 64 - 1)
  | .rice => c.p ≤ 63 ∧ v < 2 ^ 64 ∧ v / 2 ^ c.p < 2 ^ 64 - 1

instance (c : CodeId) (v : Nat) : Decidable (c.Dom v) := by
  unfold CodeId.Dom
  split <;> infer_instance

/-! ### the default methods of γ, δ, exp-Golomb (tables selected by the generated `Params`) -/

theorem writeGammaD_writes (e : Endian) (checks : Bool) (n : Nat) (hn : n < 2 ^ 64 - 1) :
    Writes (writeGammaD e checks n) e checks (Spec.gamma e n) :=
  writes_of_run_eq (gamma_writes e checks n hn) (fun w he hc => writeGammaD_eq e checks n w he hc)

theorem writeDeltaD_writes (e : Endian) (checks : Bool) (n : Nat) (hn : n < 2 ^ 64 - 1) :
    Writes (writeDeltaD e checks n) e checks (Spec.delta e n) :=
  writes_of_run_eq (delta_writes e checks n hn) (fun w he hc => writeDeltaD_eq e checks n w he hc)

theorem writeExpGolomb_opt_eq (e : Endian) (checks t : Bool) (n k : Nat) (w : RefW) (he : w.e = e)
    (hc : w.checks = checks) :
    (writeExpGolomb checks (opt t (gammaWTab e)) n k).run RefW.impl w
      = (writeExpGolomb checks none n k).run RefW.impl w := by
  unfold writeExpGolomb
  by_cases hk : k ≥ 64
  · rw [if_pos hk, if_pos hk]
  · rw [if_neg hk, if_neg hk]
    simp only
    rw [WProg.run_bind, WProg.run_bind]
    have := writeGammaP_eq e checks t (n / 2 ^ k) w he hc
    unfold writeGammaP at this
    rw [this]
    rfl

theorem writeExpGolombD_writes (e : Endian) (checks : Bool) (k n : Nat) (hk : k ≤ 63) (hn : n < 2 ^ 64)
    (hk0 : k = 0 → n < 2 ^ 64 - 1) :
    Writes (writeExpGolombD e checks n k) e checks (Spec.expGolomb e k n) :=
  writes_of_run_eq (expGolomb_writes e checks k n hk hn hk0)
    (fun w he hc => writeExpGolomb_opt_eq e checks _ n k w he hc)

theorem readGammaD_reads (e : Endian) (n : Nat) (hn : n < 2 ^ 64 - 1) :
    ReadsPM Gamma.READ_BITS (readGammaD e) e (Spec.gamma e n) n :=
  ReadsPM.of_run_eq (gamma_reads e n hn) (fun r he hk => readGammaD_eq e r he (fun _ => hk))

theorem readDeltaD_reads (e : Endian) (n : Nat) (hn : n < 2 ^ 64 - 1) :
    ReadsPM (max Delta.READ_BITS Gamma.READ_BITS) (readDeltaD e) e (Spec.delta e n) n :=
  ReadsPM.of_run_eq (delta_reads e n hn)
    (fun r he hk => readDeltaD_eq e r he (fun _ => Nat.le_trans (Nat.le_max_left _ _) hk)
      (fun _ => Nat.le_trans (Nat.le_max_right _ _) hk))

theorem readExpGolomb_opt_eq (e : Endian) (t : Bool) (k : Nat) (r : RefR) (he : r.e = e)
    (hpm : t = true → Gamma.READ_BITS ≤ r.peekMax) :
    (readExpGolomb (opt t (gammaRTab e)) k).run RefR.impl r
      = (readExpGolomb none k).run RefR.impl r := by
  unfold readExpGolomb
  by_cases hk : k ≥ 64
  · rw [if_pos hk, if_pos hk]
  · rw [if_neg hk, if_neg hk]
    rw [RProg.run_bind, RProg.run_bind]
    have := readGammaP_eq e t r he hpm
    unfold readGammaP at this
    rw [this]
    rfl

theorem readExpGolombD_reads (e : Endian) (k n : Nat) (hk : k ≤ 63) (hn : n < 2 ^ 64)
    (hk0 : k = 0 → n < 2 ^ 64 - 1) :
    ReadsPM Gamma.READ_BITS (readExpGolombD e k) e (Spec.expGolomb e k n) n :=
  ReadsPM.of_run_eq (expGolomb_reads e k n hk hn hk0)
    (fun r he hpm => readExpGolomb_opt_eq e _ k r he (fun _ => hpm))

theorem lenExpGolombD_eq (n k : Nat) : lenExpGolombD n k = lenExpGolomb none n k := by
  show lenGammaP _ _ + k = _
  rw [lenGammaP_eq]
  rfl

/-! ### every family -/

/-- **C04 for the dispatchers' writers**: the own writer program of a code appends the published
    codeword of that code -/
theorem ownWrite_writes (e : Endian) (checks : Bool) (c : CodeId) (v : Nat) (h : c.Dom v) :
    ∃ cw, c.codeword e v = some cw ∧ Writes (ownWrite e checks c v) e checks cw := by
  obtain ⟨fam, p⟩ := c
  cases fam
  case unary => exact ⟨_, rfl, unary_writes e checks v h⟩
  case gamma => exact ⟨_, rfl, writeGammaD_writes e checks v h⟩
  case delta => exact ⟨_, rfl, writeDeltaD_writes e checks v h⟩
  case omega => exact ⟨_, rfl, omega_writes e checks v h⟩
  case vbyteBe => exact ⟨_, rfl, vbyte_be_writes e checks v h⟩
  case vbyteLe => exact ⟨_, rfl, vbyte_le_writes e checks v h⟩
  case zeta =>
    obtain ⟨h1, h2, h3, h4⟩ :
      1 ≤ p ∧ p ≤ 63 ∧ v < 2 ^ 64 - 1 ∧ ((v + 1).log2 / p + 1) * p ≤ 64 := h
    have hp0 : p ≠ 0 := by omega
    refine ⟨Spec.zeta e p v, by simp [CodeId.codeword, hp0], ?_⟩
    have := zeta_writes e checks p v h1 h2 h3
    rwa [zeta_published e p v h4] at this
  case pi => exact ⟨_, rfl, pi_writes e checks p v h.1 h.2⟩
  case golomb =>
    obtain ⟨h1, h2, h3, h4⟩ : 1 ≤ p ∧ p < 2 ^ 64 ∧ v < 2 ^ 64 ∧ v / p < 2 ^ 64 - 1 := h
    have hp0 : p ≠ 0 := by omega
    exact ⟨Spec.golomb e p v, by simp [CodeId.codeword, hp0], golomb_writes e checks p v h1 h2 h4⟩
  case expGolomb => exact ⟨_, rfl, writeExpGolombD_writes e checks p v h.1 h.2.1 h.2.2⟩
  case rice => exact ⟨_, rfl, rice_writes e checks p v h.1 h.2.2⟩

/-- **C03 for the dispatchers' readers**: the own reader program of a code decodes the published
    codeword of that code, wherever it is embedded, on every reference reader whose look-ahead
    capacity covers the tables -/
theorem ownRead_reads (e : Endian) (c : CodeId) (v : Nat) (h : c.Dom v) :
    ∃ cw, c.codeword e v = some cw ∧ ReadsPM tablePeek (ownRead e c) e cw v := by
  obtain ⟨fam, p⟩ := c
  cases fam
  case unary => exact ⟨_, rfl, (unary_reads e v).toPM _⟩
  case gamma => exact ⟨_, rfl, (readGammaD_reads e v h).mono gamma_le_tablePeek⟩
  case delta => exact ⟨_, rfl, (readDeltaD_reads e v h).mono (by decide)⟩
  case omega => exact ⟨_, rfl, (omega_reads e v h).toPM _⟩
  case vbyteBe => exact ⟨_, rfl, (vbyte_be_reads e vbFuel v (by decide) h).toPM _⟩
  case vbyteLe => exact ⟨_, rfl, (vbyte_le_reads e vbFuel v (by decide) h).toPM _⟩
  case zeta =>
    obtain ⟨h1, h2, h3, h4⟩ :
      1 ≤ p ∧ p ≤ 63 ∧ v < 2 ^ 64 - 1 ∧ ((v + 1).log2 / p + 1) * p ≤ 64 := h
    have hp0 : p ≠ 0 := by omega
    refine ⟨Spec.zeta e p v, by simp [CodeId.codeword, hp0], ?_⟩
    have := zeta_reads e p v h1 h2 h3
    rw [zeta_published e p v h4] at this
    exact this.toPM _
  case pi => exact ⟨_, rfl, (pi_reads e p v h.1 h.2).toPM _⟩
  case golomb =>
    obtain ⟨h1, h2, h3, h4⟩ : 1 ≤ p ∧ p < 2 ^ 64 ∧ v < 2 ^ 64 ∧ v / p < 2 ^ 64 - 1 := h
    have hp0 : p ≠ 0 := by omega
    exact ⟨Spec.golomb e p v, by simp [CodeId.codeword, hp0], (golomb_reads e p v h1 h2 h3).toPM _⟩
  case expGolomb =>
    exact ⟨_, rfl, (readExpGolombD_reads e p v h.1 h.2.1 h.2.2).mono gamma_le_tablePeek⟩
  case rice => exact ⟨_, rfl, (rice_reads e p v h.1 h.2.1).toPM _⟩

/-- **C06 for the dispatchers' length functions** -/
theorem ownLen_codeword (e : Endian) (c : CodeId) (v : Nat) (h : c.Dom v) :
    c.codewordLen e v = some (ownLen c v) := by
  obtain ⟨fam, p⟩ := c
  cases fam
  case unary => exact congrArg some (unary_len v).symm
  case gamma => exact congrArg some ((lenGammaD_eq v).trans (gamma_len e v)).symm
  case delta => exact congrArg some ((lenDeltaD_eq v).trans (delta_len e v)).symm
  case omega => exact congrArg some (omega_len e v).symm
  case vbyteBe => exact congrArg some (vbyte_bit_len e true v h).symm
  case vbyteLe => exact congrArg some (vbyte_bit_len e false v h).symm
  case zeta =>
    obtain ⟨h1, h2, h3, h4⟩ :
      1 ≤ p ∧ p ≤ 63 ∧ v < 2 ^ 64 - 1 ∧ ((v + 1).log2 / p + 1) * p ≤ 64 := h
    have hp0 : p ≠ 0 := by omega
    have := (lenZetaD_eq v p).trans (zeta_len e p v h1 h2 h3)
    rw [zeta_published e p v h4] at this
    simp only [CodeId.codewordLen, CodeId.codeword, hp0, if_false, Option.map_some]
    exact congrArg some this.symm
  case pi => exact congrArg some (pi_len e p v).symm
  case golomb =>
    obtain ⟨h1, h2, h3, h4⟩ : 1 ≤ p ∧ p < 2 ^ 64 ∧ v < 2 ^ 64 ∧ v / p < 2 ^ 64 - 1 := h
    have hp0 : p ≠ 0 := by omega
    simp only [CodeId.codewordLen, CodeId.codeword, hp0, if_false, Option.map_some]
    exact congrArg some (golomb_len e p v h1 h2).symm
  case expGolomb => exact congrArg some ((lenExpGolombD_eq v p).trans (expGolomb_len e p v)).symm
  case rice => exact congrArg some (rice_len e p v).symm

/-! ### the domain is invariant under the coincidences -/

theorem CodeId.dom_canon (c : CodeId) (v : Nat) : c.canon.Dom v ↔ c.Dom v := by
  obtain ⟨fam, p⟩ := c
  cases fam
  case zeta =>
    by_cases h1 : p = 1
    · subst h1
      simp only [CodeId.canon, CodeId.Dom, if_true, Nat.div_one, Nat.mul_one]
      constructor
      · intro h
        have := log2_lt_64 (m := v + 1) (by omega)
        omega
      · intro h; exact h.2.2.1
    · simp [CodeId.canon, h1]
  case pi =>
    by_cases h0 : p = 0
    · subst h0; simp [CodeId.canon, CodeId.Dom]
    · simp [CodeId.canon, h0]
  case expGolomb =>
    by_cases h0 : p = 0
    · subst h0
      show v < 2 ^ 64 - 1 ↔ (0 ≤ 63 ∧ v < 2 ^ 64 ∧ (0 = 0 → v < 2 ^ 64 - 1))
      exact ⟨fun h => ⟨by decide, by omega, fun _ => h⟩, fun h => h.2.2 rfl⟩
    · simp [CodeId.canon, h0]
  case rice =>
    by_cases h0 : p = 0
    · subst h0; simp only [CodeId.canon, CodeId.Dom, if_true, Nat.pow_zero, Nat.div_one]; omega
    · simp [CodeId.canon, h0]
  case golomb =>
    by_cases h1 : p = 1
    · subst h1; simp only [CodeId.canon, CodeId.Dom, if_true, Nat.div_one]; omega
    by_cases h2 : p = 2
    · subst h2; simp only [CodeId.canon, CodeId.Dom]; simp
    by_cases h4 : p = 4
    · subst h4; simp only [CodeId.canon, CodeId.Dom]; simp
    by_cases h8 : p = 8
    · subst h8; simp only [CodeId.canon, CodeId.Dom]; simp
    simp [CodeId.canon, h1, h2, h4, h8]
  all_goals exact Iff.rfl

theorem equiv_dom {a b : CodeId} (h : a.equiv b = true) (v : Nat) : a.Dom v ↔ b.Dom v := by
  have hc : a.canon = b.canon := by simpa [CodeId.equiv] using h
  rw [← CodeId.dom_canon a, ← CodeId.dom_canon b, hc]

theorem CodeId.dom_lenCanon (c : CodeId) (v : Nat) : c.lenCanon.Dom v ↔ c.Dom v := by
  unfold CodeId.lenCanon
  by_cases hf : c.canon.fam = Family.vbyteLe
  · simp only [hf, if_true]
    rw [← CodeId.dom_canon c]
    simp only [CodeId.Dom, hf]
  · simp only [hf, if_false]
    exact CodeId.dom_canon c v

theorem lenEquiv_dom {a b : CodeId} (h : a.lenEquiv b = true) (v : Nat) : a.Dom v ↔ b.Dom v := by
  have hc : a.lenCanon = b.lenCanon := by simpa [CodeId.lenEquiv] using h
  rw [← CodeId.dom_lenCanon a, ← CodeId.dom_lenCanon b, hc]

/-! ### aliases run the same -/

/-- two identifiers related by `equiv`: their own writers append the same bits (the common
    codeword) and return the same length -/
theorem equiv_ownWrite {a b : CodeId} (h : a.equiv b = true) (e : Endian) (checks : Bool) (v : Nat)
    (hd : a.Dom v) :
    ∃ cw, a.codeword e v = some cw ∧ b.codeword e v = some cw ∧
      Writes (ownWrite e checks a v) e checks cw ∧ Writes (ownWrite e checks b v) e checks cw := by
  obtain ⟨cw, h1, h2⟩ := ownWrite_writes e checks a v hd
  obtain ⟨cw', h3, h4⟩ := ownWrite_writes e checks b v ((equiv_dom h v).1 hd)
  have : cw' = cw := by
    rw [equiv_codewords h e v, h3] at h1
    exact Option.some.inj h1
  subst this
  exact ⟨cw', h1, h3, h2, h4⟩

theorem equiv_ownRead {a b : CodeId} (h : a.equiv b = true) (e : Endian) (v : Nat) (hd : a.Dom v) :
    ∃ cw, a.codeword e v = some cw ∧ b.codeword e v = some cw ∧
      ReadsPM tablePeek (ownRead e a) e cw v ∧ ReadsPM tablePeek (ownRead e b) e cw v := by
  obtain ⟨cw, h1, h2⟩ := ownRead_reads e a v hd
  obtain ⟨cw', h3, h4⟩ := ownRead_reads e b v ((equiv_dom h v).1 hd)
  have : cw' = cw := by
    rw [equiv_codewords h e v, h3] at h1
    exact Option.some.inj h1
  subst this
  exact ⟨cw', h1, h3, h2, h4⟩

theorem lenEquiv_ownLen {a b : CodeId} (h : a.lenEquiv b = true) (v : Nat) (hd : a.Dom v) :
    ownLen a v = ownLen b v := by
  have h1 := ownLen_codeword .be a v hd
  have h2 := ownLen_codeword .be b v ((lenEquiv_dom h v).1 hd)
  rw [lenEquiv_codeword_lengths h .be v, h2] at h1
  exact (Option.some.inj h1).symm

/-! ### the dispatch theorems of C10, completed: the selected program performs the wanted code -/

/-- if a write call means the wanted code up to the coincidences (`semOk`, what `dispatch_*_ok`
    establish for every arm), the program it runs appends the wanted code's codeword -/
theorem dispatch_write_performs (e : Endian) (checks : Bool) (call : Call) (bound : Option Nat)
    (want : CodeId) (v : Nat) (p : WProg Nat) (hok : semOk .write call bound want = true)
    (hp : callWrite e checks call bound v = some p) (hd : want.Dom v) :
    ∃ cw, want.codeword e v = some cw ∧ Writes p e checks cw := by
  unfold semOk at hok
  cases hs : semCall .write call bound with
  | none => rw [hs] at hok; cases hok
  | some got =>
    rw [hs] at hok
    have heq : got.equiv want = true := hok
    have hdg : got.Dom v := (equiv_dom heq v).2 hd
    rw [callWrite_sem e checks call bound got v hs] at hp
    have hp' := Option.some.inj hp
    rw [← equiv_codewords heq e v]
    by_cases hz : isZeta3Call call = true
    · rw [if_pos hz] at hp'
      have hg := zeta3_call_sem .write call bound got hz hs
      subst hg
      subst hp'
      obtain ⟨h1, h2, h3, h4⟩ := hdg
      refine ⟨Spec.zeta e 3 v, by simp [CodeId.codeword], ?_⟩
      have := writeZeta3D_writes e checks v h3
      rwa [zeta_published e 3 v h4] at this
    · rw [if_neg hz] at hp'
      subst hp'
      exact ownWrite_writes e checks got v hdg

theorem dispatch_read_performs (e : Endian) (call : Call) (bound : Option Nat) (want : CodeId)
    (v : Nat) (p : RProg Nat) (hok : semOk .read call bound want = true)
    (hp : callRead e call bound = some p) (hd : want.Dom v) :
    ∃ cw, want.codeword e v = some cw ∧ ReadsPM tablePeek p e cw v := by
  unfold semOk at hok
  cases hs : semCall .read call bound with
  | none => rw [hs] at hok; cases hok
  | some got =>
    rw [hs] at hok
    have heq : got.equiv want = true := hok
    have hdg : got.Dom v := (equiv_dom heq v).2 hd
    rw [callRead_sem e call bound got hs] at hp
    have hp' := Option.some.inj hp
    rw [← equiv_codewords heq e v]
    by_cases hz : isZeta3Call call = true
    · rw [if_pos hz] at hp'
      have hg := zeta3_call_sem .read call bound got hz hs
      subst hg
      subst hp'
      obtain ⟨h1, h2, h3, h4⟩ := hdg
      refine ⟨Spec.zeta e 3 v, by simp [CodeId.codeword], ?_⟩
      have := readZeta3D_reads e v h3
      rw [zeta_published e 3 v h4] at this
      exact this.mono zeta_le_tablePeek
    · rw [if_neg hz] at hp'
      subst hp'
      exact ownRead_reads e got v hdg

theorem dispatch_len_performs (e : Endian) (call : Call) (bound : Option Nat) (want : CodeId)
    (v : Nat) (f : Nat → Nat) (hok : semOk .len call bound want = true)
    (hf : callLen call bound = some f) (hd : want.Dom v) :
    want.codewordLen e v = some (f v) := by
  unfold semOk at hok
  cases hs : semCall .len call bound with
  | none => rw [hs] at hok; cases hok
  | some got =>
    rw [hs] at hok
    have heq : got.lenEquiv want = true := hok
    have hdg : got.Dom v := (lenEquiv_dom heq v).2 hd
    rw [callLen_sem call bound got hs] at hf
    have hf' := Option.some.inj hf
    subst hf'
    rw [← lenEquiv_codeword_lengths heq e v]
    exact ownLen_codeword e got v hdg

/-! ### non-vacuity -/

example : Writes (writeZetaDefault 1000 1) .be true (Spec.gamma .be 1000) :=
  zeta1_writes_gamma .be true 1000 (by decide)
example : Reads readGammaDefault .le (Spec.zeta .le 1 1000) 1000 := gamma_reads_zeta1 .le 1000 (by decide)
example : Reads (readGolomb 8) .le (Spec.rice .le 3 1000) 1000 :=
  golomb_pow2_reads_rice .le 3 1000 (by decide) (by decide)
example : Writes (writeGolomb 1000 4) .le false (Spec.rice .le 2 1000) :=
  golomb_pow2_writes_rice .le false 2 1000 (by decide) (by decide)
example : Reads (readRice 0) .be (Spec.unary 9) 9 := rice0_reads_unary .be 9 (by decide)
example : ReadsPM 12 (readZeta3D .be) .be (Spec.zetaWrapped .be 3 77) 77 := readZeta3D_reads .be 77 (by decide)
example : (writeZeta3D .le 77).run RefW.impl { e := .le, W := 16 }
    = .ok ((Spec.zeta .le 3 77).length, { e := .le, W := 16, bits := Spec.zeta .le 3 77 }) := by
  have := writeZeta3P_writes_published .le false Params.writeZeta3Table 77 (by decide)
    { e := .le, W := 16 } rfl rfl rfl
  simpa [writeZeta3D] using this

example : ∃ cw, (⟨.golomb, 4⟩ : CodeId).codeword .be 1000 = some cw ∧
    (⟨.rice, 2⟩ : CodeId).codeword .be 1000 = some cw ∧
    Writes (ownWrite .be true ⟨.golomb, 4⟩ 1000) .be true cw ∧
    Writes (ownWrite .be true ⟨.rice, 2⟩ 1000) .be true cw :=
  equiv_ownWrite (by decide) .be true 1000 (by decide)
example : ownLen ⟨.vbyteLe, 0⟩ 300000 = ownLen ⟨.vbyteBe, 0⟩ 300000 :=
  lenEquiv_ownLen (by decide) 300000 (by decide)
/-- the arm of `ConstCode<ZETA1>` calls `read_gamma`: it decodes ζ₁ codewords -/
example : ∃ cw, (⟨.zeta, 1⟩ : CodeId).codeword .le 1000 = some cw ∧
    ReadsPM tablePeek (readGammaD .le) .le cw 1000 :=
  dispatch_read_performs .le (.read "read_gamma" []) none ⟨.zeta, 1⟩ 1000 _ (by decide) rfl (by decide)

end Dsi
