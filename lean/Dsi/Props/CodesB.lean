/-
  Final theorems: minimal binary, Golomb, ζ (wrapped and published), VByte (bit-stream and
  byte-level, property C18) — the L2 programs of `Dsi.Codes` / `Dsi.VByteIO` against the published
  codewords of `Dsi.Spec`, on the L1 reference reader / writer.
  Helper lemmas are in `Dsi/Lemmas/CodesB*.lean` (namespace `Dsi.CodesB`).
-/
import Dsi.Lemmas.CodesBCodes
import Dsi.Lemmas.CodesBVByteBits
namespace Dsi
open Dsi.CodesB

/-! ## 1. minimal binary (`1 ≤ u < 2^64`, `x < u`) -/

theorem minbin_writes (e : Endian) (checks : Bool) (x u : Nat) (hu : 1 ≤ u) (h64 : u < 2 ^ 64)
    (hx : x < u) : Writes (writeMinimalBinary x u) e checks (Spec.minimalBinary e x u) :=
  minbin_writesR e checks x u hu h64 hx

theorem minbin_reads (e : Endian) (x u : Nat) (hu : 1 ≤ u) (h64 : u < 2 ^ 64) (hx : x < u) :
    Reads (readMinimalBinary u) e (Spec.minimalBinary e x u) x :=
  minbin_reads' e x u hu h64 hx

theorem minbin_len (e : Endian) (x u : Nat) (hu : 1 ≤ u) (h64 : u < 2 ^ 64) :
    lenMinimalBinary x u = (Spec.minimalBinary e x u).length :=
  minbin_len' e x u hu h64

/-- the wrapped limit is the published one on the whole range, `u.log2 = 63` included -/
theorem mbLimit_published (u : Nat) (hu : 1 ≤ u) (h64 : u < 2 ^ 64) :
    mbLimit u = 2 ^ (u.log2 + 1) - u :=
  mbLimit_eq hu h64

example : Writes (writeMinimalBinary 7 10) .be true (Spec.minimalBinary .be 7 10) :=
  minbin_writes .be true 7 10 (by decide) (by decide) (by decide)
example : Reads (readMinimalBinary (2 ^ 64 - 1)) .le (Spec.minimalBinary .le 5 (2 ^ 64 - 1)) 5 :=
  minbin_reads .le 5 (2 ^ 64 - 1) (by decide) (by decide) (by decide)
example : lenMinimalBinary 7 10 = (Spec.minimalBinary .le 7 10).length :=
  minbin_len .le 7 10 (by decide) (by decide)

/-! ## 2. ζ (`1 ≤ k ≤ 63`, `n < 2^64 − 1`) -/

theorem zeta_writes (e : Endian) (checks : Bool) (k n : Nat) (hk1 : 1 ≤ k) (hk : k ≤ 63)
    (hn : n < 2 ^ 64 - 1) : Writes (writeZetaDefault n k) e checks (Spec.zetaWrapped e k n) :=
  zeta_writesR e checks k n hk1 hk hn

theorem zeta_reads (e : Endian) (k n : Nat) (hk1 : 1 ≤ k) (hk : k ≤ 63) (hn : n < 2 ^ 64 - 1) :
    Reads (readZetaDefault k) e (Spec.zetaWrapped e k n) n :=
  zeta_reads' e k n hk1 hk hn

theorem zeta_len (e : Endian) (k n : Nat) (hk1 : 1 ≤ k) (hk : k ≤ 63) (hn : n < 2 ^ 64 - 1) :
    lenZetaDefault n k = (Spec.zetaWrapped e k n).length :=
  zeta_len' e k n hk1 hk hn

theorem zeta_published (e : Endian) (k n : Nat) (h : ((n + 1).log2 / k + 1) * k ≤ 64) :
    Spec.zetaWrapped e k n = Spec.zeta e k n := by
  simp only [Spec.zetaWrapped, Spec.zeta, if_pos h]

example : Writes (writeZetaDefault 1000 3) .be false (Spec.zetaWrapped .be 3 1000) :=
  zeta_writes .be false 3 1000 (by decide) (by decide) (by decide)
example : Reads (readZetaDefault 5) .le (Spec.zetaWrapped .le 5 (2 ^ 64 - 2)) (2 ^ 64 - 2) :=
  zeta_reads .le 5 (2 ^ 64 - 2) (by decide) (by decide) (by decide)
example : lenZetaDefault 1000 3 = (Spec.zetaWrapped .be 3 1000).length :=
  zeta_len .be 3 1000 (by decide) (by decide) (by decide)

/-! ## 3. Golomb (`1 ≤ b < 2^64`, `n < 2^64`)

`golomb_writes` needs the quotient to be a legal unary argument (`n / b < 2^64 − 1`): the only
excluded pair in range is `b = 1`, `n = 2^64 − 1`, where the writer panics
(`golomb_writes_max_false`). -/

theorem golomb_writes (e : Endian) (checks : Bool) (b n : Nat) (hb : 1 ≤ b) (hb64 : b < 2 ^ 64)
    (hq : n / b < 2 ^ 64 - 1) : Writes (writeGolomb n b) e checks (Spec.golomb e b n) :=
  golomb_writesR e checks b n hb hb64 hq

/-- in the stated range the extra hypothesis only excludes `b = 1`, `n = 2^64 − 1` -/
theorem golomb_quot_ok (b n : Nat) (hb : 1 ≤ b) (hn : n < 2 ^ 64) (hne : ¬ (b = 1 ∧ n = 2 ^ 64 - 1)) :
    n / b < 2 ^ 64 - 1 := by
  by_cases h1 : b = 1
  · subst h1; rw [Nat.div_one]; omega
  · have : n / b ≤ n / 2 := Nat.div_le_div_left (by omega) (by omega)
    omega

/-- for `b = 1`, `n = 2^64 − 1` the writer does not write any bit string: `write_unary(u64::MAX)`
    panics -/
theorem golomb_writes_max_false (e : Endian) (checks : Bool) (bits : List Bool) :
    ¬ Writes (writeGolomb (2 ^ 64 - 1) 1) e checks bits := by
  intro h
  have := h { e := e, W := 64, checks := checks } rfl rfl rfl
  simp [writeGolomb, WProg.run, RefW.impl, RefW.writeUnary] at this

theorem golomb_reads (e : Endian) (b n : Nat) (hb : 1 ≤ b) (hb64 : b < 2 ^ 64) (hn : n < 2 ^ 64) :
    Reads (readGolomb b) e (Spec.golomb e b n) n :=
  golomb_reads' e b n hb hb64 hn

theorem golomb_len (e : Endian) (b n : Nat) (hb : 1 ≤ b) (hb64 : b < 2 ^ 64) :
    lenGolomb n b = (Spec.golomb e b n).length :=
  golomb_len' e b n hb hb64

example : Writes (writeGolomb 100 7) .be true (Spec.golomb .be 7 100) :=
  golomb_writes .be true 7 100 (by decide) (by decide) (by decide)
example : Reads (readGolomb 7) .le (Spec.golomb .le 7 100) 100 :=
  golomb_reads .le 7 100 (by decide) (by decide) (by decide)
example : lenGolomb 100 7 = (Spec.golomb .be 7 100).length :=
  golomb_len .be 7 100 (by decide) (by decide)

/-! ## 4. VByte on bit streams (`v < 2^64`) -/

theorem vbyte_be_bytes (v : Nat) (hv : v < 2 ^ 64) : vbyteBeBytes v = Spec.vbyteBytes true v :=
  vbyteBeBytes_spec v hv

theorem vbyte_le_bytes (v : Nat) (hv : v < 2 ^ 64) : vbyteLeBytes v = Spec.vbyteBytes false v :=
  vbyteLeBytes_spec v hv

theorem vbyte_be_writes (e : Endian) (checks : Bool) (v : Nat) (hv : v < 2 ^ 64) :
    Writes (writeVByteBe v) e checks (Spec.vbyte e true v) := by
  have := writeBytesP_writesR e checks (vbyteBeBytes v) (vbyteBeBytes_range v)
  rw [← bits_length e] at this
  rw [Spec.vbyte, ← vbyte_be_bytes v hv]
  exact this

theorem vbyte_le_writes (e : Endian) (checks : Bool) (v : Nat) (hv : v < 2 ^ 64) :
    Writes (writeVByteLe v) e checks (Spec.vbyte e false v) := by
  have := writeBytesP_writesR e checks (vbyteLeBytes v) (vbyteLeBytes_range v)
  rw [← bits_length e] at this
  rw [Spec.vbyte, ← vbyte_le_bytes v hv]
  exact this

theorem vbyte_be_reads (e : Endian) (fuel v : Nat) (hf : 10 ≤ fuel) (hv : v < 2 ^ 64) :
    Reads (readVByteBe fuel) e (Spec.vbyte e true v) v := by
  have ht := vbyteBeBytes_term v
  have hval := vbyteBeBytes_val v hv
  have hlen := term_len_be _ ht (by rw [hval]; exact hv)
  have := readVByteBe_reads e fuel (vbyteBeBytes v) ht (vbyteBeBytes_range v) (by omega)
    (by rw [hval]; exact hv)
  rw [hval] at this
  rw [Spec.vbyte, ← vbyte_be_bytes v hv]
  exact this

theorem vbyte_le_reads (e : Endian) (fuel v : Nat) (hf : 10 ≤ fuel) (hv : v < 2 ^ 64) :
    Reads (readVByteLe fuel) e (Spec.vbyte e false v) v := by
  have ht := vbyteLeBytes_term v hv
  have hval := vbyteLeBytes_val v hv
  have hlen := term_len_le _ ht (by rw [hval]; exact hv)
  have := readVByteLe_reads e fuel (vbyteLeBytes v) ht (vbyteLeBytes_range v) (by omega)
    (by rw [hval]; exact hv)
  rw [hval] at this
  rw [Spec.vbyte, ← vbyte_le_bytes v hv]
  exact this

theorem vbyte_byte_len (v : Nat) (hv : v < 2 ^ 64) : byteLenVByte v = Spec.vbyteLen v :=
  byteLen_eq v hv

theorem vbyte_bit_len (e : Endian) (big : Bool) (v : Nat) (hv : v < 2 ^ 64) :
    bitLenVByte v = (Spec.vbyte e big v).length := by
  rw [Spec.vbyte, bits_length, specBytes_length, bitLenVByte, byteLen_eq v hv]

example : Writes (writeVByteBe 300000) .le true (Spec.vbyte .le true 300000) :=
  vbyte_be_writes .le true 300000 (by decide)
example : Reads (readVByteLe 12) .be (Spec.vbyte .be false (2 ^ 64 - 1)) (2 ^ 64 - 1) :=
  vbyte_le_reads .be 12 (2 ^ 64 - 1) (by decide) (by decide)
example : Reads (readVByteBe 10) .be (Spec.vbyte .be true (2 ^ 64 - 1)) (2 ^ 64 - 1) :=
  vbyte_be_reads .be 10 (2 ^ 64 - 1) (by decide) (by decide)
example : bitLenVByte 300000 = (Spec.vbyte .be true 300000).length :=
  vbyte_bit_len .be true 300000 (by decide)

/-! ## 5. VByte at byte level (C18) -/

/-- decode ∘ encode = id, big-endian, with any trailing bytes left unread -/
theorem vbyte_be_roundtrip (v : Nat) (rest : List Nat) (hv : v < 2 ^ 64) :
    vbyteReadBe (vbyteBeBytes v ++ rest) = .ok (v, rest) := by
  have := vbyteReadBe_ok (vbyteBeBytes v) rest (vbyteBeBytes_term v)
    (by rw [vbyteBeBytes_val v hv]; exact hv)
  rwa [vbyteBeBytes_val v hv] at this

/-- decode ∘ encode = id, little-endian -/
theorem vbyte_le_roundtrip (v : Nat) (rest : List Nat) (hv : v < 2 ^ 64) :
    vbyteReadLe (vbyteLeBytes v ++ rest) = .ok (v, rest) := by
  have := vbyteReadLe_ok (vbyteLeBytes v) rest (vbyteLeBytes_term v hv)
    (by rw [vbyteLeBytes_val v hv]; exact hv)
  rwa [vbyteLeBytes_val v hv] at this

/-- length steps: `vbyteLen v = k` exactly on `[offset (k−1), offset k)` (for every `k ≥ 1`; only
    `k ≤ 10` occurs, see `vbyte_len_le_10`) -/
theorem vbyte_len_step (v k : Nat) (hv : v < 2 ^ 64) (hk : 1 ≤ k) :
    Spec.vbyteLen v = k ↔ Spec.vbyteOffset (k - 1) ≤ v ∧ v < Spec.vbyteOffset k :=
  vbyteLen_iff v k hv hk

theorem vbyte_len_le_10 (v : Nat) (hv : v < 2 ^ 64) : 1 ≤ Spec.vbyteLen v ∧ Spec.vbyteLen v ≤ 10 :=
  ⟨(vbyteLen_bounds v hv).1, (vbyteLen_bounds v hv).2.1⟩

theorem vbyte_written_len (v : Nat) (hv : v < 2 ^ 64) :
    (vbyteWriteBe v).2 = Spec.vbyteLen v ∧ (vbyteWriteLe v).2 = Spec.vbyteLen v := by
  simp [vbyteWriteBe, vbyteWriteLe, vbyte_be_bytes v hv, vbyte_le_bytes v hv, specBytes_length]

/-- Completeness (encode ∘ decode = id on accepted strings), big-endian.  The side condition is
    that the *unwrapped* value of the string (`CodesB.vbyteValBe`, the same recurrence on `Nat`
    without the `<< 7` truncation) fits in 64 bits; then the reader returns that value and its
    encoding is the string.  Without it the statement is false
    (`vbyte_be_complete_unconditional_false`). -/
theorem vbyte_be_complete (s : List Nat) (w : Nat) (h : vbyteReadBe s = .ok (w, []))
    (hb : ∀ b ∈ s, b < 256) (hv : vbyteValBe s < 2 ^ 64) :
    w = vbyteValBe s ∧ vbyteBeBytes w = s := by
  have ht := vbyteReadBe_inv s w h
  have h2 := vbyteReadBe_ok s [] ht hv
  rw [List.append_nil, h] at h2
  injection h2 with h2
  have hw : w = vbyteValBe s := (Prod.mk.inj h2).1
  exact ⟨hw, by rw [hw]; exact be_encode_decode s ht hb hv⟩

/-- the same with a side condition that needs no auxiliary definition: at most 9 bytes -/
theorem vbyte_be_complete_short (s : List Nat) (w : Nat) (h : vbyteReadBe s = .ok (w, []))
    (hb : ∀ b ∈ s, b < 256) (hl : s.length ≤ 9) : vbyteBeBytes w = s :=
  (vbyte_be_complete s w h hb (val_lt_be s hl)).2

/-- Completeness, little-endian (side condition: `CodesB.vbyteValLe s < 2^64`). -/
theorem vbyte_le_complete (s : List Nat) (w : Nat) (h : vbyteReadLe s = .ok (w, []))
    (hb : ∀ b ∈ s, b < 256) (hv : vbyteValLe s < 2 ^ 64) :
    w = vbyteValLe s ∧ vbyteLeBytes w = s := by
  have ht := vbyteReadLe_inv s w h
  have h2 := vbyteReadLe_ok s [] ht hv
  rw [List.append_nil, h] at h2
  injection h2 with h2
  have hw : w = vbyteValLe s := (Prod.mk.inj h2).1
  exact ⟨hw, by rw [hw]; exact le_encode_decode s ht hb hv⟩

theorem vbyte_le_complete_short (s : List Nat) (w : Nat) (h : vbyteReadLe s = .ok (w, []))
    (hb : ∀ b ∈ s, b < 256) (hl : s.length ≤ 9) : vbyteLeBytes w = s :=
  (vbyte_le_complete s w h hb (val_lt_le s (vbyteReadLe_inv s w h) hl)).2

/-- a string is accepted with nothing left over only if it is terminated (every byte but the
    last has its top bit set, the last has not) -/
theorem vbyte_accept_terminated (s : List Nat) (w : Nat) :
    (vbyteReadBe s = .ok (w, []) → Term s) ∧ (vbyteReadLe s = .ok (w, []) → Term s) :=
  ⟨vbyteReadBe_inv s w, vbyteReadLe_inv s w⟩

/-- a terminated string of `k` bytes has unwrapped value in the `k`-byte step -/
theorem vbyte_val_step (s : List Nat) (ht : Term s) :
    (Spec.vbyteOffset (s.length - 1) ≤ vbyteValBe s ∧ vbyteValBe s < Spec.vbyteOffset s.length) ∧
    (Spec.vbyteOffset (s.length - 1) ≤ vbyteValLe s ∧ vbyteValLe s < Spec.vbyteOffset s.length) := by
  refine ⟨?_, valLe_bounds s ht⟩
  cases s with
  | nil => exact ht.elim
  | cons b bs => simpa using valBe_bounds b bs

/-- The completeness statement without a no-wrap side condition is false, big-endian: a 10-byte
    string whose value needs 65 bits is accepted (`<< 7` drops the high bit) and decodes to `0`. -/
theorem vbyte_be_complete_unconditional_false :
    ¬ ∀ (s : List Nat) (w : Nat), vbyteReadBe s = .ok (w, []) → w < 2 ^ 64 →
        (∀ b ∈ s, b < 256) → vbyteBeBytes w = s := by
  intro h
  have := h [0x80, 0xFE, 0xFE, 0xFE, 0xFE, 0xFE, 0xFE, 0xFE, 0xFF, 0x00] 0 (by rfl) (by decide)
    (by decide)
  revert this
  decide

/-- … and little-endian: in the tenth byte only bit 0 survives `<< 63`, so `[0x80 ×9, 0x02]` is
    accepted and decodes to the same value as `[0x80 ×9, 0x00]`. -/
theorem vbyte_le_complete_unconditional_false :
    ¬ ∀ (s : List Nat) (w : Nat), vbyteReadLe s = .ok (w, []) → w < 2 ^ 64 →
        (∀ b ∈ s, b < 256) → vbyteLeBytes w = s := by
  intro h
  have := h [0x80, 0x80, 0x80, 0x80, 0x80, 0x80, 0x80, 0x80, 0x80, 0x02] 9295997013522923648
    (by rfl) (by decide) (by decide)
  revert this
  decide

example : vbyteReadBe (vbyteBeBytes 300000 ++ [1, 2, 3]) = .ok (300000, [1, 2, 3]) :=
  vbyte_be_roundtrip 300000 [1, 2, 3] (by decide)
example : vbyteReadLe (vbyteLeBytes (2 ^ 64 - 1) ++ [7]) = .ok (2 ^ 64 - 1, [7]) :=
  vbyte_le_roundtrip (2 ^ 64 - 1) [7] (by decide)
example : Spec.vbyteLen 16512 = 3 ↔ Spec.vbyteOffset 2 ≤ 16512 ∧ 16512 < Spec.vbyteOffset 3 :=
  vbyte_len_step 16512 3 (by decide) (by decide)
example : vbyteBeBytes 16511 = [0xFF, 0x7F] :=
  (vbyte_be_complete [0xFF, 0x7F] 16511 (by rfl) (by decide) (by decide)).2
example : vbyteLeBytes 16511 = [0xFF, 0x7F] :=
  vbyte_le_complete_short [0xFF, 0x7F] 16511 (by rfl) (by decide) (by decide)

end Dsi
