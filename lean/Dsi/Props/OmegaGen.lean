/-
  The generated ω writer / reader (lean/Dsi/Gen/OmegaBodies.lean, produced by
  tools/translate_codes2.py from src/codes/omega.rs on every run) against the hand-written
  programs `omegaWriteRec` / `writeOmega` / `omegaReadLoop` / `readOmega` of Dsi/Codes.lean.

  * writer: equal for every u64 argument (`n < 2^64 - 1` for `write_omega`, which computes `n + 1`);
  * reader: `Guarded` — the hand-written loop is the generated one plus the `n ≥ 64` panic point.
-/
import Dsi.Codes
import Dsi.Gen.OmegaBodies
import Dsi.Props.CodeBodiesGen
namespace Dsi
namespace OmegaGen
open Gen CodeBodiesGen

/-! ### arithmetic -/

/-- `(n << 1) | 1` on a u64 -/
theorem shl1_or1 (n : Nat) : ((n <<< 1) % 2 ^ 64) ||| 1 = (2 * n + 1) % 2 ^ 64 := by
  have h : (n <<< 1) % 2 ^ 64 = (n % 2 ^ 63) <<< 1 := by
    simp only [Nat.shiftLeft_eq, Nat.pow_one]; omega
  rw [h, ← Nat.shiftLeft_add_eq_or_of_lt (by decide : 1 < 2 ^ 1), Nat.shiftLeft_eq, Nat.pow_one]
  omega

/-- `u64::MAX >> (u64::BITS - 1 - λ)` is the mask of the `λ + 1` low bits -/
theorem mask_shr : ∀ l, l < 64 → (2 ^ 64 - 1) >>> (64 - 1 - l) = 2 ^ (l + 1) - 1 := by
  decide

theorem and_mask_shr (n : Nat) {l : Nat} (hl : l < 64) :
    n &&& ((2 ^ 64 - 1) >>> (64 - 1 - l)) = n % 2 ^ (l + 1) := by
  rw [mask_shr l hl, Nat.and_two_pow_sub_one_eq_mod]

/-- `(v >> 1) | (1 << λ)` for a `λ + 1`-bit `v` -/
theorem shr1_or_pow {v l : Nat} (hl : l < 64) (hv : v < 2 ^ (l + 1)) :
    (v >>> 1) ||| ((1 <<< l) % 2 ^ 64) = v / 2 + 2 ^ l := by
  rw [one_shl_mod hl, Nat.shiftRight_eq_div_pow, Nat.pow_one, Nat.or_comm, Nat.add_comm]
  have h : v / 2 < 2 ^ l := by rw [Nat.pow_succ] at hv; omega
  have := Nat.two_pow_add_eq_or_of_lt h 1
  rw [Nat.mul_one] at this
  exact this.symm

/-! ### writer -/

theorem recursive_write_eq (e : Endian) (checks : Bool) (fuel : Nat) :
    ∀ n, n < 2 ^ 64 → Gen.recursive_write fuel e checks n = omegaWriteRec e checks fuel n := by
  induction fuel with
  | zero => intro n _; rfl
  | succ fuel ih =>
    intro n hn
    have hl : n.log2 < 64 := log2_lt_64 hn
    have hl' : n.log2 < 2 ^ 64 := by omega
    unfold Gen.recursive_write omegaWriteRec
    by_cases h1 : n ≤ 1
    · simp only [h1, if_true]
    · simp only [h1, if_false, ih _ hl']
      cases e with
      | be => simp only [reduceCtorEq, if_false]
      | le =>
        cases checks with
        | false => simp only [if_true, shl1_or1, Bool.false_eq_true, if_false]
        | true => simp only [if_true, shl1_or1, and_mask_shr _ hl]

theorem write_omega_eq (e : Endian) (checks : Bool) {n : Nat} (hn : n < 2 ^ 64 - 1) :
    Gen.write_omega e checks n = writeOmega e checks n := by
  have hn' : ¬ n ≥ 2 ^ 64 - 1 := by omega
  unfold Gen.write_omega writeOmega
  simp only [hn', if_false, recursive_write_eq e checks 8 (n + 1) (by omega)]

/-! ### reader -/

set_option linter.unusedSimpArgs false in
theorem read_omega_loop_guarded (e : Endian) (fuel : Nat) :
    ∀ n, Guarded (omegaReadLoop e fuel n) (Gen.read_omega_loop1 fuel e n) := by
  induction fuel with
  | zero => intro n; exact Guarded.dpanic _
  | succ fuel ih =>
    intro n
    unfold omegaReadLoop Gen.read_omega_loop1
    refine Guarded.peek _ fun r => ?_
    cases r with
    | error er => exact Guarded.refl _
    | ok bit =>
      simp only
      by_cases hb : bit = 0
      · simp only [hb, if_true]; exact Guarded.refl _
      · simp only [hb, if_false]
        by_cases hn : n ≥ 64
        · simp only [hn, if_true]; exact Guarded.dpanic _
        · simp only [hn, if_false, Nat.add_comm 1 n]      -- (`1 + λ` and `λ + 1` alike)
          refine Guarded.readBits _ fun v hv => ?_
          cases e with
          | be => simp only [reduceCtorEq, if_false]; exact ih v
          | le =>
            simp only [if_true, shr1_or_pow (by omega : n < 64) hv]
            exact ih _

theorem read_omega_guarded (e : Endian) : Guarded (readOmega e) (Gen.read_omega e) :=
  read_omega_loop_guarded e 8 1

end OmegaGen
end Dsi
