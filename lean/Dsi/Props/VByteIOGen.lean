/-
  The generated `std::io` VByte functions (lean/Dsi/Gen/VByteIOBodies.lean, produced by
  tools/translate_vbyteio.py from src/codes/vbyte.rs on every run), run on byte lists
  (`BProg.run`, lean/Dsi/Impl/ByteProg.lean), against the hand-written models of Dsi/VByteIO.lean.

  * writers: for every u64 argument the bytes appended and the count returned are those of
    `vbyteWriteBe/Le`, and the input is untouched;
  * readers: with a bound `fuel` not below the number of input bytes, the hand-written function
    either hits one of its overflow panic points (`dpanic`) or returns what the generated one does;
  * `vbyte_write::<E>` / `vbyte_read::<E>` select the variant of their endianness parameter.
-/
import Dsi.VByteIO
import Dsi.Gen.VByteIOBodies
import Dsi.Props.VByteGen
namespace Dsi
namespace VByteIOGen
open Gen CodeBodiesGen VByteGen

/-! ### writers -/

/-- the `while value != 0` loop of `vbyte_write_be` on a buffer `0^pos ++ acc` -/
theorem be_while_eq (k : Nat → List Nat → Nat → BProg Nat) (m : Nat) :
    ∀ fuel value pos acc, value < 128 ^ m → m ≤ pos → m < fuel →
      Gen.vbyte_write_be_while1 fuel value (List.replicate pos 0 ++ acc) pos k
        = k 0 (List.replicate (pos - ((vbyteBeBytesLoop fuel value acc).length - acc.length)) 0
                ++ vbyteBeBytesLoop fuel value acc)
            (pos - ((vbyteBeBytesLoop fuel value acc).length - acc.length)) := by
  induction m with
  | zero =>
    intro fuel value pos acc hv _ hf
    obtain ⟨f, rfl⟩ : ∃ f, fuel = f + 1 := ⟨fuel - 1, by omega⟩
    have h0 : value = 0 := by simpa using hv
    subst h0
    simp [Gen.vbyte_write_be_while1, vbyteBeBytesLoop]
  | succ m ih =>
    intro fuel value pos acc hv hp hf
    obtain ⟨f, rfl⟩ : ∃ f, fuel = f + 1 := ⟨fuel - 1, by omega⟩
    by_cases h0 : value = 0
    · subst h0
      simp [Gen.vbyte_write_be_while1, vbyteBeBytesLoop]
    · obtain ⟨p, rfl⟩ : ∃ p, pos = p + 1 := ⟨pos - 1, by omega⟩
      unfold Gen.vbyte_write_be_while1 vbyteBeBytesLoop
      simp only [h0, ne_eq, not_false_eq_true, if_true, if_false, Nat.add_sub_cancel]
      rw [low7_u8, or128 (by omega), shr7, set_replicate]
      have hv' : (value - 1) / 128 < 128 ^ m := by
        rw [Nat.pow_succ] at hv; omega
      rw [ih f _ p _ hv' (by omega) (by omega)]
      have := beLoop_len_ge f ((value - 1) / 128) ((128 + (value - 1) % 128) :: acc)
      simp only [List.length_cons] at this ⊢
      have e2 : p - ((vbyteBeBytesLoop f ((value - 1) / 128) ((128 + (value - 1) % 128) :: acc)).length - (acc.length + 1))
          = p + 1 - ((vbyteBeBytesLoop f ((value - 1) / 128) ((128 + (value - 1) % 128) :: acc)).length - acc.length) := by
        omega
      rw [e2]

theorem vbyte_write_be_run {v : Nat} (hv : v < 2 ^ 64) (inp out : List Nat) :
    (Gen.vbyte_write_be v).run inp out = .ok ((vbyteWriteBe v).2, inp, out ++ (vbyteWriteBe v).1) := by
  unfold Gen.vbyte_write_be vbyteWriteBe vbyteBeBytes
  simp only [List.length_replicate, low7_u8, shr7]
  have hset : (List.replicate 10 0).set (10 - 1) (v % 128) = List.replicate 9 0 ++ [v % 128] := by
    have := set_replicate 9 (v % 128) []
    simp
  rw [hset]
  have hv' : v / 128 < 128 ^ 9 := by rw [VByteGen.pow128_9]; omega
  have := be_while_eq (fun _ buf pos => .writeAll (buf.drop pos) (.ret (buf.length - pos)))
    9 10 (v / 128) 9 [v % 128] hv' (Nat.le_refl _) (by decide)
  rw [show (10 : Nat) - 1 = 9 from rfl, this]
  generalize vbyteBeBytesLoop 10 (v / 128) [v % 128] = L
  generalize 9 - (L.length - [v % 128].length) = q
  have hd : (List.replicate q 0 ++ L).drop q = L := by simp
  have hl : (List.replicate q 0 ++ L).length - q = L.length := by simp
  rw [hd, hl]
  rfl

/-- the `loop` of `vbyte_write_le`, `l` bytes already counted -/
theorem le_loop_run (fuel : Nat) : ∀ v l inp out, v < 128 ^ (fuel + 1) →
    (Gen.vbyte_write_le_loop1 (fuel + 1) v (l + 1) (fun _ len => .ret len)).run inp out
      = .ok ((vbyteLeBytesLoop (fuel + 1) v).length + l, inp, out ++ vbyteLeBytesLoop (fuel + 1) v) := by
  induction fuel with
  | zero =>
    intro v l inp out hv
    have h0 : v / 128 = 0 := by omega
    unfold Gen.vbyte_write_le_loop1 vbyteLeBytesLoop
    simp only [low7_u8, shr7, h0, ne_eq, not_true_eq_false, if_false, BProg.run, List.length_cons,
      List.length_nil, Nat.zero_add, Nat.add_comm 1 l]
  | succ fuel ih =>
    intro v l inp out hv
    unfold Gen.vbyte_write_le_loop1 vbyteLeBytesLoop
    simp only [low7_u8, shr7]
    by_cases h0 : v / 128 = 0
    · simp only [h0, ne_eq, not_true_eq_false, if_false, BProg.run, List.length_cons,
        List.length_nil, Nat.zero_add, Nat.add_comm 1 l]
    · simp only [h0, ne_eq, not_false_eq_true, if_true, BProg.run]
      rw [or128' (by omega)]
      have hv' : v / 128 - 1 < 128 ^ (fuel + 1) := by
        rw [Nat.pow_succ] at hv; omega
      rw [ih _ (l + 1) inp _ hv']
      simp only [List.length_cons, List.append_assoc, List.singleton_append]
      rw [Nat.add_assoc, Nat.add_comm 1 l]

theorem vbyte_write_le_run {v : Nat} (hv : v < 2 ^ 64) (inp out : List Nat) :
    (Gen.vbyte_write_le v).run inp out = .ok ((vbyteWriteLe v).2, inp, out ++ (vbyteWriteLe v).1) := by
  unfold Gen.vbyte_write_le vbyteWriteLe vbyteLeBytes
  have hv' : v < 128 ^ (9 + 1) := by rw [VByteGen.pow128_10]; omega
  have := le_loop_run 9 v 0 inp out hv'
  simpa using this

/-- `vbyte_write::<E, _>` is the variant of `E` -/
theorem vbyte_write_dispatch (v : Nat) :
    Gen.vbyte_write .be v = Gen.vbyte_write_be v ∧ Gen.vbyte_write .le v = Gen.vbyte_write_le v :=
  ⟨rfl, rfl⟩

/-! ### readers -/

/-- what the hand-written model returns, with the output untouched -/
def withOut (out : List Nat) (r : Res (Nat × List Nat)) : Res (Nat × List Nat × List Nat) :=
  r.map fun (v, rest) => (v, rest, out)

theorem be_read_loop_run (out : List Nat) : ∀ (rest : List Nat) (fh fg value byte : Nat),
    rest.length < fh → rest.length < fg →
    vbyteReadBeLoop fh value byte rest = .dpanic ∨
      (Gen.vbyte_read_be_while1 fg [byte] value fun _ value => .ret value).run rest out
        = withOut out (vbyteReadBeLoop fh value byte rest) := by
  intro rest
  induction rest with
  | nil =>
    intro fh fg value byte hh hg
    obtain ⟨fh, rfl⟩ : ∃ f, fh = f + 1 := ⟨fh - 1, by omega⟩
    obtain ⟨fg, rfl⟩ : ∃ f, fg = f + 1 := ⟨fg - 1, by omega⟩
    unfold vbyteReadBeLoop Gen.vbyte_read_be_while1
    simp only [List.getD_cons_zero, shr7]
    by_cases hb : byte / 128 = 0
    · right; simp only [hb, if_true, ne_eq, not_true_eq_false, if_false]; rfl
    · simp only [hb, if_false, ne_eq, not_false_eq_true, if_true]
      by_cases ho : value + 1 ≥ 2 ^ 64
      · left; simp only [ho, if_true]
      · right; simp only [ho, if_false]; rfl
  | cons b rest ih =>
    intro fh fg value byte hh hg
    obtain ⟨fh, rfl⟩ : ∃ f, fh = f + 1 := ⟨fh - 1, by omega⟩
    obtain ⟨fg, rfl⟩ : ∃ f, fg = f + 1 := ⟨fg - 1, by omega⟩
    simp only [List.length_cons] at hh hg
    unfold vbyteReadBeLoop Gen.vbyte_read_be_while1
    simp only [List.getD_cons_zero, shr7]
    by_cases hb : byte / 128 = 0
    · right; simp only [hb, if_true, ne_eq, not_true_eq_false, if_false]; rfl
    · simp only [hb, if_false, ne_eq, not_false_eq_true, if_true]
      by_cases ho : value + 1 ≥ 2 ^ 64
      · left; simp only [ho, if_true]
      · simp only [ho, if_false, BProg.run, List.length_cons, List.length_nil, Nat.zero_add]
        have h1 : ¬ rest.length + 1 < 1 := by omega
        simp only [h1, if_false, List.take_succ_cons, List.take_zero, List.drop_succ_cons, List.drop_zero,
          List.getD_cons_zero, and127, shl7_or]
        exact ih fh fg _ b (by omega) (by omega)

theorem vbyte_read_be_run (bytes out : List Nat) (fuel : Nat) (hf : bytes.length ≤ fuel) :
    vbyteReadBe bytes = .dpanic ∨
      (Gen.vbyte_read_be fuel).run bytes out = withOut out (vbyteReadBe bytes) := by
  unfold Gen.vbyte_read_be vbyteReadBe
  cases bytes with
  | nil => right; rfl
  | cons b rest =>
    simp only [List.length_cons] at hf
    simp only [BProg.run, List.length_replicate, List.length_cons]
    have h1 : ¬ rest.length + 1 < 1 := by omega
    simp only [h1, if_false, List.take_succ_cons, List.take_zero, List.drop_succ_cons, List.drop_zero,
      List.getD_cons_zero, and127]
    exact be_read_loop_run out rest _ fuel _ b (by omega) (by omega)

theorem le_read_loop_run (out : List Nat) : ∀ (bytes : List Nat) (fh fg result shift b0 : Nat),
    bytes.length < fh → bytes.length < fg →
    vbyteReadLeLoop fh result shift bytes = .dpanic ∨
      (Gen.vbyte_read_le_loop1 fg result shift [b0] fun result _ _ => .ret result).run bytes out
        = withOut out (vbyteReadLeLoop fh result shift bytes) := by
  intro bytes
  induction bytes with
  | nil =>
    intro fh fg result shift b0 hh hg
    obtain ⟨fh, rfl⟩ : ∃ f, fh = f + 1 := ⟨fh - 1, by omega⟩
    obtain ⟨fg, rfl⟩ : ∃ f, fg = f + 1 := ⟨fg - 1, by omega⟩
    right
    unfold vbyteReadLeLoop Gen.vbyte_read_le_loop1
    rfl
  | cons b rest ih =>
    intro fh fg result shift b0 hh hg
    obtain ⟨fh, rfl⟩ : ∃ f, fh = f + 1 := ⟨fh - 1, by omega⟩
    obtain ⟨fg, rfl⟩ : ∃ f, fg = f + 1 := ⟨fg - 1, by omega⟩
    simp only [List.length_cons] at hh hg
    unfold vbyteReadLeLoop Gen.vbyte_read_le_loop1
    have h1 : ¬ rest.length + 1 < 1 := by omega
    simp only [BProg.run, List.length_cons, List.length_nil, Nat.zero_add, h1, if_false,
      List.take_succ_cons, List.take_zero, List.drop_succ_cons, List.drop_zero, List.getD_cons_zero,
      and127, shr7]
    have hs : ((b % 128) <<< shift) % 2 ^ 64 = shl64 (b % 128) shift := by
      rw [shl64, Nat.shiftLeft_eq]
    rw [hs]
    by_cases h64 : shift ≥ 64
    · left; simp only [h64, if_true]
    · simp only [h64, if_false]
      by_cases hr : result + shl64 (b % 128) shift ≥ 2 ^ 64
      · left; simp only [hr, if_true]
      · simp only [hr, if_false]
        by_cases hb : b / 128 = 0
        · right; simp only [hb, if_true]; rfl
        · simp only [hb, if_false]
          by_cases h7 : shift + 7 ≥ 64 ∨ result + shl64 (b % 128) shift + 2 ^ (shift + 7) ≥ 2 ^ 64
          · left; simp only [h7, if_true]
          · simp only [h7, if_false]
            have h7' : shift + 7 < 64 := by omega
            rw [one_shl_mod h7']
            exact ih fh fg _ _ b (by omega) (by omega)

theorem vbyte_read_le_run (bytes out : List Nat) (fuel : Nat) (hf : bytes.length < fuel) :
    vbyteReadLe bytes = .dpanic ∨
      (Gen.vbyte_read_le fuel).run bytes out = withOut out (vbyteReadLe bytes) := by
  unfold Gen.vbyte_read_le vbyteReadLe
  exact le_read_loop_run out bytes _ fuel 0 0 0 (by omega) hf

/-- `vbyte_read::<E, _>` is the variant of `E` -/
theorem vbyte_read_dispatch (fuel : Nat) :
    Gen.vbyte_read fuel .be = Gen.vbyte_read_be fuel ∧ Gen.vbyte_read fuel .le = Gen.vbyte_read_le fuel :=
  ⟨rfl, rfl⟩

end VByteIOGen
end Dsi
