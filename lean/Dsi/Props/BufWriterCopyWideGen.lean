/-
  `BufBitWriter::copy_from` as TRANSLATED from src/impls/buf_bit_writer.rs, the case the equality of
  BufWriterCopyGen.lean leaves open: backend words wider than 64 bits (`u128`), where the Rust (since
  the fix c240fb1) takes the generic chunked loop `while n > 0 { write_bits(read_bits(min(n, 64)), ..) }`
  and the hand model `BufW.copyFrom` is `copyGeneric ri (BufW.impl e) (n / 64 + 2)`, the model of the
  trait-default `copy_from`.

  * `copy_from_{be,le}_wide_eq`: for `W > 64` the translated body equals `BufW.copyFrom` (hence the
    trait-default loop `copyGeneric`), under the struct invariant `s.Inv` (`1 ≤ space ≤ W`) only — what was
    missing was that `write_bits` keeps the invariant (`writeBits_inv`), the hypothesis `0 < space` of
    `write_bits_XX_eq`.  No hypothesis on the reader interface: the Rust casts the `u64` it read, the
    model's `BufW.impl` truncates the `Nat` it is given to 64 bits, which is the same thing.
  * `genCopyFrom_eq_all`: for EVERY word width the translated body equals `BufW.copyFrom`, under `s.Inv`.
  * `gen_copyFrom_sim_all`: hence for every writer word width (the invariant gives `0 < W`) the
    translated `copy_from` refines the reference copy `refCopy` — `gen_copyFrom_sim` of
    BufWriterCopyGen.lean without `Ww ≤ 64`.
  * `gen_copyFrom_sim_gen_all`: the same through any reader that simulates the reference reader.
  * `copy_from_wide_default`: for `W > 64` the translated body is also equal to the TRANSLATED
    trait-default `copy_from` (`Gen.Traits.copy_from_default`) run on the hand model's writer, for a
    reader interface that returns `u64` values.

  About `Wr ≤ 64` in `GenCopy.gen_copyTo_sim` (CopyGen.lean): it cannot be dropped, not even for LE:
  `genCopyTo_needs_W_le_64` (the counterexample `copyTo_needs_W_le_64` of Props/Copy.lean, which is
  little-endian, carried over to the translated body): with 65-bit reader words the word loop of
  `copy_to` calls `write_bits(word, 65)`, a debug assertion of `write_bits`.  The Rust cannot
  instantiate it: `BitRead for BufBitReader<E, WR>` needs `WR::Word: DoubleType + UpcastableInto<u64>`,
  which `u128` is not.
-/
import Dsi.Gen.BufWriterBodies
import Dsi.Props.BufWriterCopyGen
import Dsi.Props.CopyGen
namespace Dsi
namespace GenBufWWide
variable {W : Nat}
open GenBufW GenCopy

/-! ### `write_bits` keeps the struct invariant -/

theorem emit_space {s s' : BufW W} {w : BitVec W} (h : s.emit w = .ok s') : s'.space = s.space := by
  unfold BufW.emit at h
  split at h
  · split at h
    · cases h; rfl
    · cases h
  · cases h; rfl

theorem spillBE_tw (v : BitVec 64) : ∀ k tw (s : BufW W) tw' s',
    BufW.spillBE v k tw s = .ok (tw', s') → tw' = tw - k * W
  | 0, tw, s, tw', s', h => by simp only [BufW.spillBE] at h; cases h; omega
  | k + 1, tw, s, tw', s', h => by
    simp only [BufW.spillBE] at h
    split at h
    · rename_i s1 _
      have := spillBE_tw v k _ s1 tw' s' h
      rw [this, Nat.add_mul]; omega
    all_goals cases h

theorem writeBitsBE_inv {s s' : BufW W} {v : BitVec 64} {n x : Nat} (hi : s.Inv)
    (h : BufW.writeBitsBE s v n = .ok (x, s')) : s'.Inv := by
  obtain ⟨h1, h2⟩ := hi
  unfold BufW.writeBitsBE at h
  split at h
  · cases h
  · split at h
    · cases h
    · split at h
      · rename_i hfast
        cases h
        exact ⟨by show 1 ≤ s.space - n; omega, by show s.space - n ≤ W; omega⟩
      · dsimp only at h
        split at h
        · rename_i s1 _
          split at h
          · rename_i tw s2 hsp
            cases h
            have htw := spillBE_tw v _ _ s1 tw s2 hsp
            have hW : 0 < W := by omega
            have hlt : (n - s.space) - (n - s.space) / W * W < W := by
              have := Nat.mod_lt (n - s.space) hW
              rw [Nat.mod_eq_sub_div_mul] at this; exact this
            exact ⟨by show 1 ≤ W - tw; omega, by show W - tw ≤ W; omega⟩
          all_goals cases h
        all_goals cases h

theorem writeBitsLE_inv {s s' : BufW W} {v : BitVec 64} {n x : Nat} (hi : s.Inv)
    (h : BufW.writeBitsLE s v n = .ok (x, s')) : s'.Inv := by
  obtain ⟨h1, h2⟩ := hi
  unfold BufW.writeBitsLE at h
  split at h
  · cases h
  · split at h
    · cases h
    · split at h
      · rename_i hfast
        cases h
        exact ⟨by show 1 ≤ s.space - n; omega, by show s.space - n ≤ W; omega⟩
      · dsimp only at h
        split at h
        · rename_i s1 _
          split at h
          · rename_i v2 s2 hsp
            cases h
            have hW : 0 < W := by omega
            have hlt := Nat.mod_lt (n - s.space) hW
            exact ⟨by show 1 ≤ W - (n - s.space) % W; omega, by show W - (n - s.space) % W ≤ W; omega⟩
          all_goals cases h
        all_goals cases h

/-- `BufBitWriter::write_bits` keeps `1 ≤ space_left_in_buffer ≤ W` -/
theorem writeBits_inv (e : Endian) {s s' : BufW W} {v n x : Nat} (hi : s.Inv)
    (h : (BufW.impl e).writeBits s v n = .ok (x, s')) : s'.Inv := by
  cases e with
  | be => exact writeBitsBE_inv hi h
  | le => exact writeBitsLE_inv hi h

/-! ### the chunked loop -/

/-- the translated `while n > 0 { .. }` over a writer method `wr` that agrees with the interface
    `wi` on an invariant `wi` keeps -/
theorem whileN_copyGeneric_inv {ρ ω : Type} (ri : RImpl ρ) (wi : WImpl ω) (Inv : ω → Prop)
    (wr : ω → BitVec 64 → Nat → Res (Nat × ω))
    (hwr : ∀ w v k, Inv w → wr w (BitVec.ofNat 64 v) k = wi.writeBits w v k)
    (hinv : ∀ w v k x w', Inv w → wi.writeBits w v k = .ok (x, w') → Inv w')
    (c : BitVec 64 × ρ × ω → Bool) (f : BitVec 64 × ρ × ω → Res (BitVec 64 × ρ × ω))
    (hc : ∀ st, c st = decide (st.1 > 0))
    (hf : ∀ st, f st = Res.bind (ri.readBits st.2.1 (if st.1 ≤ 64 then st.1 else 64).toNat) fun rr =>
      Res.bind (wr st.2.2 (BitVec.ofNat 64 rr.1) (if st.1 ≤ 64 then st.1 else 64).toNat) fun ww =>
      .ok (st.1 - BitVec.ofNat 64 (if st.1 ≤ 64 then st.1 else 64).toNat, rr.2, ww.2)) :
    ∀ k k' (n : BitVec 64) (r : ρ) (w : ω), Inv w → n.toNat ≤ 64 * k → n.toNat ≤ 64 * k' →
      whileN k (n, r, w) c f = (copyGeneric ri wi k' r w n.toNat).map fun p => (0, p.1, p.2)
  | 0, k', n, r, w, _, h1, _ => by
    have h0 : n.toNat = 0 := by omega
    have : n = 0 := (eq_zero_iff n).2 h0
    subst this
    cases k' <;> simp only [whileN, copyGeneric, toNat_zero64, if_true, Res.map]
  | k + 1, k', n, r, w, hw, h1, h2 => by
    by_cases h0 : n.toNat = 0
    · have : n = 0 := (eq_zero_iff n).2 h0
      subst this
      cases k' <;> simp only [whileN, copyGeneric, hc, gt_iff_lt, BitVec.lt_irrefl, decide_false,
        Bool.false_eq_true, if_false, toNat_zero64, if_true, Res.map]
    · have hg : n > 0 := (gt_zero_iff n).2 h0
      cases k' with
      | zero => omega
      | succ k' =>
        simp only [whileN, copyGeneric, hc, hf, min64_toNat, hg, decide_true, if_true, h0, if_false]
        cases hr : ri.readBits r (min n.toNat 64) with
        | ok p =>
          obtain ⟨v, r'⟩ := p
          simp only [Res.bind, hwr w v _ hw]
          cases hww : wi.writeBits w v (min n.toNat 64) with
          | ok q =>
            obtain ⟨x, w'⟩ := q
            simp only []
            have hsub := sub_toNat n (min n.toNat 64) (by omega)
            rw [whileN_copyGeneric_inv ri wi Inv wr hwr hinv c f hc hf k k' _ r' w'
              (hinv w v _ x w' hw hww) (by omega) (by omega), hsub]
          | _ => rfl
        | _ => rfl

/-! ### `copy_from` for words wider than 64 bits -/

theorem copy_from_be_wide_eq {ρ : Type} (ri : RImpl ρ) (s : BufW W) (r : ρ) (n : BitVec 64)
    (hW : W > 64) (hi : s.Inv) :
    Gen.BufW.copy_from_be ri s r n = BufW.copyFrom .be ri s r n.toNat := by
  unfold Gen.BufW.copy_from_be BufW.copyFrom
  simp only [if_pos hW]
  rw [whileN_copyGeneric_inv ri (BufW.impl .be) BufW.Inv Gen.BufW.write_bits_be
    (fun w v k hw => write_bits_be_eq w _ k hw.1) (fun w v k x w' hw h => writeBits_inv .be hw h)
    _ _ (fun _ => rfl) (fun _ => rfl) _ (n.toNat / 64 + 2) n r s hi (by omega) (by omega)]
  cases copyGeneric ri (BufW.impl .be) (n.toNat / 64 + 2) r s n.toNat with
  | ok p => rfl
  | _ => rfl

theorem copy_from_le_wide_eq {ρ : Type} (ri : RImpl ρ) (s : BufW W) (r : ρ) (n : BitVec 64)
    (hW : W > 64) (hi : s.Inv) :
    Gen.BufW.copy_from_le ri s r n = BufW.copyFrom .le ri s r n.toNat := by
  unfold Gen.BufW.copy_from_le BufW.copyFrom
  simp only [if_pos hW]
  rw [whileN_copyGeneric_inv ri (BufW.impl .le) BufW.Inv Gen.BufW.write_bits_le
    (fun w v k hw => write_bits_le_eq w _ k hw.1) (fun w v k x w' hw h => writeBits_inv .le hw h)
    _ _ (fun _ => rfl) (fun _ => rfl) _ (n.toNat / 64 + 2) n r s hi (by omega) (by omega)]
  cases copyGeneric ri (BufW.impl .le) (n.toNat / 64 + 2) r s n.toNat with
  | ok p => rfl
  | _ => rfl

/-- for words wider than 64 bits the translated `copy_from` is the generic chunked loop (the model of
    the trait-default `copy_from`) over the hand model's `write_bits` -/
theorem genCopyFrom_wide_eq_generic {ρ : Type} (e : Endian) (ri : RImpl ρ) (s : BufW W) (r : ρ)
    (n : BitVec 64) (hW : W > 64) (hi : s.Inv) :
    genCopyFrom e ri s r n = copyGeneric ri (BufW.impl e) (n.toNat / 64 + 2) r s n.toNat := by
  have : BufW.copyFrom e ri s r n.toNat = copyGeneric ri (BufW.impl e) (n.toNat / 64 + 2) r s n.toNat := by
    unfold BufW.copyFrom; rw [if_pos hW]
  rw [← this]
  cases e
  · exact copy_from_be_wide_eq ri s r n hW hi
  · exact copy_from_le_wide_eq ri s r n hW hi

/-- ... and the TRANSLATED trait-default `copy_from` run on the hand model's writer (reader
    interface returning `u64` values, the hypothesis of `copy_from_default_eq`) -/
theorem copy_from_wide_default {ρ : Type} (e : Endian) (ri : RImpl ρ)
    (hri : ∀ r k v r', ri.readBits r k = .ok (v, r') → v < 2 ^ 64) (s : BufW W) (r : ρ)
    (n : BitVec 64) (hW : W > 64) (hi : s.Inv) :
    genCopyFrom e ri s r n = Gen.Traits.copy_from_default ri (BufW.impl e) r s n := by
  rw [genCopyFrom_wide_eq_generic e ri s r n hW hi,
    copy_from_default_eq ri (BufW.impl e) hri r s n (n.toNat / 64 + 2) (by omega)]

/-! ### every word width -/

/-- the translated `copy_from` equals the hand model for EVERY word width, under the struct
    invariant only -/
theorem genCopyFrom_eq_all {ρ : Type} (e : Endian) (ri : RImpl ρ) (s : BufW W) (r : ρ) (n : BitVec 64)
    (hi : s.Inv) : genCopyFrom e ri s r n = BufW.copyFrom e ri s r n.toNat := by
  by_cases hW : W ≤ 64
  · exact genCopyFrom_eq e ri s r n hW hi
  · cases e
    · exact copy_from_be_wide_eq ri s r n (by omega) hi
    · exact copy_from_le_wide_eq ri s r n (by omega) hi

/-- **for every writer word width** (`0 < Ww` is part of `RelC`) the translated
    `BufBitWriter::copy_from` from a buffered reader copies the next `n` bits of the reference
    stream: `gen_copyFrom_sim` without `Ww ≤ 64`.  (`Wr ≤ 64` for a BE reader is the hypothesis of
    `readBits_sim`; the Rust has no wider reader words.) -/
theorem gen_copyFrom_sim_all {Wr Ww : Nat} {e : Endian} (hW64 : e = .be → Wr ≤ 64)
    {s : BufR Wr} {r : RefR} {t : BufW Ww} {w : RefW} (hs : BufR.Rel e s r) (ht : BufW.RelC e t w)
    {n : BitVec 64} (hav : r.avail n.toNat = true) :
    ResRel (CopyPost e) (genCopyFrom e (BufR.impl e) t s n) (refCopy r w n.toNat) := by
  rw [genCopyFrom_eq_all e _ t s n ht.1.1]
  exact copyFrom_sim hW64 hs ht hav

/-- the same reading through ANY reader `ri` whose `read_bits` simulates the reference reader under
    a state relation `P` (`CopyL.RSim`; e.g. the unbuffered `BitReader`): no width hypothesis at all -/
theorem gen_copyFrom_sim_gen_all {ρ : Type} {ri : RImpl ρ} {P : ρ → RefR → Prop} (hr : CopyL.RSim ri P)
    {e : Endian} {t : BufW W} {w : RefW} {s : ρ} {r : RefR} {n : BitVec 64} (hQ : BufW.RelC e t w)
    (hP : P s r) (he : r.e = e) (hav : r.avail n.toNat = true) :
    ResRel (CopyL.PQ P (BufW.RelC e)) (genCopyFrom e ri t s n) (refCopy r w n.toNat) := by
  rw [genCopyFrom_eq_all e _ t s n hQ.1.1]
  exact CopyL.copyFrom_sim_gen hr hQ hP he hav

/-! ### `Wr ≤ 64` in `gen_copyTo_sim` is necessary, also for LE -/

/-- the counterexample of `copyTo_needs_W_le_64` (a fresh LE reader over 65-bit words, 66 bits to
    copy) on the TRANSLATED `copy_to`: a debug panic (`write_bits(word, 65)`), while the
    specification succeeds -/
theorem genCopyTo_needs_W_le_64 :
    BufR.Rel .le copyCexS copyCexR ∧ BufW.RelC .le copyCexT copyCexW ∧
    genCopyTo .le false (BufW.impl .le) copyCexS copyCexT 66 = .dpanic ∧
    (refCopy copyCexR copyCexW 66).isOk = true := by
  obtain ⟨h1, h2, h3, h4⟩ := copyTo_needs_W_le_64
  refine ⟨h1, h2, ?_, h4⟩
  rw [genCopyTo_eq .le false _ copyCexS copyCexT 66 (by decide) (by decide) h1.1]
  exact h3

end GenBufWWide
end Dsi
