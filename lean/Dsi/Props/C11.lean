/-
  C11 — `WordAdapter` over an arbitrary schedule of `std::io` responses: words are transferred
  losslessly (every byte exactly once, in order) or an error is reported; without faults the
  adapter is transparent; word positions are byte positions divided by the word size.
-/
import Dsi.Impl.Adapter
import Dsi.Impl.AdapterSeek
import Dsi.Glue.MiscDriver
namespace Dsi

namespace SmallL

/-- what `write_all` can do: on success exactly `buf` has been appended and a prefix of the
    schedule consumed; it never panics; with enough fuel it does not run out of fuel -/
theorem writeAll_ok (fuel : Nat) (s s' : Sink) (buf : List Nat)
    (h : Sink.writeAll fuel s buf = .ok s') :
    s'.bytes = s.bytes ++ buf ∧ ∃ used, s.sched = used ++ s'.sched := by
  induction fuel generalizing s buf with
  | zero => cases h
  | succ fuel ih =>
    unfold Sink.writeAll at h
    split at h
    · rename_i hb
      cases h
      have : buf = [] := by simpa using hb
      subst this
      exact ⟨by simp, [], rfl⟩
    · split at h
      · rename_i hs
        cases h
        exact ⟨rfl, [], by simp [hs]⟩
      · rename_i k rest hs
        split at h
        · cases h
        · obtain ⟨h1, used, h2⟩ := ih _ _ h
          simp only at h1 h2
          refine ⟨?_, .accept k :: used, ?_⟩
          · rw [h1, List.append_assoc, List.take_append_drop]
          · rw [hs, h2]; rfl
      · rename_i rest hs
        obtain ⟨h1, used, h2⟩ := ih _ _ h
        simp only at h1 h2
        exact ⟨h1, .interrupted :: used, by rw [hs, h2]; rfl⟩
      · cases h

theorem writeAll_no_panic (fuel : Nat) (s : Sink) (buf : List Nat) :
    Sink.writeAll fuel s buf ≠ .panic := by
  induction fuel generalizing s buf with
  | zero => intro h; cases h
  | succ fuel ih =>
    unfold Sink.writeAll
    split
    · intro h; cases h
    · split
      · intro h; cases h
      · split
        · intro h; cases h
        · exact ih _ _
      · exact ih _ _
      · intro h; cases h

theorem writeAll_fuel (fuel : Nat) (s : Sink) (buf : List Nat) (hf : s.sched.length < fuel) :
    Sink.writeAll fuel s buf ≠ .dpanic := by
  induction fuel generalizing s buf with
  | zero => omega
  | succ fuel ih =>
    unfold Sink.writeAll
    split
    · intro h; cases h
    · split
      · intro h; cases h
      · rename_i k rest hs
        split
        · intro h; cases h
        · apply ih
          rw [hs] at hf
          simp only [List.length_cons] at hf ⊢
          omega
      · rename_i rest hs
        apply ih
        rw [hs] at hf
        simp only [List.length_cons] at hf ⊢
        omega
      · intro h; cases h

end SmallL
open SmallL

/-! ### writing -/

/-- `write_word` never panics and never runs out of the fuel the definition gives it:
    it returns `ok` or an error. -/
theorem adapter_write_total (s : Sink) (wb : List Nat) :
    (∃ s', s.writeWord wb = .ok s') ∨ (∃ e, s.writeWord wb = .err e) := by
  have h1 := writeAll_no_panic (s.sched.length + wb.length + 2) s wb
  have h2 := writeAll_fuel (s.sched.length + wb.length + 2) s wb (by omega)
  unfold Sink.writeWord
  cases h : Sink.writeAll (s.sched.length + wb.length + 2) s wb with
  | ok s' => exact .inl ⟨s', rfl⟩
  | err e => exact .inr ⟨e, rfl⟩
  | panic => exact absurd h h1
  | dpanic => exact absurd h h2

/-- Lossless: for every schedule, a successful `write_word` has transferred every byte of the word
    exactly once and in order (and consumed a prefix of the schedule); otherwise an error is
    returned — never a silent loss. -/
theorem adapter_write_lossless (s : Sink) (wb : List Nat) :
    (∀ s', s.writeWord wb = .ok s' → s'.bytes = s.bytes ++ wb ∧ ∃ used, s.sched = used ++ s'.sched) ∧
    ((∃ s', s.writeWord wb = .ok s') ∨ (∃ e, s.writeWord wb = .err e)) :=
  ⟨fun s' h => writeAll_ok _ s s' wb h, adapter_write_total s wb⟩

/-- writing a list of words in sequence, stopping at the first error (as `adWrite` does) -/
def Sink.writeWords : Sink → List (List Nat) → Res Sink
  | s, [] => .ok s
  | s, w :: ws =>
    match s.writeWord w with
    | .ok s' => Sink.writeWords s' ws
    | .err e => .err e
    | .panic => .panic
    | .dpanic => .dpanic

/-- a sequence of words: either the bytes of all words in order, or an error -/
theorem adapter_write_words_lossless (s : Sink) (ws : List (List Nat)) :
    (∀ s', s.writeWords ws = .ok s' → s'.bytes = s.bytes ++ ws.flatten) ∧
    ((∃ s', s.writeWords ws = .ok s') ∨ (∃ e, s.writeWords ws = .err e)) := by
  induction ws generalizing s with
  | nil => exact ⟨fun s' h => (by cases h; simp), .inl ⟨s, rfl⟩⟩
  | cons w ws ih =>
    unfold Sink.writeWords
    rcases adapter_write_total s w with ⟨s1, h1⟩ | ⟨e, h1⟩
    · rw [h1]
      have hb := (writeAll_ok _ s s1 w h1).1
      obtain ⟨ih1, ih2⟩ := ih s1
      refine ⟨fun s' h => ?_, ih2⟩
      rw [ih1 s' h, hb]; simp
    · rw [h1]
      exact ⟨fun s' h => (by cases h), .inr ⟨e, rfl⟩⟩

/-- Transparent: without faults `write_word` always succeeds and appends the word. -/
theorem adapter_write_transparent (s : Sink) (wb : List Nat) (h : s.sched = []) :
    s.writeWord wb = .ok { s with bytes := s.bytes ++ wb } := by
  unfold Sink.writeWord
  rw [show s.sched.length + wb.length + 2 = (s.sched.length + wb.length + 1) + 1 from rfl]
  unfold Sink.writeAll
  cases wb with
  | nil => simp
  | cons b bs => simp [h]

/-- a failing response is reported: the first response that is not `Interrupted` decides a
    one-call write -/
theorem adapter_write_fail (s : Sink) (wb : List Nat) (rest : List IoResp) (hw : wb ≠ [])
    (h : s.sched = .fail :: rest) : s.writeWord wb = .err .io := by
  unfold Sink.writeWord
  rw [show s.sched.length + wb.length + 2 = (s.sched.length + wb.length + 1) + 1 from rfl]
  unfold Sink.writeAll
  have : wb.isEmpty = false := by cases wb <;> simp_all
  simp [this, h]

/-- `Ok(0)` from the wrapped object is `WriteZero` -/
theorem adapter_write_zero (s : Sink) (wb : List Nat) (rest : List IoResp) (hw : wb ≠ [])
    (h : s.sched = .accept 0 :: rest) : s.writeWord wb = .err .writeZero := by
  unfold Sink.writeWord
  rw [show s.sched.length + wb.length + 2 = (s.sched.length + wb.length + 1) + 1 from rfl]
  unfold Sink.writeAll
  have : wb.isEmpty = false := by cases wb <;> simp_all
  simp [this, h]

/-! ### reading -/

namespace SmallL

theorem take_take_drop (l : List Nat) (m n : Nat) (hm : m ≤ n) :
    l.take m ++ (l.drop m).take (n - m) = l.take n := by
  have : n = m + (n - m) := by omega
  rw [this, List.take_add]
  simp

theorem readExact_ok (fuel : Nat) (s s' : Source) (n : Nat) (acc out : List Nat)
    (h : Source.readExact fuel s n acc = .ok (out, s')) :
    out = acc ++ s.bytes.take n ∧ n ≤ s.bytes.length ∧ s'.bytes = s.bytes.drop n ∧
    ∃ used, s.sched = used ++ s'.sched := by
  induction fuel generalizing s n acc with
  | zero => cases h
  | succ fuel ih =>
    unfold Source.readExact at h
    split at h
    · rename_i hn
      subst hn
      simp only [Res.ok.injEq, Prod.mk.injEq] at h
      obtain ⟨rfl, rfl⟩ := h
      exact ⟨by simp, Nat.zero_le _, by simp, [], rfl⟩
    · split at h
      · cases h
      · split at h
        · rename_i hs
          split at h
          · cases h
          · rename_i hl
            simp only [Res.ok.injEq, Prod.mk.injEq] at h
            obtain ⟨rfl, rfl⟩ := h
            exact ⟨rfl, by omega, rfl, [], by simp [hs]⟩
        · rename_i k rest hs
          split at h
          · cases h
          · obtain ⟨h1, h2, h3, used, h4⟩ := ih _ _ _ h
            simp only [List.length_take, List.length_drop] at h1 h2 h3 h4
            have hmn : min k n ≤ n := Nat.min_le_right _ _
            -- the chunk taken is entirely inside the data (otherwise the rest could not be served)
            have hml : min k n ≤ s.bytes.length := by omega
            have hg : min (min k n) s.bytes.length = min k n := Nat.min_eq_left hml
            rw [hg] at h1 h2 h3
            refine ⟨?_, by omega, ?_, .accept k :: used, by rw [hs, h4]; rfl⟩
            · rw [h1, List.append_assoc, take_take_drop _ _ _ hmn]
            · rw [h3, List.drop_drop]
              congr 1; omega
        · rename_i rest hs
          obtain ⟨h1, h2, h3, used, h4⟩ := ih _ _ _ h
          simp only at h4
          exact ⟨h1, h2, h3, .interrupted :: used, by rw [hs, h4]; rfl⟩
        · cases h

theorem readExact_no_panic (fuel : Nat) (s : Source) (n : Nat) (acc : List Nat) :
    Source.readExact fuel s n acc ≠ .panic := by
  induction fuel generalizing s n acc with
  | zero => intro h; cases h
  | succ fuel ih =>
    unfold Source.readExact
    split
    · intro h; cases h
    · split
      · intro h; cases h
      · split
        · split <;> (intro h; cases h)
        · split
          · intro h; cases h
          · exact ih _ _ _
        · exact ih _ _ _
        · intro h; cases h

theorem readExact_fuel (fuel : Nat) (s : Source) (n : Nat) (acc : List Nat) (hf : s.sched.length < fuel) :
    Source.readExact fuel s n acc ≠ .dpanic := by
  induction fuel generalizing s n acc with
  | zero => omega
  | succ fuel ih =>
    unfold Source.readExact
    split
    · intro h; cases h
    · split
      · intro h; cases h
      · split
        · split <;> (intro h; cases h)
        · rename_i k rest hs
          split
          · intro h; cases h
          · apply ih
            rw [hs] at hf
            simp only [List.length_cons] at hf ⊢
            omega
        · rename_i rest hs
          apply ih
          rw [hs] at hf
          simp only [List.length_cons] at hf ⊢
          omega
        · intro h; cases h

end SmallL

/-- `read_word` never panics and never runs out of fuel: it returns `ok` or an error -/
theorem adapter_read_total (src : Source) (n : Nat) :
    (∃ x, src.readWord n = .ok x) ∨ (∃ e, src.readWord n = .err e) := by
  have h1 := readExact_no_panic (src.sched.length + n + 2) src n []
  have h2 := readExact_fuel (src.sched.length + n + 2) src n [] (by omega)
  unfold Source.readWord
  cases h : Source.readExact (src.sched.length + n + 2) src n [] with
  | ok x => exact .inl ⟨x, rfl⟩
  | err e => exact .inr ⟨e, rfl⟩
  | panic => exact absurd h h1
  | dpanic => exact absurd h h2

/-- Exact: for every schedule a successful `read_word` returns exactly the next `n` bytes, in
    order, and leaves exactly the bytes after them. -/
theorem adapter_read_exact (src src' : Source) (n : Nat) (bytes : List Nat)
    (h : src.readWord n = .ok (bytes, src')) :
    bytes = src.bytes.take n ∧ bytes.length = n ∧ src'.bytes = src.bytes.drop n := by
  obtain ⟨h1, h2, h3, _⟩ := readExact_ok _ src src' n [] bytes h
  simp only [List.nil_append] at h1
  refine ⟨h1, ?_, h3⟩
  rw [h1, List.length_take]; omega

/-- Transparent: without faults `read_word` succeeds iff enough bytes are left (and then returns
    them), and fails with `UnexpectedEof` otherwise. -/
theorem adapter_read_transparent (src : Source) (n : Nat) (h : src.sched = []) :
    (n ≤ src.bytes.length → src.readWord n = .ok (src.bytes.take n, { src with bytes := src.bytes.drop n })) ∧
    (src.bytes.length < n → src.readWord n = .err .eof) ∧
    ((∃ x, src.readWord n = .ok x) ↔ n ≤ src.bytes.length) := by
  have key : (n ≤ src.bytes.length → src.readWord n = .ok (src.bytes.take n, { src with bytes := src.bytes.drop n })) ∧
      (src.bytes.length < n → src.readWord n = .err .eof) := by
    unfold Source.readWord
    rw [show src.sched.length + n + 2 = (src.sched.length + n + 1) + 1 from rfl]
    unfold Source.readExact
    obtain ⟨bytes, sched⟩ := src
    simp only at h
    subst h
    by_cases hn : n = 0
    · subst hn; simp
    · cases bytes with
      | nil => simp [hn]
      | cons b bs =>
        simp only [hn, if_false, List.isEmpty_cons, Bool.false_eq_true, List.nil_append]
        constructor
        · intro hle
          simp only [List.length_cons] at hle ⊢
          have : ¬ bs.length + 1 < n := by omega
          simp [this]
        · intro hlt
          simp only [List.length_cons] at hlt ⊢
          simp [hlt]
  refine ⟨key.1, key.2, ⟨fun ⟨x, hx⟩ => ?_, fun hle => ⟨_, key.1 hle⟩⟩⟩
  by_cases hle : n ≤ src.bytes.length
  · exact hle
  · rw [key.2 (by omega)] at hx; cases hx

/-- reading `count` words in sequence, stopping at the first error (as `adRead` does) -/
def Source.readWords (nbytes : Nat) : Source → Nat → Res (List (List Nat) × Source)
  | s, 0 => .ok ([], s)
  | s, k + 1 =>
    match s.readWord nbytes with
    | .ok (w, s') =>
      match Source.readWords nbytes s' k with
      | .ok (ws, s'') => .ok (w :: ws, s'')
      | .err e => .err e
      | .panic => .panic
      | .dpanic => .dpanic
    | .err e => .err e
    | .panic => .panic
    | .dpanic => .dpanic

/-- `k` words read in sequence are the consecutive `nbytes`-byte chunks of the data:
    word `i` is bytes `[i*nbytes, (i+1)*nbytes)` -/
theorem adapter_read_words_exact (nbytes : Nat) (src src' : Source) (k : Nat) (ws : List (List Nat))
    (h : src.readWords nbytes k = .ok (ws, src')) :
    ws.length = k ∧ src'.bytes = src.bytes.drop (k * nbytes) ∧ k * nbytes ≤ src.bytes.length ∧
    ∀ i, (hi : i < ws.length) → ws[i] = (src.bytes.drop (i * nbytes)).take nbytes := by
  induction k generalizing src ws with
  | zero =>
    simp only [Source.readWords, Res.ok.injEq, Prod.mk.injEq] at h
    obtain ⟨rfl, rfl⟩ := h
    exact ⟨rfl, by simp, by simp, fun i hi => absurd hi (by simp)⟩
  | succ k ih =>
    unfold Source.readWords at h
    cases h1 : src.readWord nbytes with
    | ok x =>
      obtain ⟨w, s1⟩ := x
      rw [h1] at h
      simp only at h
      cases h2 : Source.readWords nbytes s1 k with
      | ok y =>
        obtain ⟨ws1, s2⟩ := y
        rw [h2] at h
        simp only [Res.ok.injEq, Prod.mk.injEq] at h
        obtain ⟨rfl, rfl⟩ := h
        obtain ⟨e1, e2, e3⟩ := adapter_read_exact src s1 nbytes w h1
        obtain ⟨i1, i2, i3, i4⟩ := ih s1 ws1 h2
        have hlen : nbytes ≤ src.bytes.length := by
          have := (SmallL.readExact_ok _ src s1 nbytes [] w h1).2.1; exact this
        rw [e3] at i2 i3
        simp only [List.length_drop] at i3
        refine ⟨by simp [i1], ?_, ?_, ?_⟩
        · rw [i2, List.drop_drop]; congr 1; rw [Nat.succ_mul]; omega
        · rw [Nat.succ_mul]; omega
        · intro i hi
          cases i with
          | zero => simp [e1]
          | succ j =>
            simp only [List.getElem_cons_succ]
            rw [i4 j (by simpa using hi), e3, List.drop_drop]
            congr 2; rw [Nat.succ_mul]; omega
      | err e => rw [h2] at h; cases h
      | panic => rw [h2] at h; cases h
      | dpanic => rw [h2] at h; cases h
    | err e => rw [h1] at h; cases h
    | panic => rw [h1] at h; cases h
    | dpanic => rw [h1] at h; cases h

/-! ### word positions (the `WordSeek` arithmetic of the driver, `adSeekStep`) -/

theorem ad_rw (nbytes : Nat) (c : AdCursor) (h : c.pos + nbytes ≤ c.data.length) :
    adSeekStep nbytes c ["rw"] =
      (bytesHex ((c.data.drop c.pos).take nbytes), some { c with pos := c.pos + nbytes }) := by
  simp [adSeekStep, AdCursor.readWord, h]

theorem ad_rw_eof (nbytes : Nat) (c : AdCursor) (h : c.data.length < c.pos + nbytes) :
    adSeekStep nbytes c ["rw"] = ("E:eof", some c.afterFailedRead) := by
  have : ¬ c.pos + nbytes ≤ c.data.length := by omega
  simp [adSeekStep, AdCursor.readWord, this, showRes]

theorem ad_wp (nbytes : Nat) (c : AdCursor) :
    adSeekStep nbytes c ["wp"] = (toString ((c.pos + nbytes - 1) / nbytes), some c) := by
  simp [adSeekStep, AdCursor.wordPos]

theorem ad_sp (nbytes : Nat) (c : AdCursor) (ks : String) (k : Nat) (hk : num? ks = some k) :
    adSeekStep nbytes c ["sp", ks] = ("ok", some { c with pos := k * nbytes }) := by
  simp [adSeekStep, AdCursor.setWordPos, hk]

/-- `k` successive `rw` operations (`none` as soon as one fails) -/
def adRwN (nbytes : Nat) : AdCursor → Nat → Option AdCursor
  | c, 0 => some c
  | c, k + 1 =>
    if c.pos + nbytes ≤ c.data.length then
      match (adSeekStep nbytes c ["rw"]).2 with
      | some c' => adRwN nbytes c' k
      | none => none
    else none

theorem ad_rwN_pos (nbytes : Nat) (c c' : AdCursor) (k : Nat) (h : adRwN nbytes c k = some c') :
    c'.pos = c.pos + k * nbytes ∧ c'.data = c.data := by
  induction k generalizing c with
  | zero => simp only [adRwN, Option.some.injEq] at h; subst h; simp
  | succ k ih =>
    unfold adRwN at h
    by_cases hle : c.pos + nbytes ≤ c.data.length
    · rw [if_pos hle, ad_rw nbytes c hle] at h
      obtain ⟨h1, h2⟩ := ih _ h
      simp only at h1 h2
      refine ⟨?_, h2⟩
      rw [h1, Nat.succ_mul]; omega
    · rw [if_neg hle] at h
      cases h

/-- after `k` successful `read_word` from position 0, `word_pos` answers `k` -/
theorem ad_wp_after_rw (nbytes : Nat) (hn : 0 < nbytes) (data : List Nat) (c' : AdCursor) (k : Nat)
    (h : adRwN nbytes { data := data, pos := 0 } k = some c') :
    adSeekStep nbytes c' ["wp"] = (toString k, some c') := by
  obtain ⟨h1, _⟩ := ad_rwN_pos nbytes _ c' k h
  simp only [Nat.zero_add] at h1
  rw [ad_wp, h1]
  have : (k * nbytes + nbytes - 1) / nbytes = k := by
    have h2 : k * nbytes + nbytes - 1 = (nbytes - 1) + nbytes * k := by
      rw [Nat.mul_comm]; omega
    rw [h2, Nat.add_mul_div_left _ _ hn, Nat.div_eq_of_lt (by omega)]
    omega
  rw [this]

/-- after `set_word_pos(k)`, `read_word` returns bytes `[k*nbytes, (k+1)*nbytes)` and
    `word_pos` then answers `k + 1` -/
theorem ad_sp_then_rw (nbytes : Nat) (hn : 0 < nbytes) (c : AdCursor) (ks : String) (k : Nat)
    (hk : num? ks = some k) (hin : (k + 1) * nbytes ≤ c.data.length) :
    ∃ c1 c2, adSeekStep nbytes c ["sp", ks] = ("ok", some c1) ∧
      adSeekStep nbytes c1 ["rw"] = (bytesHex ((c.data.drop (k * nbytes)).take nbytes), some c2) ∧
      c2.pos = (k + 1) * nbytes ∧
      adSeekStep nbytes c2 ["wp"] = (toString (k + 1), some c2) := by
  refine ⟨{ c with pos := k * nbytes }, { c with pos := k * nbytes + nbytes }, ad_sp nbytes c ks k hk, ?_, ?_, ?_⟩
  · rw [ad_rw]
    simp only
    rw [Nat.succ_mul] at hin; exact hin
  · simp only; rw [Nat.succ_mul]
  · rw [ad_wp]
    simp only
    have : (k * nbytes + nbytes + nbytes - 1) / nbytes = k + 1 := by
      have h2 : k * nbytes + nbytes + nbytes - 1 = (nbytes - 1) + nbytes * (k + 1) := by
        rw [Nat.mul_comm, Nat.mul_succ]; omega
      rw [h2, Nat.add_mul_div_left _ _ hn, Nat.div_eq_of_lt (by omega)]
      omega
    rw [this]

/-- a `read_word` that failed (possibly leaving the byte position inside a partial trailing word)
    does not disturb later seeks: `set_word_pos(k)` still addresses word `k` -/
theorem ad_sp_after_failed_read (nbytes : Nat) (hn : 0 < nbytes) (c : AdCursor) (ks : String) (k : Nat)
    (hf : c.data.length < c.pos + nbytes) (hk : num? ks = some k) (hin : (k + 1) * nbytes ≤ c.data.length) :
    ∃ c0 c1 c2, adSeekStep nbytes c ["rw"] = ("E:eof", some c0) ∧
      adSeekStep nbytes c0 ["sp", ks] = ("ok", some c1) ∧
      adSeekStep nbytes c1 ["rw"] = (bytesHex ((c.data.drop (k * nbytes)).take nbytes), some c2) ∧
      adSeekStep nbytes c2 ["wp"] = (toString (k + 1), some c2) := by
  obtain ⟨c1, c2, h1, h2, _, h4⟩ := ad_sp_then_rw nbytes hn c.afterFailedRead ks k hk hin
  exact ⟨c.afterFailedRead, c1, c2, ad_rw_eof nbytes c hf, h1, h2, h4⟩

/-- the same over the storage-less source (positions beyond any real buffer): after
    `set_word_pos(k)` the next `read_word` returns bytes `[k*nbytes, (k+1)*nbytes)` and `word_pos`
    then answers `k + 1`, for every `k` whose byte offset fits in a `u64` -/
theorem advirt_sp_then_rw (nbytes : Nat) (hn : 0 < nbytes) (c : AdVirt) (k : Nat)
    (hin : (k + 1) * nbytes < 2 ^ 64) :
    ((c.setWordPos nbytes k).readWord nbytes).1 = (List.range nbytes).map (fun i => virtByte (k * nbytes + i)) ∧
    ((c.setWordPos nbytes k).readWord nbytes).2.wordPos nbytes = k + 1 := by
  have hk : k * nbytes < 2 ^ 64 := by rw [Nat.succ_mul] at hin; omega
  have hk1 : k * nbytes + nbytes < 2 ^ 64 := by rw [Nat.succ_mul] at hin; exact hin
  refine ⟨?_, ?_⟩
  · simp only [AdVirt.setWordPos, AdVirt.readWord, Nat.mod_eq_of_lt hk]
  · simp only [AdVirt.setWordPos, AdVirt.readWord, AdVirt.wordPos, Nat.mod_eq_of_lt hk, Nat.mod_eq_of_lt hk1]
    have h2 : k * nbytes + nbytes + nbytes - 1 = (nbytes - 1) + nbytes * (k + 1) := by
      rw [Nat.mul_comm, Nat.mul_succ]; omega
    rw [h2, Nat.add_mul_div_left _ _ hn, Nat.div_eq_of_lt (by omega)]
    omega

/-- the bytes `rw` shows are the bytes the adapter reads from a fault-free source positioned at
    the same byte -/
theorem ad_rw_is_readWord (nbytes : Nat) (c : AdCursor) (h : c.pos + nbytes ≤ c.data.length) :
    ({ bytes := c.data.drop c.pos } : Source).readWord nbytes =
      .ok ((c.data.drop c.pos).take nbytes, { bytes := c.data.drop (c.pos + nbytes) }) := by
  have := (adapter_read_transparent { bytes := c.data.drop c.pos } nbytes rfl).1
    (by simp only [List.length_drop]; omega)
  rw [this]
  simp [List.drop_drop, Nat.add_comm]

/-! ### concrete instances -/

/-- a short write, an interruption, then the rest: nothing lost, nothing duplicated -/
example :
    (({ bytes := [9], sched := [.accept 3, .interrupted, .accept 100] } : Sink).writeWord
        [1, 2, 3, 4, 5, 6, 7, 8]).map (fun s => (s.bytes, s.sched.length)) =
      .ok ([9, 1, 2, 3, 4, 5, 6, 7, 8], 0) := by rfl

/-- `Ok(0)` after a partial transfer is an error, not a loss -/
example :
    (({ sched := [.accept 3, .accept 0] } : Sink).writeWord [1, 2, 3, 4]).map (fun s => s.bytes) =
      .err .writeZero := by rfl

example :
    (({ bytes := [1, 2, 3, 4, 5, 6], sched := [.accept 1, .interrupted, .accept 2] } : Source).readWord 4).map
        (fun (w, s) => (w, s.bytes)) = .ok ([1, 2, 3, 4], [5, 6]) := by rfl

example (sched : List IoResp) (s' : Sink) (h : ({ sched := sched } : Sink).writeWords [[1, 2], [3, 4]] = .ok s') :
    s'.bytes = [1, 2, 3, 4] := by
  have := (adapter_write_words_lossless { sched := sched } [[1, 2], [3, 4]]).1 s' h
  simpa using this

example : (adSeekStep 4 { data := List.range 16, pos := 8 } ["wp"]).1 = "2" := by
  rw [ad_wp]; rfl

end Dsi
