/-
  Headline, C06: the length functions as GENERATED from src/codes/*.rs on this run
  (Gen/LenFormulas.lean) return the length of the published codeword.  In a module of its own: it
  depends on no reader / writer body.  See Props/Headline.lean.
-/
import Dsi.Props.LenGen
import Dsi.Props.Equiv
namespace Dsi
namespace Headline
open Gen

/-- the generated length function of a code (`len_unary` is `n + 1` in the dispatchers) -/
def genOwnLen (c : CodeId) (v : Nat) : Nat :=
  match c.fam with
  | .unary => v + 1
  | .gamma => Gen.len_gamma v
  | .delta => Gen.len_delta v
  | .omega => Gen.len_omega v
  | .vbyteBe | .vbyteLe => Gen.bit_len_vbyte v
  | .zeta => Gen.len_zeta v c.p
  | .pi => Gen.len_pi v c.p
  | .golomb => Gen.len_golomb v c.p
  | .expGolomb => Gen.len_exp_golomb v c.p
  | .rice => Gen.len_rice v c.p


theorem genOwnLen_eq (c : CodeId) (v : Nat) (hd : c.Dom v) : genOwnLen c v = ownLen c v := by
  obtain ⟨fam, p⟩ := c
  cases fam
  case unary => rfl
  case gamma => exact LenGen.len_gamma_eq v
  case delta => exact LenGen.len_delta_eq v
  case omega => exact LenGen.len_omega_eq hd
  case vbyteBe => exact LenGen.bit_len_vbyte_eq hd
  case vbyteLe => exact LenGen.bit_len_vbyte_eq hd
  case zeta =>
    obtain ⟨_, _, h3, _⟩ :
      1 ≤ p ∧ p ≤ 63 ∧ v < 2 ^ 64 - 1 ∧ ((v + 1).log2 / p + 1) * p ≤ 64 := hd
    exact LenGen.len_zeta_eq p h3
  case pi => exact LenGen.len_pi_eq v p
  case golomb => exact LenGen.len_golomb_eq v p
  case expGolomb => exact LenGen.len_exp_golomb_eq v p
  case rice => exact LenGen.len_rice_eq v p

/-- **the generated `len_*` function of a code returns the length of the published codeword** -/
theorem gen_len_eq (e : Endian) (c : CodeId) (v : Nat) (hd : c.Dom v) :
    c.codewordLen e v = some (genOwnLen c v) := by
  rw [genOwnLen_eq c v hd]
  exact ownLen_codeword e c v hd

theorem gen_len_eq' (e : Endian) (c : CodeId) (v : Nat) (hd : c.Dom v) {cw : List Bool}
    (hcw : c.codeword e v = some cw) : genOwnLen c v = cw.length := by
  have := gen_len_eq e c v hd
  rw [CodeId.codewordLen, hcw] at this
  exact (Option.some.inj this).symm

/-- the generated `len_*_param` functions with their table flags, and `len_minimal_binary` -/
theorem gen_len_gamma_param_eq (e : Endian) (t : Bool) (n : Nat) :
    Gen.len_gamma_param t n = (Spec.gamma e n).length := by
  rw [LenGen.len_gamma_param_eq, lenGammaP_eq, gamma_len e]

theorem gen_len_delta_param_eq (e : Endian) (td tg : Bool) (n : Nat) :
    Gen.len_delta_param td tg n = (Spec.delta e n).length := by
  rw [LenGen.len_delta_param_eq, lenDeltaP_eq, delta_len e]

theorem gen_len_zeta_param_eq (e : Endian) (t : Bool) (k n : Nat) (hk1 : 1 ≤ k) (hk : k ≤ 63)
    (hn : n < 2 ^ 64 - 1) : Gen.len_zeta_param t n k = (Spec.zetaWrapped e k n).length := by
  rw [LenGen.len_zeta_param_eq t k hn, lenZetaP_eq, zeta_len e k n hk1 hk hn]

theorem gen_len_minimal_binary_eq (e : Endian) (x u : Nat) (hu : 1 ≤ u) (h64 : u < 2 ^ 64) :
    Gen.len_minimal_binary x u = (Spec.minimalBinary e x u).length := by
  rw [LenGen.len_minimal_binary_eq, minbin_len e x u hu h64]

/-! ### non-vacuity -/

example : (⟨.pi, 2⟩ : CodeId).codewordLen .be 77 = some (genOwnLen ⟨.pi, 2⟩ 77) :=
  gen_len_eq .be ⟨.pi, 2⟩ 77 (by decide)
example : genOwnLen ⟨.omega, 0⟩ 1000000 = (Spec.omega .le 1000000).length :=
  gen_len_eq' .le ⟨.omega, 0⟩ 1000000 (by decide) rfl
example : Gen.len_delta_param true false 1000 = (Spec.delta .be 1000).length :=
  gen_len_delta_param_eq .be true false 1000
example : Gen.len_zeta_param true 12345 3 = (Spec.zetaWrapped .le 3 12345).length :=
  gen_len_zeta_param_eq .le true 3 12345 (by decide) (by decide) (by decide)

end Headline
end Dsi
