/-
  The generated `len_*` definitions (lean/Dsi/Gen/LenFormulas.lean, produced by
  tools/translate_len.py from the Rust bodies of src/codes/*.rs on every run) are equal, on their
  domain, to the hand-written model functions of Dsi/Codes.lean / Dsi/Defaults.lean that every
  other theorem of C06 / C20 is stated about.

  A change to one of these Rust bodies changes the generated text and breaks the corresponding
  theorem below.  Domain hypotheses: `n < 2 ^ 64 - 1` where the Rust computes `n + 1` on a u64 and
  then shifts by a quantity derived from `ilog2 (n + 1)`; `value < 2 ^ 64` for the bounded loop.
-/
import Dsi.Defaults
import Dsi.Gen.LenFormulas
namespace Dsi
namespace LenGen
open Gen

/-! ### arithmetic helpers -/

theorem one_shl (l : Nat) : 1 <<< l = 2 ^ l := by
  simp [Nat.shiftLeft_eq]

/-- `((1 << l) << 1)` with both shifts truncated is the model's `shl64 (2 ^ l) 1`. -/
theorem shl_shl (l : Nat) : (((1 <<< l) % 2 ^ 64) <<< 1) % 2 ^ 64 = shl64 (2 ^ l) 1 := by
  simp only [shl64, Nat.shiftLeft_eq, Nat.one_mul, Nat.mod_mul_mod]

theorem log2_lt_64 {m : Nat} (h : m < 2 ^ 64) : m.log2 < 64 := by
  by_cases h0 : m = 0
  · subst h0; simp [Nat.log2_zero]
  · exact (Nat.log2_lt h0).2 h

/-- the shift amount of ζ: `(ilog2 m / k) * k ≤ 63` for a u64 `m`. -/
theorem hk_lt_64 {m : Nat} (k : Nat) (h : m < 2 ^ 64) : m.log2 / k * k < 64 :=
  Nat.lt_of_le_of_lt (Nat.div_mul_le_self _ _) (log2_lt_64 h)

theorem pow_mod_of_lt {e : Nat} (h : e < 64) : 2 ^ e % 2 ^ 64 = 2 ^ e :=
  Nat.mod_eq_of_lt (Nat.pow_lt_pow_right (by decide) h)

/-! ### γ -/

theorem len_gamma_param_eq (t : Bool) (n : Nat) : Gen.len_gamma_param t n = lenGammaP t n := by
  cases t
  · simp [Gen.len_gamma_param, lenGammaP, opt, lenGamma, lenGammaDefault]
  · simp only [Gen.len_gamma_param, lenGammaP, opt, lenGamma, lenGammaDefault, if_true]
    cases Gamma.LEN[n]? <;> rfl

theorem len_gamma_param_true (n : Nat) : Gen.len_gamma_param true n = lenGamma (some Gamma.LEN) n :=
  len_gamma_param_eq true n

theorem len_gamma_param_false (n : Nat) : Gen.len_gamma_param false n = lenGammaDefault n := by
  rw [len_gamma_param_eq]; rfl

theorem len_gamma_eq (n : Nat) : Gen.len_gamma n = lenGammaD n := by
  simp only [Gen.len_gamma, len_gamma_param_eq]; rfl

/-! ### δ -/

theorem len_delta_param_eq (td tg : Bool) (n : Nat) : Gen.len_delta_param td tg n = lenDeltaP td tg n := by
  cases td
  · simp [Gen.len_delta_param, lenDeltaP, lenDelta, opt, len_gamma_param_eq, lenGammaP]
  · simp only [Gen.len_delta_param, lenDeltaP, lenDelta, opt, len_gamma_param_eq, lenGammaP, if_true]
    cases Delta.LEN[n]? <;> rfl

theorem len_delta_eq (n : Nat) : Gen.len_delta n = lenDeltaD n := by
  simp only [Gen.len_delta, len_delta_param_eq]; rfl

/-! ### minimal binary -/

theorem len_minimal_binary_eq (n max : Nat) : Gen.len_minimal_binary n max = lenMinimalBinary n max := by
  simp only [Gen.len_minimal_binary, lenMinimalBinary, mbLimit, wsub64, shl_shl]
  split
  · rfl
  · split <;> simp_all

/-! ### ζ -/

theorem len_zeta_default_eq {n : Nat} (k : Nat) (hn : n < 2 ^ 64 - 1) :
    (let n := n + 1
     let h := n.log2 / k
     let l := (1 <<< (h * k)) % 2 ^ 64
     h + 1 + Gen.len_minimal_binary (n - l) (((l <<< k) % 2 ^ 64 + 2 ^ 64 - l) % 2 ^ 64))
    = lenZetaDefault n k := by
  have hm : n + 1 < 2 ^ 64 := by omega
  simp only [one_shl, pow_mod_of_lt (hk_lt_64 k hm)]
  simp only [lenZetaDefault, zetaU, wsub64, shl64, len_minimal_binary_eq, Nat.shiftLeft_eq]

theorem len_zeta_param_eq (t : Bool) {n : Nat} (k : Nat) (hn : n < 2 ^ 64 - 1) :
    Gen.len_zeta_param t n k = lenZetaP t n k := by
  have hd := len_zeta_default_eq k hn
  simp only at hd
  cases t
  · simp only [Gen.len_zeta_param, lenZetaP, opt, lenZeta, Bool.false_eq_true, if_false, hd]
  · simp only [Gen.len_zeta_param, lenZetaP, opt, lenZeta, if_true]
    by_cases hk : k = Zeta.K
    · simp only [hk, if_true] at hd ⊢
      cases Zeta.LEN[n]? <;> simp only [hd]
    · simp only [hk, if_false, hd]

theorem len_zeta_param_true {n : Nat} (k : Nat) (hn : n < 2 ^ 64 - 1) :
    Gen.len_zeta_param true n k = lenZeta (some (Zeta.LEN, Zeta.K)) n k :=
  len_zeta_param_eq true k hn

theorem len_zeta_param_false {n : Nat} (k : Nat) (hn : n < 2 ^ 64 - 1) :
    Gen.len_zeta_param false n k = lenZetaDefault n k := by
  rw [len_zeta_param_eq false k hn]; rfl

theorem len_zeta_eq {n : Nat} (k : Nat) (hn : n < 2 ^ 64 - 1) : Gen.len_zeta n k = lenZetaD n k := by
  simp only [Gen.len_zeta, len_zeta_param_eq true k hn]; rfl

/-! ### ω -/

/-- With enough fuel for the size of the argument the generated recursion (0 when out of fuel) and
    the model's (1 when out of fuel) agree. -/
theorem recursive_len_fuel_eq : ∀ (fuel m : Nat), m < 2 ^ 65 →
    Gen.recursive_len_fuel (fuel + 5) m = omegaLenRec (fuel + 5) m := by
  intro fuel m hm
  -- unfold five levels; at each level either the argument is ≤ 1 or its logarithm is smaller
  have l1 : m.log2 < 65 := by
    by_cases h0 : m = 0
    · subst h0; simp [Nat.log2_zero]
    · exact (Nat.log2_lt h0).2 hm
  have step : ∀ {a b : Nat}, a < 2 ^ b → a.log2 < b ∨ a = 0 := by
    intro a b h
    by_cases h0 : a = 0
    · exact Or.inr h0
    · exact Or.inl ((Nat.log2_lt h0).2 h)
  have l2 : m.log2.log2 < 7 := by
    rcases step (a := m.log2) (b := 7) (by omega) with h | h
    · exact h
    · rw [h]; simp [Nat.log2_zero]
  have l3 : m.log2.log2.log2 < 3 := by
    rcases step (a := m.log2.log2) (b := 3) (by omega) with h | h
    · exact h
    · rw [h]; simp [Nat.log2_zero]
  have l4 : m.log2.log2.log2.log2 < 2 := by
    rcases step (a := m.log2.log2.log2) (b := 2) (by omega) with h | h
    · exact h
    · rw [h]; simp [Nat.log2_zero]
  have l5 : m.log2.log2.log2.log2.log2 ≤ 1 := by
    rcases step (a := m.log2.log2.log2.log2) (b := 1) (by omega) with h | h
    · omega
    · rw [h]; simp [Nat.log2_zero]
  simp only [Gen.recursive_len_fuel, omegaLenRec]
  by_cases c1 : m ≤ 1
  · simp [c1]
  · by_cases c2 : m.log2 ≤ 1
    · simp [c1, c2]
    · by_cases c3 : m.log2.log2 ≤ 1
      · simp [c1, c2, c3]
      · by_cases c4 : m.log2.log2.log2 ≤ 1
        · simp [c1, c2, c3, c4]
        · by_cases c5 : m.log2.log2.log2.log2 ≤ 1
          · simp [c1, c2, c3, c4, c5]
          · omega

theorem len_omega_eq {n : Nat} (hn : n < 2 ^ 64 - 1) : Gen.len_omega n = lenOmega n := by
  have h : n + 1 < 2 ^ 65 := by omega
  exact recursive_len_fuel_eq 3 (n + 1) h

/-! ### Rice, π, Golomb, exp-Golomb -/

theorem len_rice_eq (n k : Nat) : Gen.len_rice n k = lenRice n k := by
  simp only [Gen.len_rice, lenRice, Nat.shiftRight_eq_div_pow]

theorem len_pi_eq (n k : Nat) : Gen.len_pi n k = lenPi n k := by
  simp only [Gen.len_pi, lenPi, len_rice_eq]

theorem len_golomb_eq (n b : Nat) : Gen.len_golomb n b = lenGolomb n b := by
  simp only [Gen.len_golomb, lenGolomb, len_minimal_binary_eq]

theorem len_exp_golomb_eq (n k : Nat) : Gen.len_exp_golomb n k = lenExpGolombD n k := by
  simp only [Gen.len_exp_golomb, lenExpGolombD, lenExpGolomb, len_gamma_eq, Nat.shiftRight_eq_div_pow]
  rfl

/-! ### VByte -/

/-- With enough fuel for the size of `value` the generated loop (0 when out of fuel) and the
    model's (`len` when out of fuel) agree. -/
theorem byte_len_vbyte_loop_eq : ∀ (fuel value len : Nat), value < 128 ^ (fuel + 1) →
    Gen.byte_len_vbyte_loop (fuel + 1) value len = vbyteByteLenLoop (fuel + 1) value len := by
  intro fuel
  have e : (2 : Nat) ^ 7 = 128 := by decide
  induction fuel with
  | zero =>
    intro value len h
    have hz : value / 128 = 0 := Nat.div_eq_of_lt (by simpa using h)
    simp [Gen.byte_len_vbyte_loop, vbyteByteLenLoop, Nat.shiftRight_eq_div_pow, e, hz]
  | succ f ih =>
    intro value len h
    rw [Gen.byte_len_vbyte_loop, vbyteByteLenLoop]
    simp only [Nat.shiftRight_eq_div_pow, e]
    by_cases hz : value / 128 = 0
    · simp [hz]
    · simp only [hz, if_false]
      apply ih
      have : value / 128 < 128 ^ (f + 1) := by
        rw [Nat.div_lt_iff_lt_mul (by decide)]
        rw [Nat.pow_succ] at h
        exact h
      omega

theorem byte_len_vbyte_eq {v : Nat} (hv : v < 2 ^ 64) : Gen.byte_len_vbyte v = byteLenVByte v := by
  simp only [Gen.byte_len_vbyte, byteLenVByte]
  apply byte_len_vbyte_loop_eq 9
  have : (2 : Nat) ^ 64 < 128 ^ (9 + 1) := by decide
  omega

theorem bit_len_vbyte_eq {v : Nat} (hv : v < 2 ^ 64) : Gen.bit_len_vbyte v = bitLenVByte v := by
  simp only [Gen.bit_len_vbyte, bitLenVByte, byte_len_vbyte_eq hv]

end LenGen
end Dsi
