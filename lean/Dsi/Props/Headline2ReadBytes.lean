/-
  Headline theorem shared by C09 / C14 / C18: a generated `BufBitReader` (`genRImpl e`) built on ANY
  byte image (not necessarily produced by the library's writer) whose bits are
  `pre ++ cw ++ post`, `cw` the published codeword of `v` in a code `c` of the `Codes` enum: after
  the generated `skip_bits(pre.len())`, the generated reader of `c` (`genOwnRead e c`: the trait
  method with the default table options of the generated `Params`) returns `v`, and the generated
  `bit_pos` is the end of the codeword.  With `strict := true` and `post := []` this is C09's
  "the last codes of the stream decode correctly through look-ahead tables that would peek past
  the end": the table reader's failed peek falls back to the bit-by-bit reader.
-/
import Dsi.Props.Headline
import Dsi.Lemmas.Headline2Trip
namespace Dsi
namespace Headline2
open Headline E2E TrL EqvL CodeBodiesGen Gen

/-- the general form: `rpG` is a generated reader program, `rpH` a program it agrees with off
    (debug-)panic points (`Guarded`) and that decodes `cw` to `v` on the reference reader with a
    look-ahead of at most `K` bits.  (`_core`: with the facts about the intermediate states that
    the statements about wrappers need.) -/
theorem gen_read_bytes_core {β : Type} (e : Endian) {Wr : Nat} (hWr : 0 < Wr) (h8r : 8 ∣ Wr)
    (hW64 : e = .be → Wr ≤ 64) (strict : Bool) (bytes : List Nat)
    (hbytes : ∀ b ∈ bytes, b < 256) (pre cw post : List Bool)
    {rpH rpG : RProg β} {v : β} {K : Nat} (hr : ReadsPM K rpH e cw v) (hK : K ≤ Wr)
    (hpb : PeekBounded Wr 0 rpH) (hg : Guarded rpH rpG) (hple : PeekLe Wr rpG)
    (hbits : bitsOfBytes e bytes = pre ++ cw ++ post)
    (hfit : (pre ++ cw ++ post).length + 5 * Wr < 2 ^ 64) :
    ∃ (s1 s2 : BufR Wr) (zeros : List Bool),
      (genRImpl e).skipBits (BufR.new ⟨wordsOfBytes e Wr (padTo (Wr / 8) bytes), 0, strict⟩) pre.length
        = .ok s1 ∧
      rpG.run (genRImpl e) s1 = .ok (v, s2) ∧
      GenBufR.genBitPos e s2 = .ok (pre.length + cw.length, s2) ∧
      BufR.Rel e s1 (RefR.at e pre cw (post ++ zeros) strict Wr) ∧ RInv s1 ∧
      rpH.run (BufR.impl e) s1 = .ok (v, s2) ∧ rpG.run (BufR.impl e) s1 = .ok (v, s2) ∧
      s2.bitPos = pre.length + cw.length := by
  obtain ⟨zeros, hst, hlen⟩ := Headline2.reader_words e hWr h8r hbytes hbits
  generalize wordsOfBytes e Wr (padTo (Wr / 8) bytes) = words at hst hlen
  rw [List.append_assoc] at hst
  obtain ⟨s1, h5, hrel1⟩ := buf_start e hWr words strict pre cw (post ++ zeros) hst
  obtain ⟨s2, h6, hrel2, hbp⟩ := buf_step_pm hW64 hrel1 hr hK hpb
  have hi0 : RInv (BufR.new ⟨words, 0, strict⟩) :=
    rinv_new _ hWr (by show words.length * Wr + 4 * Wr < 2 ^ 64; omega)
  have hi1 : RInv s1 := hand_skipBits_rinv e hi0 h5
  have hgs := Bounded.Guarded.soundOn (BufR.impl e) (Bounded.BInv e) (Bounded.bufR_boundedOn e)
    (Bounded.bufR_preserves e) hg s1 (Bounded.binv_of_rel hrel1)
  rw [h6] at hgs
  have h7 : rpG.run (BufR.impl e) s1 = .ok (v, s2) := by
    rcases hgs with h | h | h
    · cases h
    · cases h
    · exact h.symm
  have hpos2 : s2.back.pos * Wr < 2 ^ 64 := by
    have hp : (RefR.after e pre cw (post ++ zeros) strict Wr).pos + s2.bib = s2.back.pos * Wr :=
      hrel2.2.2.2.2.2.2.1
    have hb := hrel2.1
    have : (RefR.after e pre cw (post ++ zeros) strict Wr).pos = pre.length + cw.length := rfl
    simp only [List.length_append] at hfit
    omega
  refine ⟨s1, s2, zeros, ?_, ?_, ?_, hrel1, hi1, h6, h7, hbp⟩
  · rw [genR_skipBits e _ hi0]; exact h5
  · rw [gen_rrun_eq e rpG s1 hi1 hple]; exact h7
  · exact GenBufR.gen_bitPos_eq hrel2 hpos2

theorem gen_read_bytes {β : Type} (e : Endian) {Wr : Nat} (hWr : 0 < Wr) (h8r : 8 ∣ Wr)
    (hW64 : e = .be → Wr ≤ 64) (strict : Bool) (bytes : List Nat)
    (hbytes : ∀ b ∈ bytes, b < 256) (pre cw post : List Bool)
    {rpH rpG : RProg β} {v : β} {K : Nat} (hr : ReadsPM K rpH e cw v) (hK : K ≤ Wr)
    (hpb : PeekBounded Wr 0 rpH) (hg : Guarded rpH rpG) (hple : PeekLe Wr rpG)
    (hbits : bitsOfBytes e bytes = pre ++ cw ++ post)
    (hfit : (pre ++ cw ++ post).length + 5 * Wr < 2 ^ 64) :
    ∃ (s1 s2 : BufR Wr),
      (genRImpl e).skipBits (BufR.new ⟨wordsOfBytes e Wr (padTo (Wr / 8) bytes), 0, strict⟩) pre.length
        = .ok s1 ∧
      rpG.run (genRImpl e) s1 = .ok (v, s2) ∧
      GenBufR.genBitPos e s2 = .ok (pre.length + cw.length, s2) := by
  obtain ⟨s1, s2, _, h1, h2, h3, _⟩ := gen_read_bytes_core e hWr h8r hW64 strict bytes hbytes pre cw post
    hr hK hpb hg hple hbits hfit
  exact ⟨s1, s2, h1, h2, h3⟩

/-- **a generated `BufBitReader` on any byte image** (bytes `< 256`) whose bits are
    `pre ++ cw ++ post`, `cw` the codeword of `v` in the code `c`: after `skip_bits(pre.len())` the
    generated reader of `c` returns `v` and the generated `bit_pos` is the end of the codeword.
    Any word width `≥ 12` (`≤ 64` for BE), strict or zero-extended backend. -/
theorem gen_code_read_bytes (e : Endian) {Wr : Nat} (hWr : 0 < Wr) (h8r : 8 ∣ Wr)
    (hW64 : e = .be → Wr ≤ 64) (hW12 : tablePeek ≤ Wr) (strict : Bool) (bytes : List Nat)
    (hbytes : ∀ b ∈ bytes, b < 256) (pre post : List Bool) (c : CodeId) (v : Nat) (hd : c.Dom v)
    {cw : List Bool} (hcw : c.codeword e v = some cw)
    (hbits : bitsOfBytes e bytes = pre ++ cw ++ post)
    (hfit : (pre ++ cw ++ post).length + 5 * Wr < 2 ^ 64) :
    ∃ (s1 s2 : BufR Wr),
      (genRImpl e).skipBits (BufR.new ⟨wordsOfBytes e Wr (padTo (Wr / 8) bytes), 0, strict⟩) pre.length
        = .ok s1 ∧
      (genOwnRead e c).run (genRImpl e) s1 = .ok (v, s2) ∧
      GenBufR.genBitPos e s2 = .ok (pre.length + cw.length, s2) := by
  obtain ⟨cw2, hcw2, hrd⟩ := ownRead_reads e c v hd
  rw [hcw] at hcw2
  cases Option.some.inj hcw2
  exact gen_read_bytes e hWr h8r hW64 strict bytes hbytes pre cw post hrd hW12
    ((rside_ownRead e c hd).pb Wr hW12) (genOwnRead_guarded e c) (genOwnRead_peekLe e c hW12) hbits hfit

/-- the same for `read_zeta3_param::<t>` (the only table-capable ζ reader) -/
theorem gen_zeta3_read_bytes (e : Endian) {Wr : Nat} (hWr : 0 < Wr) (h8r : 8 ∣ Wr)
    (hW64 : e = .be → Wr ≤ 64) (t : Bool) (hWt : t = true → Zeta.READ_BITS ≤ Wr) (strict : Bool)
    (bytes : List Nat) (hbytes : ∀ b ∈ bytes, b < 256) (pre post : List Bool) (n : Nat)
    (hn : n < 2 ^ 64 - 1)
    (hbits : bitsOfBytes e bytes = pre ++ Spec.zetaWrapped e 3 n ++ post)
    (hfit : (pre ++ Spec.zetaWrapped e 3 n ++ post).length + 5 * Wr < 2 ^ 64) :
    ∃ (s1 s2 : BufR Wr),
      (genRImpl e).skipBits (BufR.new ⟨wordsOfBytes e Wr (padTo (Wr / 8) bytes), 0, strict⟩) pre.length
        = .ok s1 ∧
      (TableFnsGen.readZeta3Param e t).run (genRImpl e) s1 = .ok (n, s2) ∧
      GenBufR.genBitPos e s2 = .ok (pre.length + (Spec.zetaWrapped e 3 n).length, s2) := by
  have hK : need t Zeta.READ_BITS ≤ Wr := by cases t <;> simp [need] <;> exact hWt rfl
  exact gen_read_bytes e hWr h8r hW64 strict bytes hbytes pre _ post (readZeta3P_reads e t n hn) hK
    ((rside_zeta3P e t).pb Wr hK) (TableFnsGen.read_zeta3_param_guarded e t)
    (peekLe_readZeta3Param e t hWt) hbits hfit

/-! ### non-vacuity -/

/-- the generated machines compute: unary 12 after three bits, ending on the very last bit of a
    strict 16-bit-word stream -/
example : ∃ (s1 s2 : BufR 16),
    (genRImpl .be).skipBits (BufR.new ⟨wordsOfBytes .be 16 (padTo (16 / 8) [0xA0, 0x01]), 0, true⟩) 3 = .ok s1 ∧
    (genOwnRead .be ⟨.unary, 0⟩).run (genRImpl .be) s1 = .ok (12, s2) ∧
    GenBufR.genBitPos .be s2 = .ok (16, s2) := ⟨_, _, rfl, rfl, rfl⟩

/-- δ(1000) (the generated γ read table is on) as the LAST code of a strict 16-bit-word LE stream:
    the image `[21, 149, 30]` of Props/EndToEnd.lean, no byte after the codeword -/
example : ∃ (s1 s2 : BufR 16),
    (genRImpl .le).skipBits (BufR.new ⟨wordsOfBytes .le 16 (padTo (16 / 8) [21, 149, 30]), 0, true⟩)
      (fieldBits .le 21 5).length = .ok s1 ∧
    (genOwnRead .le ⟨.delta, 0⟩).run (genRImpl .le) s1 = .ok (1000, s2) ∧
    GenBufR.genBitPos .le s2 = .ok ((fieldBits .le 21 5).length + (Spec.delta .le 1000).length, s2) :=
  gen_code_read_bytes .le (by decide) (by decide) (fun h => by cases h) (by decide) true [21, 149, 30]
    (by decide) (fieldBits .le 21 5) [false, false, false] ⟨.delta, 0⟩ 1000 (by decide) rfl (by decide)
    (by decide)

end Headline2
end Dsi
