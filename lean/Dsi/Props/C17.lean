/-
  C17 — the zig-zag maps `ToNat` / `ToInt` are mutually inverse bijections on every width and
  implement the documented integer mapping.
-/
import Dsi.Glue.ZigZag
namespace Dsi
namespace SmallL

/-- `u &&& 1` is `1` or `0` according to bit 0. -/
theorem and_one_eq {w : Nat} (u : BitVec w) :
    u &&& 1#w = if u.getLsbD 0 then 1#w else 0#w := by
  apply BitVec.eq_of_getLsbD_eq
  intro i hi
  by_cases h0 : u.getLsbD 0 = true
  · simp only [h0, if_true, BitVec.getLsbD_and, BitVec.getLsbD_one]
    by_cases hi0 : i = 0
    · subst hi0; simp [h0]
    · simp [hi0]
  · have h0' : u.getLsbD 0 = false := by simpa using h0
    simp only [h0', BitVec.getLsbD_and, BitVec.getLsbD_one]
    by_cases hi0 : i = 0
    · subst hi0; simp [h0']
    · simp [hi0]

/-- `-(u &&& 1)` is all ones iff bit 0 of `u` is set. -/
theorem getLsbD_neg_and_one {w : Nat} (u : BitVec w) (i : Nat) :
    (-(u &&& 1#w)).getLsbD i = (decide (i < w) && u.getLsbD 0) := by
  rw [and_one_eq]
  by_cases h0 : u.getLsbD 0 = true
  · simp only [h0, if_true, BitVec.neg_one_eq_allOnes, BitVec.getLsbD_allOnes, Bool.and_true]
  · have h0' : u.getLsbD 0 = false := by simpa using h0
    simp [h0']

/-- the sign fill: every bit of `x.sshiftRight (w-1)` is the sign bit -/
theorem getLsbD_sshift_top {w : Nat} (x : BitVec w) (i : Nat) :
    (x.sshiftRight (w - 1)).getLsbD i = (decide (i < w) && x.msb) := by
  rw [BitVec.getLsbD_sshiftRight]
  by_cases hi : i < w
  · have h1 : ¬ w ≤ i := by omega
    simp only [h1, hi, decide_false, decide_true, Bool.not_false, Bool.true_and]
    by_cases hi0 : i = 0
    · subst hi0
      simp [BitVec.msb_eq_getLsbD_last]
    · have : ¬ (w - 1 + i < w) := by omega
      simp only [this, if_false]
  · have h1 : w ≤ i := by omega
    simp [h1, hi]

theorem getLsbD_zzToNat {w : Nat} (x : BitVec w) (i : Nat) :
    (zzToNat x).getLsbD i = (decide (i < w) && ((!decide (i < 1) && x.getLsbD (i - 1)) ^^ x.msb)) := by
  unfold zzToNat
  rw [BitVec.getLsbD_xor, BitVec.getLsbD_shiftLeft, getLsbD_sshift_top]
  by_cases hi : i < w <;> simp [hi]

theorem getLsbD_zzToInt {w : Nat} (u : BitVec w) (i : Nat) :
    (zzToInt u).getLsbD i = (u.getLsbD (1 + i) ^^ (decide (i < w) && u.getLsbD 0)) := by
  show ((u >>> 1) ^^^ (-(u &&& 1#w))).getLsbD i = _
  rw [BitVec.getLsbD_xor, BitVec.getLsbD_ushiftRight, getLsbD_neg_and_one]

end SmallL

open SmallL

/-- `to_int (to_nat x) = x` on every width. -/
theorem zz_toInt_toNat {w : Nat} (x : BitVec w) : zzToInt (zzToNat x) = x := by
  apply BitVec.eq_of_getLsbD_eq
  intro i hi
  rw [getLsbD_zzToInt, getLsbD_zzToNat, getLsbD_zzToNat]
  have h0 : (0 : Nat) < w := by omega
  by_cases hl : 1 + i < w
  · have : 1 + i - 1 = i := by omega
    simp [hl, hi, h0, this]
  · have hiw : i = w - 1 := by omega
    have : x.msb = x.getLsbD i := by rw [BitVec.msb_eq_getLsbD_last, hiw]
    simp [hl, hi, h0, this]

/-- `to_nat (to_int u) = u` on every width. -/
theorem zz_toNat_toInt {w : Nat} (u : BitVec w) : zzToNat (zzToInt u) = u := by
  apply BitVec.eq_of_getLsbD_eq
  intro i hi
  rw [getLsbD_zzToNat, BitVec.msb_eq_getLsbD_last, getLsbD_zzToInt, getLsbD_zzToInt]
  have h0 : (0 : Nat) < w := by omega
  have hw1 : w - 1 < w := by omega
  have htop : u.getLsbD (1 + (w - 1)) = false := by
    apply BitVec.getLsbD_of_ge; omega
  by_cases hi0 : i = 0
  · subst hi0
    simp [h0, hw1, htop]
  · have h1 : ¬ i < 1 := by omega
    have h2 : 1 + (i - 1) = i := by omega
    have h3 : i - 1 < w := by omega
    simp [hi, h1, h2, h3, hw1, htop]

/-- `to_nat` and `to_int` are mutually inverse bijections of `BitVec w`. -/
theorem zz_bijective {w : Nat} :
    (Function.Injective (zzToNat : BitVec w → BitVec w) ∧ Function.Surjective (zzToNat : BitVec w → BitVec w)) ∧
    (Function.Injective (zzToInt : BitVec w → BitVec w) ∧ Function.Surjective (zzToInt : BitVec w → BitVec w)) ∧
    Function.LeftInverse (zzToInt : BitVec w → BitVec w) zzToNat ∧
    Function.RightInverse (zzToInt : BitVec w → BitVec w) zzToNat := by
  refine ⟨⟨?_, ?_⟩, ⟨?_, ?_⟩, zz_toInt_toNat, zz_toNat_toInt⟩
  · intro a b h; have := congrArg zzToInt h; rwa [zz_toInt_toNat, zz_toInt_toNat] at this
  · intro u; exact ⟨zzToInt u, zz_toNat_toInt u⟩
  · intro a b h; have := congrArg zzToNat h; rwa [zz_toNat_toInt, zz_toNat_toInt] at this
  · intro x; exact ⟨zzToNat x, zz_toInt_toNat x⟩

/-! ### the documented mapping -/

namespace SmallL
theorem zzToNat_of_msb_false {w : Nat} (x : BitVec w) (h : x.msb = false) : zzToNat x = x <<< 1 := by
  apply BitVec.eq_of_getLsbD_eq
  intro i hi
  rw [getLsbD_zzToNat, BitVec.getLsbD_shiftLeft, h]
  simp [hi]

theorem zzToNat_of_msb_true {w : Nat} (x : BitVec w) (h : x.msb = true) : zzToNat x = ~~~(x <<< 1) := by
  apply BitVec.eq_of_getLsbD_eq
  intro i hi
  rw [getLsbD_zzToNat, BitVec.getLsbD_not, BitVec.getLsbD_shiftLeft, h]
  simp [hi]
end SmallL

namespace SmallL
theorem toNat_lt_half_of_msb_false {w : Nat} (x : BitVec (w + 1)) (h : x.msb = false) : x.toNat < 2 ^ w := by
  have := BitVec.msb_eq_decide x
  rw [h] at this
  simpa using this.symm

theorem half_le_toNat_of_msb_true {w : Nat} (x : BitVec (w + 1)) (h : x.msb = true) : 2 ^ w ≤ x.toNat := by
  have := BitVec.msb_eq_decide x
  rw [h] at this
  simpa using this.symm
end SmallL

/-- non-negative `x` maps to `2x` -/
theorem zz_spec_nonneg {w : Nat} (x : BitVec w) (h : 0 ≤ x.toInt) :
    ((zzToNat x).toNat : Int) = 2 * x.toInt := by
  cases w with
  | zero => rw [BitVec.eq_nil (zzToNat x), BitVec.eq_nil x]; rfl
  | succ w =>
    have hx := x.isLt
    have hp : 2 ^ (w + 1) = 2 * 2 ^ w := by rw [Nat.pow_succ]; omega
    have hmsb : x.msb = false := by
      cases hm : x.msb with
      | false => rfl
      | true =>
        exfalso
        rw [BitVec.toInt_eq_msb_cond, hm] at h
        simp only [if_true] at h
        omega
    have hlt := toNat_lt_half_of_msb_false x hmsb
    rw [zzToNat_of_msb_false x hmsb, BitVec.toInt_eq_msb_cond, hmsb, BitVec.toNat_shiftLeft,
      Nat.shiftLeft_eq, Nat.pow_one]
    simp only [Bool.false_eq_true, if_false]
    rw [Nat.mod_eq_of_lt (by omega)]
    omega

/-- negative `x` maps to `-2x - 1` -/
theorem zz_spec_neg {w : Nat} (x : BitVec w) (h : x.toInt < 0) :
    ((zzToNat x).toNat : Int) = -2 * x.toInt - 1 := by
  cases w with
  | zero => simp [BitVec.eq_nil x] at h
  | succ w =>
    have hx := x.isLt
    have hp : 2 ^ (w + 1) = 2 * 2 ^ w := by rw [Nat.pow_succ]; omega
    have hmsb : x.msb = true := by
      cases hm : x.msb with
      | true => rfl
      | false =>
        exfalso
        rw [BitVec.toInt_eq_msb_cond, hm] at h
        simp only [Bool.false_eq_true, if_false] at h
        omega
    have hge := half_le_toNat_of_msb_true x hmsb
    rw [zzToNat_of_msb_true x hmsb, BitVec.toInt_eq_msb_cond, hmsb, BitVec.toNat_not, BitVec.toNat_shiftLeft,
      Nat.shiftLeft_eq, Nat.pow_one]
    simp only [if_true]
    have hm : x.toNat * 2 % 2 ^ (w + 1) = x.toNat * 2 - 2 ^ (w + 1) := by
      rw [Nat.mod_eq_sub_mod (by omega), Nat.mod_eq_of_lt (by omega)]
    rw [hm]
    omega

/-- the documented mapping `x ≥ 0 ↦ 2x`, `x < 0 ↦ -2x - 1`, as integers -/
theorem zz_spec {w : Nat} (x : BitVec w) : ((zzToNat x).toNat : Int) = zzSpec x.toInt := by
  unfold zzSpec
  by_cases h : 0 ≤ x.toInt
  · rw [if_pos h]; exact zz_spec_nonneg x h
  · rw [if_neg h]; exact zz_spec_neg x (by omega)

/-- the form the driver compares (`handleZ`): both sides as naturals -/
theorem zz_spec_toNat {w : Nat} (x : BitVec w) : (zzToNat x).toNat = (zzSpec x.toInt).toNat := by
  rw [← zz_spec]; rfl

/-- exactly what the driver's `Z tonat` request compares, for an in-range integer -/
theorem zz_spec_ofInt {w : Nat} (hw : 0 < w) (n : Int) (hlo : -2 ^ (w - 1) ≤ n) (hhi : n < 2 ^ (w - 1)) :
    (zzToNat (BitVec.ofInt w n)).toNat = (zzSpec n).toNat := by
  rw [zz_spec_toNat, BitVec.toInt_ofInt_eq_self hw hlo hhi]

/-- the driver's reference for `to_int`: even `u ↦ u/2`, odd `u ↦ -(u+1)/2` -/
theorem zz_spec_toInt {w : Nat} (u : BitVec w) :
    (zzToInt u).toInt = if u.toNat % 2 = 0 then ((u.toNat / 2 : Nat) : Int) else -(((u.toNat + 1) / 2 : Nat) : Int) := by
  have h := zz_spec (zzToInt u)
  rw [zz_toNat_toInt] at h
  unfold zzSpec at h
  split at h <;> split <;> omega

/-! ### instances at the widths of the Rust integer types -/

theorem zz_roundtrip_8 (x : BitVec 8) : zzToInt (zzToNat x) = x ∧ zzToNat (zzToInt x) = x := ⟨zz_toInt_toNat x, zz_toNat_toInt x⟩
theorem zz_roundtrip_16 (x : BitVec 16) : zzToInt (zzToNat x) = x ∧ zzToNat (zzToInt x) = x := ⟨zz_toInt_toNat x, zz_toNat_toInt x⟩
theorem zz_roundtrip_32 (x : BitVec 32) : zzToInt (zzToNat x) = x ∧ zzToNat (zzToInt x) = x := ⟨zz_toInt_toNat x, zz_toNat_toInt x⟩
theorem zz_roundtrip_64 (x : BitVec 64) : zzToInt (zzToNat x) = x ∧ zzToNat (zzToInt x) = x := ⟨zz_toInt_toNat x, zz_toNat_toInt x⟩
theorem zz_roundtrip_128 (x : BitVec 128) : zzToInt (zzToNat x) = x ∧ zzToNat (zzToInt x) = x := ⟨zz_toInt_toNat x, zz_toNat_toInt x⟩

/-- `i64::MIN ↦ u64::MAX`, `i64::MAX ↦ u64::MAX - 1` and so on: the extremes at each width -/
theorem zz_extremes {w : Nat} (x : BitVec (w + 1)) :
    (x.toInt = -(2 ^ w : Int) → (zzToNat x).toNat = 2 ^ (w + 1) - 1) ∧
    (x.toInt = 2 ^ w - 1 → (zzToNat x).toNat = 2 ^ (w + 1) - 2) := by
  have hp : (2 : Int) ^ (w + 1) = 2 * 2 ^ w := by rw [Int.pow_succ]; omega
  have hpn : (2 : Nat) ^ (w + 1) = 2 * 2 ^ w := by rw [Nat.pow_succ]; omega
  have hpos : (0 : Int) < 2 ^ w := Int.pow_pos (by omega)
  have hc : ((2 ^ w : Nat) : Int) = (2 : Int) ^ w := by simp
  constructor
  · intro h
    have := zz_spec_neg x (by omega)
    omega
  · intro h
    have := zz_spec_nonneg x (by omega)
    omega

example : zzToNat (BitVec.ofInt 8 (-3)) = 5#8 ∧ zzToInt (5#8) = BitVec.ofInt 8 (-3) := by decide
example : (zzToNat (BitVec.ofInt 64 (-9223372036854775808))).toNat = 18446744073709551615 := by
  have := (zz_extremes (w := 63) (BitVec.ofInt 64 (-9223372036854775808))).1 (by decide)
  simpa using this
example (x : BitVec 128) : zzToInt (zzToNat x) = x := zz_toInt_toNat x
example : ((zzToNat (BitVec.ofInt 16 (-300))).toNat : Int) = zzSpec (-300) := by
  have := zz_spec (BitVec.ofInt 16 (-300))
  have h : (BitVec.ofInt 16 (-300)).toInt = -300 := by decide
  rwa [h] at this

end Dsi
