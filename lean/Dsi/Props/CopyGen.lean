/-
  The bulk-copy bodies as TRANSLATED from the Rust source on every run
  (lean/Dsi/Gen/CopyBodies.lean, emitted by tools/translate_copy.py) are EQUAL to the hand-written
  models of lean/Dsi/Impl/Copy.lean:

  * `Gen.BufR.copy_to_be/le`  (`BufBitReader::copy_to`)            = `BufR.copyTo`
  * `Gen.Traits.copy_to_default`, `copy_from_default`
    (the default methods of `trait BitRead` / `trait BitWrite`)   = `copyGeneric` with any fuel
                                                                    `≥ n / 64 + 1`

  Hypotheses, and why they are there:
  * `0 < W`, `s.bib < 2 * W`: those of `read_bits_XX_eq` (lean/Dsi/Props/BufReaderGen.lean), which the
    buffered loop calls (the struct invariant of `BufBitReader`).
  * `W < 2 ^ 63`: `self.bits_in_buffer as u64` and `WR::Word::BITS as u64` agree with the `Nat`
    values of the hand model only when they fit.
  * the bit count is a `u64` (`n : BitVec 64`); the hand model counts in `Nat`, and is applied to
    `n.toNat`.
  * default methods: the reader interface returns `u64` values (`hri`): the hand model passes the
    `Nat` the reader returned straight to the writer, the Rust passes a `u64`.
-/
import Dsi.Gen.CopyBodies
import Dsi.Props.BufReaderGen
import Dsi.Impl.Copy
import Dsi.Props.Copy
namespace Dsi
namespace GenCopy
variable {W : Nat}
open GenBufR (natOut)

/-! ### `u64` arithmetic against `Nat` -/

theorem ofNat64_toNat (x : Nat) (h : x < 2 ^ 64) : (BitVec.ofNat 64 x).toNat = x := by
  rw [BitVec.toNat_ofNat, Nat.mod_eq_of_lt h]

theorem toNat_zero64 : (0 : BitVec 64).toNat = 0 := rfl
theorem toNat_64 : (64 : BitVec 64).toNat = 64 := rfl

theorem gt_zero_iff (x : BitVec 64) : (x > 0) ↔ x.toNat ≠ 0 := by
  rw [gt_iff_lt, BitVec.lt_def, toNat_zero64]; omega

theorem min64_toNat (x : BitVec 64) : (if x ≤ 64 then x else 64).toNat = min x.toNat 64 := by
  by_cases h : x ≤ 64
  · rw [if_pos h]; rw [BitVec.le_def, toNat_64] at h; omega
  · rw [if_neg h]; rw [BitVec.le_def, toNat_64] at h; rw [toNat_64]; omega

theorem sub_toNat (x : BitVec 64) (k : Nat) (h : k ≤ x.toNat) :
    (x - BitVec.ofNat 64 k).toNat = x.toNat - k := by
  have := x.isLt
  rw [BitVec.toNat_sub, ofNat64_toNat k (by omega)]; omega

theorem eq_zero_iff (x : BitVec 64) : x = 0 ↔ x.toNat = 0 := by
  constructor
  · intro h; rw [h]; rfl
  · intro h; apply BitVec.eq_of_toNat_eq; rw [h]; rfl

/-! ### the in-buffer path of `read_bits` -/

theorem readBits_in_buffer (e : Endian) (s : BufR W) (k : Nat) (v : Nat) (s' : BufR W)
    (h : (BufR.impl e).readBits s k = .ok (v, s')) (hk : k ≤ s.bib) : s'.bib = s.bib - k := by
  cases e
  · simp only [BufR.impl, BufR.readBitsBE] at h
    by_cases h64 : k > 64
    · simp only [h64, if_true] at h; cases h
    · simp only [h64, if_false, hk, if_true, Res.ok.injEq, Prod.mk.injEq] at h
      rw [← h.2]
  · simp only [BufR.impl, BufR.readBitsLE] at h
    by_cases h64 : k > 64
    · simp only [h64, if_true] at h; cases h
    · simp only [h64, if_false, hk, if_true, Res.ok.injEq, Prod.mk.injEq] at h
      rw [← h.2]

/-! ### the buffered loop -/

theorem whileN_copyBuffered {ω : Type} (e : Endian) (wi : WImpl ω)
    (rd : BufR W → Nat → Res (BitVec 64 × BufR W))
    (hrd : ∀ s k, s.bib < 2 * W → natOut (rd s k) = (BufR.impl e).readBits s k)
    (c : BitVec 64 × BufR W × ω → Bool) (f : BitVec 64 × BufR W × ω → Res (BitVec 64 × BufR W × ω))
    (hc : ∀ st, c st = decide (st.1 > 0))
    (hf : ∀ st, f st = Res.bind (rd st.2.1 (if st.1 ≤ 64 then st.1 else 64).toNat) fun rb =>
      Res.bind (wi.writeBits st.2.2 rb.1.toNat (if st.1 ≤ 64 then st.1 else 64).toNat) fun ww =>
      .ok (st.1 - BitVec.ofNat 64 (if st.1 ≤ 64 then st.1 else 64).toNat, rb.2, ww.2)) :
    ∀ k (fb : BitVec 64) (s : BufR W) (w : ω), fb.toNat ≤ k → fb.toNat ≤ s.bib → s.bib < 2 * W →
      whileN k (fb, s, w) c f = (BufR.copyBuffered e wi k s w fb.toNat).map fun p => (0, p.1, p.2)
  | 0, fb, s, w, h1, _, _ => by
    have h0 : fb.toNat = 0 := by omega
    have : fb = 0 := (eq_zero_iff fb).2 h0
    subst this
    simp only [whileN, BufR.copyBuffered, toNat_zero64, if_true, Res.map]
  | k + 1, fb, s, w, h1, h2, h3 => by
    simp only [whileN, BufR.copyBuffered, hc, hf, min64_toNat]
    by_cases h0 : fb.toNat = 0
    · have : fb = 0 := (eq_zero_iff fb).2 h0
      subst this
      simp only [gt_iff_lt, BitVec.lt_irrefl, decide_false, Bool.false_eq_true, if_false,
        toNat_zero64, if_true, Res.map]
    · have hg : fb > 0 := (gt_zero_iff fb).2 h0
      simp only [hg, decide_true, if_true, h0, if_false]
      rw [← hrd s _ h3]
      cases hr : rd s (min fb.toNat 64) with
      | ok p =>
        obtain ⟨v, s'⟩ := p
        have hbib : s'.bib = s.bib - min fb.toNat 64 := by
          apply readBits_in_buffer e s _ v.toNat s' _ (by omega)
          rw [← hrd s _ h3, hr]; rfl
        simp only [natOut, Res.map, Res.bind]
        cases wi.writeBits w v.toNat (min fb.toNat 64) with
        | ok q =>
          obtain ⟨_, w'⟩ := q
          simp only []
          have hsub := sub_toNat fb (min fb.toNat 64) (by omega)
          rw [whileN_copyBuffered e wi rd hrd c f hc hf k _ s' w' (by omega) (by omega) (by omega), hsub]
          rfl
        | _ => rfl
      | _ => rfl

/-! ### the word loop -/

theorem whileN_copyWords {ω : Type} (wi : WImpl ω) (hW : W < 2 ^ 64) (buf : BitVec (2 * W)) (bib : Nat)
    (c : BitVec 64 × BufR W × ω → Bool) (f : BitVec 64 × BufR W × ω → Res (BitVec 64 × BufR W × ω))
    (hc : ∀ st, c st = decide (st.1 > BitVec.ofNat 64 W))
    (hf : ∀ st, f st = Res.bind st.2.1.back.readWord fun rw =>
      Res.bind (wi.writeBits st.2.2 (rw.1.setWidth 64).toNat W) fun ww =>
      .ok (st.1 - BitVec.ofNat 64 W, { st.2.1 with back := rw.2 }, ww.2)) :
    ∀ k (n : BitVec 64) (bk : MemR W) (w : ω),
      whileN k (n, (⟨buf, bib, bk⟩ : BufR W), w) c f =
        (BufR.copyWords wi k bk w n.toNat).map fun p => (BitVec.ofNat 64 p.2.2, ⟨buf, bib, p.1⟩, p.2.1)
  | 0, n, bk, w => by
    simp only [whileN, BufR.copyWords, Res.map, BitVec.ofNat_toNat, BitVec.setWidth_eq]
  | k + 1, n, bk, w => by
    simp only [whileN, BufR.copyWords, hc, hf]
    have hlt : (n > BitVec.ofNat 64 W) ↔ n.toNat > W := by
      rw [gt_iff_lt, BitVec.lt_def, ofNat64_toNat W hW]
    by_cases h : n.toNat > W
    · simp only [hlt, h, decide_true, if_true]
      cases bk.readWord with
      | ok p =>
        obtain ⟨word, bk'⟩ := p
        simp only [Res.bind]
        cases wi.writeBits w (word.setWidth 64).toNat W with
        | ok q =>
          obtain ⟨_, w'⟩ := q
          simp only []
          rw [whileN_copyWords wi hW buf bib c f hc hf k _ bk' w', sub_toNat n W (by omega)]
        | _ => rfl
      | _ => rfl
    · simp only [hlt, h, decide_false, Bool.false_eq_true, if_false, Res.map, BitVec.ofNat_toNat,
        BitVec.setWidth_eq]

/-- the word loop is left with `0 < n' ≤ n` -/
theorem copyWords_bound {ω : Type} (wi : WImpl ω) : ∀ k (bk : MemR W) (w : ω) n bk' w' n',
    BufR.copyWords wi k bk w n = .ok (bk', w', n') → 0 < n → 0 < n' ∧ n' ≤ n
  | 0, bk, w, n, bk', w', n', h, h0 => by
    simp only [BufR.copyWords, Res.ok.injEq, Prod.mk.injEq] at h
    omega
  | k + 1, bk, w, n, bk', w', n', h, h0 => by
    simp only [BufR.copyWords] at h
    by_cases hc : n > W
    · simp only [hc, if_true] at h
      cases hr : bk.readWord with
      | ok p =>
        obtain ⟨word, bk1⟩ := p
        simp only [hr] at h
        cases hw : wi.writeBits w (word.setWidth 64).toNat W with
        | ok q =>
          obtain ⟨x, w1⟩ := q
          simp only [hw] at h
          have := copyWords_bound wi k bk1 w1 (n - W) bk' w' n' h (by omega)
          omega
        | _ => rw [hw] at h; cases h
      | _ => rw [hr] at h; cases h
    · simp only [hc, if_false, Res.ok.injEq, Prod.mk.injEq] at h
      omega

/-! ### `BufBitReader::copy_to` -/

theorem min_bib_toNat (n : BitVec 64) (bib : Nat) (hb : bib < 2 ^ 64) :
    (if n ≤ BitVec.ofNat 64 bib then n else BitVec.ofNat 64 bib).toNat = min n.toNat bib := by
  by_cases h : n ≤ BitVec.ofNat 64 bib
  · rw [if_pos h]; rw [BitVec.le_def, ofNat64_toNat bib hb] at h; omega
  · rw [if_neg h]; rw [BitVec.le_def, ofNat64_toNat bib hb] at h; rw [ofNat64_toNat bib hb]; omega

theorem copy_to_be_eq {ω : Type} (checks : Bool) (wi : WImpl ω) (s : BufR W) (w : ω) (n : BitVec 64)
    (hW0 : 0 < W) (hW : W < 2 ^ 63) (hb : s.bib < 2 * W) :
    Gen.BufR.copy_to_be checks wi s w n = BufR.copyTo .be checks wi s w n.toNat := by
  unfold Gen.BufR.copy_to_be BufR.copyTo
  simp only []
  have hfb := min_bib_toNat n s.bib (by omega)
  generalize (if n ≤ BitVec.ofNat 64 s.bib then n else BitVec.ofNat 64 s.bib) = fb at hfb ⊢
  have hm : (n - fb).toNat = n.toNat - min n.toNat s.bib := by
    rw [← hfb, ← sub_toNat n fb.toNat (by omega), BitVec.ofNat_toNat, BitVec.setWidth_eq]
  generalize n - fb = m at hm ⊢
  rw [whileN_copyBuffered .be wi Gen.BufR.read_bits_be
    (fun s k hb => GenBufR.read_bits_be_eq s k hW0 hb) _ _ (fun _ => rfl) (fun _ => rfl)
    fb.toNat fb s w (Nat.le_refl _) (by omega) hb, hfb]
  cases BufR.copyBuffered .be wi (min n.toNat s.bib) s w (min n.toNat s.bib) with
  | ok p =>
    obtain ⟨⟨buf1, bib1, bk1⟩, w1⟩ := p
    simp only [Res.map, Res.bind, eq_zero_iff m, hm]
    by_cases hm0 : n.toNat - min n.toNat s.bib = 0
    · rw [if_pos hm0, if_pos hm0]
    · rw [if_neg hm0, if_neg hm0]
      rw [whileN_copyWords wi (by omega) buf1 bib1 _ _ ?_ ?_ _ m bk1 w1, hm]
      rotate_left
      · intro st; rfl
      · intro st; rfl
      cases hcw : BufR.copyWords wi (n.toNat - min n.toNat s.bib) bk1 w1 (n.toNat - min n.toNat s.bib) with
      | ok q =>
        obtain ⟨bk2, w2, n2⟩ := q
        have hbd := copyWords_bound wi _ bk1 w1 _ bk2 w2 n2 hcw (by omega)
        have hn2 : (BitVec.ofNat 64 n2).toNat = n2 := ofNat64_toNat n2 (by have := n.isLt; omega)
        have hpos : BitVec.ofNat 64 n2 > 0 := (gt_zero_iff _).2 (by omega)
        simp only [Res.map, hpos, not_true, if_false, hn2]
        cases bk2.readWord with
        | ok r =>
          obtain ⟨word, bk3⟩ := r
          simp only []
          cases wi.writeBits w2 ((word >>> (W - n2)).setWidth 64).toNat n2 with
          | ok t => obtain ⟨_, w3⟩ := t; rfl
          | _ => rfl
        | _ => rfl
      | _ => rfl
  | _ => rfl

theorem lt64_iff (x : BitVec 64) : (x < 64) ↔ x.toNat < 64 := by
  rw [BitVec.lt_def, toNat_64]

theorem copy_to_le_eq {ω : Type} (checks : Bool) (wi : WImpl ω) (s : BufR W) (w : ω) (n : BitVec 64)
    (hW0 : 0 < W) (hW : W < 2 ^ 63) (hb : s.bib < 2 * W) :
    Gen.BufR.copy_to_le checks wi s w n = BufR.copyTo .le checks wi s w n.toNat := by
  unfold Gen.BufR.copy_to_le BufR.copyTo
  simp only []
  have hfb := min_bib_toNat n s.bib (by omega)
  generalize (if n ≤ BitVec.ofNat 64 s.bib then n else BitVec.ofNat 64 s.bib) = fb at hfb ⊢
  have hm : (n - fb).toNat = n.toNat - min n.toNat s.bib := by
    rw [← hfb, ← sub_toNat n fb.toNat (by omega), BitVec.ofNat_toNat, BitVec.setWidth_eq]
  generalize n - fb = m at hm ⊢
  rw [whileN_copyBuffered .le wi Gen.BufR.read_bits_le
    (fun s k hb => GenBufR.read_bits_le_eq s k hW0 hb) _ _ (fun _ => rfl) (fun _ => rfl)
    fb.toNat fb s w (Nat.le_refl _) (by omega) hb, hfb]
  cases BufR.copyBuffered .le wi (min n.toNat s.bib) s w (min n.toNat s.bib) with
  | ok p =>
    obtain ⟨⟨buf1, bib1, bk1⟩, w1⟩ := p
    simp only [Res.map, Res.bind, eq_zero_iff m, hm]
    by_cases hm0 : n.toNat - min n.toNat s.bib = 0
    · rw [if_pos hm0, if_pos hm0]
    · rw [if_neg hm0, if_neg hm0]
      rw [whileN_copyWords wi (by omega) buf1 bib1 _ _ ?_ ?_ _ m bk1 w1, hm]
      rotate_left
      · intro st; rfl
      · intro st; rfl
      cases hcw : BufR.copyWords wi (n.toNat - min n.toNat s.bib) bk1 w1 (n.toNat - min n.toNat s.bib) with
      | ok q =>
        obtain ⟨bk2, w2, n2⟩ := q
        have hbd := copyWords_bound wi _ bk1 w1 _ bk2 w2 n2 hcw (by omega)
        have hn2 : (BitVec.ofNat 64 n2).toNat = n2 := ofNat64_toNat n2 (by have := n.isLt; omega)
        have hpos : BitVec.ofNat 64 n2 > 0 := (gt_zero_iff _).2 (by omega)
        simp only [Res.map, hpos, not_true, if_false, hn2, lt64_iff]
        cases bk2.readWord with
        | ok r =>
          obtain ⟨word, bk3⟩ := r
          simp only []
          cases checks
          · simp only [Bool.false_eq_true, if_false, Bool.false_and]
            cases wi.writeBits w2 (word.setWidth 64).toNat n2 with
            | ok t => obtain ⟨_, w3⟩ := t; rfl
            | _ => rfl
          · by_cases h64 : n2 < 64
            · simp only [if_true, h64, Bool.true_and, decide_true]
              cases wi.writeBits w2 (word.setWidth 64 &&& (((1 : BitVec 64) <<< n2) - 1)).toNat n2 with
              | ok t => obtain ⟨_, w3⟩ := t; rfl
              | _ => rfl
            · simp only [if_true, h64, if_false, Bool.true_and, decide_false, Bool.false_eq_true]
              cases wi.writeBits w2 (word.setWidth 64).toNat n2 with
              | ok t => obtain ⟨_, w3⟩ := t; rfl
              | _ => rfl
        | _ => rfl
      | _ => rfl
  | _ => rfl

/-! ### the default methods of `trait BitRead` / `trait BitWrite` -/

theorem whileN_copyGeneric {ρ ω : Type} (ri : RImpl ρ) (wi : WImpl ω)
    (hri : ∀ r k v r', ri.readBits r k = .ok (v, r') → v < 2 ^ 64)
    (c : BitVec 64 × ρ × ω → Bool) (f : BitVec 64 × ρ × ω → Res (BitVec 64 × ρ × ω))
    (hc : ∀ st, c st = decide (st.1 > 0))
    (hf : ∀ st, f st = Res.bind (ri.readBits st.2.1 (if st.1 ≤ 64 then st.1 else 64).toNat) fun rr =>
      Res.bind (wi.writeBits st.2.2 (BitVec.ofNat 64 rr.1).toNat (if st.1 ≤ 64 then st.1 else 64).toNat) fun ww =>
      .ok (st.1 - BitVec.ofNat 64 (if st.1 ≤ 64 then st.1 else 64).toNat, rr.2, ww.2)) :
    ∀ k k' (n : BitVec 64) (r : ρ) (w : ω), n.toNat ≤ 64 * k → n.toNat ≤ 64 * k' →
      whileN k (n, r, w) c f = (copyGeneric ri wi k' r w n.toNat).map fun p => (0, p.1, p.2)
  | 0, k', n, r, w, h1, _ => by
    have h0 : n.toNat = 0 := by omega
    have : n = 0 := (eq_zero_iff n).2 h0
    subst this
    cases k' <;> simp only [whileN, copyGeneric, toNat_zero64, if_true, Res.map]
  | k + 1, k', n, r, w, h1, h2 => by
    by_cases h0 : n.toNat = 0
    · have : n = 0 := (eq_zero_iff n).2 h0
      subst this
      cases k' <;> simp only [whileN, copyGeneric, hc, gt_iff_lt, BitVec.lt_irrefl, decide_false,
        Bool.false_eq_true, if_false, toNat_zero64, if_true, Res.map]
    · have hg : n > 0 := (gt_zero_iff n).2 h0
      cases k' with
      | zero => omega
      | succ k' =>
        simp only [whileN, copyGeneric, hc, hf, min64_toNat, hg, decide_true, if_true, h0, if_false]
        cases hr : ri.readBits r (min n.toNat 64) with
        | ok p =>
          obtain ⟨v, r'⟩ := p
          have hv := hri r _ v r' hr
          simp only [Res.bind, ofNat64_toNat v hv]
          cases wi.writeBits w v (min n.toNat 64) with
          | ok q =>
            obtain ⟨_, w'⟩ := q
            simp only []
            have hsub := sub_toNat n (min n.toNat 64) (by omega)
            rw [whileN_copyGeneric ri wi hri c f hc hf k k' _ r' w' (by omega) (by omega), hsub]
          | _ => rfl
        | _ => rfl

theorem copy_to_default_eq {ρ ω : Type} (ri : RImpl ρ) (wi : WImpl ω)
    (hri : ∀ r k v r', ri.readBits r k = .ok (v, r') → v < 2 ^ 64) (r : ρ) (w : ω) (n : BitVec 64)
    (fuel : Nat) (hfuel : n.toNat / 64 + 1 ≤ fuel) :
    Gen.Traits.copy_to_default ri wi r w n = copyGeneric ri wi fuel r w n.toNat := by
  unfold Gen.Traits.copy_to_default
  rw [whileN_copyGeneric ri wi hri _ _ ?_ ?_ _ fuel n r w (by omega) (by omega)]
  rotate_left
  · intro st; rfl
  · intro st; rfl
  cases copyGeneric ri wi fuel r w n.toNat with
  | ok p => rfl
  | _ => rfl

theorem copy_from_default_eq {ρ ω : Type} (ri : RImpl ρ) (wi : WImpl ω)
    (hri : ∀ r k v r', ri.readBits r k = .ok (v, r') → v < 2 ^ 64) (r : ρ) (w : ω) (n : BitVec 64)
    (fuel : Nat) (hfuel : n.toNat / 64 + 1 ≤ fuel) :
    Gen.Traits.copy_from_default ri wi r w n = copyGeneric ri wi fuel r w n.toNat := by
  unfold Gen.Traits.copy_from_default
  rw [whileN_copyGeneric ri wi hri _ _ ?_ ?_ _ fuel n r w (by omega) (by omega)]
  rotate_left
  · intro st; rfl
  · intro st; rfl
  cases copyGeneric ri wi fuel r w n.toNat with
  | ok p => rfl
  | _ => rfl

/-! ### the refinement theorem, about the TRANSLATED body -/

/-- the translated `copy_to` of the two `BitRead` impls of `BufBitReader` -/
def genCopyTo {ω : Type} (e : Endian) (checks : Bool) (wi : WImpl ω) (s : BufR W) (w : ω) (n : BitVec 64) :
    Res (BufR W × ω) :=
  match e with
  | .be => Gen.BufR.copy_to_be checks wi s w n
  | .le => Gen.BufR.copy_to_le checks wi s w n

theorem genCopyTo_eq {ω : Type} (e : Endian) (checks : Bool) (wi : WImpl ω) (s : BufR W) (w : ω)
    (n : BitVec 64) (hW0 : 0 < W) (hW : W < 2 ^ 63) (hb : s.bib < 2 * W) :
    genCopyTo e checks wi s w n = BufR.copyTo e checks wi s w n.toNat := by
  cases e
  · exact copy_to_be_eq checks wi s w n hW0 hW hb
  · exact copy_to_le_eq checks wi s w n hW0 hW hb

open BufW CopyL in
/-- `Dsi.copyTo_sim` (lean/Dsi/Props/Copy.lean) for the translated body: `BufBitReader::copy_to` into a
    buffered writer copies the next `n` bits of the reference stream -/
theorem gen_copyTo_sim {Wr Ww : Nat} {e : Endian} (checks : Bool) (hW : Wr ≤ 64) {s : BufR Wr} {r : RefR}
    {t : BufW Ww} {w : RefW} (hs : BufR.Rel e s r) (ht : RelC e t w) {n : BitVec 64}
    (hck : e = .le → t.checks = true → checks = true) (hav : r.avail n.toNat = true) :
    ResRel (CopyPost e) (genCopyTo e checks (BufW.impl e) s t n) (refCopy r w n.toNat) := by
  rw [genCopyTo_eq e checks _ s t n (Rel.pos_W hs) (by omega) hs.1]
  exact copyTo_sim checks hW hs ht hck hav

end GenCopy
end Dsi
