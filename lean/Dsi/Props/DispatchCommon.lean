/-
  Lemmas shared by C10 and C16: a first-match lookup over `Codes` patterns depends on the
  parameter only through the finitely many literals that occur in the patterns, so a statement
  for *every* parameter follows from a check on those literals and on one fresh parameter.
-/
import Dsi.Glue.Dispatch
namespace Dsi

/-! ### the hand-written vocabulary agrees with the generated one -/

/-- The `Codes` model has exactly the variants (and field names) of `pub enum Codes`. -/
theorem codes_enum_ok : Gen.Dispatch.codesVariants = Codes.variants := by decide +kernel

/-- The forwarding bodies (`Codes::read` → `DynamicCodeRead::read`, `(self.0)(reader)`,
    `FactoryFuncCodeReader::get`, the four `CodesStatsWrapper` bodies, …) are the ones modelled. -/
theorem forwarders_ok : Gen.Dispatch.forwarders = expectedForwarders := by decide +kernel

/-! ### literals of a pattern list -/

/-- the literal parameters with which variant `v` occurs in a list of alternatives -/
def patLits (v : String) : List Pat → List Nat
  | [] => []
  | .var v' (some n) :: ps => if v' == v then n :: patLits v ps else patLits v ps
  | _ :: ps => patLits v ps

def armLits {α : Type} (v : String) : List (List Pat × α) → List Nat
  | [] => []
  | (ps, _) :: rest => patLits v ps ++ armLits v rest

def maxL : List Nat → Nat
  | [] => 0
  | a :: l => max a (maxL l)

/-- a parameter that does not occur in `l` -/
def fresh (l : List Nat) : Nat := maxL l + 1

theorem le_maxL {a : Nat} {l : List Nat} (h : a ∈ l) : a ≤ maxL l := by
  induction l with
  | nil => cases h
  | cons b l ih =>
    simp only [maxL]
    rcases List.mem_cons.mp h with rfl | h
    · exact Nat.le_max_left _ _
    · exact Nat.le_trans (ih h) (Nat.le_max_right _ _)

theorem fresh_not_mem (l : List Nat) : fresh l ∉ l := by
  intro h
  have := le_maxL h
  unfold fresh at this
  omega

theorem pat_matches_congr (v : String) (k k' : Nat) (p : Pat)
    (hk : k ∉ patLits v [p]) (hk' : k' ∉ patLits v [p]) :
    p.matches v k = p.matches v k' := by
  cases p with
  | wild => rfl
  | var v' o =>
    cases o with
    | none => rfl
    | some n =>
      simp only [patLits] at hk hk'
      by_cases hv : (v' == v) = true
      · simp only [hv, if_true, List.mem_cons, List.not_mem_nil, or_false] at hk hk'
        have h1 : (n == k) = false := by
          simp only [beq_eq_false_iff_ne, ne_eq]; exact fun h => hk h.symm
        have h2 : (n == k') = false := by
          simp only [beq_eq_false_iff_ne, ne_eq]; exact fun h => hk' h.symm
        simp only [Pat.matches, h1, h2]
      · have hv' : (v' == v) = false := by simpa using hv
        simp only [Pat.matches, hv', Bool.false_and]

theorem patLits_cons (v : String) (p : Pat) (ps : List Pat) :
    patLits v (p :: ps) = patLits v [p] ++ patLits v ps := by
  cases p with
  | wild => rfl
  | var v' o =>
    cases o with
    | none => rfl
    | some n =>
      simp only [patLits]
      split <;> rfl

theorem patAny_congr (v : String) (k k' : Nat) (ps : List Pat)
    (hk : k ∉ patLits v ps) (hk' : k' ∉ patLits v ps) :
    ps.any (·.matches v k) = ps.any (·.matches v k') := by
  induction ps with
  | nil => rfl
  | cons p ps ih =>
    rw [patLits_cons, List.mem_append, not_or] at hk hk'
    rw [List.any_cons, List.any_cons, pat_matches_congr v k k' p hk.1 hk'.1, ih hk.2 hk'.2]

theorem lookupCodes_congr {α : Type} (v : String) (k k' : Nat) (arms : List (List Pat × α))
    (hk : k ∉ armLits v arms) (hk' : k' ∉ armLits v arms) :
    lookupCodes arms v k = lookupCodes arms v k' := by
  induction arms with
  | nil => rfl
  | cons a arms ih =>
    obtain ⟨ps, x⟩ := a
    simp only [armLits, List.mem_append, not_or] at hk hk'
    simp only [lookupCodes, patAny_congr v k k' ps hk.1 hk'.1, ih hk.2 hk'.2]

/-- Outside the literals the lookup is the lookup at the fresh parameter. -/
theorem lookupCodes_fresh {α : Type} (v : String) (k : Nat) (arms : List (List Pat × α))
    (hk : k ∉ armLits v arms) :
    lookupCodes arms v k = lookupCodes arms v (fresh (armLits v arms)) :=
  lookupCodes_congr v k _ arms hk (fresh_not_mem _)

/-- A Boolean property of the parameter that only looks at it through `lookupCodes` … -/
theorem forall_param_of_lits {α : Type} (v : String) (arms : List (List Pat × α))
    (P : Nat → Option α → Bool)
    (hlit : (armLits v arms).all (fun k => P k (lookupCodes arms v k)) = true)
    (hgen : ∀ k, k ∉ armLits v arms → P k (lookupCodes arms v (fresh (armLits v arms))) = true) :
    ∀ k, P k (lookupCodes arms v k) = true := by
  intro k
  by_cases h : k ∈ armLits v arms
  · exact List.all_eq_true.mp hlit k h
  · rw [lookupCodes_fresh v k arms h]; exact hgen k h

/-! ### identifier patterns -/

def cpatLits : List CPat → List Nat
  | [] => []
  | .lit n :: ps => n :: cpatLits ps
  | _ :: ps => cpatLits ps

def carmLits {α : Type} : List (List CPat × α) → List Nat
  | [] => []
  | (ps, _) :: rest => cpatLits ps ++ carmLits rest

def CPat.isWild : CPat → Bool
  | .wild => true
  | _ => false

/-- lookup in which only `_` matches -/
def lookupWild {α : Type} : List (List CPat × α) → Option α
  | [] => none
  | (ps, a) :: rest => if ps.any CPat.isWild then some a else lookupWild rest

theorem constVal_mem {consts : List (String × Nat)} {c : String} {id : Nat}
    (h : constVal consts c = some id) : id ∈ consts.map (·.2) := by
  induction consts with
  | nil => simp [constVal] at h
  | cons a consts ih =>
    obtain ⟨m, v⟩ := a
    simp only [constVal] at h
    split at h
    · simp only [Option.some.injEq] at h; simp [h]
    · simp [ih h]

theorem cpat_matches_of_not_mem (consts : List (String × Nat)) (id : Nat) (p : CPat)
    (h1 : id ∉ consts.map (·.2)) (h2 : id ∉ cpatLits [p]) :
    p.matches consts id = p.isWild := by
  cases p with
  | wild => rfl
  | lit n =>
    simp only [cpatLits, List.mem_cons, List.not_mem_nil, or_false] at h2
    simp only [CPat.matches, CPat.isWild, beq_eq_false_iff_ne, ne_eq]
    exact fun h => h2 h.symm
  | name c =>
    simp only [CPat.matches, CPat.isWild, beq_eq_false_iff_ne, ne_eq]
    intro h; exact h1 (constVal_mem h)

theorem cpatAny_of_not_mem (consts : List (String × Nat)) (id : Nat) (ps : List CPat)
    (h1 : id ∉ consts.map (·.2)) (h2 : id ∉ cpatLits ps) :
    ps.any (·.matches consts id) = ps.any CPat.isWild := by
  induction ps with
  | nil => rfl
  | cons p ps ih =>
    have hp : id ∉ cpatLits [p] ∧ id ∉ cpatLits ps := by
      cases p with
      | lit n => simp only [cpatLits, List.mem_cons, not_or] at h2 ⊢; exact ⟨by simp [h2.1], h2.2⟩
      | wild => simp only [cpatLits] at h2 ⊢; exact ⟨by simp, h2⟩
      | name c => simp only [cpatLits] at h2 ⊢; exact ⟨by simp, h2⟩
    rw [List.any_cons, List.any_cons, cpat_matches_of_not_mem consts id p h1 hp.1, ih hp.2]

/-- An identifier that is neither the value of a constant nor a literal of the arms selects the
    wildcard arm. -/
theorem lookupConst_of_not_mem {α : Type} (consts : List (String × Nat)) (id : Nat)
    (arms : List (List CPat × α)) (h1 : id ∉ consts.map (·.2)) (h2 : id ∉ carmLits arms) :
    lookupConst consts arms id = lookupWild arms := by
  induction arms with
  | nil => rfl
  | cons a arms ih =>
    obtain ⟨ps, x⟩ := a
    simp only [carmLits, List.mem_append, not_or] at h2
    simp only [lookupConst, lookupWild, cpatAny_of_not_mem consts id ps h1 h2.1, ih h2.2]

/-! ### `equiv` is an equivalence -/

theorem CodeId.equiv_refl (a : CodeId) : a.equiv a = true := by simp [CodeId.equiv]
theorem CodeId.equiv_symm {a b : CodeId} (h : a.equiv b = true) : b.equiv a = true := by
  simp only [CodeId.equiv, beq_iff_eq] at *; exact h.symm
theorem CodeId.equiv_trans {a b c : CodeId} (h : a.equiv b = true) (h' : b.equiv c = true) :
    a.equiv c = true := by
  simp only [CodeId.equiv, beq_iff_eq] at *; exact h.trans h'
theorem CodeId.lenEquiv_refl (a : CodeId) : a.lenEquiv a = true := by simp [CodeId.lenEquiv]
theorem equivK_refl (k : Kind) (a : CodeId) : equivK k a a = true := by
  cases k <;> simp [equivK, CodeId.equiv_refl, CodeId.lenEquiv_refl]

end Dsi
