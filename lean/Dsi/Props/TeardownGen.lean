/-
  The teardown paths as TRANSLATED from the Rust bodies on every run
  (lean/Dsi/Gen/TeardownBodies.lean, produced statement by statement by tools/translate_teardown.py
  from src/impls/buf_bit_writer.rs, buf_bit_reader.rs, mem_word_writer.rs, mem_word_reader.rs and
  src/utils/count.rs) are EQUAL to the named hand models of lean/Dsi/Impl/Teardown.lean, which the
  session interpreter uses for its `wdrop` / `winto` operations:

  * `impl Drop for BufBitWriter`  = `BufW.dropW e`   (flush, an error is a panic);
  * `BufBitWriter::into_inner`    = `BufW.intoInner e` (flush, then the backend; a failing flush ends
    in the panic of the `Drop` that runs on the error path);
  * `BufBitReader::into_inner`, `CountBitWriter/Reader::into_inner`, `MemWordWriterSlice/Vec::into_inner`,
    `MemWordReader::into_inner` take the backend field out and do nothing else.

  No hypothesis is needed.  Modelling assumption (stated at `Res.tryDropping`): the `Drop` that runs
  when `self.flush()?` fails inside `into_inner` is evaluated on the state before the failed call.
-/
import Dsi.Gen.TeardownBodies
import Dsi.Props.BufWriterGen
import Dsi.Session
namespace Dsi
namespace TeardownGen
set_option linter.unusedSimpArgs false
variable {W : Nat}

/-! ### `BufBitWriter` -/

/-- the `BitWrite<E>::flush` that `into_inner` calls is the hand model's `flush` -/
theorem flush_eq (e : Endian) (s : BufW W) :
    Gen.Teardown.BufBitWriter.flush e s = (BufW.impl e).flush s := by
  cases e
  · exact GenBufW.flush_be_eq s
  · exact GenBufW.flush_le_eq s

/-- `impl Drop for BufBitWriter` -/
theorem drop_eq (e : Endian) (s : BufW W) :
    Gen.Teardown.BufBitWriter.drop e s = BufW.dropW e s := by
  unfold Gen.Teardown.BufBitWriter.drop BufW.dropW WImpl.dropW
  -- (written so that it also goes through when the Rust guards the flush with
  -- `if self.space_left_in_buffer != WW::Word::BITS`: a flush of an empty buffer does nothing)
  by_cases h : s.space = W
  · cases e <;>
      simp [GenBufW.flush_be_eq, GenBufW.flush_le_eq, BufW.impl, BufW.flush, h, Res.bind, Res.unwrapR]
  · cases e <;>
      simp only [GenBufW.flush_be_eq, GenBufW.flush_le_eq, BufW.impl, h, ne_eq, not_false_eq_true,
        not_true_eq_false, eq_self, reduceCtorEq, ↓reduceIte] <;>
      cases BufW.flush _ s <;> rfl

/-- `BufBitWriter::into_inner` -/
theorem into_inner_eq (e : Endian) (s : BufW W) :
    Gen.Teardown.BufBitWriter.into_inner e s = BufW.intoInner e s := by
  unfold Gen.Teardown.BufBitWriter.into_inner BufW.intoInner WImpl.intoInnerW
  -- (`simp only`, not `rw`: also goes through when the flush error is unwrapped on the spot instead
  -- of being propagated into the `Drop`: both end in the same panic)
  simp only [drop_eq, flush_eq, BufW.dropW, WImpl.dropW]
  cases (BufW.impl e).flush s <;> rfl

/-- what `into_inner` hands out after a successful flush: the words delivered so far plus the
    flushed word, and nothing is pending any more -/
theorem into_inner_ok (e : Endian) (s s' : BufW W) (k : Nat) (h : BufW.flush e s = .ok (k, s')) :
    BufW.intoInner e s = .ok s'.backend := by
  simp only [BufW.intoInner, WImpl.intoInnerW, BufW.impl, h, Res.map]

/-- a failing flush makes `into_inner` panic (the `Drop` on the error path), never return `Err` -/
theorem into_inner_err (e : Endian) (s : BufW W) (er : Err) (h : BufW.flush e s = .err er) :
    BufW.intoInner e s = .panic := by
  simp only [BufW.intoInner, WImpl.intoInnerW, BufW.impl, h, Res.map]

/-- `Drop` after a successful `flush` delivers nothing more (with `Dsi.flush_idempotent`-style
    reasoning: a flushed writer has `space = W`) -/
theorem drop_flushed (e : Endian) (s : BufW W) (h : s.space = W) : BufW.dropW e s = .ok s := by
  simp only [BufW.dropW, WImpl.dropW, BufW.impl, BufW.flush, h, Nat.sub_self, ne_eq, not_true_eq_false,
    ↓reduceIte]

/-! ### the session operations are unchanged by the introduction of the named models -/

/-- `wdrop` as it was written inline in `sessStep` before `WImpl.dropW` existed -/
theorem sess_wdrop {ω ρ : Type} (M : Mach ω ρ) (s : Sess ω ρ) :
    sessStep M s ["wdrop"] =
      (match M.wi.flush s.w with
       | .ok (_, w') => (bytesHex (M.dump w'), some { s with w := M.newWriter })
       | .err _ => ("P", none)
       | r => (showRes (fun _ => "") r, none)) := by
  simp only [sessStep, WImpl.dropW]
  cases M.wi.flush s.w <;> rfl

/-- `winto` as it was written inline in `sessStep` before `WImpl.intoInnerW` existed -/
theorem sess_winto {ω ρ : Type} (M : Mach ω ρ) (s : Sess ω ρ) :
    sessStep M s ["winto"] =
      (match M.wi.flush s.w with
       | .ok (_, w') => (bytesHex (M.dump w'), some { s with w := M.newWriter })
       | .err _ => ("P", none)
       | r => (showRes (fun _ => "") r, none)) := by
  simp only [sessStep, WImpl.intoInnerW]
  cases M.wi.flush s.w <;> rfl

/-- on the L3 machine `winto` prints the image of the backend the translated `into_inner` returns -/
theorem sess_winto_gen (e : Endian) (ww rw : Nat) (bitReader strict checks : Bool) (cap : Option Nat)
    (sc : Bool) (ioChunk : Nat) (s : Sess (BufW ww) (RState rw)) :
    let M := machL3 e ww rw bitReader strict checks cap sc ioChunk
    (sessStep M s ["winto"]).1 =
      (match Gen.Teardown.BufBitWriter.into_inner e s.w, M.wi.intoInnerW s.w with
       | .ok _, .ok w' => bytesHex (M.dump w')
       | r, _ => showRes (fun _ => "") r) := by
  intro M
  rw [into_inner_eq]
  have hM : M.wi = BufW.impl e := rfl
  simp only [sessStep, BufW.intoInner, hM]
  cases (BufW.impl e).intoInnerW s.w with
  | err er => cases er <;> rfl
  | _ => rfl

/-- the image a session dumps is a function of the backend alone (the bit buffer and the space
    counter of the writer are not looked at) -/
theorem dump_of_backend (e : Endian) (ww rw : Nat) (bitReader strict checks : Bool) (cap : Option Nat)
    (sc : Bool) (ioChunk : Nat) (w : BufW ww) :
    (machL3 e ww rw bitReader strict checks cap sc ioChunk).dump w =
      (let bs := w.backend.out.flatMap (BufW.wordBytes e)
       match cap with
       | some c => bs ++ List.replicate ((c - w.backend.out.length) * (ww / 8)) 0
       | none => bs) := rfl

/-! ### the teardowns that only take a field out -/

theorem bufr_into_inner_eq (s : BufR W) : Gen.Teardown.BufBitReader.into_inner s = BufR.intoInner s := rfl

theorem countw_into_inner_eq {ω : Type} (s : CountW ω) :
    Gen.Teardown.CountBitWriter.into_inner s = CountW.intoInner s := rfl

theorem countr_into_inner_eq {ρ : Type} (s : CountR ρ) :
    Gen.Teardown.CountBitReader.into_inner s = CountR.intoInner s := rfl

theorem memw_slice_into_inner_eq (s : MemW W) :
    Gen.Teardown.MemWordWriterSlice.into_inner s = MemW.intoInner s := rfl

theorem memw_vec_into_inner_eq (s : MemW W) :
    Gen.Teardown.MemWordWriterVec.into_inner s = MemW.intoInner s := rfl

theorem memr_into_inner_eq (s : MemR W) :
    Gen.Teardown.MemWordReader.into_inner s = MemR.intoInner s := rfl

end TeardownGen
end Dsi
