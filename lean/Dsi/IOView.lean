/-
  L2 — the `std::io::Write` view of `BufBitWriter` and the `std::io::Read` view of the readers,
  as programs over the bit interfaces (src/impls/buf_bit_writer.rs, buf_bit_reader.rs, bit_reader.rs).
-/
import Dsi.Prog
namespace Dsi

/-- value of a byte list read as a big-endian number -/
def beVal : List Nat → Nat := fun bs => bs.foldl (fun a b => a * 256 + b) 0
/-- value of a byte list read as a little-endian number -/
def leVal : List Nat → Nat := fun bs => bs.foldr (fun b a => b + 256 * a) 0

/-- the `k` low bytes of `v`, least significant first -/
def leBytes (v : Nat) : Nat → List Nat
  | 0 => []
  | k + 1 => v % 256 :: leBytes (v / 256) k
/-- the `k` low bytes of `v`, most significant first -/
def beBytes (v k : Nat) : List Nat := (leBytes v k).reverse

/-- full chunks of size `c` and the remainder (`chunks_exact`) -/
def chunksExact (c : Nat) (l : List Nat) : Nat → List (List Nat) × List Nat
  | 0 => ([], l)
  | fuel + 1 =>
    if c = 0 then ([], l) else
    if l.length < c then ([], l) else
    let (cs, r) := chunksExact c (l.drop c) fuel
    (l.take c :: cs, r)

/-- `for chunk in chunks { write_bits(u64::from_{be,le}_bytes(chunk.try_into().unwrap()), 64) }`;
    `try_into::<[u8; 8]>` fails (hard panic through `unwrap`) unless the chunk has 8 bytes. -/
def ioWriteChunks (e : Endian) : List (List Nat) → WProg Unit → WProg Unit
  | [], k => k
  | c :: cs, k =>
    if c.length ≠ 8 then .panic else
    let v := match e with
      | .be => beVal c
      | .le => leVal c
    .writeBits v 64 fun _ => ioWriteChunks e cs k

/-- `impl std::io::Write for BufBitWriter`: `chunk` is the chunk size the code uses. Returns
    `buf.len()`. The remainder is assembled into a u64 (`word <<= 8; word |= byte`). -/
def ioWrite (e : Endian) (chunk : Nat) (bytes : List Nat) : WProg Nat :=
  let (cs, rem) := chunksExact chunk bytes bytes.length
  let tail : WProg Unit :=
    if rem.isEmpty then .ret ()
    else
      let word := match e with
        | .be => rem.foldl (fun a b => (a * 256) % 2 ^ 64 + b) 0
        | .le => rem.reverse.foldl (fun a b => (a * 256) % 2 ^ 64 + b) 0
      .writeBits word (rem.length * 8) fun _ => .ret ()
  (ioWriteChunks e cs tail).bind fun _ => .ret bytes.length

/-- `impl std::io::Read`: 8-byte chunks of `read_bits(64)`, then the remainder. Every read error
    is mapped to `UnexpectedEof`. -/
def ioReadLoop (e : Endian) : Nat → List Nat → RProg (List Nat)
  | 0, acc => .ret acc
  | k + 1, acc => .readBits 64 fun v =>
      ioReadLoop e k (acc ++ (match e with | .be => beBytes v 8 | .le => leBytes v 8))

def ioRead (e : Endian) (len : Nat) : RProg (List Nat) :=
  (ioReadLoop e (len / 8) []).bind fun acc =>
    let r := len % 8
    if r = 0 then .ret acc
    else .readBits (r * 8) fun v =>
      .ret (acc ++ (match e with | .be => beBytes v r | .le => leBytes v r))

end Dsi
