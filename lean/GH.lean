/-
  `ghdriver`: generated-vs-hand witness search (see lean/Dsi/GH/Core.lean for the protocol).
-/
import Dsi.GH.Core
import Dsi.GH.Len
import Dsi.GH.Writer
import Dsi.GH.Reader
import Dsi.GH.Codes
import Dsi.GH.Wrappers
import Dsi.GH.Misc
open Dsi Dsi.GH

def allTargets : List Target :=
  lenTargets ++ zigzagTargets ++ writerTargets ++ bufReaderTargets ++ bitReaderTargets ++ memTargets ++
  codeWriteTargets ++ codeReadTargets ++ countTargets ++ dbgTargets ++ statsTargets ++ adapterTargets ++
  fcTargets ++ vbyteIOTargets ++ copyTargets ++ ioTargets ++ checkTablesTargets

def handleGH (line : String) : String :=
  let toks := (line.trimAscii.toString.splitOn " ").filter (· ≠ "")
  match toks with
  | "GH" :: name :: args =>
    match allTargets.find? (·.name == name) with
    | some t => t.exec args
    | none => "bad-target"
  | ["TARGETS"] => " ".intercalate (allTargets.map (·.name))
  | _ => "bad-request"

partial def ghLoop (h : IO.FS.Stream) (out : IO.FS.Stream) : IO Unit := do
  let line ← h.getLine
  if line.isEmpty then return ()
  if line.trimAscii.toString.isEmpty || line.startsWith "#" then
    ghLoop h out
  else
    out.putStrLn (handleGH line)
    out.flush       -- every answer is complete on the pipe before the next request is evaluated
    ghLoop h out

def main : IO Unit := do
  let out ← IO.getStdout
  ghLoop (← IO.getStdin) out
