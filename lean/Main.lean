/-
  Line-protocol driver: one request per line on stdin, one answer per line on stdout.
  `S` lines answer with the L3 model's outputs and the L1 reference's outputs: `<L3> || <L1>`.
-/
import Dsi.Session
import Dsi.Glue.MiscDriver
import Dsi.Glue.DispatchDriver
import Dsi.Glue.StatsDriver
open Dsi

def kv (args : List String) (key : String) : Option String :=
  args.findSome? fun a =>
    match a.splitOn "=" with
    | [k, v] => if k == key then some v else none
    | _ => none

def runS (cfgs : List String) (ops : List (List String)) : String :=
  let e := if kv cfgs "e" == some "le" then Endian.le else Endian.be
  let ww := ((kv cfgs "ww").bind num?).getD 64
  let rw := ((kv cfgs "rw").bind num?).getD 32
  let bitReader := kv cfgs "rk" == some "bit"
  let strict := kv cfgs "strict" == some "1"
  let checks := kv cfgs "checks" == some "1"
  let copy := kv cfgs "copy" != some "0"
  let cap := (kv cfgs "cap").bind num?
  let data := ((kv cfgs "data").bind hexBytes?).getD []
  -- rb=adapter: the reader sits on a WordAdapter over a byte Cursor holding whole words: it is
  -- always strict (read_exact fails at the end). wb=adapter / wb=rec (byte-stream adapter over a
  -- Cursor, recording word sink) deliver the same words as the growable vector.
  let adapter := kv cfgs "rb" == some "adapter"
  let strict := strict || adapter
  let m3 := machL3 e ww rw bitReader strict checks cap copy 8
  let m1 := machL1 e ww rw bitReader strict checks cap
  let s3 : Sess (BufW ww) (RState rw) :=
    { w := BufW.new ww checks cap, r := m3.mkReader data, r2 := m3.mkReader data }
  let s1 : Sess RefW RefR :=
    { w := { e := e, W := ww, checks := checks, cap := cap }, r := m1.mkReader data, r2 := m1.mkReader data }
  if kv cfgs "wrap" == some "count" then
    let c3 := machCount m3
    let c1 := machCountRef m1
    let o3 := sessRun c3 { w := { inner := s3.w }, r := c3.mkReader data, r2 := c3.mkReader data } ops []
    let o1 := sessRun c1 { w := { inner := s1.w }, r := c1.mkReader data, r2 := c1.mkReader data } ops []
    ";".intercalate o3 ++ " || " ++ ";".intercalate o1
  else
  let o3 := sessRun m3 s3 ops []
  let o1 := sessRun m1 s1 ops []
  ";".intercalate o3 ++ " || " ++ ";".intercalate o1

def handle (line : String) : String :=
  let line := line.trimAscii.toString
  match line.splitOn " :: " with
  | [hd, body] =>
    let toks := (hd.splitOn " ").filter (· ≠ "")
    let ops := (body.splitOn ";").map fun o => (o.trimAscii.toString.splitOn " ").filter (· ≠ "")
    let ops := ops.filter (· ≠ [])
    match toks with
    | "S" :: cfgs => runS cfgs ops
    | "MW" :: cfgs => handleMW cfgs ops
    | "AD" :: rest => handleAD rest body
    | _ => "bad-request"
  | [hd] =>
    let toks := (hd.splitOn " ").filter (· ≠ "")
    match toks with
    | "S" :: cfgs => runS cfgs []
    | "Z" :: rest => handleZ rest
    | "VB" :: rest => handleVB rest
    | "TB" :: rest => handleTB rest
    | "D" :: rest => handleD rest
    | "T" :: rest => handleT rest
    | "ST" :: args => handleST args
    | "FC" :: args => handleFC args
    | "LEN" :: args => handleLEN args
    | "LEN1" :: args => handleLEN1 args
    | _ => "bad-request"
  | _ => "bad-request"

partial def loop (h : IO.FS.Stream) (out : IO.FS.Stream) : IO Unit := do
  let line ← h.getLine
  if line.isEmpty then return ()
  if line.trimAscii.toString.isEmpty || line.startsWith "#" then
    loop h out
  else
    out.putStrLn (handle line)
    loop h out

def main : IO Unit := do
  let out ← IO.getStdout
  loop (← IO.getStdin) out
