//! `S` requests: one BufBitWriter, one reader (+ a clone slot), the operations of the bit-level
//! properties.  Writers and readers live behind object-safe traits so that each concrete library
//! type is instantiated once; bulk copies cross the boundary through thin adapters that forward
//! only the required trait methods (so they also give access to the trait's default `copy_to`).
use crate::util::*;
use dsi_bitstream::prelude::*;
use std::marker::PhantomData;
use std::mem::ManuallyDrop;
use std::panic::{catch_unwind, AssertUnwindSafe};

type R<T> = Result<T, String>;

fn ce<E: std::error::Error + 'static>(e: E) -> String {
    canon_err(&e)
}

pub trait DynW {
    fn d_write_bits(&mut self, v: u64, n: usize) -> R<usize>;
    fn d_write_unary(&mut self, x: u64) -> R<usize>;
    fn d_flush(&mut self) -> R<usize>;
    fn d_code(&mut self, code: &str, flags: &str, p: u64, v: u64) -> Option<R<usize>>;
    fn d_io_write(&mut self, b: &[u8]) -> R<usize>;
    fn d_copy_from(&mut self, r: &mut dyn DynR, n: u64) -> R<()>;
    fn d_stat(&self) -> String {
        "-".into()
    }
    /// `into_inner()` (flushes, returns the backend); wrappers: not available
    fn d_into_inner(self: Box<Self>) -> Option<R<()>> {
        None
    }
}

pub trait DynR {
    fn d_read_bits(&mut self, n: usize) -> R<u64>;
    fn d_peek_bits(&mut self, n: usize) -> R<u64>;
    fn d_skip_bits(&mut self, n: usize) -> R<()>;
    fn d_skip_bits_after_peek(&mut self, n: usize);
    fn d_read_unary(&mut self) -> R<u64>;
    fn d_code(&mut self, code: &str, flags: &str, p: u64) -> Option<R<u64>>;
    fn d_io_read(&mut self, len: usize) -> R<Vec<u8>>;
    fn d_pos(&mut self) -> R<u64>;
    fn d_seek(&mut self, p: u64) -> R<()>;
    fn d_clone_box(&self) -> Box<dyn DynR>;
    fn d_copy_to(&mut self, w: &mut dyn DynW, n: u64) -> R<()>;
    fn d_stat(&self) -> String {
        "-".into()
    }
}

/// adapter: a `dyn DynW` as a library `BitWrite<E>` (required methods only)
pub struct WA<'a, E>(pub &'a mut dyn DynW, pub PhantomData<E>);
impl<'a, E: Endianness> BitWrite<E> for WA<'a, E> {
    type Error = HErr;
    fn write_bits(&mut self, value: u64, n: usize) -> Result<usize, HErr> {
        self.0.d_write_bits(value, n).map_err(HErr)
    }
    fn write_unary(&mut self, value: u64) -> Result<usize, HErr> {
        self.0.d_write_unary(value).map_err(HErr)
    }
    fn flush(&mut self) -> Result<usize, HErr> {
        self.0.d_flush().map_err(HErr)
    }
}

/// adapter: a `dyn DynR` as a library `BitRead<E>` (required methods only)
pub struct RA<'a, E>(pub &'a mut dyn DynR, pub PhantomData<E>);
impl<'a, E: Endianness> BitRead<E> for RA<'a, E> {
    type Error = HErr;
    type PeekWord = u64;
    fn read_bits(&mut self, n: usize) -> Result<u64, HErr> {
        self.0.d_read_bits(n).map_err(HErr)
    }
    fn peek_bits(&mut self, n: usize) -> Result<u64, HErr> {
        self.0.d_peek_bits(n).map_err(HErr)
    }
    fn skip_bits(&mut self, n: usize) -> Result<(), HErr> {
        self.0.d_skip_bits(n).map_err(HErr)
    }
    fn skip_bits_after_peek(&mut self, n: usize) {
        self.0.d_skip_bits_after_peek(n)
    }
    fn read_unary(&mut self) -> Result<u64, HErr> {
        self.0.d_read_unary().map_err(HErr)
    }
}

macro_rules! wcode_body {
    ($s:expr, $code:expr, $flags:expr, $p:expr, $v:expr) => {{
        let s = $s;
        let p = $p;
        let v = $v;
        let r = match ($code, $flags) {
            ("unary", _) => s.write_unary(v).map_err(ce),
            ("gamma", "d") => s.write_gamma(v).map_err(ce),
            ("gamma", "0") => s.write_gamma_param::<false>(v).map_err(ce),
            ("gamma", "1") => s.write_gamma_param::<true>(v).map_err(ce),
            ("delta", "d") => s.write_delta(v).map_err(ce),
            ("delta", "00") => s.write_delta_param::<false, false>(v).map_err(ce),
            ("delta", "01") => s.write_delta_param::<false, true>(v).map_err(ce),
            ("delta", "10") => s.write_delta_param::<true, false>(v).map_err(ce),
            ("delta", "11") => s.write_delta_param::<true, true>(v).map_err(ce),
            ("zeta3", "d") => s.write_zeta3(v).map_err(ce),
            ("zeta3", "0") => s.write_zeta3_param::<false>(v).map_err(ce),
            ("zeta3", "1") => s.write_zeta3_param::<true>(v).map_err(ce),
            ("zeta", "d") => s.write_zeta(v, p as usize).map_err(ce),
            ("zeta", "0") => s.write_zeta_param::<false>(v, p as usize).map_err(ce),
            ("zeta", _) => s.write_zeta_param::<true>(v, p as usize).map_err(ce),
            ("omega", _) => s.write_omega(v).map_err(ce),
            ("pi", _) => s.write_pi(v, p as usize).map_err(ce),
            ("rice", _) => s.write_rice(v, p as usize).map_err(ce),
            ("golomb", _) => s.write_golomb(v, p).map_err(ce),
            ("expg", _) => s.write_exp_golomb(v, p as usize).map_err(ce),
            ("minbin", _) => s.write_minimal_binary(v, p).map_err(ce),
            ("vbbe", _) => s.write_vbyte_be(v).map_err(ce),
            ("vble", _) => s.write_vbyte_le(v).map_err(ce),
            _ => return None,
        };
        Some(r)
    }};
}

macro_rules! rcode_body {
    ($s:expr, $code:expr, $flags:expr, $p:expr) => {{
        let s = $s;
        let p = $p;
        let r = match ($code, $flags) {
            ("unary", _) => s.read_unary().map_err(ce),
            ("gamma", "d") => s.read_gamma().map_err(ce),
            ("gamma", "0") => s.read_gamma_param::<false>().map_err(ce),
            ("gamma", "1") => s.read_gamma_param::<true>().map_err(ce),
            ("delta", "d") => s.read_delta().map_err(ce),
            ("delta", "00") => s.read_delta_param::<false, false>().map_err(ce),
            ("delta", "01") => s.read_delta_param::<false, true>().map_err(ce),
            ("delta", "10") => s.read_delta_param::<true, false>().map_err(ce),
            ("delta", "11") => s.read_delta_param::<true, true>().map_err(ce),
            ("zeta3", "d") => s.read_zeta3().map_err(ce),
            ("zeta3", "0") => s.read_zeta3_param::<false>().map_err(ce),
            ("zeta3", "1") => s.read_zeta3_param::<true>().map_err(ce),
            ("zeta", "d") => s.read_zeta(p as usize).map_err(ce),
            ("zeta", _) => s.read_zeta_param(p as usize).map_err(ce),
            ("omega", _) => s.read_omega().map_err(ce),
            ("pi", _) => s.read_pi(p as usize).map_err(ce),
            ("rice", _) => s.read_rice(p as usize).map_err(ce),
            ("golomb", _) => s.read_golomb(p).map_err(ce),
            ("expg", _) => s.read_exp_golomb(p as usize).map_err(ce),
            ("minbin", _) => s.read_minimal_binary(p).map_err(ce),
            ("vbbe", _) => s.read_vbyte_be().map_err(ce),
            ("vble", _) => s.read_vbyte_le().map_err(ce),
            _ => return None,
        };
        Some(r)
    }};
}

macro_rules! impl_dynw {
    ($E:ty, $B:ty) => {
        impl DynW for BufBitWriter<$E, $B> {
            fn d_write_bits(&mut self, v: u64, n: usize) -> R<usize> {
                BitWrite::<$E>::write_bits(self, v, n).map_err(ce)
            }
            fn d_write_unary(&mut self, x: u64) -> R<usize> {
                BitWrite::<$E>::write_unary(self, x).map_err(ce)
            }
            fn d_flush(&mut self) -> R<usize> {
                BitWrite::<$E>::flush(self).map_err(ce)
            }
            fn d_code(&mut self, code: &str, flags: &str, p: u64, v: u64) -> Option<R<usize>> {
                wcode_body!(self, code, flags, p, v)
            }
            fn d_io_write(&mut self, b: &[u8]) -> R<usize> {
                std::io::Write::write(self, b).map_err(|e| canon_io(&e))
            }
            fn d_copy_from(&mut self, r: &mut dyn DynR, n: u64) -> R<()> {
                BitWrite::<$E>::copy_from(self, &mut RA::<$E>(r, PhantomData), n).map_err(ce)
            }
            fn d_into_inner(self: Box<Self>) -> Option<R<()>> {
                Some((*self).into_inner().map(|_| ()).map_err(ce))
            }
        }
    };
}

macro_rules! impl_dynw_words {
    ($($W:ty),*) => {$(
        impl_dynw!(BE, MemWordWriterVec<$W, SharedVec<$W>>);
        impl_dynw!(LE, MemWordWriterVec<$W, SharedVec<$W>>);
        impl_dynw!(BE, MemWordWriterSlice<$W, SharedVec<$W>>);
        impl_dynw!(LE, MemWordWriterSlice<$W, SharedVec<$W>>);
    )*};
}
impl_dynw_words!(u8, u16, u32, u64, u128);

macro_rules! impl_dynr {
    ($E:ty, $T:ty) => {
        impl DynR for $T {
            fn d_read_bits(&mut self, n: usize) -> R<u64> {
                BitRead::<$E>::read_bits(self, n).map_err(ce)
            }
            fn d_peek_bits(&mut self, n: usize) -> R<u64> {
                use common_traits::CastableInto;
                BitRead::<$E>::peek_bits(self, n).map(|x| x.cast()).map_err(ce)
            }
            fn d_skip_bits(&mut self, n: usize) -> R<()> {
                BitRead::<$E>::skip_bits(self, n).map_err(ce)
            }
            fn d_skip_bits_after_peek(&mut self, n: usize) {
                BitRead::<$E>::skip_bits_after_peek(self, n)
            }
            fn d_read_unary(&mut self) -> R<u64> {
                BitRead::<$E>::read_unary(self).map_err(ce)
            }
            fn d_code(&mut self, code: &str, flags: &str, p: u64) -> Option<R<u64>> {
                rcode_body!(self, code, flags, p)
            }
            fn d_io_read(&mut self, len: usize) -> R<Vec<u8>> {
                let mut buf = vec![0u8; len];
                match std::io::Read::read(self, &mut buf) {
                    Ok(k) => {
                        buf.truncate(k);
                        Ok(buf)
                    }
                    Err(e) => Err(canon_io(&e)),
                }
            }
            fn d_pos(&mut self) -> R<u64> {
                BitSeek::bit_pos(self).map_err(ce)
            }
            fn d_seek(&mut self, p: u64) -> R<()> {
                BitSeek::set_bit_pos(self, p).map_err(ce)
            }
            fn d_clone_box(&self) -> Box<dyn DynR> {
                Box::new(self.clone())
            }
            fn d_copy_to(&mut self, w: &mut dyn DynW, n: u64) -> R<()> {
                BitRead::<$E>::copy_to(self, &mut WA::<$E>(w, PhantomData), n).map_err(ce)
            }
        }
    };
}

macro_rules! impl_dynr_words {
    ($($W:ty),*) => {$(
        impl_dynr!(BE, BufBitReader<BE, MemWordReader<$W, Vec<$W>, true>>);
        impl_dynr!(LE, BufBitReader<LE, MemWordReader<$W, Vec<$W>, true>>);
        impl_dynr!(BE, BufBitReader<BE, MemWordReader<$W, Vec<$W>, false>>);
        impl_dynr!(LE, BufBitReader<LE, MemWordReader<$W, Vec<$W>, false>>);
    )*};
}
impl_dynr_words!(u8, u16, u32, u64);
impl_dynr!(BE, BitReader<BE, MemWordReader<u64, Vec<u64>, true>>);
impl_dynr!(LE, BitReader<LE, MemWordReader<u64, Vec<u64>, true>>);
impl_dynr!(BE, BitReader<BE, MemWordReader<u64, Vec<u64>, false>>);
impl_dynr!(LE, BitReader<LE, MemWordReader<u64, Vec<u64>, false>>);



// ---- more backends: byte-stream adapter over a shared Cursor, and a recording word sink -------

/// `Cursor<Vec<u8>>` shared with the harness so the bytes written so far can be inspected
#[derive(Clone)]
pub struct SharedCursor(pub std::rc::Rc<std::cell::RefCell<std::io::Cursor<Vec<u8>>>>);
impl std::io::Write for SharedCursor {
    fn write(&mut self, buf: &[u8]) -> std::io::Result<usize> {
        self.0.borrow_mut().write(buf)
    }
    fn flush(&mut self) -> std::io::Result<()> {
        Ok(())
    }
}

/// a word sink that only records what it is given
pub struct RecW<W>(pub std::rc::Rc<std::cell::RefCell<Vec<W>>>);
macro_rules! impl_recw {
    ($($W:ty),*) => {$(
        impl WordWrite for RecW<$W> {
            type Error = std::convert::Infallible;
            type Word = $W;
            fn write_word(&mut self, word: $W) -> Result<(), Self::Error> {
                self.0.borrow_mut().push(word);
                Ok(())
            }
            fn flush(&mut self) -> Result<(), Self::Error> {
                Ok(())
            }
        }
    )*};
}
impl_recw!(u8, u16, u32, u64, u128);

macro_rules! impl_dynw_more {
    ($($W:ty),*) => {$(
        impl_dynw!(BE, WordAdapter<$W, SharedCursor>);
        impl_dynw!(LE, WordAdapter<$W, SharedCursor>);
        impl_dynw!(BE, RecW<$W>);
        impl_dynw!(LE, RecW<$W>);
    )*};
}
impl_dynw_more!(u8, u16, u32, u64, u128);

macro_rules! impl_dynr_adapter {
    ($($W:ty),*) => {$(
        impl_dynr!(BE, BufBitReader<BE, WordAdapter<$W, std::io::Cursor<Vec<u8>>>>);
        impl_dynr!(LE, BufBitReader<LE, WordAdapter<$W, std::io::Cursor<Vec<u8>>>>);
    )*};
}
impl_dynr_adapter!(u8, u16, u32, u64);
impl_dynr!(BE, BitReader<BE, WordAdapter<u64, std::io::Cursor<Vec<u8>>>>);
impl_dynr!(LE, BitReader<LE, WordAdapter<u64, std::io::Cursor<Vec<u8>>>>);

// ---- counting / tracing wrappers (C14) -----------------------------------------------------

macro_rules! impl_dynw_wrapped {
    ($E:ty, $T:ty, $stat:expr) => {
        impl DynW for $T {
            fn d_write_bits(&mut self, v: u64, n: usize) -> R<usize> {
                BitWrite::<$E>::write_bits(self, v, n).map_err(ce)
            }
            fn d_write_unary(&mut self, x: u64) -> R<usize> {
                BitWrite::<$E>::write_unary(self, x).map_err(ce)
            }
            fn d_flush(&mut self) -> R<usize> {
                BitWrite::<$E>::flush(self).map_err(ce)
            }
            fn d_code(&mut self, code: &str, flags: &str, p: u64, v: u64) -> Option<R<usize>> {
                wcode_body!(self, code, flags, p, v)
            }
            fn d_io_write(&mut self, _b: &[u8]) -> R<usize> {
                Err("bad-op".into())
            }
            fn d_copy_from(&mut self, r: &mut dyn DynR, n: u64) -> R<()> {
                BitWrite::<$E>::copy_from(self, &mut RA::<$E>(r, PhantomData), n).map_err(ce)
            }
            fn d_stat(&self) -> String {
                let f: fn(&$T) -> String = $stat;
                f(self)
            }
        }
    };
}

macro_rules! impl_dynr_wrapped {
    ($E:ty, $T:ty, $stat:expr, $pos:expr, $seek:expr) => {
        impl DynR for $T {
            fn d_read_bits(&mut self, n: usize) -> R<u64> {
                BitRead::<$E>::read_bits(self, n).map_err(ce)
            }
            fn d_peek_bits(&mut self, n: usize) -> R<u64> {
                use common_traits::CastableInto;
                BitRead::<$E>::peek_bits(self, n).map(|x| x.cast()).map_err(ce)
            }
            fn d_skip_bits(&mut self, n: usize) -> R<()> {
                BitRead::<$E>::skip_bits(self, n).map_err(ce)
            }
            fn d_skip_bits_after_peek(&mut self, n: usize) {
                BitRead::<$E>::skip_bits_after_peek(self, n)
            }
            fn d_read_unary(&mut self) -> R<u64> {
                BitRead::<$E>::read_unary(self).map_err(ce)
            }
            fn d_code(&mut self, code: &str, flags: &str, p: u64) -> Option<R<u64>> {
                rcode_body!(self, code, flags, p)
            }
            fn d_io_read(&mut self, _len: usize) -> R<Vec<u8>> {
                Err("bad-op".into())
            }
            fn d_pos(&mut self) -> R<u64> {
                let f: fn(&mut $T) -> R<u64> = $pos;
                f(self)
            }
            fn d_seek(&mut self, p: u64) -> R<()> {
                let f: fn(&mut $T, u64) -> R<()> = $seek;
                f(self, p)
            }
            fn d_clone_box(&self) -> Box<dyn DynR> {
                Box::new(self.clone())
            }
            fn d_copy_to(&mut self, w: &mut dyn DynW, n: u64) -> R<()> {
                BitRead::<$E>::copy_to(self, &mut WA::<$E>(w, PhantomData), n).map_err(ce)
            }
            fn d_stat(&self) -> String {
                let f: fn(&$T) -> String = $stat;
                f(self)
            }
        }
    };
}

macro_rules! impl_wrapped_writers {
    ($($W:ty),*) => {$(
        impl_dynw_wrapped!(BE, CountBitWriter<BE, BufBitWriter<BE, MemWordWriterVec<$W, SharedVec<$W>>>>, |s| format!("bw={}", s.bits_written));
        impl_dynw_wrapped!(LE, CountBitWriter<LE, BufBitWriter<LE, MemWordWriterVec<$W, SharedVec<$W>>>>, |s| format!("bw={}", s.bits_written));
        impl_dynw_wrapped!(BE, DbgBitWriter<BE, BufBitWriter<BE, MemWordWriterVec<$W, SharedVec<$W>>>>, |_s| "-".to_string());
        impl_dynw_wrapped!(LE, DbgBitWriter<LE, BufBitWriter<LE, MemWordWriterVec<$W, SharedVec<$W>>>>, |_s| "-".to_string());
    )*};
}
impl_wrapped_writers!(u8, u16, u32, u64, u128);

macro_rules! impl_wrapped_readers_for {
    ($E:ty, $Inner:ty) => {
        impl_dynr_wrapped!($E, CountBitReader<$E, $Inner>, |s| format!("br={}", s.bits_read),
            |s| BitSeek::bit_pos(s).map_err(ce), |s, p| BitSeek::set_bit_pos(s, p).map_err(ce));
        impl_dynr_wrapped!($E, DbgBitReader<$E, $Inner>, |_s| "-".to_string(),
            |_s| Err("bad-op".into()), |_s, _p| Err("bad-op".into()));
    };
}
macro_rules! impl_wrapped_readers {
    ($($W:ty),*) => {$(
        impl_wrapped_readers_for!(BE, BufBitReader<BE, MemWordReader<$W, Vec<$W>, true>>);
        impl_wrapped_readers_for!(LE, BufBitReader<LE, MemWordReader<$W, Vec<$W>, true>>);
        impl_wrapped_readers_for!(BE, BufBitReader<BE, MemWordReader<$W, Vec<$W>, false>>);
        impl_wrapped_readers_for!(LE, BufBitReader<LE, MemWordReader<$W, Vec<$W>, false>>);
    )*};
}
impl_wrapped_readers!(u8, u16, u32, u64);
impl_wrapped_readers_for!(BE, BitReader<BE, MemWordReader<u64, Vec<u64>, true>>);
impl_wrapped_readers_for!(LE, BitReader<LE, MemWordReader<u64, Vec<u64>, true>>);
impl_wrapped_readers_for!(BE, BitReader<BE, MemWordReader<u64, Vec<u64>, false>>);
impl_wrapped_readers_for!(LE, BitReader<LE, MemWordReader<u64, Vec<u64>, false>>);

#[derive(Clone)]
pub struct Cfg {
    pub le: bool,
    pub ww: usize,
    pub rw: usize,
    pub bit: bool,
    pub strict: bool,
    pub cap: Option<usize>,
    pub data: Vec<u8>,
    pub wrap: u8, // 0 none, 1 count, 2 dbg
    pub wb: u8,   // writer backend: 0 vec / slice (cap), 1 byte-stream adapter, 2 recording sink
    pub rb: u8,   // reader backend: 0 memory, 1 byte-stream adapter over a Cursor
}

/// a writer plus the harness' handle on its storage
pub struct Wr {
    pub w: Box<dyn DynW>,
    pub dump: Box<dyn Fn() -> Vec<u8>>,
}

macro_rules! mk_writer {
    ($E:ty, $W:ty, $cap:expr, $wrap:expr, $wb:expr) => {{
        if $wb == 1 {
            let cur = SharedCursor(std::rc::Rc::new(std::cell::RefCell::new(std::io::Cursor::new(Vec::new()))));
            let h = cur.clone();
            let w = BufBitWriter::<$E, _>::new(WordAdapter::<$W, _>::new(cur));
            Wr { w: Box::new(w), dump: Box::new(move || h.0.borrow().get_ref().clone()) }
        } else if $wb == 2 {
            let store = std::rc::Rc::new(std::cell::RefCell::new(Vec::<$W>::new()));
            let h = store.clone();
            let w = BufBitWriter::<$E, _>::new(RecW::<$W>(store));
            Wr { w: Box::new(w), dump: Box::new(move || bytes_of_words(&h.borrow())) }
        } else {
        match $cap {
            None => {
                let sv = SharedVec::<$W>::new(Vec::new());
                let h = sv.handle();
                let w = BufBitWriter::<$E, _>::new(MemWordWriterVec::new(sv));
                let b: Box<dyn DynW> = match $wrap {
                    1 => Box::new(CountBitWriter::<$E, _>::new(w)),
                    2 => Box::new(DbgBitWriter::<$E, _>::new(w)),
                    _ => Box::new(w),
                };
                Wr { w: b, dump: Box::new(move || bytes_of_words(&h.snapshot())) }
            }
            Some(c) => {
                let sv = SharedVec::<$W>::new(vec![0 as $W; c]);
                let h = sv.handle();
                let w = BufBitWriter::<$E, _>::new(MemWordWriterSlice::new(sv));
                Wr { w: Box::new(w), dump: Box::new(move || bytes_of_words(&h.snapshot())) }
            }
        }
        }
    }};
}

pub fn make_writer(c: &Cfg) -> Option<Wr> {
    Some(match (c.le, c.ww) {
        (false, 8) => mk_writer!(BE, u8, c.cap, c.wrap, c.wb),
        (false, 16) => mk_writer!(BE, u16, c.cap, c.wrap, c.wb),
        (false, 32) => mk_writer!(BE, u32, c.cap, c.wrap, c.wb),
        (false, 64) => mk_writer!(BE, u64, c.cap, c.wrap, c.wb),
        (false, 128) => mk_writer!(BE, u128, c.cap, c.wrap, c.wb),
        (true, 8) => mk_writer!(LE, u8, c.cap, c.wrap, c.wb),
        (true, 16) => mk_writer!(LE, u16, c.cap, c.wrap, c.wb),
        (true, 32) => mk_writer!(LE, u32, c.cap, c.wrap, c.wb),
        (true, 64) => mk_writer!(LE, u64, c.cap, c.wrap, c.wb),
        (true, 128) => mk_writer!(LE, u128, c.cap, c.wrap, c.wb),
        _ => return None,
    })
}

macro_rules! wrap_reader {
    ($E:ty, $r:expr, $wrap:expr) => {{
        let r = $r;
        match $wrap {
            1 => Box::new(CountBitReader::<$E, _>::new(r)) as Box<dyn DynR>,
            2 => Box::new(DbgBitReader::<$E, _>::new(r)) as Box<dyn DynR>,
            _ => Box::new(r) as Box<dyn DynR>,
        }
    }};
}
macro_rules! mk_reader {
    ($E:ty, $W:ty, $strict:expr, $bytes:expr, $wrap:expr) => {{
        let v: Vec<$W> = words_of_bytes::<$W>($bytes);
        if $strict {
            wrap_reader!($E, BufBitReader::<$E, _>::new(MemWordReader::new_strict(v)), $wrap)
        } else {
            wrap_reader!($E, BufBitReader::<$E, _>::new(MemWordReader::new(v)), $wrap)
        }
    }};
}
macro_rules! mk_bitreader {
    ($E:ty, $strict:expr, $bytes:expr, $wrap:expr) => {{
        let v: Vec<u64> = words_of_bytes::<u64>($bytes);
        if $strict {
            wrap_reader!($E, BitReader::<$E, _>::new(MemWordReader::new_strict(v)), $wrap)
        } else {
            wrap_reader!($E, BitReader::<$E, _>::new(MemWordReader::new(v)), $wrap)
        }
    }};
}

macro_rules! mk_adapter_reader {
    ($E:ty, $W:ty, $bytes:expr) => {
        Box::new(BufBitReader::<$E, _>::new(WordAdapter::<$W, _>::new(std::io::Cursor::new($bytes.to_vec())))) as Box<dyn DynR>
    };
}

pub fn make_reader(c: &Cfg, bytes: &[u8]) -> Option<Box<dyn DynR>> {
    if c.rb == 1 && c.wrap == 0 {
        // byte-stream adapter over a Cursor (always strict: read_exact fails at the end)
        if c.bit {
            return Some(if c.le {
                Box::new(BitReader::<LE, _>::new(WordAdapter::<u64, _>::new(std::io::Cursor::new(bytes.to_vec())))) as Box<dyn DynR>
            } else {
                Box::new(BitReader::<BE, _>::new(WordAdapter::<u64, _>::new(std::io::Cursor::new(bytes.to_vec())))) as Box<dyn DynR>
            });
        }
        return Some(match (c.le, c.rw) {
            (false, 8) => mk_adapter_reader!(BE, u8, bytes),
            (false, 16) => mk_adapter_reader!(BE, u16, bytes),
            (false, 32) => mk_adapter_reader!(BE, u32, bytes),
            (false, 64) => mk_adapter_reader!(BE, u64, bytes),
            (true, 8) => mk_adapter_reader!(LE, u8, bytes),
            (true, 16) => mk_adapter_reader!(LE, u16, bytes),
            (true, 32) => mk_adapter_reader!(LE, u32, bytes),
            (true, 64) => mk_adapter_reader!(LE, u64, bytes),
            _ => return None,
        });
    }
    if c.bit {
        return Some(if c.le { mk_bitreader!(LE, c.strict, bytes, c.wrap) } else { mk_bitreader!(BE, c.strict, bytes, c.wrap) });
    }
    Some(match (c.le, c.rw) {
        (false, 8) => mk_reader!(BE, u8, c.strict, bytes, c.wrap),
        (false, 16) => mk_reader!(BE, u16, c.strict, bytes, c.wrap),
        (false, 32) => mk_reader!(BE, u32, c.strict, bytes, c.wrap),
        (false, 64) => mk_reader!(BE, u64, c.strict, bytes, c.wrap),
        (true, 8) => mk_reader!(LE, u8, c.strict, bytes, c.wrap),
        (true, 16) => mk_reader!(LE, u16, c.strict, bytes, c.wrap),
        (true, 32) => mk_reader!(LE, u32, c.strict, bytes, c.wrap),
        (true, 64) => mk_reader!(LE, u64, c.strict, bytes, c.wrap),
        _ => return None,
    })
}

pub fn parse_cfg(toks: &[&str]) -> Cfg {
    let mut c = Cfg { le: false, ww: 64, rw: 32, bit: false, strict: false, cap: None, data: vec![], wrap: 0, wb: 0, rb: 0 };
    for t in toks {
        if let Some((k, v)) = t.split_once('=') {
            match k {
                "e" => c.le = v == "le",
                "ww" => c.ww = v.parse().unwrap_or(64),
                "rw" => c.rw = v.parse().unwrap_or(32),
                "rk" => c.bit = v == "bit",
                "strict" => c.strict = v == "1",
                "cap" => c.cap = v.parse().ok(),
                "data" => c.data = unhex(v).unwrap_or_default(),
                "wrap" => c.wrap = match v { "count" => 1, "dbg" => 2, _ => 0 },
                "wb" => c.wb = match v { "adapter" => 1, "rec" => 2, _ => 0 },
                "rb" => c.rb = match v { "adapter" => 1, _ => 0 },
                _ => {}
            }
        }
    }
    c
}

/// is there a one bit at or after stream position `pos` in `bytes` (canonical layout)?
fn one_ahead(bytes: &[u8], le: bool, pos: u64) -> bool {
    let total = bytes.len() as u64 * 8;
    let mut i = pos;
    while i < total {
        let b = bytes[(i / 8) as usize];
        let bit = if le { (b >> (i % 8)) & 1 } else { (b >> (7 - i % 8)) & 1 };
        if bit != 0 {
            return true;
        }
        i += 1;
    }
    false
}

struct State {
    w: Wr,
    r: Box<dyn DynR>,
    r2: Box<dyn DynR>,
    rdata: Vec<u8>,
    r2data: Vec<u8>,
}

pub fn run(cfg_toks: &[&str], body: &str) -> String {
    let cfg = parse_cfg(cfg_toks);
    let ops: Vec<Vec<&str>> = body
        .split(';')
        .map(|o| o.split_whitespace().collect::<Vec<_>>())
        .filter(|o| !o.is_empty())
        .collect();
    let mut outs: Vec<String> = Vec::new();
    let rw_bytes = if cfg.bit { 8 } else { cfg.rw / 8 };
    let pad = |b: &[u8]| -> Vec<u8> {
        let mut v = b.to_vec();
        while v.len() % rw_bytes != 0 {
            v.push(0);
        }
        v
    };
    let res = catch_unwind(AssertUnwindSafe(|| {
        // readers get whole words (a byte stream with a partial trailing word is the subject of the AD family)
        let data = pad(&cfg.data);
        let (w, r, r2) = match (make_writer(&cfg), make_reader(&cfg, &data), make_reader(&cfg, &data)) {
            (Some(w), Some(r), Some(r2)) => (w, r, r2),
            _ => {
                outs.push("bad-config".into());
                return;
            }
        };
        // never dropped implicitly: BufBitWriter's Drop flushes and unwraps, which must not
        // run while unwinding
        let mut st = ManuallyDrop::new(State { w, r, r2, rdata: data.clone(), r2data: data });
        for op in &ops {
            let cont = step(&cfg, &mut st, op, &mut outs, &pad);
            if !cont {
                break;
            }
        }
        if cfg.cap.is_none() {
            // growable backend: dropping (which flushes) cannot fail
            unsafe { ManuallyDrop::drop(&mut st) };
        }
    }));
    if res.is_err() {
        outs.push("P".into());
    }
    outs.join(";")
}

fn step(cfg: &Cfg, st: &mut State, op: &[&str], outs: &mut Vec<String>, pad: &dyn Fn(&[u8]) -> Vec<u8>) -> bool {
    macro_rules! num_or_bad {
        ($s:expr) => {
            match num($s) {
                Some(x) => x,
                None => {
                    outs.push("bad-op".into());
                    return false;
                }
            }
        };
    }
    macro_rules! emit {
        ($r:expr) => {
            match $r {
                Ok(v) => {
                    outs.push(v.to_string());
                    true
                }
                Err(e) => {
                    outs.push(e);
                    false
                }
            }
        };
    }
    macro_rules! emit_ok {
        ($r:expr) => {
            match $r {
                Ok(_) => {
                    outs.push("ok".into());
                    true
                }
                Err(e) => {
                    outs.push(e);
                    false
                }
            }
        };
    }
    match op {
        ["wb", v, n] => {
            let v = num_or_bad!(v);
            let n = num_or_bad!(n);
            emit!(st.w.w.d_write_bits(v, n as usize))
        }
        ["wu", x] => {
            let x = num_or_bad!(x);
            emit!(st.w.w.d_write_unary(x))
        }
        ["wf"] => emit!(st.w.w.d_flush()),
        ["wc", code, flags, p, v] => {
            let p = num_or_bad!(p);
            let v = num_or_bad!(v);
            match st.w.w.d_code(code, flags, p, v) {
                Some(r) => emit!(r),
                None => {
                    outs.push("bad-op".into());
                    false
                }
            }
        }
        ["wio", h] => match unhex(h) {
            Some(b) => emit!(st.w.w.d_io_write(&b)),
            None => {
                outs.push("bad-op".into());
                false
            }
        },
        ["wd"] => {
            outs.push(hex(&(st.w.dump)()));
            true
        }
        // drop the writer (Drop flushes) / unwrap it (into_inner flushes): report the image it
        // leaves behind and continue with a fresh writer
        ["wdrop"] | ["winto"] => {
            let fresh = match make_writer(cfg) {
                Some(w) => w,
                None => {
                    outs.push("bad-config".into());
                    return false;
                }
            };
            let old = std::mem::replace(&mut st.w, fresh);
            let Wr { w, dump } = old;
            if op[0] == "wdrop" {
                drop(w);
                outs.push(hex(&dump()));
                true
            } else {
                match w.d_into_inner() {
                    Some(Ok(())) => {
                        outs.push(hex(&dump()));
                        true
                    }
                    Some(Err(e)) => {
                        outs.push(e);
                        false
                    }
                    None => {
                        outs.push("bad-op".into());
                        false
                    }
                }
            }
        }
        ["rb", n] => {
            let n = num_or_bad!(n);
            emit!(st.r.d_read_bits(n as usize))
        }
        ["rp", n] => {
            let n = num_or_bad!(n);
            emit!(st.r.d_peek_bits(n as usize))
        }
        ["rsp", n] => {
            let n = num_or_bad!(n);
            st.r.d_skip_bits_after_peek(n as usize);
            outs.push("ok".into());
            true
        }
        ["rs", n] => {
            let n = num_or_bad!(n);
            emit_ok!(st.r.d_skip_bits(n as usize))
        }
        ["ru"] => {
            if !cfg.strict && cfg.rb == 0 {
                let p = st.r.d_pos().unwrap_or(u64::MAX);
                if !one_ahead(&st.rdata, cfg.le, p) {
                    outs.push("loop".into());
                    return false;
                }
            }
            emit!(st.r.d_read_unary())
        }
        ["rc", code, flags, p] => {
            let p = num_or_bad!(p);
            if !cfg.strict && cfg.rb == 0 && !matches!(*code, "omega" | "minbin" | "vbbe" | "vble") {
                let pos = st.r.d_pos().unwrap_or(u64::MAX);
                if !one_ahead(&st.rdata, cfg.le, pos) {
                    outs.push("loop".into());
                    return false;
                }
            }
            match st.r.d_code(code, flags, p) {
                Some(r) => emit!(r),
                None => {
                    outs.push("bad-op".into());
                    false
                }
            }
        }
        ["rio", n] => {
            let n = num_or_bad!(n);
            match st.r.d_io_read(n as usize) {
                Ok(b) => {
                    outs.push(hex(&b));
                    true
                }
                Err(e) => {
                    outs.push(e);
                    false
                }
            }
        }
        ["pos"] => emit!(st.r.d_pos()),
        ["seek", p] => {
            let p = num_or_bad!(p);
            emit_ok!(st.r.d_seek(p))
        }
        ["clone"] => {
            st.r2 = st.r.d_clone_box();
            st.r2data = st.rdata.clone();
            outs.push("ok".into());
            true
        }
        ["swap"] => {
            std::mem::swap(&mut st.r, &mut st.r2);
            std::mem::swap(&mut st.rdata, &mut st.r2data);
            outs.push("ok".into());
            true
        }
        ["stat"] => {
            outs.push(format!("{} {}", st.w.w.d_stat(), st.r.d_stat()));
            true
        }
        ["reopen"] => {
            let bytes = pad(&(st.w.dump)());
            match (make_reader(cfg, &bytes), make_reader(cfg, &bytes)) {
                (Some(a), Some(b)) => {
                    st.r = a;
                    st.r2 = b;
                    st.rdata = bytes.clone();
                    st.r2data = bytes;
                    outs.push("ok".into());
                    true
                }
                _ => {
                    outs.push("bad-config".into());
                    false
                }
            }
        }
        ["ct", n] => {
            let n = num_or_bad!(n);
            emit_ok!(st.r.d_copy_to(&mut *st.w.w, n))
        }
        ["cf", n] => {
            let n = num_or_bad!(n);
            emit_ok!(st.w.w.d_copy_from(&mut *st.r, n))
        }
        ["gc", n] => {
            let n = num_or_bad!(n);
            let r = if cfg.le {
                BitRead::<LE>::copy_to(&mut RA::<LE>(&mut *st.r, PhantomData), &mut WA::<LE>(&mut *st.w.w, PhantomData), n)
                    .map_err(ce)
            } else {
                BitRead::<BE>::copy_to(&mut RA::<BE>(&mut *st.r, PhantomData), &mut WA::<BE>(&mut *st.w.w, PhantomData), n)
                    .map_err(ce)
            };
            emit_ok!(r)
        }
        _ => {
            outs.push("bad-op".into());
            false
        }
    }
}
