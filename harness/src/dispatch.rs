//! `D` (dispatch) and `T` (text / identifiers) requests: every request runs the real library.
//!
//! D <kind> write <be|le> <code> <v>  -> <len> <hex of the flushed BufBitWriter<E, MemWordWriterVec<u64>>>
//! D <kind> read  <be|le> <code> <v>  -> <value> <bit position> <13-bit sentinel read afterwards>
//!                                       (the stream is `v` written with the code's OWN trait
//!                                        method, then the sentinel; the reader is a strict
//!                                        BufBitReader<E, MemWordReader<u32>>)
//! D <kind> len <code> <v>            -> <len>
//!   kind: codes | const | func | factory (read only) | stats (read/write; answer + ` <total>`)
//!   code: `Zeta(3)`, `Gamma` …; for `const` a numeric identifier or a `code_consts` name
//!   `unsupported` when `new` refuses the code, `P` on panic, `E:…` on error.
//! T display|rt|toconst <Variant> <k|->, T parse <hex of the utf-8 text>, T fromconst|constrt <id>,
//! T eq <V1> <k1> <V2> <k2>, T eqw <be|le> <V1> <k1> <V2> <k2> <v>
use crate::util::*;
use dsi_bitstream::prelude::*;
use std::marker::PhantomData;
use std::panic::{catch_unwind, AssertUnwindSafe};

const SENTINEL: u64 = 0x1555;

// ------------------------------------------------------------------------------------------
// the harness' own notion of a code (independent of the library's dispatch and FromStr)
// ------------------------------------------------------------------------------------------

#[derive(Clone, Copy, PartialEq, Eq, Debug)]
enum Fam {
    Unary,
    Gamma,
    Delta,
    Omega,
    VByteLe,
    VByteBe,
    Zeta,
    Pi,
    Golomb,
    ExpGolomb,
    Rice,
}

#[derive(Clone, Copy, Debug)]
struct Own {
    fam: Fam,
    p: u64,
}

const PARAMETERLESS: [(&str, Fam); 6] = [
    ("Unary", Fam::Unary),
    ("Gamma", Fam::Gamma),
    ("Delta", Fam::Delta),
    ("Omega", Fam::Omega),
    ("VByteLe", Fam::VByteLe),
    ("VByteBe", Fam::VByteBe),
];
const PARAMETRIC: [(&str, Fam); 5] = [
    ("Zeta", Fam::Zeta),
    ("Pi", Fam::Pi),
    ("Golomb", Fam::Golomb),
    ("ExpGolomb", Fam::ExpGolomb),
    ("Rice", Fam::Rice),
];

fn own_of_vk(v: &str, k: &str) -> Option<Own> {
    if k == "-" {
        PARAMETERLESS.iter().find(|x| x.0 == v).map(|x| Own { fam: x.1, p: 0 })
    } else {
        let p: u64 = k.parse().ok()?;
        PARAMETRIC.iter().find(|x| x.0 == v).map(|x| Own { fam: x.1, p })
    }
}

/// `Zeta(3)`, `Gamma`
fn own_of_text(s: &str) -> Option<Own> {
    if let Some(x) = PARAMETERLESS.iter().find(|x| x.0 == s) {
        return Some(Own { fam: x.1, p: 0 });
    }
    let (name, rest) = s.split_once('(')?;
    let k = rest.strip_suffix(')')?;
    if k.contains('(') {
        return None;
    }
    own_of_vk(name, k)
}

fn codes_of(o: Own) -> Codes {
    let p = o.p as usize;
    match o.fam {
        Fam::Unary => Codes::Unary,
        Fam::Gamma => Codes::Gamma,
        Fam::Delta => Codes::Delta,
        Fam::Omega => Codes::Omega,
        Fam::VByteLe => Codes::VByteLe,
        Fam::VByteBe => Codes::VByteBe,
        Fam::Zeta => Codes::Zeta { k: p },
        Fam::Pi => Codes::Pi { k: p },
        Fam::Golomb => Codes::Golomb { b: p },
        Fam::ExpGolomb => Codes::ExpGolomb { k: p },
        Fam::Rice => Codes::Rice { log2_b: p },
    }
}

fn vk_text(c: &Codes) -> String {
    match c {
        Codes::Unary => "Unary -".into(),
        Codes::Gamma => "Gamma -".into(),
        Codes::Delta => "Delta -".into(),
        Codes::Omega => "Omega -".into(),
        Codes::VByteLe => "VByteLe -".into(),
        Codes::VByteBe => "VByteBe -".into(),
        Codes::Zeta { k } => format!("Zeta {}", k),
        Codes::Pi { k } => format!("Pi {}", k),
        Codes::Golomb { b } => format!("Golomb {}", b),
        Codes::ExpGolomb { k } => format!("ExpGolomb {}", k),
        Codes::Rice { log2_b } => format!("Rice {}", log2_b),
        #[allow(unreachable_patterns)]
        _ => "? -".into(),
    }
}

/// the code's own trait method
fn own_write<E: Endianness, W: CodesWrite<E>>(w: &mut W, o: Own, v: u64) -> Result<usize, W::Error> {
    let p = o.p as usize;
    match o.fam {
        Fam::Unary => w.write_unary(v),
        Fam::Gamma => w.write_gamma(v),
        Fam::Delta => w.write_delta(v),
        Fam::Omega => w.write_omega(v),
        Fam::VByteLe => w.write_vbyte_le(v),
        Fam::VByteBe => w.write_vbyte_be(v),
        Fam::Zeta => w.write_zeta(v, p),
        Fam::Pi => w.write_pi(v, p),
        Fam::Golomb => w.write_golomb(v, o.p),
        Fam::ExpGolomb => w.write_exp_golomb(v, p),
        Fam::Rice => w.write_rice(v, p),
    }
}

// ------------------------------------------------------------------------------------------
// code_consts: names and values (source order), identifiers for the ConstCode macro
// ------------------------------------------------------------------------------------------

macro_rules! const_table {
    ($($n:ident),*) => { &[$((stringify!($n), code_consts::$n)),*] };
}
const CONSTS: &[(&str, usize)] = const_table!(
    UNARY, GAMMA, DELTA, OMEGA, VBYTE_BE, VBYTE_LE, ZETA1, ZETA2, ZETA3, ZETA4, ZETA5, ZETA6, ZETA7, ZETA8, ZETA9,
    ZETA10, RICE0, RICE1, RICE2, RICE3, RICE4, RICE5, RICE6, RICE7, RICE8, RICE9, RICE10, PI0, PI1, PI2, PI3, PI4, PI5,
    PI6, PI7, PI8, PI9, PI10, GOLOMB1, GOLOMB2, GOLOMB3, GOLOMB4, GOLOMB5, GOLOMB6, GOLOMB7, GOLOMB8, GOLOMB9,
    GOLOMB10, EXP_GOLOMB0, EXP_GOLOMB1, EXP_GOLOMB2, EXP_GOLOMB3, EXP_GOLOMB4, EXP_GOLOMB5, EXP_GOLOMB6, EXP_GOLOMB7,
    EXP_GOLOMB8, EXP_GOLOMB9, EXP_GOLOMB10
);

const PREFIXES: [(&str, Fam, bool); 11] = [
    ("UNARY", Fam::Unary, false),
    ("GAMMA", Fam::Gamma, false),
    ("DELTA", Fam::Delta, false),
    ("OMEGA", Fam::Omega, false),
    ("VBYTE_BE", Fam::VByteBe, false),
    ("VBYTE_LE", Fam::VByteLe, false),
    ("ZETA", Fam::Zeta, true),
    ("PI", Fam::Pi, true),
    ("GOLOMB", Fam::Golomb, true),
    ("EXP_GOLOMB", Fam::ExpGolomb, true),
    ("RICE", Fam::Rice, true),
];

/// `ZETA3` -> ζ₃ (by the naming rule, not by the library's tables)
fn own_of_const_name(name: &str) -> Option<Own> {
    for (pre, fam, has) in PREFIXES.iter() {
        if let Some(rest) = name.strip_prefix(pre) {
            if *has {
                if !rest.is_empty() && rest.bytes().all(|b| b.is_ascii_digit()) {
                    return rest.parse().ok().map(|p| Own { fam: *fam, p });
                }
            } else if rest.is_empty() {
                return Some(Own { fam: *fam, p: 0 });
            }
        }
    }
    None
}

/// identifier and named code of a `const` request token (number or constant name)
fn const_target(tok: &str) -> Option<(usize, Option<Own>)> {
    if let Ok(id) = tok.parse::<usize>() {
        let own = CONSTS.iter().find(|x| x.1 == id).and_then(|x| own_of_const_name(x.0));
        Some((id, own))
    } else {
        let v = CONSTS.iter().find(|x| x.0 == tok)?.1;
        Some((v, own_of_const_name(tok)))
    }
}

/// call `$f::<…, ID>($args)` for the run-time identifier `$id` (all of 0..=50, some beyond)
macro_rules! by_id {
    ($id:expr, $f:ident, $args:tt) => {
        by_id!(@go $id, $f, $args,
            0, 1, 2, 3, 4, 5, 6, 7, 8, 9, 10, 11, 12, 13, 14, 15, 16, 17, 18, 19, 20, 21, 22, 23, 24, 25, 26, 27, 28, 29,
            30, 31, 32, 33, 34, 35, 36, 37, 38, 39, 40, 41, 42, 43, 44, 45, 46, 47, 48, 49, 50,
            51, 52, 53, 60, 63, 64, 100, 127, 128, 255, 256, 1000, 65535, 65536, 4294967295, 4294967296,
            9223372036854775807, 18446744073709551615)
    };
    (@go $id:expr, $f:ident, $args:tt, $($n:literal),*) => {
        match $id {
            $($n => Some($f::<$n> $args),)*
            _ => None,
        }
    };
}

pub const EXTRA_IDS: &str = "51 52 53 60 63 64 100 127 128 255 256 1000 65535 65536 4294967295 4294967296 9223372036854775807 18446744073709551615";

// ------------------------------------------------------------------------------------------
// streams
// ------------------------------------------------------------------------------------------

type Wr<E> = BufBitWriter<E, MemWordWriterVec<u64, Vec<u64>>>;
type Rd<'a, E> = BufBitReader<E, MemWordReader<u32, &'a [u32], false>>;

fn e2s<T: std::error::Error + 'static>(e: T) -> String {
    canon_err(&e)
}

/// an answer, or several that must agree (dynamic and static trait paths)
fn agree(mut v: Vec<(&'static str, String)>) -> String {
    let first = v[0].1.clone();
    if v.iter().all(|x| x.1 == first) {
        first
    } else {
        let parts: Vec<String> = v.drain(..).map(|(l, a)| format!("{}={}", l, a.replace(' ', "_"))).collect();
        format!("MISMATCH {}", parts.join(" "))
    }
}

/// which dispatcher
#[derive(Clone, Copy, PartialEq, Eq)]
enum DK {
    Codes,
    Stats,
    Func,
    Factory,
    Const,
}

struct Fac<E> {
    data: Vec<u32>,
    _e: PhantomData<E>,
}

macro_rules! impl_endian {
    ($E:ty, $write:ident, $read:ident, $eqw:ident, $cw_dyn:ident, $cw_st:ident, $cr_dyn:ident, $cr_st:ident) => {
        impl CodesReaderFactory<$E> for Fac<$E> {
            type CodesReader<'a>
                = Rd<'a, $E>
            where
                Self: 'a;
            fn new_reader(&self) -> Self::CodesReader<'_> {
                BufBitReader::<$E, _>::new(MemWordReader::new_strict(&self.data[..]))
            }
        }

        fn $cw_dyn<const ID: usize>(w: &mut Wr<$E>, v: u64) -> Result<usize, String> {
            ConstCode::<ID>.write(w, v).map_err(e2s)
        }
        fn $cw_st<const ID: usize>(w: &mut Wr<$E>, v: u64) -> Result<usize, String> {
            <ConstCode<ID> as StaticCodeWrite<$E, Wr<$E>>>::write(&ConstCode::<ID>, w, v).map_err(e2s)
        }
        fn $cr_dyn<const ID: usize>(r: &mut Rd<'_, $E>) -> Result<u64, String> {
            ConstCode::<ID>.read(r).map_err(e2s)
        }
        fn $cr_st<'a, const ID: usize>(r: &mut Rd<'a, $E>) -> Result<u64, String> {
            <ConstCode<ID> as StaticCodeRead<$E, Rd<'a, $E>>>::read(&ConstCode::<ID>, r).map_err(e2s)
        }

        /// one write through one path; `path`: 0 = dynamic trait, 1 = static trait
        fn $write(dk: DK, path: usize, code: Option<Codes>, id: usize, v: u64) -> String {
            let mut w: Wr<$E> = BufBitWriter::new(MemWordWriterVec::new(Vec::new()));
            let mut total: Option<u64> = None;
            let res: Result<usize, String> = match dk {
                DK::Codes => {
                    let c = code.unwrap();
                    if path == 0 {
                        c.write(&mut w, v).map_err(e2s)
                    } else {
                        <Codes as StaticCodeWrite<$E, Wr<$E>>>::write(&c, &mut w, v).map_err(e2s)
                    }
                }
                DK::Stats => {
                    let s = CodesStatsWrapper::<Codes>::new(code.unwrap());
                    let r = if path == 0 {
                        DynamicCodeWrite::write(&s, &mut w, v).map_err(e2s)
                    } else {
                        <CodesStatsWrapper<Codes> as StaticCodeWrite<$E, Wr<$E>>>::write(&s, &mut w, v).map_err(e2s)
                    };
                    total = Some(s.stats().lock().unwrap().total);
                    r
                }
                DK::Func => match FuncCodeWriter::<$E, Wr<$E>>::new(code.unwrap()) {
                    Ok(f) => {
                        if path == 0 {
                            f.write(&mut w, v).map_err(e2s)
                        } else {
                            (f.get_func())(&mut w, v).map_err(e2s)
                        }
                    }
                    Err(_) => return "unsupported".into(),
                },
                DK::Factory => return "bad-request".into(),
                DK::Const => {
                    let r = if path == 0 {
                        by_id!(id, $cw_dyn, (&mut w, v))
                    } else {
                        by_id!(id, $cw_st, (&mut w, v))
                    };
                    match r {
                        Some(r) => r,
                        None => return "bad-request".into(),
                    }
                }
            };
            match res {
                Ok(len) => {
                    if let Err(e) = BitWrite::<$E>::flush(&mut w) {
                        return e2s(e);
                    }
                    let words = w.into_inner().unwrap().into_inner();
                    let mut s = format!("{} {}", len, hex(&bytes_of_words(&words)));
                    if let Some(t) = total {
                        s.push_str(&format!(" {}", t));
                    }
                    s
                }
                Err(e) => e,
            }
        }

        /// one read through one path
        fn $read(dk: DK, path: usize, code: Option<Codes>, id: usize, own: Option<Own>, v: u64) -> String {
            let mut w: Wr<$E> = BufBitWriter::new(MemWordWriterVec::new(Vec::new()));
            if let Some(o) = own {
                if let Err(e) = own_write::<$E, _>(&mut w, o, v) {
                    return e2s(e);
                }
            }
            BitWrite::<$E>::write_bits(&mut w, SENTINEL, 13).unwrap();
            BitWrite::<$E>::flush(&mut w).unwrap();
            let words = w.into_inner().unwrap().into_inner();
            let data: Vec<u32> = words_of_bytes::<u32>(&bytes_of_words(&words));
            let fac = Fac::<$E> { data, _e: PhantomData };
            let mut r = fac.new_reader();
            let mut total: Option<u64> = None;
            let res: Result<u64, String> = match dk {
                DK::Codes => {
                    let c = code.unwrap();
                    if path == 0 {
                        c.read(&mut r).map_err(e2s)
                    } else {
                        <Codes as StaticCodeRead<$E, Rd<'_, $E>>>::read(&c, &mut r).map_err(e2s)
                    }
                }
                DK::Stats => {
                    let s = CodesStatsWrapper::<Codes>::new(code.unwrap());
                    let x = if path == 0 {
                        DynamicCodeRead::read(&s, &mut r).map_err(e2s)
                    } else {
                        <CodesStatsWrapper<Codes> as StaticCodeRead<$E, Rd<'_, $E>>>::read(&s, &mut r).map_err(e2s)
                    };
                    total = Some(s.stats().lock().unwrap().total);
                    x
                }
                DK::Func => match FuncCodeReader::<$E, Rd<'_, $E>>::new(code.unwrap()) {
                    Ok(f) => {
                        if path == 0 {
                            f.read(&mut r).map_err(e2s)
                        } else {
                            (f.get_func())(&mut r).map_err(e2s)
                        }
                    }
                    Err(_) => return "unsupported".into(),
                },
                DK::Factory => match FactoryFuncCodeReader::<$E, Fac<$E>>::new(code.unwrap()) {
                    Ok(f) => {
                        if path == 0 {
                            f.get().read(&mut r).map_err(e2s)
                        } else {
                            (f.inner())(&mut r).map_err(e2s)
                        }
                    }
                    Err(_) => return "unsupported".into(),
                },
                DK::Const => {
                    let x = if path == 0 {
                        by_id!(id, $cr_dyn, (&mut r))
                    } else {
                        by_id!(id, $cr_st, (&mut r))
                    };
                    match x {
                        Some(x) => x,
                        None => return "bad-request".into(),
                    }
                }
            };
            match res {
                Ok(val) => {
                    let pos = match BitSeek::bit_pos(&mut r) {
                        Ok(p) => p,
                        Err(e) => return e2s(e),
                    };
                    let sent = match BitRead::<$E>::read_bits(&mut r, 13) {
                        Ok(s) => s,
                        Err(e) => return e2s(e),
                    };
                    let mut s = format!("{} {} {}", val, pos, sent);
                    if let Some(t) = total {
                        s.push_str(&format!(" {}", t));
                    }
                    s
                }
                Err(e) => e,
            }
        }

        /// bytes of `v` written with a code's own method (None: it panicked)
        fn $eqw(o: Own, v: u64) -> Option<(usize, Vec<u8>)> {
            catch_unwind(AssertUnwindSafe(|| {
                let mut w: Wr<$E> = BufBitWriter::new(MemWordWriterVec::new(Vec::new()));
                let len = own_write::<$E, _>(&mut w, o, v).unwrap();
                BitWrite::<$E>::flush(&mut w).unwrap();
                let words = w.into_inner().unwrap().into_inner();
                (len, bytes_of_words(&words))
            }))
            .ok()
        }
    };
}

impl_endian!(BE, write_be, read_be, eqw_be, cw_dyn_be, cw_st_be, cr_dyn_be, cr_st_be);
impl_endian!(LE, write_le, read_le, eqw_le, cw_dyn_le, cw_st_le, cr_dyn_le, cr_st_le);

fn const_len<const ID: usize>(v: u64) -> usize {
    ConstCode::<ID>.len(v)
}

fn guarded<F: FnOnce() -> String>(f: F) -> String {
    match catch_unwind(AssertUnwindSafe(f)) {
        Ok(s) => s,
        Err(_) => "P".into(),
    }
}

fn dk_of(s: &str) -> Option<DK> {
    Some(match s {
        "codes" => DK::Codes,
        "stats" => DK::Stats,
        "func" => DK::Func,
        "factory" => DK::Factory,
        "const" => DK::Const,
        _ => return None,
    })
}

/// (Codes value, identifier, the named code)
fn target(dk: DK, tok: &str) -> Option<(Option<Codes>, usize, Option<Own>)> {
    if dk == DK::Const {
        let (id, own) = const_target(tok)?;
        Some((None, id, own))
    } else {
        let o = own_of_text(tok)?;
        Some((Some(codes_of(o)), 0, Some(o)))
    }
}

pub fn run_d(toks: &[&str]) -> String {
    match toks {
        [kind, "write", e, code, v] => {
            let (dk, v) = match (dk_of(kind), num(v)) {
                (Some(d), Some(v)) => (d, v),
                _ => return "bad-request".into(),
            };
            let (c, id, _) = match target(dk, code) {
                Some(t) => t,
                None => return "bad-request".into(),
            };
            let le = match *e {
                "be" => false,
                "le" => true,
                _ => return "bad-request".into(),
            };
            let one = |path: usize| guarded(|| if le { write_le(dk, path, c, id, v) } else { write_be(dk, path, c, id, v) });
            agree(vec![("dynamic", one(0)), ("static", one(1))])
        }
        [kind, "read", e, code, v] => {
            let (dk, v) = match (dk_of(kind), num(v)) {
                (Some(d), Some(v)) => (d, v),
                _ => return "bad-request".into(),
            };
            let (c, id, own) = match target(dk, code) {
                Some(t) => t,
                None => return "bad-request".into(),
            };
            let le = match *e {
                "be" => false,
                "le" => true,
                _ => return "bad-request".into(),
            };
            let one = |path: usize| {
                guarded(|| if le { read_le(dk, path, c, id, own, v) } else { read_be(dk, path, c, id, own, v) })
            };
            agree(vec![("dynamic", one(0)), ("static", one(1))])
        }
        [kind, "len", code, v] => {
            let (dk, v) = match (dk_of(kind), num(v)) {
                (Some(d), Some(v)) => (d, v),
                _ => return "bad-request".into(),
            };
            let (c, id, _) = match target(dk, code) {
                Some(t) => t,
                None => return "bad-request".into(),
            };
            guarded(|| match dk {
                DK::Codes => c.unwrap().len(v).to_string(),
                DK::Func => match FuncCodeLen::new(c.unwrap()) {
                    Ok(f) => {
                        let a = f.len(v);
                        let b = (f.get_func())(v);
                        if a == b {
                            a.to_string()
                        } else {
                            format!("MISMATCH len={} get_func={}", a, b)
                        }
                    }
                    Err(_) => "unsupported".into(),
                },
                DK::Const => match by_id!(id, const_len, (v)) {
                    Some(l) => l.to_string(),
                    None => "bad-request".into(),
                },
                _ => "bad-request".into(),
            })
        }
        _ => "bad-request".into(),
    }
}

fn show_parse(r: Result<Codes, CodeError>) -> String {
    match r {
        Ok(c) => format!("ok {}", vk_text(&c)),
        Err(CodeError::ParseError(_)) => "E:parse".into(),
        Err(CodeError::UnknownCode(_)) => "E:unknown".into(),
    }
}

pub fn run_t(toks: &[&str]) -> String {
    guarded(|| match toks {
        ["display", v, k] => match own_of_vk(v, k) {
            Some(o) => codes_of(o).to_string(),
            None => "bad-request".into(),
        },
        ["parse", h] => match unhex(h).and_then(|b| String::from_utf8(b).ok()) {
            Some(s) => show_parse(s.parse::<Codes>()),
            None => "bad-request".into(),
        },
        ["rt", v, k] => match own_of_vk(v, k) {
            Some(o) => show_parse(codes_of(o).to_string().parse::<Codes>()),
            None => "bad-request".into(),
        },
        ["toconst", v, k] => match own_of_vk(v, k) {
            Some(o) => match codes_of(o).to_code_const() {
                Ok(id) => id.to_string(),
                Err(_) => "E:unsupported".into(),
            },
            None => "bad-request".into(),
        },
        ["fromconst", id] => match id.parse::<usize>() {
            Ok(id) => match Codes::from_code_const(id) {
                Ok(c) => vk_text(&c),
                Err(_) => "E:unsupported".into(),
            },
            Err(_) => "bad-request".into(),
        },
        ["constrt", id] => match id.parse::<usize>() {
            Ok(id) => match Codes::from_code_const(id).and_then(|c| c.to_code_const()) {
                Ok(x) => x.to_string(),
                Err(_) => "E:unsupported".into(),
            },
            Err(_) => "bad-request".into(),
        },
        ["eq", v1, k1, v2, k2] => match (own_of_vk(v1, k1), own_of_vk(v2, k2)) {
            (Some(a), Some(b)) => {
                let (x, y) = (codes_of(a), codes_of(b));
                let r = x == y;
                if r != (y == x) {
                    "MISMATCH asymmetric".into()
                } else {
                    r.to_string()
                }
            }
            _ => "bad-request".into(),
        },
        ["eqw", e, v1, k1, v2, k2, v] => match (own_of_vk(v1, k1), own_of_vk(v2, k2), num(v)) {
            (Some(a), Some(b), Some(v)) => {
                if codes_of(a) != codes_of(b) {
                    return "ne".into();
                }
                let (x, y) = match *e {
                    "be" => (eqw_be(a, v), eqw_be(b, v)),
                    "le" => (eqw_le(a, v), eqw_le(b, v)),
                    _ => return "bad-request".into(),
                };
                if x == y {
                    "eq same".into()
                } else {
                    "eq differ".into()
                }
            }
            _ => "bad-request".into(),
        },
        ["crt", e, v1, k1, v] => match (own_of_vk(v1, k1), num(v)) {
            (Some(a), Some(v)) => match codes_of(a).to_code_const() {
                Ok(id) => match Codes::from_code_const(id) {
                    Ok(c2) => {
                        let t = vk_text(&c2);
                        let mut it = t.split_whitespace();
                        let b = match (it.next(), it.next()) {
                            (Some(x), Some(y)) => own_of_vk(x, y),
                            _ => None,
                        };
                        match b {
                            Some(b) => {
                                let (x, y) = match *e {
                                    "be" => (eqw_be(a, v), eqw_be(b, v)),
                                    "le" => (eqw_le(a, v), eqw_le(b, v)),
                                    _ => return "bad-request".into(),
                                };
                                if x == y { "eq same".into() } else { "eq differ".into() }
                            }
                            None => "bad-request".into(),
                        }
                    }
                    Err(_) => "E:noback".into(),
                },
                Err(_) => "E:unsupported".into(),
            },
            _ => "bad-request".into(),
        },
        _ => "bad-request".into(),
    })
}
