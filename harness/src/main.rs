//! Correspondence harness: executes the real dsi-bitstream library on the line protocol
//! (one request per line on stdin, one answer per line on stdout).  The Lean driver answers the
//! same requests from the model; `check` diffs the two.
use std::io::{BufRead, Write};

mod dispatch;
mod misc;
mod session;
mod stats;
mod util;

fn main() {
    let args: Vec<String> = std::env::args().collect();
    if args.len() >= 2 && args[1] == "--construct" {
        misc::construct_only(&args[2..]);
        return;
    }
    // panics are outcomes (`P`), not noise
    std::panic::set_hook(Box::new(|_| {}));
    let stdin = std::io::stdin();
    let stdout = std::io::stdout();
    let mut out = std::io::BufWriter::new(stdout.lock());
    let flush_each = std::env::var("HARNESS_FLUSH").is_ok();
    for line in stdin.lock().lines() {
        let line = match line {
            Ok(l) => l,
            Err(_) => break,
        };
        let t = line.trim();
        if t.is_empty() || t.starts_with('#') {
            continue;
        }
        let ans = handle(t);
        writeln!(out, "{}", ans).unwrap();
        if flush_each {
            out.flush().unwrap();
        }
    }
    out.flush().unwrap();
}

fn handle(line: &str) -> String {
    let (hd, body) = match line.find(" :: ") {
        Some(i) => (&line[..i], &line[i + 4..]),
        None => (line, ""),
    };
    let toks: Vec<&str> = hd.split_whitespace().collect();
    if toks.is_empty() {
        return "bad-request".into();
    }
    let guarded = |f: &dyn Fn() -> String| -> String {
        match std::panic::catch_unwind(std::panic::AssertUnwindSafe(f)) {
            Ok(s) => s,
            Err(_) => "P".into(),
        }
    };
    match toks[0] {
        "S" => session::run(&toks[1..], body),
        "MW" => guarded(&|| misc::run_mw(&toks[1..], body)),
        "AD" => guarded(&|| misc::run_ad(&toks[1..], body)),
        "Z" => guarded(&|| misc::run_z(&toks[1..])),
        "VB" => guarded(&|| misc::run_vb(&toks[1..])),
        "TB" => guarded(&|| misc::run_tb(&toks[1..])),
        "D" => guarded(&|| dispatch::run_d(&toks[1..])),
        "T" => guarded(&|| dispatch::run_t(&toks[1..])),
        "ST" => guarded(&|| stats::run_st(&toks[1..])),
        "FC" => guarded(&|| stats::run_fc(&toks[1..])),
        "LEN" => guarded(&|| stats::run_len(false, &toks[1..])),
        "LEN1" => guarded(&|| stats::run_len(true, &toks[1..])),
        _ => "bad-request".into(),
    }
}
