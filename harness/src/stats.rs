//! `ST` (C15), `FC`, `LEN`, `LEN1` (C20) requests: code statistics, the change-point iterator and
//! the length functions of the real library.
use crate::util::num;
use dsi_bitstream::prelude::*;
use std::panic::{catch_unwind, AssertUnwindSafe};
use std::sync::atomic::{AtomicBool, AtomicUsize, Ordering};
use std::sync::mpsc;
use std::sync::Arc;
use std::time::Duration;

type Stats = CodesStats;
type W64<E> = BufBitWriter<E, MemWordWriterVec<u64, Vec<u64>>>;
type R64<E> = BufBitReader<E, MemWordReader<u64, Vec<u64>>>;

fn new_writer<E: Endianness>() -> W64<E>
where
    W64<E>: BitWrite<E>,
{
    BufBitWriter::<E, _>::new(MemWordWriterVec::new(Vec::<u64>::new()))
}

fn parse_updates(s: &str) -> Option<Vec<(u64, u64)>> {
    if s == "-" {
        return Some(vec![]);
    }
    s.split(',')
        .map(|it| {
            let mut p = it.split(':');
            let v = num(p.next()?)?;
            let c = match p.next() {
                Some(c) => num(c)?,
                None => 1,
            };
            if p.next().is_some() {
                return None;
            }
            Some((v, c))
        })
        .collect()
}

fn parse_nums(s: &str) -> Option<Vec<u64>> {
    if s == "-" {
        return Some(vec![]);
    }
    s.split(',').map(num).collect()
}

fn join<T: ToString>(v: &[T]) -> String {
    v.iter().map(|x| x.to_string()).collect::<Vec<_>>().join(",")
}

fn show(s: &Stats) -> String {
    [
        join(&[s.total, s.unary, s.gamma, s.delta, s.omega, s.vbyte]),
        join(&s.zeta),
        join(&s.golomb),
        join(&s.exp_golomb),
        join(&s.rice),
        join(&s.pi),
    ]
    .join("/")
}

fn observe(ups: &[(u64, u64)]) -> Stats {
    let mut s = Stats::default();
    for &(v, c) in ups {
        let r = if c == 1 { s.update(v) } else { s.update_many(v, c) };
        assert_eq!(r, v);
    }
    s
}

fn merge(shape: &str, lists: &[Vec<(u64, u64)>]) -> Option<Stats> {
    let mut st: Vec<Stats> = vec![];
    for t in shape.split('.') {
        match t {
            "a" | "p" | "e" => {
                let y = st.pop()?;
                let mut x = st.pop()?;
                match t {
                    "a" => x.add(&y),
                    "p" => x = x + y,
                    _ => x += y,
                }
                st.push(x);
            }
            _ if t.starts_with('s') => {
                let k = num(&t[1..])? as usize;
                if k > st.len() {
                    return None;
                }
                let items = st.split_off(st.len() - k);
                st.push(items.into_iter().sum());
            }
            _ => {
                let i = num(t)? as usize;
                st.push(observe(lists.get(i)?));
            }
        }
    }
    if st.len() == 1 {
        st.pop()
    } else {
        None
    }
}

/// several threads, every one with its own bit stream, all observing through one shared wrapper:
/// even threads through `write`, odd threads write with the bare code and observe through `read`
fn threads(n: usize, ups: &[(u64, u64)]) -> Stats {
    let code = Codes::Delta;
    let w = CodesStatsWrapper::<Codes>::new(code);
    std::thread::scope(|sc| {
        for t in 0..n {
            let w = &w;
            let mine: Vec<(u64, u64)> = ups.iter().skip(t).step_by(n).cloned().collect();
            sc.spawn(move || {
                let mut wr = new_writer::<LE>();
                if t % 2 == 0 {
                    for (i, &(v, c)) in mine.iter().enumerate() {
                        for _ in 0..c {
                            if i % 2 == 0 {
                                <CodesStatsWrapper<Codes> as DynamicCodeWrite>::write::<LE, _>(w, &mut wr, v).unwrap();
                            } else {
                                <CodesStatsWrapper<Codes> as StaticCodeWrite<LE, W64<LE>>>::write(w, &mut wr, v).unwrap();
                            }
                        }
                    }
                } else {
                    for &(v, c) in &mine {
                        for _ in 0..c {
                            <Codes as DynamicCodeWrite>::write::<LE, _>(&code, &mut wr, v).unwrap();
                        }
                    }
                    let data = wr.into_inner().unwrap().into_inner();
                    let mut rd: R64<LE> = BufBitReader::<LE, _>::new(MemWordReader::new(data));
                    for (i, &(v, c)) in mine.iter().enumerate() {
                        for _ in 0..c {
                            let x = if i % 2 == 0 {
                                <CodesStatsWrapper<Codes> as DynamicCodeRead>::read::<LE, _>(w, &mut rd).unwrap()
                            } else {
                                <CodesStatsWrapper<Codes> as StaticCodeRead<LE, R64<LE>>>::read(w, &mut rd).unwrap()
                            };
                            assert_eq!(x, v);
                        }
                    }
                }
            });
        }
    });
    w.into_inner().1
}

/// observe through a wrapper on writes, take the best code, really encode with it, read back
/// through a wrapper on reads
fn encode(wrap: Codes, ups: &[(u64, u64)]) -> String {
    let w = CodesStatsWrapper::<Codes>::new(wrap);
    let mut wr = new_writer::<BE>();
    for &(v, c) in ups {
        for _ in 0..c {
            <CodesStatsWrapper<Codes> as DynamicCodeWrite>::write::<BE, _>(&w, &mut wr, v).unwrap();
        }
    }
    let (_, stats) = w.into_inner();
    let (best, cost) = stats.best_code();
    // never start an encoding that cannot finish (possible only when the statistics are wrong)
    let planned: u128 = ups.iter().map(|&(v, c)| c as u128 * best.len(v) as u128).sum();
    if planned > 1 << 26 {
        return format!("{} {} too-long-to-encode", best, cost);
    }
    let mut wr = new_writer::<BE>();
    let mut bits = 0u64;
    let mut lens = 0u64;
    for &(v, c) in ups {
        for _ in 0..c {
            bits += <Codes as DynamicCodeWrite>::write::<BE, _>(&best, &mut wr, v).unwrap() as u64;
            lens += best.len(v) as u64;
        }
    }
    let data = wr.into_inner().unwrap().into_inner();
    let rw = CodesStatsWrapper::<Codes>::new(best);
    let mut rd: R64<BE> = BufBitReader::<BE, _>::new(MemWordReader::new(data));
    let mut extra = String::new();
    for &(v, c) in ups {
        for _ in 0..c {
            let x = <CodesStatsWrapper<Codes> as DynamicCodeRead>::read::<BE, _>(&rw, &mut rd).unwrap();
            if x != v && extra.is_empty() {
                extra = format!(" read-back {} for {}", x, v);
            }
        }
    }
    if show(&rw.into_inner().1) != show(&stats) && extra.is_empty() {
        extra = " stats-on-reads-differ".into();
    }
    if lens != bits && extra.is_empty() {
        extra = format!(" code-len {}", lens);
    }
    format!("{} {} {}{}", best, cost, bits, extra)
}

pub fn run_st(args: &[&str]) -> String {
    let a: Vec<String> = args.iter().map(|s| s.to_string()).collect();
    watchdog(move |_| {
        let r: Vec<&str> = a.iter().map(|s| s.as_str()).collect();
        st(&r)
    })
}

fn st(args: &[&str]) -> String {
    let bad = || "bad-request".to_string();
    match args {
        ["upd", ups] => match parse_updates(ups) {
            Some(u) => show(&observe(&u)),
            None => bad(),
        },
        ["threads", n, ups] => match (num(n), parse_updates(ups)) {
            (Some(n), Some(u)) if n >= 1 && n <= 64 => show(&threads(n as usize, &u)),
            _ => bad(),
        },
        ["merge", shape, lists] => {
            let ls: Option<Vec<_>> = lists.split('|').map(parse_updates).collect();
            match ls.and_then(|ls| merge(shape, &ls)) {
                Some(s) => show(&s),
                None => bad(),
            }
        }
        ["best", ups] => match parse_updates(ups) {
            Some(u) => {
                let (c, cost) = observe(&u).best_code();
                format!("{} {}", c, cost)
            }
            None => bad(),
        },
        ["encode", wrap, ups] => match (wrap.parse::<Codes>(), parse_updates(ups)) {
            (Ok(c), Some(u)) => encode(c, &u),
            _ => bad(),
        },
        _ => bad(),
    }
}

// ------------------------------------------------------------------------------------------
// length functions
// ------------------------------------------------------------------------------------------

type LenF = Box<dyn Fn(u64) -> usize + Send + Sync>;

/// `len_<code>[_param::<flags>](v[, p])`
fn len_fn(code: &str, flags: &str, p: u64) -> Option<LenF> {
    let k = p as usize;
    Some(match (code, flags) {
        ("unary", _) => Box::new(|v| Codes::Unary.len(v)),
        ("gamma", "d") => Box::new(len_gamma),
        ("gamma", "0") => Box::new(len_gamma_param::<false>),
        ("gamma", "1") => Box::new(len_gamma_param::<true>),
        ("delta", "d") => Box::new(len_delta),
        ("delta", "00") => Box::new(len_delta_param::<false, false>),
        ("delta", "01") => Box::new(len_delta_param::<false, true>),
        ("delta", "10") => Box::new(len_delta_param::<true, false>),
        ("delta", "11") => Box::new(len_delta_param::<true, true>),
        ("zeta", "d") => Box::new(move |v| len_zeta(v, k)),
        ("zeta", "0") => Box::new(move |v| len_zeta_param::<false>(v, k)),
        ("zeta", "1") => Box::new(move |v| len_zeta_param::<true>(v, k)),
        ("omega", _) => Box::new(len_omega),
        ("pi", _) => Box::new(move |v| len_pi(v, k)),
        ("rice", _) => Box::new(move |v| len_rice(v, k)),
        ("golomb", _) => Box::new(move |v| len_golomb(v, p)),
        ("expg", _) => Box::new(move |v| len_exp_golomb(v, k)),
        ("minbin", _) => Box::new(move |v| len_minimal_binary(v, p)),
        ("vbyte", _) => Box::new(bit_len_vbyte),
        ("vbytes", _) => Box::new(byte_len_vbyte),
        _ => return None,
    })
}

pub fn run_len(single: bool, args: &[&str]) -> String {
    let a = args.to_vec();
    match catch_unwind(AssertUnwindSafe(|| if single { len1(&a) } else { len(&a) })) {
        Ok(s) => s,
        Err(_) => "P".into(),
    }
}

fn len(args: &[&str]) -> String {
    if let [code, flags, p, start, count] = args {
        if let (Some(p), Some(start), Some(count)) = (num(p), num(start), num(count)) {
            if let Some(f) = len_fn(code, flags, p) {
                let mut out: Vec<String> = vec![];
                let mut last: Option<usize> = None;
                for i in 0..count {
                    let v = start + i;
                    let l = f(v);
                    if last != Some(l) {
                        out.push(format!("{}:{}", v, l));
                        last = Some(l);
                    }
                }
                return out.join(",");
            }
        }
    }
    "bad-request".into()
}

fn len1(args: &[&str]) -> String {
    if let [code, flags, p, v] = args {
        if let (Some(p), Some(v)) = (num(p), num(v)) {
            if let Some(f) = len_fn(code, flags, p) {
                return f(v).to_string();
            }
        }
    }
    "bad-request".into()
}

// ------------------------------------------------------------------------------------------
// change points, under a watchdog
// ------------------------------------------------------------------------------------------

static HANGS: AtomicUsize = AtomicUsize::new(0);

/// Runs `job` in a helper thread; no answer within the limit (5 s, 0.5 s once three requests have
/// hung) is answered `HANG`. The job's function argument checks the flag and unwinds, so the helper
/// does not keep spinning.
fn watchdog<J: FnOnce(Arc<AtomicBool>) -> String + Send + 'static>(job: J) -> String {
    let cancel = Arc::new(AtomicBool::new(false));
    let c2 = cancel.clone();
    let (tx, rx) = mpsc::channel();
    std::thread::spawn(move || {
        let r = catch_unwind(AssertUnwindSafe(|| job(c2)));
        let _ = tx.send(r.unwrap_or_else(|_| "P".into()));
    });
    let limit = if HANGS.load(Ordering::Relaxed) >= 3 { 500 } else { 5000 };
    match rx.recv_timeout(Duration::from_millis(limit)) {
        Ok(s) => s,
        Err(_) => {
            cancel.store(true, Ordering::Relaxed);
            HANGS.fetch_add(1, Ordering::Relaxed);
            "HANG".into()
        }
    }
}

fn guarded(f: LenF, cancel: Arc<AtomicBool>) -> impl Fn(u64) -> usize {
    move |x| {
        if cancel.load(Ordering::Relaxed) {
            panic!("cancelled");
        }
        f(x)
    }
}

fn collect(f: LenF, max_items: u64, cancel: Arc<AtomicBool>) -> String {
    let mut it = FindChangePoints::new(guarded(f, cancel));
    let mut out: Vec<String> = vec![];
    for _ in 0..max_items {
        match it.next() {
            Some((x, l)) => out.push(format!("{}:{}", x, l)),
            None => {
                out.push("end".into());
                break;
            }
        }
    }
    out.join(",")
}

pub fn run_fc(args: &[&str]) -> String {
    let bad = || "bad-request".to_string();
    match args {
        ["lib", code, p, max_items] => match (num(p), num(max_items)) {
            (Some(p), Some(n)) => match len_fn(code, "d", p) {
                Some(f) => watchdog(move |c| collect(f, n, c)),
                None => bad(),
            },
            _ => bad(),
        },
        ["steps", max_items, ps] => match (num(max_items), parse_nums(ps)) {
            (Some(n), Some(mut ps)) => {
                ps.sort();
                let f: LenF = Box::new(move |x| ps.partition_point(|&p| p <= x));
                watchdog(move |c| collect(f, n, c))
            }
            _ => bad(),
        },
        ["implied", code, p] => match num(p) {
            Some(p) => match len_fn(code, "d", p) {
                Some(f) => watchdog(move |c| {
                    let (cp, probs) = get_implied_distribution(guarded(f, c));
                    if !cp.is_empty() && probs.len() + 1 != cp.len() {
                        return "bad-weights".into();
                    }
                    if cp.is_empty() {
                        return "-".into();
                    }
                    cp.iter().map(|(x, l)| format!("{}:{}", x, l)).collect::<Vec<_>>().join(",")
                }),
                None => bad(),
            },
            None => bad(),
        },
        _ => bad(),
    }
}
