//! Small families: MW (in-memory word streams), AD (WordAdapter under I/O faults), Z (zig-zag),
//! VB (byte-level VByte), TB (table diagnostics at reader construction).
use crate::util::*;
use dsi_bitstream::prelude::*;
use std::cell::RefCell;
use std::collections::VecDeque;
use std::io::{Cursor, Read, Write};
use std::rc::Rc;

fn ce<E: std::error::Error + 'static>(e: E) -> String {
    canon_err(&e)
}

fn kv<'a>(toks: &[&'a str], key: &str) -> Option<&'a str> {
    toks.iter().find_map(|t| t.split_once('=').and_then(|(k, v)| if k == key { Some(v) } else { None }))
}

fn split_ops(body: &str) -> Vec<Vec<&str>> {
    body.split(';').map(|o| o.split_whitespace().collect::<Vec<_>>()).filter(|o| !o.is_empty()).collect()
}

// ------------------------------------------------------------------------------------------
// MW
// ------------------------------------------------------------------------------------------

trait MwObj {
    fn read(&mut self) -> Result<String, String>;
    fn write(&mut self, v: u128) -> Option<Result<(), String>>;
    fn pos(&mut self) -> String;
    fn seek(&mut self, p: u64) -> Result<(), String>;
    fn len(&self) -> Option<usize>;
}

macro_rules! impl_mw_reader {
    ($W:ty, $B:ty, $INF:literal) => {
        impl<'a> MwObj for MemWordReader<$W, $B, $INF> {
            fn read(&mut self) -> Result<String, String> {
                self.read_word().map(|w| (w as u128).to_string()).map_err(ce)
            }
            fn write(&mut self, _v: u128) -> Option<Result<(), String>> {
                None
            }
            fn pos(&mut self) -> String {
                self.word_pos().map(|p| p.to_string()).unwrap_or_else(ce)
            }
            fn seek(&mut self, p: u64) -> Result<(), String> {
                self.set_word_pos(p).map_err(ce)
            }
            fn len(&self) -> Option<usize> {
                None
            }
        }
    };
}
macro_rules! impl_mw_writer {
    ($W:ty, $T:ident) => {
        impl MwObj for $T<$W, SharedVec<$W>> {
            fn read(&mut self) -> Result<String, String> {
                self.read_word().map(|w| (w as u128).to_string()).map_err(ce)
            }
            fn write(&mut self, v: u128) -> Option<Result<(), String>> {
                Some(self.write_word(v as $W).map_err(ce))
            }
            fn pos(&mut self) -> String {
                self.word_pos().map(|p| p.to_string()).unwrap_or_else(ce)
            }
            fn seek(&mut self, p: u64) -> Result<(), String> {
                self.set_word_pos(p).map_err(ce)
            }
            fn len(&self) -> Option<usize> {
                Some($T::len(self))
            }
        }
    };
}
macro_rules! impl_mw_words {
    ($($W:ty),*) => {$(
        impl_mw_reader!($W, Vec<$W>, true);
        impl_mw_reader!($W, Vec<$W>, false);
        impl_mw_reader!($W, &'a [$W], true);
        impl_mw_reader!($W, &'a [$W], false);
        impl_mw_writer!($W, MemWordWriterSlice);
        impl_mw_writer!($W, MemWordWriterVec);
    )*};
}
impl_mw_words!(u8, u16, u32, u64, u128);

fn mw_run<W: Copy + 'static>(
    kind: &str,
    init: Vec<W>,
    ops: &[Vec<&str>],
    to128: fn(W) -> u128,
    mk: &dyn Fn(&str, Vec<W>, &'static [W]) -> (Box<dyn MwObj>, Box<dyn Fn() -> Vec<W>>),
) -> String {
    // borrowed storage lives for the whole process (leaked: small)
    let leaked: &'static [W] = Box::leak(init.clone().into_boxed_slice());
    let (mut obj, dump) = mk(kind, init, leaked);
    let mut outs: Vec<String> = vec![];
    for op in ops {
        match op.as_slice() {
            ["r"] => match obj.read() {
                Ok(v) => outs.push(v),
                Err(e) => outs.push(e),
            },
            ["w", v] => match num128(v) {
                Some(v) => match obj.write(v) {
                    Some(Ok(())) => outs.push("ok".into()),
                    Some(Err(e)) => outs.push(e),
                    None => {
                        outs.push("bad-op".into());
                        break;
                    }
                },
                None => {
                    outs.push("bad-op".into());
                    break;
                }
            },
            ["pos"] => outs.push(obj.pos()),
            ["seek", p] => match num(p) {
                Some(p) => match obj.seek(p) {
                    Ok(()) => outs.push("ok".into()),
                    Err(e) => outs.push(e),
                },
                None => {
                    outs.push("bad-op".into());
                    break;
                }
            },
            ["len"] => match obj.len() {
                Some(l) => outs.push(l.to_string()),
                None => {
                    outs.push("bad-op".into());
                    break;
                }
            },
            ["dump"] => outs.push(dump().iter().map(|x| to128(*x).to_string()).collect::<Vec<_>>().join(",")),
            _ => {
                outs.push("bad-op".into());
                break;
            }
        }
    }
    outs.join(";")
}

macro_rules! mw_dispatch {
    ($W:ty, $kind:expr, $init:expr, $ops:expr) => {{
        let init: Vec<$W> = $init.iter().map(|x| *x as $W).collect();
        mw_run::<$W>($kind, init, $ops, |x| x as u128, &|kind, init, leaked| {
            let snapshot = init.clone();
            match kind {
                "rz" => (Box::new(MemWordReader::<$W, _>::new(init)), Box::new(move || snapshot.clone())),
                "rs" => (Box::new(MemWordReader::<$W, _, false>::new_strict(init)), Box::new(move || snapshot.clone())),
                "rzb" => (Box::new(MemWordReader::<$W, &'static [$W]>::new(leaked)), Box::new(move || snapshot.clone())),
                "rsb" => {
                    (Box::new(MemWordReader::<$W, &'static [$W], false>::new_strict(leaked)), Box::new(move || snapshot.clone()))
                }
                "ws" => {
                    let sv = SharedVec::<$W>::new(init);
                    let h = sv.handle();
                    (Box::new(MemWordWriterSlice::new(sv)), Box::new(move || h.snapshot()))
                }
                _ => {
                    let sv = SharedVec::<$W>::new(init);
                    let h = sv.handle();
                    (Box::new(MemWordWriterVec::new(sv)), Box::new(move || h.snapshot()))
                }
            }
        })
    }};
}

pub fn run_mw(cfgs: &[&str], body: &str) -> String {
    let w: usize = kv(cfgs, "w").and_then(|x| x.parse().ok()).unwrap_or(64);
    let kind = kv(cfgs, "kind").unwrap_or("rz");
    let init: Vec<u128> = kv(cfgs, "init").unwrap_or("-").split(',').filter_map(num128).collect();
    let ops = split_ops(body);
    match w {
        8 => mw_dispatch!(u8, kind, init, &ops),
        16 => mw_dispatch!(u16, kind, init, &ops),
        32 => mw_dispatch!(u32, kind, init, &ops),
        64 => mw_dispatch!(u64, kind, init, &ops),
        128 => mw_dispatch!(u128, kind, init, &ops),
        _ => "bad-config".into(),
    }
}

// ------------------------------------------------------------------------------------------
// AD: WordAdapter over fault-injecting Read / Write objects
// ------------------------------------------------------------------------------------------

#[derive(Clone, Copy, Debug)]
enum Resp {
    Accept(usize),
    Interrupted,
    Fail,
}

fn parse_sched(s: &str) -> VecDeque<Resp> {
    let mut v = VecDeque::new();
    if s == "-" {
        return v;
    }
    for t in s.split(',') {
        match t {
            "i" => v.push_back(Resp::Interrupted),
            "f" => v.push_back(Resp::Fail),
            "z" => v.push_back(Resp::Accept(0)),
            _ => {
                if let Some(k) = t.strip_prefix('a').and_then(|x| x.parse().ok()) {
                    v.push_back(Resp::Accept(k));
                }
            }
        }
    }
    v
}

struct FaultySink {
    bytes: Rc<RefCell<Vec<u8>>>,
    sched: VecDeque<Resp>,
}
impl Write for FaultySink {
    fn write(&mut self, buf: &[u8]) -> std::io::Result<usize> {
        match self.sched.pop_front() {
            None => {
                self.bytes.borrow_mut().extend_from_slice(buf);
                Ok(buf.len())
            }
            Some(Resp::Accept(k)) => {
                let n = k.min(buf.len());
                self.bytes.borrow_mut().extend_from_slice(&buf[..n]);
                Ok(n)
            }
            Some(Resp::Interrupted) => Err(std::io::Error::new(std::io::ErrorKind::Interrupted, "injected")),
            Some(Resp::Fail) => Err(std::io::Error::new(std::io::ErrorKind::Other, "injected")),
        }
    }
    fn flush(&mut self) -> std::io::Result<()> {
        Ok(())
    }
}

struct FaultySource {
    bytes: Vec<u8>,
    pos: usize,
    sched: VecDeque<Resp>,
}
impl Read for FaultySource {
    fn read(&mut self, buf: &mut [u8]) -> std::io::Result<usize> {
        let avail = self.bytes.len() - self.pos;
        if avail == 0 || buf.is_empty() {
            return Ok(0);
        }
        match self.sched.pop_front() {
            None => {
                let n = avail.min(buf.len());
                buf[..n].copy_from_slice(&self.bytes[self.pos..self.pos + n]);
                self.pos += n;
                Ok(n)
            }
            Some(Resp::Accept(k)) => {
                let n = k.min(buf.len()).min(avail);
                buf[..n].copy_from_slice(&self.bytes[self.pos..self.pos + n]);
                self.pos += n;
                Ok(n)
            }
            Some(Resp::Interrupted) => Err(std::io::Error::new(std::io::ErrorKind::Interrupted, "injected")),
            Some(Resp::Fail) => Err(std::io::Error::new(std::io::ErrorKind::Other, "injected")),
        }
    }
}

macro_rules! ad_write {
    ($W:ty, $sched:expr, $body:expr) => {{
        let bytes = Rc::new(RefCell::new(Vec::new()));
        let mut ad = WordAdapter::<$W, _>::new(FaultySink { bytes: bytes.clone(), sched: $sched });
        let mut outs: Vec<String> = vec![];
        let mut failed = false;
        for w in $body.split(';') {
            let w = w.trim();
            if w.is_empty() {
                continue;
            }
            let b = match unhex(w) {
                Some(b) if b.len() == std::mem::size_of::<$W>() => b,
                _ => continue,
            };
            match ad.write_word(<$W>::from_ne_bytes(b.try_into().unwrap())) {
                Ok(()) => outs.push("ok".into()),
                Err(e) => {
                    outs.push(canon_io(&e));
                    failed = true;
                    break;
                }
            }
        }
        let mut s = outs.join(";");
        if !failed {
            s.push_str("|sink=");
            s.push_str(&hex(&bytes.borrow()));
        }
        s
    }};
}

macro_rules! ad_read {
    ($W:ty, $sched:expr, $data:expr, $count:expr) => {{
        let mut ad = WordAdapter::<$W, _>::new(FaultySource { bytes: $data, pos: 0, sched: $sched });
        let mut outs: Vec<String> = vec![];
        for _ in 0..$count {
            match ad.read_word() {
                Ok(w) => outs.push(hex(&w.to_ne_bytes())),
                Err(e) => {
                    outs.push(canon_io(&e));
                    break;
                }
            }
        }
        outs.join(";")
    }};
}

/// A storage-less seekable byte source: byte `i` is a fixed function of `i`, the length is
/// unbounded. Lets the word-position arithmetic be exercised at positions beyond 2^32 bytes.
pub struct VirtSrc {
    pos: u64,
}

pub fn virt_byte(i: u64) -> u8 {
    (i.wrapping_mul(0x9E37_79B9_7F4A_7C15) >> 56) as u8
}

impl Read for VirtSrc {
    fn read(&mut self, buf: &mut [u8]) -> std::io::Result<usize> {
        for (k, b) in buf.iter_mut().enumerate() {
            *b = virt_byte(self.pos.wrapping_add(k as u64));
        }
        self.pos = self.pos.wrapping_add(buf.len() as u64);
        Ok(buf.len())
    }
}

impl std::io::Seek for VirtSrc {
    fn seek(&mut self, from: std::io::SeekFrom) -> std::io::Result<u64> {
        let p: Option<u64> = match from {
            std::io::SeekFrom::Start(n) => Some(n),
            std::io::SeekFrom::Current(d) => self.pos.checked_add_signed(d),
            std::io::SeekFrom::End(_) => None,
        };
        match p {
            Some(p) => {
                self.pos = p;
                Ok(p)
            }
            None => Err(std::io::Error::new(std::io::ErrorKind::InvalidInput, "invalid seek")),
        }
    }
}

macro_rules! ad_seek {
    ($W:ty, $data:expr, $ops:expr) => {{
        ad_seek_on!($W, Cursor::new($data), $ops)
    }};
}

macro_rules! ad_vseek {
    ($W:ty, $ops:expr) => {{
        ad_seek_on!($W, VirtSrc { pos: 0 }, $ops)
    }};
}

macro_rules! ad_seek_on {
    ($W:ty, $backend:expr, $ops:expr) => {{
        let mut ad = WordAdapter::<$W, _>::new($backend);
        let mut outs: Vec<String> = vec![];
        for op in $ops.iter() {
            match op.as_slice() {
                // a failed read does not end the scenario: positions and seeks afterwards are compared too
                ["rw"] => match ad.read_word() {
                    Ok(w) => outs.push(hex(&w.to_ne_bytes())),
                    Err(e) => outs.push(canon_io(&e)),
                },
                ["wp"] => match ad.word_pos() {
                    Ok(p) => outs.push(p.to_string()),
                    Err(e) => {
                        outs.push(canon_io(&e));
                        break;
                    }
                },
                ["sp", k] => match num(k).map(|k| ad.set_word_pos(k)) {
                    Some(Ok(())) => outs.push("ok".into()),
                    Some(Err(e)) => {
                        outs.push(canon_io(&e));
                        break;
                    }
                    None => {
                        outs.push("bad-op".into());
                        break;
                    }
                },
                _ => {
                    outs.push("bad-op".into());
                    break;
                }
            }
        }
        outs.join(";")
    }};
}

macro_rules! by_width {
    ($w:expr, $m:ident, $($args:expr),*) => {
        match $w {
            8 => $m!(u8, $($args),*),
            16 => $m!(u16, $($args),*),
            32 => $m!(u32, $($args),*),
            64 => $m!(u64, $($args),*),
            128 => $m!(u128, $($args),*),
            _ => "bad-config".to_string(),
        }
    };
}

pub fn run_ad(toks: &[&str], body: &str) -> String {
    if toks.is_empty() {
        return "bad-request".into();
    }
    let mode = toks[0];
    let cfgs = &toks[1..];
    let w: usize = kv(cfgs, "w").and_then(|x| x.parse().ok()).unwrap_or(64);
    let sched = parse_sched(kv(cfgs, "sched").unwrap_or("-"));
    let data = kv(cfgs, "data").and_then(unhex).unwrap_or_default();
    match mode {
        "write" => by_width!(w, ad_write, sched.clone(), body),
        "read" => {
            let count: usize = body.trim().parse().unwrap_or(0);
            by_width!(w, ad_read, sched.clone(), data.clone(), count)
        }
        "seek" => {
            let ops = split_ops(body);
            by_width!(w, ad_seek, data.clone(), ops)
        }
        "vseek" => {
            let ops = split_ops(body);
            by_width!(w, ad_vseek, ops)
        }
        _ => "bad-request".into(),
    }
}

// ------------------------------------------------------------------------------------------
// Z: zig-zag
// ------------------------------------------------------------------------------------------

pub fn run_z(toks: &[&str]) -> String {
    match toks {
        [bits, "tonat", x] => {
            let x: i128 = match x.parse() {
                Ok(x) => x,
                Err(_) => return "bad-request".into(),
            };
            match *bits {
                "8" => (x as i8).to_nat().to_string(),
                "16" => (x as i16).to_nat().to_string(),
                "32" => (x as i32).to_nat().to_string(),
                "64" => (x as i64).to_nat().to_string(),
                "128" => x.to_nat().to_string(),
                "size" => (x as isize).to_nat().to_string(),
                _ => "bad-request".into(),
            }
        }
        [bits, "toint", u] => {
            let u: u128 = match u.parse() {
                Ok(u) => u,
                Err(_) => return "bad-request".into(),
            };
            match *bits {
                "8" => (u as u8).to_int().to_string(),
                "16" => (u as u16).to_int().to_string(),
                "32" => (u as u32).to_int().to_string(),
                "64" => (u as u64).to_int().to_string(),
                "128" => u.to_int().to_string(),
                "size" => (u as usize).to_int().to_string(),
                _ => "bad-request".into(),
            }
        }
        // exhaustive in-process sweep of a 32-bit range against the closed formula and the inverse
        ["sweep32", start, count] => {
            let start: u64 = start.parse().unwrap_or(0);
            let count: u64 = count.parse().unwrap_or(0);
            for u in start..start + count {
                let u = u as u32;
                let x = u.to_int();
                let expect: i64 = if u % 2 == 0 { (u / 2) as i64 } else { -(((u as i64) + 1) / 2) };
                if x as i64 != expect || x.to_nat() != u {
                    return format!("bad {}", u);
                }
            }
            "ok".into()
        }
        _ => "bad-request".into(),
    }
}

// ------------------------------------------------------------------------------------------
// VB: byte-level VByte
// ------------------------------------------------------------------------------------------

pub fn run_vb(toks: &[&str]) -> String {
    fn wr(r: std::io::Result<usize>, buf: &[u8]) -> String {
        match r {
            Ok(n) => format!("{} {}", n, hex(buf)),
            Err(e) => canon_io(&e),
        }
    }
    fn rd(r: std::io::Result<u64>, c: &Cursor<Vec<u8>>) -> String {
        match r {
            Ok(v) => format!("{} {}", v, c.position()),
            Err(e) => canon_io(&e),
        }
    }
    match toks {
        ["wbe", v] => {
            let v = match num(v) { Some(v) => v, None => return "bad-request".into() };
            let mut buf = vec![];
            let r = vbyte_write_be(v, &mut buf);
            wr(r, &buf)
        }
        ["wle", v] => {
            let v = match num(v) { Some(v) => v, None => return "bad-request".into() };
            let mut buf = vec![];
            let r = vbyte_write_le(v, &mut buf);
            wr(r, &buf)
        }
        ["wgen", e, v] => {
            let v = match num(v) { Some(v) => v, None => return "bad-request".into() };
            let mut buf = vec![];
            let r = if *e == "be" { vbyte_write::<BE, _>(v, &mut buf) } else { vbyte_write::<LE, _>(v, &mut buf) };
            wr(r, &buf)
        }
        ["rbe", h] => {
            let mut c = Cursor::new(unhex(h).unwrap_or_default());
            let r = vbyte_read_be(&mut c);
            rd(r, &c)
        }
        ["rle", h] => {
            let mut c = Cursor::new(unhex(h).unwrap_or_default());
            let r = vbyte_read_le(&mut c);
            rd(r, &c)
        }
        ["rgen", e, h] => {
            let mut c = Cursor::new(unhex(h).unwrap_or_default());
            let r = if *e == "be" { vbyte_read::<BE, _>(&mut c) } else { vbyte_read::<LE, _>(&mut c) };
            rd(r, &c)
        }
        ["rt", e, h] => {
            let mut c = Cursor::new(unhex(h).unwrap_or_default());
            let r = if *e == "be" { vbyte_read_be(&mut c) } else { vbyte_read_le(&mut c) };
            match r {
                Ok(v) => {
                    let mut buf = vec![];
                    let _ = if *e == "be" { vbyte_write_be(v, &mut buf) } else { vbyte_write_le(v, &mut buf) };
                    format!("{} {}", v, hex(&buf))
                }
                Err(e) => canon_io(&e),
            }
        }
        ["len", v] => match num(v) {
            Some(v) => byte_len_vbyte(v).to_string(),
            None => "bad-request".into(),
        },
        _ => "bad-request".into(),
    }
}

// ------------------------------------------------------------------------------------------
// TB: diagnostics printed by the reader constructors (captured from a child process' stderr)
// ------------------------------------------------------------------------------------------

/// child mode: construct the reader and exit (the parent reads our stderr)
pub fn construct_only(args: &[String]) {
    let data: Vec<u64> = vec![0; 4];
    match args.iter().map(|s| s.as_str()).collect::<Vec<_>>().as_slice() {
        ["buf", "8"] => drop(BufBitReader::<BE, _>::new(MemWordReader::new(vec![0u8; 4]))),
        ["buf", "16"] => drop(BufBitReader::<BE, _>::new(MemWordReader::new(vec![0u16; 4]))),
        ["buf", "32"] => drop(BufBitReader::<BE, _>::new(MemWordReader::new(vec![0u32; 4]))),
        ["buf", "64"] => drop(BufBitReader::<BE, _>::new(MemWordReader::new(data))),
        ["bit"] => drop(BitReader::<BE, _>::new(MemWordReader::new(data))),
        _ => {}
    }
}

pub fn run_tb(toks: &[&str]) -> String {
    match toks {
        ["diag", rest @ ..] => {
            let exe = match std::env::current_exe() {
                Ok(e) => e,
                Err(_) => return "E:other".into(),
            };
            let out = std::process::Command::new(exe).arg("--construct").args(rest.iter()).output();
            match out {
                Ok(o) => {
                    let err = String::from_utf8_lossy(&o.stderr);
                    let mut names = vec![];
                    for l in err.lines() {
                        if l.contains("DANGER") {
                            if l.contains("γ") {
                                names.push("gamma");
                            } else if l.contains("δ") {
                                names.push("delta");
                            } else if l.contains("ζ") {
                                names.push("zeta3");
                            } else {
                                names.push("other");
                            }
                        }
                    }
                    if names.is_empty() {
                        "-".into()
                    } else {
                        names.join(",")
                    }
                }
                Err(_) => "E:other".into(),
            }
        }
        _ => "bad-request".into(),
    }
}
