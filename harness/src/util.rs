//! Small helpers: hex, numbers, error canonicalisation, word <-> bytes.
use std::cell::UnsafeCell;
use std::rc::Rc;

pub fn hex(bs: &[u8]) -> String {
    if bs.is_empty() {
        return "-".into();
    }
    let mut s = String::with_capacity(bs.len() * 2);
    for b in bs {
        s.push_str(&format!("{:02x}", b));
    }
    s
}

pub fn unhex(s: &str) -> Option<Vec<u8>> {
    if s == "-" {
        return Some(vec![]);
    }
    if s.len() % 2 != 0 {
        return None;
    }
    (0..s.len() / 2)
        .map(|i| u8::from_str_radix(&s[2 * i..2 * i + 2], 16).ok())
        .collect()
}

/// decimal, or hexadecimal with an `x` prefix
pub fn num(s: &str) -> Option<u64> {
    if let Some(h) = s.strip_prefix('x') {
        u64::from_str_radix(h, 16).ok()
    } else {
        s.parse().ok()
    }
}

pub fn num128(s: &str) -> Option<u128> {
    if let Some(h) = s.strip_prefix('x') {
        u128::from_str_radix(h, 16).ok()
    } else {
        s.parse().ok()
    }
}

/// canonical error text from anything that is a std error
pub fn canon_err(e: &(dyn std::error::Error + 'static)) -> String {
    // walk the source chain looking for an io::Error
    let mut cur: Option<&(dyn std::error::Error + 'static)> = Some(e);
    while let Some(c) = cur {
        if let Some(io) = c.downcast_ref::<std::io::Error>() {
            return canon_io(io);
        }
        if let Some(h) = c.downcast_ref::<HErr>() {
            return h.0.clone();
        }
        cur = c.source();
    }
    "E:other".into()
}

pub fn canon_io(e: &std::io::Error) -> String {
    use std::io::ErrorKind::*;
    // an error produced by the harness' own adapters carries the canonical text
    if let Some(inner) = e.get_ref() {
        if let Some(h) = inner.downcast_ref::<HErr>() {
            return h.0.clone();
        }
    }
    match e.kind() {
        UnexpectedEof => "E:eof".into(),
        Interrupted => "E:interrupted".into(),
        WriteZero => "E:writezero".into(),
        Other => "E:io".into(),
        _ => "E:io".into(),
    }
}

/// harness-side error carrying an already canonical text
#[derive(Debug, Clone)]
pub struct HErr(pub String);
impl std::fmt::Display for HErr {
    fn fmt(&self, f: &mut std::fmt::Formatter<'_>) -> std::fmt::Result {
        write!(f, "{}", self.0)
    }
}
impl std::error::Error for HErr {}

/// machine words the library supports
pub trait HWord: Copy + 'static {
    const BYTES: usize;
    fn from_ne(b: &[u8]) -> Self;
    fn ne_bytes(self) -> Vec<u8>;
    fn zero() -> Self;
}
macro_rules! impl_hword {
    ($($t:ty),*) => {$(
        impl HWord for $t {
            const BYTES: usize = std::mem::size_of::<$t>();
            fn from_ne(b: &[u8]) -> Self { <$t>::from_ne_bytes(b.try_into().unwrap()) }
            fn ne_bytes(self) -> Vec<u8> { self.to_ne_bytes().to_vec() }
            fn zero() -> Self { 0 }
        }
    )*};
}
impl_hword!(u8, u16, u32, u64, u128);

pub fn words_of_bytes<W: HWord>(bytes: &[u8]) -> Vec<W> {
    let mut b = bytes.to_vec();
    while b.len() % W::BYTES != 0 {
        b.push(0);
    }
    b.chunks(W::BYTES).map(W::from_ne).collect()
}

pub fn bytes_of_words<W: HWord>(ws: &[W]) -> Vec<u8> {
    ws.iter().flat_map(|w| w.ne_bytes()).collect()
}

/// A vector shared between a library backend (which owns one handle) and the harness (which
/// reads it between operations).  Single-threaded; the harness never holds a reference across
/// a library call.
pub struct SharedVec<W>(pub Rc<UnsafeCell<Vec<W>>>);
impl<W> SharedVec<W> {
    pub fn new(v: Vec<W>) -> Self {
        SharedVec(Rc::new(UnsafeCell::new(v)))
    }
    pub fn handle(&self) -> Self {
        SharedVec(self.0.clone())
    }
    pub fn snapshot(&self) -> Vec<W>
    where
        W: Clone,
    {
        unsafe { (*self.0.get()).clone() }
    }
}
impl<W> AsRef<Vec<W>> for SharedVec<W> {
    fn as_ref(&self) -> &Vec<W> {
        unsafe { &*self.0.get() }
    }
}
impl<W> AsMut<Vec<W>> for SharedVec<W> {
    fn as_mut(&mut self) -> &mut Vec<W> {
        unsafe { &mut *self.0.get() }
    }
}
impl<W> AsRef<[W]> for SharedVec<W> {
    fn as_ref(&self) -> &[W] {
        unsafe { (&*self.0.get()).as_slice() }
    }
}
impl<W> AsMut<[W]> for SharedVec<W> {
    fn as_mut(&mut self) -> &mut [W] {
        unsafe { (&mut *self.0.get()).as_mut_slice() }
    }
}
